/-
  PtaProofs.Lemmas.RenameLayer — the CODE MODEL of LAYER rules commutes with every injective map `φ` of node names
  that preserves the boundary-aware strict-sub-module test between the identifiers the layers list and the names the
  graph and the rule mention (namespace `Pta.RL`): layer mapping, consistency check, layer lookup, the lenient
  detector, the tagged report and `LayerRule.assert_applies`. All results are exact equalities.
-/
import Bridge.Abs
import Bridge.Rename
import Bridge.RenameLayer
import PtaProofs.Lemmas.SearchChar
import PtaProofs.Lemmas.RenameModel
import PtaProofs.Lemmas.RenameBuild
import PtaProofs.Lemmas.RenameNames
namespace Pta.RL
open Pta PtaSpec Pta.RM

/-! ### generic: `Except` and monadic list functions under maps -/

theorem bind_map_comm {α α' β β' : Type} (x : Except ErrKind α) (f : α → α') (k : α → Except ErrKind β)
    (k' : α' → Except ErrKind β') (g : β → β') (h : ∀ a, x = .ok a → k' (f a) = (k a).map g) :
    (x.map f >>= k') = (x >>= k).map g := by
  cases x with
  | error e => rfl
  | ok a => exact h a rfl

theorem mapM_map_mem {α α' β β' : Type} (a : α → α') (b : β → β') (f : α → Except ErrKind β) (f' : α' → Except ErrKind β')
    (l : List α) (h : ∀ x ∈ l, f' (a x) = (f x).map b) : (l.map a).mapM f' = (l.mapM f).map (List.map b) := by
  induction l with
  | nil => rfl
  | cons x xs ih =>
    simp only [List.map_cons, List.mapM_cons, h x (by simp), ih (fun y hy => h y (by simp [hy]))]
    cases f x with
    | error e => rfl
    | ok y =>
      cases xs.mapM f with
      | error e => rfl
      | ok ys => rfl

theorem filterMapM_map_mem {α α' β β' : Type} (a : α → α') (b : β → β') (f : α → Except ErrKind (Option β))
    (f' : α' → Except ErrKind (Option β')) (l : List α) (h : ∀ x ∈ l, f' (a x) = (f x).map (Option.map b)) :
    (l.map a).filterMapM f' = (l.filterMapM f).map (List.map b) := by
  induction l with
  | nil => rfl
  | cons x xs ih =>
    simp only [List.map_cons, List.filterMapM_cons, h x (by simp), ih (fun y hy => h y (by simp [hy]))]
    cases f x with
    | error e => rfl
    | ok o =>
      cases o with
      | none =>
        cases xs.filterMapM f with
        | error e => rfl
        | ok ys => rfl
      | some y =>
        cases xs.filterMapM f with
        | error e => rfl
        | ok ys => rfl

theorem mapM_ok_mem' {α β : Type} (f : α → Except ErrKind β) (l : List α) (r : List β) (h : l.mapM f = .ok r) :
    ∀ y ∈ r, ∃ x ∈ l, f x = .ok y := Pta.mapM_ok_mem f l r h

theorem filterMapM_ok_mem {α β : Type} (f : α → Except ErrKind (Option β)) (l : List α) (r : List β)
    (h : l.filterMapM f = .ok r) : ∀ y ∈ r, ∃ x ∈ l, f x = .ok (some y) := by
  induction l generalizing r with
  | nil =>
    simp only [List.filterMapM_nil, pure, Except.pure, Except.ok.injEq] at h
    subst h; intro y hy; cases hy
  | cons a l ih =>
    rw [List.filterMapM_cons] at h
    cases hfa : f a with
    | error e => simp [hfa, bind, Except.bind] at h
    | ok o =>
      cases hl : l.filterMapM f with
      | error e => cases o <;> simp [hfa, hl, bind, Except.bind] at h
      | ok bs =>
        cases o with
        | none =>
          simp [hfa, hl, bind, Except.bind] at h
          subst h
          intro y hy
          obtain ⟨x, hx, hfx⟩ := ih bs hl y hy
          exact ⟨x, List.mem_cons_of_mem _ hx, hfx⟩
        | some b =>
          simp [hfa, hl, bind, Except.bind, pure, Except.pure] at h
          subst h
          intro y hy
          rcases List.mem_cons.1 hy with rfl | hy
          · exact ⟨a, by simp, hfa⟩
          · obtain ⟨x, hx, hfx⟩ := ih bs hl y hy
            exact ⟨x, List.mem_cons_of_mem _ hx, hfx⟩

/-! ### the layer mapping -/

section Layer
variable (φ : Str → Str) (hφ : ∀ x y, φ x = φ y → x = y)
include hφ

theorem consistent_map (m : LayerMap) : (m.mapIds φ).consistent = m.consistent := by
  simp only [LayerMap.consistent, LayerMap.mapIds, List.all_map, List.any_map, Function.comp_def, contains_map_inj φ hφ]

theorem layerOfListed_map (m : LayerMap) (id : Str) : (m.mapIds φ).layerOfListed (φ id) = m.layerOfListed id := by
  simp only [LayerMap.layerOfListed, LayerMap.mapIds, List.filter_map, Function.comp_def, contains_map_inj φ hφ,
    List.getLast?_map, Option.map_map]

omit hφ in
theorem listed_map (m : LayerMap) : (m.mapIds φ).listed = m.listed.map φ := by
  simp only [LayerMap.listed, LayerMap.mapIds, List.flatMap_map, List.map_flatMap]

omit hφ in
theorem layerOf_eq (m : LayerMap) (n : Str) :
    m.layerOf n = match m.layerOfListed n with
      | some l => .ok (some l)
      | none =>
        match dedup ((m.listed.filter fun c => isStrictSub c n).filterMap m.layerOfListed) with
        | [] => .ok none
        | [l] => .ok (some l)
        | _ => .error .layerMismatch := rfl

/-- the layer lookup of `n` commutes with `φ` as soon as `φ` preserves `isStrictSub c n` for the listed `c` -/
theorem layerOf_map (m : LayerMap) (n : Str) (h : ∀ c ∈ m.listed, isStrictSub (φ c) (φ n) = isStrictSub c n) :
    (m.mapIds φ).layerOf (φ n) = m.layerOf n := by
  rw [layerOf_eq, layerOf_eq, layerOfListed_map φ hφ, listed_map, List.filter_map, List.filterMap_map]
  have h1 : (m.listed.filter ((fun c => isStrictSub c (φ n)) ∘ φ)) = m.listed.filter fun c => isStrictSub c n := by
    apply List.filter_congr
    intro c hc
    exact h c hc
  have h2 : ((m.mapIds φ).layerOfListed ∘ φ) = m.layerOfListed := by
    funext c; exact layerOfListed_map φ hφ m c
  rw [h1, h2]

end Layer

/-! ### the lenient detector -/

/-- the layer lookup of `n` in the mapped layer mapping is the lookup in the original one -/
def LOK (φ : Str → Str) (m : LayerMap) (n : Str) : Prop := (m.mapIds φ).layerOf (φ n) = m.layerOf n

def DepsOK (φ : Str → Str) (m : LayerMap) (ds : List Dep) : Prop := ∀ d ∈ ds, LOK φ m d.1.id ∧ LOK φ m d.2.id

/-- the two dispatchers of `detectL`, named -/
def onE (expl : Option ExplDeps) (flag : Bool) (f : ExplDeps → Except ErrKind (List Dep)) : Except ErrKind (List Dep) :=
  match expl with | some e => if flag then f e else pure [] | none => pure []
def onO (other : Option OtherDeps) (flag : Bool) (f : OtherDeps → Except ErrKind (List Dep)) : Except ErrKind (List Dep) :=
  match other with | some o => if flag then f o else pure [] | none => pure []

section Detect
variable (φ : Str → Str) (m : LayerMap)

theorem dropSameLayer_map (ds : List Dep) (h : DepsOK φ m ds) :
    dropSameLayer (m.mapIds φ) (ds.map (mapDep φ)) = (dropSameLayer m ds).map (List.map (mapDep φ)) := by
  unfold dropSameLayer
  apply filterMapM_map_mem
  intro d hd
  obtain ⟨h1, h2⟩ := h d hd
  have e1 : (mapDep φ d).1.id = φ d.1.id := rfl
  have e2 : (mapDep φ d).2.id = φ d.2.id := rfl
  unfold LOK at h1 h2
  simp only [e1, e2, h1, h2]
  cases m.layerOf d.1.id with
  | error e => rfl
  | ok l1 =>
    cases m.layerOf d.2.id with
    | error e => rfl
    | ok l2 =>
      simp only [bind, Except.bind, pure, Except.pure, Except.map]
      split <;> rfl

theorem realisedL_map (ir : Bool) {κ κ' : Type} (k : κ → κ') (deps : List (κ × List (Str × Str)))
    (h : DepsOK φ m (realised ir deps)) :
    realisedL (m.mapIds φ) ir (deps.map fun kd => (k kd.1, kd.2.map (Prod.map φ φ))) =
      (realisedL m ir deps).map (List.map (mapDep φ)) := by
  unfold realisedL
  rw [realised_map, dropSameLayer_map φ m _ h]

theorem abstractWithoutAny_map (ir : Bool) (deps : ExplDeps)
    (h : ∀ kd ∈ deps, LOK φ m kd.1.1.id ∧ LOK φ m kd.1.2.id) :
    abstractWithoutAny (m.mapIds φ) ir (deps.map (mapExpl φ)) =
      (abstractWithoutAny m ir deps).map (List.map (mapDep φ)) := by
  unfold abstractWithoutAny
  rw [mapM_map_mem (mapExpl φ) (fun t : Option Str × (Dep × List (Str × Str)) => (t.1, mapExpl φ t.2))
    (fun kd => do
      let l ← m.layerOf (if ir then kd.1.2 else kd.1.1).id
      pure (l, kd))]
  · refine bind_map_comm _ _ _ _ _ (fun tagged _ => ?_)
    show Except.ok _ = Except.ok _
    congr 1
    simp only [LayerMap.mapIds, List.flatMap_map, List.map_flatMap]
    congr 1
    funext layer
    simp only [List.filter_map, List.map_map, Function.comp_def, List.isEmpty_map, List.any_map, mapExpl]
    split
    · rfl
    · split
      · rfl
      · simp only [List.map_map, Function.comp_def]
        apply List.map_congr_left
        intro t _
        cases ir <;> rfl
  · intro kd hkd
    obtain ⟨h1, h2⟩ := h kd hkd
    unfold LOK at h1 h2
    cases ir
    · have e : (mapExpl φ kd).1.1.id = φ kd.1.1.id := rfl
      simp only [Bool.false_eq_true, if_false, e, h1]
      cases m.layerOf kd.1.1.id <;> rfl
    · have e : (mapExpl φ kd).1.2.id = φ kd.1.2.id := rfl
      simp only [if_true, e, h2]
      cases m.layerOf kd.1.2.id <;> rfl

theorem anyMissing_map (ir : Bool) (deps : OtherDeps) (objs : List Mod) (h : DepsOK φ m (realised ir deps)) :
    anyMissing (m.mapIds φ) ir (deps.map (mapOther φ)) (objs.map (Mod.mapId φ)) =
      (anyMissing m ir deps objs).map (List.map (mapDep φ)) := by
  unfold anyMissing
  have e : deps.map (mapOther φ) = deps.map fun kd => (Mod.mapId φ kd.1, kd.2.map (Prod.map φ φ)) := rfl
  rw [e, realisedL_map φ m ir (Mod.mapId φ) deps h]
  refine bind_map_comm _ _ _ _ _ (fun r _ => ?_)
  simp only [List.isEmpty_map]
  split
  · rfl
  · show Except.ok _ = Except.ok _
    congr 1
    simp only [List.flatMap_map, List.map_flatMap, List.map_map, Function.comp_def, mapDep]

theorem detectL_eq (b : Behavior) (ir : Bool) (expl : Option ExplDeps) (other : Option OtherDeps) (objs : List Mod) :
    detectL m b ir expl other objs = (do
      let shouldNot ← onE expl b.expExplNotPresent (realisedL m ir)
      let should ← onE expl b.expExplPresent (abstractWithoutAny m ir)
      let shouldOnlyNoImport ← onE expl b.expExplAndNoOther (abstractWithoutAny m ir)
      let shouldOnlyForbidden ← onO other b.expExplAndNoOther (realisedL m ir)
      let shouldExcept ← onO other b.expAtLeastOneOther (fun o => anyMissing m ir o objs)
      let shouldOnlyExceptNoImport ← onO other b.expExplNotButOthers (fun o => anyMissing m ir o objs)
      let shouldOnlyExceptForbidden ← onE expl b.expExplNotButOthers (realisedL m ir)
      let shouldNotExcept ← onO other b.expOtherNotPresent (realisedL m ir)
      pure { should, shouldOnlyForbidden, shouldOnlyNoImport, shouldNot, shouldExcept,
             shouldOnlyExceptForbidden, shouldOnlyExceptNoImport, shouldNotExcept }) := rfl

theorem onE_map (expl : Option ExplDeps) (flag : Bool) (f f' : ExplDeps → Except ErrKind (List Dep))
    (h : ∀ e, expl = some e → f' (e.map (mapExpl φ)) = (f e).map (List.map (mapDep φ))) :
    onE (expl.map (List.map (mapExpl φ))) flag f' = (onE expl flag f).map (List.map (mapDep φ)) := by
  cases expl with
  | none => rfl
  | some e =>
    cases flag
    · rfl
    · exact h e rfl

theorem onO_map (other : Option OtherDeps) (flag : Bool) (f f' : OtherDeps → Except ErrKind (List Dep))
    (h : ∀ o, other = some o → f' (o.map (mapOther φ)) = (f o).map (List.map (mapDep φ))) :
    onO (other.map (List.map (mapOther φ))) flag f' = (onO other flag f).map (List.map (mapDep φ)) := by
  cases other with
  | none => rfl
  | some o =>
    cases flag
    · rfl
    · exact h o rfl

theorem detectL_map (b : Behavior) (ir : Bool) (expl : Option ExplDeps) (other : Option OtherDeps) (objs : List Mod)
    (hE : ∀ e, expl = some e → DepsOK φ m (realised ir e) ∧ ∀ kd ∈ e, LOK φ m kd.1.1.id ∧ LOK φ m kd.1.2.id)
    (hO : ∀ o, other = some o → DepsOK φ m (realised ir o)) :
    detectL (m.mapIds φ) b ir (expl.map (List.map (mapExpl φ))) (other.map (List.map (mapOther φ)))
        (objs.map (Mod.mapId φ)) = (detectL m b ir expl other objs).map (mapV φ) := by
  have hEr : ∀ flag, onE (expl.map (List.map (mapExpl φ))) flag (realisedL (m.mapIds φ) ir) =
      (onE expl flag (realisedL m ir)).map (List.map (mapDep φ)) := fun flag =>
    onE_map φ expl flag _ _ (fun e he => realisedL_map φ m ir (mapDep φ) e (hE e he).1)
  have hEa : ∀ flag, onE (expl.map (List.map (mapExpl φ))) flag (abstractWithoutAny (m.mapIds φ) ir) =
      (onE expl flag (abstractWithoutAny m ir)).map (List.map (mapDep φ)) := fun flag =>
    onE_map φ expl flag _ _ (fun e he => abstractWithoutAny_map φ m ir e (hE e he).2)
  have hOr : ∀ flag, onO (other.map (List.map (mapOther φ))) flag (realisedL (m.mapIds φ) ir) =
      (onO other flag (realisedL m ir)).map (List.map (mapDep φ)) := fun flag =>
    onO_map φ other flag _ _ (fun o ho => realisedL_map φ m ir (Mod.mapId φ) o (hO o ho))
  have hOm : ∀ flag, onO (other.map (List.map (mapOther φ))) flag
        (fun o => anyMissing (m.mapIds φ) ir o (objs.map (Mod.mapId φ))) =
      (onO other flag (fun o => anyMissing m ir o objs)).map (List.map (mapDep φ)) := fun flag =>
    onO_map φ other flag _ _ (fun o ho => anyMissing_map φ m ir o objs (hO o ho))
  rw [detectL_eq, detectL_eq]
  simp only [hEr, hEa, hOr, hOm]
  refine bind_map_comm _ _ _ _ _ (fun a1 _ => ?_)
  refine bind_map_comm _ _ _ _ _ (fun a2 _ => ?_)
  refine bind_map_comm _ _ _ _ _ (fun a3 _ => ?_)
  refine bind_map_comm _ _ _ _ _ (fun a4 _ => ?_)
  refine bind_map_comm _ _ _ _ _ (fun a5 _ => ?_)
  refine bind_map_comm _ _ _ _ _ (fun a6 _ => ?_)
  refine bind_map_comm _ _ _ _ _ (fun a7 _ => ?_)
  refine bind_map_comm _ _ _ _ _ (fun a8 _ => ?_)
  rfl

/-! ### the tagged report -/

theorem impItemsL_map (ir : Bool) (ds : List Dep) (h : DepsOK φ m ds) :
    impItemsL (m.mapIds φ) ir (ds.map (mapDep φ)) = (impItemsL m ir ds).map (List.map (LItem.mapId φ)) := by
  unfold impItemsL
  apply mapM_map_mem
  intro d hd
  obtain ⟨h1, h2⟩ := h d hd
  unfold LOK at h1 h2
  have e1 : (mapDep φ d).1.id = φ d.1.id := rfl
  have e2 : (mapDep φ d).2.id = φ d.2.id := rfl
  cases ir
  · simp only [userOrder, Bool.false_eq_true, if_false, e1, e2, h1, h2]
    cases m.layerOf d.2.id with
    | error e => rfl
    | ok t1 =>
      cases m.layerOf d.1.id with
      | error e => rfl
      | ok t2 => rfl
  · simp only [userOrder, if_true, e1, e2, h1, h2]
    cases m.layerOf d.1.id with
    | error e => rfl
    | ok t1 =>
      cases m.layerOf d.2.id with
      | error e => rfl
      | ok t2 => rfl

omit φ m in
theorem mapM_map_eq {α α' β : Type} (a : α → α') (f : α → Except ErrKind β) (f' : α' → Except ErrKind β)
    (l : List α) (h : ∀ x ∈ l, f' (a x) = f x) : (l.map a).mapM f' = l.mapM f := by
  induction l with
  | nil => rfl
  | cons x xs ih => simp only [List.map_cons, List.mapM_cons, h x (by simp), ih (fun y hy => h y (by simp [hy]))]

omit φ in
theorem missItemsL_eq (any ir : Bool) (ds : List Dep) :
    missItemsL m any ir ds =
      (ds.mapM fun d => do
        let a ← m.layerOf d.1.id
        let b ← m.layerOf d.2.id
        pure (a, b)) >>= fun ls => pure ((dedup (ls.map (·.1))).map fun s =>
          LItem.miss any s (dedup ((ls.filter fun d => d.1 = s).map (·.2))) (!ir)) := rfl

theorem missItemsL_map (any ir : Bool) (ds : List Dep) (h : DepsOK φ m ds) :
    missItemsL (m.mapIds φ) any ir (ds.map (mapDep φ)) = (missItemsL m any ir ds).map (List.map (LItem.mapId φ)) := by
  rw [missItemsL_eq, missItemsL_eq]
  rw [mapM_map_eq (mapDep φ) (fun d => do
        let a ← m.layerOf d.1.id
        let b ← m.layerOf d.2.id
        pure (a, b))]
  · cases (ds.mapM fun d => do
        let a ← m.layerOf d.1.id
        let b ← m.layerOf d.2.id
        pure (a, b)) with
    | error e => rfl
    | ok ls =>
      show Except.ok _ = Except.ok _
      congr 1
      simp only [List.map_map, Function.comp_def, LItem.mapId]
  · intro d hd
    obtain ⟨h1, h2⟩ := h d hd
    unfold LOK at h1 h2
    have e1 : (mapDep φ d).1.id = φ d.1.id := rfl
    have e2 : (mapDep φ d).2.id = φ d.2.id := rfl
    simp only [e1, e2, h1, h2]

/-- every bucket satisfies `DepsOK` -/
def VOK (φ : Str → Str) (m : LayerMap) (v : Violations) : Prop :=
  DepsOK φ m v.should ∧ DepsOK φ m v.shouldOnlyForbidden ∧ DepsOK φ m v.shouldOnlyNoImport ∧ DepsOK φ m v.shouldNot ∧
  DepsOK φ m v.shouldExcept ∧ DepsOK φ m v.shouldOnlyExceptForbidden ∧ DepsOK φ m v.shouldOnlyExceptNoImport ∧
  DepsOK φ m v.shouldNotExcept

theorem reportItemsL_map (ir : Bool) (v : Violations) (h : VOK φ m v) :
    reportItemsL (m.mapIds φ) ir (mapV φ v) = (reportItemsL m ir v).map (List.map (LItem.mapId φ)) := by
  obtain ⟨h1, h2, h3, h4, h5, h6, h7, h8⟩ := h
  unfold reportItemsL
  simp only [mapV, missItemsL_map φ m _ ir _ h1, impItemsL_map φ m ir _ h2, missItemsL_map φ m _ ir _ h3,
    impItemsL_map φ m ir _ h4, missItemsL_map φ m _ ir _ h5, impItemsL_map φ m ir _ h6, missItemsL_map φ m _ ir _ h7,
    impItemsL_map φ m ir _ h8]
  refine bind_map_comm _ _ _ _ _ (fun a1 _ => ?_)
  refine bind_map_comm _ _ _ _ _ (fun a2 _ => ?_)
  refine bind_map_comm _ _ _ _ _ (fun a3 _ => ?_)
  refine bind_map_comm _ _ _ _ _ (fun a4 _ => ?_)
  refine bind_map_comm _ _ _ _ _ (fun a5 _ => ?_)
  refine bind_map_comm _ _ _ _ _ (fun a6 _ => ?_)
  refine bind_map_comm _ _ _ _ _ (fun a7 _ => ?_)
  refine bind_map_comm _ _ _ _ _ (fun a8 _ => ?_)
  show Except.ok _ = Except.ok _
  simp only [List.map_append]

end Detect

/-! ### which names the detector looks up -/

def DepsIn (P : Str → Prop) (ds : List Dep) : Prop := ∀ d ∈ ds, P d.1.id ∧ P d.2.id
def ExplIn (P : Str → Prop) (e : ExplDeps) : Prop := ∀ kd ∈ e, (P kd.1.1.id ∧ P kd.1.2.id) ∧ ∀ p ∈ kd.2, P p.1 ∧ P p.2
def OtherIn (P : Str → Prop) (o : OtherDeps) : Prop := ∀ kd ∈ o, P kd.1.id ∧ ∀ p ∈ kd.2, P p.1 ∧ P p.2
def VIn (P : Str → Prop) (v : Violations) : Prop :=
  DepsIn P v.should ∧ DepsIn P v.shouldOnlyForbidden ∧ DepsIn P v.shouldOnlyNoImport ∧ DepsIn P v.shouldNot ∧
  DepsIn P v.shouldExcept ∧ DepsIn P v.shouldOnlyExceptForbidden ∧ DepsIn P v.shouldOnlyExceptNoImport ∧
  DepsIn P v.shouldNotExcept

theorem bind_ok {α β : Type} {x : Except ErrKind α} {k : α → Except ErrKind β} {r : β} (h : (x >>= k) = .ok r) :
    ∃ a, x = .ok a ∧ k a = .ok r := by
  cases x with
  | error e => cases h
  | ok a => exact ⟨a, rfl, h⟩

section Names
variable (P : Str → Prop) (m : LayerMap)

omit m in
theorem realised_in (ir : Bool) {κ : Type} (deps : List (κ × List (Str × Str)))
    (h : ∀ kd ∈ deps, ∀ p ∈ kd.2, P p.1 ∧ P p.2) : DepsIn P (realised ir deps) := by
  intro d hd
  simp only [realised, List.mem_flatMap, List.mem_map] at hd
  obtain ⟨kd, hkd, p, hp, rfl⟩ := hd
  obtain ⟨h1, h2⟩ := h kd hkd p hp
  cases ir
  · exact ⟨h2, h1⟩
  · exact ⟨h1, h2⟩

omit P in
theorem dropSameLayer_sub (ds r : List Dep) (h : dropSameLayer m ds = .ok r) : ∀ d ∈ r, d ∈ ds := by
  intro d hd
  obtain ⟨x, hx, hfx⟩ := filterMapM_ok_mem _ ds r h d hd
  cases h1 : m.layerOf x.1.id with
  | error e => simp [h1, bind, Except.bind] at hfx
  | ok l1 =>
    cases h2 : m.layerOf x.2.id with
    | error e => simp [h1, h2, bind, Except.bind] at hfx
    | ok l2 =>
      simp only [h1, h2, bind, Except.bind, pure, Except.pure, Except.ok.injEq] at hfx
      split at hfx
      · cases hfx; exact hx
      · cases hfx

theorem realisedL_in (ir : Bool) {κ : Type} (deps : List (κ × List (Str × Str))) (r : List Dep)
    (h : ∀ kd ∈ deps, ∀ p ∈ kd.2, P p.1 ∧ P p.2) (hr : realisedL m ir deps = .ok r) : DepsIn P r :=
  fun d hd => realised_in P ir deps h d (dropSameLayer_sub m _ r hr d hd)

theorem abstractWithoutAny_in (ir : Bool) (deps : ExplDeps) (r : List Dep)
    (h : ∀ kd ∈ deps, P kd.1.1.id ∧ P kd.1.2.id) (hr : abstractWithoutAny m ir deps = .ok r) : DepsIn P r := by
  unfold abstractWithoutAny at hr
  obtain ⟨tagged, ht, hr⟩ := bind_ok hr
  simp only [pure, Except.pure, Except.ok.injEq] at hr
  subst hr
  intro d hd
  simp only [List.mem_flatMap] at hd
  obtain ⟨layer, _, hd⟩ := hd
  split at hd
  · cases hd
  · split at hd
    · cases hd
    · simp only [List.mem_map, List.mem_filter] at hd
      obtain ⟨kd, ⟨t, ⟨ht', _⟩, rfl⟩, rfl⟩ := hd
      obtain ⟨x, hx, hfx⟩ := Pta.mapM_ok_mem _ deps tagged ht t ht'
      have : t.2 = x := by
        cases hl : m.layerOf (if ir = true then x.1.2 else x.1.1).id with
        | error e => simp [hl, bind, Except.bind] at hfx
        | ok l =>
          simp only [hl, bind, Except.bind, pure, Except.pure, Except.ok.injEq] at hfx
          rw [← hfx]
      rw [this]
      obtain ⟨h1, h2⟩ := h x hx
      cases ir
      · exact ⟨h2, h1⟩
      · exact ⟨h1, h2⟩

theorem anyMissing_in (ir : Bool) (deps : OtherDeps) (objs : List Mod) (r : List Dep)
    (h : ∀ kd ∈ deps, P kd.1.id) (ho : ∀ o ∈ objs, P o.id) (hr : anyMissing m ir deps objs = .ok r) : DepsIn P r := by
  unfold anyMissing at hr
  obtain ⟨r0, _, hr⟩ := bind_ok hr
  split at hr
  · simp only [pure, Except.pure, Except.ok.injEq] at hr
    subst hr; intro d hd; cases hd
  · simp only [pure, Except.pure, Except.ok.injEq] at hr
    subst hr
    intro d hd
    simp only [List.mem_flatMap, List.mem_map] at hd
    obtain ⟨kd, hkd, o, ho', rfl⟩ := hd
    exact ⟨h kd hkd, ho o ho'⟩

omit m in
theorem onE_in (expl : Option ExplDeps) (flag : Bool) (f : ExplDeps → Except ErrKind (List Dep)) (r : List Dep)
    (h : ∀ e, expl = some e → ∀ r, f e = .ok r → DepsIn P r) (hr : onE expl flag f = .ok r) : DepsIn P r := by
  cases expl with
  | none => cases hr; intro d hd; cases hd
  | some e =>
    cases flag
    · cases hr; intro d hd; cases hd
    · exact h e rfl r hr

omit m in
theorem onO_in (other : Option OtherDeps) (flag : Bool) (f : OtherDeps → Except ErrKind (List Dep)) (r : List Dep)
    (h : ∀ o, other = some o → ∀ r, f o = .ok r → DepsIn P r) (hr : onO other flag f = .ok r) : DepsIn P r := by
  cases other with
  | none => cases hr; intro d hd; cases hd
  | some o =>
    cases flag
    · cases hr; intro d hd; cases hd
    · exact h o rfl r hr

theorem detectL_in (b : Behavior) (ir : Bool) (expl : Option ExplDeps) (other : Option OtherDeps) (objs : List Mod)
    (v : Violations) (hE : ∀ e, expl = some e → ExplIn P e) (hO : ∀ o, other = some o → OtherIn P o)
    (hobj : ∀ o ∈ objs, P o.id) (hv : detectL m b ir expl other objs = .ok v) : VIn P v := by
  have hEr : ∀ flag r, onE expl flag (realisedL m ir) = .ok r → DepsIn P r := fun flag r =>
    onE_in P expl flag _ r (fun e he r hr => realisedL_in P m ir e r (fun kd hkd => (hE e he kd hkd).2) hr)
  have hEa : ∀ flag r, onE expl flag (abstractWithoutAny m ir) = .ok r → DepsIn P r := fun flag r =>
    onE_in P expl flag _ r (fun e he r hr => abstractWithoutAny_in P m ir e r (fun kd hkd => (hE e he kd hkd).1) hr)
  have hOr : ∀ flag r, onO other flag (realisedL m ir) = .ok r → DepsIn P r := fun flag r =>
    onO_in P other flag _ r (fun o ho r hr => realisedL_in P m ir o r (fun kd hkd => (hO o ho kd hkd).2) hr)
  have hOm : ∀ flag r, onO other flag (fun o => anyMissing m ir o objs) = .ok r → DepsIn P r := fun flag r =>
    onO_in P other flag _ r (fun o ho r hr => anyMissing_in P m ir o objs r (fun kd hkd => (hO o ho kd hkd).1) hobj hr)
  rw [detectL_eq] at hv
  obtain ⟨a1, e1, hv⟩ := bind_ok hv
  obtain ⟨a2, e2, hv⟩ := bind_ok hv
  obtain ⟨a3, e3, hv⟩ := bind_ok hv
  obtain ⟨a4, e4, hv⟩ := bind_ok hv
  obtain ⟨a5, e5, hv⟩ := bind_ok hv
  obtain ⟨a6, e6, hv⟩ := bind_ok hv
  obtain ⟨a7, e7, hv⟩ := bind_ok hv
  obtain ⟨a8, e8, hv⟩ := bind_ok hv
  simp only [pure, Except.pure, Except.ok.injEq] at hv
  subst hv
  exact ⟨hEa _ _ e2, hOr _ _ e4, hEa _ _ e3, hEr _ _ e1, hOm _ _ e5, hEr _ _ e7, hOm _ _ e6, hOr _ _ e8⟩

end Names

/-! ### names in the query results -/

theorem mem_importSuccs (g : PGraph Str) (u v : Str) (h : v ∈ g.importSuccs u) : ∃ e ∈ g.edges, e.src = u ∧ e.dst = v := by
  simp only [PGraph.importSuccs, List.mem_map, List.mem_filter, Bool.and_eq_true, beq_iff_eq] at h
  obtain ⟨e, ⟨he, h1, _⟩, rfl⟩ := h
  exact ⟨e, he, h1, rfl⟩

theorem runQueries_in (P : Str → Prop) (g : PGraph Str) (b : Behavior) (ir : Bool) (S O : List Filter)
    (expl : Option ExplDeps) (other : Option OtherDeps) (h : runQueries g b ir S O = .ok (expl, other))
    (hS : ∀ f ∈ S, P f.id) (hO : ∀ f ∈ O, P f.id) (hg : ∀ e ∈ g.edges, P e.src ∧ P e.dst) :
    (∀ e, expl = some e → ExplIn P e) ∧ (∀ o, other = some o → OtherIn P o) := by
  obtain ⟨h1, h2⟩ := Pta.runQueries_spec g b ir S O expl other h
  have hp : ∀ u v, v ∈ g.importSuccs u → P u ∧ P v := by
    intro u v huv
    obtain ⟨e, he, rfl, rfl⟩ := mem_importSuccs g u v huv
    exact hg e he
  constructor
  · intro e he kd hkd
    obtain ⟨s, hs, o, ho, hk, hd⟩ := h1 e he kd hkd
    refine ⟨?_, fun p hp' => hp p.1 p.2 (hd p.1 p.2 hp').1⟩
    have ps : P s.toMod.id := hS s hs
    have po : P o.toMod.id := hO o ho
    cases ir
    · simp only [userOrder, Bool.false_eq_true, if_false, Prod.mk.injEq] at hk
      rw [hk.1, hk.2] at *
      exact ⟨po, ps⟩
    · simp only [userOrder, if_true] at hk
      rw [hk]
      exact ⟨ps, po⟩
  · intro e he kd hkd
    obtain ⟨s, hs, hk, hd⟩ := h2 e he kd hkd
    refine ⟨?_, fun p hp' => hp p.1 p.2 (hd p.1 p.2 hp').1⟩
    rw [hk]; exact hS s hs

/-! ### the layer mapping of a regex-free rule -/

theorem updateLayerMap_nil (mt : Str → Str → Bool) (mods : List Str) (a : LArch) :
    updateLayerMap mt mods a [] = a.map fun l => (l.1, (l.2.filter fun f => !f.isRegex).map Filter.id) := by
  unfold updateLayerMap
  apply List.map_congr_left
  intro l _
  congr 1
  induction l.2 with
  | nil => rfl
  | cons f fs ih =>
    rw [List.flatMap_cons, ih]
    cases f <;> rfl

theorem updateLayerMap_listed (mt : Str → Str → Bool) (mods : List Str) (a : LArch) :
    (updateLayerMap mt mods a []).listed = a.listedIds := by
  rw [updateLayerMap_nil]
  simp only [LayerMap.listed, LArch.listedIds, List.flatMap_map]

theorem updateLayerMap_map (φ : Str → Str) (mt : Str → Str → Bool) (mods mods' : List Str) (a : LArch) :
    updateLayerMap mt mods' (a.mapIds φ) [] = (updateLayerMap mt mods a []).mapIds φ := by
  rw [updateLayerMap_nil, updateLayerMap_nil]
  simp only [LArch.mapIds, LayerMap.mapIds, List.map_map, Function.comp_def, List.filter_map, mapId_isRegex, mapId_id]

theorem converted_nil (ss os : List Filter) (hss : ∀ f ∈ ss, f.isRegex = false) (hos : ∀ f ∈ os, f.isRegex = false) :
    ((ss ++ os).filter (·.isRegex)).map (·.id) = [] := by
  have : (ss ++ os).filter (·.isRegex) = [] := by
    rw [List.filter_eq_nil_iff]
    intro f hf
    rcases List.mem_append.1 hf with h | h
    · simp [hss f h]
    · simp [hos f h]
  rw [this]; rfl

/-! ### `LayerRuleMatcher.match` and `LayerRule.assert_applies` -/

section Match
variable (φ : Str → Str) (hφ : ∀ x y, φ x = φ y → x = y)
include hφ

theorem matchLayerRule_map (mt : Str → Str → Bool) (g : PGraph Str) (a : LArch) (b : Behavior) (d : Bool)
    (ss os : List Filter) (hss : ∀ f ∈ ss, f.isRegex = false) (hos : ∀ f ∈ os, f.isRegex = false)
    (hsub : subOK φ a.listedIds (g.names ++ (ss ++ os).map Filter.id)) :
    matchLayerRule mt (mapGraph φ g) (a.mapIds φ) b d (ss.map (Filter.mapId φ)) (os.map (Filter.mapId φ)) =
      (matchLayerRule mt g a b d ss os).mapId φ := by
  unfold matchLayerRule
  rw [Pta.Hist.convertFilters_noregex mt _ _ (noregex_map φ ss hss), Pta.Hist.convertFilters_noregex mt _ _ (noregex_map φ os hos),
    Pta.Hist.convertFilters_noregex mt _ _ hss, Pta.Hist.convertFilters_noregex mt _ _ hos]
  simp only [runQueries_map φ hφ]
  cases hq : runQueries g b d ss os with
  | error k => rfl
  | ok p =>
    obtain ⟨expl, other⟩ := p
    have hc' : (((ss.map (Filter.mapId φ)) ++ (os.map (Filter.mapId φ))).filter (·.isRegex)).map (·.id) = [] :=
      converted_nil _ _ (noregex_map φ ss hss) (noregex_map φ os hos)
    have hm : updateLayerMap mt (mapGraph φ g).nodes (a.mapIds φ) [] = (updateLayerMap mt g.nodes a []).mapIds φ :=
      updateLayerMap_map φ mt g.nodes _ a
    simp only [Except.map, mapQ, hc', converted_nil ss os hss hos, hm, consistent_map φ hφ]
    generalize hmdef : updateLayerMap mt g.nodes a [] = m
    have hlisted : m.listed = a.listedIds := by rw [← hmdef]; exact updateLayerMap_listed mt g.nodes a
    -- every name the graph or the rule mentions is looked up alike
    have hlok : ∀ n, n ∈ g.names ++ (ss ++ os).map Filter.id → LOK φ m n := by
      intro n hn
      apply layerOf_map φ hφ m n
      intro c hc
      rw [hlisted] at hc
      exact hsub c hc n hn
    have hS : ∀ f ∈ ss, LOK φ m f.id := fun f hf =>
      hlok _ (List.mem_append_right _ (List.mem_map_of_mem (List.mem_append_left _ hf)))
    have hO : ∀ f ∈ os, LOK φ m f.id := fun f hf =>
      hlok _ (List.mem_append_right _ (List.mem_map_of_mem (List.mem_append_right _ hf)))
    have hg : ∀ e ∈ g.edges, LOK φ m e.src ∧ LOK φ m e.dst := by
      intro e he
      constructor
      · apply hlok; apply List.mem_append_left; unfold PGraph.names
        exact List.mem_append_right _ (List.mem_flatMap.2 ⟨e, he, by simp⟩)
      · apply hlok; apply List.mem_append_left; unfold PGraph.names
        exact List.mem_append_right _ (List.mem_flatMap.2 ⟨e, he, by simp⟩)
    obtain ⟨hE, hOt⟩ := runQueries_in (LOK φ m) g b d ss os expl other hq hS hO hg
    have hobj : (os.map (Filter.mapId φ)).map Filter.toMod = (os.map Filter.toMod).map (Mod.mapId φ) := by
      simp only [List.map_map, Function.comp_def, mapId_toMod]
    have hobjs : ∀ o ∈ os.map Filter.toMod, LOK φ m o.id := by
      intro o ho
      obtain ⟨f, hf, rfl⟩ := List.mem_map.1 ho
      exact hO f hf
    split
    · rfl
    · rw [hobj, detectL_map φ m b d expl other _
        (fun e he => ⟨realised_in _ d e (fun kd hkd => (hE e he kd hkd).2), fun kd hkd => (hE e he kd hkd).1⟩)
        (fun o ho => realised_in _ d o (fun kd hkd => (hOt o ho kd hkd).2))]
      cases hv : detectL m b d expl other (os.map Filter.toMod) with
      | error k => rfl
      | ok v =>
        have hvin := detectL_in (LOK φ m) m b d expl other _ v hE hOt hobjs hv
        simp only [Except.map, mapV_any]
        split
        · rw [reportItemsL_map φ m d v hvin]
          cases reportItemsL m d v with
          | error k => rfl
          | ok items => rfl
        · rfl

omit hφ in
theorem convertAliases_sub (c : RuleConfig) :
    (∀ ss, (convertAliases c).subjects = some ss → ∃ ss0, c.subjects = some ss0 ∧ ∀ f ∈ ss, f ∈ ss0) ∧
    (∀ os, (convertAliases c).objects = some os →
      (∃ os0, c.objects = some os0 ∧ ∀ f ∈ os, f ∈ os0) ∨ (∃ ss0, c.subjects = some ss0 ∧ ∀ f ∈ os, f ∈ ss0)) := by
  unfold convertAliases
  split
  · exact ⟨fun ss h => ⟨ss, h, fun f hf => hf⟩, fun os h => .inl ⟨os, h, fun f hf => hf⟩⟩
  · cases hs : c.subjects with
    | none => simp
    | some ss0 =>
      simp only [Option.map_some, Option.some.injEq]
      constructor
      · rintro ss rfl; exact ⟨ss0, rfl, dedupSubjects_sub ss0⟩
      · rintro os rfl; exact .inr ⟨ss0, rfl, dedupSubjects_sub ss0⟩

omit hφ in
theorem mem_ids_subject (c : RuleConfig) (ss : List Filter) (h : c.subjects = some ss) (f : Filter) (hf : f ∈ ss) :
    f.id ∈ c.ids := by
  unfold RuleConfig.ids
  rw [h]
  exact List.mem_map_of_mem (List.mem_append_left _ hf)

omit hφ in
theorem mem_ids_object (c : RuleConfig) (os : List Filter) (h : c.objects = some os) (f : Filter) (hf : f ∈ os) :
    f.id ∈ c.ids := by
  unfold RuleConfig.ids
  rw [h]
  exact List.mem_map_of_mem (List.mem_append_right _ hf)

omit hφ in
theorem cfgNoRegex_convert (c : RuleConfig) (hreg : cfgNoRegex c) : cfgNoRegex (convertAliases c) := by
  obtain ⟨h1, h2⟩ := convertAliases_sub c
  constructor
  · intro ss hss f hf
    obtain ⟨ss0, e, hsub⟩ := h1 ss hss
    exact hreg.1 ss0 e f (hsub f hf)
  · intro os hos f hf
    rcases h2 os hos with ⟨os0, e, hsub⟩ | ⟨ss0, e, hsub⟩
    · exact hreg.2 os0 e f (hsub f hf)
    · exact hreg.1 ss0 e f (hsub f hf)

/-- `LayerRule.assert_applies` commutes with every injective map of node names that preserves the strict-sub-module
    test between (layer-listed or rule) identifiers and (graph or rule) names, for every layered architecture and every
    regex-free rule object -/
theorem assertAppliesLayer_map (mt : Str → Str → Bool) (g : PGraph Str) (a : LArch) (r : RuleState)
    (hreg : cfgNoRegex r.cfg) (hsub : subOK φ (a.listedIds ++ r.cfg.ids) (g.names ++ r.cfg.ids)) :
    assertAppliesLayer mt ⟨some (a.mapIds φ), some (r.mapId φ)⟩ (mapGraph φ g) =
      (assertAppliesLayer mt ⟨some a, some r⟩ g).mapId φ := by
  have hcs : cfgSubOK φ r.cfg := by
    intro ss hss f hf f' hf'
    exact hsub _ (List.mem_append_right _ (mem_ids_subject _ ss hss f hf)) _
      (List.mem_append_right _ (mem_ids_subject _ ss hss f' hf'))
  unfold assertAppliesLayer
  simp only
  have hmis : anythingMisused (r.mapId φ).cfg = anythingMisused r.cfg := rfl
  rw [hmis]
  split
  · rfl
  · have hca : convertAliases (r.mapId φ).cfg = (convertAliases r.cfg).mapId φ := convertAliases_map φ r.cfg hcs
    simp only [hca, configMissing_map, droppedAbsent_map φ hφ]
    split
    · rfl
    split
    · rfl
    · have hb : ((convertAliases r.cfg).mapId φ).behavior = (convertAliases r.cfg).behavior := rfl
      rw [hb]
      split
      · rfl
      · have hreg' := cfgNoRegex_convert r.cfg hreg
        obtain ⟨hs1, hs2⟩ := convertAliases_sub r.cfg
        generalize convertAliases r.cfg = c at hreg' hs1 hs2
        obtain ⟨subjects, objects, sh, so, sn, ep, dir, anyt, drp⟩ := c
        cases dir <;> cases subjects <;> cases objects <;> try rfl
        rename_i d ss os
        simp only [RuleConfig.mapId, Option.map_some]
        apply matchLayerRule_map φ hφ mt g a _ d ss os (hreg'.1 ss rfl) (hreg'.2 os rfl)
        intro x hx y hy
        apply hsub x (List.mem_append_left _ hx) y
        rcases List.mem_append.1 hy with hy | hy
        · exact List.mem_append_left _ hy
        · apply List.mem_append_right
          obtain ⟨f, hf, rfl⟩ := List.mem_map.1 hy
          rcases List.mem_append.1 hf with hf | hf
          · obtain ⟨ss0, e, hin⟩ := hs1 ss rfl
            exact mem_ids_subject _ ss0 e f (hin f hf)
          · rcases hs2 os rfl with ⟨os0, e, hin⟩ | ⟨ss0, e, hin⟩
            · exact mem_ids_object _ os0 e f (hin f hf)
            · exact mem_ids_subject _ ss0 e f (hin f hf)

end Match

/-! ### instantiation: the component-wise renaming of a well-formed architecture and of well-formed layers -/

/-- a raw string that is a well-formed dotted name -/
def wfStr (s : Str) : Prop := nameWF (splitDots s) = true

theorem wfStr_render (n : Name) (hn : nameWF n = true) : wfStr (render n) := by
  unfold wfStr; rw [splitDots_render n hn]; exact hn

theorem renStr_strictSub_wf {ρ : Comp → Comp} (hρ : GoodRen ρ) (x y : Str) (hx : wfStr x) (hy : wfStr y) :
    isStrictSub (renStr ρ x) (renStr ρ y) = isStrictSub x y := by
  have ex : x = render (splitDots x) := (joinDots_splitDots x).symm
  have ey : y = render (splitDots y) := (joinDots_splitDots y).symm
  rw [ex, ey]
  exact renStr_strictSub hρ _ _ hx hy

theorem subOK_of_wf {ρ : Comp → Comp} (hρ : GoodRen ρ) (xs ys : List Str) (hx : ∀ x ∈ xs, wfStr x) (hy : ∀ y ∈ ys, wfStr y) :
    subOK (renStr ρ) xs ys := fun x hxm y hym => renStr_strictSub_wf hρ x y (hx x hxm) (hy y hym)

/-- every name the graph of a well-formed architecture mentions is a well-formed dotted name -/
theorem archGraph_names_wf (a : Arch) (hwf : a.wf = true) : ∀ n ∈ (archGraph a).names, wfStr n := by
  have h := archGraph_fix a hwf
  generalize archGraph a = g at h
  obtain ⟨nodes, edges⟩ := g
  simp only [mapGraph, PGraph.mk.injEq] at h
  obtain ⟨hn, he⟩ := h
  intro n hn'
  unfold wfStr
  rw [← fixW_eq_iff]
  simp only [PGraph.names, List.mem_append, List.mem_flatMap] at hn'
  rcases hn' with hn' | ⟨e, he', hn'⟩
  · exact fix_of_map fixW nodes hn n hn'
  · have := fix_of_map _ edges he e he'
    obtain ⟨src, dst, inh⟩ := e
    simp only [Edge.mk.injEq, and_true] at this
    simp only [List.mem_cons, List.not_mem_nil, or_false] at hn'
    rcases hn' with rfl | rfl
    · exact this.1
    · exact this.2

theorem layersWF_iff (ls : Layers) : layersWF ls = true ↔ ∀ l ∈ ls, ∀ x ∈ l.2, nameWF x = true := by
  simp only [layersWF, List.all_eq_true]

theorem compileLArch_ren (ρ : Comp → Comp) (ls : Layers) (hls : layersWF ls = true) :
    compileLArch (renLayers ρ ls) = (compileLArch ls).mapIds (renStr ρ) := by
  rw [layersWF_iff] at hls
  simp only [compileLArch, renLayers, LArch.mapIds, List.map_map]
  apply List.map_congr_left
  intro l hl
  simp only [Function.comp_def, List.map_map, Prod.mk.injEq, true_and]
  apply List.map_congr_left
  intro x hx
  simp only [Filter.mapId, renStr_render ρ x (hls l hl x hx)]

theorem compileLArch_listedIds (ls : Layers) : (compileLArch ls).listedIds = (ls.flatMap (·.2)).map render := by
  simp only [LArch.listedIds, compileLArch, List.flatMap_map, List.map_flatMap, List.filter_map, List.map_map, Function.comp_def,
    Filter.isRegex, Bool.not_false, Filter.id]
  congr 1; funext l; congr 1
  exact List.filter_eq_self.2 (fun _ _ => rfl)

theorem getD_mapIds (φ : Str → Str) (a : LArch) (n : Str) : (a.mapIds φ).getD n = (a.getD n).map (Filter.mapId φ) := by
  simp only [LArch.getD, LArch.get, LArch.mapIds, List.find?_map, Function.comp_def]
  cases a.find? (fun l => l.1 == n) <;> rfl

theorem compileLayerRule_map (φ : Str → Str) (L : LArch) (r : LRuleSpec) :
    compileLayerRule (L.mapIds φ) r = (compileLayerRule L r).mapId φ := by
  have hg : (LArch.mapIds φ L).getD = fun n => (L.getD n).map (Filter.mapId φ) := funext (getD_mapIds φ L)
  cases h : r.anything <;>
    simp [compileLayerRule, LayerRuleState.mapId, RuleState.mapId, RuleConfig.mapId, hg, h, List.map_flatMap]

theorem mem_getD (a : LArch) (n : Str) (f : Filter) (hf : f ∈ a.getD n) : ∃ l ∈ a, f ∈ l.2 := by
  unfold LArch.getD LArch.get at hf
  cases h : a.find? (fun l => l.1 == n) with
  | none => simp [h] at hf
  | some l =>
    simp only [h] at hf
    exact ⟨l, List.mem_of_find?_eq_some h, hf⟩

/-- the rule a specification layer rule denotes -/
def layerRuleOf (L : LArch) (r : LRuleSpec) : RuleState :=
  { cfg := { subjects := some (L.getD r.subject),
             objects := if r.anything then none else some (r.objects.flatMap L.getD),
             should := r.verb == .should, shouldOnly := r.verb == .shouldOnly, shouldNot := r.verb == .shouldNot,
             exceptPresent := !r.anything && r.exc, importDir := some r.importDir, anything := r.anything },
    next := some false }

theorem compileLayerRule_eq (L : LArch) (r : LRuleSpec) : compileLayerRule L r = ⟨some L, some (layerRuleOf L r)⟩ := rfl

/-- every filter of the denoted rule is one of the filters of the layered architecture -/
theorem layerRuleOf_filters (L : LArch) (r : LRuleSpec) :
    (∀ ss, (layerRuleOf L r).cfg.subjects = some ss → ∀ f ∈ ss, ∃ l ∈ L, f ∈ l.2) ∧
    (∀ os, (layerRuleOf L r).cfg.objects = some os → ∀ f ∈ os, ∃ l ∈ L, f ∈ l.2) := by
  constructor
  · intro ss hss f hf
    simp only [layerRuleOf, Option.some.injEq] at hss
    subst hss
    exact mem_getD L _ f hf
  · intro os hos f hf
    simp only [layerRuleOf] at hos
    split at hos
    · cases hos
    · simp only [Option.some.injEq] at hos
      subst hos
      obtain ⟨n, _, hf⟩ := List.mem_flatMap.1 hf
      exact mem_getD L n f hf

theorem mem_compileLArch (ls : Layers) (l : Str × List Filter) (hl : l ∈ compileLArch ls) (f : Filter) (hf : f ∈ l.2) :
    ∃ l0 ∈ ls, ∃ x ∈ l0.2, f = .name (render x) := by
  obtain ⟨l0, hl0, rfl⟩ := List.mem_map.1 hl
  obtain ⟨x, hx, rfl⟩ := List.mem_map.1 hf
  exact ⟨l0, hl0, x, hx, rfl⟩

/-- Target 2: the layer rule on the renamed architecture with the renamed layers returns the renamed outcome -/
theorem layer_verdict_ren_lemma (mt : Str → Str → Bool) (ρ : Comp → Comp) (hρ : GoodRen ρ) (a : Arch) (hwf : a.wf = true)
    (ls : Layers) (hls : layersWF ls = true) (r : LRuleSpec) :
    assertAppliesLayer mt (compileLayerRule (compileLArch (renLayers ρ ls)) r) (archGraph (renArch ρ a)) =
      (assertAppliesLayer mt (compileLayerRule (compileLArch ls) r) (archGraph a)).mapId (renStr ρ) := by
  rw [compileLArch_ren ρ ls hls, compileLayerRule_map, archGraph_ren hρ a hwf, compileLayerRule_eq]
  have hls' := (layersWF_iff ls).1 hls
  obtain ⟨hf1, hf2⟩ := layerRuleOf_filters (compileLArch ls) r
  have hname : ∀ l ∈ compileLArch ls, ∀ f ∈ l.2, f.isRegex = false ∧ wfStr f.id := by
    intro l hl f hf
    obtain ⟨l0, hl0, x, hx, rfl⟩ := mem_compileLArch ls l hl f hf
    exact ⟨rfl, wfStr_render x (hls' l0 hl0 x hx)⟩
  have hids : ∀ x ∈ (layerRuleOf (compileLArch ls) r).cfg.ids, wfStr x := by
    intro x hx
    unfold RuleConfig.ids at hx
    obtain ⟨f, hf, rfl⟩ := List.mem_map.1 hx
    rcases List.mem_append.1 hf with hf | hf
    · cases hs : (layerRuleOf (compileLArch ls) r).cfg.subjects with
      | none => simp [hs] at hf
      | some ss =>
        simp only [hs] at hf
        obtain ⟨l, hl, hfl⟩ := hf1 ss hs f hf
        exact (hname l hl f hfl).2
    · cases hs : (layerRuleOf (compileLArch ls) r).cfg.objects with
      | none => simp [hs] at hf
      | some os =>
        simp only [hs] at hf
        obtain ⟨l, hl, hfl⟩ := hf2 os hs f hf
        exact (hname l hl f hfl).2
  apply assertAppliesLayer_map (renStr ρ) (renStr_inj hρ) mt (archGraph a) (compileLArch ls) (layerRuleOf (compileLArch ls) r)
  · constructor
    · intro ss hss f hf
      obtain ⟨l, hl, hfl⟩ := hf1 ss hss f hf
      exact (hname l hl f hfl).1
    · intro os hos f hf
      obtain ⟨l, hl, hfl⟩ := hf2 os hos f hf
      exact (hname l hl f hfl).1
  · apply subOK_of_wf hρ
    · intro x hx
      rcases List.mem_append.1 hx with hx | hx
      · rw [compileLArch_listedIds] at hx
        obtain ⟨n, hn, rfl⟩ := List.mem_map.1 hx
        obtain ⟨l, hl, hn⟩ := List.mem_flatMap.1 hn
        exact wfStr_render n (hls' l hl n hn)
      · exact hids x hx
    · intro y hy
      rcases List.mem_append.1 hy with hy | hy
      · exact archGraph_names_wf a hwf y hy
      · exact hids y hy

/-! ### the general builder state, and the names in a layer report -/

/-- `assertAppliesLayer_map` for an arbitrary builder state (no rule yet / no architecture yet: the same error) -/
theorem assertAppliesLayer_map_state (φ : Str → Str) (hφ : ∀ x y, φ x = φ y → x = y) (mt : Str → Str → Bool)
    (g : PGraph Str) (s : LayerRuleState)
    (h : ∀ a r, s.arch = some a → s.rule = some r →
      cfgNoRegex r.cfg ∧ subOK φ (a.listedIds ++ r.cfg.ids) (g.names ++ r.cfg.ids)) :
    assertAppliesLayer mt (s.mapId φ) (mapGraph φ g) = (assertAppliesLayer mt s g).mapId φ := by
  obtain ⟨arch, rule⟩ := s
  cases rule with
  | none => rfl
  | some r =>
    cases arch with
    | none => rfl
    | some a =>
      obtain ⟨h1, h2⟩ := h a r rfl rfl
      exact assertAppliesLayer_map φ hφ mt g a r h1 h2

theorem litem_fix (φ : Str → Str) (i : LItem) (h : i.mapId φ = i) : ∀ s ∈ i.names, φ s = s := by
  cases i with
  | imp u v b t1 t2 =>
    simp only [LItem.mapId, LItem.imp.injEq, and_true] at h
    intro s hs
    simp only [LItem.names, List.mem_cons, List.not_mem_nil, or_false] at hs
    rcases hs with rfl | rfl
    · exact h.1
    · exact h.2
  | miss any sl ols b => intro s hs; cases hs

theorem lverdict_fix (φ : Str → Str) (v : LVerdict) (h : v.mapId φ = v) : ∀ s ∈ v.names, φ s = s := by
  cases v with
  | pass => intro s hs; cases hs
  | err k => intro s hs; cases hs
  | fail items =>
    simp only [LVerdict.mapId, LVerdict.fail.injEq] at h
    intro s hs
    obtain ⟨i, hi, hsi⟩ := List.mem_flatMap.1 hs
    exact litem_fix φ i (fix_of_map _ _ h i hi) s hsi

theorem litem_congr (φ ψ : Str → Str) (i : LItem) (h : ∀ s ∈ i.names, φ s = ψ s) : i.mapId φ = i.mapId ψ := by
  cases i with
  | imp u v b t1 t2 =>
    simp only [LItem.names, List.mem_cons, List.not_mem_nil, or_false] at h
    simp only [LItem.mapId, h u (Or.inl rfl), h v (Or.inr rfl)]
  | miss any sl ols b => rfl

theorem lverdict_congr (φ ψ : Str → Str) (v : LVerdict) (h : ∀ s ∈ v.names, φ s = ψ s) : v.mapId φ = v.mapId ψ := by
  cases v with
  | pass => rfl
  | err k => rfl
  | fail items =>
    simp only [LVerdict.mapId, LVerdict.fail.injEq]
    apply List.map_congr_left
    intro i hi
    exact litem_congr φ ψ i (fun s hs => h s (List.mem_flatMap.2 ⟨i, hi, hs⟩))

theorem compileLArch_fix (ls : Layers) (hls : layersWF ls = true) : (compileLArch ls).mapIds fixW = compileLArch ls := by
  rw [layersWF_iff] at hls
  simp only [compileLArch, LArch.mapIds, List.map_map]
  apply List.map_congr_left
  intro l hl
  simp only [Function.comp_def, List.map_map, Prod.mk.injEq, true_and]
  apply List.map_congr_left
  intro x hx
  simp only [Filter.mapId, fixW_render x (hls l hl x hx)]

/-- every module name in the report of a layer rule is a well-formed dotted name -/
theorem layer_report_names_wf_lemma (mt : Str → Str → Bool) (a : Arch) (hwf : a.wf = true) (ls : Layers)
    (hls : layersWF ls = true) (r : LRuleSpec) :
    ∀ s ∈ (assertAppliesLayer mt (compileLayerRule (compileLArch ls) r) (archGraph a)).names, nameWF (splitDots s) = true := by
  have hls' := (layersWF_iff ls).1 hls
  obtain ⟨hf1, hf2⟩ := layerRuleOf_filters (compileLArch ls) r
  have hname : ∀ l ∈ compileLArch ls, ∀ f ∈ l.2, f.isRegex = false ∧ wfStr f.id := by
    intro l hl f hf
    obtain ⟨l0, hl0, x, hx, rfl⟩ := mem_compileLArch ls l hl f hf
    exact ⟨rfl, wfStr_render x (hls' l0 hl0 x hx)⟩
  have hids : ∀ x ∈ (layerRuleOf (compileLArch ls) r).cfg.ids, wfStr x := by
    intro x hx
    unfold RuleConfig.ids at hx
    obtain ⟨f, hf, rfl⟩ := List.mem_map.1 hx
    rcases List.mem_append.1 hf with hf | hf
    · cases hs : (layerRuleOf (compileLArch ls) r).cfg.subjects with
      | none => simp [hs] at hf
      | some ss =>
        simp only [hs] at hf
        obtain ⟨l, hl, hfl⟩ := hf1 ss hs f hf
        exact (hname l hl f hfl).2
    · cases hs : (layerRuleOf (compileLArch ls) r).cfg.objects with
      | none => simp [hs] at hf
      | some os =>
        simp only [hs] at hf
        obtain ⟨l, hl, hfl⟩ := hf2 os hs f hf
        exact (hname l hl f hfl).2
  have hfix : ∀ x, wfStr x → fixW x = x := fun x hx => (fixW_eq_iff x).2 hx
  have h := assertAppliesLayer_map fixW fixW_inj mt (archGraph a) (compileLArch ls) (layerRuleOf (compileLArch ls) r)
    ⟨fun ss hss f hf => by obtain ⟨l, hl, hfl⟩ := hf1 ss hss f hf; exact (hname l hl f hfl).1,
     fun os hos f hf => by obtain ⟨l, hl, hfl⟩ := hf2 os hos f hf; exact (hname l hl f hfl).1⟩
    (by
      intro x hx y hy
      have wx : wfStr x := by
        rcases List.mem_append.1 hx with hx | hx
        · rw [compileLArch_listedIds] at hx
          obtain ⟨n, hn, rfl⟩ := List.mem_map.1 hx
          obtain ⟨l, hl, hn⟩ := List.mem_flatMap.1 hn
          exact wfStr_render n (hls' l hl n hn)
        · exact hids x hx
      have wy : wfStr y := by
        rcases List.mem_append.1 hy with hy | hy
        · exact archGraph_names_wf a hwf y hy
        · exact hids y hy
      rw [hfix x wx, hfix y wy])
  have e : (⟨some ((compileLArch ls).mapIds fixW), some ((layerRuleOf (compileLArch ls) r).mapId fixW)⟩ : LayerRuleState) =
      compileLayerRule (compileLArch ls) r :=
    calc (⟨some ((compileLArch ls).mapIds fixW), some ((layerRuleOf (compileLArch ls) r).mapId fixW)⟩ : LayerRuleState)
        = (compileLayerRule (compileLArch ls) r).mapId fixW := rfl
      _ = compileLayerRule ((compileLArch ls).mapIds fixW) r := (compileLayerRule_map fixW _ r).symm
      _ = compileLayerRule (compileLArch ls) r := by rw [compileLArch_fix ls hls]
  rw [e, archGraph_fix a hwf, ← compileLayerRule_eq] at h
  intro s hs
  exact (fixW_eq_iff s).1 (lverdict_fix fixW _ h.symm s hs)

/-- Target 2 with the plain component-wise renaming `render ∘ renName ρ ∘ splitDots` of the report -/
theorem layer_verdict_ren_plain_lemma (mt : Str → Str → Bool) (ρ : Comp → Comp) (hρ : GoodRen ρ) (a : Arch)
    (hwf : a.wf = true) (ls : Layers) (hls : layersWF ls = true) (r : LRuleSpec) :
    assertAppliesLayer mt (compileLayerRule (compileLArch (renLayers ρ ls)) r) (archGraph (renArch ρ a)) =
      (assertAppliesLayer mt (compileLayerRule (compileLArch ls) r) (archGraph a)).mapId (renDotted ρ) := by
  rw [layer_verdict_ren_lemma mt ρ hρ a hwf ls hls r]
  apply lverdict_congr
  intro s hs
  simp only [renStr, renDotted, layer_report_names_wf_lemma mt a hwf ls hls r s hs, if_true]

theorem mapId_cls_tags_lemma (φ : Str → Str) (v : LVerdict) : (v.mapId φ).cls = v.cls ∧ (v.mapId φ).tags = v.tags := by
  cases v with
  | pass => exact ⟨rfl, rfl⟩
  | err k => exact ⟨rfl, rfl⟩
  | fail items =>
    refine ⟨rfl, ?_⟩
    simp only [LVerdict.mapId, LVerdict.tags, List.flatMap_map]
    congr 1
    funext i
    cases i <;> rfl

/-! ### Bool-valued checks of the hypotheses (for `decide`d examples) -/

def cfgNoRegexB (c : RuleConfig) : Bool :=
  (match c.subjects with | some l => l.all fun f => !f.isRegex | none => true) &&
  (match c.objects with | some l => l.all fun f => !f.isRegex | none => true)

theorem cfgNoRegex_of_check (c : RuleConfig) (h : cfgNoRegexB c = true) : cfgNoRegex c := by
  unfold cfgNoRegexB at h
  rw [Bool.and_eq_true] at h
  constructor
  · intro ss hss f hf
    rw [hss] at h
    have := List.all_eq_true.1 h.1 f hf
    simpa using this
  · intro os hos f hf
    rw [hos] at h
    have := List.all_eq_true.1 h.2 f hf
    simpa using this

def subOKB (φ : Str → Str) (xs ys : List Str) : Bool :=
  xs.all fun x => ys.all fun y => isStrictSub (φ x) (φ y) == isStrictSub x y

theorem subOK_of_check (φ : Str → Str) (xs ys : List Str) (h : subOKB φ xs ys = true) : subOK φ xs ys := by
  intro x hx y hy
  have := List.all_eq_true.1 (List.all_eq_true.1 h x hx) y hy
  simpa using this

end Pta.RL
