/-
  PtaProofs.Lemmas.Rename — lemmas behind Props/C14.lean: the raw boundary-aware string tests are the
  component-level prefix relation, and the component-level semantics commutes with injective renamings.
-/
import Bridge.Abs
import PtaProofs.Lemmas.Render
import PtaProofs.Lemmas.Semantics
import PtaProofs.Lemmas.RenameAux
namespace Pta
open PtaSpec Pta.Ren

theorem raw_test_is_prefix_lemma (p n : Name) (hp : nameWF p = true) (hn : nameWF n = true) :
    isModuleOrSub (render p) (render n) = desc p n ∧ isStrictSub (render p) (render n) = sdesc p n ∧
    isInternal (render n) (render p) = desc p n :=
  ⟨isModuleOrSub_render p n hp hn, isStrictSub_render p n hp hn, isModuleOrSub_render p n hp hn⟩

theorem desc_ren_lemma (ρ : Comp → Comp) (hρ : GoodRen ρ) (x n : Name) :
    desc (renName ρ x) (renName ρ n) = desc x n ∧ sdesc (renName ρ x) (renName ρ n) = sdesc x n ∧
    related (renName ρ x) (renName ρ n) = related x n :=
  ⟨desc_ren hρ x n, sdesc_ren hρ x n, related_ren hρ x n⟩

theorem verdict_ren_lemma (ρ : Comp → Comp) (hρ : GoodRen ρ) (a : Arch) (r : RuleSpec) :
    verdict (renArch ρ a) (renRule ρ r) = verdict a r := by
  simp only [verdict, effObjects_ren, renRule_subjects, renRule_importDir, renRule_verb, renRule_effExc,
    List.all_map, Function.comp_def, edges_ren hρ, others_ren hρ, List.isEmpty_map]

theorem violating_ren_lemma (ρ : Comp → Comp) (hρ : GoodRen ρ) (a : Arch) (r : RuleSpec) :
    violating (renArch ρ a) (renRule ρ r) = (violating a r).map (renSItem ρ) := by
  simp only [violating, effObjects_ren, renRule_subjects, renRule_importDir, renRule_verb, renRule_effExc,
    List.map_append, map_if_nil]
  congr 1
  congr 1
  congr 1
  · congr 1
    simp only [List.flatMap_map, List.map_flatMap, List.map_map, edges_ren hρ, Function.comp_def, renSItem, renPair]
  · congr 1
    simp only [List.flatMap_map, List.map_flatMap, List.map_map, others_ren hρ, Function.comp_def, renSItem, renPair]
  · congr 1
    simp only [List.filterMap_map, List.map_filterMap, Function.comp_def, missing_ren hρ, List.isEmpty_map]
    congr 1
    funext s
    split <;> simp [renSItem]
  · congr 1
    simp only [List.filterMap_map, List.map_filterMap, Function.comp_def, others_ren hρ, List.isEmpty_map]
    congr 1
    funext s
    split <;> simp [renSItem]

theorem domain_ren_lemma (ρ : Comp → Comp) (hρ : GoodRen ρ) (a : Arch) (r : RuleSpec) :
    (a.wf = true → (renArch ρ a).wf = true) ∧ (renRule ρ r).strict = r.strict ∧ (renRule ρ r).namesIn (renArch ρ a) = r.namesIn a :=
  ⟨wf_ren hρ a, strict_ren hρ r, namesIn_ren hρ a r⟩

theorem model_verdict_ren_lemma (mt : Str → Str → Bool) (ρ : Comp → Comp) (hρ : GoodRen ρ) (a : Arch) (hwf : a.wf = true)
    (r : RuleSpec) (hstrict : r.strict = true) (hnames : r.namesIn a = true)
    (hs : r.subjects ≠ []) (ho : r.anything = true ∨ r.objects ≠ [])
    (hany : r.anything = true → r.verb = .shouldNot) :
    verdictOf mt (archGraph (renArch ρ a)) (compile (renRule ρ r)) = verdictOf mt (archGraph a) (compile r) := by
  have hwf' := wf_ren hρ a hwf
  have hs' : (renRule ρ r).subjects ≠ [] := by
    intro h; exact hs (List.map_eq_nil_iff.1 h)
  have ho' : (renRule ρ r).anything = true ∨ (renRule ρ r).objects ≠ [] := by
    rcases ho with h | h
    · exact Or.inl h
    · exact Or.inr (fun h' => h (List.map_eq_nil_iff.1 h'))
  rw [verdict_spec_of_graph_lemma mt a _ (archGraph_graphOf a hwf) hwf r hstrict hnames hs ho hany,
    verdict_spec_of_graph_lemma mt (renArch ρ a) _ (archGraph_graphOf _ hwf') hwf' (renRule ρ r)
      (by rw [strict_ren hρ]; exact hstrict) (by rw [namesIn_ren hρ]; exact hnames) hs' ho' hany,
    verdict_ren_lemma ρ hρ]

theorem nearest_alias_ren_lemma (ρ : Comp → Comp) (hρ : GoodRen ρ) (al : Aliases) (n : Name) :
    nearestAliased (al.map fun p => (renName ρ p.1, p.2)) (renName ρ n) =
      (nearestAliased al n).map fun p => (renName ρ p.1, p.2) := by
  simp only [nearestAliased]
  rw [List.filter_map]
  simp only [Function.comp_def, desc_ren hρ]
  generalize al.filter _ = l
  suffices h : ∀ (init : Option (Name × List Char)),
      List.foldl (fun best a => match best with
          | none => some a
          | some b => if a.1.length > b.1.length then some a else some b)
        (init.map fun p => (renName ρ p.1, p.2)) (l.map fun p => (renName ρ p.1, p.2)) =
      (List.foldl (fun best a => match best with
          | none => some a
          | some b => if a.1.length > b.1.length then some a else some b) init l).map
        fun p => (renName ρ p.1, p.2) from h none
  induction l with
  | nil => intro init; rfl
  | cons x xs ih =>
    intro init
    simp only [List.map_cons, List.foldl_cons]
    rw [← ih]
    congr 1
    cases init with
    | none => rfl
    | some b =>
      simp only [Option.map_some, renName, List.length_map]
      split <;> rfl

theorem layerOf_ren_lemma (ρ : Comp → Comp) (hρ : GoodRen ρ) (m : List (Str × List Name)) (n : Name)
    (hm : ∀ l ∈ m, ∀ x ∈ l.2, nameWF x = true) (hn : nameWF n = true) :
    LayerMap.layerOf (m.map fun l => (l.1, l.2.map fun x => render (renName ρ x))) (render (renName ρ n)) =
    LayerMap.layerOf (m.map fun l => (l.1, l.2.map render)) (render n) := by
  rw [layerOf_enc (fun x => render (renName ρ x))
        (fun x y hx hy h => renName_inj hρ (render_injective _ _ (nameWF_ren hρ hx) (nameWF_ren hρ hy) h)) m hm n hn
        (fun c hc => by
          show isStrictSub (render (renName ρ c)) (render (renName ρ n)) = sdesc c n
          rw [isStrictSub_render _ _ (nameWF_ren hρ hc) (nameWF_ren hρ hn), sdesc_ren hρ]),
    layerOf_enc render render_injective m hm n hn (fun c hc => isStrictSub_render c n hc hn)]

end Pta
