/-
  PtaProofs.Lemmas.OrderBuild — the graph constructor on ARBITRARY inputs (raw strings, external modules, import ends
  that are not nodes), characterised at the level of sets (namespace `Pta.OrdB`):

    nodes  = flattened modules and their flattened dotted prefixes,
    ⟨s, e, true⟩ ∈ edges  ↔  e is a node with at least two components and s is its dotted parent,
    ⟨s, e, false⟩ ∈ edges ↔  (s, e) is the flattened pair of some import, both are nodes, s ≠ e, and (s, e) is not
                              a hierarchy pair,

  provided every importer is a listed module (`h1`) and every import carries the parents of its importee (`h2`, which
  is how `absImport` builds them). Under `h2` the hierarchy flag always wins a collision: the import's own importee
  chain rewrites the hierarchy edge right after the import edge was written. Without `h2` the last write wins and the
  result depends on the order (counterexample in Props/C15.lean).
-/
import Bridge.Abs
import PtaProofs.Lemmas.Render
import PtaProofs.Lemmas.BuildGen
import PtaProofs.Lemmas.BuildNames
import PtaProofs.Lemmas.Build
namespace Pta.OrdB
open Pta PtaSpec BuildGen BuildNames

/-! ### raw strings as component lists, without any well-formedness -/

/-- weak well-formedness: a non-empty list of dot-free (possibly empty) components: what `split(".")` returns -/
def WW (n : Name) : Prop := n ≠ [] ∧ ∀ c ∈ n, '.' ∉ c

theorem splitDots_nodot_mem (s : Str) : ∀ c ∈ splitDots s, '.' ∉ c := by
  induction s with
  | nil => intro c hc; simp [splitDots] at hc; subst hc; simp
  | cons a as ih =>
    intro c hc
    unfold splitDots at hc
    cases hs : splitDots as with
    | nil => exact absurd hs (splitDots_ne_nil as)
    | cons h t =>
      rw [hs] at hc ih
      simp only at hc
      split at hc
      · rcases List.mem_cons.1 hc with rfl | hc
        · simp
        · exact ih c hc
      · rename_i hne
        rcases List.mem_cons.1 hc with rfl | hc
        · intro hm
          rcases List.mem_cons.1 hm with e | hm
          · exact hne e.symm
          · exact ih h (by simp) hm
        · exact ih c (by simp [hc])

theorem joinDots_splitDots (s : Str) : joinDots (splitDots s) = s := by
  induction s with
  | nil => rfl
  | cons a as ih =>
    unfold splitDots
    cases hs : splitDots as with
    | nil => exact absurd hs (splitDots_ne_nil as)
    | cons h t =>
      rw [hs] at ih
      simp only
      split
      · rename_i e
        subst e
        rw [joinDots_cons_cons, ih]; rfl
      · cases t with
        | nil => simp only [joinDots] at ih ⊢; rw [ih]
        | cons y r =>
          rw [joinDots_cons_cons] at ih ⊢
          rw [List.cons_append, ih]

theorem ww_splitDots (s : Str) : WW (splitDots s) := ⟨splitDots_ne_nil s, splitDots_nodot_mem s⟩

theorem ww_take {n : Name} (h : WW n) (k : Nat) (hk : 0 < k) : WW (n.take k) := by
  refine ⟨?_, fun c hc => h.2 c (List.mem_of_mem_take hc)⟩
  obtain ⟨hn, -⟩ := h
  cases n with
  | nil => exact absurd rfl hn
  | cons x xs =>
    cases k with
    | zero => omega
    | succ k => simp

theorem ww_trunc (lim : Option Nat) {n : Name} (h : WW n) : WW (trunc lim n) := by
  cases lim with
  | none => exact h
  | some k => exact ww_take h (k + 1) (by omega)

theorem ww_dropLast {n : Name} (h : WW n) (hl : 2 ≤ n.length) : WW n.dropLast := by
  rw [List.dropLast_eq_take]
  exact ww_take h _ (by omega)

theorem split_join {n : Name} (h : WW n) : splitDots (joinDots n) = n := splitDots_joinDots n h.2 h.1

theorem joinDots_inj {a b : Name} (ha : WW a) (hb : WW b) (h : joinDots a = joinDots b) : a = b := by
  rw [← split_join ha, ← split_join hb, h]

theorem parentModulesAux_join (acc : Str) (n : Name) (h : WW n) :
    parentModulesAux acc (joinDots n) = (properPrefixes n).map fun p => acc.reverse ++ joinDots p := by
  induction n generalizing acc with
  | nil => exact absurd rfl h.1
  | cons x r ih =>
    have hx : '.' ∉ x := h.2 x (by simp)
    cases r with
    | nil => simp [joinDots, properPrefixes_singleton, parentModulesAux_nodot acc x hx]
    | cons y r' =>
      have hr : WW (y :: r') := ⟨by simp, fun c hc => h.2 c (List.mem_cons_of_mem _ hc)⟩
      rw [joinDots_cons_cons, parentModulesAux_nodot_dot acc x _ hx, ih _ hr, properPrefixes_cons_cons]
      simp only [List.map_cons, List.map_map]
      have e1 : joinDots [x] = x := rfl
      rw [e1]
      congr 1
      apply List.map_congr_left
      intro p hp
      have hpne := mem_properPrefixes_ne_nil hp
      simp [joinDots_cons x p hpne]

theorem parentModules_join (n : Name) (h : WW n) : parentModules (joinDots n) = (properPrefixes n).map joinDots := by
  simpa [parentModules] using parentModulesAux_join [] n h

theorem flatten_join (lim : Option Nat) (n : Name) (h : WW n) : flattenNode lim (joinDots n) = joinDots (trunc lim n) := by
  cases lim with
  | none => rfl
  | some k =>
    show joinDots ((splitDots (joinDots n)).take (k + 1)) = _
    rw [split_join h]; rfl

/-- the dotted parent of a string and "has at least two components" -/
def par (e : Str) : Str := joinDots (splitDots e).dropLast
def isCh (e : Str) : Prop := 2 ≤ (splitDots e).length

/-- the members of the chain `parentModules c ++ [c]` -/
theorem mem_chainNodes (c p : Str) :
    p ∈ parentModules c ++ [c] ↔ ∃ k, 0 < k ∧ k ≤ (splitDots c).length ∧ p = joinDots ((splitDots c).take k) := by
  have hw := ww_splitDots c
  have hc := joinDots_splitDots c
  generalize splitDots c = n at hw hc
  subst hc
  rw [parentModules_join n hw]
  simp only [List.mem_append, List.mem_map, List.mem_singleton, mem_properPrefixes]
  constructor
  · rintro (⟨q, ⟨k, h0, hk, rfl⟩, rfl⟩ | rfl)
    · exact ⟨k, h0, by omega, rfl⟩
    · refine ⟨n.length, ?_, Nat.le_refl _, by rw [List.take_length]⟩
      have := hw.1
      cases n with
      | nil => exact absurd rfl this
      | cons => simp
  · rintro ⟨k, h0, hk, rfl⟩
    by_cases hk' : k = n.length
    · right; rw [hk', List.take_length]
    · left; exact ⟨_, ⟨k, h0, by omega, rfl⟩, rfl⟩

/-- the consecutive pairs of the chain of `c` -/
theorem mem_chainPairs (c : Str) (pc : Str × Str) :
    pc ∈ consecutive (parentModules c ++ [c]) ↔
      ∃ k, 0 < k ∧ k < (splitDots c).length ∧
        pc = (joinDots ((splitDots c).take k), joinDots ((splitDots c).take (k + 1))) := by
  have hw := ww_splitDots c
  have hc := joinDots_splitDots c
  generalize splitDots c = n at hw hc
  subst hc
  rw [parentModules_join n hw]
  have : List.map joinDots (properPrefixes n) ++ [joinDots n] = (properPrefixes n ++ [n]).map joinDots := by simp
  rw [this, consecutive_map, List.mem_map]
  constructor
  · rintro ⟨q, hq, rfl⟩
    obtain ⟨k, h0, hk, rfl⟩ := (mem_consecutive_prefixes n hw.1 q).1 hq
    exact ⟨k, h0, hk, rfl⟩
  · rintro ⟨k, h0, hk, rfl⟩
    exact ⟨(n.take k, n.take (k + 1)), (mem_consecutive_prefixes n hw.1 _).2 ⟨k, h0, hk, rfl⟩, rfl⟩

/-- the flattened, non-degenerate links of the chain of `c` -/
def HPc (lim : Option Nat) (c s e : Str) : Prop :=
  ∃ pc ∈ consecutive (parentModules c ++ [c]), s = flattenNode lim pc.1 ∧ e = flattenNode lim pc.2 ∧ s ≠ e

/-- F1: a flattened chain link is (parent of e, e) and e has at least two components -/
theorem HPc_par {lim : Option Nat} {c s e : Str} (h : HPc lim c s e) : s = par e ∧ isCh e := by
  obtain ⟨pc, hpc, hs, he, hne⟩ := h
  obtain ⟨k, h0, hk, rfl⟩ := (mem_chainPairs c pc).1 hpc
  have hw := ww_splitDots c
  generalize splitDots c = n at hw hk hs he
  simp only at hs he
  rw [flatten_join lim _ (ww_take hw k h0)] at hs
  rw [flatten_join lim _ (ww_take hw (k + 1) (by omega))] at he
  have hwt := ww_trunc lim (ww_take hw (k + 1) (by omega))
  rcases trunc_link lim n k h0 hk with h | ⟨hl, h⟩
  · rw [h] at hs; exact absurd (hs.trans he.symm) hne
  · unfold par isCh
    rw [he, split_join hwt, ← h]
    exact ⟨hs, hl⟩

/-- F2: every chain member whose flattening has at least two components is the lower end of a flattened link -/
theorem HPc_of_chainNode {lim : Option Nat} {c p : Str} (hp : p ∈ parentModules c ++ [c])
    (hch : isCh (flattenNode lim p)) : HPc lim c (par (flattenNode lim p)) (flattenNode lim p) := by
  obtain ⟨k, h0, hk, rfl⟩ := (mem_chainNodes c p).1 hp
  have hw := ww_splitDots c
  unfold HPc
  simp only [mem_chainPairs]
  generalize splitDots c = n at hw hk hch ⊢
  have hwk := ww_take hw k h0
  rw [flatten_join lim _ hwk] at hch ⊢
  have hwt := ww_trunc lim hwk
  unfold isCh at hch
  unfold par
  rw [split_join hwt] at hch ⊢
  obtain ⟨j, hj0, hjk, e1, e2⟩ := trunc_last_link lim (n.take k) hch
  rw [List.length_take] at hjk
  have t1 : (n.take k).take j = n.take j := by rw [List.take_take]; congr 1; omega
  have t2 : (n.take k).take (j + 1) = n.take (j + 1) := by rw [List.take_take]; congr 1; omega
  rw [t1] at e1
  rw [t2] at e2
  refine ⟨_, ⟨j, hj0, by omega, rfl⟩, ?_, ?_, ?_⟩
  · simp only
    rw [flatten_join lim _ (ww_take hw j hj0), e1]
  · simp only
    rw [flatten_join lim _ (ww_take hw (j + 1) (by omega)), e2]
  · intro h
    have := congrArg List.length (joinDots_inj (ww_dropLast hwt hch) hwt h)
    rw [List.length_dropLast] at this
    omega

/-- the upper end of a link is a chain member -/
theorem HPc_left_mem {lim : Option Nat} {c s e : Str} (h : HPc lim c s e) :
    (∃ p ∈ parentModules c ++ [c], s = flattenNode lim p) ∧ (∃ p ∈ parentModules c ++ [c], e = flattenNode lim p) := by
  obtain ⟨pc, hpc, hs, he, -⟩ := h
  have := mem_consecutive_left _ _ hpc
  exact ⟨⟨pc.1, this.1, hs⟩, ⟨pc.2, this.2, he⟩⟩

/-! ### `createEdge` on a graph with at most one edge per ordered pair (no exclusivity of flags assumed) -/

/-- at most one edge record per ordered pair -/
def Fn (g : PGraph Str) : Prop := ∀ x ∈ g.edges, ∀ y ∈ g.edges, x.src = y.src → x.dst = y.dst → x = y

/-- the condition under which `createEdge lim g s e _` writes -/
def wcond (lim : Option Nat) (g : PGraph Str) (s e : Str) : Prop :=
  flattenNode lim s ≠ flattenNode lim e ∧ flattenNode lim s ∈ g.nodes ∧ flattenNode lim e ∈ g.nodes

/-- some call of the list writes the pair `(a, b)` -/
def WP (lim : Option Nat) (g : PGraph Str) (l : List (Str × Str)) (a b : Str) : Prop :=
  ∃ pc ∈ l, wcond lim g pc.1 pc.2 ∧ a = flattenNode lim pc.1 ∧ b = flattenNode lim pc.2

theorem wcond_congr {lim : Option Nat} {g g' : PGraph Str} (h : ∀ s, s ∈ g.nodes ↔ s ∈ g'.nodes) (s e : Str) :
    wcond lim g s e ↔ wcond lim g' s e := by
  unfold wcond; rw [h, h]

theorem WP_congr {lim : Option Nat} {g g' : PGraph Str} (h : ∀ s, s ∈ g.nodes ↔ s ∈ g'.nodes) (l : List (Str × Str))
    (a b : Str) : WP lim g l a b ↔ WP lim g' l a b := by
  unfold WP
  constructor
  · rintro ⟨pc, h1, h2, h3⟩; exact ⟨pc, h1, (wcond_congr h _ _).1 h2, h3⟩
  · rintro ⟨pc, h1, h2, h3⟩; exact ⟨pc, h1, (wcond_congr h _ _).2 h2, h3⟩

theorem edge_ext {x y : Edge Str} (h1 : x.src = y.src) (h2 : x.dst = y.dst) (h3 : x.inh = y.inh) : x = y := by
  cases x; cases y; simp_all

theorem createEdge_mem (lim : Option Nat) (g : PGraph Str) (hfn : Fn g) (s e : Str) (inh : Bool) (x : Edge Str) :
    x ∈ (createEdge lim g s e inh).edges ↔
      (x.inh = inh ∧ wcond lim g s e ∧ x.src = flattenNode lim s ∧ x.dst = flattenNode lim e) ∨
      (x ∈ g.edges ∧ ¬(wcond lim g s e ∧ x.src = flattenNode lim s ∧ x.dst = flattenNode lim e)) := by
  unfold createEdge wcond
  simp only []
  generalize flattenNode lim s = s' at *
  generalize flattenNode lim e = e' at *
  by_cases hse : s' = e'
  · simp [hse]
  · simp only [beq_iff_eq, hse, if_false]
    by_cases hn : (g.hasNode s' && g.hasNode e') = true
    · simp only [hn, if_true]
      have hn' : s' ∈ g.nodes ∧ e' ∈ g.nodes := by
        simpa [Bool.and_eq_true, hasNode_iff] using hn
      have hc : s' ≠ e' ∧ s' ∈ g.nodes ∧ e' ∈ g.nodes := ⟨hse, hn'⟩
      simp only [hc, ne_eq, not_false_eq_true, and_self, true_and]
      cases hf : g.findEdge s' e' with
      | some y =>
        simp only []
        unfold PGraph.findEdge at hf
        have hy := List.find?_some hf
        have hym := List.mem_of_find?_eq_some hf
        simp only [Bool.and_eq_true, beq_iff_eq] at hy
        by_cases hinh : y.inh = inh
        · simp only [hinh, if_true]
          constructor
          · intro hx
            by_cases hm : x.src = s' ∧ x.dst = e'
            · left
              have := hfn x hx y hym (hm.1.trans hy.1.symm) (hm.2.trans hy.2.symm)
              exact ⟨by rw [this, hinh], hm⟩
            · exact Or.inr ⟨hx, hm⟩
          · rintro (⟨h1, h2, h3⟩ | ⟨h, -⟩)
            · have : x = y := edge_ext (h2.trans hy.1.symm) (h3.trans hy.2.symm) (h1.trans hinh.symm)
              rw [this]; exact hym
            · exact h
        · simp only [hinh, if_false]
          unfold PGraph.setEdge PGraph.hasEdge PGraph.findEdge
          simp only [hf, Option.isSome_some, if_true, List.mem_map]
          constructor
          · rintro ⟨z, hz, rfl⟩
            by_cases hm : z.src = s' ∧ z.dst = e'
            · simp [hm]
            · right
              split
              · rename_i hh
                simp only [Bool.and_eq_true, beq_iff_eq] at hh
                exact absurd hh hm
              · exact ⟨hz, hm⟩
          · rintro (⟨h1, h2, h3⟩ | ⟨h, hm⟩)
            · refine ⟨y, hym, ?_⟩
              simp only [hy.1, hy.2, beq_self_eq_true, Bool.and_self, if_true]
              exact edge_ext h2.symm h3.symm h1.symm
            · refine ⟨x, h, ?_⟩
              split
              · rename_i hh
                simp only [Bool.and_eq_true, beq_iff_eq] at hh
                exact absurd hh hm
              · rfl
      | none =>
        simp only []
        unfold PGraph.setEdge PGraph.hasEdge
        simp only [hf, Option.isSome_none, Bool.false_eq_true, if_false, List.mem_append, List.mem_singleton]
        unfold PGraph.findEdge at hf
        have hnone := List.find?_eq_none.1 hf
        constructor
        · rintro (h | rfl)
          · right
            refine ⟨h, ?_⟩
            have := hnone x h
            simpa using this
          · left; simp
        · rintro (⟨h1, h2, h3⟩ | ⟨h, -⟩)
          · right; exact edge_ext h2 h3 h1
          · exact Or.inl h
    · simp only [hn, Bool.false_eq_true, if_false]
      have hn' : ¬ (s' ∈ g.nodes ∧ e' ∈ g.nodes) := by
        simpa [Bool.and_eq_true, hasNode_iff] using hn
      constructor
      · intro h; exact Or.inr ⟨h, fun hh => hn' hh.1.2⟩
      · rintro (⟨-, h, -⟩ | ⟨h, -⟩)
        · exact absurd h.2 hn'
        · exact h

theorem createEdge_fn (lim : Option Nat) (g : PGraph Str) (hfn : Fn g) (s e : Str) (inh : Bool) :
    Fn (createEdge lim g s e inh) := by
  intro x hx y hy h1 h2
  rw [createEdge_mem lim g hfn] at hx hy
  rcases hx with ⟨a1, a2, a3, a4⟩ | ⟨a1, a2⟩ <;> rcases hy with ⟨b1, b2, b3, b4⟩ | ⟨b1, b2⟩
  · exact edge_ext h1 h2 (a1.trans b1.symm)
  · exact absurd ⟨a2, h1 ▸ a3, h2 ▸ a4⟩ b2
  · exact absurd ⟨b2, h1 ▸ b3, h2 ▸ b4⟩ a2
  · exact hfn x a1 y b1 h1 h2

theorem fold_logic (I A B M1 : Prop) :
    ((I ∧ B) ∨ (((I ∧ A) ∨ (M1 ∧ ¬A)) ∧ ¬B)) ↔ ((I ∧ (A ∨ B)) ∨ (M1 ∧ ¬(A ∨ B))) := by
  by_cases a : A <;> by_cases b : B <;> by_cases i : I <;> by_cases m : M1 <;> simp_all

/-- a fold of writes with the same flag, exactly -/
theorem edgeFold_mem (lim : Option Nat) (inh : Bool) (l : List (Str × Str)) (g : PGraph Str) (hfn : Fn g) :
    Fn (l.foldl (fun g pc => createEdge lim g pc.1 pc.2 inh) g) ∧
    ∀ x, x ∈ (l.foldl (fun g pc => createEdge lim g pc.1 pc.2 inh) g).edges ↔
      (x.inh = inh ∧ WP lim g l x.src x.dst) ∨ (x ∈ g.edges ∧ ¬ WP lim g l x.src x.dst) := by
  induction l generalizing g with
  | nil =>
    refine ⟨hfn, fun x => ?_⟩
    simp [WP]
  | cons p ps ih =>
    simp only [List.foldl_cons]
    have hfn1 := createEdge_fn lim g hfn p.1 p.2 inh
    obtain ⟨i1, i2⟩ := ih (createEdge lim g p.1 p.2 inh) hfn1
    refine ⟨i1, fun x => ?_⟩
    rw [i2, createEdge_mem lim g hfn]
    have hnodes : ∀ s, s ∈ (createEdge lim g p.1 p.2 inh).nodes ↔ s ∈ g.nodes := by
      intro s; rw [createEdge_nodes]
    rw [WP_congr hnodes]
    have hcons : WP lim g (p :: ps) x.src x.dst ↔
        (wcond lim g p.1 p.2 ∧ x.src = flattenNode lim p.1 ∧ x.dst = flattenNode lim p.2) ∨ WP lim g ps x.src x.dst := by
      unfold WP
      simp only [List.mem_cons, exists_eq_or_imp]
    rw [hcons]
    exact fold_logic _ _ _ _

/-! ### set-level description of the graph -/

section
variable (lim : Option Nat)

/-- nodes contributed by a module list: the flattened modules and their flattened dotted prefixes -/
def NS (mods : List Str) (s : Str) : Prop := ∃ m ∈ mods, ∃ p ∈ parentModules m ++ [m], s = flattenNode lim p

/-- hierarchy pairs: (parent of e, e) for every node e with at least two components -/
def HS (mods : List Str) (s e : Str) : Prop := NS lim mods e ∧ isCh e ∧ s = par e

/-- import pairs: flattened ends of an import (with a level limit: of an import between known modules), distinct and
    both nodes -/
def IS (mods : List Str) (known : List Str) (imps : List ImportRec) (s e : Str) : Prop :=
  s ≠ e ∧ NS lim mods s ∧ NS lim mods e ∧
    ∃ i ∈ imps, skipImportEdge lim known i = false ∧ s = flattenNode lim i.importer ∧ e = flattenNode lim i.importee

theorem NS_append (D : List Str) (m : Str) (s : Str) :
    NS lim (D ++ [m]) s ↔ NS lim D s ∨ ∃ p ∈ parentModules m ++ [m], s = flattenNode lim p := by
  unfold NS
  simp only [List.mem_append, List.mem_singleton]
  constructor
  · rintro ⟨m', hm | rfl, h⟩
    · exact Or.inl ⟨m', hm, h⟩
    · exact Or.inr h
  · rintro (⟨m', hm, h⟩ | h)
    · exact ⟨m', Or.inl hm, h⟩
    · exact ⟨m, Or.inr rfl, h⟩

/-- a chain link between nodes is a hierarchy pair -/
theorem HS_of_HPc {mods : List Str} {c a b : Str} (h : HPc lim c a b) (hb : NS lim mods b) : HS lim mods a b := by
  obtain ⟨h1, h2⟩ := HPc_par h
  exact ⟨hb, h2, h1⟩

/-- when all members of the chain of `c` are nodes, the chain writes exactly its non-degenerate links -/
theorem WP_chain_all (g : PGraph Str) (c : Str) (hall : ∀ p ∈ parentModules c ++ [c], flattenNode lim p ∈ g.nodes)
    (a b : Str) : WP lim g (consecutive (parentModules c ++ [c])) a b ↔ HPc lim c a b := by
  unfold WP HPc wcond
  constructor
  · rintro ⟨pc, hpc, ⟨hne, -, -⟩, rfl, rfl⟩
    exact ⟨pc, hpc, rfl, rfl, hne⟩
  · rintro ⟨pc, hpc, rfl, rfl, hne⟩
    have := mem_consecutive_left _ _ hpc
    exact ⟨pc, hpc, ⟨hne, hall _ this.1, hall _ this.2⟩, rfl, rfl⟩

/-- in general the chain writes those links whose ends are nodes -/
theorem WP_chain (g : PGraph Str) (c : Str) (a b : Str) :
    WP lim g (consecutive (parentModules c ++ [c])) a b ↔ HPc lim c a b ∧ a ∈ g.nodes ∧ b ∈ g.nodes := by
  unfold WP HPc wcond
  constructor
  · rintro ⟨pc, hpc, ⟨hne, h1, h2⟩, rfl, rfl⟩
    exact ⟨⟨pc, hpc, rfl, rfl, hne⟩, h1, h2⟩
  · rintro ⟨⟨pc, hpc, rfl, rfl, hne⟩, h1, h2⟩
    exact ⟨pc, hpc, ⟨hne, h1, h2⟩, rfl, rfl⟩

/-! ### module phase -/

/-- exact description after the modules `D` have been processed -/
def ExM (g : PGraph Str) (D : List Str) : Prop :=
  Fn g ∧ (∀ s, s ∈ g.nodes ↔ NS lim D s) ∧ ∀ x, x ∈ g.edges ↔ x.inh = true ∧ HS lim D x.src x.dst

theorem addHierarchy_nodes (g : PGraph Str) (ps : List Str) (c s : Str) :
    s ∈ (addHierarchy lim g ps c).nodes ↔ s ∈ g.nodes ∨ ∃ p ∈ ps, s = flattenNode lim p := by
  unfold addHierarchy
  simp only []
  rw [edgeFold_nodes, nodeFold_nodes]

theorem addHierarchy_mem (g : PGraph Str) (hfn : Fn g) (ps : List Str) (c : Str) :
    Fn (addHierarchy lim g ps c) ∧
    ∀ x, x ∈ (addHierarchy lim g ps c).edges ↔
      (x.inh = true ∧ WP lim (ps.foldl (createNode lim) g) (consecutive (ps ++ [c])) x.src x.dst) ∨
      (x ∈ g.edges ∧ ¬ WP lim (ps.foldl (createNode lim) g) (consecutive (ps ++ [c])) x.src x.dst) := by
  unfold addHierarchy
  simp only []
  have hfn1 : Fn (ps.foldl (createNode lim) g) := by
    unfold Fn; rw [nodeFold_edges]; exact hfn
  obtain ⟨i1, i2⟩ := edgeFold_mem lim true (consecutive (ps ++ [c])) _ hfn1
  refine ⟨i1, fun x => ?_⟩
  rw [i2, nodeFold_edges]

theorem step_module (g : PGraph Str) (D : List Str) (m : Str) (h : ExM lim g D) :
    ExM lim (addHierarchy lim (createNode lim g m) (parentModules m) m) (D ++ [m]) := by
  obtain ⟨hfn, hn, he⟩ := h
  have hfn0 : Fn (createNode lim g m) := by
    unfold Fn; rw [createNode_edges]; exact hfn
  obtain ⟨r1, r2⟩ := addHierarchy_mem lim (createNode lim g m) hfn0 (parentModules m) m
  have hnodes : ∀ s, s ∈ (addHierarchy lim (createNode lim g m) (parentModules m) m).nodes ↔ NS lim (D ++ [m]) s := by
    intro s
    rw [addHierarchy_nodes, createNode_nodes, NS_append, hn]
    simp only [List.mem_append, List.mem_singleton]
    constructor
    · rintro ((h | rfl) | ⟨p, hp, rfl⟩)
      · exact Or.inl h
      · exact Or.inr ⟨m, Or.inr rfl, rfl⟩
      · exact Or.inr ⟨p, Or.inl hp, rfl⟩
    · rintro (h | ⟨p, hp | rfl, rfl⟩)
      · exact Or.inl (Or.inl h)
      · exact Or.inr ⟨p, hp, rfl⟩
      · exact Or.inl (Or.inr rfl)
  refine ⟨r1, hnodes, fun x => ?_⟩
  rw [r2, createNode_edges, he]
  have hall : ∀ p ∈ parentModules m ++ [m],
      flattenNode lim p ∈ ((parentModules m).foldl (createNode lim) (createNode lim g m)).nodes := by
    intro p hp
    rw [nodeFold_nodes, createNode_nodes]
    rcases List.mem_append.1 hp with h | h
    · exact Or.inr ⟨p, h, rfl⟩
    · simp only [List.mem_singleton] at h; subst h; exact Or.inl (Or.inr rfl)
  rw [WP_chain_all lim _ m hall]
  constructor
  · rintro (⟨h1, h2⟩ | ⟨⟨h1, h2⟩, -⟩)
    · refine ⟨h1, HS_of_HPc lim h2 ?_⟩
      obtain ⟨p, hp, hpe⟩ := (HPc_left_mem h2).2
      exact (NS_append lim D m _).2 (Or.inr ⟨p, hp, hpe⟩)
    · exact ⟨h1, (NS_append lim D m _).2 (Or.inl h2.1), h2.2⟩
  · rintro ⟨h1, hns, hch, hpar⟩
    by_cases hc : HPc lim m x.src x.dst
    · exact Or.inl ⟨h1, hc⟩
    · right
      refine ⟨⟨h1, ?_, hch, hpar⟩, hc⟩
      rcases (NS_append lim D m _).1 hns with h | ⟨p, hp, hpe⟩
      · exact h
      · exfalso; apply hc
        rw [hpar, hpe]
        rw [hpe] at hch
        exact HPc_of_chainNode hp hch

theorem modules_exact (mods : List Str) : ExM lim (addAllModules lim PGraph.empty mods) mods := by
  unfold addAllModules
  have key : ∀ (l : List Str) (g : PGraph Str) (D : List Str), ExM lim g D →
      ExM lim (l.foldl (fun g m => addHierarchy lim (createNode lim g m) (parentModules m) m) g) (D ++ l) := by
    intro l
    induction l with
    | nil => intro g D h; simpa using h
    | cons m l ih =>
      intro g D h
      simp only [List.foldl_cons]
      have := ih _ _ (step_module lim g D m h)
      simpa using this
  have h0 : ExM lim (PGraph.empty : PGraph Str) [] := by
    refine ⟨?_, ?_, ?_⟩
    · intro x hx; cases hx
    · intro s; simp [PGraph.empty, NS]
    · intro x; simp [PGraph.empty, HS, NS]
  simpa using key mods _ _ h0

/-! ### import phase -/

/-- exact description after the modules `mods` and the imports `D` have been processed -/
def ExI (mods : List Str) (known : List Str) (g : PGraph Str) (D : List ImportRec) : Prop :=
  Fn g ∧ (∀ s, s ∈ g.nodes ↔ NS lim mods s) ∧
  ∀ x, x ∈ g.edges ↔ (x.inh = true ∧ HS lim mods x.src x.dst) ∨
    (x.inh = false ∧ IS lim mods known D x.src x.dst ∧ ¬ HS lim mods x.src x.dst)

theorem step_logic (t : Bool) (P3 P2 K H ID : Prop) (h3 : P3 → H) (h2 : P2 → H) (hk : K → H → P3) :
    ((t = true ∧ P3) ∨ (((t = true ∧ P2) ∨ (((t = false ∧ K) ∨ (((t = true ∧ H) ∨ (t = false ∧ ID ∧ ¬H)) ∧ ¬K)) ∧ ¬P2)) ∧ ¬P3)) ↔
      ((t = true ∧ H) ∨ (t = false ∧ (ID ∨ K) ∧ ¬H)) := by
  by_cases a : P3 <;> by_cases b : P2 <;> by_cases c : K <;> by_cases d : H <;> by_cases e : ID <;>
    cases t <;> simp_all

/-- the guarded first stage of `addImport` -/
theorem first_mem (known : List Str) (g : PGraph Str) (hfn : Fn g) (i : ImportRec) (x : Edge Str) :
    x ∈ (if skipImportEdge lim known i then g else createEdge lim g i.importer i.importee false).edges ↔
      (x.inh = false ∧ (skipImportEdge lim known i = false ∧ wcond lim g i.importer i.importee) ∧
        x.src = flattenNode lim i.importer ∧ x.dst = flattenNode lim i.importee) ∨
      (x ∈ g.edges ∧ ¬((skipImportEdge lim known i = false ∧ wcond lim g i.importer i.importee) ∧
        x.src = flattenNode lim i.importer ∧ x.dst = flattenNode lim i.importee)) := by
  cases hs : skipImportEdge lim known i with
  | true => simp
  | false =>
    simp only [Bool.false_eq_true, if_false, true_and]
    exact createEdge_mem lim g hfn _ _ false x

theorem first_fn (known : List Str) (g : PGraph Str) (hfn : Fn g) (i : ImportRec) :
    Fn (if skipImportEdge lim known i then g else createEdge lim g i.importer i.importee false) := by
  split
  · exact hfn
  · exact createEdge_fn lim g hfn _ _ false

theorem step_import (mods : List Str) (known : List Str) (g : PGraph Str) (D : List ImportRec) (i : ImportRec)
    (h : ExI lim mods known g D)
    (h1 : i.importer ∈ mods) (h2 : i.importeeParents = parentModules i.importee) :
    ExI lim mods known (addImport lim known g i) (D ++ [i]) := by
  obtain ⟨hfn, hn, he⟩ := h
  unfold addImport
  simp only []
  rw [h2]
  -- the three stages
  generalize hg1 : (if skipImportEdge lim known i then g else createEdge lim g i.importer i.importee false) = g1
  have hfn1 : Fn g1 := by rw [← hg1]; exact first_fn lim known g hfn i
  have hm1 : ∀ x, x ∈ g1.edges ↔
      (x.inh = false ∧ (skipImportEdge lim known i = false ∧ wcond lim g i.importer i.importee) ∧
        x.src = flattenNode lim i.importer ∧ x.dst = flattenNode lim i.importee) ∨
      (x ∈ g.edges ∧ ¬((skipImportEdge lim known i = false ∧ wcond lim g i.importer i.importee) ∧
        x.src = flattenNode lim i.importer ∧ x.dst = flattenNode lim i.importee)) := by
    intro x; rw [← hg1]; exact first_mem lim known g hfn i x
  have hn1 : ∀ s, s ∈ g1.nodes ↔ NS lim mods s := by
    intro s; rw [← hg1, addImport_nodes_first]; exact hn s
  obtain ⟨hfn2, he2⟩ := addHierarchy_mem lim _ hfn1 (parentModules i.importer) i.importer
  have hpar : ∀ p ∈ parentModules i.importer, NS lim mods (flattenNode lim p) :=
    fun p hp => ⟨i.importer, h1, p, List.mem_append_left _ hp, rfl⟩
  have hn2 : ∀ s, s ∈ (addHierarchy lim g1
      (parentModules i.importer) i.importer).nodes ↔ NS lim mods s := by
    intro s
    rw [addHierarchy_nodes, hn1]
    constructor
    · rintro (h | ⟨p, hp, rfl⟩)
      · exact h
      · exact hpar p hp
    · exact Or.inl
  have hn2' : ∀ s, s ∈ ((parentModules i.importer).foldl (createNode lim)
      g1).nodes ↔ NS lim mods s := by
    intro s
    rw [nodeFold_nodes, hn1]
    constructor
    · rintro (h | ⟨p, hp, rfl⟩)
      · exact h
      · exact hpar p hp
    · exact Or.inl
  obtain ⟨hfn3, he3⟩ := edgeFold_mem lim true (consecutive (parentModules i.importee ++ [i.importee])) _ hfn2
  refine ⟨hfn3, ?_, fun x => ?_⟩
  · intro s; rw [edgeFold_nodes]; exact hn2 s
  · rw [he3, he2, hm1, he, WP_chain, WP_chain]
    simp only [hn2 _, hn2' _]
    have hw0 : wcond lim g i.importer i.importee ↔
        (flattenNode lim i.importer ≠ flattenNode lim i.importee ∧ NS lim mods (flattenNode lim i.importer) ∧
          NS lim mods (flattenNode lim i.importee)) := by
      unfold wcond; rw [hn, hn]
    rw [hw0]
    have hIS : IS lim mods known (D ++ [i]) x.src x.dst ↔ IS lim mods known D x.src x.dst ∨
        ((skipImportEdge lim known i = false ∧
          (flattenNode lim i.importer ≠ flattenNode lim i.importee ∧ NS lim mods (flattenNode lim i.importer) ∧
          NS lim mods (flattenNode lim i.importee))) ∧ x.src = flattenNode lim i.importer ∧
          x.dst = flattenNode lim i.importee) := by
      unfold IS
      simp only [List.mem_append, List.mem_singleton]
      constructor
      · rintro ⟨a1, a2, a3, j, hj | rfl, a6, a4, a5⟩
        · exact Or.inl ⟨a1, a2, a3, j, hj, a6, a4, a5⟩
        · right; rw [← a4, ← a5]; exact ⟨⟨a6, a1, a2, a3⟩, rfl, rfl⟩
      · rintro (⟨a1, a2, a3, j, hj, a6, a4, a5⟩ | ⟨⟨a6, a1, a2, a3⟩, a4, a5⟩)
        · exact ⟨a1, a2, a3, j, Or.inl hj, a6, a4, a5⟩
        · rw [a4, a5]; exact ⟨a1, a2, a3, i, Or.inr rfl, a6, rfl, rfl⟩
    rw [hIS]
    have key := step_logic x.inh
      (HPc lim i.importee x.src x.dst ∧ NS lim mods x.src ∧ NS lim mods x.dst)
      (HPc lim i.importer x.src x.dst ∧ NS lim mods x.src ∧ NS lim mods x.dst)
      ((skipImportEdge lim known i = false ∧
          (flattenNode lim i.importer ≠ flattenNode lim i.importee ∧ NS lim mods (flattenNode lim i.importer) ∧
          NS lim mods (flattenNode lim i.importee))) ∧ x.src = flattenNode lim i.importer ∧
          x.dst = flattenNode lim i.importee)
      (HS lim mods x.src x.dst) (IS lim mods known D x.src x.dst)
      (fun h => HS_of_HPc lim h.1 h.2.2) (fun h => HS_of_HPc lim h.1 h.2.2)
      (by
        rintro ⟨⟨-, -, b2, b3⟩, b4, b5⟩ ⟨-, c2, c3⟩
        refine ⟨?_, b4 ▸ b2, b5 ▸ b3⟩
        rw [c3, b5]
        rw [b5] at c2
        exact HPc_of_chainNode (List.mem_append_right _ (by simp)) c2)
    rw [← key]

theorem imports_exact (mods : List Str) (imps : List ImportRec)
    (h1 : ∀ i ∈ imps, i.importer ∈ mods) (h2 : ∀ i ∈ imps, i.importeeParents = parentModules i.importee) :
    ExI lim mods (knownModules mods) (buildGraph mods imps lim) imps := by
  unfold buildGraph
  have key : ∀ (l : List ImportRec) (g : PGraph Str) (D : List ImportRec), (∀ i ∈ l, i.importer ∈ mods) →
      (∀ i ∈ l, i.importeeParents = parentModules i.importee) → ExI lim mods (knownModules mods) g D →
      ExI lim mods (knownModules mods) (l.foldl (addImport lim (knownModules mods)) g) (D ++ l) := by
    intro l
    induction l with
    | nil => intro g D _ _ h; simpa using h
    | cons i l ih =>
      intro g D a1 a2 h
      simp only [List.foldl_cons]
      have := ih _ _ (fun j hj => a1 j (List.mem_cons_of_mem _ hj)) (fun j hj => a2 j (List.mem_cons_of_mem _ hj))
        (step_import lim mods _ g D i h (a1 i List.mem_cons_self) (a2 i List.mem_cons_self))
      simpa using this
  obtain ⟨m1, m2, m3⟩ := modules_exact lim mods
  have h0 : ExI lim mods (knownModules mods) (addAllModules lim PGraph.empty mods) [] := by
    refine ⟨m1, m2, fun x => ?_⟩
    rw [m3]
    simp [IS]
  simpa using key imps _ _ h1 h2 h0

end

/-! ### consequences: the graph depends on its inputs only as sets -/

theorem NS_congr (lim : Option Nat) {mods mods' : List Str} (h : ∀ x, x ∈ mods ↔ x ∈ mods') (s : Str) :
    NS lim mods s ↔ NS lim mods' s := by
  unfold NS
  constructor
  · rintro ⟨m, hm, r⟩; exact ⟨m, (h m).1 hm, r⟩
  · rintro ⟨m, hm, r⟩; exact ⟨m, (h m).2 hm, r⟩

theorem HS_congr (lim : Option Nat) {mods mods' : List Str} (h : ∀ x, x ∈ mods ↔ x ∈ mods') (s e : Str) :
    HS lim mods s e ↔ HS lim mods' s e := by
  unfold HS; rw [NS_congr lim h]

theorem knownModules_congr {mods mods' : List Str} (h : ∀ x, x ∈ mods ↔ x ∈ mods') (s : Str) :
    s ∈ knownModules mods ↔ s ∈ knownModules mods' := by
  rw [mem_knownModules, mem_knownModules, h]
  apply or_congr Iff.rfl
  constructor
  · rintro ⟨m, hm, r⟩; exact ⟨m, (h m).1 hm, r⟩
  · rintro ⟨m, hm, r⟩; exact ⟨m, (h m).2 hm, r⟩

theorem IS_congr (lim : Option Nat) {mods mods' : List Str} {imps imps' : List ImportRec}
    (h : ∀ x, x ∈ mods ↔ x ∈ mods') (hi : ∀ x, x ∈ imps ↔ x ∈ imps') (s e : Str) :
    IS lim mods (knownModules mods) imps s e ↔ IS lim mods' (knownModules mods') imps' s e := by
  unfold IS
  rw [NS_congr lim h, NS_congr lim h]
  have hk := fun i => skipImportEdge_congr lim _ _ i (knownModules_congr h)
  constructor
  · rintro ⟨a, b, c, i, hi', r1, r⟩; exact ⟨a, b, c, i, (hi i).1 hi', (hk i) ▸ r1, r⟩
  · rintro ⟨a, b, c, i, hi', r1, r⟩; exact ⟨a, b, c, i, (hi i).2 hi', (hk i).symm ▸ r1, r⟩

/-- `buildGraph` depends on the module list and on the import list only as SETS, provided the importers are listed
    modules and the imports carry the parents of their importees -/
theorem buildGraph_equiv (lim : Option Nat) (mods mods' : List Str) (imps imps' : List ImportRec)
    (hm : ∀ x, x ∈ mods ↔ x ∈ mods') (hi : ∀ x, x ∈ imps ↔ x ∈ imps')
    (h1 : ∀ i ∈ imps, i.importer ∈ mods) (h2 : ∀ i ∈ imps, i.importeeParents = parentModules i.importee) :
    GraphEquiv (buildGraph mods imps lim) (buildGraph mods' imps' lim) := by
  obtain ⟨-, n, e⟩ := imports_exact lim mods imps h1 h2
  obtain ⟨-, n', e'⟩ := imports_exact lim mods' imps'
    (fun i hi' => (hm _).1 (h1 i ((hi i).2 hi'))) (fun i hi' => h2 i ((hi i).2 hi'))
  have hedge : ∀ x, x ∈ (buildGraph mods imps lim).edges ↔ x ∈ (buildGraph mods' imps' lim).edges := by
    intro x
    rw [e, e', HS_congr lim hm, IS_congr lim hm hi]
  refine ⟨?_, ?_, ?_, ?_⟩
  · intro s; rw [n, n', NS_congr lim hm]
  · intro s x; rw [BuildMain.mem_hierChildren, BuildMain.mem_hierChildren, hedge]
  · intro s x; rw [BuildMain.mem_importSuccs, BuildMain.mem_importSuccs, hedge]
  · intro s x; rw [BuildMain.mem_importPreds, BuildMain.mem_importPreds, hedge]

end Pta.OrdB
