/-
  PtaProofs.Lemmas.ExtScan — the scan pipeline (`generateGraph`, PtaModel/Scan.lean) seen through the external
  options: which steps depend on `excludeExternal` / `externalExclusions` (only `retainImports` and `moduleList`),
  what every converted import looks like, and the comparison of two runs that differ only in these options.
-/
import Bridge.Abs
import Bridge.ExtAbs
import PtaProofs.Lemmas.SearchChar
import PtaProofs.Lemmas.ExtNames
import PtaProofs.Lemmas.ExtBuild
namespace Pta
namespace ExtScan
open ExtNames ExtBuild BuildGen

/-! ### reading the edge lists -/

theorem mem_importPairs (g : PGraph Str) (a b : Str) : (a, b) ∈ g.importPairs ↔ (⟨a, b, false⟩ : Edge Str) ∈ g.edges := by
  unfold PGraph.importPairs
  simp only [List.mem_map, List.mem_filter, Bool.not_eq_true', Prod.mk.injEq]
  constructor
  · rintro ⟨⟨es, ed, ei⟩, ⟨hm, h1⟩, h2, h3⟩
    simp only at h1 h2 h3
    subst h1 h2 h3
    exact hm
  · intro h
    exact ⟨_, ⟨h, rfl⟩, rfl, rfl⟩

theorem mem_hierPairs (g : PGraph Str) (a b : Str) : (a, b) ∈ g.hierPairs ↔ (⟨a, b, true⟩ : Edge Str) ∈ g.edges := by
  unfold PGraph.hierPairs
  simp only [List.mem_map, List.mem_filter, Prod.mk.injEq]
  constructor
  · rintro ⟨⟨es, ed, ei⟩, ⟨hm, h1⟩, h2, h3⟩
    simp only at h1 h2 h3
    subst h1 h2 h3
    exact hm
  · intro h
    exact ⟨_, ⟨h, rfl⟩, rfl, rfl⟩

theorem withParents_eq_chain (m : Str) : withParents m = chain m := rfl

/-! ### converted imports -/

/-- what every record produced for module `importer` looks like -/
def Good (importer : Str) (i : ImportRec) : Prop :=
  i.importer = importer ∧ i.importeeParents = parentModules i.importee

theorem good_abs (importer x : Str) : Good importer (absImport importer x) := ⟨rfl, rfl⟩

theorem convertStmt_good (importer absPrefix : Str) (internal : List Str) (st : ImportStmt) (r : List ImportRec)
    (h : convertStmt importer absPrefix internal st = .ok r) : ∀ i ∈ r, Good importer i := by
  cases st with
  | imp names =>
    simp only [convertStmt, Except.ok.injEq] at h
    subst h
    intro i hi
    obtain ⟨n, -, rfl⟩ := List.mem_map.1 hi
    exact good_abs _ _
  | impFrom module names level =>
    cases level with
    | zero =>
      cases module with
      | none => simp [convertStmt] at h
      | some m =>
        simp only [convertStmt, Except.ok.injEq] at h
        subst h
        intro i hi
        obtain ⟨n, -, rfl⟩ := List.mem_map.1 hi
        split <;> exact good_abs _ _
    | succ level =>
      simp only [convertStmt] at h
      intro i hi
      obtain ⟨n, -, hn⟩ := mapM_ok_mem _ _ _ h i hi
      cases module with
      | none =>
        simp only [bind, Except.bind, pure, Except.pure] at hn
        split at hn
        · cases hn
        · cases hn; exact good_abs _ _
      | some m =>
        simp only [bind, Except.bind, pure, Except.pure] at hn
        split at hn
        · cases hn
        · split at hn
          · cases hn
          · cases hn
            split <;> exact good_abs _ _

/-- folding `acc ++ f x` in `Except`: every element of the result comes from the start or from one `f x` -/
theorem foldlM_append_mem {α β : Type} (f : α → Except ErrKind (List β)) (l : List α) (init res : List β)
    (h : l.foldlM (fun acc x => do let r ← f x; pure (acc ++ r)) init = .ok res) :
    ∀ y ∈ res, y ∈ init ∨ ∃ x ∈ l, ∃ r, f x = .ok r ∧ y ∈ r := by
  induction l generalizing init with
  | nil =>
    simp only [List.foldlM_nil, pure, Except.pure, Except.ok.injEq] at h
    subst h
    intro y hy; exact Or.inl hy
  | cons a l ih =>
    rw [List.foldlM_cons] at h
    cases hfa : f a with
    | error e => simp [hfa, bind, Except.bind] at h
    | ok r =>
      simp only [hfa, bind, Except.bind, pure, Except.pure] at h
      intro y hy
      rcases ih _ h y hy with h1 | ⟨x, hx, r', hr', hy'⟩
      · rcases List.mem_append.1 h1 with h1 | h1
        · exact Or.inl h1
        · exact Or.inr ⟨a, List.mem_cons_self, r, hfa, h1⟩
      · exact Or.inr ⟨x, List.mem_cons_of_mem _ hx, r', hr', hy'⟩

theorem convertAll_good (parsed : Parsed) (absPrefix : Str) (internal : List Str) (I : List ImportRec)
    (h : convertAll parsed absPrefix internal = .ok I) :
    ∀ i ∈ I, ∃ f ∈ parsed.files, Good f.1 i := by
  unfold convertAll at h
  intro i hi
  rcases foldlM_append_mem _ _ _ _ h i hi with h0 | ⟨f, hf, r, hr, hir⟩
  · cases h0
  · refine ⟨f, hf, ?_⟩
    rcases foldlM_append_mem _ _ _ _ hr i hir with h0 | ⟨st, -, r', hr', hir'⟩
    · cases h0
    · exact convertStmt_good _ _ _ _ _ hr' i hir'

/-! ### the walk: every file is a module -/

def FilesIn (p : Parsed) : Prop := ∀ f ∈ p.files, f.1 ∈ p.allModules

theorem filesIn_append {a b : Parsed} (ha : FilesIn a) (hb : FilesIn b) : FilesIn (a.append b) := by
  intro f hf
  simp only [Parsed.append, List.mem_append] at hf ⊢
  rcases hf with hf | hf
  · exact Or.inl (ha f hf)
  · exact Or.inr (hb f hf)

theorem parseWalk_filesIn (excl : Str → Bool) (base rootName : Str) (entries : List Entry) :
    ∀ fuel e, FilesIn (parseWalk excl base rootName entries fuel e) := by
  intro fuel
  induction fuel with
  | zero => intro e f hf; simp [parseWalk] at hf
  | succ fuel ih =>
    intro e
    unfold parseWalk
    simp only
    split
    · split
      · intro f hf; simp at hf
      · apply foldl_inv (fun acc c => acc.append (parseWalk excl base rootName entries fuel c)) FilesIn
        · intro g x _ hg
          exact filesIn_append hg (ih x)
        · intro f hf; simp at hf
    · split
      · intro f hf; simp at hf
      · split
        · intro f hf
          simp only [List.mem_singleton] at hf
          subst hf
          simp
        · intro f hf; simp at hf

theorem scanParsed_filesIn (mt : Str → Str → Bool) (base rootName : Str) (mp : List Str) (entries : List Entry)
    (o : ScanOptions) : FilesIn (scanParsed mt base rootName mp entries o) :=
  parseWalk_filesIn _ _ _ _ _ _

theorem scanParsed_congr (mt : Str → Str → Bool) (base rootName : Str) (mp : List Str) (entries : List Entry)
    (o o' : ScanOptions) (h : o.exclusions = o'.exclusions) :
    scanParsed mt base rootName mp entries o = scanParsed mt base rootName mp entries o' := by
  unfold scanParsed; rw [h]

/-! ### the two option-dependent steps -/

theorem retainImports_eq (mt : Str → Str → Bool) (o : ScanOptions) (pre : Str) (I : List ImportRec) :
    retainImports mt o pre I = I.filter (retained mt o pre) := by
  unfold retainImports retained
  simp only
  by_cases h1 : (!o.excludeExternal && o.externalExclusions.isEmpty) = true
  · simp only [h1, if_true]
    exact (List.filter_eq_self.2 (fun _ _ => rfl)).symm
  · simp only [h1, Bool.false_eq_true, if_false]
    by_cases h2 : (!o.externalExclusions.isEmpty) = true
    · simp only [h2, if_true]
    · simp only [h2, Bool.false_eq_true, if_false]

theorem retained_internal (mt : Str → Str → Bool) (o : ScanOptions) (pre : Str) (i : ImportRec)
    (h : isInternal i.importee pre = true) : retained mt o pre i = true := by
  unfold retained
  split
  · rfl
  · split <;> simp [h]

theorem mem_retainImports (mt : Str → Str → Bool) (o : ScanOptions) (pre : Str) (I : List ImportRec) (i : ImportRec) :
    i ∈ retainImports mt o pre I ↔ i ∈ I ∧ retained mt o pre i = true := by
  rw [retainImports_eq, List.mem_filter]

/-- membership in the extended module list -/
theorem mem_moduleList (mt : Str → Str → Bool) (base : Str) (o : ScanOptions) (pre : Str) (P : List Str)
    (R : List ImportRec) (m : Str) :
    m ∈ moduleList mt base o pre P R ↔
      m ∈ P ∨ (o.excludeExternal = false ∧
        (∃ i ∈ R, isInternal i.importee pre = false ∧ m ∈ i.importee :: i.importeeParents) ∧
        (o.externalExclusions.isEmpty = true ∨ isExcluded mt o.externalExclusions m = false)) := by
  unfold moduleList
  by_cases hx : o.excludeExternal = true
  · simp [hx]
  · have hx' : o.excludeExternal = false := by simpa using hx
    simp only [hx', Bool.false_eq_true, if_false, true_and]
    have hadd : m ∈ dedup (P ++ (R.filter fun i => !isInternal i.importee pre).flatMap
          fun i => i.importee :: i.importeeParents) ↔
        m ∈ P ∨ ∃ i ∈ R, isInternal i.importee pre = false ∧ m ∈ i.importee :: i.importeeParents := by
      rw [mem_dedup, List.mem_append]
      apply or_congr Iff.rfl
      simp only [List.mem_flatMap, List.mem_filter, Bool.not_eq_true']
      constructor
      · rintro ⟨i, ⟨hi, hint⟩, hm⟩
        exact ⟨i, hi, hint, hm⟩
      · rintro ⟨i, hi, hint, hm⟩
        exact ⟨i, ⟨hi, hint⟩, hm⟩
    by_cases he : o.externalExclusions.isEmpty = true
    · simp only [he, if_true, true_or, and_true]
      exact hadd
    · simp only [he, Bool.false_eq_true, if_false, false_or]
      rw [List.mem_filter, hadd]
      simp only [Bool.or_eq_true, List.contains_iff_mem, Bool.not_eq_true']
      constructor
      · rintro ⟨h1 | h1, h2 | h2⟩
        · exact Or.inl h1
        · exact Or.inl h1
        · exact Or.inl h2
        · exact Or.inr ⟨h1, h2⟩
      · rintro (h | ⟨h1, h2⟩)
        · exact ⟨Or.inl h, Or.inl h⟩
        · exact ⟨Or.inr h1, Or.inr h2⟩

/-! ### `generateGraph`, unfolded -/

theorem generateGraph_eq (mt : Str → Str → Bool) (base rootName : Str) (mp : List Str) (entries : List Entry)
    (o : ScanOptions) :
    generateGraph mt base rootName mp entries o =
      match convertAll (scanParsed mt base rootName mp entries o) (absolutePrefix rootName mp)
          ((scanParsed mt base rootName mp entries o).allModules.filter fun m => isInternal m (internalPrefix rootName mp)) with
      | .error e => .error e
      | .ok I => .ok (buildGraph
          (moduleList mt base o (internalPrefix rootName mp) (scanParsed mt base rootName mp entries o).allModules
            (retainImports mt o (internalPrefix rootName mp) I))
          (retainImports mt o (internalPrefix rootName mp) I) (shiftedLimit o mp)) := by
  unfold generateGraph
  simp only [bind, Except.bind, pure, Except.pure]
  split <;> simp_all

/-- the hypotheses of `buildGraph_char` hold for the lists `generateGraph` passes to the constructor -/
theorem scan_himp (mt : Str → Str → Bool) (base : Str) (o : ScanOptions) (pre : Str) (parsed : Parsed)
    (hfi : FilesIn parsed) (absPrefix : Str) (internal : List Str) (I : List ImportRec)
    (hI : convertAll parsed absPrefix internal = .ok I) (lim : Option Nat) :
    ∀ i ∈ retainImports mt o pre I,
      NodeOf lim (moduleList mt base o pre parsed.allModules (retainImports mt o pre I)) (flattenNode lim i.importer) ∧
      i.importeeParents = parentModules i.importee := by
  intro i hi
  obtain ⟨hiI, -⟩ := (mem_retainImports mt o pre I i).1 hi
  obtain ⟨f, hf, h1, h2⟩ := convertAll_good parsed absPrefix internal I hI i hiI
  refine ⟨⟨i.importer, ?_, self_mem_chain _⟩, h2⟩
  rw [mem_moduleList, h1]
  exact Or.inl (hfi f hf)

/-! ### comparing two constructor runs -/

theorem internal_chain {pre s x : Str} (h : isInternal s pre = true) (hs : s ∈ chain x) : isInternal x pre = true :=
  isModuleOrSub_chain h hs

theorem nodeOf_internal (lim : Option Nat) (pre : Str) (M M' : List Str)
    (hM : ∀ m, isInternal m pre = true → m ∈ M → m ∈ M') (s : Str) (hs : isInternal s pre = true)
    (h : NodeOf lim M s) : NodeOf lim M' s := by
  obtain ⟨m, hm, hc⟩ := h
  exact ⟨m, hM m (internal_chain hs (chain_trans hc (flatten_mem_chain lim m))) hm, hc⟩

/-- an internal known module stays known when the module list keeps its internal members -/
theorem known_internal (pre : Str) (M M' : List Str)
    (hM : ∀ m, isInternal m pre = true → m ∈ M → m ∈ M') (s : Str) (hs : isInternal s pre = true)
    (h : s ∈ knownModules M) : s ∈ knownModules M' := by
  rw [mem_knownModules] at h ⊢
  rcases h with h | ⟨m, hm, hp⟩
  · exact Or.inl (hM s hs h)
  · exact Or.inr ⟨m, hM m (internal_chain hs (parent_mem_chain hp)) hm, hp⟩

/-- an import between internal modules that is not skipped for `M` is not skipped for `M'` -/
theorem skip_internal (lim : Option Nat) (pre : Str) (M M' : List Str)
    (hM : ∀ m, isInternal m pre = true → m ∈ M → m ∈ M') (i : ImportRec)
    (h1 : isInternal i.importer pre = true) (h2 : isInternal i.importee pre = true)
    (h : skipImportEdge lim (knownModules M) i = false) : skipImportEdge lim (knownModules M') i = false := by
  cases lim with
  | none => rfl
  | some k =>
    rw [skipImportEdge_some] at h ⊢
    exact ⟨known_internal pre M M' hM _ h1 h.1, known_internal pre M M' hM _ h2 h.2⟩

/-- one direction of the comparison: everything internal in the first graph is in the second -/
theorem internal_sub (lim : Option Nat) (pre : Str) (M M' : List Str) (R R' : List ImportRec)
    (h1 : ∀ i ∈ R, NodeOf lim M (flattenNode lim i.importer) ∧ i.importeeParents = parentModules i.importee)
    (h2 : ∀ i ∈ R', NodeOf lim M' (flattenNode lim i.importer) ∧ i.importeeParents = parentModules i.importee)
    (hM : ∀ m, isInternal m pre = true → m ∈ M → m ∈ M')
    (hR : ∀ i, isInternal i.importee pre = true → i ∈ R → i ∈ R') :
    (∀ s, s ∈ internalNodes pre (buildGraph M R lim) → s ∈ internalNodes pre (buildGraph M' R' lim)) ∧
    (∀ p, p ∈ internalImports pre (buildGraph M R lim) → p ∈ internalImports pre (buildGraph M' R' lim)) ∧
    (∀ p, p ∈ internalHier pre (buildGraph M R lim) → p ∈ internalHier pre (buildGraph M' R' lim)) := by
  obtain ⟨n1, t1, f1⟩ := buildGraph_char M R lim h1
  obtain ⟨n2, t2, f2⟩ := buildGraph_char M' R' lim h2
  have hN := nodeOf_internal lim pre M M' hM
  refine ⟨?_, ?_, ?_⟩
  · intro s
    unfold internalNodes
    simp only [List.mem_filter]
    rintro ⟨hs, hi⟩
    exact ⟨(n2 s).2 (hN s hi ((n1 s).1 hs)), hi⟩
  · rintro ⟨a, b⟩
    unfold internalImports bothInternal
    simp only [List.mem_filter, Bool.and_eq_true, mem_importPairs]
    rintro ⟨he, ha, hb⟩
    refine ⟨?_, ha, hb⟩
    obtain ⟨e1, e2, e3, e4, i, hi, hsk, rfl, rfl⟩ := (f1 a b).1 he
    refine (f2 _ _).2 ⟨e1, e2, hN _ ha e3, hN _ hb e4, i, ?_, ?_, rfl, rfl⟩
    · exact hR i (internal_chain hb (flatten_mem_chain lim _)) hi
    · exact skip_internal lim pre M M' hM i (internal_chain ha (flatten_mem_chain lim _))
        (internal_chain hb (flatten_mem_chain lim _)) hsk
  · rintro ⟨a, b⟩
    unfold internalHier bothInternal
    simp only [List.mem_filter, Bool.and_eq_true, mem_hierPairs]
    rintro ⟨he, ha, hb⟩
    refine ⟨?_, ha, hb⟩
    obtain ⟨e1, e2⟩ := (t1 a b).1 he
    exact (t2 a b).2 ⟨e1, hN _ hb e2⟩

/-! ### comparing two scans -/

/-- an internal module is in the extended module list iff it was parsed (given well-shaped imports) -/
theorem moduleList_internal (mt : Str → Str → Bool) (base : Str) (o : ScanOptions) (pre : Str) (P : List Str)
    (R : List ImportRec) (hR : ∀ i ∈ R, i.importeeParents = parentModules i.importee) (m : Str)
    (hm : isInternal m pre = true) : m ∈ moduleList mt base o pre P R ↔ m ∈ P := by
  rw [mem_moduleList]
  constructor
  · rintro (h | ⟨-, ⟨i, hi, hext, hmem⟩, -⟩)
    · exact h
    · exfalso
      have : m ∈ chain i.importee := by
        rw [hR i hi] at hmem
        unfold chain
        rcases List.mem_cons.1 hmem with rfl | h
        · simp
        · exact List.mem_append_left _ h
      rw [internal_chain hm this] at hext
      cases hext
  · exact Or.inl

theorem internal_invariant_lemma (mt : Str → Str → Bool) (base rootName : Str) (mp : List Str) (entries : List Entry)
    (o o' : ScanOptions) (hex : o.exclusions = o'.exclusions) (hlim : o.levelLimit = o'.levelLimit) :
    (∀ e, generateGraph mt base rootName mp entries o = .error e ↔
          generateGraph mt base rootName mp entries o' = .error e) ∧
    ∀ g g', generateGraph mt base rootName mp entries o = .ok g →
      generateGraph mt base rootName mp entries o' = .ok g' →
      (∀ s, s ∈ internalNodes (internalPrefix rootName mp) g ↔ s ∈ internalNodes (internalPrefix rootName mp) g') ∧
      (∀ p, p ∈ internalImports (internalPrefix rootName mp) g ↔ p ∈ internalImports (internalPrefix rootName mp) g') ∧
      (∀ p, p ∈ internalHier (internalPrefix rootName mp) g ↔ p ∈ internalHier (internalPrefix rootName mp) g') := by
  rw [generateGraph_eq, generateGraph_eq]
  have hp := scanParsed_congr mt base rootName mp entries o o' hex
  have hs : shiftedLimit o mp = shiftedLimit o' mp := by unfold shiftedLimit; rw [hlim]
  rw [← hp, ← hs]
  generalize hpd : scanParsed mt base rootName mp entries o = parsed
  have hfi : FilesIn parsed := by rw [← hpd]; exact scanParsed_filesIn _ _ _ _ _ _
  generalize internalPrefix rootName mp = pre
  generalize shiftedLimit o mp = lim
  cases hI : convertAll parsed (absolutePrefix rootName mp) (parsed.allModules.filter fun m => isInternal m pre) with
  | error e0 =>
    refine ⟨fun e => Iff.rfl, ?_⟩
    intro g g' h; cases h
  | ok I =>
    refine ⟨fun e => by simp, ?_⟩
    intro g g' h h'
    simp only [Except.ok.injEq] at h h'
    subst h h'
    have a1 := scan_himp mt base o pre parsed hfi _ _ I hI lim
    have a2 := scan_himp mt base o' pre parsed hfi _ _ I hI lim
    have hM : ∀ (o₁ o₂ : ScanOptions) (m : Str), isInternal m pre = true →
        m ∈ moduleList mt base o₁ pre parsed.allModules (retainImports mt o₁ pre I) →
        m ∈ moduleList mt base o₂ pre parsed.allModules (retainImports mt o₂ pre I) := by
      intro o₁ o₂ m hm h
      have b1 := scan_himp mt base o₁ pre parsed hfi _ _ I hI lim
      have b2 := scan_himp mt base o₂ pre parsed hfi _ _ I hI lim
      rw [moduleList_internal mt base o₁ pre _ _ (fun i hi => (b1 i hi).2) m hm] at h
      rw [moduleList_internal mt base o₂ pre _ _ (fun i hi => (b2 i hi).2) m hm]
      exact h
    have hR : ∀ (o₁ o₂ : ScanOptions) (i : ImportRec), isInternal i.importee pre = true →
        i ∈ retainImports mt o₁ pre I → i ∈ retainImports mt o₂ pre I := by
      intro o₁ o₂ i hi h
      rw [mem_retainImports] at h ⊢
      exact ⟨h.1, retained_internal mt o₂ pre i hi⟩
    obtain ⟨x1, x2, x3⟩ := internal_sub lim pre _ _ _ _ a1 a2 (hM o o') (hR o o')
    obtain ⟨y1, y2, y3⟩ := internal_sub lim pre _ _ _ _ a2 a1 (hM o' o) (hR o' o)
    exact ⟨fun s => ⟨x1 s, y1 s⟩, fun p => ⟨x2 p, y2 p⟩, fun p => ⟨x3 p, y3 p⟩⟩

/-! ### externals excluded -/

theorem retained_excluded (mt : Str → Str → Bool) (o : ScanOptions) (pre : Str) (i : ImportRec)
    (hx : o.excludeExternal = true) (hadm : o.admissible = true) :
    retained mt o pre i = isInternal i.importee pre := by
  unfold ScanOptions.admissible at hadm
  simp only [hx, Bool.not_true, Bool.false_or] at hadm
  unfold retained
  simp [hx, hadm]

theorem moduleList_excluded (mt : Str → Str → Bool) (base : Str) (o : ScanOptions) (pre : Str) (P : List Str)
    (R : List ImportRec) (hx : o.excludeExternal = true) : moduleList mt base o pre P R = P := by
  unfold moduleList; simp [hx]

theorem externals_excluded_lemma (mt : Str → Str → Bool) (base rootName : Str) (mp : List Str) (entries : List Entry)
    (o : ScanOptions) (g : PGraph Str) (hx : o.excludeExternal = true) (hadm : o.admissible = true)
    (h : generateGraph mt base rootName mp entries o = .ok g) :
    (∀ s, s ∈ g.nodes ↔ ∃ m ∈ (scanParsed mt base rootName mp entries o).allModules,
        s ∈ withParents (flattenNode (shiftedLimit o mp) m)) ∧
    (∀ a b, (a, b) ∈ g.importPairs → a ∈ g.nodes ∧ b ∈ g.nodes ∧
        ∃ y, isInternal y (internalPrefix rootName mp) = true ∧ b = flattenNode (shiftedLimit o mp) y) := by
  rw [generateGraph_eq] at h
  generalize hpd : scanParsed mt base rootName mp entries o = parsed at h ⊢
  have hfi : FilesIn parsed := by rw [← hpd]; exact scanParsed_filesIn _ _ _ _ _ _
  generalize internalPrefix rootName mp = pre at h ⊢
  generalize shiftedLimit o mp = lim at h ⊢
  cases hI : convertAll parsed (absolutePrefix rootName mp) (parsed.allModules.filter fun m => isInternal m pre) with
  | error e0 => rw [hI] at h; cases h
  | ok I =>
    rw [hI] at h
    simp only [Except.ok.injEq] at h
    subst h
    have a1 := scan_himp mt base o pre parsed hfi _ _ I hI lim
    obtain ⟨n1, -, f1⟩ := buildGraph_char _ _ lim a1
    rw [moduleList_excluded mt base o pre _ _ hx] at n1 f1 ⊢
    refine ⟨n1, ?_⟩
    intro a b hab
    rw [mem_importPairs] at hab
    obtain ⟨-, -, e3, e4, i, hi, -, rfl, rfl⟩ := (f1 a b).1 hab
    refine ⟨(n1 _).2 e3, (n1 _).2 e4, i.importee, ?_, rfl⟩
    have := ((mem_retainImports mt o pre I i).1 hi).2
    rw [retained_excluded mt o pre i hx hadm] at this
    exact this

/-! ### externals included -/

theorem retained_true_cases (mt : Str → Str → Bool) (o : ScanOptions) (pre : Str) (i : ImportRec)
    (hx : o.excludeExternal = false) (hext : isInternal i.importee pre = false) (h : retained mt o pre i = true) :
    o.externalExclusions.isEmpty = true ∨
      (isExcluded mt o.externalExclusions i.importee = false ∧
        ∀ p ∈ i.importeeParents, isExcluded mt o.externalExclusions p = false) := by
  unfold retained at h
  by_cases he : o.externalExclusions.isEmpty = true
  · exact Or.inl he
  · right
    simp only [hx, he, hext, Bool.not_false, Bool.and_false, Bool.false_eq_true, if_false, Bool.not_eq_true,
      Bool.false_or, Bool.not_eq_true', Bool.or_eq_false_iff, List.any_eq_false, if_true] at h
    refine ⟨h.1, fun p hp => ?_⟩
    have := h.2 p hp
    simpa using this

theorem retained_false_cases (mt : Str → Str → Bool) (o : ScanOptions) (pre : Str) (i : ImportRec)
    (hx : o.excludeExternal = false) (h : retained mt o pre i = false) :
    o.externalExclusions.isEmpty = false ∧
      (isExcluded mt o.externalExclusions i.importee = true ∨
        ∃ p ∈ i.importeeParents, isExcluded mt o.externalExclusions p = true) := by
  unfold retained at h
  by_cases he : o.externalExclusions.isEmpty = true
  · simp [hx, he] at h
  · have he' : o.externalExclusions.isEmpty = false := by simpa using he
    refine ⟨he', ?_⟩
    simp only [hx, he', Bool.not_false, Bool.and_false, Bool.false_eq_true, if_false, if_true,
      Bool.or_eq_false_iff, Bool.not_eq_false', Bool.or_eq_true, List.any_eq_true] at h
    exact h.2

theorem externals_included_lemma (mt : Str → Str → Bool) (base rootName : Str) (mp : List Str) (entries : List Entry)
    (o : ScanOptions) (g : PGraph Str) (hx : o.excludeExternal = false) (hl : o.levelLimit = none)
    (h : generateGraph mt base rootName mp entries o = .ok g) (I : List ImportRec)
    (hI : convertAll (scanParsed mt base rootName mp entries o) (absolutePrefix rootName mp)
      ((scanParsed mt base rootName mp entries o).allModules.filter fun m => isInternal m (internalPrefix rootName mp)) = .ok I)
    (i : ImportRec) (hi : i ∈ I) (hext : isInternal i.importee (internalPrefix rootName mp) = false) :
    (retained mt o (internalPrefix rootName mp) i = true →
      (∀ s ∈ withParents i.importee, s ∈ g.nodes) ∧
      (isInternal i.importer (internalPrefix rootName mp) = true → (i.importer, i.importee) ∈ g.importPairs)) ∧
    (retained mt o (internalPrefix rootName mp) i = false →
      (∀ m ∈ (scanParsed mt base rootName mp entries o).allModules, i.importee ∉ withParents m) →
      i.importee ∉ g.nodes ∧ ∀ x ∈ g.edges, x.src ≠ i.importee ∧ x.dst ≠ i.importee) := by
  rw [generateGraph_eq] at h
  have hs : shiftedLimit o mp = none := by unfold shiftedLimit; rw [hl]; rfl
  rw [hs] at h
  generalize hpd : scanParsed mt base rootName mp entries o = parsed at h hI ⊢
  have hfi : FilesIn parsed := by rw [← hpd]; exact scanParsed_filesIn _ _ _ _ _ _
  generalize internalPrefix rootName mp = pre at h hI hext ⊢
  rw [hI] at h
  simp only [Except.ok.injEq] at h
  subst h
  have a1 := scan_himp mt base o pre parsed hfi _ _ I hI none
  obtain ⟨n1, t1, f1⟩ := buildGraph_char _ _ none a1
  obtain ⟨f, hf, hg1, hg2⟩ := convertAll_good parsed _ _ I hI i hi
  have hXP : i.importer ∈ parsed.allModules := by rw [hg1]; exact hfi f hf
  constructor
  · intro hret
    have hiR : i ∈ retainImports mt o pre I := (mem_retainImports mt o pre I i).2 ⟨hi, hret⟩
    have hYM : i.importee ∈ moduleList mt base o pre parsed.allModules (retainImports mt o pre I) := by
      rw [mem_moduleList]
      right
      refine ⟨hx, ⟨i, hiR, hext, List.mem_cons_self⟩, ?_⟩
      rcases retained_true_cases mt o pre i hx hext hret with h | h
      · exact Or.inl h
      · exact Or.inr h.1
    have hnode : ∀ s ∈ withParents i.importee, NodeOf none
        (moduleList mt base o pre parsed.allModules (retainImports mt o pre I)) s :=
      fun s hs => ⟨i.importee, hYM, hs⟩
    refine ⟨fun s hs => (n1 s).2 (hnode s hs), ?_⟩
    intro hXint
    rw [mem_importPairs, f1]
    refine ⟨?_, ?_, ⟨i.importer, ?_, self_mem_chain _⟩, hnode _ (self_mem_chain _), i, hiR, rfl, rfl, rfl⟩
    · intro hp
      have := internal_chain hXint (parent_mem_chain (hierPair_parent hp))
      rw [this] at hext; cases hext
    · intro he
      rw [he] at hXint
      rw [hXint] at hext; cases hext
    · rw [mem_moduleList]; exact Or.inl hXP
  · intro hret hnp
    obtain ⟨hne, hexc⟩ := retained_false_cases mt o pre i hx hret
    have hnot : ¬ NodeOf none (moduleList mt base o pre parsed.allModules (retainImports mt o pre I)) i.importee := by
      rintro ⟨m, hm, hYm⟩
      rw [mem_moduleList] at hm
      rcases hm with hm | ⟨-, ⟨j, hj, hjext, hmj⟩, -⟩
      · exact hnp m hm hYm
      · obtain ⟨hjI, hjret⟩ := (mem_retainImports mt o pre I j).1 hj
        have hjp := (a1 j hj).2
        have hmW : m ∈ chain j.importee := by
          rw [hjp] at hmj
          unfold chain
          rcases List.mem_cons.1 hmj with rfl | h
          · simp
          · exact List.mem_append_left _ h
        have hYW : i.importee ∈ chain j.importee := chain_trans hYm hmW
        rcases retained_true_cases mt o pre j hx hjext hjret with h | ⟨hW, hWp⟩
        · rw [h] at hne; cases hne
        · rw [hjp] at hWp
          -- every member of the chain of `W` is not excluded
          have hall : ∀ s ∈ chain j.importee, isExcluded mt o.externalExclusions s = false := by
            intro s hs
            unfold chain at hs
            rcases List.mem_append.1 hs with hs | hs
            · exact hWp s hs
            · simp only [List.mem_singleton] at hs; subst hs; exact hW
          rcases hexc with hY | ⟨p, hp, hpe⟩
          · rw [hall _ hYW] at hY; cases hY
          · rw [hg2] at hp
            rw [hall p (chain_trans (parent_mem_chain hp) hYW)] at hpe; cases hpe
    refine ⟨fun hc => hnot ((n1 _).1 hc), ?_⟩
    rintro ⟨a, b, inh⟩ hxe
    simp only
    cases inh with
    | true =>
      obtain ⟨hp, hb⟩ := (t1 a b).1 hxe
      constructor
      · rintro rfl
        obtain ⟨m, hm, hbm⟩ := hb
        exact hnot ⟨m, hm, chain_trans (parent_mem_chain (hierPair_parent hp)) hbm⟩
      · rintro rfl; exact hnot hb
    | false =>
      obtain ⟨-, -, ha, hb, -⟩ := (f1 a b).1 hxe
      constructor
      · rintro rfl; exact hnot ha
      · rintro rfl; exact hnot hb

/-! ### externals included, with a level limit -/

theorem externals_retained_lemma (mt : Str → Str → Bool) (base rootName : Str) (mp : List Str) (entries : List Entry)
    (o : ScanOptions) (g : PGraph Str) (hx : o.excludeExternal = false)
    (h : generateGraph mt base rootName mp entries o = .ok g) (I : List ImportRec)
    (hI : convertAll (scanParsed mt base rootName mp entries o) (absolutePrefix rootName mp)
      ((scanParsed mt base rootName mp entries o).allModules.filter fun m => isInternal m (internalPrefix rootName mp)) = .ok I)
    (i : ImportRec) (hi : i ∈ I) (hext : isInternal i.importee (internalPrefix rootName mp) = false)
    (hret : retained mt o (internalPrefix rootName mp) i = true) :
    (∀ s ∈ withParents (flattenNode (shiftedLimit o mp) i.importee), s ∈ g.nodes) ∧
    (isInternal (flattenNode (shiftedLimit o mp) i.importer) (internalPrefix rootName mp) = true →
      isInternal (flattenNode (shiftedLimit o mp) i.importee) (internalPrefix rootName mp) = false →
      (flattenNode (shiftedLimit o mp) i.importer, flattenNode (shiftedLimit o mp) i.importee) ∈ g.importPairs) := by
  rw [generateGraph_eq] at h
  generalize hpd : scanParsed mt base rootName mp entries o = parsed at h hI ⊢
  have hfi : FilesIn parsed := by rw [← hpd]; exact scanParsed_filesIn _ _ _ _ _ _
  generalize internalPrefix rootName mp = pre at h hI hext hret ⊢
  generalize shiftedLimit o mp = lim at h ⊢
  rw [hI] at h
  simp only [Except.ok.injEq] at h
  subst h
  have a1 := scan_himp mt base o pre parsed hfi _ _ I hI lim
  obtain ⟨n1, -, f1⟩ := buildGraph_char _ _ lim a1
  obtain ⟨f, hf, hg1, hg2⟩ := convertAll_good parsed _ _ I hI i hi
  have hXP : i.importer ∈ parsed.allModules := by rw [hg1]; exact hfi f hf
  have hiR : i ∈ retainImports mt o pre I := (mem_retainImports mt o pre I i).2 ⟨hi, hret⟩
  have hYM : i.importee ∈ moduleList mt base o pre parsed.allModules (retainImports mt o pre I) := by
    rw [mem_moduleList]
    right
    refine ⟨hx, ⟨i, hiR, hext, List.mem_cons_self⟩, ?_⟩
    rcases retained_true_cases mt o pre i hx hext hret with h | h
    · exact Or.inl h
    · exact Or.inr h.1
  have hnode : ∀ s ∈ withParents (flattenNode lim i.importee), NodeOf lim
      (moduleList mt base o pre parsed.allModules (retainImports mt o pre I)) s :=
    fun s hs => ⟨i.importee, hYM, hs⟩
  refine ⟨fun s hs => (n1 s).2 (hnode s hs), ?_⟩
  intro hXint hYext
  rw [mem_importPairs, f1]
  have hXM : i.importer ∈ moduleList mt base o pre parsed.allModules (retainImports mt o pre I) := by
    rw [mem_moduleList]; exact Or.inl hXP
  refine ⟨?_, ?_, ⟨i.importer, hXM, self_mem_chain _⟩, hnode _ (self_mem_chain _), i, hiR,
    skipImportEdge_false_of_mem lim _ i (List.mem_append_left _ hXM) (List.mem_append_left _ hYM), rfl, rfl⟩
  · intro hp
    have := internal_chain hXint (parent_mem_chain (hierPair_parent hp))
    rw [this] at hYext; cases hYext
  · intro he
    rw [he] at hXint
    rw [hXint] at hYext; cases hYext

/-- flattening to at least as many components as the prefix has does not change internality -/
theorem isInternal_flatten (pre x : Str) (k : Nat) (hk : (splitDots pre).length ≤ k + 1) :
    isInternal (flattenNode (some k) x) pre = isInternal x pre := by
  rw [Bool.eq_iff_iff]
  unfold isInternal
  rw [isModuleOrSub_iff, isModuleOrSub_iff, splitDots_flatten, List.prefix_take_iff]
  exact ⟨fun h => h.1, fun h => ⟨h, hk⟩⟩

theorem splitDots_joinDots_nodot (cs : List Str) (h : ∀ c ∈ cs, '.' ∉ c) (hne : cs ≠ []) :
    splitDots (joinDots cs) = cs := splitDots_joinDots cs h hne

/-- with dot-free directory names the shifted limit never cuts into the internal prefix -/
theorem isInternal_shifted (rootName : Str) (mp : List Str) (o : ScanOptions) (x : Str)
    (hr : '.' ∉ rootName) (hmp : ∀ c ∈ mp, '.' ∉ c) :
    isInternal (flattenNode (shiftedLimit o mp) x) (internalPrefix rootName mp) = isInternal x (internalPrefix rootName mp) := by
  unfold shiftedLimit
  cases hl : o.levelLimit with
  | none => rfl
  | some k =>
    simp only [Option.map_some]
    apply isInternal_flatten
    unfold internalPrefix
    by_cases he : mp.isEmpty = true
    · simp only [he, Bool.not_true, Bool.false_eq_true, if_false]
      rw [splitDots_nodot rootName hr]
      simp
    · simp only [he, Bool.not_false, if_true]
      rw [splitDots_joinDots_nodot (rootName :: mp) (by
        intro c hc
        rcases List.mem_cons.1 hc with rfl | hc
        · exact hr
        · exact hmp c hc) (by simp)]
      simp

end ExtScan
end Pta
