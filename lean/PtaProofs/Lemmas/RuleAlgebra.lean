/-
  PtaProofs.Lemmas.RuleAlgebra — lemmas behind the rule-algebra theorems of Props/C12.lean.

  Proved: duality, decomposition, decomposition_except, monotone_should, monotone_should_not.
  `negation_lemma` is FALSE as stated (a regex subject may expand to several modules; see
  `negation_lemma_counterexample` / `negation_lemma_counterexample_except` below, both kernel-checked by `decide`);
  it is therefore not stated; the counterexamples are below. What does hold is proved here:
  `negation_lemma_of_not_regex` (the stated equivalence for non-regex filters) and `negation_lemma_mp`
  (the direction pass → fail for all filters).
-/
import Bridge.Abs
import PtaProofs.Lemmas.Worklist
import PtaProofs.Lemmas.RuleBasics
import PtaProofs.Lemmas.RuleMono
namespace Pta
open Pta.Alg
/-! ### decomposition and duality -/


theorem decomposition_lemma (mt : Str → Str → Bool) (g : PGraph Str) (A B : List Filter) (dir : Bool) :
    verdictOf mt g (mkRule false true false dir false A B) = .pass ↔
    (verdictOf mt g (mkRule true false false dir false A B) = .pass ∧
     verdictOf mt g (mkRule false false true dir true A B) = .pass) := by
  rw [only_pass, should_pass, shouldnot_exc_pass]
  constructor
  · rintro ⟨hA, hB, A', B', e, o, h1, h2, h3, h4, h5, h6⟩
    exact ⟨⟨hA, hB, A', B', e, h1, h2, h3, h5⟩, hA, hB, A', B', o, h1, h2, h4, h6⟩
  · rintro ⟨⟨hA, hB, A', B', e, h1, h2, h3, h5⟩, _, _, A'', B'', o, h1', h2', h4, h6⟩
    obtain rfl : A' = A'' := Except.ok.inj (h1.symm.trans h1')
    obtain rfl : B' = B'' := Except.ok.inj (h2.symm.trans h2')
    exact ⟨hA, hB, A', B', e, o, h1, h2, h3, h4, h5, h6⟩

theorem decomposition_except_lemma (mt : Str → Str → Bool) (g : PGraph Str) (A B : List Filter) (dir : Bool) :
    verdictOf mt g (mkRule false true false dir true A B) = .pass ↔
    (verdictOf mt g (mkRule true false false dir true A B) = .pass ∧
     verdictOf mt g (mkRule false false true dir false A B) = .pass) := by
  rw [only_exc_pass, should_exc_pass, shouldnot_pass]
  constructor
  · rintro ⟨hA, hB, A', B', e, o, h1, h2, h3, h4, h5, h6⟩
    exact ⟨⟨hA, hB, A', B', o, h1, h2, h4, h5⟩, hA, hB, A', B', e, h1, h2, h3, h6⟩
  · rintro ⟨⟨hA, hB, A', B', o, h1, h2, h4, h5⟩, _, _, A'', B'', e, h1', h2', h3, h6⟩
    obtain rfl : A' = A'' := Except.ok.inj (h1.symm.trans h1')
    obtain rfl : B' = B'' := Except.ok.inj (h2.symm.trans h2')
    exact ⟨hA, hB, A', B', e, o, h1, h2, h3, h4, h5, h6⟩

theorem convertFilters_error (mt : Str → Str → Bool) (mods : List Str) (fs : List Filter) (k : ErrKind)
    (h : convertFilters mt mods fs = .error k) : k = .impossibleMatch := by
  simp only [convertFilters] at h
  split at h
  · exact (Except.error.inj h).symm
  · cases h

theorem detect_any_dual (neg : Bool) (ex : Option ExplDeps) (ot : Option OtherDeps) (objs objs' : List Mod) :
    (detect ⟨!neg, false, neg, false⟩ true ex ot objs).any = (detect ⟨!neg, false, neg, false⟩ false ex ot objs').any := by
  rw [Bool.eq_iff_iff, detect_any_true, detect_any_true, detect_any_false, detect_any_false]
  cases neg <;> simp [Behavior.expExplNotPresent, Behavior.expExplPresent,
    Behavior.expExplAndNoOther, Behavior.expExplNotButOthers, Behavior.expAtLeastOneOther,
    Behavior.expOtherNotPresent, realised_eq_nil, abstractWithout_eq_nil]

theorem runQueries_dual (g : PGraph Str) (neg : Bool) (A' B' : List Filter) :
    runQueries g ⟨!neg, false, neg, false⟩ false B' A' = runQueries g ⟨!neg, false, neg, false⟩ true A' B' := by
  cases neg <;> simp [runQueries, Behavior.explReq, Behavior.explForb, Behavior.otherReq, Behavior.otherForb]

theorem duality_lemma (mt : Str → Str → Bool) (g : PGraph Str) (A B : List Filter) (neg : Bool) :
    verdictOf mt g (mkRule (!neg) false neg true false A B) = verdictOf mt g (mkRule (!neg) false neg false false B A) := by
  rw [verdictOf_mkRule, verdictOf_mkRule]
  have hc : ((!(!neg || false || neg)) || A.isEmpty || B.isEmpty) = ((!(!neg || false || neg)) || B.isEmpty || A.isEmpty) := by
    cases neg <;> cases A.isEmpty <;> cases B.isEmpty <;> rfl
  rw [hc]
  split
  · rfl
  · split
    · rfl
    · unfold matchRule
      cases hA : convertFilters mt g.nodes A with
      | error k =>
        obtain rfl := convertFilters_error _ _ _ _ hA
        cases hB : convertFilters mt g.nodes B with
        | error k' => obtain rfl := convertFilters_error _ _ _ _ hB; rfl
        | ok B' => rfl
      | ok A' =>
        cases hB : convertFilters mt g.nodes B with
        | error k' => rfl
        | ok B' =>
          simp only [runQueries_dual]
          cases hQ : runQueries g ⟨!neg, false, neg, false⟩ true A' B' with
          | error k => rfl
          | ok p =>
            obtain ⟨ex, ot⟩ := p
            simp only []
            rw [detect_any_dual neg ex ot (B'.map Filter.toMod) (A'.map Filter.toMod)]
            split <;> rfl

/-! ### negation -/


theorem dedup_ne_nil {α : Type} [DecidableEq α] (l : List α) (h : l ≠ []) : dedup l ≠ [] := by
  cases l with
  | nil => exact absurd rfl h
  | cons x xs =>
    simp only [dedup]
    split
    · rename_i hx; exact List.ne_nil_of_mem hx
    · simp

theorem mapM_ok_length {α β ε : Type} (f : α → Except ε β) :
    ∀ (l : List α) (r : List β), l.mapM f = .ok r → r.length = l.length := by
  intro l
  induction l with
  | nil =>
    intro r hr
    simp only [List.mapM_nil, pure, Except.pure, Except.ok.injEq] at hr
    subst hr; rfl
  | cons x xs ih =>
    intro r hr
    simp only [List.mapM_cons, bind, Except.bind, pure, Except.pure] at hr
    cases hx : f x with
    | error k => simp [hx] at hr
    | ok y =>
      cases hxs : xs.mapM f with
      | error k => simp [hx, hxs] at hr
      | ok ys =>
        simp only [hx, hxs, Except.ok.injEq] at hr
        subst hr
        simp [ih ys hxs]

theorem getDependencies_length (g : PGraph Str) (I E : List Filter) (e : ExplDeps)
    (h : getDependencies g I E = .ok e) : e.length = (dedup I).length * (dedup E).length := by
  unfold getDependencies at h
  rw [mapM_ok_length _ _ _ h]
  generalize dedup I = I'
  induction I' with
  | nil => simp
  | cons x xs ih => simp [List.flatMap_cons, ih, Nat.add_mul, Nat.add_comm]

theorem getOtherFrom_length (g : PGraph Str) (I E : List Filter) (o : OtherDeps)
    (h : getOtherFrom g I E = .ok o) : o.length = (dedup I).length := by
  unfold getOtherFrom at h
  exact mapM_ok_length _ _ _ h

theorem getOtherTo_length (g : PGraph Str) (I E : List Filter) (o : OtherDeps)
    (h : getOtherTo g I E = .ok o) : o.length = (dedup E).length := by
  unfold getOtherTo at h
  exact mapM_ok_length _ _ _ h

theorem qExpl_length (g : PGraph Str) (d : Bool) (A' B' : List Filter) (e : ExplDeps)
    (h : qExpl g d A' B' = .ok e) : e.length = (dedup A').length * (dedup B').length := by
  unfold qExpl at h
  cases d
  · simp only [Bool.false_eq_true, if_false] at h
    rw [getDependencies_length g _ _ _ h, Nat.mul_comm]
  · simp only [if_true] at h
    exact getDependencies_length g _ _ _ h

theorem qOther_length (g : PGraph Str) (d : Bool) (A' B' : List Filter) (o : OtherDeps)
    (h : qOther g d A' B' = .ok o) : o.length = (dedup A').length := by
  unfold qOther at h
  cases d
  · simp only [Bool.false_eq_true, if_false] at h
    exact getOtherTo_length g _ _ _ h
  · simp only [if_true] at h
    exact getOtherFrom_length g _ _ _ h

theorem convertFilters_single (mt : Str → Str → Bool) (mods : List Str) (s : Filter) (h : s.isRegex = false) :
    convertFilters mt mods [s] = .ok [s] := by
  have hf : List.filter (fun (_ : Str) => false) mods = [] := by simp
  simp [convertFilters, h, hf, dedup]

theorem convertFilters_ne_nil (mt : Str → Str → Bool) (mods : List Str) (fs fs' : List Filter)
    (h : convertFilters mt mods fs = .ok fs') (hne : fs ≠ []) : fs' ≠ [] := by
  simp only [convertFilters] at h
  split at h
  · cases h
  · rename_i hno
    simp only [Except.ok.injEq] at h
    subst h
    cases fs with
    | nil => exact absurd rfl hne
    | cons f rest =>
      cases hf : f.isRegex with
      | false => simp [hf]
      | true =>
        simp only [List.filter_cons, hf, if_true, List.any_cons, Bool.or_eq_true, not_or, Bool.not_eq_true'] at hno
        obtain ⟨m, hm, hmt⟩ := List.any_eq_true.mp (by simpa using hno.1 : mods.any (mt f.id) = true)
        intro hnil
        have h1 := (List.append_eq_nil_iff.mp hnil).1
        apply dedup_ne_nil _ _ h1
        apply List.ne_nil_of_mem (a := Filter.name m)
        simp only [List.mem_map, List.mem_filter]
        exact ⟨m, ⟨hm, by simp only [List.filter_cons, hf, if_true, List.any_cons, hmt, Bool.true_or]⟩, rfl⟩

theorem length_one_all_iff_exists {β : Type} {l : List β} (h : l.length = 1) (p : β → Prop) :
    (∀ x ∈ l, p x) ↔ ∃ x ∈ l, p x := by
  match l, h with
  | [a], _ => simp

theorem ne_nil_all_imp_exists {β : Type} {l : List β} (h : l ≠ []) (p : β → Prop) :
    (∀ x ∈ l, p x) → ∃ x ∈ l, p x := by
  obtain ⟨a, ha⟩ := List.exists_mem_of_ne_nil _ h
  exact fun hp => ⟨a, ha, hp a ha⟩

/-- the negation property restricted to non-regex filters (single module / single parent filter) -/
theorem negation_lemma_of_not_regex (mt : Str → Str → Bool) (g : PGraph Str) (s o : Filter) (dir exc : Bool)
    (hs : s.isRegex = false) (ho : o.isRegex = false) :
    verdictOf mt g (mkRule true false false dir exc [s] [o]) = .pass ↔
    verdictOf mt g (mkRule false false true dir exc [s] [o]) = .fail := by
  have cs := convertFilters_single mt g.nodes s hs
  have co := convertFilters_single mt g.nodes o ho
  cases exc
  · rw [should_pass, shouldnot_fail]
    constructor
    · rintro ⟨hA, hB, A', B', e, h1, h2, h3, h4⟩
      obtain rfl := Except.ok.inj (cs.symm.trans h1)
      obtain rfl := Except.ok.inj (co.symm.trans h2)
      have hl : e.length = 1 := by rw [qExpl_length g dir _ _ _ h3]; simp [dedup]
      exact ⟨hA, hB, _, _, e, h1, h2, h3, (length_one_all_iff_exists hl _).mp h4⟩
    · rintro ⟨hA, hB, A', B', e, h1, h2, h3, h4⟩
      obtain rfl := Except.ok.inj (cs.symm.trans h1)
      obtain rfl := Except.ok.inj (co.symm.trans h2)
      have hl : e.length = 1 := by rw [qExpl_length g dir _ _ _ h3]; simp [dedup]
      exact ⟨hA, hB, _, _, e, h1, h2, h3, (length_one_all_iff_exists hl _).mpr h4⟩
  · rw [should_exc_pass, shouldnot_exc_fail]
    constructor
    · rintro ⟨hA, hB, A', B', e, h1, h2, h3, h4⟩
      obtain rfl := Except.ok.inj (cs.symm.trans h1)
      obtain rfl := Except.ok.inj (co.symm.trans h2)
      have hl : e.length = 1 := by rw [qOther_length g dir _ _ _ h3]; simp [dedup]
      rcases h4 with h4 | h4
      · cases h4
      · exact ⟨hA, hB, _, _, e, h1, h2, h3, (length_one_all_iff_exists hl _).mp h4⟩
    · rintro ⟨hA, hB, A', B', e, h1, h2, h3, h4⟩
      obtain rfl := Except.ok.inj (cs.symm.trans h1)
      obtain rfl := Except.ok.inj (co.symm.trans h2)
      have hl : e.length = 1 := by rw [qOther_length g dir _ _ _ h3]; simp [dedup]
      exact ⟨hA, hB, _, _, e, h1, h2, h3, .inr ((length_one_all_iff_exists hl _).mpr h4)⟩

/-- the direction of the negation property that holds for every filter kind -/
theorem negation_lemma_mp (mt : Str → Str → Bool) (g : PGraph Str) (s o : Filter) (dir exc : Bool) :
    verdictOf mt g (mkRule true false false dir exc [s] [o]) = .pass →
    verdictOf mt g (mkRule false false true dir exc [s] [o]) = .fail := by
  cases exc
  · rw [should_pass, shouldnot_fail]
    rintro ⟨hA, hB, A', B', e, h1, h2, h3, h4⟩
    have hA' := dedup_ne_nil _ (convertFilters_ne_nil _ _ _ _ h1 hA)
    have hB' := dedup_ne_nil _ (convertFilters_ne_nil _ _ _ _ h2 hB)
    have hl := qExpl_length g dir _ _ _ h3
    have he : e ≠ [] := by
      intro h; subst h
      have h1 := List.length_pos_iff.mpr hA'
      have h2 := List.length_pos_iff.mpr hB'
      have := Nat.mul_pos h1 h2
      simp at hl; omega
    exact ⟨hA, hB, A', B', e, h1, h2, h3, ne_nil_all_imp_exists he _ h4⟩
  · rw [should_exc_pass, shouldnot_exc_fail]
    rintro ⟨hA, hB, A', B', e, h1, h2, h3, h4⟩
    have hA' := dedup_ne_nil _ (convertFilters_ne_nil _ _ _ _ h1 hA)
    have hB' := convertFilters_ne_nil _ _ _ _ h2 hB
    have hl := qOther_length g dir _ _ _ h3
    have he : e ≠ [] := by
      intro h; subst h
      have h1 := List.length_pos_iff.mpr hA'
      simp at hl; omega
    rcases h4 with h4 | h4
    · exact absurd h4 hB'
    · exact ⟨hA, hB, A', B', e, h1, h2, h3, ne_nil_all_imp_exists he _ h4⟩


/-- counterexample to `negation_lemma`: the regex subject expands to `m1`, `m2`; only `m1` imports `q`, so
    `should` fails (not pass) while `should not` fails. -/
theorem negation_lemma_counterexample :
    let g : PGraph Str := ⟨["m1".toList, "m2".toList, "q".toList], [⟨"m1".toList, "q".toList, false⟩]⟩
    let mt : Str → Str → Bool := fun _ m => m == "m1".toList || m == "m2".toList
    ¬ (verdictOf mt g (mkRule true false false true false [.regex "m.".toList] [.name "q".toList]) = .pass ↔
       verdictOf mt g (mkRule false false true true false [.regex "m.".toList] [.name "q".toList]) = .fail) := by
  decide

/-- the same for the `except` form -/
theorem negation_lemma_counterexample_except :
    let g : PGraph Str := ⟨["m1".toList, "m2".toList, "q".toList], [⟨"m1".toList, "q".toList, false⟩]⟩
    let mt : Str → Str → Bool := fun _ m => m == "m1".toList || m == "m2".toList
    ¬ (verdictOf mt g (mkRule true false false true true [.regex "m.".toList] [.name "m1".toList]) = .pass ↔
       verdictOf mt g (mkRule false false true true true [.regex "m.".toList] [.name "m1".toList]) = .fail) := by
  decide

/-! ### monotonicity -/

theorem monotone_should_lemma (mt : Str → Str → Bool) (g : PGraph Str) (u v : Str) (A B : List Filter) (dir exc : Bool)
    (_hnew : g.hasEdge u v = false) :
    verdictOf mt g (mkRule true false false dir exc A B) = .pass →
    verdictOf mt (addImportEdge g u v) (mkRule true false false dir exc A B) = .pass := by
  cases exc
  · rw [should_pass, should_pass]
    rintro ⟨hA, hB, A', B', e, h1, h2, h3, h4⟩
    obtain ⟨e', he', hR⟩ := qExpl_add g u v dir A' B' e h3
    exact ⟨hA, hB, A', B', e', h1, h2, he', krel_allNE hR h4⟩
  · rw [should_exc_pass, should_exc_pass]
    rintro ⟨hA, hB, A', B', o, h1, h2, h3, h4⟩
    obtain ⟨o', ho', hR⟩ := qOther_add g u v dir A' B' o h3
    exact ⟨hA, hB, A', B', o', h1, h2, ho', h4.imp id (krel_allNE hR)⟩

theorem monotone_should_not_lemma (mt : Str → Str → Bool) (g : PGraph Str) (u v : Str) (A B : List Filter) (dir exc : Bool)
    (_hnew : g.hasEdge u v = false) :
    verdictOf mt g (mkRule false false true dir exc A B) = .fail →
    verdictOf mt (addImportEdge g u v) (mkRule false false true dir exc A B) = .fail := by
  cases exc
  · rw [shouldnot_fail, shouldnot_fail]
    rintro ⟨hA, hB, A', B', e, h1, h2, h3, h4⟩
    obtain ⟨e', he', hR⟩ := qExpl_add g u v dir A' B' e h3
    exact ⟨hA, hB, A', B', e', h1, h2, he', krel_existsNE hR h4⟩
  · rw [shouldnot_exc_fail, shouldnot_exc_fail]
    rintro ⟨hA, hB, A', B', o, h1, h2, h3, h4⟩
    obtain ⟨o', ho', hR⟩ := qOther_add g u v dir A' B' o h3
    exact ⟨hA, hB, A', B', o', h1, h2, ho', krel_existsNE hR h4⟩

end Pta
