/-
  PtaProofs.Lemmas.BuildScan — `buildGraph_scanlike`: the graph constructor, fed a module list that covers a
  well-formed architecture up to ancestors and import records whose importers are modules (importees arbitrary
  strings), builds a graph of that architecture (property C04, parts 2-4; no level limit).
-/
import Bridge.Abs
import PtaProofs.Lemmas.Render
import PtaProofs.Lemmas.BuildGen
import PtaProofs.Lemmas.BuildNames
import PtaProofs.Lemmas.Build
import PtaProofs.Lemmas.BuildCond
namespace Pta
namespace BuildScan
open PtaSpec BuildGen BuildNames BuildMain BuildCond

/-- inputs of the graph constructor as a scan produces them, relative to an architecture `a` -/
structure ScanLike (a : Arch) (mods : List Str) (imports : List ImportRec) : Prop where
  /-- every listed module is a node -/
  mods_in : ∀ m ∈ mods, ∃ n ∈ a.nodes, m = render n
  /-- every node is a listed module or an ancestor of one -/
  cover : ∀ n ∈ a.nodes, ∃ m ∈ a.nodes, render m ∈ mods ∧ n <+: m
  /-- records are `AbsoluteImport`s of a node; if the importee is another node, the pair is an import of `a` -/
  imp_shape : ∀ i ∈ imports, i.importeeParents = parentModules i.importee ∧
    ∃ f ∈ a.nodes, i.importer = render f ∧ ∀ n ∈ a.nodes, i.importee = render n → f ≠ n → (f, n) ∈ a.imports
  /-- every import of `a` has a record -/
  imp_cover : ∀ e ∈ a.imports, absImport (render e.1) (render e.2) ∈ imports

section
variable (a : Arch) (hwf : a.wf = true)
include hwf

omit hwf in
theorem take_ne {n : Name} (hn : nameWF n = true) (k : Nat) (h0 : 0 < k) (hk : k < n.length) :
    render (n.take k) ≠ render (n.take (k + 1)) := by
  intro h
  have := congrArg List.length
    (render_injective _ _ (BuildNames.nameWF_take n hn k h0) (BuildNames.nameWF_take n hn (k + 1) (by omega)) h)
  simp only [List.length_take] at this
  omega

/-- processing one module: all its ancestors become nodes and all links of its chain hierarchy edges -/
theorem step_module' (g : PGraph Str) (n : Name) (hn : n ∈ a.nodes) (hg : Inv a none g) :
    Inv a none (addHierarchy none (createNode none g (render n)) (parentModules (render n)) (render n)) ∧
    g.nodes ⊆ (addHierarchy none (createNode none g (render n)) (parentModules (render n)) (render n)).nodes ∧
    g.edges ⊆ (addHierarchy none (createNode none g (render n)) (parentModules (render n)) (render n)).edges ∧
    (∀ k, 0 < k → k ≤ n.length → render (n.take k) ∈
      (addHierarchy none (createNode none g (render n)) (parentModules (render n)) (render n)).nodes) ∧
    (∀ k, 0 < k → k < n.length → ⟨render (n.take k), render (n.take (k + 1)), true⟩ ∈
      (addHierarchy none (createNode none g (render n)) (parentModules (render n)) (render n)).edges) := by
  have wn := wf_nodes a hwf n hn
  obtain ⟨l1, l2⟩ := chain_legal a none hwf n hn
  have hq1 : ∀ s ∈ (createNode none g (render n)).nodes, Q a none s := by
    intro s hs
    rcases (createNode_nodes none g _ s).1 hs with h | rfl
    · exact hg.1 s h
    · exact ⟨n, hn, rfl⟩
  have hp1 : ∀ x ∈ (createNode none g (render n)).edges, P a none x.src x.dst x.inh := by
    rw [createNode_edges]; exact hg.2
  have hself : render n ∈ (createNode none g (render n)).nodes :=
    (createNode_nodes none g _ _).2 (Or.inr rfl)
  obtain ⟨r1, r2, r3, r4, r5⟩ := addHierarchy_spec none (P a none) (P_excl a none hwf) (Q a none)
    (createNode none g (render n)) (parentModules (render n)) (render n) hq1 hp1 l1 l2
  refine ⟨⟨r1, r2⟩, ?_, ?_, ?_, ?_⟩
  · intro s hs
    exact r3 ((createNode_nodes none g _ s).2 (Or.inl hs))
  · intro x hx
    apply r4
    rw [createNode_edges]; exact hx
  · intro k h0 hk
    by_cases hkn : k = n.length
    · rw [hkn, List.take_length]; exact r3 hself
    · rw [addHierarchy_nodes]
      right
      refine ⟨render (n.take k), ?_, rfl⟩
      rw [parentModules_render n wn]
      exact List.mem_map.2 ⟨_, (mem_properPrefixes n _).2 ⟨k, h0, by omega, rfl⟩, rfl⟩
  · intro k h0 hk
    have hpc : (render (n.take k), render (n.take (k + 1))) ∈
        consecutive (parentModules (render n) ++ [render n]) := by
      rw [parentModules_render n wn]
      have : List.map render (properPrefixes n) ++ [render n] = (properPrefixes n ++ [n]).map render := by simp
      rw [this, consecutive_map]
      exact List.mem_map.2 ⟨(n.take k, n.take (k + 1)),
        (mem_consecutive_prefixes n (nameWF_ne_nil' n wn) _).2 ⟨k, h0, hk, rfl⟩, rfl⟩
    exact r5 hself _ hpc (take_ne wn k h0 hk)

variable (mods : List Str) (imports : List ImportRec) (hs : ScanLike a mods imports)
include hs

/-- processing one import record of a scan -/
theorem step_import' (g : PGraph Str) (i : ImportRec) (hi : i ∈ imports) (hg : Inv a none g) :
    Inv a none (addImport₀ none g i) ∧ g.nodes ⊆ (addImport₀ none g i).nodes ∧
    g.edges ⊆ (addImport₀ none g i).edges ∧
    (i.importer ≠ i.importee → i.importer ∈ g.nodes → i.importee ∈ g.nodes →
      ⟨i.importer, i.importee, false⟩ ∈ (addImport₀ none g i).edges) := by
  obtain ⟨hpar, f, hf, hif, himp⟩ := hs.imp_shape i hi
  have hex := P_excl a none hwf
  unfold addImport₀
  simp only []
  rw [hpar]
  -- first call: the import edge (a no-op unless both ends are nodes)
  have hleg0 : i.importer ≠ i.importee → i.importer ∈ g.nodes → i.importee ∈ g.nodes →
      P a none i.importer i.importee false := by
    intro hne _ h2
    obtain ⟨n, hn, hnr⟩ := hg.1 _ h2
    have hfn : f ≠ n := by
      rintro rfl
      exact hne (hif.trans hnr.symm)
    exact ⟨fun h => (by cases h), fun _ => ⟨(f, n), himp n hn hnr hfn, hfn, hif, hnr⟩⟩
  have hc0 := createEdge_edges_cond (P a none) hex g i.importer i.importee false hg.2 hleg0
  have hq0 : ∀ s ∈ (createEdge none g i.importer i.importee false).nodes, Q a none s := by
    rw [createEdge_nodes]; exact hg.1
  have hp0 : ∀ x ∈ (createEdge none g i.importer i.importee false).edges, P a none x.src x.dst x.inh := by
    intro x hx
    rcases (hc0 x).1 hx with h | ⟨rfl, hne, h1, h2⟩
    · exact hg.2 x h
    · exact hleg0 hne h1 h2
  -- second: hierarchy of the importer (a node)
  obtain ⟨l1, l2⟩ := chain_legal a none hwf f hf
  rw [← hif] at l1 l2
  obtain ⟨r1, r2, r3, r4, -⟩ := addHierarchy_spec none (P a none) hex (Q a none)
    (createEdge none g i.importer i.importee false) (parentModules i.importer) i.importer hq0 hp0 l1 l2
  -- third: the links of the importee's chain whose two ends are nodes
  have hleg2 : ∀ pc ∈ consecutive (parentModules i.importee ++ [i.importee]), pc.1 ≠ pc.2 →
      pc.1 ∈ (addHierarchy none (createEdge none g i.importer i.importee false)
        (parentModules i.importer) i.importer).nodes →
      pc.2 ∈ (addHierarchy none (createEdge none g i.importer i.importee false)
        (parentModules i.importer) i.importer).nodes → P a none pc.1 pc.2 true := by
    intro pc hpc _ h1 h2
    obtain ⟨m, hm, hmr⟩ := r1 _ h1
    obtain ⟨n, hn, hnr⟩ := r1 _ h2
    obtain ⟨hl, hmn⟩ := chain_pair_names i.importee pc hpc m n (wf_nodes a hwf m hm) (wf_nodes a hwf n hn) hmr hnr
    refine ⟨fun _ => ⟨n, hn, hl, ?_, hnr⟩, fun h => by cases h⟩
    rw [hmr, hmn]; rfl
  obtain ⟨s1, s2⟩ := edgeFold_spec_cond (P a none) hex true
    (consecutive (parentModules i.importee ++ [i.importee])) _ r2 hleg2
  refine ⟨⟨?_, s1⟩, ?_, ?_, ?_⟩
  · rw [edgeFold_nodes]; exact r1
  · intro s hs'
    rw [edgeFold_nodes]
    apply r3
    rw [createEdge_nodes]; exact hs'
  · intro x hx
    exact s2 (r4 ((hc0 x).2 (Or.inl hx)))
  · intro hne h1 h2
    exact s2 (r4 ((hc0 _).2 (Or.inr ⟨rfl, hne, h1, h2⟩)))

/-- invariant, all nodes, all hierarchy edges -/
def Full' (g : PGraph Str) : Prop :=
  Inv a none g ∧ (∀ n ∈ a.nodes, render n ∈ g.nodes) ∧
  (∀ c ∈ a.nodes, 2 ≤ c.length → ⟨render c.dropLast, render c, true⟩ ∈ g.edges)

theorem modules_full' : Full' a (addAllModules none PGraph.empty mods) := by
  unfold addAllModules
  have h0 : Inv a none (PGraph.empty : PGraph Str) := by
    constructor <;> intro _ h <;> cases h
  have hinv : ∀ (g : PGraph Str) (x : Str), x ∈ mods → Inv a none g →
      Inv a none (addHierarchy none (createNode none g x) (parentModules x) x) := by
    intro g x hx hg
    obtain ⟨n, hn, rfl⟩ := hs.mods_in x hx
    exact (step_module' a hwf g n hn hg).1
  refine ⟨foldl_inv _ _ _ hinv _ h0, ?_, ?_⟩
  · intro c hc
    obtain ⟨m, hm, hmm, hpre⟩ := hs.cover c hc
    have hcne : c ≠ [] := nameWF_ne_nil' c (wf_nodes a hwf c hc)
    have hck : m.take c.length = c := (List.prefix_iff_eq_take.1 hpre).symm
    refine foldl_establish _ (Inv a none) (fun g => render c ∈ g.nodes) _ (render m) hmm hinv ?_ ?_ _ h0
    · intro g x hx hg hh
      obtain ⟨n, hn, rfl⟩ := hs.mods_in x hx
      exact (step_module' a hwf g n hn hg).2.1 hh
    · intro g hg
      have := (step_module' a hwf g m hm hg).2.2.2.1 c.length (List.length_pos_iff.2 hcne) hpre.length_le
      rwa [hck] at this
  · intro c hc hl
    obtain ⟨m, hm, hmm, hpre⟩ := hs.cover c hc
    have hck : m.take c.length = c := (List.prefix_iff_eq_take.1 hpre).symm
    have hck' : m.take (c.length - 1) = c.dropLast := by
      rw [List.dropLast_eq_take, ← hck, List.take_take, List.length_take]
      congr 1
      have := hpre.length_le
      omega
    refine foldl_establish _ (Inv a none)
      (fun g => (⟨render c.dropLast, render c, true⟩ : Edge Str) ∈ g.edges) _ (render m) hmm hinv ?_ ?_ _ h0
    · intro g x hx hg hh
      obtain ⟨n, hn, rfl⟩ := hs.mods_in x hx
      exact (step_module' a hwf g n hn hg).2.2.1 hh
    · intro g hg
      have := (step_module' a hwf g m hm hg).2.2.2.2 (c.length - 1) (by omega)
        (by have := hpre.length_le; omega)
      rw [hck', show c.length - 1 + 1 = c.length by omega, hck] at this
      exact this

theorem build_full' : Full' a (buildGraph mods imports none) ∧
    (∀ e ∈ a.imports, ⟨render e.1, render e.2, false⟩ ∈ (buildGraph mods imports none).edges) := by
  unfold buildGraph
  rw [addImport_none_fun]
  have h0 := modules_full' a hwf mods imports hs
  have hinv : ∀ (g : PGraph Str) (x : ImportRec), x ∈ imports → Full' a g → Full' a (addImport₀ none g x) := by
    intro g x hx hg
    obtain ⟨s1, s2, s3, -⟩ := step_import' a hwf mods imports hs g x hx hg.1
    exact ⟨s1, fun n hn => s2 (hg.2.1 n hn), fun c hc hl => s3 (hg.2.2 c hc hl)⟩
  refine ⟨foldl_inv _ _ _ hinv _ h0, ?_⟩
  intro e he
  obtain ⟨i1, i2, hne, -⟩ := wf_import a hwf e he
  refine foldl_establish _ (Full' a)
    (fun g => (⟨render e.1, render e.2, false⟩ : Edge Str) ∈ g.edges) _
    (absImport (render e.1) (render e.2)) (hs.imp_cover e he) hinv ?_ ?_ _ h0
  · intro g x hx hg hh
    exact (step_import' a hwf mods imports hs g x hx hg.1).2.2.1 hh
  · intro g hg
    refine (step_import' a hwf mods imports hs g _ (hs.imp_cover e he) hg.1).2.2.2 ?_ (hg.2.1 _ i1) (hg.2.1 _ i2)
    intro h
    exact hne (render_injective _ _ (wf_nodes a hwf _ i1) (wf_nodes a hwf _ i2) h)

/-- the graph built from scan-like inputs is a graph of the architecture -/
theorem buildGraph_scanlike : GraphOf a (buildGraph mods imports none) := by
  obtain ⟨⟨hinv, hn, hh⟩, hi⟩ := build_full' a hwf mods imports hs
  refine ⟨?_, ?_, ?_, ?_⟩
  · intro s
    rw [hasNode_iff]
    constructor
    · exact hinv.1 s
    · rintro ⟨n, hn', rfl⟩; exact hn n hn'
  · intro s x
    rw [mem_hierChildren]
    constructor
    · intro h; exact (hinv.2 _ h).1 rfl
    · rintro ⟨c, hc, hl, rfl, rfl⟩; exact hh c hc hl
  · intro s x
    rw [mem_importSuccs]
    constructor
    · intro h
      obtain ⟨e, he, -, h1, h2⟩ := (hinv.2 _ h).2 rfl
      exact ⟨e, he, h1, h2⟩
    · rintro ⟨e, he, rfl, rfl⟩; exact hi e he
  · intro s x
    rw [mem_importPreds]
    constructor
    · intro h
      obtain ⟨e, he, -, h1, h2⟩ := (hinv.2 _ h).2 rfl
      exact ⟨e, he, h1, h2⟩
    · rintro ⟨e, he, rfl, rfl⟩; exact hi e he

end

end BuildScan
end Pta
