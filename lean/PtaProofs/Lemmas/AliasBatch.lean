/-
  PtaProofs.Lemmas.AliasBatch — the `anything` alias law for the subject batches the fluent API can build, after the
  repair of F-C12a (`dedupSubjects`: only a subject that is not a `sub modules of` filter covers another subject).

  * a batch of `sub modules of` filters is left unchanged by `_convert_aliases`, so the alias IS the spelled-out
    `except` rule (whole outcome, every graph);
  * hence the verdict-class law on `HierClosed` graphs for: names only | `sub modules of` only | one regex.
-/
import PtaProofs.Lemmas.AnythingDedup
namespace Pta

/-- when the de-duplication removes nothing: no subject that is not a `sub modules of` filter lies strictly above
    another subject -/
theorem dedupSubjects_eq_self_iff (S : List Filter) :
    dedupSubjects S = S ↔ ∀ o ∈ S, ∀ f ∈ S, o.isParent = false → isStrictSub o.id f.id = false := by
  unfold dedupSubjects
  rw [List.filter_eq_self]
  constructor
  · intro h o ho f hf hp
    have := h f hf
    rw [Bool.not_eq_true', List.any_eq_false] at this
    have h2 := this o ho
    rw [hp] at h2
    simpa using h2
  · intro h f hf
    rw [Bool.not_eq_true', List.any_eq_false]
    intro o ho
    cases hp : o.isParent
    · rw [h o ho f hf hp]; simp
    · simp

/-- a batch of `sub modules of` filters only (`are_sub_modules_of([...])`) is left unchanged -/
theorem dedupSubjects_parents (S : List Filter) (hS : S.all Filter.isParent = true) : dedupSubjects S = S := by
  rw [dedupSubjects_eq_self_iff]
  intro o ho f _ hp
  rw [List.all_eq_true] at hS
  rw [hS o ho] at hp
  cases hp

/-- a `sub modules of` filter in front of a batch never removes anything: e.g. `[sub modules of p, p.a]` -/
theorem dedupSubjects_parent_cons (p : Str) (S : List Filter) (hS : dedupSubjects S = S)
    (hp : ∀ o ∈ S, o.isParent = false → isStrictSub o.id p = false) :
    dedupSubjects (.parent p :: S) = .parent p :: S := by
  rw [dedupSubjects_eq_self_iff] at hS ⊢
  intro o ho f hf hpar
  rcases List.mem_cons.1 ho with rfl | ho
  · cases hpar
  · rcases List.mem_cons.1 hf with rfl | hf
    · exact hp o ho hpar
    · exact hS o ho f hf hpar

/-- the alias on a batch of `sub modules of` filters is the spelled-out `except` rule: same outcome (verdict, report,
    errors) and same rule object afterwards, on every graph -/
theorem alias_anything_parents_lemma (mt : Str → Str → Bool) (g : PGraph Str) (S : List Filter) (dir : Bool)
    (hS : S.all Filter.isParent = true) :
    assertApplies mt (anythingRule dir S) g = assertApplies mt (mkRule false false true dir true S S) g :=
  anything_alias_of_dedup_eq mt g S dir (dedupSubjects_parents S hS)

/-- the verdict-class alias law for names-only batches and for every batch the de-duplication leaves unchanged -/
theorem alias_anything_verdict_names_or_fixed (mt : Str → Str → Bool) (g : PGraph Str) (hc : HierClosed g)
    (S : List Filter) (dir : Bool) (hS : namesOnly S = true ∨ dedupSubjects S = S) :
    verdictOf mt g (anythingRule dir S) = verdictOf mt g (mkRule false false true dir true S S) := by
  rcases hS with hS | hS
  · exact alias_anything_verdict_lemma mt g hc S dir hS
  · unfold verdictOf
    rw [anything_alias_of_dedup_eq mt g S dir hS]

/-- the batches one naming call of the fluent API builds: `are_named([...])`, `are_sub_modules_of([...])`,
    `have_name_matching(...)` -/
def apiBatch (S : List Filter) : Prop :=
  namesOnly S = true ∨ S.all Filter.isParent = true ∨ ∃ p, S = [.regex p]

theorem apiBatch_names_or_fixed (S : List Filter) (h : apiBatch S) : namesOnly S = true ∨ dedupSubjects S = S := by
  rcases h with h | h | ⟨p, rfl⟩
  · exact .inl h
  · exact .inr (dedupSubjects_parents S h)
  · exact .inr (dedupSubjects_single _)

theorem alias_anything_verdict_api_lemma (mt : Str → Str → Bool) (g : PGraph Str) (hc : HierClosed g)
    (S : List Filter) (dir : Bool)
    (hS : namesOnly S = true ∨ S.all Filter.isParent = true ∨ ∃ p, S = [.regex p]) :
    verdictOf mt g (anythingRule dir S) = verdictOf mt g (mkRule false false true dir true S S) :=
  alias_anything_verdict_names_or_fixed mt g hc S dir (apiBatch_names_or_fixed S hS)

end Pta
