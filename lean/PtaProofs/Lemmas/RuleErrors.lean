/-
  PtaProofs.Lemmas.RuleErrors — the ERROR side of the rule algebra (audit finding F13): when does a finished rule
  `mkRule …` raise, and which error. The answer does not depend on the verb, on `except` or on the direction:
  `improperlyConfigured` (no verb / no subjects / no objects), `ruleInconsistency`, `impossibleMatch` (a regex filter
  without a match) or `lookupError` (a converted subject or object that is not a module) — every query family raises
  `lookupError` on exactly the same inputs. Hence the three-valued forms of the C12 laws:
  `should only = should ⊓ should not … except` and `should not = ¬ should` as equations between verdict classes
  (`VClass.both`, `VClass.neg`).
-/
import Bridge.Abs
import PtaProofs.Lemmas.RuleAlgebra
import PtaProofs.Lemmas.QueryErr
import PtaProofs.Lemmas.AnythingDedup
import PtaProofs.Lemmas.SemQueries
namespace Pta
open Pta.Alg

/-- conjunction of two verdict classes: an error of either side (the first one's if both raise), else `fail` if either
    fails, else `pass` -/
def VClass.both : VClass → VClass → VClass
  | .err k, _ => .err k
  | _, .err k => .err k
  | .pass, .pass => .pass
  | _, _ => .fail

/-- negation of a verdict class: `pass` and `fail` swapped, errors kept -/
def VClass.neg : VClass → VClass
  | .pass => .fail
  | .fail => .pass
  | .err k => .err k

namespace Err

/-! ### the queries raise exactly when a name is missing -/

theorem getDependencies_ok_of_nodes (g : PGraph Str) (A B : List Filter)
    (hA : ∀ f ∈ A, g.hasNode f.id = true) (hB : ∀ f ∈ B, g.hasNode f.id = true) :
    ∃ e, getDependencies g A B = .ok e := by
  unfold getDependencies
  obtain ⟨r, hr, _⟩ := mapM_ok_of_forall (fun fo : Filter × Filter => do
      let d ← depBetween g fo.1 fo.2
      pure ((fo.1.toMod, fo.2.toMod), d))
    ((dedup A).flatMap fun f => (dedup B).map fun o => (f, o)) (by
      rintro ⟨f, o⟩ hfo
      simp only [List.mem_flatMap, List.mem_map, mem_dedup, Prod.mk.injEq] at hfo
      obtain ⟨f', hf, o', ho, rfl, rfl⟩ := hfo
      obtain ⟨l, hl, _⟩ := depBetween_ok g f' o' (hA _ hf) (hB _ ho)
      exact ⟨((f'.toMod, o'.toMod), l), by simp [hl, bind, Except.bind, pure, Except.pure]⟩)
  exact ⟨r, hr⟩

theorem runQueries_ok_of_nodes (g : PGraph Str) (b : Behavior) (d : Bool) (ss os : List Filter)
    (hn : ∀ f ∈ ss ++ os, g.hasNode f.id = true) : ∃ r, runQueries g b d ss os = .ok r := by
  have hs : ∀ f ∈ ss, g.hasNode f.id = true := fun f hf => hn f (List.mem_append_left _ hf)
  have ho : ∀ f ∈ os, g.hasNode f.id = true := fun f hf => hn f (List.mem_append_right _ hf)
  unfold runQueries
  cases d
  · obtain ⟨e, he⟩ := getDependencies_ok_of_nodes g os ss ho hs
    obtain ⟨o, ho'⟩ := getOtherTo_ok_of_nodes g os ss ho hs
    simp only [Bool.false_eq_true, if_false, he, ho']
    cases (b.explReq || b.explForb) <;> cases (b.otherReq || b.otherForb) <;>
      simp [bind, Except.bind, pure, Except.pure, Except.map]
  · obtain ⟨e, he⟩ := getDependencies_ok_of_nodes g ss os hs ho
    obtain ⟨o, ho'⟩ := getOtherFrom_ok_of_nodes g ss os hs ho
    simp only [if_true, he, ho']
    cases (b.explReq || b.explForb) <;> cases (b.otherReq || b.otherForb) <;>
      simp [bind, Except.bind, pure, Except.pure, Except.map]

/-- `runQueries` raises exactly when a (converted) subject or object is not a module, and then `lookupError` -/
theorem runQueries_err_iff (g : PGraph Str) (b : Behavior) (d : Bool) (ss os : List Filter)
    (hverb : b.should = true ∨ b.shouldOnly = true ∨ b.shouldNot = true) (hs : ss ≠ []) (ho : os ≠ []) (k : ErrKind) :
    runQueries g b d ss os = .error k ↔ k = .lookupError ∧ ∃ f ∈ ss ++ os, g.hasNode f.id = false := by
  constructor
  · intro h
    refine ⟨Pta.Hist.runQueries_err _ _ _ _ _ _ h, ?_⟩
    apply Classical.byContradiction
    intro hne
    obtain ⟨r, hr⟩ := runQueries_ok_of_nodes g b d ss os (fun f hf => by
      cases hh : g.hasNode f.id
      · exact absurd ⟨f, hf, hh⟩ hne
      · rfl)
    rw [hr] at h; cases h
  · rintro ⟨rfl, hm⟩
    exact Pta.Hist.runQueries_missing g b d ss os hverb hs ho hm

/-! ### `matchRule` and `verdictOf` -/

/-- the error condition of `matchRule`, free of the behaviour -/
def MatchErr (mt : Str → Str → Bool) (g : PGraph Str) (A B : List Filter) (k : ErrKind) : Prop :=
  convertFilters mt g.nodes A = .error k ∨
  (∃ A', convertFilters mt g.nodes A = .ok A' ∧ convertFilters mt g.nodes B = .error k) ∨
  (∃ A' B', convertFilters mt g.nodes A = .ok A' ∧ convertFilters mt g.nodes B = .ok B' ∧
    k = .lookupError ∧ ∃ f ∈ A' ++ B', g.hasNode f.id = false)

theorem matchRule_err_iff (mt : Str → Str → Bool) (g : PGraph Str) (b : Behavior) (d : Bool) (A B : List Filter)
    (hverb : b.should = true ∨ b.shouldOnly = true ∨ b.shouldNot = true) (hA : A ≠ []) (hB : B ≠ []) (k : ErrKind) :
    (matchRule mt g b d A B).cls = .err k ↔ MatchErr mt g A B k := by
  unfold matchRule MatchErr
  cases h1 : convertFilters mt g.nodes A with
  | error k1 => simp [Verdict.cls]
  | ok A' =>
    cases h2 : convertFilters mt g.nodes B with
    | error k2 => simp [Verdict.cls]
    | ok B' =>
      have hq := runQueries_err_iff g b d A' B' hverb (convertFilters_ne_nil _ _ _ _ h1 hA)
        (convertFilters_ne_nil _ _ _ _ h2 hB) k
      simp only [reduceCtorEq, false_or, Except.ok.injEq, exists_and_left, exists_eq_left']
      cases h3 : runQueries g b d A' B' with
      | error k3 =>
        rw [h3] at hq
        simp only [Verdict.cls, VClass.err.injEq, Except.error.injEq] at hq ⊢
        exact hq
      | ok r =>
        obtain ⟨ex, ot⟩ := r
        rw [h3] at hq
        simp only [reduceCtorEq, false_iff] at hq
        simp only []
        constructor
        · intro h
          split at h <;> simp [Verdict.cls] at h
        · intro h
          exact absurd h hq

/-- when a finished rule raises, and what: independent of verb, `except` and direction -/
def RuleErr (mt : Str → Str → Bool) (g : PGraph Str) (A B : List Filter) (k : ErrKind) : Prop :=
  ((A = [] ∨ B = []) ∧ k = .improperlyConfigured) ∨ (A ≠ [] ∧ B ≠ [] ∧ MatchErr mt g A B k)

theorem verdictOf_err_iff (mt : Str → Str → Bool) (g : PGraph Str) (s o n d e : Bool) (A B : List Filter)
    (hverb : (s || o || n) = true) (hc : (⟨s, o, n, e⟩ : Behavior).inconsistent = false) (k : ErrKind) :
    verdictOf mt g (mkRule s o n d e A B) = .err k ↔ RuleErr mt g A B k := by
  rw [verdictOf_mkRule, hverb, hc]
  unfold RuleErr
  by_cases hA : A = []
  · subst hA
    simp [eq_comm]
  · by_cases hB : B = []
    · subst hB
      simp [hA, eq_comm]
    · have e1 : A.isEmpty = false := by cases A with | nil => exact absurd rfl hA | cons _ _ => rfl
      have e2 : B.isEmpty = false := by cases B with | nil => exact absurd rfl hB | cons _ _ => rfl
      have hv : (Behavior.mk s o n e).should = true ∨ (Behavior.mk s o n e).shouldOnly = true ∨
          (Behavior.mk s o n e).shouldNot = true := by
        revert hverb; cases s <;> cases o <;> cases n <;> simp
      simp only [e1, e2, Bool.not_true, Bool.or_self, Bool.false_eq_true, if_false]
      rw [matchRule_err_iff mt g _ d A B hv hA hB k]
      simp [hA, hB]

/-- two finished, consistent rules on the same subjects and objects raise the same errors, whatever their verbs,
    directions and `except` settings -/
theorem err_iff_err (mt : Str → Str → Bool) (g : PGraph Str) (A B : List Filter) (s o n d e s' o' n' d' e' : Bool)
    (hverb : (s || o || n) = true) (hc : (⟨s, o, n, e⟩ : Behavior).inconsistent = false)
    (hverb' : (s' || o' || n') = true) (hc' : (⟨s', o', n', e'⟩ : Behavior).inconsistent = false) (k : ErrKind) :
    verdictOf mt g (mkRule s o n d e A B) = .err k ↔ verdictOf mt g (mkRule s' o' n' d' e' A B) = .err k := by
  rw [verdictOf_err_iff mt g s o n d e A B hverb hc, verdictOf_err_iff mt g s' o' n' d' e' A B hverb' hc']

/-! ### three-valued combination -/

theorem both_of (x a b : VClass) (hp : x = .pass ↔ (a = .pass ∧ b = .pass))
    (h1 : ∀ k, x = .err k ↔ a = .err k) (h2 : ∀ k, x = .err k ↔ b = .err k) : x = VClass.both a b := by
  cases a with
  | err k => rw [(h1 k).2 rfl]; rfl
  | pass =>
    cases b with
    | err k => rw [(h2 k).2 rfl]; rfl
    | pass => rw [hp.2 ⟨rfl, rfl⟩]; rfl
    | fail =>
      cases x with
      | pass => exact absurd (hp.1 rfl).2 (by simp)
      | fail => rfl
      | err k => exact absurd ((h1 k).1 rfl) (by simp)
  | fail =>
    cases x with
    | pass => exact absurd (hp.1 rfl).1 (by simp)
    | fail => cases b with
      | err k => exact absurd ((h2 k).2 rfl) (by simp)
      | pass => rfl
      | fail => rfl
    | err k => exact absurd ((h1 k).1 rfl) (by simp)

theorem neg_of (x a : VClass) (hp : a = .pass ↔ x = .fail) (h1 : ∀ k, x = .err k ↔ a = .err k) : x = VClass.neg a := by
  cases a with
  | err k => rw [(h1 k).2 rfl]; rfl
  | pass => rw [hp.1 rfl]; rfl
  | fail =>
    cases x with
    | pass => rfl
    | fail => exact absurd (hp.2 rfl) (by simp)
    | err k => exact absurd ((h1 k).1 rfl) (by simp)

end Err

/-! ### the lemmas behind Props/C12.lean -/

theorem rule_error_lemma (mt : Str → Str → Bool) (g : PGraph Str) (A B : List Filter) (s o n d e s' o' n' d' e' : Bool)
    (hverb : (s || o || n) = true) (hc : (⟨s, o, n, e⟩ : Behavior).inconsistent = false)
    (hverb' : (s' || o' || n') = true) (hc' : (⟨s', o', n', e'⟩ : Behavior).inconsistent = false) (k : ErrKind) :
    verdictOf mt g (mkRule s o n d e A B) = .err k ↔ verdictOf mt g (mkRule s' o' n' d' e' A B) = .err k :=
  Err.err_iff_err mt g A B s o n d e s' o' n' d' e' hverb hc hverb' hc' k

theorem decomposition_err_lemma (mt : Str → Str → Bool) (g : PGraph Str) (A B : List Filter) (dir : Bool) (k : ErrKind) :
    (verdictOf mt g (mkRule false true false dir false A B) = .err k ↔
      verdictOf mt g (mkRule true false false dir false A B) = .err k) ∧
    (verdictOf mt g (mkRule false true false dir false A B) = .err k ↔
      verdictOf mt g (mkRule false false true dir true A B) = .err k) :=
  ⟨Err.err_iff_err mt g A B _ _ _ _ _ _ _ _ _ _ rfl rfl rfl rfl k, Err.err_iff_err mt g A B _ _ _ _ _ _ _ _ _ _ rfl rfl rfl rfl k⟩

theorem decomposition_except_err_lemma (mt : Str → Str → Bool) (g : PGraph Str) (A B : List Filter) (dir : Bool) (k : ErrKind) :
    (verdictOf mt g (mkRule false true false dir true A B) = .err k ↔
      verdictOf mt g (mkRule true false false dir true A B) = .err k) ∧
    (verdictOf mt g (mkRule false true false dir true A B) = .err k ↔
      verdictOf mt g (mkRule false false true dir false A B) = .err k) :=
  ⟨Err.err_iff_err mt g A B _ _ _ _ _ _ _ _ _ _ rfl rfl rfl rfl k, Err.err_iff_err mt g A B _ _ _ _ _ _ _ _ _ _ rfl rfl rfl rfl k⟩

theorem decomposition_eq_lemma (mt : Str → Str → Bool) (g : PGraph Str) (A B : List Filter) (dir : Bool) :
    verdictOf mt g (mkRule false true false dir false A B) =
      VClass.both (verdictOf mt g (mkRule true false false dir false A B)) (verdictOf mt g (mkRule false false true dir true A B)) :=
  Err.both_of _ _ _ (decomposition_lemma mt g A B dir) (fun k => (decomposition_err_lemma mt g A B dir k).1)
    (fun k => (decomposition_err_lemma mt g A B dir k).2)

theorem decomposition_except_eq_lemma (mt : Str → Str → Bool) (g : PGraph Str) (A B : List Filter) (dir : Bool) :
    verdictOf mt g (mkRule false true false dir true A B) =
      VClass.both (verdictOf mt g (mkRule true false false dir true A B)) (verdictOf mt g (mkRule false false true dir false A B)) :=
  Err.both_of _ _ _ (decomposition_except_lemma mt g A B dir) (fun k => (decomposition_except_err_lemma mt g A B dir k).1)
    (fun k => (decomposition_except_err_lemma mt g A B dir k).2)

/-- adding an import edge changes neither the modules nor, therefore, the errors -/
theorem monotone_err_lemma (mt : Str → Str → Bool) (g : PGraph Str) (u v : Str) (A B : List Filter) (s o n d e : Bool)
    (hverb : (s || o || n) = true) (hc : (⟨s, o, n, e⟩ : Behavior).inconsistent = false) (k : ErrKind) :
    verdictOf mt (addImportEdge g u v) (mkRule s o n d e A B) = .err k ↔ verdictOf mt g (mkRule s o n d e A B) = .err k := by
  rw [Err.verdictOf_err_iff mt _ s o n d e A B hverb hc, Err.verdictOf_err_iff mt g s o n d e A B hverb hc]
  exact Iff.rfl

theorem negation_err_lemma (mt : Str → Str → Bool) (g : PGraph Str) (A B : List Filter) (dir exc : Bool) (k : ErrKind) :
    verdictOf mt g (mkRule false false true dir exc A B) = .err k ↔ verdictOf mt g (mkRule true false false dir exc A B) = .err k := by
  cases exc <;> exact Err.err_iff_err mt g A B _ _ _ _ _ _ _ _ _ _ rfl rfl rfl rfl k

theorem negation_eq_lemma (mt : Str → Str → Bool) (g : PGraph Str) (s o : Filter) (dir exc : Bool)
    (hs : s.isRegex = false) (ho : o.isRegex = false) :
    verdictOf mt g (mkRule false false true dir exc [s] [o]) = VClass.neg (verdictOf mt g (mkRule true false false dir exc [s] [o])) :=
  Err.neg_of _ _ (negation_lemma_of_not_regex mt g s o dir exc hs ho) (fun k => negation_err_lemma mt g [s] [o] dir exc k)

end Pta
