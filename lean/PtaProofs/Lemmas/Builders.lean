/-
  PtaProofs.Lemmas.Builders — lemmas behind Props/C13.lean and Props/C16.lean (fluent-call histories).
  The proofs live in RuleSim / QueryErr / RuleHist (Rule histories and the matcher's errors),
  LArchSim (LayeredArchitecture builder) and LayerRuleSim (LayerRule histories).
-/
import Bridge.Abs
import PtaProofs.Lemmas.Worklist
import PtaProofs.Lemmas.RuleHist
import PtaProofs.Lemmas.LArchSim
import PtaProofs.Lemmas.LArchEmpty
import PtaProofs.Lemmas.LayerRuleSim
namespace Pta
open Pta.Hist
open PtaSpec

theorem rule_history_raises_lemma (glob : Str → Str) (mt : Str → Str → Bool) (ops : List RuleOp) (g : PGraph Str) :
    (classifyRule (ops.map toRCall)).mustRaise = true → ∃ k, (runRuleOps glob mt ops g).1 = .err k :=
  rule_raises_aux glob mt ops g

theorem rule_history_error_at_lemma (glob : Str → Str) (mt : Str → Str → Bool) (ops : List RuleOp) (g : PGraph Str) (i : Nat) :
    classifyRule (ops.map toRCall) = .errorAtCall i → runRuleOps glob mt ops g = (.err .improperlyConfigured, i) :=
  rule_error_at_aux glob mt ops g i

theorem rule_history_complete_lemma (glob : Str → Str) (mt : Str → Str → Bool) (ops : List RuleOp) (g : PGraph Str) :
    classifyRule (ops.map toRCall) = .complete →
    (runRuleOps glob mt ops g).1 ≠ .err .improperlyConfigured ∧ (runRuleOps glob mt ops g).1 ≠ .err .ruleInconsistency :=
  rule_complete_aux glob mt ops g

theorem unknown_name_lemma (mt : Str → Str → Bool) (g : PGraph Str) (b : Behavior) (dir : Bool) (subs objs : List Filter)
    (hverb : b.should = true ∨ b.shouldOnly = true ∨ b.shouldNot = true)
    (hs : subs ≠ []) (ho : objs ≠ [])
    (hnoregex : ∀ f ∈ subs ++ objs, f.isRegex = false)
    (hmissing : ∃ f ∈ subs ++ objs, g.hasNode f.id = false) :
    matchRule mt g b dir subs objs = .err .lookupError :=
  unknown_name_aux mt g b dir subs objs hverb hs ho hnoregex hmissing

theorem no_match_lemma (mt : Str → Str → Bool) (g : PGraph Str) (b : Behavior) (dir : Bool) (subs objs : List Filter)
    (h : ∃ f ∈ subs, f.isRegex = true ∧ ∀ m ∈ g.nodes, mt f.id m = false) :
    matchRule mt g b dir subs objs = .err .impossibleMatch :=
  no_match_aux mt g b dir subs objs h

theorem layer_rule_history_lemma (mt : Str → Str → Bool) (a : LArch) (ops : List LayerRuleOp) (g : PGraph Str)
    (hbased : ∀ op ∈ ops, ∀ a', op = LayerRuleOp.basedOn a' → a' = a) :
    match classifyLayerRule (ops.map (toLRCall a)) with
    | .rejectedAt i => runLayerRuleOps mt ops g = (.err .improperlyConfigured, i)
    | .lookupAt i => runLayerRuleOps mt ops g = (.err .lookupError, i)
    | .notStarted => (runLayerRuleOps mt ops g).1 = .err .improperlyConfigured
    | .final c => c.mustRaise = true → ∃ k, (runLayerRuleOps mt ops g).1 = .err k := by
  have h := layer_rule_aux mt a ops g hbased
  unfold LRFinal at h
  cases hc : classifyLayerRule (ops.map (toLRCall a)) <;> rw [hc] at h <;> exact h

theorem larch_refines_lemma (ops : List LArchOp) :
    match classifyLArch (ops.map toLCall) with
    | .accepted t => ∃ a, runLArch ops = .ok a ∧
        (a.map fun l => (l.1, l.2.map (·.id))) = t.closed ++ (match t.opened with | some n => [(n, [])] | none => [])
    | .rejectedAt i => runLArch ops = .error (.improperlyConfigured, i)
    | .unspecified => True := by
  have h := larch_refines_aux ops
  cases hc : classifyLArch (ops.map toLCall) <;> rw [hc] at h
  · rename_i t
    obtain ⟨a, h1, h2⟩ := h
    refine ⟨a, h1, ?_⟩
    rw [h2]
    cases t.opened <;> rfl
  · exact h
  · trivial

theorem larch_invariant_lemma (ops : List LArchOp) (a : LArch) (h : runLArch ops = .ok a) :
    (a.map (·.1)).Nodup ∧ a.pending.length ≤ 1 ∧
    ∀ l₁ ∈ a, ∀ l₂ ∈ a, ∀ f₁ ∈ l₁.2, ∀ f₂ ∈ l₂.2, f₁.isRegex = false → f₂.isRegex = false → f₁.id = f₂.id → l₁.1 = l₂.1 :=
  larch_invariant_aux ops a h

theorem spec_empty_module_list_lemma (cs : List LCall) (t : LTrack) (n m : Str)
    (hacc : classifyLArch cs = .accepted t) (hopen : t.opened = some n) :
    classifyLArch (cs ++ [.modules [], .layer m]) = .rejectedAt (cs.length + 1) :=
  spec_empty_keeps_open_aux cs t n m hacc hopen

theorem empty_module_list_keeps_open_lemma (h : List LArchOp) (t : LTrack) (n m : Str)
    (hacc : classifyLArch (h.map toLCall) = .accepted t) (hopen : t.opened = some n) :
    classifyLArch ((h ++ [LArchOp.containingModules [], LArchOp.layer m]).map toLCall) = .rejectedAt (h.length + 1) ∧
    runLArch (h ++ [LArchOp.containingModules [], LArchOp.layer m]) = .error (.improperlyConfigured, h.length + 1) :=
  empty_keeps_open_aux h t n m hacc hopen

theorem empty_module_list_noop_lemma (h : List LArchOp) (t : LTrack) (n : Str)
    (hacc : classifyLArch (h.map toLCall) = .accepted t) (hopen : t.opened = some n) :
    classifyLArch ((h ++ [LArchOp.containingModules []]).map toLCall) = .accepted t ∧
    ∃ a, runLArch (h ++ [LArchOp.containingModules []]) = .ok a ∧ runLArch h = .ok a ∧ a.pending = [n] :=
  empty_noop_aux h t n hacc hopen

theorem empty_module_list_closed_lemma (h rest : List LArchOp) (t : LTrack)
    (hacc : classifyLArch (h.map toLCall) = .accepted t) (hclosed : t.opened = none) :
    classifyLArch ((h ++ LArchOp.containingModules [] :: rest).map toLCall) = .rejectedAt h.length ∧
    runLArch (h ++ LArchOp.containingModules [] :: rest) = .error (.improperlyConfigured, h.length) :=
  empty_closed_aux h rest t hacc hclosed

end Pta
