/-
  PtaProofs.Lemmas.ScanExclude — scans of one tree under two exclusion tests `excl0 ≤ excl` compared (property C08):
  modules and files of the walk, and (through the specification's `scanImports`, properties C02 / C04) the import
  pairs of the graphs.
-/
import Bridge.Abs
import Bridge.ScanAbs
import Bridge.ScanTree
import Bridge.ScanExcl
import PtaProofs.Lemmas.ScanSpec
import PtaProofs.Lemmas.ScanGraph
import PtaProofs.Lemmas.ScanImports
import PtaProofs.Lemmas.ScanCompose
namespace Pta
namespace ScanExclude
open PtaSpec ScanWalk ScanNames ScanSpec ScanCompose

/-! ### `Clear`, `Survives` under a stronger exclusion test -/

theorem clearB_iff (excl : Str → Bool) (base : Str) (mp : List Str) (e : Entry) :
    clearB excl base mp e = true ↔ Clear excl base mp e := by
  simp only [clearB, Clear, List.all_eq_true, List.mem_range, Bool.or_eq_true, decide_eq_true_eq, Bool.not_eq_true']
  constructor
  · intro h k hk1 hk2
    rcases h k (by omega) with h' | h'
    · omega
    · exact h'
  · intro h k hk
    by_cases hkm : k < mp.length
    · exact Or.inl hkm
    · exact Or.inr (h k (by omega) (by omega))

theorem Clear.congr {excl : Str → Bool} {base : Str} {mp : List Str} {e e' : Entry} (hr : e.rel = e'.rel)
    (h : Clear excl base mp e) : Clear excl base mp e' := by
  unfold Clear at h ⊢
  rw [← hr]; exact h

section
variable {excl0 excl : Str → Bool} (hsub : ∀ p, excl0 p = true → excl p = true) {base : Str}
include hsub

theorem excl0_false {p : Str} (h : excl p = false) : excl0 p = false := by
  cases h0 : excl0 p with
  | false => rfl
  | true => rw [hsub p h0] at h; cases h

/-- surviving the stronger test = surviving the weaker one, and no path from `mp` down to the entry matches the
    stronger one -/
theorem survives_split (mp : List Str) (e : Entry) :
    Survives excl base mp e ↔ Survives excl0 base mp e ∧ Clear excl base mp e := by
  constructor
  · rintro ⟨h1, h2, h3⟩
    exact ⟨⟨h1, h2, fun k a b => excl0_false hsub (h3 k a b)⟩, h3⟩
  · rintro ⟨⟨h1, h2, -⟩, h3⟩
    exact ⟨h1, h2, h3⟩

theorem rel_mono {mp q : List Str} (h : Rel excl base mp q) : Rel excl0 base mp q := by
  rcases h with h | ⟨h1, h2⟩
  · exact Or.inl h
  · exact Or.inr ⟨h1, fun k a b => excl0_false hsub (h2 k a b)⟩

theorem names_mono {mp : List Str} {entries : List Entry} (nm : Names (Rel excl0 base mp) entries) :
    Names (Rel excl base mp) entries :=
  ⟨fun e he hr => nm.dirWF e he (rel_mono hsub hr), fun e he hr => nm.pyWF e he (rel_mono hsub hr),
    fun e he hr => nm.noClash e he (rel_mono hsub hr), fun _ hq => hq.up⟩

/-- the tree predicate the theorems assume is monotone: what the scan with more exclusions can see, the scan with
    fewer can see -/
theorem treeWFFor_mono (mp : List Str) (entries : List Entry) (h : treeWFFor excl0 base mp entries = true) :
    treeWFFor excl base mp entries = true := by
  simp only [treeWFFor, Bool.and_eq_true] at h ⊢
  refine ⟨h.1, ?_⟩
  have hrel : ∀ e : Entry, relevant excl base mp e = true → relevant excl0 base mp e = true := fun e he =>
    (relevant_iff excl0 base mp e).2 (rel_mono hsub ((relevant_iff excl base mp e).1 he))
  have h2 := h.2
  simp only [treeNamesFor, Bool.and_eq_true, List.all_eq_true] at h2 ⊢
  refine ⟨fun e he => ?_, fun e he => ?_⟩
  · cases hr : relevant excl base mp e with
    | false => rfl
    | true =>
      have := h2.1 e he
      rw [hrel e hr] at this
      simpa using this
  · cases hr : relevant excl base mp e with
    | false => rfl
    | true =>
      have := h2.2 e he
      rw [hrel e hr] at this
      simpa using this

end

/-! ### modules and files of the walk -/

section
variable {excl0 excl : Str → Bool} (hsub : ∀ p, excl0 p = true → excl p = true) (base root : Str)
  {entries : List Entry} {mp : List Str}

theorem walkFrom_eq (excl : Str → Bool) :
    walkFrom excl base root mp entries =
      parseWalk excl base root entries (maxDepth entries + 2) (startEntry mp) := rfl

/-- modules of the walk under any exclusion test: the surviving entries -/
theorem walkFrom_modules (excl : Str → Bool) (s : Shape entries) (hmp : mpOK entries mp = true) (x : Str) :
    x ∈ (walkFrom excl base root mp entries).allModules ↔
      ∃ e ∈ rootEntry :: entries, Survives excl base mp e ∧ x = moduleName root e.rel := by
  rw [walkFrom_eq, parseWalk_eq]
  exact walk_modules excl base s hmp root x

theorem walkFrom_files (excl : Str → Bool) (s : Shape entries) (hmp : mpOK entries mp = true)
    (y : Str × List ImportStmt) :
    y ∈ (walkFrom excl base root mp entries).files ↔
      ∃ e ∈ entries, e.isDir = false ∧ Survives excl base mp e ∧ y = (moduleName root e.rel, e.stmts) := by
  rw [walkFrom_eq, parseWalk_eq]
  exact walk_files excl base s hmp root y

include hsub

/-- C08, modules, through entries: the walk with the additional exclusions registers exactly the entries the walk
    without them registers and none of whose paths from `module_path` down matches -/
theorem excl_modules_entries (s : Shape entries) (hmp : mpOK entries mp = true) (x : Str) :
    x ∈ (walkFrom excl base root mp entries).allModules ↔
      ∃ e ∈ rootEntry :: entries, Survives excl0 base mp e ∧ Clear excl base mp e ∧ x = moduleName root e.rel := by
  rw [walkFrom_modules base root excl s hmp]
  constructor
  · rintro ⟨e, he, hS, rfl⟩
    obtain ⟨h1, h2⟩ := (survives_split hsub mp e).1 hS
    exact ⟨e, he, h1, h2, rfl⟩
  · rintro ⟨e, he, h1, h2, rfl⟩
    exact ⟨e, he, (survives_split hsub mp e).2 ⟨h1, h2⟩, rfl⟩

theorem excl_files_entries (s : Shape entries) (hmp : mpOK entries mp = true) (y : Str × List ImportStmt) :
    y ∈ (walkFrom excl base root mp entries).files ↔
      ∃ e ∈ entries, e.isDir = false ∧ Survives excl0 base mp e ∧ Clear excl base mp e ∧
        y = (moduleName root e.rel, e.stmts) := by
  rw [walkFrom_files base root excl s hmp]
  constructor
  · rintro ⟨e, he, hd, hS, rfl⟩
    obtain ⟨h1, h2⟩ := (survives_split hsub mp e).1 hS
    exact ⟨e, he, hd, h1, h2, rfl⟩
  · rintro ⟨e, he, hd, h1, h2, rfl⟩
    exact ⟨e, he, hd, (survives_split hsub mp e).2 ⟨h1, h2⟩, rfl⟩

/-- C08, modules, through module names (names of surviving entries are unique on a well-formed tree): a module of
    the scan without the additional exclusions remains iff no path from `module_path` down to its entry matches -/
theorem excl_modules_names (hwf0 : treeWFFor excl0 base mp entries = true) (hmp : mpOK entries mp = true)
    (hroot : compWF root = true) (x : Str) :
    x ∈ (walkFrom excl base root mp entries).allModules ↔
      x ∈ (walkFrom excl0 base root mp entries).allModules ∧
      ∀ e ∈ rootEntry :: entries, Survives excl0 base mp e → moduleName root e.rel = x → Clear excl base mp e := by
  simp only [treeWFFor, Bool.and_eq_true] at hwf0
  have s := shape_of entries hwf0.1
  have nm := names_of _ base mp entries hwf0.2
  rw [excl_modules_entries hsub base root s hmp, walkFrom_modules base root excl0 s hmp]
  constructor
  · rintro ⟨e, he, hS, hC, rfl⟩
    refine ⟨⟨e, he, hS, rfl⟩, fun e' he' hS' heq => ?_⟩
    rw [moduleName_eq, moduleName_eq] at heq
    have hw := relName_wf s nm root hroot e (isNode_of_mem he) (survives_dirOrPy _ base hS) (Rel.of_survives hS)
    have hw' := relName_wf s nm root hroot e' (isNode_of_mem he') (survives_dirOrPy _ base hS') (Rel.of_survives hS')
    have := relName_inj s nm root e' e (isNode_of_mem he') (isNode_of_mem he) (survives_dirOrPy _ base hS')
      (survives_dirOrPy _ base hS) (Rel.of_survives hS') (Rel.of_survives hS) (render_injective _ _ hw' hw heq)
    exact Clear.congr this.symm hC
  · rintro ⟨⟨e, he, hS, rfl⟩, hall⟩
    exact ⟨e, he, hS, hall e he hS rfl, rfl⟩

end

/-! ### more patterns exclude more -/

theorem isExcluded_add (mt : Str → Str → Bool) (a b c : Patterns) (h : a.add b = some c) (s : Str) :
    isExcluded mt c s = (isExcluded mt a s || isExcluded mt b s) := by
  cases a with
  | globs x =>
    cases b with
    | globs y =>
      simp only [Patterns.add, Option.some.injEq] at h
      subst h
      simp only [isExcluded, List.any_append]
    | regexes y => cases h
  | regexes x =>
    cases b with
    | globs y => cases h
    | regexes y =>
      simp only [Patterns.add, Option.some.injEq] at h
      subst h
      simp only [isExcluded, List.any_append]

theorem isExcluded_none (mt : Str → Str → Bool) (s : Str) :
    isExcluded mt (.globs []) s = false ∧ isExcluded mt (.regexes []) s = false := ⟨rfl, rfl⟩

/-! ### one statement under two module lists -/

section
variable {m0 m : List Name} (hsub : ∀ q, m.contains q = true → m0.contains q = true)

/-- whether a statement has targets at all does not depend on the module list -/
theorem targets_none_congr (m m' : List Name) (ap : Option Name) (imp : Name) (st : SStmt) :
    targets m ap imp st = none ↔ targets m' ap imp st = none := by
  cases st with
  | imp names => simp [targets]
  | impFrom mo names lvl =>
    cases lvl with
    | zero =>
      cases mo with
      | none => simp [targets]
      | some p => simp [targets]
    | succ l =>
      simp only [targets]
      split <;> simp

include hsub

theorem qualify_eq (ap : Option Name) (n : Name)
    (h : ∀ pre, ap = some pre → gone m0 m (pre ++ n) = false) :
    targets.qualify m ap n = targets.qualify m0 ap n := by
  unfold targets.qualify
  cases ap with
  | none => rfl
  | some pre =>
    have hg := h pre rfl
    simp only [gone, Bool.and_eq_false_iff, Bool.not_eq_false'] at hg
    simp only
    by_cases hm : m.contains (pre ++ n) = true
    · rw [if_pos hm, if_pos (hsub _ hm)]
    · rcases hg with hg | hg
      · rw [if_neg hm, if_neg (by rw [hg]; exact Bool.false_ne_true)]
      · exact absurd hg hm

/-- a choice between a sub-module `sub` and its package `q`, made against `m` and against `m0`, names the same
    remaining module -/
theorem choice_congr (sub q t : Name) (hc : (!gone m0 m sub || !m.contains q) = true) (ht : m.contains t = true) :
    (if m.contains sub = true then sub else q) = t ↔ (if m0.contains sub = true then sub else q) = t := by
  by_cases hm : m.contains sub = true
  · rw [if_pos hm, if_pos (hsub _ hm)]
  · by_cases hm0 : m0.contains sub = true
    · rw [if_neg hm, if_pos hm0]
      have hq : m.contains q = false := by
        simp only [gone, hm0, Bool.true_and, Bool.not_not, Bool.or_eq_true, Bool.not_eq_true'] at hc
        rcases hc with hc | hc
        · exact absurd hc hm
        · exact hc
      constructor
      · rintro rfl; rw [hq] at ht; cases ht
      · rintro rfl; exact absurd ht hm
    · rw [if_neg hm, if_neg hm0]

/-- under the carve-out a statement names the same remaining modules against both module lists -/
theorem targets_carve (ap : Option Name) (imp : Name) (st : SStmt) (hc : carveStmt m0 m ap imp st = true)
    (ts ts0 : List Name) (h : targets m ap imp st = some ts) (h0 : targets m0 ap imp st = some ts0)
    (t : Name) (ht : m.contains t = true) : t ∈ ts ↔ t ∈ ts0 := by
  cases st with
  | imp names =>
    simp only [targets, Option.some.injEq] at h h0
    subst h h0
    simp only [carveStmt, List.all_eq_true] at hc
    have : names.map (targets.qualify m ap) = names.map (targets.qualify m0 ap) := by
      apply List.map_congr_left
      intro n hn
      apply qualify_eq hsub
      intro pre hpre
      have := hc n hn
      subst hpre
      simpa using this
    rw [this]
  | impFrom mo names lvl =>
    cases lvl with
    | zero =>
      cases mo with
      | none => simp [targets] at h
      | some p =>
        simp only [targets, Option.some.injEq] at h h0
        subst h h0
        simp only [carveStmt, List.all_eq_true, Bool.and_eq_true] at hc
        simp only [List.mem_map]
        have key : ∀ n ∈ names,
            ((if m.contains (targets.qualify m ap (p ++ [n])) = true then targets.qualify m ap (p ++ [n])
              else targets.qualify m ap p) = t ↔
             (if m0.contains (targets.qualify m0 ap (p ++ [n])) = true then targets.qualify m0 ap (p ++ [n])
              else targets.qualify m0 ap p) = t) := by
          intro n hn
          obtain ⟨hc1, hc2⟩ := hc n hn
          have e1 : targets.qualify m ap (p ++ [n]) = targets.qualify m0 ap (p ++ [n]) := by
            apply qualify_eq hsub
            intro pre hpre
            subst hpre
            simp only [Bool.and_eq_true, Bool.not_eq_true'] at hc1
            exact hc1.1
          have e2 : targets.qualify m ap p = targets.qualify m0 ap p := by
            apply qualify_eq hsub
            intro pre hpre
            subst hpre
            simp only [Bool.and_eq_true, Bool.not_eq_true'] at hc1
            exact hc1.2
          rw [e1, e2]
          exact choice_congr hsub _ _ t hc2 ht
        constructor
        · rintro ⟨n, hn, hF⟩; exact ⟨n, hn, (key n hn).1 hF⟩
        · rintro ⟨n, hn, hF⟩; exact ⟨n, hn, (key n hn).2 hF⟩
    | succ l =>
      simp only [targets] at h h0
      split at h
      · cases h
      · rename_i hl
        rw [if_neg hl] at h0
        simp only [Option.some.injEq] at h h0
        subst h h0
        cases mo with
        | none => rfl
        | some p =>
          simp only [carveStmt, List.all_eq_true] at hc
          simp only [List.mem_map]
          constructor
          · rintro ⟨n, hn, hF⟩; exact ⟨n, hn, (choice_congr hsub _ _ t (hc n hn) ht).1 hF⟩
          · rintro ⟨n, hn, hF⟩; exact ⟨n, hn, (choice_congr hsub _ _ t (hc n hn) ht).2 hF⟩

end

/-! ### the specification's edges -/

section
variable {mt : Str → Str → Bool} {base root : Str} {mp : List Str} {entries : List Entry} {o : ScanOptions}

theorem scanImports_mem_iff (is : List (Name × Name))
    (h : scanImports root (sentriesOf mt base entries o) mp = some is) (e : Name × Name) :
    e ∈ is ↔ ScanImports.Acc mt base root mp entries o e.1 e.2 ∧
      e.2 ∈ ScanImports.insideOf root (sentriesOf mt base entries o) mp ∧ e.2 ≠ e.1 := by
  by_cases hb : ∃ f ∈ ScanImports.filesOf (sentriesOf mt base entries o) mp, ∃ st ∈ f.stmts,
      targets (ScanImports.insideOf root (sentriesOf mt base entries o) mp) (ScanImports.apOf root mp)
        (entryName root f) st = none
  · rw [ScanImports.scanImports_none _ _ _ hb] at h; cases h
  · have hs : ∀ f ∈ ScanImports.filesOf (sentriesOf mt base entries o) mp, ∀ st ∈ f.stmts,
        targets (ScanImports.insideOf root (sentriesOf mt base entries o) mp) (ScanImports.apOf root mp)
          (entryName root f) st ≠ none :=
      fun f hf st hst ht => hb ⟨f, hf, st, hst, ht⟩
    rw [ScanImports.scanImports_some _ _ _ hs, Option.some.injEq] at h
    subst h
    exact ScanImports.mem_specEdges e

theorem scanImports_none_iff :
    scanImports root (sentriesOf mt base entries o) mp = none ↔
      ∃ f ∈ ScanImports.filesOf (sentriesOf mt base entries o) mp, ∃ st ∈ f.stmts,
        targets (ScanImports.insideOf root (sentriesOf mt base entries o) mp) (ScanImports.apOf root mp)
          (entryName root f) st = none := by
  constructor
  · intro h
    apply Classical.byContradiction
    intro hb
    have hs : ∀ f ∈ ScanImports.filesOf (sentriesOf mt base entries o) mp, ∀ st ∈ f.stmts,
        targets (ScanImports.insideOf root (sentriesOf mt base entries o) mp) (ScanImports.apOf root mp)
          (entryName root f) st ≠ none :=
      fun f hf st hst ht => hb ⟨f, hf, st, hst, ht⟩
    rw [ScanImports.scanImports_some _ _ _ hs] at h
    cases h
  · exact ScanImports.scanImports_none _ _ _

end

/-! ### two scans of one tree -/

section
variable {mt : Str → Str → Bool} {base root : Str} {mp : List Str} {entries : List Entry} {o0 : ScanOptions}
  {ps : Patterns}

/-- C08, imports: under the carve-out, the scan with the additional exclusions succeeds when the scan without them
    does, and its import pairs are exactly the import pairs of the latter between remaining modules -/
theorem excl_imports_lemma
    (hsub : ∀ p, isExcluded mt o0.exclusions p = true → isExcluded mt ps p = true)
    (hwf0 : treeWFFor (isExcluded mt o0.exclusions) base mp entries = true)
    (hmp : mpOK entries mp = true) (hroot : compWF root = true)
    (hxx : o0.excludeExternal = true) (hlim : o0.levelLimit = none) (hext : o0.externalExclusions.isEmpty = true)
    (hst : ∀ e ∈ entries, ∀ st ∈ e.stmts, stmtOK (toSStmt st) = true)
    (hcarve : carveOut root (toSEntries (isExcluded mt o0.exclusions) base entries)
      (toSEntries (isExcluded mt ps) base entries) mp = true)
    (g0 : PGraph Str) (h0 : generateGraph mt base root mp entries o0 = .ok g0) :
    ∃ g, generateGraph mt base root mp entries (o0.withExclusions ps) = .ok g ∧
      ∀ u v, (u, v) ∈ g.importPairs ↔ (u, v) ∈ g0.importPairs ∧ u ∈ g.nodes ∧ v ∈ g.nodes := by
  have hwf : treeWFFor (isExcluded mt (o0.withExclusions ps).exclusions) base mp entries = true :=
    treeWFFor_mono hsub mp entries hwf0
  have H0 := scanHyps_of_tree (root := root) hwf0 hmp hroot hxx hlim hext hst
  have H := scanHyps_of_tree (root := root) (o := o0.withExclusions ps) hwf hmp hroot hxx hlim hext hst
  have T0 := scan_imports_tree_lemma (root := root) hwf0 hmp hroot hxx hlim hext hst
  have T := scan_imports_tree_lemma (root := root) (o := o0.withExclusions ps) hwf hmp hroot hxx hlim hext hst
  have hwf0' := hwf0
  simp only [treeWFFor, Bool.and_eq_true] at hwf0'
  have s := shape_of entries hwf0'.1
  have nm0 := names_of _ base mp entries hwf0'.2
  have nm : Names (Rel (isExcluded mt ps) base mp) entries := names_mono hsub nm0
  -- surviving with the additional exclusions implies surviving without
  have L1 : ∀ e ∈ rootEntry :: entries,
      survives (toSEntries (isExcluded mt ps) base entries) mp (toSEntry (isExcluded mt ps) base e) = true →
      survives (toSEntries (isExcluded mt o0.exclusions) base entries) mp
        (toSEntry (isExcluded mt o0.exclusions) base e) = true := by
    intro e he hs
    exact (survives_iff _ base s mp e he).2 ((survives_split hsub mp e).1 ((survives_iff _ base s mp e he).1 hs)).1
  have L2 : ∀ n, n ∈ ScanImports.insideOf root (toSEntries (isExcluded mt ps) base entries) mp →
      n ∈ ScanImports.insideOf root (toSEntries (isExcluded mt o0.exclusions) base entries) mp := by
    intro n hn
    obtain ⟨h1, h2⟩ := (ScanImports.mem_insideOf_closed root _ mp H.ownWF H.closed n).1 hn
    refine (ScanImports.mem_insideOf_closed root _ mp H0.ownWF H0.closed n).2 ⟨?_, h2⟩
    obtain ⟨e, he, hsv, rfl⟩ := (mem_ownNames _ base root mp entries n).1 h1
    exact (mem_ownNames _ base root mp entries _).2 ⟨e, he, L1 e he hsv, rfl⟩
  have L2c : ∀ q, (ScanImports.insideOf root (toSEntries (isExcluded mt ps) base entries) mp).contains q = true →
      (ScanImports.insideOf root (toSEntries (isExcluded mt o0.exclusions) base entries) mp).contains q = true := by
    intro q hq
    rw [List.contains_iff_mem] at hq ⊢
    exact L2 q hq
  have hC : ∀ f ∈ ScanImports.filesOf (toSEntries (isExcluded mt ps) base entries) mp, ∀ st ∈ f.stmts,
      carveStmt (ScanImports.insideOf root (toSEntries (isExcluded mt o0.exclusions) base entries) mp)
        (ScanImports.insideOf root (toSEntries (isExcluded mt ps) base entries) mp) (ScanImports.apOf root mp)
        (entryName root f) st = true := by
    simp only [carveOut, List.all_eq_true] at hcarve
    exact hcarve
  -- the scan without the additional exclusions has an answer
  obtain ⟨is0, his0⟩ : ∃ is0, scanImports root (toSEntries (isExcluded mt o0.exclusions) base entries) mp = some is0 := by
    cases hs : scanImports root (toSEntries (isExcluded mt o0.exclusions) base entries) mp with
    | none => rw [hs] at T0; rw [T0] at h0; cases h0
    | some is0 => exact ⟨is0, rfl⟩
  rw [his0] at T0
  obtain ⟨g0', hg0', E0⟩ := T0
  rw [h0, Except.ok.injEq] at hg0'
  subst hg0'
  -- hence so has the scan with them
  obtain ⟨is, his⟩ : ∃ is, scanImports root (toSEntries (isExcluded mt ps) base entries) mp = some is := by
    cases hs : scanImports root (toSEntries (isExcluded mt ps) base entries) mp with
    | some is => exact ⟨is, rfl⟩
    | none =>
      exfalso
      obtain ⟨f, hf, st, hst', ht⟩ :=
        (scanImports_none_iff (mt := mt) (entries := rootEntry :: entries) (o := o0.withExclusions ps)).1 hs
      obtain ⟨e0, he0, rfl, hd, hsv⟩ := (ScanImports.mem_filesOf f).1 hf
      have hf0 : toSEntry (isExcluded mt o0.exclusions) base e0 ∈
          ScanImports.filesOf (sentriesOf mt base (rootEntry :: entries) o0) mp :=
        (ScanImports.mem_filesOf _).2 ⟨e0, he0, rfl, hd, L1 e0 he0 hsv⟩
      have : scanImports root (sentriesOf mt base (rootEntry :: entries) o0) mp = none :=
        ScanImports.scanImports_none _ _ _ ⟨_, hf0, st, hst', (targets_none_congr _ _ _ _ _).1 ht⟩
      rw [sentriesOf_root, his0] at this
      cases this
  have T' := T
  rw [show (o0.withExclusions ps).exclusions = ps from rfl, his] at T'
  obtain ⟨g, hg, E⟩ := T'
  refine ⟨g, hg, fun u v => ?_⟩
  have hnodes := ScanGraph.scan_nodes_lemma mt base root mp entries (o0.withExclusions ps) hwf hmp hroot hxx hlim g hg
  have M0 := scanImports_mem_iff (mt := mt) (entries := rootEntry :: entries) (o := o0) is0 his0
  have M := scanImports_mem_iff (mt := mt) (entries := rootEntry :: entries) (o := o0.withExclusions ps) is his
  rw [E u v, E0 u v]
  constructor
  · rintro ⟨e, he, rfl, rfl⟩
    obtain ⟨hacc, hin, hne⟩ := (M e).1 he
    obtain ⟨e0, he0, hd, hsv, himp, st, hst', ts, hts, ht⟩ := hacc
    replace himp : e.1 = entryName root (toSEntry (isExcluded mt ps) base e0) := himp
    replace hts : targets (ScanImports.insideOf root (toSEntries (isExcluded mt ps) base entries) mp)
        (ScanImports.apOf root mp) e.1 (toSStmt st) = some ts := hts
    replace hin : e.2 ∈ ScanImports.insideOf root (toSEntries (isExcluded mt ps) base entries) mp := hin
    replace hsv : survives (toSEntries (isExcluded mt ps) base entries) mp (toSEntry (isExcluded mt ps) base e0) = true :=
      hsv
    have hfm : toSEntry (isExcluded mt ps) base e0 ∈ ScanImports.filesOf (toSEntries (isExcluded mt ps) base entries) mp :=
      (ScanImports.mem_filesOf (mt := mt) (entries := rootEntry :: entries) (o := o0.withExclusions ps) _).2
        ⟨e0, he0, rfl, hd, hsv⟩
    have hcs := hC _ hfm (toSStmt st) (List.mem_map.2 ⟨st, hst', rfl⟩)
    rw [← himp] at hcs
    cases hts0 : targets (ScanImports.insideOf root (toSEntries (isExcluded mt o0.exclusions) base entries) mp)
        (ScanImports.apOf root mp) e.1 (toSStmt st) with
    | none => rw [(targets_none_congr _ _ _ _ _).1 hts0] at hts; cases hts
    | some ts0 =>
      have ht0 := (targets_carve L2c _ _ _ hcs ts ts0 hts hts0 e.2 (List.contains_iff_mem.2 hin)).1 ht
      refine ⟨⟨e, (M0 e).2 ⟨⟨e0, he0, hd, L1 e0 he0 hsv, himp, st, hst', ts0, hts0, ht0⟩, L2 _ hin, hne⟩, rfl, rfl⟩, ?_, ?_⟩
      · refine (hnodes _).2 ⟨e.1, ?_, rfl⟩
        exact (ScanGraph.mem_scanModules root _ mp _).2
          ⟨_, List.mem_map.2 ⟨e0, he0, rfl⟩, hsv, Or.inl himp⟩
      · exact (hnodes _).2 ⟨e.2, (List.mem_filter.1 hin).1, rfl⟩
  · rintro ⟨⟨e, he, rfl, rfl⟩, hu, hv⟩
    obtain ⟨hacc, hin0, hne⟩ := (M0 e).1 he
    obtain ⟨hown0, hw2⟩ := ScanImports.Acc_facts H0 e.1 e.2 hacc
    have hw1 := H0.ownWF _ hown0
    obtain ⟨e0, he0, hd, hsv0, himp, st, hst', ts0, hts0, ht0⟩ := hacc
    replace hts0 : targets (ScanImports.insideOf root (toSEntries (isExcluded mt o0.exclusions) base entries) mp)
        (ScanImports.apOf root mp) e.1 (toSStmt st) = some ts0 := hts0
    replace hin0 : e.2 ∈ ScanImports.insideOf root (toSEntries (isExcluded mt o0.exclusions) base entries) mp := hin0
    replace hsv0 : survives (toSEntries (isExcluded mt o0.exclusions) base entries) mp
        (toSEntry (isExcluded mt o0.exclusions) base e0) = true := hsv0
    have hee0 : e0 ∈ entries := by
      rcases List.mem_cons.1 he0 with rfl | h
      · cases hd
      · exact h
    have hS0 := (survives_iff _ base s mp e0 he0).1 hsv0
    have hmodwf : ∀ n ∈ scanModules root (toSEntries (isExcluded mt ps) base entries) mp, nameWF n = true :=
      fun n hn => BuildImports.Cl_wf H.ownWF ((ScanImports.mem_scanModules root _ mp H.ownWF n).1 hn)
    -- the importing file remains
    have hsv : survives (toSEntries (isExcluded mt ps) base entries) mp (toSEntry (isExcluded mt ps) base e0) = true := by
      obtain ⟨n, hn, hr⟩ := (hnodes _).1 hu
      have hen : e.1 = n := render_injective _ _ hw1 (hmodwf n hn) hr
      subst hen
      rcases (ScanGraph.mem_scanModules_explicit (isExcluded mt ps) base root s nm hmp e.1).1 hn with
        ⟨e', he', hsv', hn'⟩ | ⟨-, k, -, hk, hn'⟩
      · have hS' := (survives_iff _ base s mp e' he').1 hsv'
        have hS'0 := ((survives_split hsub mp e').1 hS').1
        have hrel : e0.rel = e'.rel := by
          apply relName_inj s nm0 root e0 e' (isNode_of_mem he0) (isNode_of_mem he') (survives_dirOrPy _ base hS0)
            (survives_dirOrPy _ base hS'0) (Rel.of_survives hS0) (Rel.of_survives hS'0)
          rw [← entryName_toSEntry (isExcluded mt o0.exclusions) base, ← himp, hn', entryName_toSEntry]
        have hee' : e' ∈ entries := by
          rcases List.mem_cons.1 he' with rfl | h
          · exact absurd hrel (s.ne e0 hee0)
          · exact h
        rw [s.inj e0 hee0 e' hee' hrel]
        exact hsv'
      · exfalso
        have hpre : (root :: mp) <+: relName root e0 :=
          (prefix_relName_iff s nm0 hmp root e0 he0 (survives_dirOrPy _ base hS0) (Rel.of_survives hS0)).2 hS0.1
        rw [← entryName_toSEntry (isExcluded mt o0.exclusions) base, ← himp, hn'] at hpre
        have := hpre.length_le
        rw [List.length_take] at this
        simp only [List.length_cons] at this
        omega
    -- the imported module remains
    have hin : e.2 ∈ ScanImports.insideOf root (toSEntries (isExcluded mt ps) base entries) mp := by
      obtain ⟨n, hn, hr⟩ := (hnodes _).1 hv
      have hen : e.2 = n := render_injective _ _ hw2 (hmodwf n hn) hr
      subst hen
      exact List.mem_filter.2 ⟨hn, (List.mem_filter.1 hin0).2⟩
    have hfm : toSEntry (isExcluded mt ps) base e0 ∈ ScanImports.filesOf (toSEntries (isExcluded mt ps) base entries) mp :=
      (ScanImports.mem_filesOf (mt := mt) (entries := rootEntry :: entries) (o := o0.withExclusions ps) _).2
        ⟨e0, he0, rfl, hd, hsv⟩
    have hcs := hC _ hfm (toSStmt st) (List.mem_map.2 ⟨st, hst', rfl⟩)
    rw [show entryName root (toSEntry (isExcluded mt ps) base e0) = e.1 from himp.symm] at hcs
    cases hts : targets (ScanImports.insideOf root (toSEntries (isExcluded mt ps) base entries) mp)
        (ScanImports.apOf root mp) e.1 (toSStmt st) with
    | none => rw [(targets_none_congr _ _ _ _ _).1 hts] at hts0; cases hts0
    | some ts =>
      have ht := (targets_carve L2c _ _ _ hcs ts ts0 hts hts0 e.2 (List.contains_iff_mem.2 hin)).2 ht0
      exact ⟨e, (M e).2 ⟨⟨e0, he0, hd, hsv, himp, st, hst', ts, hts, ht⟩, hin, hne⟩, rfl, rfl⟩

end

/-! ### the model's conversion looks at `internal` only through `consulted` -/

theorem adjust_congr (name absPrefix : Str) (internal internal' : List Str)
    (h : internal.contains (absPrefix ++ '.' :: name) = internal'.contains (absPrefix ++ '.' :: name)) :
    adjustWithRootPrefix name absPrefix internal = adjustWithRootPrefix name absPrefix internal' := by
  unfold adjustWithRootPrefix
  simp only [h]

theorem adjust_cases (name absPrefix : Str) (internal : List Str) :
    adjustWithRootPrefix name absPrefix internal = absPrefix ++ '.' :: name ∨
    adjustWithRootPrefix name absPrefix internal = name := by
  unfold adjustWithRootPrefix
  simp only []
  split
  · exact Or.inl rfl
  · exact Or.inr rfl

theorem mapM_congr {α β ε : Type} (f f' : α → Except ε β) :
    ∀ (l : List α), (∀ x ∈ l, f x = f' x) → l.mapM f = l.mapM f'
  | [], _ => rfl
  | a :: l, h => by
    rw [List.mapM_cons, List.mapM_cons, h a List.mem_cons_self,
      mapM_congr f f' l (fun x hx => h x (List.mem_cons_of_mem _ hx))]

/-- two lists of internal modules that agree on the consulted strings give the same import records -/
theorem convertStmt_congr (importer absPrefix : Str) (internal internal' : List Str) (st : ImportStmt)
    (h : ∀ q ∈ consulted importer absPrefix st, internal.contains q = internal'.contains q) :
    convertStmt importer absPrefix internal st = convertStmt importer absPrefix internal' st := by
  cases st with
  | imp names =>
    simp only [convertStmt]
    congr 1
    apply List.map_congr_left
    intro n hn
    rw [adjust_congr n absPrefix internal internal' (h _ (List.mem_map.2 ⟨n, hn, rfl⟩))]
  | impFrom mo names lvl =>
    cases lvl with
    | zero =>
      cases mo with
      | none => rfl
      | some m =>
        simp only [convertStmt]
        congr 1
        apply List.map_congr_left
        intro n hn
        have hq : ∀ q ∈ [absPrefix ++ '.' :: (m ++ '.' :: n), m ++ '.' :: n, absPrefix ++ '.' :: m],
            internal.contains q = internal'.contains q :=
          fun q hq => h q (List.mem_flatMap.2 ⟨n, hn, hq⟩)
        have h1 := hq (absPrefix ++ '.' :: (m ++ '.' :: n)) (by simp)
        have h2 := hq (m ++ '.' :: n) (by simp)
        have h3 := hq (absPrefix ++ '.' :: m) (by simp)
        rw [adjust_congr _ absPrefix internal internal' h1, adjust_congr _ absPrefix internal internal' h3]
        have h4 : internal.contains (adjustWithRootPrefix (m ++ '.' :: n) absPrefix internal') =
            internal'.contains (adjustWithRootPrefix (m ++ '.' :: n) absPrefix internal') := by
          rcases adjust_cases (m ++ '.' :: n) absPrefix internal' with e | e <;> rw [e]
          · exact h1
          · exact h2
        simp only [h4]
    | succ l =>
      cases mo with
      | none => rfl
      | some m =>
        simp only [convertStmt]
        apply mapM_congr
        intro n hn
        cases hr : relativeImportee importer m (l + 1) with
        | error k => rfl
        | ok importee =>
          cases hs : relativeImportee importer (m ++ '.' :: n) (l + 1) with
          | error k => rfl
          | ok sub =>
            have hq : internal.contains sub = internal'.contains sub := by
              apply h
              refine List.mem_flatMap.2 ⟨n, hn, ?_⟩
              rw [hs]
              exact List.mem_singleton.2 rfl
            simp only [bind, Except.bind, pure, Except.pure, hq]

end ScanExclude
end Pta
