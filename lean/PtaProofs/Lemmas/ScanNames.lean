/-
  PtaProofs.Lemmas.ScanNames — module names of directory entries (property C04): `moduleName` is the rendered
  `entryName`; under the naming hypotheses of `treeNames` the names are well-formed, distinct for distinct
  surviving entries, and a `.py` file's name has no scanned module strictly below it.
-/
import Bridge.Abs
import Bridge.ScanTree
import PtaProofs.Lemmas.Render
import PtaProofs.Lemmas.ScanWalk
namespace Pta
namespace ScanNames
open PtaSpec ScanWalk

/-! ### `lastName`, `dropSuffix`, `isPyFile` -/

theorem rel_split (e : Entry) (h : e.rel ≠ []) : e.rel = e.rel.dropLast ++ [lastName e] := by
  have : lastName e = e.rel.getLast h := by
    simp only [lastName, List.getLast?_eq_some_getLast h]
  rw [this, List.dropLast_concat_getLast]

theorem lastName_concat (e : Entry) (i : List Str) (x : Str) (h : e.rel = i ++ [x]) : lastName e = x := by
  simp [lastName, h]

theorem lastName_nil (e : Entry) (h : e.rel = []) : lastName e = [] := by
  simp [lastName, h]

theorem dropWhile_all {α : Type} (p : α → Bool) : ∀ l : List α, (∀ x ∈ l, p x = true) → l.dropWhile p = []
  | [], _ => rfl
  | a :: l, h => by
    rw [List.dropWhile_cons, if_pos (h a List.mem_cons_self)]
    exact dropWhile_all p l fun x hx => h x (List.mem_cons_of_mem _ hx)

/-- names without a dot have no suffix to drop -/
theorem dropSuffix_nodot (name : Str) (h : '.' ∉ name) : dropSuffix name = name := by
  unfold dropSuffix
  rw [dropWhile_all]
  intro x hx
  have hx' : x ∈ name := List.mem_reverse.1 hx
  simp only [bne_iff_ne, ne_eq]
  rintro rfl
  exact h hx'

theorem dropSuffix_compWF (name : Str) (h : compWF name = true) : dropSuffix name = name :=
  dropSuffix_nodot name ((compWF_iff name).1 h).2

/-- a `.py` file name is its stem followed by ".py" -/
theorem isPyFile_split (name : Str) (h : isPyFile name = true) : name = dropSuffix name ++ ".py".toList := by
  simp only [isPyFile, Bool.and_eq_true, decide_eq_true_eq, endsWith] at h
  obtain ⟨h1, h2⟩ := h
  rw [startsWith_iff_prefix] at h1
  obtain ⟨t, ht⟩ := h1
  have hrev : name = t.reverse ++ ".py".toList := by
    have := congrArg List.reverse ht
    rw [List.reverse_reverse] at this
    rw [← this]
    simp
  have htne : t ≠ [] := by
    rintro rfl
    rw [hrev] at h2
    simp at h2
  have hd : dropSuffix name = t.reverse := by
    unfold dropSuffix
    rw [← ht]
    have : (".py".toList.reverse ++ t).dropWhile (· != '.') = '.' :: t := by
      show (['y', 'p', '.'] ++ t).dropWhile (· != '.') = '.' :: t
      simp
    rw [this]
    simp only []
    cases t with
    | nil => exact absurd rfl htne
    | cons a t' => simp
  rw [hd]
  exact hrev

theorem isPyFile_nil : isPyFile [] = false := by decide

/-! ### the name of an entry -/

/-- `entryName` through `toSEntry` depends on the path only -/
def relName (root : Str) (e : Entry) : Name :=
  if e.rel.isEmpty then [root] else root :: (e.rel.dropLast ++ [dropSuffix (lastName e)])

theorem entryName_toSEntry (excl : Str → Bool) (base root : Str) (e : Entry) :
    entryName root (toSEntry excl base e) = relName root e := rfl

theorem relName_congr (root : Str) {e e' : Entry} (h : e.rel = e'.rel) : relName root e = relName root e' := by
  simp [relName, lastName, h]

/-- `Parser._get_module_name` is the rendered specification name (no side conditions) -/
theorem moduleName_eq (root : Str) (e : Entry) : moduleName root e.rel = render (relName root e) := by
  unfold moduleName relName
  by_cases h : e.rel = []
  · simp [h, render, joinDots]
  · have hs := rel_split e h
    generalize lastName e = x at hs
    generalize e.rel.dropLast = i at hs
    rw [hs]
    simp [render]

/-! ### relevant paths -/

/-- a path the scan from `mp` can see (Prop form of `relevant`) -/
def Rel (excl : Str → Bool) (base : Str) (mp : List Str) (q : List Str) : Prop :=
  q <+: mp ∨ (mp <+: q ∧ ∀ k, mp.length ≤ k → k ≤ q.length → excl (pathStr base (q.take k)) = false)

theorem relevant_iff (excl : Str → Bool) (base : Str) (mp : List Str) (e : Entry) :
    relevant excl base mp e = true ↔ Rel excl base mp e.rel := by
  simp only [relevant, Rel, Bool.or_eq_true, Bool.and_eq_true, List.isPrefixOf_iff_prefix, List.all_eq_true,
    List.mem_range, decide_eq_true_eq, Bool.not_eq_true']
  constructor
  · rintro (h | ⟨h1, h2⟩)
    · exact Or.inl h
    · refine Or.inr ⟨h1, fun k hk1 hk2 => ?_⟩
      rcases h2 k (by omega) with h | h
      · omega
      · exact h
  · rintro (h | ⟨h1, h2⟩)
    · exact Or.inl h
    · refine Or.inr ⟨h1, fun k hk => ?_⟩
      by_cases hkm : k < mp.length
      · exact Or.inl hkm
      · exact Or.inr (h2 k (by omega) (by omega))

theorem Rel.of_survives {excl : Str → Bool} {base : Str} {mp : List Str} {d : Entry}
    (h : Survives excl base mp d) : Rel excl base mp d.rel := Or.inr ⟨h.1, h.2.2⟩

theorem Rel.self (excl : Str → Bool) (base : Str) (mp : List Str) : Rel excl base mp mp := Or.inl (List.prefix_refl _)

/-- the parent of a relevant path is relevant -/
theorem Rel.up {excl : Str → Bool} {base : Str} {mp q : List Str} (h : Rel excl base mp q) :
    Rel excl base mp q.dropLast := by
  rcases h with h | ⟨h1, h2⟩
  · exact Or.inl ((List.dropLast_prefix q).trans h)
  · by_cases heq : q = mp
    · left; rw [heq]; exact List.dropLast_prefix _
    · have hne : q ≠ [] := by
        rintro rfl
        apply heq
        simpa using h1
      have hsplit : q = q.dropLast ++ [q.getLast hne] := (List.dropLast_concat_getLast hne).symm
      have hpre : mp <+: q.dropLast := by
        rw [hsplit] at h1
        rcases List.prefix_concat_iff.1 h1 with h' | h'
        · exact absurd (hsplit.trans h'.symm) heq
        · exact h'
      refine Or.inr ⟨hpre, fun k hk1 hk2 => ?_⟩
      rw [List.length_dropLast] at hk2
      have : q.dropLast.take k = q.take k := by
        rw [List.dropLast_eq_take, List.take_take]
        congr 1
        omega
      rw [this]
      exact h2 k hk1 (by omega)

/-! ### unpacking `treeNamesFor` -/

/-- the naming conditions on the entries whose path satisfies `R` -/
structure Names (R : List Str → Prop) (entries : List Entry) : Prop where
  dirWF : ∀ e ∈ entries, R e.rel → e.isDir = true → compWF (lastName e) = true
  pyWF : ∀ e ∈ entries, R e.rel → e.isDir = false → isPyFile (lastName e) = true →
    compWF (dropSuffix (lastName e)) = true
  noClash : ∀ e ∈ entries, R e.rel → e.isDir = false → isPyFile (lastName e) = true →
    ∀ d ∈ entries, d.isDir = true → d.rel ≠ e.rel.dropLast ++ [dropSuffix (lastName e)]
  up : ∀ q, R q → R q.dropLast

theorem names_of (excl : Str → Bool) (base : Str) (mp : List Str) (entries : List Entry)
    (h : treeNamesFor excl base mp entries = true) : Names (Rel excl base mp) entries := by
  simp only [treeNamesFor, Bool.and_eq_true, List.all_eq_true, Bool.or_eq_true, Bool.not_eq_true',
    List.any_eq_false, beq_iff_eq] at h
  refine ⟨?_, ?_, ?_, fun q hq => hq.up⟩
  · intro e he hr hd
    rcases h.1 e he with h1 | h1
    · rw [(relevant_iff excl base mp e).2 hr] at h1; cases h1
    · simpa [hd] using h1
  · intro e he hr hd hp
    rcases h.1 e he with h1 | h1
    · rw [(relevant_iff excl base mp e).2 hr] at h1; cases h1
    · simpa [hd, hp] using h1
  · intro e he hr hd hp d hdm hdd heq
    rcases h.2 e he with ((h1 | h1) | h1) | h1
    · rw [(relevant_iff excl base mp e).2 hr] at h1; cases h1
    · rw [hd] at h1; cases h1
    · rw [hp] at h1; cases h1
    · have := h1 d hdm
      simp [hdd, heq] at this

/-- the global predicate implies the restricted one -/
theorem treeNamesFor_of_treeNames (excl : Str → Bool) (base : Str) (mp : List Str) (entries : List Entry)
    (h : treeNames entries = true) : treeNamesFor excl base mp entries = true := by
  simp only [treeNames, Bool.and_eq_true, List.all_eq_true] at h
  simp only [treeNamesFor, Bool.and_eq_true, List.all_eq_true]
  refine ⟨fun e he => ?_, fun e he => ?_⟩
  · rw [h.1 e he]; simp
  · have := h.2 e he
    simp only [Bool.or_eq_true] at this ⊢
    rcases this with (h1 | h1) | h1
    · exact Or.inl (Or.inl (Or.inr h1))
    · exact Or.inl (Or.inr h1)
    · exact Or.inr h1

theorem treeWFFor_of_treeWF (excl : Str → Bool) (base : Str) (mp : List Str) (entries : List Entry)
    (h : treeWF entries = true) : treeWFFor excl base mp entries = true := by
  simp only [treeWF, treeWFFor, Bool.and_eq_true] at h ⊢
  exact ⟨h.1, treeNamesFor_of_treeNames excl base mp entries h.2⟩

/-- an `IsNode` is the root or shares path and kind with a listed entry -/
theorem isNode_repr {entries : List Entry} {e : Entry} (h : IsNode entries e) :
    (e.rel = [] ∧ e.isDir = true) ∨ ∃ e' ∈ entries, e'.rel = e.rel ∧ e'.isDir = e.isDir := by
  rcases h with h | ⟨hd, h | ⟨e', he', hd', hr⟩⟩
  · exact Or.inr ⟨e, h, rfl, rfl⟩
  · exact Or.inl ⟨h, hd⟩
  · exact Or.inr ⟨e', he', hr, by rw [hd, hd']⟩

section
variable {R : List Str → Prop} {entries : List Entry} (s : Shape entries) (nm : Names R entries)
include s nm

/-- every component of a relevant listed directory's path is well-formed -/
theorem dir_rel_wf : ∀ n, ∀ d ∈ entries, d.rel.length = n → d.isDir = true → R d.rel → ∀ x ∈ d.rel, compWF x = true := by
  intro n
  induction n with
  | zero =>
    intro d _ hl _ _ x hx
    rw [List.length_eq_zero_iff.1 hl] at hx
    cases hx
  | succ n ih =>
    intro d hd hl hdir hR x hx
    have hne : d.rel ≠ [] := by intro h; rw [h] at hl; cases hl
    rw [rel_split d hne] at hx
    rcases List.mem_append.1 hx with h | h
    · by_cases h2 : 2 ≤ d.rel.length
      · obtain ⟨p, hp, hpd, hpr⟩ := s.parent d hd h2
        refine ih p hp ?_ hpd (by rw [hpr]; exact nm.up _ hR) x (by rw [hpr]; exact h)
        rw [hpr, List.length_dropLast]; omega
      · have : d.rel.dropLast = [] := by
          apply List.length_eq_zero_iff.1
          rw [List.length_dropLast]; omega
        rw [this] at h; cases h
    · simp only [List.mem_singleton] at h
      subst h
      exact nm.dirWF d hd hR hdir

/-- the components above a relevant entry are well-formed -/
theorem dropLast_wf (d : Entry) (hd : d ∈ entries) (hR : R d.rel) : ∀ x ∈ d.rel.dropLast, compWF x = true := by
  intro x hx
  by_cases h2 : 2 ≤ d.rel.length
  · obtain ⟨p, hp, hpd, hpr⟩ := s.parent d hd h2
    exact dir_rel_wf s nm _ p hp rfl hpd (by rw [hpr]; exact nm.up _ hR) x (by rw [hpr]; exact hx)
  · have : d.rel.dropLast = [] := by
      apply List.length_eq_zero_iff.1
      rw [List.length_dropLast]; omega
    rw [this] at hx; cases hx

omit s in
theorem stem_wf (d : Entry) (hd : d ∈ entries) (hk : dirOrPy d = true) (hR : R d.rel) :
    compWF (dropSuffix (lastName d)) = true := by
  cases hdir : d.isDir with
  | true =>
    have := nm.dirWF d hd hR hdir
    rw [dropSuffix_compWF _ this]; exact this
  | false =>
    simp only [dirOrPy, hdir, Bool.false_or] at hk
    exact nm.pyWF d hd hR hdir hk

/-- names of relevant directories and `.py` files are well-formed module names -/
theorem relName_wf (root : Str) (hroot : compWF root = true) (d : Entry) (hn : IsNode entries d)
    (hk : dirOrPy d = true) (hR : R d.rel) : nameWF (relName root d) = true := by
  rcases isNode_repr hn with ⟨hr, -⟩ | ⟨e', he', hr, hdir⟩
  · simp [relName, hr, nameWF, hroot]
  · have hk' : dirOrPy e' = true := by
      simpa [dirOrPy, lastName, hr, hdir] using hk
    have hR' : R e'.rel := by rw [hr]; exact hR
    rw [relName_congr root hr.symm]
    have hne := s.ne e' he'
    rw [nameWF_iff]
    refine ⟨by simp [relName, hne], ?_⟩
    intro c hc
    rw [← compWF_iff]
    simp only [relName, List.isEmpty_iff, hne, if_false, List.mem_cons, List.mem_append, List.not_mem_nil, or_false] at hc
    rcases hc with rfl | h | rfl
    · exact hroot
    · exact dropLast_wf s nm e' he' hR' c h
    · exact stem_wf nm e' he' hk' hR'

/-- distinct relevant paths of directories / `.py` files have distinct names -/
theorem relName_inj (root : Str) (d d' : Entry) (hn : IsNode entries d) (hn' : IsNode entries d')
    (hk : dirOrPy d = true) (hk' : dirOrPy d' = true) (hR : R d.rel) (hR' : R d'.rel)
    (h : relName root d = relName root d') : d.rel = d'.rel := by
  -- reduce to listed entries
  have key : ∀ e e' : Entry, e ∈ entries → e' ∈ entries → dirOrPy e = true → dirOrPy e' = true →
      R e.rel → R e'.rel → relName root e = relName root e' → e.rel = e'.rel := by
    intro e e' he he' hk hk' hR hR' h
    have hne := s.ne e he
    have hne' := s.ne e' he'
    simp only [relName, List.isEmpty_iff, hne, hne', if_false, List.cons.injEq, true_and] at h
    have hlen : e.rel.dropLast.length = e'.rel.dropLast.length := by
      have := congrArg List.length h
      simpa using this
    obtain ⟨h1, h2⟩ := List.append_inj h hlen
    simp only [List.cons.injEq, and_true] at h2
    rw [rel_split e hne, rel_split e' hne', h1]
    congr 2
    cases hd : e.isDir <;> cases hd' : e'.isDir
    · simp only [dirOrPy, hd, hd', Bool.false_or] at hk hk'
      rw [isPyFile_split _ hk, isPyFile_split _ hk', h2]
    · exfalso
      simp only [dirOrPy, hd, Bool.false_or] at hk
      apply nm.noClash e he hR hd hk e' he' hd'
      rw [h1, h2, dropSuffix_compWF _ (nm.dirWF e' he' hR' hd')]
      exact rel_split e' hne'
    · exfalso
      simp only [dirOrPy, hd', Bool.false_or] at hk'
      apply nm.noClash e' he' hR' hd' hk' e he hd
      rw [← h1, ← h2, dropSuffix_compWF _ (nm.dirWF e he hR hd)]
      exact rel_split e hne
    · rw [← dropSuffix_compWF _ (nm.dirWF e he hR hd), ← dropSuffix_compWF _ (nm.dirWF e' he' hR' hd'), h2]
  rcases isNode_repr hn with ⟨hr, -⟩ | ⟨e, he, hr, hdir⟩ <;> rcases isNode_repr hn' with ⟨hr', -⟩ | ⟨e', he', hr', hdir'⟩
  · rw [hr, hr']
  · exfalso
    have hne' : d'.rel ≠ [] := by rw [← hr']; exact s.ne e' he'
    have := congrArg List.length h
    simp [relName, hr, hne'] at this
  · exfalso
    have hne : d.rel ≠ [] := by rw [← hr]; exact s.ne e he
    have := congrArg List.length h
    simp [relName, hr', hne] at this
  · rw [← hr, ← hr']
    apply key e e' he he'
    · simpa [dirOrPy, lastName, hr, hdir] using hk
    · simpa [dirOrPy, lastName, hr', hdir'] using hk'
    · rw [hr]; exact hR
    · rw [hr']; exact hR'
    · rw [relName_congr root hr, relName_congr root hr']; exact h

/-- a relevant `.py` file is a leaf: no directory or `.py` file has a name strictly below the file's name -/
theorem file_leaf (root : Str) (f : Entry) (hf : f ∈ entries) (hfd : f.isDir = false) (hpy : isPyFile (lastName f) = true)
    (hR : R f.rel)
    (d : Entry) (hn : IsNode entries d) (n : Name) (h1 : relName root f <+: n) (h2 : n <+: relName root d) :
    n = relName root f := by
  rcases Nat.lt_or_ge (relName root f).length n.length with hlt | hge
  · exfalso
    have hfne := s.ne f hf
    have hpre : relName root f <+: relName root d := h1.trans h2
    have hlen : (relName root f).length < (relName root d).length := Nat.lt_of_lt_of_le hlt h2.length_le
    rcases isNode_repr hn with ⟨hr, -⟩ | ⟨e, he, hr, -⟩
    · simp [relName, hr, hfne] at hlen
    · rw [relName_congr root hr.symm] at hpre hlen
      have hene := s.ne e he
      simp only [relName, List.isEmpty_iff, hfne, hene, if_false, List.cons_prefix_cons, true_and,
        List.length_cons, List.length_append] at hpre hlen
      rcases List.prefix_concat_iff.1 hpre with heq | hp
      · have := congrArg List.length heq
        simp only [List.length_append, List.length_singleton] at this
        omega
      · have hq : f.rel.dropLast ++ [dropSuffix (lastName f)] <+: e.rel := hp.trans (List.dropLast_prefix _)
        have hqne : f.rel.dropLast ++ [dropSuffix (lastName f)] ≠ e.rel := by
          intro heq
          have := congrArg List.length heq
          have hl := List.length_dropLast (xs := e.rel)
          simp only [List.length_append, List.length_singleton] at this
          omega
        obtain ⟨c, hc, hcd, hcr⟩ := prefix_dir s e he _ (by simp) hq hqne
        exact nm.noClash f hf hR hfd hpy c hc hcd hcr
  · exact (h1.eq_of_length_le hge).symm

end

end ScanNames
end Pta
