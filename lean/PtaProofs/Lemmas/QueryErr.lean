/-
  PtaProofs.Lemmas.QueryErr — which errors the graph queries of `RuleMatcher` can raise, and when they must.
-/
import Bridge.Abs
import PtaProofs.Lemmas.Worklist
namespace Pta.Hist
/-! ### generic `Except` traversals -/

theorem mapM_error_only {α β ε : Type} (f : α → Except ε β) (e0 : ε) (l : List α)
    (hall : ∀ x ∈ l, ∀ e, f x = .error e → e = e0) :
    ∀ e, l.mapM f = .error e → e = e0 := by
  induction l with
  | nil => intro e h; simp [pure, Except.pure] at h
  | cons x xs ih =>
    intro e h
    rw [List.mapM_cons] at h
    cases hx : f x with
    | error e' =>
      rw [hx] at h
      simp only [bind, Except.bind] at h
      cases h
      exact hall x (by simp) _ hx
    | ok b =>
      rw [hx] at h
      simp only [bind, Except.bind] at h
      cases hxs : xs.mapM f with
      | error e' =>
        rw [hxs] at h
        simp only at h
        cases h
        exact ih (fun y hy => hall y (List.mem_cons_of_mem _ hy)) _ hxs
      | ok bs =>
        rw [hxs] at h
        simp [pure, Except.pure] at h

theorem mapM_error_of_mem {α β ε : Type} (f : α → Except ε β) (e0 : ε) (l : List α)
    (hall : ∀ x ∈ l, ∀ e, f x = .error e → e = e0)
    (hex : ∃ x ∈ l, f x = .error e0) :
    l.mapM f = .error e0 := by
  induction l with
  | nil => obtain ⟨x, hx, _⟩ := hex; cases hx
  | cons x xs ih =>
    rw [List.mapM_cons]
    cases hx : f x with
    | error e' =>
      simp only [bind, Except.bind]
      rw [hall x (by simp) _ hx]
    | ok b =>
      simp only [bind, Except.bind]
      obtain ⟨y, hy, hye⟩ := hex
      rcases List.mem_cons.mp hy with rfl | hy
      · rw [hx] at hye; cases hye
      · rw [ih (fun y hy => hall y (List.mem_cons_of_mem _ hy)) ⟨y, hy, hye⟩]

theorem mem_dedup {α : Type} [DecidableEq α] (x : α) (l : List α) : x ∈ dedup l ↔ x ∈ l := by
  induction l with
  | nil => simp [dedup]
  | cons y ys ih =>
    simp only [dedup]
    split
    · rename_i hy
      rw [ih, List.mem_cons]
      constructor
      · exact .inr
      · rintro (rfl | h)
        · exact ih.mp hy
        · exact h
    · simp [ih]

theorem dedup_ne_nil {α : Type} [DecidableEq α] (l : List α) (h : l ≠ []) : dedup l ≠ [] := by
  obtain ⟨x, hx⟩ := List.exists_mem_of_ne_nil l h
  intro hn
  have := (mem_dedup x l).mpr hx
  rw [hn] at this
  cases this

/-! ### `submodulesOf` and the searches built on it -/

theorem submodulesOf_err (g : PGraph Str) (s : Str) (e : ErrKind) (h : submodulesOf g s = .error e) :
    e = .lookupError := by
  unfold submodulesOf at h
  split at h
  · cases h
  · cases h; rfl

theorem submodulesOf_missing (g : PGraph Str) (s : Str) (h : g.hasNode s = false) :
    submodulesOf g s = .error .lookupError := (submodulesOf_spec g s).1 h

theorem depBetween_err (g : PGraph Str) (f o : Filter) (e : ErrKind) (h : depBetween g f o = .error e) :
    e = .lookupError := by
  unfold depBetween at h
  cases h1 : submodulesOf g o.id with
  | error e1 =>
    rw [h1] at h; simp only [bind, Except.bind] at h; cases h
    exact submodulesOf_err _ _ _ h1
  | ok u =>
    rw [h1] at h; simp only [bind, Except.bind] at h
    cases h2 : submodulesOf g f.id with
    | error e2 =>
      rw [h2] at h; simp only at h; cases h
      exact submodulesOf_err _ _ _ h2
    | ok w => rw [h2] at h; simp [pure, Except.pure] at h

theorem depBetween_missing (g : PGraph Str) (f o : Filter)
    (h : g.hasNode f.id = false ∨ g.hasNode o.id = false) :
    depBetween g f o = .error .lookupError := by
  unfold depBetween
  cases h1 : submodulesOf g o.id with
  | error e1 =>
    simp only [bind, Except.bind]
    rw [submodulesOf_err _ _ _ h1]
  | ok u =>
    simp only [bind, Except.bind]
    rcases h with h | h
    · rw [submodulesOf_missing g _ h]
    · rw [submodulesOf_missing g _ h] at h1; cases h1

theorem exclUnion_go_err (g : PGraph Str) (self : Filter) (others : List Filter) (acc : List Str) (e : ErrKind)
    (h : others.foldlM (fun acc o => if o = self then pure acc else do
        let s ← submodulesOf g o.id
        pure (acc ++ s)) acc = Except.error e) : e = .lookupError := by
  induction others generalizing acc with
  | nil => simp [pure, Except.pure] at h
  | cons o os ih =>
    rw [List.foldlM_cons] at h
    by_cases ho : o = self
    · simp only [ho, if_true, bind, Except.bind, pure, Except.pure] at h
      exact ih _ h
    · simp only [ho, if_false] at h
      cases h1 : submodulesOf g o.id with
      | error e1 =>
        rw [h1] at h; simp only [bind, Except.bind] at h; cases h
        exact submodulesOf_err _ _ _ h1
      | ok u =>
        rw [h1] at h; simp only [bind, Except.bind, pure, Except.pure] at h
        exact ih _ h

theorem exclUnion_err (g : PGraph Str) (self : Filter) (others : List Filter) (e : ErrKind)
    (h : exclUnion g self others = .error e) : e = .lookupError :=
  exclUnion_go_err g self others [] e h

theorem exclUnion_go_missing (g : PGraph Str) (self : Filter) (others : List Filter) (acc : List Str)
    (h : ∃ o ∈ others, o ≠ self ∧ g.hasNode o.id = false) :
    others.foldlM (fun acc o => if o = self then pure acc else do
        let s ← submodulesOf g o.id
        pure (acc ++ s)) acc = Except.error ErrKind.lookupError := by
  induction others generalizing acc with
  | nil => obtain ⟨o, ho, _⟩ := h; cases ho
  | cons o os ih =>
    rw [List.foldlM_cons]
    by_cases ho : o = self
    · simp only [ho, if_true, bind, Except.bind, pure, Except.pure]
      apply ih
      obtain ⟨x, hx, hxs, hxm⟩ := h
      rcases List.mem_cons.mp hx with rfl | hx
      · exact absurd ho hxs
      · exact ⟨x, hx, hxs, hxm⟩
    · simp only [ho, if_false]
      cases h1 : submodulesOf g o.id with
      | error e1 =>
        simp only [bind, Except.bind]
        rw [submodulesOf_err _ _ _ h1]
      | ok u =>
        simp only [bind, Except.bind, pure, Except.pure]
        apply ih
        obtain ⟨x, hx, hxs, hxm⟩ := h
        rcases List.mem_cons.mp hx with rfl | hx
        · rw [submodulesOf_missing g _ hxm] at h1; cases h1
        · exact ⟨x, hx, hxs, hxm⟩

theorem exclUnion_missing (g : PGraph Str) (self : Filter) (others : List Filter)
    (h : ∃ o ∈ others, o ≠ self ∧ g.hasNode o.id = false) :
    exclUnion g self others = .error .lookupError :=
  exclUnion_go_missing g self others [] h

theorem otherFrom_err (g : PGraph Str) (f : Filter) (os : List Filter) (e : ErrKind)
    (h : otherFrom g f os = .error e) : e = .lookupError := by
  unfold otherFrom at h
  cases h1 : exclUnion g f os with
  | error e1 =>
    rw [h1] at h; simp only [bind, Except.bind] at h; cases h
    exact exclUnion_err _ _ _ _ h1
  | ok u =>
    rw [h1] at h; simp only [bind, Except.bind] at h
    cases h2 : submodulesOf g f.id with
    | error e2 =>
      rw [h2] at h; simp only at h; cases h
      exact submodulesOf_err _ _ _ h2
    | ok w => rw [h2] at h; simp [pure, Except.pure] at h

theorem otherFrom_missing (g : PGraph Str) (f : Filter) (os : List Filter)
    (h : g.hasNode f.id = false ∨ ∃ o ∈ os, g.hasNode o.id = false) :
    otherFrom g f os = .error .lookupError := by
  unfold otherFrom
  cases h1 : exclUnion g f os with
  | error e1 =>
    simp only [bind, Except.bind]
    rw [exclUnion_err _ _ _ _ h1]
  | ok u =>
    simp only [bind, Except.bind]
    have hf : g.hasNode f.id = false := by
      rcases h with h | ⟨o, ho, hm⟩
      · exact h
      · by_cases hof : o = f
        · rw [← hof]; exact hm
        · rw [exclUnion_missing g f os ⟨o, ho, hof, hm⟩] at h1; cases h1
    rw [submodulesOf_missing g _ hf]

theorem otherTo_err (g : PGraph Str) (fs : List Filter) (o : Filter) (e : ErrKind)
    (h : otherTo g fs o = .error e) : e = .lookupError := by
  unfold otherTo at h
  cases h1 : exclUnion g o fs with
  | error e1 =>
    rw [h1] at h; simp only [bind, Except.bind] at h; cases h
    exact exclUnion_err _ _ _ _ h1
  | ok u =>
    rw [h1] at h; simp only [bind, Except.bind] at h
    cases h2 : submodulesOf g o.id with
    | error e2 =>
      rw [h2] at h; simp only at h; cases h
      exact submodulesOf_err _ _ _ h2
    | ok w => rw [h2] at h; simp [pure, Except.pure] at h

theorem otherTo_missing (g : PGraph Str) (fs : List Filter) (o : Filter)
    (h : g.hasNode o.id = false ∨ ∃ f ∈ fs, g.hasNode f.id = false) :
    otherTo g fs o = .error .lookupError := by
  unfold otherTo
  cases h1 : exclUnion g o fs with
  | error e1 =>
    simp only [bind, Except.bind]
    rw [exclUnion_err _ _ _ _ h1]
  | ok u =>
    simp only [bind, Except.bind]
    have hf : g.hasNode o.id = false := by
      rcases h with h | ⟨f, hf, hm⟩
      · exact h
      · by_cases hof : f = o
        · rw [← hof]; exact hm
        · rw [exclUnion_missing g o fs ⟨f, hf, hof, hm⟩] at h1; cases h1
    rw [submodulesOf_missing g _ hf]

end Pta.Hist
namespace Pta.Hist
/-! ### the three queries -/

theorem bind_pure_err {α β : Type} (x : Except ErrKind α) (f : α → β) (e : ErrKind)
    (h : (do let d ← x; pure (f d) : Except ErrKind β) = .error e) : x = .error e := by
  cases x with
  | error e' => simp only [bind, Except.bind] at h; cases h; rfl
  | ok a => simp [bind, Except.bind, pure, Except.pure] at h

theorem bind_pure_of_err {α β : Type} (x : Except ErrKind α) (f : α → β) (e : ErrKind)
    (h : x = .error e) : (do let d ← x; pure (f d) : Except ErrKind β) = .error e := by
  subst h; rfl

theorem getDependencies_err (g : PGraph Str) (is os : List Filter) (e : ErrKind)
    (h : getDependencies g is os = .error e) : e = .lookupError := by
  unfold getDependencies at h
  refine mapM_error_only _ _ _ ?_ e h
  intro fo _ e' he
  exact depBetween_err _ _ _ _ (bind_pure_err _ _ _ he)

theorem getDependencies_missing (g : PGraph Str) (is os : List Filter) (hi : is ≠ []) (ho : os ≠ [])
    (hm : ∃ f ∈ is ++ os, g.hasNode f.id = false) :
    getDependencies g is os = .error .lookupError := by
  unfold getDependencies
  apply mapM_error_of_mem
  · intro fo _ e' he
    exact depBetween_err _ _ _ _ (bind_pure_err _ _ _ he)
  · obtain ⟨f, hf, hfm⟩ := hm
    obtain ⟨i0, hi0⟩ := List.exists_mem_of_ne_nil is hi
    obtain ⟨o0, ho0⟩ := List.exists_mem_of_ne_nil os ho
    rcases List.mem_append.mp hf with hf | hf
    · refine ⟨(f, o0), ?_, ?_⟩
      · simp only [List.mem_flatMap, List.mem_map, mem_dedup]
        exact ⟨f, hf, o0, ho0, rfl⟩
      · exact bind_pure_of_err _ _ _ (depBetween_missing g f o0 (.inl hfm))
    · refine ⟨(i0, f), ?_, ?_⟩
      · simp only [List.mem_flatMap, List.mem_map, mem_dedup]
        exact ⟨i0, hi0, f, hf, rfl⟩
      · exact bind_pure_of_err _ _ _ (depBetween_missing g i0 f (.inr hfm))

theorem getOtherFrom_err (g : PGraph Str) (is os : List Filter) (e : ErrKind)
    (h : getOtherFrom g is os = .error e) : e = .lookupError := by
  unfold getOtherFrom at h
  refine mapM_error_only _ _ _ ?_ e h
  intro fo _ e' he
  exact otherFrom_err _ _ _ _ (bind_pure_err _ _ _ he)

theorem getOtherFrom_missing (g : PGraph Str) (is os : List Filter) (hi : is ≠ [])
    (hm : ∃ f ∈ is ++ os, g.hasNode f.id = false) :
    getOtherFrom g is os = .error .lookupError := by
  unfold getOtherFrom
  apply mapM_error_of_mem
  · intro fo _ e' he
    exact otherFrom_err _ _ _ _ (bind_pure_err _ _ _ he)
  · obtain ⟨f, hf, hfm⟩ := hm
    obtain ⟨i0, hi0⟩ := List.exists_mem_of_ne_nil is hi
    rcases List.mem_append.mp hf with hf | hf
    · exact ⟨f, (mem_dedup _ _).mpr hf, bind_pure_of_err _ _ _ (otherFrom_missing g f _ (.inl hfm))⟩
    · exact ⟨i0, (mem_dedup _ _).mpr hi0,
        bind_pure_of_err _ _ _ (otherFrom_missing g i0 _ (.inr ⟨f, (mem_dedup _ _).mpr hf, hfm⟩))⟩

theorem getOtherTo_err (g : PGraph Str) (is os : List Filter) (e : ErrKind)
    (h : getOtherTo g is os = .error e) : e = .lookupError := by
  unfold getOtherTo at h
  refine mapM_error_only _ _ _ ?_ e h
  intro fo _ e' he
  exact otherTo_err _ _ _ _ (bind_pure_err _ _ _ he)

theorem getOtherTo_missing (g : PGraph Str) (is os : List Filter) (ho : os ≠ [])
    (hm : ∃ f ∈ is ++ os, g.hasNode f.id = false) :
    getOtherTo g is os = .error .lookupError := by
  unfold getOtherTo
  apply mapM_error_of_mem
  · intro fo _ e' he
    exact otherTo_err _ _ _ _ (bind_pure_err _ _ _ he)
  · obtain ⟨f, hf, hfm⟩ := hm
    obtain ⟨o0, ho0⟩ := List.exists_mem_of_ne_nil os ho
    rcases List.mem_append.mp hf with hf | hf
    · exact ⟨o0, (mem_dedup _ _).mpr ho0,
        bind_pure_of_err _ _ _ (otherTo_missing g _ o0 (.inr ⟨f, (mem_dedup _ _).mpr hf, hfm⟩))⟩
    · exact ⟨f, (mem_dedup _ _).mpr hf, bind_pure_of_err _ _ _ (otherTo_missing g _ f (.inl hfm))⟩

/-! ### `runQueries` -/

theorem map_some_err {α : Type} (x : Except ErrKind α) (e : ErrKind) (h : x.map some = .error e) : x = .error e := by
  cases x with
  | error e' => simp only [Except.map] at h; cases h; rfl
  | ok a => simp [Except.map] at h

theorem bind2_err {α β : Type} (x : Except ErrKind α) (y : Except ErrKind β) (e : ErrKind)
    (h : (do let a ← x; let b ← y; pure (a, b) : Except ErrKind (α × β)) = .error e) :
    x = .error e ∨ y = .error e := by
  cases x with
  | error e1 => simp only [bind, Except.bind] at h; cases h; exact .inl rfl
  | ok a =>
    cases y with
    | error e2 => simp only [bind, Except.bind] at h; cases h; exact .inr rfl
    | ok b => simp [bind, Except.bind, pure, Except.pure] at h

theorem runQueries_err (g : PGraph Str) (b : Behavior) (d : Bool) (ss os : List Filter) (e : ErrKind)
    (h : runQueries g b d ss os = .error e) : e = .lookupError := by
  unfold runQueries at h
  generalize (b.explReq || b.explForb) = c1 at h
  generalize (b.otherReq || b.otherForb) = c2 at h
  cases c1 <;> cases c2 <;> simp only [if_true, if_false, Bool.false_eq_true] at h <;>
    rcases bind2_err _ _ _ h with h | h
  all_goals first
    | cases h
    | exact getDependencies_err _ _ _ _ (map_some_err _ _ h)
    | (cases d
       · exact getOtherTo_err _ _ _ _ (map_some_err _ _ h)
       · exact getOtherFrom_err _ _ _ _ (map_some_err _ _ h))

theorem runQueries_missing (g : PGraph Str) (b : Behavior) (d : Bool) (ss os : List Filter)
    (hverb : b.should = true ∨ b.shouldOnly = true ∨ b.shouldNot = true)
    (hs : ss ≠ []) (ho : os ≠ [])
    (hm : ∃ f ∈ ss ++ os, g.hasNode f.id = false) :
    runQueries g b d ss os = .error .lookupError := by
  have hq : (b.explReq || b.explForb) = true ∨ (b.otherReq || b.otherForb) = true := by
    rcases b with ⟨b1, b2, b3, b4⟩
    simp only [Behavior.explReq, Behavior.explForb, Behavior.otherReq, Behavior.otherForb]
    simp only at hverb
    revert hverb
    cases b1 <;> cases b2 <;> cases b3 <;> cases b4 <;> decide
  -- importers / importees
  have hne : (if d then ss else os) ≠ [] ∧ (if d then os else ss) ≠ [] := by cases d <;> simp [hs, ho]
  have hm' : ∃ f ∈ (if d then ss else os) ++ (if d then os else ss), g.hasNode f.id = false := by
    obtain ⟨f, hf, hfm⟩ := hm
    refine ⟨f, ?_, hfm⟩
    cases d
    · simp only [Bool.false_eq_true, if_false, List.mem_append] at hf ⊢; exact hf.symm
    · simpa using hf
  unfold runQueries
  simp only [bind, Except.bind]
  by_cases h1 : (b.explReq || b.explForb) = true
  · simp only [h1, if_true]
    rw [getDependencies_missing g _ _ hne.1 hne.2 hm']
    rfl
  · have h2 : (b.otherReq || b.otherForb) = true := hq.resolve_left h1
    simp only [h1, h2, if_true]
    simp only [Bool.false_eq_true, if_false, pure, Except.pure]
    cases d
    · simp only [Bool.false_eq_true, if_false] at hne hm' ⊢
      rw [getOtherTo_missing g _ _ hne.2 hm']
      rfl
    · simp only [if_true] at hne hm' ⊢
      rw [getOtherFrom_missing g _ _ hne.1 hm']
      rfl

/-! ### `convertFilters` and `matchRule` -/

theorem convertFilters_err (mt : Str → Str → Bool) (mods : List Str) (fs : List Filter) (e : ErrKind)
    (h : convertFilters mt mods fs = .error e) : e = .impossibleMatch := by
  unfold convertFilters at h
  simp only at h
  split at h
  · cases h; rfl
  · cases h

theorem convertFilters_noregex (mt : Str → Str → Bool) (mods : List Str) (fs : List Filter)
    (h : ∀ f ∈ fs, f.isRegex = false) : convertFilters mt mods fs = .ok fs := by
  unfold convertFilters
  have h1 : fs.filter (·.isRegex) = [] := by
    rw [List.filter_eq_nil_iff]; intro f hf; simp [h f hf]
  have h2 : fs.filter (fun f => !f.isRegex) = fs := by
    rw [List.filter_eq_self]; intro f hf; simp [h f hf]
  have h3 : mods.filter (fun _ => false) = [] := List.filter_eq_nil_iff.mpr (by simp)
  simp only [h1, h2, List.any_nil, h3]
  simp [dedup]

theorem convertFilters_nomatch (mt : Str → Str → Bool) (mods : List Str) (fs : List Filter)
    (h : ∃ f ∈ fs, f.isRegex = true ∧ ∀ m ∈ mods, mt f.id m = false) :
    convertFilters mt mods fs = .error .impossibleMatch := by
  unfold convertFilters
  obtain ⟨f, hf, hr, hm⟩ := h
  have : ((fs.filter (·.isRegex)).any fun r => !(mods.any (mt r.id))) = true := by
    rw [List.any_eq_true]
    refine ⟨f, List.mem_filter.mpr ⟨hf, hr⟩, ?_⟩
    simp only [Bool.not_eq_true', List.any_eq_false]
    intro m hm'
    simp [hm m hm']
  simp only [this, if_true]

theorem matchRule_err (mt : Str → Str → Bool) (g : PGraph Str) (b : Behavior) (d : Bool) (ss os : List Filter)
    (k : ErrKind) (h : matchRule mt g b d ss os = .err k) : k = .impossibleMatch ∨ k = .lookupError := by
  unfold matchRule at h
  split at h
  · rename_i k1 h1; cases h; exact .inl (convertFilters_err _ _ _ _ h1)
  · split at h
    · rename_i k2 h2; cases h; exact .inl (convertFilters_err _ _ _ _ h2)
    · split at h
      · rename_i k3 h3; cases h; exact .inr (runQueries_err _ _ _ _ _ _ h3)
      · simp only at h
        split at h <;> cases h

end Pta.Hist