/-
  PtaProofs.Lemmas.NoMatchExact — audit finding F8: a regex without a match raises exactly `ImpossibleMatch`, in subject
  AND object position, whatever accompanies it.  `ModuleNameConverter.convert` can only fail with `ImpossibleMatch`
  (`convertFilters_error_kind`), it runs on the subjects and then on the objects BEFORE any query is asked, so the
  no-match error also wins over the lookup error of an absent module name.
-/
import Bridge.Abs
import PtaProofs.Lemmas.QueryErr
import PtaProofs.Lemmas.Expansion
namespace Pta

/-- `ModuleNameConverter.convert` raises nothing but `ImpossibleMatch` -/
theorem convertFilters_error_kind (mt : Str → Str → Bool) (mods : List Str) (fs : List Filter) (k : ErrKind)
    (h : convertFilters mt mods fs = .error k) : k = .impossibleMatch := by
  unfold convertFilters at h
  simp only at h
  split at h
  · cases h; rfl
  · cases h

theorem no_match_object_lemma (mt : Str → Str → Bool) (g : PGraph Str) (b : Behavior) (dir : Bool) (subs objs : List Filter)
    (h : ∃ f ∈ objs, f.isRegex = true ∧ ∀ m ∈ g.nodes, mt f.id m = false) :
    matchRule mt g b dir subs objs = .err .impossibleMatch := by
  unfold matchRule
  cases hs : convertFilters mt g.nodes subs with
  | error k => rw [convertFilters_error_kind mt g.nodes subs k hs]
  | ok S => simp only [Hist.convertFilters_nomatch mt g.nodes objs h]

theorem no_match_either_lemma (mt : Str → Str → Bool) (g : PGraph Str) (b : Behavior) (dir : Bool) (subs objs : List Filter)
    (h : ∃ f ∈ subs ++ objs, f.isRegex = true ∧ ∀ m ∈ g.nodes, mt f.id m = false) :
    matchRule mt g b dir subs objs = .err .impossibleMatch := by
  obtain ⟨f, hf, h1, h2⟩ := h
  rcases List.mem_append.1 hf with hf | hf
  · unfold matchRule
    rw [Hist.convertFilters_nomatch mt g.nodes subs ⟨f, hf, h1, h2⟩]
  · exact no_match_object_lemma mt g b dir subs objs ⟨f, hf, h1, h2⟩

/-- `assert_applies` on a complete, consistent rule without the `anything` alias is the matcher -/
theorem assertApplies_complete (mt : Str → Str → Bool) (g : PGraph Str) (st : RuleState) (d : Bool) (ss os : List Filter)
    (hany : st.cfg.anything = false) (hcm : configMissing st.cfg = false) (hda : droppedAbsent g st.cfg = false)
    (hinc : st.cfg.behavior.inconsistent = false)
    (hd : st.cfg.importDir = some d) (hs : st.cfg.subjects = some ss) (ho : st.cfg.objects = some os) :
    (assertApplies mt st g).2 = matchRule mt g st.cfg.behavior d ss os := by
  unfold assertApplies
  have hca : convertAliases st.cfg = st.cfg := by simp [convertAliases, hany]
  simp only [anythingMisused, hany, Bool.false_and, Bool.false_eq_true, if_false, hca, hcm, hda, hinc, hd, hs, ho]

theorem regex_no_match_exact_lemma (mt : Str → Str → Bool) (g : PGraph Str) (st : RuleState) (ss os : List Filter)
    (hany : st.cfg.anything = false) (hcm : configMissing st.cfg = false) (hda : droppedAbsent g st.cfg = false)
    (hinc : st.cfg.behavior.inconsistent = false)
    (hs : st.cfg.subjects = some ss) (ho : st.cfg.objects = some os)
    (h : ∃ f ∈ ss ++ os, f.isRegex = true ∧ ∀ m ∈ g.nodes, mt f.id m = false) :
    (assertApplies mt st g).2 = .err .impossibleMatch := by
  cases hd : st.cfg.importDir with
  | none => simp [configMissing, hd] at hcm
  | some d =>
    rw [assertApplies_complete mt g st d ss os hany hcm hda hinc hd hs ho]
    exact no_match_either_lemma mt g _ d ss os h

theorem mkRule_complete (g : PGraph Str) (s o n dir exc : Bool) (subs objs : List Filter)
    (hverb : (s || o || n) = true) (hsub : subs ≠ []) (hobj : objs ≠ []) :
    (mkRule s o n dir exc subs objs).cfg.anything = false ∧
    configMissing (mkRule s o n dir exc subs objs).cfg = false ∧
    droppedAbsent g (mkRule s o n dir exc subs objs).cfg = false := by
  refine ⟨rfl, ?_, rfl⟩
  cases subs with
  | nil => exact absurd rfl hsub
  | cons a l =>
    cases objs with
    | nil => exact absurd rfl hobj
    | cons b l' => simp [configMissing, mkRule, hverb]

end Pta
