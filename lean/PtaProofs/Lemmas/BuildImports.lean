/-
  PtaProofs.Lemmas.BuildImports — the graph constructor (`buildGraph`, no level limit) on ARBITRARY import records
  with well-formed names: no legality assumption on the calls. `createEdge` is characterised as a map update on
  (source, target) pairs (under the invariant that all records of a pair carry the same flag), so the collision of
  an import edge with a hierarchy edge (importer = parent of importee) can be followed through `addImport`.
-/
import Bridge.ScanAbs
import PtaProofs.Lemmas.Render
import PtaProofs.Lemmas.BuildGen
import PtaProofs.Lemmas.BuildNames
import PtaProofs.Lemmas.ScanStmt
namespace Pta
namespace BuildImports
open PtaSpec BuildGen BuildNames

/-- edge record `a → b` with flag `f` is in the graph -/
def E (g : PGraph Str) (a b : Str) (f : Bool) : Prop := (⟨a, b, f⟩ : Edge Str) ∈ g.edges

/-- all records of one ordered pair carry the same flag -/
def Cons (g : PGraph Str) : Prop := ∀ a b f f', E g a b f → E g a b f' → f = f'

theorem E_iff (g : PGraph Str) (x : Edge Str) : x ∈ g.edges ↔ E g x.src x.dst x.inh := by
  cases x; rfl

/-! ### `createEdge` as a map update -/

/-- the call `createEdge none g s e _` writes: distinct ends, both nodes -/
def W (g : PGraph Str) (s e : Str) : Prop := s ≠ e ∧ s ∈ g.nodes ∧ e ∈ g.nodes

theorem findEdge_none (g : PGraph Str) (s e : Str) (h : g.findEdge s e = none) (f : Bool) : ¬ E g s e f := by
  intro hx
  unfold PGraph.findEdge at h
  have := List.find?_eq_none.1 h _ hx
  simp at this

theorem findEdge_some (g : PGraph Str) (s e : Str) (y : Edge Str) (h : g.findEdge s e = some y) :
    E g s e y.inh := by
  unfold PGraph.findEdge at h
  have hy := List.find?_some h
  have hm := List.mem_of_find?_eq_some h
  simp only [Bool.and_eq_true, beq_iff_eq] at hy
  obtain ⟨ys, yd, yi⟩ := y
  simp only at hy
  obtain ⟨rfl, rfl⟩ := hy
  exact hm

theorem setEdge_found (g : PGraph Str) (s e : Str) (y : Edge Str) (h : g.findEdge s e = some y) (inh : Bool)
    (a b : Str) (f : Bool) :
    E (g.setEdge s e inh) a b f ↔ (a = s ∧ b = e ∧ f = inh) ∨ (¬ (a = s ∧ b = e) ∧ E g a b f) := by
  have hy := findEdge_some g s e y h
  unfold PGraph.setEdge PGraph.hasEdge E
  simp only [h, Option.isSome_some, if_true, List.mem_map]
  constructor
  · rintro ⟨x, hx, hfx⟩
    split at hfx
    · rename_i hm
      simp only [Edge.mk.injEq] at hfx
      exact Or.inl ⟨hfx.1.symm, hfx.2.1.symm, hfx.2.2.symm⟩
    · rename_i hm
      subst hfx
      simp only [Bool.and_eq_true, beq_iff_eq] at hm
      exact Or.inr ⟨hm, hx⟩
  · rintro (⟨rfl, rfl, rfl⟩ | ⟨hne, hx⟩)
    · refine ⟨_, hy, ?_⟩
      simp
    · refine ⟨_, hx, ?_⟩
      rw [if_neg]
      simpa [Bool.and_eq_true, beq_iff_eq] using hne

theorem setEdge_fresh (g : PGraph Str) (s e : Str) (h : g.findEdge s e = none) (inh : Bool)
    (a b : Str) (f : Bool) :
    E (g.setEdge s e inh) a b f ↔ (a = s ∧ b = e ∧ f = inh) ∨ (¬ (a = s ∧ b = e) ∧ E g a b f) := by
  unfold PGraph.setEdge PGraph.hasEdge E
  simp only [h, Option.isSome_none, Bool.false_eq_true, if_false, List.mem_append, List.mem_singleton, Edge.mk.injEq]
  constructor
  · rintro (hx | h3)
    · refine Or.inr ⟨?_, hx⟩
      rintro ⟨rfl, rfl⟩
      exact findEdge_none g _ _ h f hx
    · exact Or.inl h3
  · rintro (h3 | ⟨-, hx⟩)
    · exact Or.inr h3
    · exact Or.inl hx

/-- `createEdge` (no level limit) overwrites the flag of the pair when it writes, and changes nothing else -/
theorem createEdge_gen (g : PGraph Str) (hc : Cons g) (s e : Str) (inh : Bool) (a b : Str) (f : Bool) :
    E (createEdge none g s e inh) a b f ↔
      (W g s e ∧ a = s ∧ b = e ∧ f = inh) ∨ (¬ (W g s e ∧ a = s ∧ b = e) ∧ E g a b f) := by
  unfold createEdge
  simp only [flattenNode]
  by_cases hse : s = e
  · have : ¬ W g s e := fun h => h.1 hse
    simp [hse, W]
  · simp only [beq_iff_eq, hse, if_false]
    by_cases hn : (g.hasNode s && g.hasNode e) = true
    · have hn' : s ∈ g.nodes ∧ e ∈ g.nodes := by simpa [Bool.and_eq_true, hasNode_iff] using hn
      have hw : W g s e := ⟨hse, hn'⟩
      simp only [hn, if_true, hw, true_and]
      cases hf : g.findEdge s e with
      | some y =>
        simp only
        by_cases hinh : y.inh = inh
        · simp only [hinh, if_true]
          have hy := findEdge_some g s e y hf
          rw [hinh] at hy
          constructor
          · intro hx
            by_cases hab : a = s ∧ b = e
            · obtain ⟨rfl, rfl⟩ := hab
              exact Or.inl ⟨rfl, rfl, hc _ _ _ _ hx hy⟩
            · exact Or.inr ⟨hab, hx⟩
          · rintro (⟨rfl, rfl, rfl⟩ | ⟨-, hx⟩)
            · exact hy
            · exact hx
        · rw [if_neg (by simpa using hinh)]
          exact setEdge_found g s e y hf inh a b f
      | none => exact setEdge_fresh g s e hf inh a b f
    · have hw : ¬ W g s e := by
        intro h
        apply hn
        simp [Bool.and_eq_true, hasNode_iff, h.2.1, h.2.2]
      rw [if_neg hn]
      simp only [hw, false_and, not_false_eq_true, true_and, false_or]

theorem createEdge_cons (g : PGraph Str) (hc : Cons g) (s e : Str) (inh : Bool) :
    Cons (createEdge none g s e inh) := by
  intro a b f f' h1 h2
  rw [createEdge_gen g hc] at h1 h2
  rcases h1 with ⟨hw1, ha1, hb1, rfl⟩ | ⟨hn1, h1⟩
  · rcases h2 with ⟨-, -, -, rfl⟩ | ⟨hn2, -⟩
    · rfl
    · exact absurd ⟨hw1, ha1, hb1⟩ hn2
  · rcases h2 with ⟨hw, ha, hb, -⟩ | ⟨-, h2⟩
    · exact absurd ⟨hw, ha, hb⟩ hn1
    · exact hc _ _ _ _ h1 h2

/-! ### a fold of writes with one flag -/

/-- the pair `(a, b)` is written by some call of the list -/
def Eff (l : List (Str × Str)) (g : PGraph Str) (a b : Str) : Prop := (a, b) ∈ l ∧ W g a b

theorem W_congr (g g' : PGraph Str) (h : g'.nodes = g.nodes) (s e : Str) : W g' s e ↔ W g s e := by
  unfold W; rw [h]

theorem edgeFold_gen (inh : Bool) (l : List (Str × Str)) (g : PGraph Str) (hc : Cons g) :
    Cons (l.foldl (fun g pc => createEdge none g pc.1 pc.2 inh) g) ∧
    ∀ a b f, E (l.foldl (fun g pc => createEdge none g pc.1 pc.2 inh) g) a b f ↔
      (Eff l g a b ∧ f = inh) ∨ (¬ Eff l g a b ∧ E g a b f) := by
  induction l generalizing g with
  | nil =>
    refine ⟨hc, fun a b f => ?_⟩
    simp [Eff]
  | cons p ps ih =>
    simp only [List.foldl_cons]
    obtain ⟨c1, h1⟩ := ih (createEdge none g p.1 p.2 inh) (createEdge_cons g hc _ _ _)
    refine ⟨c1, fun a b f => ?_⟩
    rw [h1, createEdge_gen g hc]
    have hw : ∀ s e, W (createEdge none g p.1 p.2 inh) s e ↔ W g s e :=
      W_congr _ _ (createEdge_nodes none g _ _ _)
    have heff : Eff (p :: ps) g a b ↔ (W g p.1 p.2 ∧ a = p.1 ∧ b = p.2) ∨ Eff ps (createEdge none g p.1 p.2 inh) a b := by
      unfold Eff
      rw [hw, List.mem_cons]
      constructor
      · rintro ⟨h | h, w⟩
        · left
          have h1 : a = p.1 := congrArg Prod.fst h
          have h2 : b = p.2 := congrArg Prod.snd h
          subst h1 h2; exact ⟨w, rfl, rfl⟩
        · exact Or.inr ⟨h, w⟩
      · rintro (⟨w, rfl, rfl⟩ | ⟨h, w⟩)
        · exact ⟨Or.inl rfl, w⟩
        · exact ⟨Or.inr h, w⟩
    rw [heff]
    have e3 : (W g p.1 p.2 ∧ a = p.1 ∧ b = p.2 ∧ f = inh) ↔ ((W g p.1 p.2 ∧ a = p.1 ∧ b = p.2) ∧ f = inh) := by
      simp only [and_assoc]
    rw [e3]
    generalize (W g p.1 p.2 ∧ a = p.1 ∧ b = p.2) = A
    generalize Eff ps (createEdge none g p.1 p.2 inh) a b = B
    by_cases hA : A <;> by_cases hB : B <;> simp [hA, hB]

/-! ### names: the prefix closure of a list of names, its rendered nodes and hierarchy pairs -/

/-- `c` is a non-empty prefix of a member of `ns` -/
def Cl (ns : List Name) (c : Name) : Prop := c ≠ [] ∧ ∃ m ∈ ns, c <+: m

def Q (ns : List Name) (s : Str) : Prop := ∃ c, Cl ns c ∧ s = render c

def HP (ns : List Name) (a b : Str) : Prop := ∃ c, Cl ns c ∧ 2 ≤ c.length ∧ a = render c.dropLast ∧ b = render c

theorem Cl_wf {ns : List Name} (hns : ∀ n ∈ ns, nameWF n = true) {c : Name} (h : Cl ns c) : nameWF c = true := by
  obtain ⟨hne, m, hm, hp⟩ := h
  exact nameWF_of_prefix (hns m hm) hne hp

theorem Cl_self {ns : List Name} (hns : ∀ n ∈ ns, nameWF n = true) {n : Name} (h : n ∈ ns) : Cl ns n :=
  ⟨nameWF_ne_nil (hns n h), n, h, List.prefix_refl n⟩

theorem Cl_take {ns : List Name} {c : Name} (h : Cl ns c) (k : Nat) (hk : 0 < k) : Cl ns (c.take k) := by
  obtain ⟨hne, m, hm, hp⟩ := h
  refine ⟨?_, m, hm, (List.take_prefix k c).trans hp⟩
  cases c with
  | nil => exact absurd rfl hne
  | cons x r =>
    cases k with
    | zero => omega
    | succ k => simp

theorem Cl_append (ns : List Name) (n c : Name) : Cl (ns ++ [n]) c ↔ Cl ns c ∨ (c ≠ [] ∧ c <+: n) := by
  unfold Cl
  constructor
  · rintro ⟨hne, m, hm, hp⟩
    rcases List.mem_append.1 hm with h | h
    · exact Or.inl ⟨hne, m, h, hp⟩
    · simp only [List.mem_singleton] at h; subst h; exact Or.inr ⟨hne, hp⟩
  · rintro (⟨hne, m, hm, hp⟩ | ⟨hne, hp⟩)
    · exact ⟨hne, m, List.mem_append_left _ hm, hp⟩
    · exact ⟨hne, n, by simp, hp⟩

theorem prefix_iff_take (c n : Name) : c <+: n ↔ ∃ k, k ≤ n.length ∧ c = n.take k := by
  constructor
  · intro h
    exact ⟨c.length, h.length_le, (List.prefix_iff_eq_take.1 h)⟩
  · rintro ⟨k, -, rfl⟩; exact List.take_prefix k n

/-- the chain of a rendered name: consecutive rendered prefixes -/
theorem mem_chain (n : Name) (hn : nameWF n = true) (a b : Str) :
    (a, b) ∈ consecutive (parentModules (render n) ++ [render n]) ↔
      ∃ k, 0 < k ∧ k < n.length ∧ a = render (n.take k) ∧ b = render (n.take (k + 1)) := by
  rw [parentModules_render n hn]
  have : List.map render (properPrefixes n) ++ [render n] = (properPrefixes n ++ [n]).map render := by simp
  rw [this, consecutive_map, List.mem_map]
  constructor
  · rintro ⟨q, hq, e⟩
    obtain ⟨k, h0, hk, rfl⟩ := (mem_consecutive_prefixes n (nameWF_ne_nil hn) q).1 hq
    simp only [Prod.mk.injEq] at e
    exact ⟨k, h0, hk, e.1.symm, e.2.symm⟩
  · rintro ⟨k, h0, hk, rfl, rfl⟩
    exact ⟨(n.take k, n.take (k + 1)), (mem_consecutive_prefixes n (nameWF_ne_nil hn) _).2 ⟨k, h0, hk, rfl⟩, rfl⟩

theorem take_ne_take_succ (n : Name) (k : Nat) (hk : k < n.length) : n.take k ≠ n.take (k + 1) := by
  intro h
  have := congrArg List.length h
  rw [List.length_take, List.length_take] at this
  omega

theorem dropLast_take_succ (n : Name) (k : Nat) (hk : k < n.length) : (n.take (k + 1)).dropLast = n.take k := by
  rw [List.dropLast_eq_take, List.take_take, List.length_take]
  congr 1; omega

/-- the hierarchy pairs contributed by the chain of `n` -/
theorem HP_append (ns : List Name) (n : Name) (a b : Str) :
    HP (ns ++ [n]) a b ↔ HP ns a b ∨
      ∃ k, 0 < k ∧ k < n.length ∧ a = render (n.take k) ∧ b = render (n.take (k + 1)) := by
  unfold HP
  constructor
  · rintro ⟨c, hc, hl, rfl, rfl⟩
    rcases (Cl_append ns n c).1 hc with h | ⟨-, hp⟩
    · exact Or.inl ⟨c, h, hl, rfl, rfl⟩
    · obtain ⟨k, hk, rfl⟩ := (prefix_iff_take c n).1 hp
      rw [List.length_take] at hl
      refine Or.inr ⟨k - 1, by omega, by omega, ?_, ?_⟩
      · have : k - 1 + 1 = k := by omega
        rw [← dropLast_take_succ n (k - 1) (by omega), this]
      · have : k - 1 + 1 = k := by omega
        rw [this]
  · rintro (⟨c, hc, hl, rfl, rfl⟩ | ⟨k, h0, hk, rfl, rfl⟩)
    · exact ⟨c, (Cl_append ns n c).2 (Or.inl hc), hl, rfl, rfl⟩
    · refine ⟨n.take (k + 1), (Cl_append ns n _).2 (Or.inr ⟨?_, List.take_prefix _ _⟩), ?_, ?_, rfl⟩
      · intro h
        have := congrArg List.length h
        rw [List.length_take, List.length_nil] at this
        omega
      · rw [List.length_take]; omega
      · rw [dropLast_take_succ n k hk]

theorem Q_append (ns : List Name) (n : Name) (hn : nameWF n = true) (s : Str) :
    Q (ns ++ [n]) s ↔ Q ns s ∨ s = render n ∨ ∃ p ∈ parentModules (render n), s = p := by
  unfold Q
  rw [parentModules_render n hn]
  simp only [List.mem_map, mem_properPrefixes]
  constructor
  · rintro ⟨c, hc, rfl⟩
    rcases (Cl_append ns n c).1 hc with h | ⟨hne, hp⟩
    · exact Or.inl ⟨c, h, rfl⟩
    · obtain ⟨k, hk, rfl⟩ := (prefix_iff_take c n).1 hp
      by_cases hkn : k = n.length
      · subst hkn; right; left; rw [List.take_length]
      · right; right
        refine ⟨_, ⟨_, ⟨k, ?_, by omega, rfl⟩, rfl⟩, rfl⟩
        cases k with
        | zero => simp at hne
        | succ k => omega
  · rintro (⟨c, hc, rfl⟩ | rfl | ⟨p, ⟨q, ⟨k, h0, hk, rfl⟩, rfl⟩, rfl⟩)
    · exact ⟨c, (Cl_append ns n c).2 (Or.inl hc), rfl⟩
    · exact ⟨n, (Cl_append ns n n).2 (Or.inr ⟨nameWF_ne_nil hn, List.prefix_refl n⟩), rfl⟩
    · refine ⟨n.take k, (Cl_append ns n _).2 (Or.inr ⟨?_, List.take_prefix _ _⟩), rfl⟩
      intro h
      have := congrArg List.length h
      rw [List.length_take, List.length_nil] at this
      omega

/-! ### phase 1: `addAllModules` -/

/-- the state after the modules `ns` were added: closure nodes, hierarchy edges only -/
structure ModInv (ns : List Name) (g : PGraph Str) : Prop where
  nodes : ∀ s, s ∈ g.nodes ↔ Q ns s
  edges : ∀ a b f, E g a b f ↔ f = true ∧ HP ns a b

theorem ModInv.cons {ns : List Name} {g : PGraph Str} (h : ModInv ns g) : Cons g := by
  intro a b f f' h1 h2
  rw [h.edges] at h1 h2
  exact h1.1.trans h2.1.symm

theorem modInv_empty : ModInv [] (PGraph.empty : PGraph Str) := by
  constructor
  · intro s
    constructor
    · intro h; cases h
    · rintro ⟨c, ⟨-, m, hm, -⟩, -⟩; cases hm
  · intro a b f
    constructor
    · intro h; cases h
    · rintro ⟨-, c, ⟨-, m, hm, -⟩, -⟩; cases hm

theorem nodeFold_none_nodes (ps : List Str) (g : PGraph Str) (s : Str) :
    s ∈ (ps.foldl (createNode none) g).nodes ↔ s ∈ g.nodes ∨ s ∈ ps := by
  rw [nodeFold_nodes]
  simp only [flattenNode, exists_eq_right']

theorem createNode_none_nodes (g : PGraph Str) (n s : Str) :
    s ∈ (createNode none g n).nodes ↔ s ∈ g.nodes ∨ s = n := createNode_nodes none g n s

theorem chain_W {ns : List Name} (hns : ∀ n ∈ ns, nameWF n = true) (g : PGraph Str)
    (hg : ∀ s, s ∈ g.nodes ↔ Q ns s) (n : Name) (hn : Cl ns n) (a b : Str)
    (h : (a, b) ∈ consecutive (parentModules (render n) ++ [render n])) : W g a b := by
  have wn := Cl_wf hns hn
  obtain ⟨k, h0, hk, rfl, rfl⟩ := (mem_chain n wn a b).1 h
  refine ⟨?_, (hg _).2 ⟨_, Cl_take hn k h0, rfl⟩, (hg _).2 ⟨_, Cl_take hn (k + 1) (by omega), rfl⟩⟩
  intro e
  exact take_ne_take_succ n k hk
    (render_injective _ _ (BuildNames.nameWF_take n wn k h0) (BuildNames.nameWF_take n wn (k + 1) (by omega)) e)

theorem step_module (ns : List Name) (hns : ∀ n ∈ ns, nameWF n = true) (g : PGraph Str) (hg : ModInv ns g)
    (n : Name) (hn : nameWF n = true) :
    ModInv (ns ++ [n]) (addHierarchy none (createNode none g (render n)) (parentModules (render n)) (render n)) := by
  have hns' : ∀ m ∈ ns ++ [n], nameWF m = true := by
    intro m hm
    rcases List.mem_append.1 hm with h | h
    · exact hns m h
    · simp only [List.mem_singleton] at h; subst h; exact hn
  have hcl : Cl (ns ++ [n]) n := Cl_self hns' (by simp)
  unfold addHierarchy
  simp only []
  have hnm : ∀ s, s ∈ ((parentModules (render n)).foldl (createNode none) (createNode none g (render n))).nodes ↔
      Q (ns ++ [n]) s := by
    intro s
    rw [nodeFold_none_nodes, createNode_none_nodes, hg.nodes, Q_append ns n hn]
    constructor
    · rintro ((h | h) | h)
      · exact Or.inl h
      · exact Or.inr (Or.inl h)
      · exact Or.inr (Or.inr ⟨s, h, rfl⟩)
    · rintro (h | h | ⟨p, hp, rfl⟩)
      · exact Or.inl (Or.inl h)
      · exact Or.inl (Or.inr h)
      · exact Or.inr hp
  have hem : ∀ a b f, E ((parentModules (render n)).foldl (createNode none) (createNode none g (render n))) a b f ↔
      E g a b f := by
    intro a b f
    unfold E
    rw [nodeFold_edges, createNode_edges]
  have hcm : Cons ((parentModules (render n)).foldl (createNode none) (createNode none g (render n))) := by
    intro a b f f' h1 h2
    rw [hem] at h1 h2
    exact hg.cons _ _ _ _ h1 h2
  obtain ⟨-, hE⟩ := edgeFold_gen true (consecutive (parentModules (render n) ++ [render n])) _ hcm
  constructor
  · intro s
    rw [edgeFold_nodes, hnm]
  · intro a b f
    rw [hE, hem, hg.edges, HP_append, ← mem_chain n hn]
    have heff : Eff (consecutive (parentModules (render n) ++ [render n]))
        ((parentModules (render n)).foldl (createNode none) (createNode none g (render n))) a b ↔
        (a, b) ∈ consecutive (parentModules (render n) ++ [render n]) :=
      ⟨fun h => h.1, fun h => ⟨h, chain_W hns' _ hnm n hcl a b h⟩⟩
    rw [heff]
    generalize ((a, b) ∈ consecutive (parentModules (render n) ++ [render n])) = A
    generalize HP ns a b = B
    by_cases hA : A <;> by_cases hB : B <;> simp [hA, hB]

theorem modules_fold (l : List Name) : ∀ (ns : List Name) (g : PGraph Str), (∀ n ∈ ns, nameWF n = true) →
    (∀ n ∈ l, nameWF n = true) → ModInv ns g →
    ModInv (ns ++ l) ((l.map render).foldl (fun g m => addHierarchy none (createNode none g m) (parentModules m) m) g) := by
  induction l with
  | nil => intro ns g _ _ hg; simpa using hg
  | cons n l ih =>
    intro ns g hns hl hg
    simp only [List.map_cons, List.foldl_cons]
    have hn := hl n List.mem_cons_self
    have := ih (ns ++ [n]) _ (by
      intro m hm
      rcases List.mem_append.1 hm with h | h
      · exact hns m h
      · simp only [List.mem_singleton] at h; subst h; exact hn)
      (fun m hm => hl m (List.mem_cons_of_mem _ hm)) (step_module ns hns g hg n hn)
    simpa [List.append_assoc] using this

theorem addAllModules_inv (ns : List Name) (hns : ∀ n ∈ ns, nameWF n = true) :
    ModInv ns (addAllModules none PGraph.empty (ns.map render)) := by
  have := modules_fold ns [] PGraph.empty (by intro n h; cases h) hns modInv_empty
  simpa [addAllModules] using this

/-! ### phase 2: the imports -/

/-- an import pair some processed record `importer → importee` accounts for: distinct ends, importee a node -/
def IP (ns : List Name) (proc : List (Name × Name)) (a b : Str) : Prop :=
  ∃ e ∈ proc, a = render e.1 ∧ b = render e.2 ∧ a ≠ b ∧ Q ns b

/-- the state after the imports `proc`: a pair that is a hierarchy pair stays a hierarchy edge -/
structure ImpInv (ns : List Name) (proc : List (Name × Name)) (g : PGraph Str) : Prop where
  nodes : ∀ s, s ∈ g.nodes ↔ Q ns s
  hier : ∀ a b, E g a b true ↔ HP ns a b
  imps : ∀ a b, E g a b false ↔ ¬ HP ns a b ∧ IP ns proc a b

theorem ImpInv.cons {ns : List Name} {proc : List (Name × Name)} {g : PGraph Str} (h : ImpInv ns proc g) : Cons g := by
  intro a b f f' h1 h2
  cases f <;> cases f' <;> try rfl
  · exact absurd ((h.hier a b).1 h2) ((h.imps a b).1 h1).1
  · exact absurd ((h.hier a b).1 h1) ((h.imps a b).1 h2).1

theorem ModInv.toImpInv {ns : List Name} {g : PGraph Str} (h : ModInv ns g) : ImpInv ns [] g := by
  refine ⟨h.nodes, fun a b => ?_, fun a b => ?_⟩
  · rw [h.edges]; simp
  · rw [h.edges]
    constructor
    · rintro ⟨h, -⟩; cases h
    · rintro ⟨-, e, he, -⟩; cases he

theorem nodeFold_of_mem (ps : List Str) (g : PGraph Str) (h : ∀ p ∈ ps, p ∈ g.nodes) :
    ps.foldl (createNode none) g = g := by
  induction ps with
  | nil => rfl
  | cons p ps ih =>
    have hp : createNode none g p = g := by
      unfold createNode
      simp only [flattenNode, (hasNode_iff g p).2 (h p List.mem_cons_self), if_true]
    rw [List.foldl_cons, hp]
    exact ih (fun q hq => h q (List.mem_cons_of_mem _ hq))

/-- a written pair of a chain is a hierarchy pair -/
theorem chain_Eff_HP {ns : List Name} (hns : ∀ n ∈ ns, nameWF n = true) (g : PGraph Str)
    (hg : ∀ s, s ∈ g.nodes ↔ Q ns s) (n : Name) (hn : nameWF n = true) (a b : Str)
    (h : Eff (consecutive (parentModules (render n) ++ [render n])) g a b) : HP ns a b := by
  obtain ⟨hm, -, -, hb⟩ := h
  obtain ⟨k, h0, hk, rfl, rfl⟩ := (mem_chain n hn a b).1 hm
  obtain ⟨c, hc, e⟩ := (hg _).1 hb
  have := render_injective _ _ (BuildNames.nameWF_take n hn (k + 1) (by omega)) (Cl_wf hns hc) e
  subst this
  exact ⟨_, hc, by rw [List.length_take]; omega, by rw [dropLast_take_succ n k hk], rfl⟩

/-- a hierarchy pair whose child is `render n` is written by the chain of `n` -/
theorem HP_chain_Eff {ns : List Name} (hns : ∀ n ∈ ns, nameWF n = true) (g : PGraph Str)
    (n : Name) (hn : nameWF n = true) (a : Str) (hw : W g a (render n)) (h : HP ns a (render n)) :
    Eff (consecutive (parentModules (render n) ++ [render n])) g a (render n) := by
  refine ⟨?_, hw⟩
  obtain ⟨c, hc, hl, rfl, e⟩ := h
  have := render_injective _ _ hn (Cl_wf hns hc) e
  subst this
  refine (mem_chain n hn _ _).2 ⟨n.length - 1, by omega, by omega, ?_, ?_⟩
  · rw [List.dropLast_eq_take]
  · have : n.length - 1 + 1 = n.length := by omega
    rw [this, List.take_length]

theorem IP_append (ns : List Name) (proc : List (Name × Name)) (e : Name × Name) (a b : Str) :
    IP ns (proc ++ [e]) a b ↔ IP ns proc a b ∨ (a = render e.1 ∧ b = render e.2 ∧ a ≠ b ∧ Q ns b) := by
  unfold IP
  constructor
  · rintro ⟨e', he', h⟩
    rcases List.mem_append.1 he' with h' | h'
    · exact Or.inl ⟨e', h', h⟩
    · simp only [List.mem_singleton] at h'; subst h'; exact Or.inr h
  · rintro (⟨e', he', h⟩ | h)
    · exact ⟨e', List.mem_append_left _ he', h⟩
    · exact ⟨e, by simp, h⟩

theorem step_import (ns : List Name) (hns : ∀ n ∈ ns, nameWF n = true) (proc : List (Name × Name))
    (g : PGraph Str) (hg : ImpInv ns proc g) (e : Name × Name) (h1 : e.1 ∈ ns) (h2 : nameWF e.2 = true) :
    ImpInv ns (proc ++ [e]) (addImport₀ none g (absImport (render e.1) (render e.2))) := by
  have w1 := hns _ h1
  have hcl1 : Cl ns e.1 := Cl_self hns h1
  unfold addImport₀ absImport addHierarchy
  simp only []
  -- the import edge
  have hc1 := createEdge_cons g hg.cons (render e.1) (render e.2) false
  have hn1 := createEdge_nodes none g (render e.1) (render e.2) false
  have hE1 := createEdge_gen g hg.cons (render e.1) (render e.2) false
  -- the importer's parents are nodes already
  have hpar : ∀ p ∈ parentModules (render e.1), p ∈ (createEdge none g (render e.1) (render e.2) false).nodes := by
    intro p hp
    rw [hn1, hg.nodes, parentModules_render _ w1] at *
    obtain ⟨q, hq, rfl⟩ := List.mem_map.1 hp
    obtain ⟨k, h0, hk, rfl⟩ := (mem_properPrefixes e.1 q).1 hq
    exact ⟨_, Cl_take hcl1 k h0, rfl⟩
  rw [nodeFold_of_mem _ _ hpar]
  -- the importer's chain
  obtain ⟨hc2, hE2⟩ := edgeFold_gen true (consecutive (parentModules (render e.1) ++ [render e.1])) _ hc1
  have hn2 := edgeFold_nodes none true (consecutive (parentModules (render e.1) ++ [render e.1]))
    (createEdge none g (render e.1) (render e.2) false)
  -- the importee's chain
  obtain ⟨-, hE3⟩ := edgeFold_gen true (consecutive (parentModules (render e.2) ++ [render e.2])) _ hc2
  have hn3 := edgeFold_nodes none true (consecutive (parentModules (render e.2) ++ [render e.2]))
    ((consecutive (parentModules (render e.1) ++ [render e.1])).foldl
      (fun g pc => createEdge none g pc.1 pc.2 true) (createEdge none g (render e.1) (render e.2) false))
  have hnodes1 : ∀ s, s ∈ (createEdge none g (render e.1) (render e.2) false).nodes ↔ Q ns s := by
    intro s; rw [hn1]; exact hg.nodes s
  have hnodes2 : ∀ s, s ∈ ((consecutive (parentModules (render e.1) ++ [render e.1])).foldl
      (fun g pc => createEdge none g pc.1 pc.2 true) (createEdge none g (render e.1) (render e.2) false)).nodes ↔
      Q ns s := by
    intro s; rw [hn2]; exact hnodes1 s
  have K1 : ∀ a b, Eff (consecutive (parentModules (render e.1) ++ [render e.1]))
      (createEdge none g (render e.1) (render e.2) false) a b → HP ns a b :=
    fun a b => chain_Eff_HP hns _ hnodes1 e.1 w1 a b
  have K2 : ∀ a b, Eff (consecutive (parentModules (render e.2) ++ [render e.2]))
      ((consecutive (parentModules (render e.1) ++ [render e.1])).foldl
        (fun g pc => createEdge none g pc.1 pc.2 true) (createEdge none g (render e.1) (render e.2) false)) a b →
      HP ns a b :=
    fun a b => chain_Eff_HP hns _ hnodes2 e.2 h2 a b
  have K3 : W g (render e.1) (render e.2) → HP ns (render e.1) (render e.2) →
      Eff (consecutive (parentModules (render e.2) ++ [render e.2]))
      ((consecutive (parentModules (render e.1) ++ [render e.1])).foldl
        (fun g pc => createEdge none g pc.1 pc.2 true) (createEdge none g (render e.1) (render e.2) false))
      (render e.1) (render e.2) := by
    intro hw hp
    apply HP_chain_Eff hns _ e.2 h2 _ _ hp
    exact (W_congr g _ (hn2.trans hn1) _ _).2 hw
  refine ⟨fun s => by rw [hn3]; exact hnodes2 s, fun a b => ?_, fun a b => ?_⟩
  · -- hierarchy edges
    rw [hE3, hE2, hE1]
    constructor
    · rintro (⟨h, -⟩ | ⟨-, ⟨h, -⟩ | ⟨-, ⟨-, -, -, h⟩ | ⟨-, h⟩⟩⟩)
      · exact K2 a b h
      · exact K1 a b h
      · cases h
      · exact (hg.hier a b).1 h
    · intro hp
      by_cases hB : Eff (consecutive (parentModules (render e.2) ++ [render e.2]))
        ((consecutive (parentModules (render e.1) ++ [render e.1])).foldl
          (fun g pc => createEdge none g pc.1 pc.2 true) (createEdge none g (render e.1) (render e.2) false)) a b
      · exact Or.inl ⟨hB, rfl⟩
      · refine Or.inr ⟨hB, ?_⟩
        by_cases hA : Eff (consecutive (parentModules (render e.1) ++ [render e.1]))
          (createEdge none g (render e.1) (render e.2) false) a b
        · exact Or.inl ⟨hA, rfl⟩
        · refine Or.inr ⟨hA, Or.inr ⟨?_, (hg.hier a b).2 hp⟩⟩
          rintro ⟨hw, rfl, rfl⟩
          exact hB (K3 hw hp)
  · -- import edges
    rw [hE3, hE2, hE1, IP_append]
    constructor
    · rintro (⟨-, h⟩ | ⟨hB, ⟨-, h⟩ | ⟨-, ⟨hw, rfl, rfl, -⟩ | ⟨-, h⟩⟩⟩)
      · cases h
      · cases h
      · refine ⟨fun hp => hB (K3 hw hp), Or.inr ⟨rfl, rfl, hw.1, (hg.nodes _).1 hw.2.2⟩⟩
      · obtain ⟨h3, h4⟩ := (hg.imps a b).1 h
        exact ⟨h3, Or.inl h4⟩
    · rintro ⟨hnp, hip⟩
      refine Or.inr ⟨fun h => hnp (K2 a b h), Or.inr ⟨fun h => hnp (K1 a b h), ?_⟩⟩
      by_cases hC : W g (render e.1) (render e.2) ∧ a = render e.1 ∧ b = render e.2
      · exact Or.inl ⟨hC.1, hC.2.1, hC.2.2, rfl⟩
      · refine Or.inr ⟨hC, ?_⟩
        rcases hip with h | ⟨rfl, rfl, hne, hq⟩
        · exact (hg.imps a b).2 ⟨hnp, h⟩
        · exact absurd ⟨⟨hne, (hg.nodes _).2 ⟨_, hcl1, rfl⟩, (hg.nodes _).2 hq⟩, rfl, rfl⟩ hC

theorem imports_fold (ns : List Name) (hns : ∀ n ∈ ns, nameWF n = true) (l : List (Name × Name)) :
    ∀ (proc : List (Name × Name)) (g : PGraph Str), (∀ e ∈ l, e.1 ∈ ns ∧ nameWF e.2 = true) → ImpInv ns proc g →
    ImpInv ns (proc ++ l) ((l.map fun e => absImport (render e.1) (render e.2)).foldl (addImport₀ none) g) := by
  induction l with
  | nil => intro proc g _ hg; simpa using hg
  | cons e l ih =>
    intro proc g hl hg
    simp only [List.map_cons, List.foldl_cons]
    have he := hl e List.mem_cons_self
    have := ih (proc ++ [e]) _ (fun x hx => hl x (List.mem_cons_of_mem _ hx))
      (step_import ns hns proc g hg e he.1 he.2)
    simpa [List.append_assoc] using this

/-- the graph built from the modules `ns` and arbitrary import records with well-formed importees -/
theorem buildGraph_inv (ns : List Name) (hns : ∀ n ∈ ns, nameWF n = true) (raw : List (Name × Name))
    (hraw : ∀ e ∈ raw, e.1 ∈ ns ∧ nameWF e.2 = true) :
    ImpInv ns raw (buildGraph (ns.map render) (raw.map fun e => absImport (render e.1) (render e.2)) none) := by
  have := imports_fold ns hns raw [] _ hraw (addAllModules_inv ns hns).toImpInv
  simpa [buildGraph, addImport_none_fun] using this

/-! ### module lists given as sets -/

theorem Cl_congr {ns ns' : List Name} (h : ∀ n, n ∈ ns ↔ n ∈ ns') (c : Name) : Cl ns c ↔ Cl ns' c := by
  unfold Cl
  constructor
  · rintro ⟨hne, m, hm, hp⟩; exact ⟨hne, m, (h m).1 hm, hp⟩
  · rintro ⟨hne, m, hm, hp⟩; exact ⟨hne, m, (h m).2 hm, hp⟩

theorem Q_congr {ns ns' : List Name} (h : ∀ n, n ∈ ns ↔ n ∈ ns') (s : Str) : Q ns s ↔ Q ns' s := by
  unfold Q
  constructor
  · rintro ⟨c, hc, e⟩; exact ⟨c, (Cl_congr h c).1 hc, e⟩
  · rintro ⟨c, hc, e⟩; exact ⟨c, (Cl_congr h c).2 hc, e⟩

theorem HP_congr {ns ns' : List Name} (h : ∀ n, n ∈ ns ↔ n ∈ ns') (a b : Str) : HP ns a b ↔ HP ns' a b := by
  unfold HP
  constructor
  · rintro ⟨c, hc, e⟩; exact ⟨c, (Cl_congr h c).1 hc, e⟩
  · rintro ⟨c, hc, e⟩; exact ⟨c, (Cl_congr h c).2 hc, e⟩

theorem IP_congr {ns ns' : List Name} (h : ∀ n, n ∈ ns ↔ n ∈ ns') (proc : List (Name × Name)) (a b : Str) :
    IP ns proc a b ↔ IP ns' proc a b := by
  unfold IP
  constructor
  · rintro ⟨e, he, h1, h2, h3, h4⟩; exact ⟨e, he, h1, h2, h3, (Q_congr h b).1 h4⟩
  · rintro ⟨e, he, h1, h2, h3, h4⟩; exact ⟨e, he, h1, h2, h3, (Q_congr h b).2 h4⟩

theorem ImpInv_congr {ns ns' : List Name} (h : ∀ n, n ∈ ns ↔ n ∈ ns') (proc : List (Name × Name)) (g : PGraph Str)
    (hg : ImpInv ns proc g) : ImpInv ns' proc g := by
  refine ⟨fun s => ?_, fun a b => ?_, fun a b => ?_⟩
  · rw [hg.nodes, Q_congr h]
  · rw [hg.hier, HP_congr h]
  · rw [hg.imps, HP_congr h, IP_congr h]

/-- the same with the module strings known only as a set: `mods` is (as a set) the rendering of `own` -/
theorem buildGraph_inv_set (own : List Name) (hown : ∀ n ∈ own, nameWF n = true) (mods : List Str)
    (hm : ∀ s, s ∈ mods ↔ ∃ n ∈ own, s = render n) (raw : List (Name × Name))
    (hraw : ∀ e ∈ raw, e.1 ∈ own ∧ nameWF e.2 = true) :
    ImpInv own raw (buildGraph mods (raw.map fun e => absImport (render e.1) (render e.2)) none) := by
  have hmem : ∀ n, n ∈ mods.map splitDots ↔ n ∈ own := by
    intro n
    rw [List.mem_map]
    constructor
    · rintro ⟨s, hs, rfl⟩
      obtain ⟨m, hm', rfl⟩ := (hm s).1 hs
      rw [splitDots_render m (hown m hm')]; exact hm'
    · intro hn
      exact ⟨render n, (hm _).2 ⟨n, hn, rfl⟩, splitDots_render n (hown n hn)⟩
  have hmods : (mods.map splitDots).map render = mods := by
    rw [List.map_map]
    conv => rhs; rw [← List.map_id mods]
    apply List.map_congr_left
    intro s _
    exact ScanStmt.render_splitDots s
  have h := buildGraph_inv (mods.map splitDots) (fun n hn => hown n ((hmem n).1 hn)) raw
    (fun e he => ⟨(hmem _).2 (hraw e he).1, (hraw e he).2⟩)
  rw [hmods] at h
  exact ImpInv_congr hmem raw _ h

/-! ### reading the graph -/

theorem mem_importPairs (g : PGraph Str) (u v : Str) : (u, v) ∈ g.importPairs ↔ E g u v false := by
  unfold PGraph.importPairs E
  simp only [List.mem_map, List.mem_filter, Bool.not_eq_true', Prod.mk.injEq]
  constructor
  · rintro ⟨⟨s, d, i⟩, ⟨hm, hi⟩, h1, h2⟩
    simp only at hi h1 h2
    subst hi h1 h2
    exact hm
  · intro h
    exact ⟨_, ⟨h, rfl⟩, rfl, rfl⟩

theorem mem_hierPairs (g : PGraph Str) (u v : Str) : (u, v) ∈ g.hierPairs ↔ E g u v true := by
  unfold PGraph.hierPairs E
  simp only [List.mem_map, List.mem_filter, Prod.mk.injEq]
  constructor
  · rintro ⟨⟨s, d, i⟩, ⟨hm, hi⟩, h1, h2⟩
    simp only at hi h1 h2
    subst hi h1 h2
    exact hm
  · intro h
    exact ⟨_, ⟨h, rfl⟩, rfl, rfl⟩

end BuildImports
end Pta
