/-
  PtaProofs.Lemmas.DiagramSem — the rules generated from a diagram, one by one, are strict rules in the sense of
  C01; their verdicts on the architecture's graph add up to `conforms` (property C07, part 2).
-/
import Bridge.Abs
import Bridge.Diagram
import PtaProofs.Lemmas.Semantics
import PtaProofs.Lemmas.GlobLabel
import PtaProofs.Lemmas.DiagramApply
namespace Pta.Dg
open Pta PtaSpec

/-! ### the `addDep` fold groups pairs by key -/

/-- `G` groups `pairs`: every entry lists exactly the partners of its key, without repetition -/
structure Groups (pairs : List (Str × Str)) (G : List (Str × List Str)) : Prop where
  sound : ∀ kv ∈ G, kv.2 ≠ [] ∧ kv.2.Nodup ∧ ∀ v, v ∈ kv.2 ↔ (kv.1, v) ∈ pairs
  complete : ∀ p ∈ pairs, ∃ kv ∈ G, kv.1 = p.1

theorem groups_addDep (pairs : List (Str × Str)) (G : List (Str × List Str)) (h : Groups pairs G) (k v : Str) :
    Groups (pairs ++ [(k, v)]) (addDep G k v) := by
  unfold addDep
  by_cases hk : (G.any fun e => e.1 == k) = true
  · rw [if_pos hk]
    constructor
    · intro kv hkv
      rw [List.mem_map] at hkv
      obtain ⟨e, he, rfl⟩ := hkv
      obtain ⟨h1, h2, h3⟩ := h.sound e he
      by_cases hek : (e.1 == k) = true
      · rw [if_pos hek]
        have hek' : e.1 = k := by simpa using hek
        by_cases hc : e.2.contains v = true
        · rw [if_pos hc]
          refine ⟨h1, h2, fun v' => ?_⟩
          simp only [List.mem_append, List.mem_singleton, Prod.mk.injEq]
          rw [h3 v']
          constructor
          · exact Or.inl
          · rintro (h' | ⟨_, rfl⟩)
            · exact h'
            · exact (h3 _).1 (by simpa using hc)
        · rw [if_neg hc]
          have hc' : v ∉ e.2 := by simpa using hc
          refine ⟨by simp, ?_, fun v' => ?_⟩
          · rw [List.nodup_append]
            refine ⟨h2, by simp, ?_⟩
            intro a ha b hb
            rw [List.mem_singleton] at hb
            subst hb
            intro e'; subst e'; exact hc' ha
          · simp only [List.mem_append, List.mem_singleton, Prod.mk.injEq]
            rw [h3 v']
            constructor
            · rintro (h' | rfl)
              · exact Or.inl h'
              · exact Or.inr ⟨hek', rfl⟩
            · rintro (h' | ⟨_, rfl⟩)
              · exact Or.inl h'
              · exact Or.inr rfl
      · rw [if_neg hek]
        have hek' : e.1 ≠ k := by simpa using hek
        refine ⟨h1, h2, fun v' => ?_⟩
        simp only [List.mem_append, List.mem_singleton, Prod.mk.injEq]
        rw [h3 v']
        constructor
        · exact Or.inl
        · rintro (h' | ⟨e', _⟩)
          · exact h'
          · exact absurd e' hek'
    · intro p hp
      have key : ∀ e ∈ G, ∃ kv ∈ G.map (fun e => if (e.1 == k) = true then
          (e.1, if e.2.contains v = true then e.2 else e.2 ++ [v]) else e), kv.1 = e.1 := by
        intro e he
        refine ⟨_, List.mem_map_of_mem he, ?_⟩
        split <;> rfl
      rcases List.mem_append.1 hp with hp | hp
      · obtain ⟨e, he, h1⟩ := h.complete p hp
        obtain ⟨kv, hkv, h2⟩ := key e he
        exact ⟨kv, hkv, h2.trans h1⟩
      · rw [List.mem_singleton] at hp
        subst hp
        rw [List.any_eq_true] at hk
        obtain ⟨e, he, h1⟩ := hk
        obtain ⟨kv, hkv, h2⟩ := key e he
        exact ⟨kv, hkv, h2.trans (by simpa using h1)⟩
  · rw [if_neg hk]
    have hk' : ∀ e ∈ G, e.1 ≠ k := by
      intro e he hek
      apply hk
      rw [List.any_eq_true]
      exact ⟨e, he, by simpa using hek⟩
    constructor
    · intro kv hkv
      rcases List.mem_append.1 hkv with hkv | hkv
      · obtain ⟨h1, h2, h3⟩ := h.sound kv hkv
        refine ⟨h1, h2, fun v' => ?_⟩
        simp only [List.mem_append, List.mem_singleton, Prod.mk.injEq]
        rw [h3 v']
        constructor
        · exact Or.inl
        · rintro (h' | ⟨e', _⟩)
          · exact h'
          · exact absurd e' (hk' kv hkv)
      · rw [List.mem_singleton] at hkv
        subst hkv
        refine ⟨by simp, by simp, fun v' => ?_⟩
        simp only [List.mem_append, List.mem_singleton, Prod.mk.injEq, true_and]
        constructor
        · exact Or.inr
        · rintro (h' | h')
          · obtain ⟨e, he, h1⟩ := h.complete _ h'
            exact absurd h1 (hk' e he)
          · exact h'
    · intro p hp
      rcases List.mem_append.1 hp with hp | hp
      · obtain ⟨e, he, h1⟩ := h.complete p hp
        exact ⟨e, List.mem_append_left _ he, h1⟩
      · rw [List.mem_singleton] at hp
        subst hp
        exact ⟨(k, [v]), by simp, rfl⟩

theorem groups_foldl (rest done : List (Str × Str)) (G : List (Str × List Str)) (h : Groups done G) :
    Groups (done ++ rest) (rest.foldl (fun acc d => addDep acc d.1 d.2) G) := by
  induction rest generalizing done G with
  | nil => simpa using h
  | cons p rest ih =>
    have := ih (done ++ [(p.1, p.2)]) _ (groups_addDep done G h p.1 p.2)
    simpa using this

theorem groups_of_fold (pairs : List (Str × Str)) :
    Groups pairs (pairs.foldl (fun acc d => addDep acc d.1 d.2) []) := by
  have := groups_foldl pairs [] [] ⟨by simp, by simp⟩
  simpa using this

/-- the dependencies of `parsedOf d` group the rendered arrows -/
theorem groups_parsedOf (d : Diagram) :
    Groups (d.arrows.map fun e => (render e.1, render e.2)) (parsedOf d).dependencies := by
  have := groups_of_fold (d.arrows.map fun e => (render e.1, render e.2))
  rw [List.foldl_map] at this
  exact this

/-- what `find?` returns for a key: exactly the partners of the key -/
theorem mem_importedOf (p : Parsed') (pairs : List (Str × Str)) (h : Groups pairs p.dependencies) (m v : Str) :
    v ∈ importedOf p m ↔ (m, v) ∈ pairs := by
  unfold importedOf
  cases hf : p.dependencies.find? (fun kv => kv.1 == m) with
  | some kv =>
    have hmem := List.mem_of_find?_eq_some hf
    have hk : kv.1 = m := by simpa using List.find?_some hf
    rw [← hk]
    exact (h.sound kv hmem).2.2 v
  | none =>
    simp only [List.not_mem_nil, false_iff]
    intro hp
    obtain ⟨kv, hkv, h1⟩ := h.complete _ hp
    have := List.find?_eq_none.1 hf kv hkv
    simp at this
    exact this h1

/-! ### the two shapes of generated rules, as specification rules -/

def shouldSpec (so : Bool) (x : Name) (T : List Name) : RuleSpec :=
  { verb := if so then .shouldOnly else .should, importDir := true, exc := false,
    subjects := [.named x], objects := T.map .named }

def shouldNotSpec (x : Name) (T : List Name) : RuleSpec :=
  { verb := .shouldNot, importDir := true, exc := false, subjects := [.named x], objects := T.map .named }

theorem compile_shouldSpec (so : Bool) (x : Name) (T : List Name) :
    compile (shouldSpec so x T) = mkD (render x) (T.map render) (shouldVerb so) := by
  cases so <;> simp [compile, shouldSpec, mkD, shouldVerb, compileFilter, List.map_map, Function.comp_def] <;>
    decide

theorem compile_shouldNotSpec (x : Name) (T : List Name) :
    compile (shouldNotSpec x T) = mkD (render x) (T.map render) .shouldNot := by
  simp [compile, shouldNotSpec, mkD, compileFilter, List.map_map, Function.comp_def]
  decide

/-- no import of `x` leaves `x` and the targets `T` -/
def noOther (a : Arch) (x : Name) (T : List Name) : Bool :=
  a.imports.all fun e => !desc x e.1 || desc x e.2 || T.any fun t => desc t e.2

theorem filter_isEmpty {α : Type} (l : List α) (p : α → Bool) : (l.filter p).isEmpty = !l.any p := by
  rw [Bool.eq_iff_iff]
  simp [List.isEmpty_iff, List.filter_eq_nil_iff]

theorem edges_named_isEmpty (a : Arch) (x t : Name) :
    (edges a true (.named x) (.named t)).isEmpty = !importsBetween a x t := by
  simp only [edges, if_true, SFilter.mem, filter_isEmpty, importsBetween]

theorem others_named_isEmpty (a : Arch) (x : Name) (T : List Name) :
    (others a true (.named x) (T.map .named)).isEmpty = noOther a x T := by
  simp only [others, if_true, SFilter.mem, SFilter.id, filter_isEmpty, noOther]
  rw [Bool.eq_iff_iff]
  simp only [Bool.not_eq_true', List.any_eq_false, List.all_eq_true, List.mem_map, Bool.and_eq_true,
    Bool.or_eq_true, List.any_eq_true, forall_exists_index, and_imp, not_and,
    forall_apply_eq_imp_iff₂]
  constructor
  · intro h e he
    by_cases h1 : desc x e.1 = true
    · by_cases h2 : desc x e.2 = true
      · exact Or.inl (Or.inr h2)
      · right
        have := h e he h1 (by simpa using h2)
        simpa using this
    · exact Or.inl (Or.inl (by simpa using h1))
  · intro h e he h1 h2 h3
    rcases h e he with (h' | h') | ⟨t, ht, h'⟩
    · rw [h1] at h'; cases h'
    · rw [h2] at h'; cases h'
    · rw [h3 t ht] at h'; cases h'

theorem verdict_shouldSpec (a : Arch) (so : Bool) (x : Name) (T : List Name) :
    verdict a (shouldSpec so x T) = (T.all (importsBetween a x) && (!so || noOther a x T)) := by
  cases so <;>
    simp [verdict, shouldSpec, RuleSpec.effObjects, RuleSpec.effExc, edges_named_isEmpty, others_named_isEmpty,
      List.all_map, Function.comp_def]

theorem verdict_shouldNotSpec (a : Arch) (x : Name) (T : List Name) :
    verdict a (shouldNotSpec x T) = T.all fun t => !importsBetween a x t := by
  simp [verdict, shouldNotSpec, RuleSpec.effObjects, RuleSpec.effExc, edges_named_isEmpty,
    List.all_map, Function.comp_def]

/-! ### list facts: sorting and de-duplication keep `Nodup`; pairwise unrelated sub-selections -/

theorem insertBy_perm {α : Type} (le : α → α → Bool) (x : α) (l : List α) : (insertBy le x l).Perm (x :: l) := by
  induction l with
  | nil => exact List.Perm.refl _
  | cons y ys ih =>
    unfold insertBy
    split
    · exact List.Perm.refl _
    · exact (List.Perm.cons y ih).trans (List.Perm.swap x y ys)

theorem sortBy_perm {α : Type} (le : α → α → Bool) (l : List α) : (sortBy le l).Perm l := by
  induction l with
  | nil => exact List.Perm.refl _
  | cons x xs ih => exact (insertBy_perm le x _).trans (List.Perm.cons x ih)

theorem nodup_sortStr (l : List Str) (h : l.Nodup) : (sortStr l).Nodup :=
  (sortBy_perm strLe l).nodup_iff.2 h

theorem mem_sortStr (z : Str) (l : List Str) : z ∈ sortStr l ↔ z ∈ l := (sortBy_perm strLe l).mem_iff

theorem nodup_dedup {α : Type} [DecidableEq α] (l : List α) : (dedup l).Nodup := by
  induction l with
  | nil => simp [dedup]
  | cons x xs ih =>
    simp only [dedup]
    split
    · exact ih
    · rename_i hx; exact List.nodup_cons.2 ⟨hx, ih⟩

theorem nodupB_iff' (l : List Name) : nodupB l = true ↔ l.Nodup := by
  induction l with
  | nil => simp [nodupB]
  | cons x xs ih => simp [nodupB, ih, List.nodup_cons]

theorem related_comm (a b : Name) : related a b = related b a := Bool.or_comm _ _

theorem pu_forall (C : List Name) (h : pairwiseUnrelated C = true) :
    ∀ a ∈ C, ∀ b ∈ C, a ≠ b → related a b = false := by
  induction C with
  | nil => intro a ha; cases ha
  | cons c C ih =>
    simp only [pairwiseUnrelated, Bool.and_eq_true, List.all_eq_true, Bool.not_eq_true'] at h
    intro a ha b hb hab
    rcases List.mem_cons.1 ha with rfl | ha' <;> rcases List.mem_cons.1 hb with rfl | hb'
    · exact absurd rfl hab
    · exact h.1 b hb'
    · rw [related_comm]; exact h.1 a ha'
    · exact ih h.2 a ha' b hb' hab

theorem pu_of_forall (T : List Name) (hn : T.Nodup)
    (h : ∀ a ∈ T, ∀ b ∈ T, a ≠ b → related a b = false) : pairwiseUnrelated T = true := by
  induction T with
  | nil => rfl
  | cons t T ih =>
    rw [List.nodup_cons] at hn
    simp only [pairwiseUnrelated, Bool.and_eq_true, List.all_eq_true, Bool.not_eq_true']
    refine ⟨fun y hy => h t (by simp) y (by simp [hy]) ?_, ih hn.2 fun a ha b hb => h a (by simp [ha]) b (by simp [hb])⟩
    rintro rfl
    exact hn.1 hy

theorem pu_select (C T : List Name) (h : pairwiseUnrelated C = true) (hn : T.Nodup) (hT : ∀ t ∈ T, t ∈ C) :
    pairwiseUnrelated T = true :=
  pu_of_forall T hn fun a ha b hb => pu_forall C h a (hT a ha) b (hT b hb)

/-- strings that are all renderings of listed names can be read back as a list of such names -/
theorem lift_names (C : List Name) (L : List Str) (hL : ∀ s ∈ L, ∃ c ∈ C, s = render c) :
    ∃ T : List Name, T.map render = L ∧ ∀ t ∈ T, t ∈ C := by
  induction L with
  | nil => exact ⟨[], rfl, by simp⟩
  | cons s L ih =>
    obtain ⟨T, h1, h2⟩ := ih fun s hs => hL s (by simp [hs])
    obtain ⟨c, hc, rfl⟩ := hL s (by simp)
    refine ⟨c :: T, by simp [h1], ?_⟩
    intro t ht
    rcases List.mem_cons.1 ht with rfl | ht
    · exact hc
    · exact h2 t ht

theorem nodup_of_map_render (T : List Name) (h : (T.map render).Nodup) : T.Nodup := by
  unfold List.Nodup at h ⊢
  rw [List.pairwise_map] at h
  exact h.imp fun hne e => hne (by rw [e])

/-! ### the domain of C07, unpacked -/

structure Dom (a : Arch) (d : Diagram) : Prop where
  wf : a.wf = true
  nodup : d.components.Nodup
  unrel : pairwiseUnrelated d.components = true
  nodes : ∀ c ∈ d.components, c ∈ a.nodes
  arr : ∀ e ∈ d.arrows, e.1 ∈ d.components ∧ e.2 ∈ d.components ∧ e.1 ≠ e.2

theorem dom_of (a : Arch) (d : Diagram) (h : diagramDomain a d = true) : Dom a d := by
  unfold diagramDomain at h
  simp only [Bool.and_eq_true, List.all_eq_true, List.contains_iff_mem, bne_iff_ne, ne_eq, nodupB_iff'] at h
  obtain ⟨⟨⟨⟨h1, h2⟩, h3⟩, h4⟩, h5⟩ := h
  exact ⟨h1, h2, h3, h4, fun e he => ⟨(h5 e he).1.1, (h5 e he).1.2, (h5 e he).2⟩⟩

theorem Dom.nwf {a : Arch} {d : Diagram} (hd : Dom a d) : ∀ c ∈ d.components, nameWF c = true :=
  fun c hc => (archWF_of_wf a hd.wf).nwf c (hd.nodes c hc)

theorem Dom.inj {a : Arch} {d : Diagram} (hd : Dom a d) :
    ∀ x ∈ d.components, ∀ y ∈ d.components, render x = render y → x = y :=
  fun x hx y hy h => render_injective x y (hd.nwf x hx) (hd.nwf y hy) h

/-! ### each generated rule is a strict rule over existing names: C01 applies -/

section rules
variable {a : Arch} {d : Diagram} (hd : Dom a d) {g : PGraph Str} (hg : GraphOf a g)
include hd hg

omit hd hg in
theorem sel_cons (C : List Name) (x : Name) (T : List Name) (hx : x ∈ C) (hT : ∀ t ∈ T, t ∈ C) :
    ∀ t ∈ x :: T, t ∈ C := by
  intro t ht
  rcases List.mem_cons.1 ht with rfl | ht
  · exact hx
  · exact hT t ht

omit hg in
theorem shouldSpec_strict (so : Bool) (x : Name) (T : List Name) (hx : x ∈ d.components)
    (hT : ∀ t ∈ T, t ∈ d.components) (hn : (x :: T).Nodup) : (shouldSpec so x T).strict = true := by
  have : (shouldSpec so x T).strict = pairwiseUnrelated (x :: T) := by
    simp [RuleSpec.strict, shouldSpec, List.map_map, Function.comp_def, SFilter.id]
  rw [this]
  exact pu_select _ _ hd.unrel hn (sel_cons _ x T hx hT)

omit hg in
theorem shouldSpec_namesIn (so : Bool) (x : Name) (T : List Name) (hx : x ∈ d.components)
    (hT : ∀ t ∈ T, t ∈ d.components) : (shouldSpec so x T).namesIn a = true := by
  simp only [RuleSpec.namesIn, RuleSpec.effObjects, shouldSpec, Bool.false_eq_true, if_false,
    List.all_eq_true, List.contains_iff_mem, List.mem_append, List.mem_singleton, List.mem_map]
  rintro f (rfl | ⟨t, ht, rfl⟩)
  · exact hd.nodes _ hx
  · exact hd.nodes _ (hT t ht)

omit hg in
theorem shouldNotSpec_strict (x : Name) (T : List Name) (hx : x ∈ d.components)
    (hT : ∀ t ∈ T, t ∈ d.components) (hn : (x :: T).Nodup) : (shouldNotSpec x T).strict = true := by
  have : (shouldNotSpec x T).strict = pairwiseUnrelated (x :: T) := by
    simp [RuleSpec.strict, shouldNotSpec, List.map_map, Function.comp_def, SFilter.id]
  rw [this]
  exact pu_select _ _ hd.unrel hn (sel_cons _ x T hx hT)

omit hg in
theorem shouldNotSpec_namesIn (x : Name) (T : List Name) (hx : x ∈ d.components)
    (hT : ∀ t ∈ T, t ∈ d.components) : (shouldNotSpec x T).namesIn a = true := by
  simp only [RuleSpec.namesIn, RuleSpec.effObjects, shouldNotSpec, Bool.false_eq_true, if_false,
    List.all_eq_true, List.contains_iff_mem, List.mem_append, List.mem_singleton, List.mem_map]
  rintro f (rfl | ⟨t, ht, rfl⟩)
  · exact hd.nodes _ hx
  · exact hd.nodes _ (hT t ht)

theorem verdictOf_should (mt : Str → Str → Bool) (so : Bool) (x : Name) (T : List Name) (hx : x ∈ d.components)
    (hT : ∀ t ∈ T, t ∈ d.components) (hn : (x :: T).Nodup) (hne : T ≠ []) :
    verdictOf mt g (mkD (render x) (T.map render) (shouldVerb so)) =
      VClass.ofBool (T.all (importsBetween a x) && (!so || noOther a x T)) := by
  rw [← compile_shouldSpec, ← verdict_shouldSpec]
  apply verdict_spec_of_graph_lemma mt a g hg hd.wf _ (shouldSpec_strict hd so x T hx hT hn)
    (shouldSpec_namesIn hd so x T hx hT)
  · simp [shouldSpec]
  · right; simpa [shouldSpec] using hne
  · intro h; simp [shouldSpec] at h

theorem verdictOf_shouldNot (mt : Str → Str → Bool) (x : Name) (T : List Name) (hx : x ∈ d.components)
    (hT : ∀ t ∈ T, t ∈ d.components) (hn : (x :: T).Nodup) (hne : T ≠ []) :
    verdictOf mt g (mkD (render x) (T.map render) .shouldNot) =
      VClass.ofBool (T.all fun t => !importsBetween a x t) := by
  rw [← compile_shouldNotSpec, ← verdict_shouldNotSpec]
  apply verdict_spec_of_graph_lemma mt a g hg hd.wf _ (shouldNotSpec_strict hd x T hx hT hn)
    (shouldNotSpec_namesIn hd x T hx hT)
  · simp [shouldNotSpec]
  · right; simpa [shouldNotSpec] using hne
  · intro h; simp [shouldNotSpec] at h

end rules

/-! ### which rules `diagramRules` generates for `parsedOf d` -/

section shape
variable {a : Arch} {d : Diagram} (hd : Dom a d)
include hd

theorem mem_pairs (x y : Name) (hx : x ∈ d.components) (hy : y ∈ d.components) :
    (render x, render y) ∈ (d.arrows.map fun e => (render e.1, render e.2)) ↔ (x, y) ∈ d.arrows := by
  rw [List.mem_map]
  constructor
  · rintro ⟨e, he, h⟩
    obtain ⟨h1, h2⟩ := Prod.mk.inj h
    obtain ⟨c1, c2, _⟩ := hd.arr e he
    have e1 := hd.inj _ c1 _ hx h1
    have e2 := hd.inj _ c2 _ hy h2
    have : e = (x, y) := Prod.ext e1 e2
    rw [← this]; exact he
  · intro h; exact ⟨(x, y), h, rfl⟩

/-- an entry of the grouped dependencies: a component with exactly its drawn targets -/
theorem should_shape (kv : Str × List Str) (hkv : kv ∈ (parsedOf d).dependencies) :
    ∃ x ∈ d.components, ∃ T : List Name, kv = (render x, T.map render) ∧ T ≠ [] ∧ (x :: T).Nodup ∧
      (∀ t ∈ T, t ∈ d.components) ∧ ∀ t, t ∈ T ↔ (x, t) ∈ d.arrows := by
  have hG := groups_parsedOf d
  obtain ⟨h1, h2, h3⟩ := hG.sound kv hkv
  obtain ⟨v0, hv0⟩ := List.exists_mem_of_ne_nil _ h1
  obtain ⟨e0, he0, hk0⟩ := List.mem_map.1 ((h3 v0).1 hv0)
  obtain ⟨hk, _⟩ := Prod.mk.inj hk0
  obtain ⟨hxC, _, _⟩ := hd.arr e0 he0
  have hL : ∀ s ∈ kv.2, ∃ c ∈ d.components, s = render c := by
    intro s hs
    obtain ⟨e, he, hke⟩ := List.mem_map.1 ((h3 s).1 hs)
    exact ⟨e.2, (hd.arr e he).2.1, (Prod.mk.inj hke).2.symm⟩
  obtain ⟨T, hT1, hT2⟩ := lift_names d.components kv.2 hL
  have hmem : ∀ t, t ∈ T ↔ (e0.1, t) ∈ d.arrows := by
    intro t
    constructor
    · intro ht
      have : render t ∈ kv.2 := by rw [← hT1]; exact List.mem_map_of_mem ht
      have := (h3 _).1 this
      rw [← hk] at this
      exact (mem_pairs hd _ _ hxC (hT2 t ht)).1 this
    · intro ht
      have htC : t ∈ d.components := (hd.arr _ ht).2.1
      have := (mem_pairs hd _ _ hxC htC).2 ht
      rw [hk] at this
      have := (h3 _).2 this
      rw [← hT1] at this
      obtain ⟨t', ht', e⟩ := List.mem_map.1 this
      rw [← hd.inj _ (hT2 t' ht') _ htC e]; exact ht'
  refine ⟨e0.1, hxC, T, ?_, ?_, ?_, hT2, hmem⟩
  · exact Prod.ext hk.symm hT1.symm
  · intro e; rw [e] at hT1; exact h1 hT1.symm
  · rw [List.nodup_cons]
    refine ⟨fun hin => ?_, nodup_of_map_render T (by rw [hT1]; exact h2)⟩
    exact (hd.arr _ ((hmem _).1 hin)).2.2 rfl

omit hd in
/-- for every drawn dependor there is an entry -/
theorem should_entry (x y : Name) (h : (x, y) ∈ d.arrows) :
    ∃ kv ∈ (parsedOf d).dependencies, kv.1 = render x := by
  have hG := groups_parsedOf d
  exact hG.complete (render x, render y) (List.mem_map.2 ⟨(x, y), h, rfl⟩)

/-- the `should_not` rule of a component: its objects are exactly the other components it has no arrow to -/
theorem shouldNot_shape (x : Name) (hx : x ∈ d.components) :
    ∃ T : List Name, sortStr (notImportedOf (parsedOf d) (render x)) = T.map render ∧
      (notImportedOf (parsedOf d) (render x)).isEmpty = T.isEmpty ∧ (x :: T).Nodup ∧
      (∀ t ∈ T, t ∈ d.components) ∧ ∀ t, t ∈ T ↔ (t ∈ d.components ∧ t ≠ x ∧ (x, t) ∉ d.arrows) := by
  have hG := groups_parsedOf d
  have hN : ∀ s, s ∈ notImportedOf (parsedOf d) (render x) ↔
      s ∈ d.components.map render ∧ s ≠ render x ∧
        (render x, s) ∉ (d.arrows.map fun e => (render e.1, render e.2)) := by
    intro s
    unfold notImportedOf
    rw [List.mem_filter, mem_dedup]
    simp only [Bool.and_eq_true, bne_iff_ne, ne_eq, Bool.not_eq_true', ← Bool.not_eq_true,
      List.contains_iff_mem, mem_importedOf _ _ hG]
    rfl
  have hL : ∀ s ∈ sortStr (notImportedOf (parsedOf d) (render x)), ∃ c ∈ d.components, s = render c := by
    intro s hs
    obtain ⟨c, hc, e⟩ := List.mem_map.1 ((hN s).1 ((mem_sortStr _ _).1 hs)).1
    exact ⟨c, hc, e.symm⟩
  obtain ⟨T, hT1, hT2⟩ := lift_names d.components _ hL
  have hmem : ∀ t, t ∈ T ↔ (t ∈ d.components ∧ t ≠ x ∧ (x, t) ∉ d.arrows) := by
    intro t
    constructor
    · intro ht
      have htC := hT2 t ht
      have : render t ∈ sortStr (notImportedOf (parsedOf d) (render x)) := by
        rw [← hT1]; exact List.mem_map_of_mem ht
      obtain ⟨_, h2, h3⟩ := (hN _).1 ((mem_sortStr _ _).1 this)
      refine ⟨htC, fun e => h2 (by rw [e]), fun hin => h3 ((mem_pairs hd _ _ hx htC).2 hin)⟩
    · rintro ⟨htC, h2, h3⟩
      have : render t ∈ sortStr (notImportedOf (parsedOf d) (render x)) := by
        rw [mem_sortStr, hN]
        exact ⟨List.mem_map_of_mem htC, fun e => h2 (hd.inj _ htC _ hx e),
          fun hin => h3 ((mem_pairs hd _ _ hx htC).1 hin)⟩
      rw [← hT1] at this
      obtain ⟨t', ht', e⟩ := List.mem_map.1 this
      rw [← hd.inj _ (hT2 t' ht') _ htC e]; exact ht'
  refine ⟨T, hT1.symm, ?_, ?_, hT2, hmem⟩
  · rw [Bool.eq_iff_iff, List.isEmpty_iff, List.isEmpty_iff]
    constructor
    · intro h; rw [h] at hT1
      cases T with
      | nil => rfl
      | cons t T => cases hT1
    · intro h; rw [h] at hT1
      cases hN' : notImportedOf (parsedOf d) (render x) with
      | nil => rfl
      | cons s l =>
        have : s ∈ sortStr (notImportedOf (parsedOf d) (render x)) := by
          rw [mem_sortStr, hN']; simp
        rw [← hT1] at this; cases this
  · rw [List.nodup_cons]
    refine ⟨fun hin => ((hmem x).1 hin).2.1 rfl, nodup_of_map_render T ?_⟩
    rw [hT1]
    apply nodup_sortStr
    unfold notImportedOf
    exact (nodup_dedup _).sublist List.filter_sublist

/-- every generated rule is of one of the two shapes -/
theorem rule_cases (so : Bool) (r : RuleState) (hr : r ∈ diagramRules so (parsedOf d)) :
    (∃ x ∈ d.components, ∃ T : List Name, T ≠ [] ∧ (x :: T).Nodup ∧ (∀ t ∈ T, t ∈ d.components) ∧
        (∀ t, t ∈ T ↔ (x, t) ∈ d.arrows) ∧ r = mkD (render x) (T.map render) (shouldVerb so)) ∨
    (∃ x ∈ d.components, ∃ T : List Name, T ≠ [] ∧ (x :: T).Nodup ∧ (∀ t ∈ T, t ∈ d.components) ∧
        (∀ t, t ∈ T ↔ (t ∈ d.components ∧ t ≠ x ∧ (x, t) ∉ d.arrows)) ∧
        r = mkD (render x) (T.map render) .shouldNot) := by
  rw [diagramRules_eq, List.mem_append, List.mem_map, List.mem_filterMap] at hr
  rcases hr with ⟨kv, hkv, rfl⟩ | ⟨m, hm, hsome⟩
  · left
    obtain ⟨x, hx, T, hkvT, h1, h2, h3, h4⟩ := should_shape hd kv hkv
    refine ⟨x, hx, T, h1, h2, h3, h4, ?_⟩
    rw [hkvT]
  · right
    rw [mem_sortStr, mem_dedup] at hm
    obtain ⟨x, hx, rfl⟩ := List.mem_map.1 hm
    obtain ⟨T, h1, h2, h3, h4, h5⟩ := shouldNot_shape hd x hx
    unfold shouldNotOf at hsome
    rw [h1, h2] at hsome
    by_cases hT : T.isEmpty = true
    · rw [if_pos hT] at hsome; cases hsome
    · rw [if_neg hT] at hsome
      refine ⟨x, hx, T, fun e => hT (by rw [e]; rfl), h3, h4, h5, ?_⟩
      exact (Option.some.inj hsome).symm

theorem should_exists (so : Bool) (x y : Name) (h : (x, y) ∈ d.arrows) :
    ∃ T : List Name, T ≠ [] ∧ (x :: T).Nodup ∧ (∀ t ∈ T, t ∈ d.components) ∧
      (∀ t, t ∈ T ↔ (x, t) ∈ d.arrows) ∧
      mkD (render x) (T.map render) (shouldVerb so) ∈ diagramRules so (parsedOf d) := by
  obtain ⟨kv, hkv, hk⟩ := should_entry x y h
  obtain ⟨x', hx', T, hkvT, h1, h2, h3, h4⟩ := should_shape hd kv hkv
  have hxx : x' = x := by
    rw [hkvT] at hk
    exact hd.inj _ hx' _ (hd.arr _ h).1 hk
  subst hxx
  refine ⟨T, h1, h2, h3, h4, ?_⟩
  rw [diagramRules_eq, List.mem_append, List.mem_map]
  exact Or.inl ⟨kv, hkv, by rw [hkvT]⟩

theorem shouldNot_exists (so : Bool) (x y : Name) (hx : x ∈ d.components) (hy : y ∈ d.components) (hne : y ≠ x)
    (h : (x, y) ∉ d.arrows) :
    ∃ T : List Name, T ≠ [] ∧ (x :: T).Nodup ∧ (∀ t ∈ T, t ∈ d.components) ∧
      (∀ t, t ∈ T ↔ (t ∈ d.components ∧ t ≠ x ∧ (x, t) ∉ d.arrows)) ∧
      mkD (render x) (T.map render) .shouldNot ∈ diagramRules so (parsedOf d) := by
  obtain ⟨T, h1, h2, h3, h4, h5⟩ := shouldNot_shape hd x hx
  have hyT : y ∈ T := (h5 y).2 ⟨hy, hne, h⟩
  have hTne : T ≠ [] := fun e => by rw [e] at hyT; cases hyT
  refine ⟨T, hTne, h3, h4, h5, ?_⟩
  rw [diagramRules_eq, List.mem_append, List.mem_filterMap]
  right
  refine ⟨render x, ?_, ?_⟩
  · rw [mem_sortStr, mem_dedup]; exact List.mem_map_of_mem hx
  · unfold shouldNotOf
    rw [h1, h2, if_neg]
    intro hT
    exact hTne (List.isEmpty_iff.1 hT)

end shape

/-! ### all generated rules pass ⟺ the diagram is conformed to -/

/-- conformance as three families of facts -/
structure ConfP (a : Arch) (d : Diagram) (so : Bool) : Prop where
  drawn : ∀ x y, (x, y) ∈ d.arrows → importsBetween a x y = true
  undrawn : ∀ x ∈ d.components, ∀ y ∈ d.components, y ≠ x → (x, y) ∉ d.arrows → importsBetween a x y = false
  only : so = true → ∀ x, (∃ y, (x, y) ∈ d.arrows) → ∀ e ∈ a.imports, desc x e.1 = true → desc x e.2 = false →
    ∃ t, (x, t) ∈ d.arrows ∧ desc t e.2 = true

theorem noOther_iff (a : Arch) (x : Name) (T : List Name) (A : List (Name × Name))
    (hT : ∀ t, t ∈ T ↔ (x, t) ∈ A) :
    noOther a x T = true ↔ ∀ e ∈ a.imports, desc x e.1 = true → desc x e.2 = false →
      ∃ t, (x, t) ∈ A ∧ desc t e.2 = true := by
  simp only [noOther, List.all_eq_true, Bool.or_eq_true, Bool.not_eq_true', List.any_eq_true]
  constructor
  · intro h e he h1 h2
    rcases h e he with (h' | h') | ⟨t, ht, h'⟩
    · rw [h1] at h'; cases h'
    · rw [h2] at h'; cases h'
    · exact ⟨t, (hT t).1 ht, h'⟩
  · intro h e he
    by_cases h1 : desc x e.1 = true
    · by_cases h2 : desc x e.2 = true
      · exact Or.inl (Or.inr h2)
      · obtain ⟨t, ht, h'⟩ := h e he h1 (by simpa using h2)
        exact Or.inr ⟨t, (hT t).2 ht, h'⟩
    · exact Or.inl (Or.inl (by simpa using h1))

theorem ofBool_pass (b : Bool) : VClass.ofBool b = .pass ↔ b = true := by
  cases b <;> simp [VClass.ofBool]

section main
variable {a : Arch} {d : Diagram} (hd : Dom a d) {g : PGraph Str} (hg : GraphOf a g)
include hd hg

/-- no generated rule errs -/
theorem rules_decided (mt : Str → Str → Bool) (so : Bool) (r : RuleState) (hr : r ∈ diagramRules so (parsedOf d)) :
    ∃ b, verdictOf mt g r = VClass.ofBool b := by
  rcases rule_cases hd so r hr with ⟨x, hx, T, h1, h2, h3, _, rfl⟩ | ⟨x, hx, T, h1, h2, h3, _, rfl⟩
  · exact ⟨_, verdictOf_should hd hg mt so x T hx h3 h2 h1⟩
  · exact ⟨_, verdictOf_shouldNot hd hg mt x T hx h3 h2 h1⟩

omit hg in
/-- every generated rule is the compilation of a strict specification rule over existing names -/
theorem rules_strict (so : Bool) (r : RuleState) (hr : r ∈ diagramRules so (parsedOf d)) :
    ∃ rs : RuleSpec, r = compile rs ∧ rs.strict = true ∧ rs.namesIn a = true ∧ rs.subjects ≠ [] ∧
      rs.objects ≠ [] ∧ rs.anything = false ∧ rs.exc = false ∧ rs.importDir = true := by
  rcases rule_cases hd so r hr with ⟨x, hx, T, h1, h2, h3, _, rfl⟩ | ⟨x, hx, T, h1, h2, h3, _, rfl⟩
  · refine ⟨shouldSpec so x T, (compile_shouldSpec so x T).symm, shouldSpec_strict hd so x T hx h3 h2,
      shouldSpec_namesIn hd so x T hx h3, by simp [shouldSpec], by simpa [shouldSpec] using h1, rfl, rfl, rfl⟩
  · refine ⟨shouldNotSpec x T, (compile_shouldNotSpec x T).symm, shouldNotSpec_strict hd x T hx h3 h2,
      shouldNotSpec_namesIn hd x T hx h3, by simp [shouldNotSpec], by simpa [shouldNotSpec] using h1, rfl, rfl, rfl⟩

theorem allPass_iff (mt : Str → Str → Bool) (so : Bool) :
    (∀ r ∈ diagramRules so (parsedOf d), verdictOf mt g r = .pass) ↔ ConfP a d so := by
  constructor
  · intro h
    refine ⟨?_, ?_, ?_⟩
    · intro x y hxy
      obtain ⟨T, h1, h2, h3, h4, hmem⟩ := should_exists hd so x y hxy
      have := h _ hmem
      rw [verdictOf_should hd hg mt so x T (hd.arr _ hxy).1 h3 h2 h1, ofBool_pass, Bool.and_eq_true,
        List.all_eq_true] at this
      exact this.1 y ((h4 y).2 hxy)
    · intro x hx y hy hne hxy
      obtain ⟨T, h1, h2, h3, h4, hmem⟩ := shouldNot_exists hd so x y hx hy hne hxy
      have := h _ hmem
      rw [verdictOf_shouldNot hd hg mt x T hx h3 h2 h1, ofBool_pass, List.all_eq_true] at this
      simpa using this y ((h4 y).2 ⟨hy, hne, hxy⟩)
    · intro hso x ⟨y, hxy⟩
      obtain ⟨T, h1, h2, h3, h4, hmem⟩ := should_exists hd so x y hxy
      have := h _ hmem
      rw [verdictOf_should hd hg mt so x T (hd.arr _ hxy).1 h3 h2 h1, ofBool_pass, Bool.and_eq_true, hso] at this
      exact (noOther_iff a x T d.arrows h4).1 (by simpa using this.2)
  · intro hc r hr
    rcases rule_cases hd so r hr with ⟨x, hx, T, h1, h2, h3, h4, rfl⟩ | ⟨x, hx, T, h1, h2, h3, h4, rfl⟩
    · rw [verdictOf_should hd hg mt so x T hx h3 h2 h1, ofBool_pass, Bool.and_eq_true, List.all_eq_true]
      refine ⟨fun t ht => hc.drawn x t ((h4 t).1 ht), ?_⟩
      cases hso : so
      · rfl
      · obtain ⟨t0, ht0⟩ := List.exists_mem_of_ne_nil _ h1
        simpa using (noOther_iff a x T d.arrows h4).2 (hc.only hso x ⟨t0, (h4 t0).1 ht0⟩)
    · rw [verdictOf_shouldNot hd hg mt x T hx h3 h2 h1, ofBool_pass, List.all_eq_true]
      intro t ht
      obtain ⟨c1, c2, c3⟩ := (h4 t).1 ht
      simpa using hc.undrawn x hx t c1 c2 c3

end main

/-- `conforms`, unpacked (on the domain) -/
theorem conforms_iff_confP {a : Arch} {d : Diagram} (hd : Dom a d) (so : Bool) :
    conforms a d so = true ↔ ConfP a d so := by
  have htg : ∀ x t, t ∈ (d.arrows.filter (·.1 == x)).map (·.2) ↔ (x, t) ∈ d.arrows := by
    intro x t
    simp only [List.mem_map, List.mem_filter, beq_iff_eq]
    constructor
    · rintro ⟨e, ⟨he, rfl⟩, rfl⟩; exact he
    · intro h; exact ⟨(x, t), ⟨h, rfl⟩, rfl⟩
  unfold conforms
  simp only [Bool.and_eq_true, List.all_eq_true, Bool.or_eq_true, beq_iff_eq, Bool.not_eq_true']
  constructor
  · rintro ⟨h1, h2⟩
    refine ⟨?_, ?_, ?_⟩
    · intro x y hxy
      obtain ⟨c1, c2, c3⟩ := hd.arr _ hxy
      rcases h1 x c1 y c2 with h | h
      · exact absurd h c3
      · rw [h]; simpa using hxy
    · intro x hx y hy hne hxy
      rcases h1 x hx y hy with h | h
      · exact absurd h.symm hne
      · rw [h]; simpa using hxy
    · intro hso x ⟨y, hxy⟩
      obtain ⟨c1, _, _⟩ := hd.arr _ hxy
      rcases h2 with h2 | h2
      · rw [hso] at h2; cases h2
      · rcases h2 x c1 with h | h
        · rw [List.isEmpty_iff] at h
          have := (htg x y).2 hxy
          rw [h] at this; cases this
        · exact (noOther_iff a x _ d.arrows (htg x)).1 (by simpa [noOther] using h)
  · intro hc
    refine ⟨?_, ?_⟩
    · intro x hx y hy
      by_cases hxy : x = y
      · exact Or.inl hxy
      · right
        by_cases hA : (x, y) ∈ d.arrows
        · rw [hc.drawn x y hA]; simpa using hA
        · rw [hc.undrawn x hx y hy (fun e => hxy e.symm) hA]; simpa using hA
    · cases hso : so
      · exact Or.inl rfl
      · right
        intro x _
        cases hT : (d.arrows.filter (·.1 == x)).map (·.2) with
        | nil => exact Or.inl rfl
        | cons t0 T0 =>
          right
          have ht0 : (x, t0) ∈ d.arrows := (htg x t0).1 (by rw [hT]; simp)
          have := (noOther_iff a x _ d.arrows (htg x)).2 (hc.only hso x ⟨t0, ht0⟩)
          rw [hT] at this
          simpa [noOther] using this

theorem cls_of_ruleVerdict (mt : Str → Str → Bool) (g : PGraph Str) (r : RuleState) :
    verdictOf mt g r = (ruleVerdict mt g r).cls := rfl

theorem conforms_iff_lemma (mt : Str → Str → Bool) (a : Arch) (g : PGraph Str) (hg : GraphOf a g) (d : Diagram)
    (so : Bool) (h : diagramDomain a d = true) :
    (applyAll mt g (diagramRules so (parsedOf d)) = .pass ↔ conforms a d so = true) ∧
    (∀ k, applyAll mt g (diagramRules so (parsedOf d)) ≠ .err k) ∧
    (∀ r ∈ diagramRules so (parsedOf d), ∃ b, verdictOf mt g r = VClass.ofBool b) := by
  have hd := dom_of a d h
  have hne : ∀ r ∈ diagramRules so (parsedOf d), ∀ k, ruleVerdict mt g r ≠ .err k := by
    intro r hr k hk
    obtain ⟨b, hb⟩ := rules_decided hd hg mt so r hr
    rw [cls_of_ruleVerdict, hk] at hb
    cases b <;> cases hb
  refine ⟨?_, applyAll_noErr_lemma mt g _ hne, rules_decided hd hg mt so⟩
  rw [applyAll_pass_iff_lemma mt g _ hne, conforms_iff_confP hd, ← allPass_iff hd hg mt so]
  constructor
  · intro h' r hr
    rw [cls_of_ruleVerdict, h' r hr]; rfl
  · intro h' r hr
    have := h' r hr
    rw [cls_of_ruleVerdict] at this
    cases hv : ruleVerdict mt g r with
    | pass => rfl
    | fail its => rw [hv] at this; cases this
    | err k => rw [hv] at this; cases this

end Pta.Dg
