/-
  PtaProofs.Lemmas.LayerRegex — C05 for layered architectures with name layers and regex layers:
  what `resolves` gives, what `convertFilters` returns on layer filters, what `updateLayerMap` keeps, and the
  instantiation of the core lemma of LayerSem.
-/
import Bridge.LayerAbs
import Bridge.LayerKept
import PtaProofs.Lemmas.LayerRule
import PtaProofs.Lemmas.LayerChain
namespace Pta
open PtaSpec

/-! ### `layerRes` / `resolves`, unpacked -/

theorem layerRes_cases {mt : Str → Str → Bool} {nodes : List Str} {F : List Filter} {l : List Name}
    (h : layerRes mt nodes F l = true) :
    F = l.map nmF ∨ ∃ p, F = [.regex p] ∧ nodes.filter (mt p) = l.map render := by
  unfold layerRes at h
  rw [Bool.or_eq_true] at h
  rcases h with h | h
  · left; exact eq_of_beq h
  · right
    split at h
    · exact ⟨_, rfl, eq_of_beq h⟩
    · cases h

theorem resolves_cons (mt : Str → Str → Bool) (nodes : List Str) (L : Str × List Filter) (Ls : LArch)
    (l : List Char × List Name) (ls : Layers) :
    resolves mt nodes (L :: Ls) (l :: ls) = true ↔
      L.1 = l.1 ∧ layerRes mt nodes L.2 l.2 = true ∧ resolves mt nodes Ls ls = true := by
  simp [resolves, and_assoc]

theorem getD_cons (L : Str × List Filter) (Ls : LArch) (n : Str) :
    LArch.getD (L :: Ls) n = if L.1 == n then L.2 else LArch.getD Ls n := by
  unfold LArch.getD LArch.get
  rw [List.find?_cons]
  cases h : L.1 == n <;> simp

theorem resolves_getD (mt : Str → Str → Bool) (nodes : List Str) (larch : LArch) (ls : Layers)
    (h : resolves mt nodes larch ls = true) (n : Str) (hn : ls.any (·.1 == n) = true) :
    layerRes mt nodes (larch.getD n) (ls.get n) = true := by
  induction larch generalizing ls with
  | nil =>
    cases ls with
    | nil => simp at hn
    | cons l ls => simp [resolves] at h
  | cons L Ls ih =>
    cases ls with
    | nil => simp [resolves] at h
    | cons l ls =>
      obtain ⟨h1, h2, h3⟩ := (resolves_cons mt nodes L Ls l ls).1 h
      rw [getD_cons, layers_get_cons, h1]
      cases hl : l.1 == n
      · simp only [Bool.false_eq_true, if_false]
        simp only [List.any_cons, hl, Bool.false_or] at hn
        exact ih ls h3 hn
      · simpa using h2

/-! ### `updateLayerMap` entry by entry -/

def entryOf (mt : Str → Str → Bool) (mods : List Str) (conv : List Str) (L : Str × List Filter) : Str × List Str :=
  (L.1, L.2.flatMap fun f =>
    match f with
    | .regex p => if conv.contains p then mods.filter (mt p) else []
    | f => [f.id])

theorem updateLayerMap_cons (mt : Str → Str → Bool) (mods : List Str) (L : Str × List Filter) (Ls : LArch)
    (conv : List Str) :
    updateLayerMap mt mods (L :: Ls) conv = entryOf mt mods conv L :: updateLayerMap mt mods Ls conv := rfl

theorem entryOf_names (mt : Str → Str → Bool) (mods conv : List Str) (n : Str) (l : List Name) :
    entryOf mt mods conv (n, l.map nmF) = (n, l.map render) := by
  unfold entryOf
  simp only [List.flatMap_map, nmF, Filter.id]
  rw [flatMap_singleton_map]

theorem entryOf_regex (mt : Str → Str → Bool) (mods conv : List Str) (n p : Str) :
    entryOf mt mods conv (n, [.regex p]) = (n, if conv.contains p then mods.filter (mt p) else []) := by
  unfold entryOf
  simp

/-- M1: every entry of the updated mapping is a layer of `ls`, kept or emptied -/
theorem updateLayerMap_sub (mt : Str → Str → Bool) (nodes conv : List Str) (larch : LArch) (ls : Layers)
    (h : resolves mt nodes larch ls = true) :
    ∀ e ∈ updateLayerMap mt nodes larch conv, ∃ l ∈ ls, l.1 = e.1 ∧ (e.2 = l.2.map render ∨ e.2 = []) := by
  induction larch generalizing ls with
  | nil => intro e he; simp [updateLayerMap] at he
  | cons L Ls ih =>
    cases ls with
    | nil => simp [resolves] at h
    | cons l ls =>
      obtain ⟨h1, h2, h3⟩ := (resolves_cons mt nodes L Ls l ls).1 h
      intro e he
      rw [updateLayerMap_cons] at he
      rcases List.mem_cons.1 he with rfl | he
      · refine ⟨l, by simp, ?_⟩
        obtain ⟨Ln, LF⟩ := L
        simp only at h1 h2
        subst h1
        rcases layerRes_cases h2 with rfl | ⟨p, rfl, hp⟩
        · rw [entryOf_names]; exact ⟨rfl, .inl rfl⟩
        · rw [entryOf_regex]
          refine ⟨rfl, ?_⟩
          cases conv.contains p
          · exact .inr rfl
          · exact .inl hp
      · obtain ⟨l', hl', h'⟩ := ih ls h3 e he
        exact ⟨l', List.mem_cons_of_mem _ hl', h'⟩

/-- M2: a layer all of whose regex filters were converted by the rule is kept in full -/
theorem updateLayerMap_keep (mt : Str → Str → Bool) (nodes conv : List Str) (larch : LArch) (ls : Layers)
    (h : resolves mt nodes larch ls = true) (hnd : nodupC (ls.map (·.1)) = true)
    (l : List Char × List Name) (hl : l ∈ ls)
    (hc : ∀ f ∈ larch.getD l.1, f.isRegex = true → f.id ∈ conv) :
    (l.1, l.2.map render) ∈ updateLayerMap mt nodes larch conv := by
  induction larch generalizing ls with
  | nil =>
    cases ls with
    | nil => cases hl
    | cons l ls => simp [resolves] at h
  | cons L Ls ih =>
    cases ls with
    | nil => simp [resolves] at h
    | cons l0 ls =>
      obtain ⟨h1, h2, h3⟩ := (resolves_cons mt nodes L Ls l0 ls).1 h
      rw [List.map_cons, nodupC_cons] at hnd
      rw [updateLayerMap_cons]
      rw [getD_cons] at hc
      rcases List.mem_cons.1 hl with rfl | hl'
      · obtain ⟨Ln, LF⟩ := L
        simp only at h1 h2 hc
        subst h1
        simp only [beq_self_eq_true, if_true] at hc
        rcases layerRes_cases h2 with rfl | ⟨p, rfl, hp⟩
        · rw [entryOf_names]; simp
        · rw [entryOf_regex]
          have hpc : p ∈ conv := hc (.regex p) (by simp) rfl
          have : conv.contains p = true := by simpa using hpc
          rw [this, if_pos rfl, hp]
          exact List.mem_cons_self
      · have hne : (L.1 == l.1) = false := by
          cases hh : L.1 == l.1
          · rfl
          · exfalso
            apply hnd.1
            rw [beq_iff_eq] at hh
            rw [← h1, hh]
            exact List.mem_map_of_mem hl'
        simp only [hne, Bool.false_eq_true, if_false] at hc
        exact List.mem_cons_of_mem _ (ih ls h3 hnd.2 hl' hc)

/-! ### `convertFilters` on layer filters -/

/-- what the filters of one side of a layer rule stand for -/
structure Denotes (mt : Str → Str → Bool) (nodes : List Str) (fs : List Filter) (D : Name → Prop) : Prop where
  fwd : ∀ f ∈ fs, (∃ x, f = nmF x ∧ D x) ∨
    (∃ p, f = .regex p ∧ (∃ s ∈ nodes, mt p s = true) ∧ ∀ s ∈ nodes, mt p s = true → ∃ x, s = render x ∧ D x)
  bwd : ∀ x, D x → nmF x ∈ fs ∨ ∃ p, Filter.regex p ∈ fs ∧ mt p (render x) = true

theorem convertFilters_layer {a : Arch} {g : PGraph Str} (hw : ArchWF a) (hg : GraphOf a g) (mt : Str → Str → Bool)
    (fs : List Filter) (D : Name → Prop) (hden : Denotes mt g.nodes fs D) (hD : ∀ x, D x → x ∈ a.nodes) :
    ∃ N : List Name, convertFilters mt g.nodes fs = .ok ((N.map SFilter.named).map compileFilter) ∧
      ∀ x, x ∈ N ↔ D x := by
  have hregex : ∀ r ∈ fs, r.isRegex = true →
      ∃ p, r = .regex p ∧ (∃ s ∈ g.nodes, mt p s = true) ∧ ∀ s ∈ g.nodes, mt p s = true → ∃ x, s = render x ∧ D x := by
    intro r hr hreg
    rcases hden.fwd r hr with ⟨x, rfl, _⟩ | h
    · simp [nmF, Filter.isRegex] at hreg
    · exact h
  have hno : ((fs.filter (·.isRegex)).any fun r => !(g.nodes.any (mt r.id))) = false := by
    rw [List.any_eq_false]
    intro r hr
    obtain ⟨hr1, hr2⟩ := List.mem_filter.1 hr
    obtain ⟨p, rfl, ⟨s, hs, hm⟩, _⟩ := hregex r hr1 hr2
    have : g.nodes.any (mt p) = true := List.any_eq_true.2 ⟨s, hs, hm⟩
    simp [Filter.id, this]
  have hR : ∀ f ∈ dedup ((g.nodes.filter fun m => (fs.filter (·.isRegex)).any fun r => mt r.id m).map Filter.name) ++
      fs.filter (fun f => !f.isRegex), ∃ x, f = nmF x ∧ D x := by
    intro f hf
    rcases List.mem_append.1 hf with hf | hf
    · rw [mem_dedup] at hf
      obtain ⟨s, hs, rfl⟩ := List.mem_map.1 hf
      obtain ⟨hs1, hs2⟩ := List.mem_filter.1 hs
      obtain ⟨r, hr, hm⟩ := List.any_eq_true.1 hs2
      obtain ⟨hr1, hr2⟩ := List.mem_filter.1 hr
      obtain ⟨p, rfl, _, hall⟩ := hregex r hr1 hr2
      obtain ⟨x, rfl, hx⟩ := hall s hs1 hm
      exact ⟨x, rfl, hx⟩
    · obtain ⟨hf1, hf2⟩ := List.mem_filter.1 hf
      rcases hden.fwd f hf1 with h | ⟨p, rfl, _⟩
      · exact h
      · simp [Filter.isRegex] at hf2
  have hsd : ∀ x, D x → splitDots (render x) = x := fun x hx => splitDots_render x (hw.nwf x (hD x hx))
  refine ⟨(dedup ((g.nodes.filter fun m => (fs.filter (·.isRegex)).any fun r => mt r.id m).map Filter.name) ++
      fs.filter (fun f => !f.isRegex)).map (fun f => splitDots f.id), ?_, ?_⟩
  · unfold convertFilters
    simp only [hno, Bool.false_eq_true, if_false]
    congr 1
    rw [List.map_map, List.map_map]
    symm
    conv => rhs; rw [← List.map_id (dedup _ ++ _)]
    apply List.map_congr_left
    intro f hf
    obtain ⟨x, rfl, hx⟩ := hR f hf
    simp only [Function.comp_def, nmF, Filter.id, hsd x hx, compileFilter, id]
  · intro x
    constructor
    · intro hx
      obtain ⟨f, hf, rfl⟩ := List.mem_map.1 hx
      obtain ⟨x', rfl, hx'⟩ := hR f hf
      simp only [nmF, Filter.id, hsd x' hx']
      exact hx'
    · intro hx
      apply List.mem_map.2
      refine ⟨nmF x, ?_, by simp only [nmF, Filter.id, hsd x hx]⟩
      rcases hden.bwd x hx with h | ⟨p, hp, hm⟩
      · exact List.mem_append_right _ (List.mem_filter.2 ⟨h, by simp [nmF, Filter.isRegex]⟩)
      · apply List.mem_append_left
        rw [mem_dedup]
        apply List.mem_map.2
        refine ⟨render x, List.mem_filter.2 ⟨?_, ?_⟩, rfl⟩
        · have := hasNode_render hg x (hD x hx)
          simpa [PGraph.hasNode] using this
        · exact List.any_eq_true.2 ⟨.regex p, List.mem_filter.2 ⟨hp, rfl⟩, hm⟩

/-- one layer definition and its resolution -/
theorem denotes_layer {mt : Str → Str → Bool} {nodes : List Str} {F : List Filter} {l : List Name}
    (h : layerRes mt nodes F l = true) (hne : l ≠ []) : Denotes mt nodes F (fun x => x ∈ l) := by
  rcases layerRes_cases h with rfl | ⟨p, rfl, hp⟩
  · constructor
    · intro f hf
      obtain ⟨x, hx, rfl⟩ := List.mem_map.1 hf
      exact .inl ⟨x, rfl, hx⟩
    · intro x hx
      exact .inl (List.mem_map_of_mem hx)
  · have hmem : ∀ s, s ∈ nodes ∧ mt p s = true ↔ ∃ x ∈ l, s = render x := by
      intro s
      rw [← List.mem_filter, hp, List.mem_map]
      constructor
      · rintro ⟨x, hx, rfl⟩; exact ⟨x, hx, rfl⟩
      · rintro ⟨x, hx, rfl⟩; exact ⟨x, hx, rfl⟩
    constructor
    · intro f hf
      simp only [List.mem_singleton] at hf
      subst hf
      right
      refine ⟨p, rfl, ?_, ?_⟩
      · obtain ⟨x, hx⟩ := List.exists_mem_of_ne_nil _ hne
        obtain ⟨h1, h2⟩ := (hmem (render x)).2 ⟨x, hx, rfl⟩
        exact ⟨render x, h1, h2⟩
      · intro s hs hm
        obtain ⟨x, hx, rfl⟩ := (hmem s).1 ⟨hs, hm⟩
        exact ⟨x, rfl, hx⟩
    · intro x hx
      right
      exact ⟨p, by simp, ((hmem (render x)).2 ⟨x, hx, rfl⟩).2⟩

/-- several layer definitions, concatenated -/
theorem denotes_flatMap {mt : Str → Str → Bool} {nodes : List Str} {ι : Type} (ons : List ι) (F : ι → List Filter)
    (l : ι → List Name) (h : ∀ on ∈ ons, Denotes mt nodes (F on) (fun x => x ∈ l on)) :
    Denotes mt nodes (ons.flatMap F) (fun x => ∃ on ∈ ons, x ∈ l on) := by
  constructor
  · intro f hf
    obtain ⟨on, hon, hf'⟩ := List.mem_flatMap.1 hf
    rcases (h on hon).fwd f hf' with ⟨x, rfl, hx⟩ | ⟨p, rfl, hex, hall⟩
    · exact .inl ⟨x, rfl, on, hon, hx⟩
    · right
      refine ⟨p, rfl, hex, ?_⟩
      intro s hs hm
      obtain ⟨x, rfl, hx⟩ := hall s hs hm
      exact ⟨x, rfl, on, hon, hx⟩
  · rintro x ⟨on, hon, hx⟩
    rcases (h on hon).bwd x hx with h' | ⟨p, hp, hm⟩
    · exact .inl (List.mem_flatMap.2 ⟨on, hon, h'⟩)
    · exact .inr ⟨p, List.mem_flatMap.2 ⟨on, hon, hp⟩, hm⟩

/-! ### the layers the rule works with -/

theorem keptEntry_names (conv : List Str) (xs : List Name) (l : List Char × List Name) :
    keptEntry conv (xs.map nmF) l = l := by
  cases xs with
  | nil => rfl
  | cons x xs =>
    cases xs with
    | nil => simp [keptEntry, nmF]
    | cons y ys => simp [keptEntry]

theorem keptEntry_regex (conv : List Str) (p : Str) (l : List Char × List Name) :
    keptEntry conv [.regex p] l = if conv.contains p then l else (l.1, []) := rfl

theorem keptEntry_cases (conv : List Str) (F : List Filter) (l : List Char × List Name) :
    keptEntry conv F l = l ∨ keptEntry conv F l = (l.1, []) := by
  unfold keptEntry
  split
  · split
    · exact .inl rfl
    · exact .inr rfl
  · exact .inl rfl

theorem keptEntry_fst (conv : List Str) (F : List Filter) (l : List Char × List Name) :
    (keptEntry conv F l).1 = l.1 := by
  rcases keptEntry_cases conv F l with h | h <;> rw [h]

theorem keptEntry_of_conv (conv : List Str) (F : List Filter) (l : List Char × List Name)
    (h : ∀ f ∈ F, f.isRegex = true → f.id ∈ conv) : keptEntry conv F l = l := by
  unfold keptEntry
  split
  · rename_i p
    have hm : p ∈ conv := h (.regex p) (by simp) rfl
    have : conv.contains p = true := List.contains_iff_mem.2 hm
    rw [this, if_pos rfl]
  · rfl

/-- the mapping `_update_layer_mapping` builds is the rendering of the kept layers -/
theorem update_eq_kept (mt : Str → Str → Bool) (nodes conv : List Str) (larch : LArch) (ls : Layers)
    (h : resolves mt nodes larch ls = true) :
    updateLayerMap mt nodes larch conv = (keptLayers conv larch ls).map fun l => (l.1, l.2.map render) := by
  induction larch generalizing ls with
  | nil =>
    cases ls with
    | nil => rfl
    | cons l ls => simp [resolves] at h
  | cons L Ls ih =>
    cases ls with
    | nil => simp [resolves] at h
    | cons l ls =>
      obtain ⟨h1, h2, h3⟩ := (resolves_cons mt nodes L Ls l ls).1 h
      rw [updateLayerMap_cons]
      show _ = (keptEntry conv L.2 l :: keptLayers conv Ls ls).map _
      rw [List.map_cons, ← ih ls h3]
      congr 1
      obtain ⟨Ln, LF⟩ := L
      simp only at h1 h2 ⊢
      subst h1
      rcases layerRes_cases h2 with rfl | ⟨p, rfl, hp⟩
      · rw [entryOf_names, keptEntry_names]
      · rw [entryOf_regex, keptEntry_regex]
        cases conv.contains p
        · rfl
        · simp only [if_true, hp]

theorem kept_sub (conv : List Str) (larch : LArch) (ls : Layers) :
    ∀ l' ∈ keptLayers conv larch ls, ∃ l ∈ ls, l.1 = l'.1 ∧ (l'.2 = l.2 ∨ l'.2 = []) := by
  induction larch generalizing ls with
  | nil => intro l' hl'; simp [keptLayers] at hl'
  | cons L Ls ih =>
    cases ls with
    | nil => intro l' hl'; simp [keptLayers] at hl'
    | cons l ls =>
      intro l' hl'
      rcases List.mem_cons.1 hl' with rfl | hl'
      · refine ⟨l, by simp, (keptEntry_fst _ _ _).symm, ?_⟩
        rcases keptEntry_cases conv L.2 l with h | h <;> rw [h]
        · exact .inl rfl
        · exact .inr rfl
      · obtain ⟨k, hk, h⟩ := ih ls l' hl'
        exact ⟨k, List.mem_cons_of_mem _ hk, h⟩

theorem kept_names (mt : Str → Str → Bool) (nodes conv : List Str) (larch : LArch) (ls : Layers)
    (h : resolves mt nodes larch ls = true) : (keptLayers conv larch ls).map (·.1) = ls.map (·.1) := by
  induction larch generalizing ls with
  | nil =>
    cases ls with
    | nil => rfl
    | cons l ls => simp [resolves] at h
  | cons L Ls ih =>
    cases ls with
    | nil => simp [resolves] at h
    | cons l ls =>
      obtain ⟨_, _, h3⟩ := (resolves_cons mt nodes L Ls l ls).1 h
      show (keptEntry conv L.2 l :: keptLayers conv Ls ls).map _ = _
      rw [List.map_cons, List.map_cons, keptEntry_fst, ih ls h3]

theorem kept_any (mt : Str → Str → Bool) (nodes conv : List Str) (larch : LArch) (ls : Layers)
    (h : resolves mt nodes larch ls = true) (n : List Char) :
    (keptLayers conv larch ls).any (·.1 == n) = ls.any (·.1 == n) := by
  have h1 : ∀ ks : Layers, ks.any (·.1 == n) = (ks.map (·.1)).any (· == n) := fun ks => by rw [List.any_map]; rfl
  rw [h1, h1, kept_names mt nodes conv larch ls h]

/-- a layer all of whose regex filters were converted by the rule is kept in full -/
theorem kept_get (mt : Str → Str → Bool) (nodes conv : List Str) (larch : LArch) (ls : Layers)
    (h : resolves mt nodes larch ls = true) (n : List Char)
    (hc : ∀ f ∈ larch.getD n, f.isRegex = true → f.id ∈ conv) :
    (keptLayers conv larch ls).get n = ls.get n := by
  induction larch generalizing ls with
  | nil =>
    cases ls with
    | nil => rfl
    | cons l ls => simp [resolves] at h
  | cons L Ls ih =>
    cases ls with
    | nil => simp [resolves] at h
    | cons l ls =>
      obtain ⟨h1, _, h3⟩ := (resolves_cons mt nodes L Ls l ls).1 h
      show Layers.get (keptEntry conv L.2 l :: keptLayers conv Ls ls) n = _
      rw [layers_get_cons, layers_get_cons, keptEntry_fst]
      rw [getD_cons, h1] at hc
      cases hl : l.1 == n
      · simp only [hl, Bool.false_eq_true, if_false] at hc ⊢
        exact ih ls h3 hc
      · simp only [hl, if_true] at hc ⊢
        rw [keptEntry_of_conv conv L.2 l hc]

theorem ruleConv_subj (larch : LArch) (r : LRuleSpec) :
    ∀ f ∈ larch.getD r.subject, f.isRegex = true → f.id ∈ ruleConv larch r := by
  intro f hf hr
  exact List.mem_map.2 ⟨f, List.mem_filter.2 ⟨List.mem_append_left _ hf, hr⟩, rfl⟩

theorem ruleConv_obj (larch : LArch) (r : LRuleSpec) (hany : r.anything = false) :
    ∀ on ∈ r.objects, ∀ f ∈ larch.getD on, f.isRegex = true → f.id ∈ ruleConv larch r := by
  intro on hon f hf hr
  unfold ruleConv
  simp only [hany, Bool.false_eq_true, if_false]
  exact List.mem_map.2 ⟨f, List.mem_filter.2 ⟨List.mem_append_right _ (List.mem_flatMap.2 ⟨on, hon, hf⟩), hr⟩, rfl⟩

/-- the relaxed domain of the resolved layers gives the domain of the core lemma on the layers the rule works with:
    emptying layers the rule does not mention preserves everything -/
theorem ldom_kept {a : Arch} {ls : Layers} {r : LRuleSpec} (hw : ArchWF a) (hd : LDom' a ls r) (mt : Str → Str → Bool)
    (nodes : List Str) (larch : LArch) (hres : resolves mt nodes larch ls = true) :
    LDom a (ruleLayers larch ls r) r := by
  have hd0 := ldom_of_ldom' hw hd
  have hsub := kept_sub (ruleConv larch r) larch ls
  have hgetS := kept_get mt nodes (ruleConv larch r) larch ls hres r.subject (ruleConv_subj larch r)
  refine ⟨?_, ?_, ?_, ?_, ?_, ?_, ?_, hd.objNe, ?_⟩
  · intro l' hl' x hx
    obtain ⟨k, hk, _, hc⟩ := hsub l' hl'
    rcases hc with hc | hc
    · rw [hc] at hx; exact hd0.wf k hk x hx
    · rw [hc] at hx; cases hx
  · show ∀ x ∈ Layers.get (keptLayers _ larch ls) r.subject, x ∈ a.nodes
    rw [hgetS]; exact hd0.nodesS
  · intro hany on hon
    show ∀ x ∈ Layers.get (keptLayers _ larch ls) on, x ∈ a.nodes
    rw [kept_get mt nodes _ larch ls hres on (ruleConv_obj larch r hany on hon)]
    exact hd0.nodesO hany on hon
  · intro l₁ h₁ l₂ h₂ x hx y hy hrel
    obtain ⟨k₁, hk₁, hn₁, hc₁⟩ := hsub l₁ h₁
    obtain ⟨k₂, hk₂, hn₂, hc₂⟩ := hsub l₂ h₂
    rcases hc₁ with hc₁ | hc₁
    · rcases hc₂ with hc₂ | hc₂
      · rw [hc₁] at hx; rw [hc₂] at hy
        rw [← hn₁, ← hn₂]
        exact hd0.unrel k₁ hk₁ k₂ hk₂ x hx y hy hrel
      · rw [hc₂] at hy; cases hy
    · rw [hc₁] at hx; cases hx
  · show nodupC ((keptLayers _ larch ls).map (·.1)) = true
    rw [kept_names mt nodes _ larch ls hres]; exact hd.nodup
  · show (keptLayers _ larch ls).any (·.1 == r.subject) = true
    rw [kept_any mt nodes _ larch ls hres]; exact hd.subj
  · show Layers.get (keptLayers _ larch ls) r.subject ≠ []
    rw [hgetS]; exact hd0.subjNe
  · intro hany on hon
    obtain ⟨h1, h2, h3⟩ := hd0.obj hany on hon
    refine ⟨?_, h2, ?_⟩
    · show (keptLayers _ larch ls).any (·.1 == on) = true
      rw [kept_any mt nodes _ larch ls hres]; exact h1
    · show Layers.get (keptLayers _ larch ls) on ≠ []
      rw [kept_get mt nodes _ larch ls hres on (ruleConv_obj larch r hany on hon)]; exact h3

/-- name layers are kept as they are -/
theorem keptLayers_names (conv : List Str) (ls : Layers) : keptLayers conv (compileLArch ls) ls = ls := by
  induction ls with
  | nil => rfl
  | cons l ls ih =>
    show keptEntry conv (l.2.map fun m => Filter.name (render m)) l :: keptLayers conv (compileLArch ls) ls = _
    rw [ih]
    congr 1
    exact keptEntry_names conv l.2 l

/-! ### the context of the core lemma, on name and regex layers -/

theorem layerRes_ne_nil {mt : Str → Str → Bool} {nodes : List Str} {F : List Filter} {l : List Name}
    (h : layerRes mt nodes F l = true) (hne : l ≠ []) : F ≠ [] := by
  rcases layerRes_cases h with rfl | ⟨p, rfl, _⟩
  · simpa using hne
  · simp

theorem isStrictSub_self (p : Str) : isStrictSub p p = false := by
  cases h : isStrictSub p p
  · rfl
  · have := ((startsWith_iff_prefix _ _).1 h).length_le
    simp at this
    omega

theorem denotes_names (mt : Str → Str → Bool) (nodes : List Str) (xs : List Name) :
    Denotes mt nodes (xs.map nmF) (fun x => x ∈ xs) := by
  constructor
  · intro f hf
    obtain ⟨x, hx, rfl⟩ := List.mem_map.1 hf
    exact .inl ⟨x, rfl, hx⟩
  · intro x hx
    exact .inl (List.mem_map_of_mem hx)

theorem filter_isRegex_nmF (xs : List Name) : (xs.map nmF).filter (·.isRegex) = [] := by
  rw [List.filter_eq_nil_iff]
  intro F hF
  obtain ⟨f, _, rfl⟩ := List.mem_map.1 hF
  simp [nmF, Filter.isRegex]

/-- the subject filters after `_convert_aliases`: listed modules that are sub modules of other listed modules of the
    layer are dropped (they must exist), the retained modules generate the same layer; a regex layer is untouched -/
theorem subject_filters {a : Arch} {g : PGraph Str} (hw : ArchWF a) (hg : GraphOf a g) (mt : Str → Str → Bool)
    {F : List Filter} {l : List Name} (h : layerRes mt g.nodes F l = true) (hne : l ≠ [])
    (hn : ∀ x ∈ l, x ∈ a.nodes) :
    ∃ D : List Name, Denotes mt g.nodes (dedupSubjects F) (fun x => x ∈ D) ∧ (∀ x ∈ D, x ∈ l) ∧
      (∀ n, inLayer D n = inLayer l n) ∧ (dedupSubjects F).filter (·.isRegex) = F.filter (·.isRegex) ∧
      droppedAbsentIn g F = false ∧ dedupSubjects F ≠ [] := by
  rcases layerRes_cases h with rfl | ⟨p, rfl, _⟩
  · have hdd := dedupSubjects_names l (fun x hx => hw.nwf x (hn x hx))
    refine ⟨minimals l, ?_, fun x hx => minimals_sub hx, inLayer_minimals l, ?_, ?_, ?_⟩
    · rw [hdd]; exact denotes_names mt g.nodes _
    · rw [hdd, filter_isRegex_nmF, filter_isRegex_nmF]
    · apply droppedAbsentIn_of_nodes
      intro f hf _
      obtain ⟨x, hx, rfl⟩ := List.mem_map.1 hf
      exact hasNode_render hg x (hn x hx)
    · rw [hdd]
      obtain ⟨x, hx⟩ := List.exists_mem_of_ne_nil _ hne
      obtain ⟨m, hm, _⟩ := minimals_cover l x.length x hx (Nat.le_refl _)
      intro h0
      rw [List.map_eq_nil_iff] at h0
      rw [h0] at hm; cases hm
  · have hdd : dedupSubjects [Filter.regex p] = [Filter.regex p] := by
      simp [dedupSubjects, Filter.id, isStrictSub_self]
    refine ⟨l, ?_, fun x hx => hx, fun _ => rfl, by rw [hdd], droppedAbsentIn_of_dedup_eq g _ hdd, by rw [hdd]; simp⟩
    rw [hdd]
    exact denotes_layer h hne

/-- the layer mapping `LayerRuleMatcher` works with: regex layers the rule mentions are resolved, the others emptied -/
def ruleLayerMap (mt : Str → Str → Bool) (g : PGraph Str) (larch : LArch) (r : LRuleSpec) : LayerMap :=
  updateLayerMap mt g.nodes larch (ruleConv larch r)

theorem ruleLayerMap_eq_ruleMap (mt : Str → Str → Bool) (g : PGraph Str) (larch : LArch) (r : LRuleSpec) :
    ruleLayerMap mt g larch r = ruleMap mt g larch (larch.getD r.subject)
      (if r.anything = true then larch.getD r.subject else r.objects.flatMap larch.getD) := rfl

/-- the mapping is the rendering of the layers the rule works with -/
theorem ruleLayerMap_eq (mt : Str → Str → Bool) (g : PGraph Str) (larch : LArch) (ls : Layers) (r : LRuleSpec)
    (hres : resolves mt g.nodes larch ls = true) :
    ruleLayerMap mt g larch r = (ruleLayers larch ls r).map fun l => (l.1, l.2.map render) :=
  update_eq_kept mt g.nodes (ruleConv larch r) larch ls hres

/-- the repaired matcher on a compiled layer rule: if regex conversion and graph queries succeed and the resolved layer
    mapping assigns some identifier to two different layers, `assert_applies` raises `LayerMismatch` -/
theorem overlapping_layers_rejected_lemma (mt : Str → Str → Bool) (g : PGraph Str) (larch : LArch) (r : LRuleSpec)
    (hs : larch.getD r.subject ≠ []) (ho : r.anything = true ∨ r.objects.flatMap larch.getD ≠ [])
    (hany : r.anything = true → r.verb = .shouldNot)
    (hdd : r.anything = true → dedupSubjects (larch.getD r.subject) = larch.getD r.subject)
    (subs objs : List Filter) (q : Option ExplDeps × Option OtherDeps)
    (h1 : convertFilters mt g.nodes (larch.getD r.subject) = .ok subs)
    (h2 : convertFilters mt g.nodes
      (if r.anything = true then larch.getD r.subject else r.objects.flatMap larch.getD) = .ok objs)
    (h3 : runQueries g (behL r) r.importDir subs objs = .ok q)
    (hov : (ruleLayerMap mt g larch r).consistent = false) :
    assertAppliesLayer mt (compileLayerRule larch r) g = .err .layerMismatch := by
  rw [assertAppliesLayer_compile mt g larch r hs ho hany hdd]
  rw [ruleLayerMap_eq_ruleMap] at hov
  exact matchLayerRule_inconsistent mt g larch _ _ _ _ subs objs q h1 h2 h3 hov

/-- on name and regex layers, `assert_applies` is the tail of `matchLayerRule` on modules generating the subject layer and
    the modules of the object layers, with a layer mapping that satisfies the hypotheses of the core lemma.
    The domain hypothesis is about the layers the rule works with (`ruleLayers`) -/
theorem layer_reduce (mt : Str → Str → Bool) (a : Arch) (g : PGraph Str) (hg : GraphOf a g)
    (hwf : a.wf = true) (ls : Layers) (r : LRuleSpec)
    (hany : r.anything = true → r.verb = .shouldNot)
    (larch : LArch) (hres : resolves mt g.nodes larch ls = true) (hd : LDom a (ruleLayers larch ls r) r) :
    ∃ S O, LCtx a (ruleLayers larch ls r) r (ruleLayerMap mt g larch r) S O (layerTag (ruleLayers larch ls r)) ∧
      assertAppliesLayer mt (compileLayerRule larch r) g =
        matchTail g (ruleLayerMap mt g larch r) (behL r) r.importDir
          ((S.map SFilter.named).map compileFilter) ((O.map SFilter.named).map compileFilter) := by
  have hw := archWF_of_wf a hwf
  have hmap := ruleLayerMap_eq mt g larch ls r hres
  have hgetS : (ruleLayers larch ls r).get r.subject = ls.get r.subject :=
    kept_get mt g.nodes _ larch ls hres r.subject (ruleConv_subj larch r)
  have hanyS : ls.any (·.1 == r.subject) = true := by
    rw [← kept_any mt g.nodes (ruleConv larch r) larch ls hres]; exact hd.subj
  have hresS := resolves_getD mt g.nodes larch ls hres r.subject hanyS
  have hlne : ls.get r.subject ≠ [] := by rw [← hgetS]; exact hd.subjNe
  have hnodesS : ∀ x ∈ ls.get r.subject, x ∈ a.nodes := by
    intro x hx; rw [← hgetS] at hx; exact hd.nodesS x hx
  have hFSne := layerRes_ne_nil hresS hlne
  cases hanyB : r.anything
  · -- the twelve shapes
    have hgetO : ∀ on ∈ r.objects, (ruleLayers larch ls r).get on = ls.get on :=
      fun on hon => kept_get mt g.nodes _ larch ls hres on (ruleConv_obj larch r hanyB on hon)
    have hresO : ∀ on ∈ r.objects, layerRes mt g.nodes (larch.getD on) (ls.get on) = true := by
      intro on hon
      apply resolves_getD mt g.nodes larch ls hres on
      rw [← kept_any mt g.nodes (ruleConv larch r) larch ls hres]; exact (hd.obj hanyB on hon).1
    have hOne : ∀ on ∈ r.objects, ls.get on ≠ [] := by
      intro on hon; rw [← hgetO on hon]; exact (hd.obj hanyB on hon).2.2
    have hdenS := denotes_layer hresS hlne
    obtain ⟨S, hconvS, hmemS⟩ := convertFilters_layer hw hg mt _ _ hdenS hnodesS
    have hdenO := denotes_flatMap (mt := mt) (nodes := g.nodes) r.objects larch.getD ls.get
      (fun on hon => denotes_layer (hresO on hon) (hOne on hon))
    obtain ⟨O, hconvO, hmemO⟩ := convertFilters_layer hw hg mt _ _ hdenO (by
      rintro x ⟨on, hon, hx⟩
      rw [← hgetO on hon] at hx
      exact hd.nodesO hanyB on hon x hx)
    have hFOne : r.objects.flatMap larch.getD ≠ [] := by
      obtain ⟨on, hon⟩ := List.exists_mem_of_ne_nil _ (hd.objNe hanyB)
      obtain ⟨f, hf⟩ := List.exists_mem_of_ne_nil _ (layerRes_ne_nil (hresO on hon) (hOne on hon))
      intro h0
      have : f ∈ r.objects.flatMap larch.getD := List.mem_flatMap.2 ⟨on, hon, hf⟩
      rw [h0] at this; cases this
    have c := lctx_core hw hd S O
      (fun n => by rw [hgetS]; exact inLayer_congr hmemS n)
      (fun x hx => by rw [hgetS]; exact (hmemS x).1 hx)
      (fun x => by
        simp only [hanyB, Bool.false_eq_true, if_false]
        rw [hmemO x]
        constructor
        · rintro ⟨on, hon, hx⟩; exact ⟨on, hon, by rw [hgetO on hon]; exact hx⟩
        · rintro ⟨on, hon, hx⟩; exact ⟨on, hon, by rw [← hgetO on hon]; exact hx⟩)
    rw [← hmap] at c
    refine ⟨S, O, c, ?_⟩
    have hsF : subjF larch r = larch.getD r.subject := by simp [subjF, hanyB]
    have hoF : objF larch r = r.objects.flatMap larch.getD := by simp [objF, hanyB]
    rw [assertAppliesLayer_compile' mt g larch r (by rw [hsF]; exact hFSne) (.inr hFOne) hany
      (fun h => by rw [hanyB] at h; cases h), hsF, hoF]
    have hconv : ((larch.getD r.subject ++ r.objects.flatMap larch.getD).filter (·.isRegex)).map (·.id) =
        ruleConv larch r := by simp [ruleConv, hanyB]
    rw [matchLayerRule_eq mt g larch _ _ _ _ _ _ hconvS hconvO (by rw [hconv]; exact c.cons), hconv]
    rfl
  · -- the two `any layer` aliases
    obtain ⟨D, hden, hDsub, hDin, hDreg, hDabs, hDne⟩ := subject_filters hw hg mt hresS hlne hnodesS
    obtain ⟨S, hconvS, hmemS⟩ := convertFilters_layer hw hg mt _ _ hden (fun x hx => hnodesS x (hDsub x hx))
    have c := lctx_core hw hd S S
      (fun n => by rw [hgetS, ← hDin]; exact inLayer_congr hmemS n)
      (fun x hx => by rw [hgetS]; exact hDsub x ((hmemS x).1 hx))
      (fun x => by simp only [hanyB, if_true])
    rw [← hmap] at c
    refine ⟨S, S, c, ?_⟩
    have hsF : subjF larch r = dedupSubjects (larch.getD r.subject) := by simp [subjF, hanyB]
    have hoF : objF larch r = dedupSubjects (larch.getD r.subject) := by simp [objF, hanyB]
    rw [assertAppliesLayer_compile' mt g larch r (by rw [hsF]; exact hDne) (.inl hanyB) hany (fun _ => hDabs), hsF, hoF]
    have hconv : ((dedupSubjects (larch.getD r.subject) ++ dedupSubjects (larch.getD r.subject)).filter
        (·.isRegex)).map (·.id) = ruleConv larch r := by
      simp only [ruleConv, hanyB, if_true, List.filter_append, hDreg]
    rw [matchLayerRule_eq mt g larch _ _ _ _ _ _ hconvS hconvS (by rw [hconv]; exact c.cons), hconv]
    rfl

/-- the specification's verdict looks only at the layers the rule mentions -/
theorem layerVerdict_congr (a : Arch) (ls ls' : Layers) (r : LRuleSpec)
    (hs : ls.get r.subject = ls'.get r.subject) (ho : r.anything = false → ∀ on ∈ r.objects, ls.get on = ls'.get on) :
    layerVerdict a ls r = layerVerdict a ls' r := by
  unfold layerVerdict
  cases hany : r.anything
  · have : r.objects.map ls.get = r.objects.map ls'.get := List.map_congr_left (ho hany)
    rw [hs, this]
  · rw [hs]
    simp

/-- … in particular it is the verdict on the layers the rule works with -/
theorem layerVerdict_ruleLayers (mt : Str → Str → Bool) (nodes : List Str) (a : Arch) (larch : LArch) (ls : Layers)
    (r : LRuleSpec) (hres : resolves mt nodes larch ls = true) :
    layerVerdict a (ruleLayers larch ls r) r = layerVerdict a ls r :=
  layerVerdict_congr a _ _ r (kept_get mt nodes _ larch ls hres r.subject (ruleConv_subj larch r))
    (fun hany on hon => kept_get mt nodes _ larch ls hres on (ruleConv_obj larch r hany on hon))

/-- C05 on name and regex layers, domain stated on the layers the rule works with -/
theorem layer_verdict_kept_lemma (mt : Str → Str → Bool) (a : Arch) (g : PGraph Str) (hg : GraphOf a g)
    (hwf : a.wf = true) (ls : Layers) (r : LRuleSpec)
    (hany : r.anything = true → r.verb = .shouldNot)
    (larch : LArch) (hres : resolves mt g.nodes larch ls = true)
    (hdom : layerDomainK a (ruleLayers larch ls r) r = true) :
    (assertAppliesLayer mt (compileLayerRule larch r) g).cls = VClass.ofBool (layerVerdict a ls r) := by
  obtain ⟨S, O, c, heq⟩ := layer_reduce mt a g hg hwf ls r hany larch hres (ldom_of_layerDomainK a _ r hdom)
  rw [heq, ← layerVerdict_ruleLayers mt g.nodes a larch ls r hres]
  exact matchTail_verdict c (archWF_of_wf a hwf) hg hany

/-- the relaxed domain of the resolved layers, as the domain of the core lemma on the layers the rule works with -/
theorem ldom_of_layerDomain' (mt : Str → Str → Bool) (nodes : List Str) (a : Arch) (hwf : a.wf = true) (ls : Layers)
    (r : LRuleSpec) (hdom : layerDomain' a ls r = true) (larch : LArch) (hres : resolves mt nodes larch ls = true) :
    LDom a (ruleLayers larch ls r) r :=
  ldom_kept (archWF_of_wf a hwf) (ldom'_of_layerDomain' a ls r hdom) mt nodes larch hres

/-- C05 on name and regex layers -/
theorem layer_verdict_lemma (mt : Str → Str → Bool) (a : Arch) (g : PGraph Str) (hg : GraphOf a g)
    (hwf : a.wf = true) (ls : Layers) (r : LRuleSpec) (hdom : layerDomain' a ls r = true)
    (hany : r.anything = true → r.verb = .shouldNot)
    (larch : LArch) (hres : resolves mt g.nodes larch ls = true) :
    (assertAppliesLayer mt (compileLayerRule larch r) g).cls = VClass.ofBool (layerVerdict a ls r) := by
  obtain ⟨S, O, c, heq⟩ := layer_reduce mt a g hg hwf ls r hany larch hres
    (ldom_of_layerDomain' mt g.nodes a hwf ls r hdom larch hres)
  rw [heq, ← layerVerdict_ruleLayers mt g.nodes a larch ls r hres]
  exact matchTail_verdict c (archWF_of_wf a hwf) hg hany

/-- soundness of the layer report: every reported import line is an import of the architecture, and the two layer
    tags printed with it are the (successful) lookups of its ends and differ -/
theorem layer_report_sound_kept_lemma (mt : Str → Str → Bool) (a : Arch) (g : PGraph Str) (hg : GraphOf a g)
    (hwf : a.wf = true) (ls : Layers) (r : LRuleSpec)
    (hany : r.anything = true → r.verb = .shouldNot)
    (larch : LArch) (hres : resolves mt g.nodes larch ls = true) (hd : LDom a (ruleLayers larch ls r) r)
    (items : List LItem)
    (h : assertAppliesLayer mt (compileLayerRule larch r) g = .fail items) :
    ∀ u v b tu tv, LItem.imp u v b tu tv ∈ items →
      (∃ e ∈ a.imports, u = render e.1 ∧ v = render e.2 ∧ tu = layerTag (ruleLayers larch ls r) e.1 ∧
        tv = layerTag (ruleLayers larch ls r) e.2) ∧ v ∈ g.importSuccs u ∧
      (ruleLayerMap mt g larch r).layerOf u = .ok tu ∧ (ruleLayerMap mt g larch r).layerOf v = .ok tv ∧ tu ≠ tv := by
  have hw := archWF_of_wf a hwf
  obtain ⟨S, O, c, heq⟩ := layer_reduce mt a g hg hwf ls r hany larch hres hd
  rw [heq] at h
  intro u v b tu tv hmem
  obtain ⟨e, he, hu, hv, htu, htv, hne⟩ := matchTail_sound c hw hg items h u v b tu tv hmem
  refine ⟨⟨e, he, hu, hv, htu, htv⟩, ?_, ?_, ?_, hne⟩
  · rw [hu, hv]; exact (hg.succs _ _).2 ⟨e, he, rfl, rfl⟩
  · rw [hu, htu]; exact c.tagOk _ (hw.impL e he)
  · rw [hv, htv]; exact c.tagOk _ (hw.impR e he)

theorem layer_report_sound_lemma (mt : Str → Str → Bool) (a : Arch) (g : PGraph Str) (hg : GraphOf a g)
    (hwf : a.wf = true) (ls : Layers) (r : LRuleSpec) (hdom : layerDomain' a ls r = true)
    (hany : r.anything = true → r.verb = .shouldNot)
    (larch : LArch) (hres : resolves mt g.nodes larch ls = true) (items : List LItem)
    (h : assertAppliesLayer mt (compileLayerRule larch r) g = .fail items) :
    ∀ u v b tu tv, LItem.imp u v b tu tv ∈ items →
      (∃ e ∈ a.imports, u = render e.1 ∧ v = render e.2) ∧ v ∈ g.importSuccs u ∧
      (ruleLayerMap mt g larch r).layerOf u = .ok tu ∧ (ruleLayerMap mt g larch r).layerOf v = .ok tv ∧ tu ≠ tv := by
  intro u v b tu tv hmem
  obtain ⟨⟨e, he, hu, hv, _, _⟩, h2, h3, h4, h5⟩ := layer_report_sound_kept_lemma mt a g hg hwf ls r hany larch hres
    (ldom_of_layerDomain' mt g.nodes a hwf ls r hdom larch hres) items h u v b tu tv hmem
  exact ⟨⟨e, he, hu, hv⟩, h2, h3, h4, h5⟩

/-- name layers resolve to themselves -/
theorem resolves_compileLArch (mt : Str → Str → Bool) (nodes : List Str) (ls : Layers) :
    resolves mt nodes (compileLArch ls) ls = true := by
  induction ls with
  | nil => rfl
  | cons l ls ih =>
    show resolves mt nodes ((l.1, l.2.map fun m => Filter.name (render m)) :: compileLArch ls) (l :: ls) = true
    rw [resolves_cons]
    exact ⟨rfl, by simp [layerRes], ih⟩

/-- C05 on name layers -/
theorem layer_verdict_names_lemma (mt : Str → Str → Bool) (a : Arch) (g : PGraph Str) (hg : GraphOf a g)
    (hwf : a.wf = true) (ls : Layers) (r : LRuleSpec) (hdom : layerDomain' a ls r = true)
    (hany : r.anything = true → r.verb = .shouldNot) :
    (assertAppliesLayer mt (compileLayerRule (compileLArch ls) r) g).cls = VClass.ofBool (layerVerdict a ls r) :=
  layer_verdict_lemma mt a g hg hwf ls r hdom hany _ (resolves_compileLArch mt g.nodes ls)

/-- soundness of the report on name layers: reported imports are imports between different layers -/
theorem layer_report_sound_names_lemma (mt : Str → Str → Bool) (a : Arch) (g : PGraph Str) (hg : GraphOf a g)
    (hwf : a.wf = true) (ls : Layers) (r : LRuleSpec) (hdom : layerDomain' a ls r = true)
    (hany : r.anything = true → r.verb = .shouldNot) (items : List LItem)
    (h : assertAppliesLayer mt (compileLayerRule (compileLArch ls) r) g = .fail items) :
    ∀ u v b tu tv, LItem.imp u v b tu tv ∈ items →
      ∃ e ∈ a.imports, u = render e.1 ∧ v = render e.2 ∧ tu = layerTag ls e.1 ∧ tv = layerTag ls e.2 ∧ tu ≠ tv := by
  intro u v b tu tv hmem
  have hres := resolves_compileLArch mt g.nodes ls
  obtain ⟨⟨e, he, hu, hv, htu, htv⟩, _, _, _, hne⟩ := layer_report_sound_kept_lemma mt a g hg hwf ls r hany _ hres
    (ldom_of_layerDomain' mt g.nodes a hwf ls r hdom _ hres) items h u v b tu tv hmem
  have hk : ruleLayers (compileLArch ls) ls r = ls := keptLayers_names _ ls
  rw [hk] at htu htv
  exact ⟨e, he, hu, hv, htu, htv, hne⟩

/-- the `any layer` aliases exist only for `should_not` -/
theorem any_layer_misused_lemma (mt : Str → Str → Bool) (g : PGraph Str) (larch : LArch) (r : LRuleSpec)
    (hany : r.anything = true) (hv : r.verb ≠ .shouldNot) :
    assertAppliesLayer mt (compileLayerRule larch r) g = .err .improperlyConfigured := by
  obtain ⟨verb, dir, exc, subject, objects, anything⟩ := r
  simp only at hany hv
  subst hany
  cases verb
  · simp [assertAppliesLayer, compileLayerRule, anythingMisused]
  · simp [assertAppliesLayer, compileLayerRule, anythingMisused]
  · exact absurd rfl hv

theorem resolves_hasLayer (mt : Str → Str → Bool) (nodes : List Str) (larch : LArch) (ls : Layers)
    (h : resolves mt nodes larch ls = true) (n : Str) : larch.hasLayer n = ls.any (·.1 == n) := by
  induction larch generalizing ls with
  | nil =>
    cases ls with
    | nil => rfl
    | cons l ls => simp [resolves] at h
  | cons L Ls ih =>
    cases ls with
    | nil => simp [resolves] at h
    | cons l ls =>
      obtain ⟨h1, _, h3⟩ := (resolves_cons mt nodes L Ls l ls).1 h
      have := ih ls h3
      simp only [LArch.hasLayer] at this ⊢
      simp only [List.any_cons, h1, this]

/-- C05 through the fluent builder: the complete call chain followed by `assert_applies` -/
theorem layer_verdict_chain_lemma (mt : Str → Str → Bool) (a : Arch) (g : PGraph Str) (hg : GraphOf a g)
    (hwf : a.wf = true) (ls : Layers) (r : LRuleSpec) (hdom : layerDomain' a ls r = true)
    (hany : r.anything = true → r.verb = .shouldNot)
    (larch : LArch) (hres : resolves mt g.nodes larch ls = true) (isList : Bool) :
    (runLayerRuleOps mt (layerRuleOps larch r isList) g).1.cls = VClass.ofBool (layerVerdict a ls r) := by
  have hd' := ldom'_of_layerDomain' a ls r hdom
  have hd := ldom_of_ldom' (archWF_of_wf a hwf) hd'
  rw [runLayerRuleOps_chain_lemma mt g larch r isList]
  · exact layer_verdict_lemma mt a g hg hwf ls r hdom hany larch hres
  · rw [resolves_hasLayer mt g.nodes larch ls hres]; exact hd.subj
  · exact layerRes_ne_nil (resolves_getD mt g.nodes larch ls hres r.subject hd.subj) hd.subjNe
  · intro hanyB
    rw [List.all_eq_true]
    intro on hon
    rw [resolves_hasLayer mt g.nodes larch ls hres]
    exact (hd.obj hanyB on hon).1

end Pta
