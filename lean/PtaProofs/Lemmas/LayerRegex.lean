/-
  PtaProofs.Lemmas.LayerRegex — C05 for layered architectures with name layers and regex layers:
  what `resolves` gives, what `convertFilters` returns on layer filters, what `updateLayerMap` keeps, and the
  instantiation of the core lemma of LayerSem.
-/
import Bridge.LayerAbs
import PtaProofs.Lemmas.LayerRule
import PtaProofs.Lemmas.LayerChain
namespace Pta
open PtaSpec

def nmF (x : Name) : Filter := .name (render x)

theorem nmF_eq (x : Name) : nmF x = compileFilter (.named x) := rfl

/-! ### `layerRes` / `resolves`, unpacked -/

theorem layerRes_cases {mt : Str → Str → Bool} {nodes : List Str} {F : List Filter} {l : List Name}
    (h : layerRes mt nodes F l = true) :
    F = l.map nmF ∨ ∃ p, F = [.regex p] ∧ nodes.filter (mt p) = l.map render := by
  unfold layerRes at h
  rw [Bool.or_eq_true] at h
  rcases h with h | h
  · left; exact eq_of_beq h
  · right
    split at h
    · exact ⟨_, rfl, eq_of_beq h⟩
    · cases h

theorem resolves_cons (mt : Str → Str → Bool) (nodes : List Str) (L : Str × List Filter) (Ls : LArch)
    (l : List Char × List Name) (ls : Layers) :
    resolves mt nodes (L :: Ls) (l :: ls) = true ↔
      L.1 = l.1 ∧ layerRes mt nodes L.2 l.2 = true ∧ resolves mt nodes Ls ls = true := by
  simp [resolves, and_assoc]

theorem getD_cons (L : Str × List Filter) (Ls : LArch) (n : Str) :
    LArch.getD (L :: Ls) n = if L.1 == n then L.2 else LArch.getD Ls n := by
  unfold LArch.getD LArch.get
  rw [List.find?_cons]
  cases h : L.1 == n <;> simp

theorem resolves_getD (mt : Str → Str → Bool) (nodes : List Str) (larch : LArch) (ls : Layers)
    (h : resolves mt nodes larch ls = true) (n : Str) (hn : ls.any (·.1 == n) = true) :
    layerRes mt nodes (larch.getD n) (ls.get n) = true := by
  induction larch generalizing ls with
  | nil =>
    cases ls with
    | nil => simp at hn
    | cons l ls => simp [resolves] at h
  | cons L Ls ih =>
    cases ls with
    | nil => simp [resolves] at h
    | cons l ls =>
      obtain ⟨h1, h2, h3⟩ := (resolves_cons mt nodes L Ls l ls).1 h
      rw [getD_cons, layers_get_cons, h1]
      cases hl : l.1 == n
      · simp only [Bool.false_eq_true, if_false]
        simp only [List.any_cons, hl, Bool.false_or] at hn
        exact ih ls h3 hn
      · simpa using h2

/-! ### `updateLayerMap` entry by entry -/

def entryOf (mt : Str → Str → Bool) (mods : List Str) (conv : List Str) (L : Str × List Filter) : Str × List Str :=
  (L.1, L.2.flatMap fun f =>
    match f with
    | .regex p => if conv.contains p then mods.filter (mt p) else []
    | f => [f.id])

theorem updateLayerMap_cons (mt : Str → Str → Bool) (mods : List Str) (L : Str × List Filter) (Ls : LArch)
    (conv : List Str) :
    updateLayerMap mt mods (L :: Ls) conv = entryOf mt mods conv L :: updateLayerMap mt mods Ls conv := rfl

theorem entryOf_names (mt : Str → Str → Bool) (mods conv : List Str) (n : Str) (l : List Name) :
    entryOf mt mods conv (n, l.map nmF) = (n, l.map render) := by
  unfold entryOf
  simp only [List.flatMap_map, nmF, Filter.id]
  rw [flatMap_singleton_map]

theorem entryOf_regex (mt : Str → Str → Bool) (mods conv : List Str) (n p : Str) :
    entryOf mt mods conv (n, [.regex p]) = (n, if conv.contains p then mods.filter (mt p) else []) := by
  unfold entryOf
  simp

/-- M1: every entry of the updated mapping is a layer of `ls`, kept or emptied -/
theorem updateLayerMap_sub (mt : Str → Str → Bool) (nodes conv : List Str) (larch : LArch) (ls : Layers)
    (h : resolves mt nodes larch ls = true) :
    ∀ e ∈ updateLayerMap mt nodes larch conv, ∃ l ∈ ls, l.1 = e.1 ∧ (e.2 = l.2.map render ∨ e.2 = []) := by
  induction larch generalizing ls with
  | nil => intro e he; simp [updateLayerMap] at he
  | cons L Ls ih =>
    cases ls with
    | nil => simp [resolves] at h
    | cons l ls =>
      obtain ⟨h1, h2, h3⟩ := (resolves_cons mt nodes L Ls l ls).1 h
      intro e he
      rw [updateLayerMap_cons] at he
      rcases List.mem_cons.1 he with rfl | he
      · refine ⟨l, by simp, ?_⟩
        obtain ⟨Ln, LF⟩ := L
        simp only at h1 h2
        subst h1
        rcases layerRes_cases h2 with rfl | ⟨p, rfl, hp⟩
        · rw [entryOf_names]; exact ⟨rfl, .inl rfl⟩
        · rw [entryOf_regex]
          refine ⟨rfl, ?_⟩
          cases conv.contains p
          · exact .inr rfl
          · exact .inl hp
      · obtain ⟨l', hl', h'⟩ := ih ls h3 e he
        exact ⟨l', List.mem_cons_of_mem _ hl', h'⟩

/-- M2: a layer all of whose regex filters were converted by the rule is kept in full -/
theorem updateLayerMap_keep (mt : Str → Str → Bool) (nodes conv : List Str) (larch : LArch) (ls : Layers)
    (h : resolves mt nodes larch ls = true) (hnd : nodupC (ls.map (·.1)) = true)
    (l : List Char × List Name) (hl : l ∈ ls)
    (hc : ∀ f ∈ larch.getD l.1, f.isRegex = true → f.id ∈ conv) :
    (l.1, l.2.map render) ∈ updateLayerMap mt nodes larch conv := by
  induction larch generalizing ls with
  | nil =>
    cases ls with
    | nil => cases hl
    | cons l ls => simp [resolves] at h
  | cons L Ls ih =>
    cases ls with
    | nil => simp [resolves] at h
    | cons l0 ls =>
      obtain ⟨h1, h2, h3⟩ := (resolves_cons mt nodes L Ls l0 ls).1 h
      rw [List.map_cons, nodupC_cons] at hnd
      rw [updateLayerMap_cons]
      rw [getD_cons] at hc
      rcases List.mem_cons.1 hl with rfl | hl'
      · obtain ⟨Ln, LF⟩ := L
        simp only at h1 h2 hc
        subst h1
        simp only [beq_self_eq_true, if_true] at hc
        rcases layerRes_cases h2 with rfl | ⟨p, rfl, hp⟩
        · rw [entryOf_names]; simp
        · rw [entryOf_regex]
          have hpc : p ∈ conv := hc (.regex p) (by simp) rfl
          have : conv.contains p = true := by simpa using hpc
          rw [this, if_pos rfl, hp]
          exact List.mem_cons_self
      · have hne : (L.1 == l.1) = false := by
          cases hh : L.1 == l.1
          · rfl
          · exfalso
            apply hnd.1
            rw [beq_iff_eq] at hh
            rw [← h1, hh]
            exact List.mem_map_of_mem hl'
        simp only [hne, Bool.false_eq_true, if_false] at hc
        exact List.mem_cons_of_mem _ (ih ls h3 hnd.2 hl' hc)

/-! ### `convertFilters` on layer filters -/

/-- what the filters of one side of a layer rule stand for -/
structure Denotes (mt : Str → Str → Bool) (nodes : List Str) (fs : List Filter) (D : Name → Prop) : Prop where
  fwd : ∀ f ∈ fs, (∃ x, f = nmF x ∧ D x) ∨
    (∃ p, f = .regex p ∧ (∃ s ∈ nodes, mt p s = true) ∧ ∀ s ∈ nodes, mt p s = true → ∃ x, s = render x ∧ D x)
  bwd : ∀ x, D x → nmF x ∈ fs ∨ ∃ p, Filter.regex p ∈ fs ∧ mt p (render x) = true

theorem convertFilters_layer {a : Arch} {g : PGraph Str} (hw : ArchWF a) (hg : GraphOf a g) (mt : Str → Str → Bool)
    (fs : List Filter) (D : Name → Prop) (hden : Denotes mt g.nodes fs D) (hD : ∀ x, D x → x ∈ a.nodes) :
    ∃ N : List Name, convertFilters mt g.nodes fs = .ok ((N.map SFilter.named).map compileFilter) ∧
      ∀ x, x ∈ N ↔ D x := by
  have hregex : ∀ r ∈ fs, r.isRegex = true →
      ∃ p, r = .regex p ∧ (∃ s ∈ g.nodes, mt p s = true) ∧ ∀ s ∈ g.nodes, mt p s = true → ∃ x, s = render x ∧ D x := by
    intro r hr hreg
    rcases hden.fwd r hr with ⟨x, rfl, _⟩ | h
    · simp [nmF, Filter.isRegex] at hreg
    · exact h
  have hno : ((fs.filter (·.isRegex)).any fun r => !(g.nodes.any (mt r.id))) = false := by
    rw [List.any_eq_false]
    intro r hr
    obtain ⟨hr1, hr2⟩ := List.mem_filter.1 hr
    obtain ⟨p, rfl, ⟨s, hs, hm⟩, _⟩ := hregex r hr1 hr2
    have : g.nodes.any (mt p) = true := List.any_eq_true.2 ⟨s, hs, hm⟩
    simp [Filter.id, this]
  have hR : ∀ f ∈ dedup ((g.nodes.filter fun m => (fs.filter (·.isRegex)).any fun r => mt r.id m).map Filter.name) ++
      fs.filter (fun f => !f.isRegex), ∃ x, f = nmF x ∧ D x := by
    intro f hf
    rcases List.mem_append.1 hf with hf | hf
    · rw [mem_dedup] at hf
      obtain ⟨s, hs, rfl⟩ := List.mem_map.1 hf
      obtain ⟨hs1, hs2⟩ := List.mem_filter.1 hs
      obtain ⟨r, hr, hm⟩ := List.any_eq_true.1 hs2
      obtain ⟨hr1, hr2⟩ := List.mem_filter.1 hr
      obtain ⟨p, rfl, _, hall⟩ := hregex r hr1 hr2
      obtain ⟨x, rfl, hx⟩ := hall s hs1 hm
      exact ⟨x, rfl, hx⟩
    · obtain ⟨hf1, hf2⟩ := List.mem_filter.1 hf
      rcases hden.fwd f hf1 with h | ⟨p, rfl, _⟩
      · exact h
      · simp [Filter.isRegex] at hf2
  have hsd : ∀ x, D x → splitDots (render x) = x := fun x hx => splitDots_render x (hw.nwf x (hD x hx))
  refine ⟨(dedup ((g.nodes.filter fun m => (fs.filter (·.isRegex)).any fun r => mt r.id m).map Filter.name) ++
      fs.filter (fun f => !f.isRegex)).map (fun f => splitDots f.id), ?_, ?_⟩
  · unfold convertFilters
    simp only [hno, Bool.false_eq_true, if_false]
    congr 1
    rw [List.map_map, List.map_map]
    symm
    conv => rhs; rw [← List.map_id (dedup _ ++ _)]
    apply List.map_congr_left
    intro f hf
    obtain ⟨x, rfl, hx⟩ := hR f hf
    simp only [Function.comp_def, nmF, Filter.id, hsd x hx, compileFilter, id]
  · intro x
    constructor
    · intro hx
      obtain ⟨f, hf, rfl⟩ := List.mem_map.1 hx
      obtain ⟨x', rfl, hx'⟩ := hR f hf
      simp only [nmF, Filter.id, hsd x' hx']
      exact hx'
    · intro hx
      apply List.mem_map.2
      refine ⟨nmF x, ?_, by simp only [nmF, Filter.id, hsd x hx]⟩
      rcases hden.bwd x hx with h | ⟨p, hp, hm⟩
      · exact List.mem_append_right _ (List.mem_filter.2 ⟨h, by simp [nmF, Filter.isRegex]⟩)
      · apply List.mem_append_left
        rw [mem_dedup]
        apply List.mem_map.2
        refine ⟨render x, List.mem_filter.2 ⟨?_, ?_⟩, rfl⟩
        · have := hasNode_render hg x (hD x hx)
          simpa [PGraph.hasNode] using this
        · exact List.any_eq_true.2 ⟨.regex p, List.mem_filter.2 ⟨hp, rfl⟩, hm⟩

/-- one layer definition and its resolution -/
theorem denotes_layer {mt : Str → Str → Bool} {nodes : List Str} {F : List Filter} {l : List Name}
    (h : layerRes mt nodes F l = true) (hne : l ≠ []) : Denotes mt nodes F (fun x => x ∈ l) := by
  rcases layerRes_cases h with rfl | ⟨p, rfl, hp⟩
  · constructor
    · intro f hf
      obtain ⟨x, hx, rfl⟩ := List.mem_map.1 hf
      exact .inl ⟨x, rfl, hx⟩
    · intro x hx
      exact .inl (List.mem_map_of_mem hx)
  · have hmem : ∀ s, s ∈ nodes ∧ mt p s = true ↔ ∃ x ∈ l, s = render x := by
      intro s
      rw [← List.mem_filter, hp, List.mem_map]
      constructor
      · rintro ⟨x, hx, rfl⟩; exact ⟨x, hx, rfl⟩
      · rintro ⟨x, hx, rfl⟩; exact ⟨x, hx, rfl⟩
    constructor
    · intro f hf
      simp only [List.mem_singleton] at hf
      subst hf
      right
      refine ⟨p, rfl, ?_, ?_⟩
      · obtain ⟨x, hx⟩ := List.exists_mem_of_ne_nil _ hne
        obtain ⟨h1, h2⟩ := (hmem (render x)).2 ⟨x, hx, rfl⟩
        exact ⟨render x, h1, h2⟩
      · intro s hs hm
        obtain ⟨x, hx, rfl⟩ := (hmem s).1 ⟨hs, hm⟩
        exact ⟨x, rfl, hx⟩
    · intro x hx
      right
      exact ⟨p, by simp, ((hmem (render x)).2 ⟨x, hx, rfl⟩).2⟩

/-- several layer definitions, concatenated -/
theorem denotes_flatMap {mt : Str → Str → Bool} {nodes : List Str} {ι : Type} (ons : List ι) (F : ι → List Filter)
    (l : ι → List Name) (h : ∀ on ∈ ons, Denotes mt nodes (F on) (fun x => x ∈ l on)) :
    Denotes mt nodes (ons.flatMap F) (fun x => ∃ on ∈ ons, x ∈ l on) := by
  constructor
  · intro f hf
    obtain ⟨on, hon, hf'⟩ := List.mem_flatMap.1 hf
    rcases (h on hon).fwd f hf' with ⟨x, rfl, hx⟩ | ⟨p, rfl, hex, hall⟩
    · exact .inl ⟨x, rfl, on, hon, hx⟩
    · right
      refine ⟨p, rfl, hex, ?_⟩
      intro s hs hm
      obtain ⟨x, rfl, hx⟩ := hall s hs hm
      exact ⟨x, rfl, on, hon, hx⟩
  · rintro x ⟨on, hon, hx⟩
    rcases (h on hon).bwd x hx with h' | ⟨p, hp, hm⟩
    · exact .inl (List.mem_flatMap.2 ⟨on, hon, h'⟩)
    · exact .inr ⟨p, List.mem_flatMap.2 ⟨on, hon, hp⟩, hm⟩

/-! ### the context of the core lemma, on name and regex layers -/

theorem layerRes_ne_nil {mt : Str → Str → Bool} {nodes : List Str} {F : List Filter} {l : List Name}
    (h : layerRes mt nodes F l = true) (hne : l ≠ []) : F ≠ [] := by
  rcases layerRes_cases h with rfl | ⟨p, rfl, _⟩
  · simpa using hne
  · simp

theorem isStrictSub_self (p : Str) : isStrictSub p p = false := by
  cases h : isStrictSub p p
  · rfl
  · have := ((startsWith_iff_prefix _ _).1 h).length_le
    simp at this
    omega

theorem dedupSubjects_layer {a : Arch} (hw : ArchWF a) {mt : Str → Str → Bool} {nodes : List Str} {F : List Filter}
    {l : List Name} (h : layerRes mt nodes F l = true) (hn : ∀ x ∈ l, x ∈ a.nodes)
    (hu : ∀ x ∈ l, ∀ y ∈ l, x = y ∨ related x y = false) : dedupSubjects F = F := by
  rcases layerRes_cases h with rfl | ⟨p, rfl, _⟩
  · have : l.map nmF = (l.map SFilter.named).map compileFilter := by
      rw [List.map_map]; rfl
    rw [this]
    apply dedupSubjects_strict hw
    · intro f hf
      obtain ⟨x, hx, rfl⟩ := List.mem_map.1 hf
      exact hn x hx
    · intro f hf f' hf'
      obtain ⟨x, hx, rfl⟩ := List.mem_map.1 hf
      obtain ⟨y, hy, rfl⟩ := List.mem_map.1 hf'
      rcases hu x hx y hy with rfl | h
      · exact .inl rfl
      · exact .inr h
  · simp [dedupSubjects, Filter.id, isStrictSub_self]

theorem lctx_general {a : Arch} {ls : Layers} {r : LRuleSpec} (hw : ArchWF a) (hd : LDom a ls r)
    (mt : Str → Str → Bool) (nodes : List Str) (larch : LArch) (hres : resolves mt nodes larch ls = true)
    (conv : List Str)
    (hcS : ∀ f ∈ larch.getD r.subject, f.isRegex = true → f.id ∈ conv)
    (hcO : r.anything = false → ∀ on ∈ r.objects, ∀ f ∈ larch.getD on, f.isRegex = true → f.id ∈ conv)
    (S O : List Name) (hmemS : ∀ x, x ∈ S ↔ x ∈ ls.get r.subject)
    (hmemO : ∀ x, x ∈ O ↔ if r.anything = true then x ∈ S else ∃ on ∈ r.objects, x ∈ ls.get on) :
    ∃ tag, LCtx a ls r (updateLayerMap mt nodes larch conv) S O tag := by
  have c0 := lctx_names hw hd
  have M1 := updateLayerMap_sub mt nodes conv larch ls hres
  have hlistedWF : ∀ l ∈ ls, ∀ x ∈ l.2, nameWF x = true := fun l hl x hx => hw.nwf x (hd.nodes l hl x hx)
  have hsdmap : ∀ l ∈ ls, (l.2.map render).map splitDots = l.2 := by
    intro l hl
    rw [List.map_map]
    conv => rhs; rw [← List.map_id l.2]
    apply List.map_congr_left
    intro x hx
    exact splitDots_render x (hlistedWF l hl x hx)
  have hrsmap : ∀ l ∈ ls, ((l.2.map render).map splitDots).map render = l.2.map render := by
    intro l hl; rw [hsdmap l hl]
  -- the component-level mapping
  have hm_eq : ((updateLayerMap mt nodes larch conv).map fun e => (e.1, e.2.map splitDots)).map
      (fun l => (l.1, l.2.map render)) = updateLayerMap mt nodes larch conv := by
    rw [List.map_map]
    conv => rhs; rw [← List.map_id (updateLayerMap mt nodes larch conv)]
    apply List.map_congr_left
    intro e he
    obtain ⟨l, hl, h1, h2⟩ := M1 e he
    obtain ⟨e1, e2⟩ := e
    simp only at h1 h2
    rcases h2 with rfl | rfl
    · simp only [Function.comp_def, id, hrsmap l hl]
    · rfl
  have hsub : ∀ l' ∈ (updateLayerMap mt nodes larch conv).map (fun e => (e.1, e.2.map splitDots)),
      ∃ l ∈ ls, l.1 = l'.1 ∧ (l'.2 = l.2 ∨ l'.2 = []) := by
    intro l' hl'
    obtain ⟨e, he, rfl⟩ := List.mem_map.1 hl'
    obtain ⟨l, hl, h1, h2⟩ := M1 e he
    refine ⟨l, hl, h1, ?_⟩
    rcases h2 with h2 | h2
    · left; simp only [h2, hsdmap l hl]
    · right; simp only [h2, List.map_nil]
  have hU : UnrelMap ((updateLayerMap mt nodes larch conv).map fun e => (e.1, e.2.map splitDots)) := by
    intro l₁ h₁ l₂ h₂ x hx y hy hrel
    obtain ⟨k₁, hk₁, hn₁, hc₁⟩ := hsub l₁ h₁
    obtain ⟨k₂, hk₂, hn₂, hc₂⟩ := hsub l₂ h₂
    rcases hc₁ with hc₁ | hc₁
    · rcases hc₂ with hc₂ | hc₂
      · rw [hc₁] at hx; rw [hc₂] at hy
        have := hd.unrel k₁ hk₁ k₂ hk₂ x hx y hy hrel
        exact ⟨this.1, by rw [← hn₁, ← hn₂]; exact this.2⟩
      · rw [hc₂] at hy; cases hy
    · rw [hc₁] at hx; cases hx
  have hmWF : ∀ l' ∈ (updateLayerMap mt nodes larch conv).map (fun e => (e.1, e.2.map splitDots)),
      ∀ x ∈ l'.2, nameWF x = true := by
    intro l' hl' x hx
    obtain ⟨k, hk, _, hc⟩ := hsub l' hl'
    rcases hc with hc | hc
    · rw [hc] at hx; exact hlistedWF k hk x hx
    · rw [hc] at hx; cases hx
  have hkeep : ∀ l ∈ ls, (∀ f ∈ larch.getD l.1, f.isRegex = true → f.id ∈ conv) →
      l ∈ (updateLayerMap mt nodes larch conv).map (fun e => (e.1, e.2.map splitDots)) := by
    intro l hl hc
    have := updateLayerMap_keep mt nodes conv larch ls hres hd.nodup l hl hc
    refine List.mem_map.2 ⟨_, this, ?_⟩
    simp only [hsdmap l hl]
  obtain ⟨lS, hlS, hlS1, hlS2⟩ := get_of_any ls r.subject hd.subj
  have hSsub : ∀ x, x ∈ S ++ O → x ∈ ls.get r.subject ++ objMods ls r := by
    intro x hx
    rcases List.mem_append.1 hx with h | h
    · exact List.mem_append_left _ ((hmemS x).1 h)
    · apply List.mem_append_right
      rw [c0.memO x]
      have := (hmemO x).1 h
      split at this
      · rename_i hany
        simp only [hany, if_true]
        exact (hmemS x).1 this
      · rename_i hany
        simp only [hany]
        exact this
  refine ⟨layerTag ((updateLayerMap mt nodes larch conv).map fun e => (e.1, e.2.map splitDots)),
    ?_, ?_, ?_, ?_, hmemS, hmemO, ?_, ?_, ?_, ?_, c0.objNe, c0.subjNotObj, ?_⟩
  · intro n hn
    have := layerOf_correct _ hU hmWF n (hw.nwf n hn)
    rw [hm_eq] at this
    exact this
  · intro n
    rw [← hlS1]
    exact tag_iff _ ls hU hsub hd.nodup lS hlS (hkeep lS hlS (by rw [hlS1]; exact hcS)) n
  · intro hany on hon n
    obtain ⟨l, hl, h1, _⟩ := get_of_any ls on (hd.obj hany on hon).1
    rw [← h1]
    exact tag_iff _ ls hU hsub hd.nodup l hl (hkeep l hl (by rw [h1]; exact hcO hany on hon)) n
  · intro hany on hon
    obtain ⟨l, hl, h1, _⟩ := get_of_any ls on (hd.obj hany on hon).1
    exact ⟨(l.1, l.2.map render),
      updateLayerMap_keep mt nodes conv larch ls hres hd.nodup l hl (by rw [h1]; exact hcO hany on hon), h1⟩
  · intro x hx
    exact c0.nodes x (hSsub x hx)
  · intro x hx y hy
    exact c0.unrel x (hSsub x hx) y (hSsub y hy)
  · obtain ⟨x, hx⟩ := List.exists_mem_of_ne_nil _ c0.sne
    intro h0
    have := (hmemS x).2 hx
    rw [h0] at this; cases this
  · obtain ⟨x, hx⟩ := List.exists_mem_of_ne_nil _ c0.one
    have hx' := (c0.memO x).1 hx
    intro h0
    have : x ∈ O := by
      rw [hmemO x]
      split
      · rename_i hany
        simp only [hany, if_true] at hx'
        exact (hmemS x).2 hx'
      · rename_i hany
        simp only [hany] at hx'
        exact hx'
    rw [h0] at this; cases this
  · have := consistent_of_unrelMap _ hU hmWF
    rw [hm_eq] at this
    exact this

/-- the layer mapping `LayerRuleMatcher` works with: regex layers the rule mentions are resolved, the others emptied -/
def ruleLayerMap (mt : Str → Str → Bool) (g : PGraph Str) (larch : LArch) (r : LRuleSpec) : LayerMap :=
  updateLayerMap mt g.nodes larch
    (((larch.getD r.subject ++
        (if r.anything = true then larch.getD r.subject else r.objects.flatMap larch.getD)).filter (·.isRegex)).map (·.id))

theorem ruleLayerMap_eq_ruleMap (mt : Str → Str → Bool) (g : PGraph Str) (larch : LArch) (r : LRuleSpec) :
    ruleLayerMap mt g larch r = ruleMap mt g larch (larch.getD r.subject)
      (if r.anything = true then larch.getD r.subject else r.objects.flatMap larch.getD) := rfl

/-- the repaired matcher on a compiled layer rule: if regex conversion and graph queries succeed and the resolved layer
    mapping assigns some identifier to two different layers, `assert_applies` raises `LayerMismatch` -/
theorem overlapping_layers_rejected_lemma (mt : Str → Str → Bool) (g : PGraph Str) (larch : LArch) (r : LRuleSpec)
    (hs : larch.getD r.subject ≠ []) (ho : r.anything = true ∨ r.objects.flatMap larch.getD ≠ [])
    (hany : r.anything = true → r.verb = .shouldNot)
    (hdd : r.anything = true → dedupSubjects (larch.getD r.subject) = larch.getD r.subject)
    (subs objs : List Filter) (q : Option ExplDeps × Option OtherDeps)
    (h1 : convertFilters mt g.nodes (larch.getD r.subject) = .ok subs)
    (h2 : convertFilters mt g.nodes
      (if r.anything = true then larch.getD r.subject else r.objects.flatMap larch.getD) = .ok objs)
    (h3 : runQueries g (behL r) r.importDir subs objs = .ok q)
    (hov : (ruleLayerMap mt g larch r).consistent = false) :
    assertAppliesLayer mt (compileLayerRule larch r) g = .err .layerMismatch := by
  rw [assertAppliesLayer_compile mt g larch r hs ho hany hdd]
  rw [ruleLayerMap_eq_ruleMap] at hov
  exact matchLayerRule_inconsistent mt g larch _ _ _ _ subs objs q h1 h2 h3 hov

/-- on name and regex layers, `assert_applies` is the tail of `matchLayerRule` on the modules of the subject layer and
    of the object layers, with a layer mapping that satisfies the hypotheses of the core lemma -/
theorem layer_reduce (mt : Str → Str → Bool) (a : Arch) (g : PGraph Str) (hg : GraphOf a g)
    (hwf : a.wf = true) (ls : Layers) (r : LRuleSpec) (hdom : layerDomain a ls r = true)
    (hany : r.anything = true → r.verb = .shouldNot)
    (larch : LArch) (hres : resolves mt g.nodes larch ls = true) :
    ∃ S O tag, LCtx a ls r (ruleLayerMap mt g larch r) S O tag ∧
      assertAppliesLayer mt (compileLayerRule larch r) g =
        matchTail g (ruleLayerMap mt g larch r) (behL r) r.importDir
          ((S.map SFilter.named).map compileFilter) ((O.map SFilter.named).map compileFilter) := by
  have hw := archWF_of_wf a hwf
  have hd := ldom_of_layerDomain a ls r hdom
  have c0 := lctx_names hw hd
  have hresS := resolves_getD mt g.nodes larch ls hres r.subject hd.subj
  have hnodesGet : ∀ n x, x ∈ ls.get n → x ∈ a.nodes := by
    intro n x hx
    obtain ⟨l, hl, _, hxl⟩ := mem_of_mem_get ls n x hx
    exact hd.nodes l hl x hxl
  have hdenS := denotes_layer hresS c0.sne
  obtain ⟨S, hconvS, hmemS⟩ := convertFilters_layer hw hg mt _ _ hdenS (hnodesGet _)
  have hFSne := layerRes_ne_nil hresS c0.sne
  have hdd : dedupSubjects (larch.getD r.subject) = larch.getD r.subject :=
    dedupSubjects_layer hw hresS (hnodesGet _)
      (fun x hx y hy => c0.unrel x (List.mem_append_left _ hx) y (List.mem_append_left _ hy))
  cases hanyB : r.anything
  · -- the twelve shapes
    have hresO : ∀ on ∈ r.objects, layerRes mt g.nodes (larch.getD on) (ls.get on) = true :=
      fun on hon => resolves_getD mt g.nodes larch ls hres on (hd.obj hanyB on hon).1
    have hdenO := denotes_flatMap (mt := mt) (nodes := g.nodes) r.objects larch.getD ls.get
      (fun on hon => denotes_layer (hresO on hon) (c0.objNe hanyB on hon))
    obtain ⟨O, hconvO, hmemO⟩ := convertFilters_layer hw hg mt _ _ hdenO (by
      rintro x ⟨on, _, hx⟩; exact hnodesGet on x hx)
    have hFOne : r.objects.flatMap larch.getD ≠ [] := by
      obtain ⟨on, hon⟩ := List.exists_mem_of_ne_nil _ (hd.objNe hanyB)
      obtain ⟨f, hf⟩ := List.exists_mem_of_ne_nil _ (layerRes_ne_nil (hresO on hon) (c0.objNe hanyB on hon))
      intro h0
      have : f ∈ r.objects.flatMap larch.getD := List.mem_flatMap.2 ⟨on, hon, hf⟩
      rw [h0] at this; cases this
    obtain ⟨tag, c⟩ := lctx_general hw hd mt g.nodes larch hres
      (((larch.getD r.subject ++ r.objects.flatMap larch.getD).filter (·.isRegex)).map (·.id))
      (by
        intro f hf hr
        exact List.mem_map.2 ⟨f, List.mem_filter.2 ⟨List.mem_append_left _ hf, hr⟩, rfl⟩)
      (by
        intro _ on hon f hf hr
        exact List.mem_map.2 ⟨f, List.mem_filter.2 ⟨List.mem_append_right _ (List.mem_flatMap.2 ⟨on, hon, hf⟩), hr⟩, rfl⟩)
      S O hmemS (by
        intro x
        simp only [hanyB, Bool.false_eq_true, if_false]
        exact hmemO x)
    refine ⟨S, O, tag, ?_, ?_⟩
    · unfold ruleLayerMap
      simp only [hanyB, Bool.false_eq_true, if_false]
      exact c
    · rw [assertAppliesLayer_compile mt g larch r hFSne (.inr hFOne) hany (fun _ => hdd)]
      unfold ruleLayerMap
      simp only [hanyB, Bool.false_eq_true, if_false]
      rw [matchLayerRule_eq mt g larch _ _ _ _ _ _ hconvS hconvO c.cons]
  · -- the two `any layer` aliases
    obtain ⟨tag, c⟩ := lctx_general hw hd mt g.nodes larch hres
      (((larch.getD r.subject ++ larch.getD r.subject).filter (·.isRegex)).map (·.id))
      (by
        intro f hf hr
        exact List.mem_map.2 ⟨f, List.mem_filter.2 ⟨List.mem_append_left _ hf, hr⟩, rfl⟩)
      (by
        intro h; rw [hanyB] at h; cases h)
      S S hmemS (by
        intro x
        simp only [hanyB, if_true])
    refine ⟨S, S, tag, ?_, ?_⟩
    · unfold ruleLayerMap
      simp only [hanyB, if_true]
      exact c
    · rw [assertAppliesLayer_compile mt g larch r hFSne (.inl hanyB) hany (fun _ => hdd)]
      unfold ruleLayerMap
      simp only [hanyB, if_true]
      rw [matchLayerRule_eq mt g larch _ _ _ _ _ _ hconvS hconvS c.cons]

/-- C05 on name and regex layers -/
theorem layer_verdict_lemma (mt : Str → Str → Bool) (a : Arch) (g : PGraph Str) (hg : GraphOf a g)
    (hwf : a.wf = true) (ls : Layers) (r : LRuleSpec) (hdom : layerDomain a ls r = true)
    (hany : r.anything = true → r.verb = .shouldNot)
    (larch : LArch) (hres : resolves mt g.nodes larch ls = true) :
    (assertAppliesLayer mt (compileLayerRule larch r) g).cls = VClass.ofBool (layerVerdict a ls r) := by
  obtain ⟨S, O, tag, c, heq⟩ := layer_reduce mt a g hg hwf ls r hdom hany larch hres
  rw [heq]
  exact matchTail_verdict c (archWF_of_wf a hwf) hg hany

/-- soundness of the layer report: every reported import line is an import of the architecture, and the two layer
    tags printed with it are the (successful) lookups of its ends and differ -/
theorem layer_report_sound_lemma (mt : Str → Str → Bool) (a : Arch) (g : PGraph Str) (hg : GraphOf a g)
    (hwf : a.wf = true) (ls : Layers) (r : LRuleSpec) (hdom : layerDomain a ls r = true)
    (hany : r.anything = true → r.verb = .shouldNot)
    (larch : LArch) (hres : resolves mt g.nodes larch ls = true) (items : List LItem)
    (h : assertAppliesLayer mt (compileLayerRule larch r) g = .fail items) :
    ∀ u v b tu tv, LItem.imp u v b tu tv ∈ items →
      (∃ e ∈ a.imports, u = render e.1 ∧ v = render e.2) ∧ v ∈ g.importSuccs u ∧
      (ruleLayerMap mt g larch r).layerOf u = .ok tu ∧ (ruleLayerMap mt g larch r).layerOf v = .ok tv ∧ tu ≠ tv := by
  have hw := archWF_of_wf a hwf
  obtain ⟨S, O, tag, c, heq⟩ := layer_reduce mt a g hg hwf ls r hdom hany larch hres
  rw [heq] at h
  intro u v b tu tv hmem
  obtain ⟨e, he, hu, hv, htu, htv, hne⟩ := matchTail_sound c hw hg items h u v b tu tv hmem
  refine ⟨⟨e, he, hu, hv⟩, ?_, ?_, ?_, hne⟩
  · rw [hu, hv]; exact (hg.succs _ _).2 ⟨e, he, rfl, rfl⟩
  · rw [hu, htu]; exact c.tagOk _ (hw.impL e he)
  · rw [hv, htv]; exact c.tagOk _ (hw.impR e he)

/-- the `any layer` aliases exist only for `should_not` -/
theorem any_layer_misused_lemma (mt : Str → Str → Bool) (g : PGraph Str) (larch : LArch) (r : LRuleSpec)
    (hany : r.anything = true) (hv : r.verb ≠ .shouldNot) :
    assertAppliesLayer mt (compileLayerRule larch r) g = .err .improperlyConfigured := by
  obtain ⟨verb, dir, exc, subject, objects, anything⟩ := r
  simp only at hany hv
  subst hany
  cases verb
  · simp [assertAppliesLayer, compileLayerRule, anythingMisused]
  · simp [assertAppliesLayer, compileLayerRule, anythingMisused]
  · exact absurd rfl hv

theorem resolves_hasLayer (mt : Str → Str → Bool) (nodes : List Str) (larch : LArch) (ls : Layers)
    (h : resolves mt nodes larch ls = true) (n : Str) : larch.hasLayer n = ls.any (·.1 == n) := by
  induction larch generalizing ls with
  | nil =>
    cases ls with
    | nil => rfl
    | cons l ls => simp [resolves] at h
  | cons L Ls ih =>
    cases ls with
    | nil => simp [resolves] at h
    | cons l ls =>
      obtain ⟨h1, _, h3⟩ := (resolves_cons mt nodes L Ls l ls).1 h
      have := ih ls h3
      simp only [LArch.hasLayer] at this ⊢
      simp only [List.any_cons, h1, this]

/-- C05 through the fluent builder: the complete call chain followed by `assert_applies` -/
theorem layer_verdict_chain_lemma (mt : Str → Str → Bool) (a : Arch) (g : PGraph Str) (hg : GraphOf a g)
    (hwf : a.wf = true) (ls : Layers) (r : LRuleSpec) (hdom : layerDomain a ls r = true)
    (hany : r.anything = true → r.verb = .shouldNot)
    (larch : LArch) (hres : resolves mt g.nodes larch ls = true) (isList : Bool) :
    (runLayerRuleOps mt (layerRuleOps larch r isList) g).1.cls = VClass.ofBool (layerVerdict a ls r) := by
  have hw := archWF_of_wf a hwf
  have hd := ldom_of_layerDomain a ls r hdom
  have c0 := lctx_names hw hd
  rw [runLayerRuleOps_chain_lemma mt g larch r isList]
  · exact layer_verdict_lemma mt a g hg hwf ls r hdom hany larch hres
  · rw [resolves_hasLayer mt g.nodes larch ls hres]; exact hd.subj
  · exact layerRes_ne_nil (resolves_getD mt g.nodes larch ls hres r.subject hd.subj) c0.sne
  · intro hanyB
    rw [List.all_eq_true]
    intro on hon
    rw [resolves_hasLayer mt g.nodes larch ls hres]
    exact (hd.obj hanyB on hon).1

/-- the specification's verdict looks only at the layers the rule mentions -/
theorem layerVerdict_congr (a : Arch) (ls ls' : Layers) (r : LRuleSpec)
    (hs : ls.get r.subject = ls'.get r.subject) (ho : ∀ on ∈ r.objects, ls.get on = ls'.get on) :
    layerVerdict a ls r = layerVerdict a ls' r := by
  have : r.objects.map ls.get = r.objects.map ls'.get := List.map_congr_left ho
  unfold layerVerdict
  rw [hs, this]

/-- name layers resolve to themselves -/
theorem resolves_compileLArch (mt : Str → Str → Bool) (nodes : List Str) (ls : Layers) :
    resolves mt nodes (compileLArch ls) ls = true := by
  induction ls with
  | nil => rfl
  | cons l ls ih =>
    show resolves mt nodes ((l.1, l.2.map fun m => Filter.name (render m)) :: compileLArch ls) (l :: ls) = true
    rw [resolves_cons]
    exact ⟨rfl, by simp [layerRes], ih⟩

end Pta
