/-
  PtaProofs.Lemmas.HistoryBuild — histories that interleave builder calls with applications on one `Rule` object
  (Bridge/HistoryBuild.lean): which fluent calls respect the `_convert_aliases`-equivalence `RuleState.Equiv`, and the
  transparency of applications under the synchronisation condition.
-/
import Bridge.HistoryBuild
import PtaProofs.Lemmas.History
import PtaProofs.Lemmas.DroppedAbsent
namespace Pta.HistoryBuild
open Pta

/-! ### equivalence of rule objects, field by field -/

theorem equiv_next {s t : RuleState} (h : s.Equiv t) : s.next = t.next := by
  unfold RuleState.Equiv RuleState.normalForm at h
  have := congrArg RuleState.next h
  split at this <;> split at this <;> exact this

/-- whether a fluent call raises, and what, depends on `_modules_to_check_to_be_specified_next` only -/
theorem stepOut_of_next (glob : Str → Str) (s t : RuleState) (op : RuleOp) (h : s.next = t.next) :
    s.stepOut glob op = t.stepOut glob op := by
  cases op <;> simp only [RuleState.stepOut, RuleState.step, RuleState.setModules, h] <;> cases t.next <;> try rfl
  all_goals (rename_i b; cases b <;> rfl)

theorem stepOut_equiv (glob : Str → Str) (s t : RuleState) (op : RuleOp) (h : s.Equiv t) :
    s.stepOut glob op = t.stepOut glob op := stepOut_of_next glob s t op (equiv_next h)

/-! ### which fluent calls respect the equivalence -/

/-- the eight calls that touch neither the module lists nor the `anything` flag map equivalent objects to equivalent
    objects (they commute with `_convert_aliases`) -/
theorem stepStay_equiv_safe (glob : Str → Str) (s t : RuleState) (op : RuleOp) (h : s.Equiv t)
    (hop : op.safe = true) : (s.stepStay glob op).Equiv (t.stepStay glob op) := by
  obtain ⟨⟨subj, obj, sh, so, sn, ex, dir, any, dr⟩, nx⟩ := s
  obtain ⟨⟨subj', obj', sh', so', sn', ex', dir', any', dr'⟩, nx'⟩ := t
  unfold RuleState.Equiv RuleState.normalForm anythingMisused convertAliases at h ⊢
  cases op <;> simp only [RuleOp.safe, Bool.false_eq_true] at hop <;>
    simp only [RuleState.stepStay, RuleState.step] at h ⊢ <;>
    cases any <;> cases any' <;> cases sn <;> cases sn' <;> first | (simp_all; done) | (simp_all; grind)

set_option maxHeartbeats 800000 in
/-- EVERY fluent call maps equivalent objects that agree on the `anything` flag to equivalent objects -/
theorem stepStay_equiv_sync (glob : Str → Str) (s t : RuleState) (op : RuleOp) (h : s.Equiv t)
    (ha : s.cfg.anything = t.cfg.anything) : (s.stepStay glob op).Equiv (t.stepStay glob op) := by
  obtain ⟨⟨subj, obj, sh, so, sn, ex, dir, any, dr⟩, nx⟩ := s
  obtain ⟨⟨subj', obj', sh', so', sn', ex', dir', any', dr'⟩, nx'⟩ := t
  simp only at ha
  subst ha
  unfold RuleState.Equiv RuleState.normalForm anythingMisused convertAliases at h ⊢
  cases op <;>
    simp only [RuleState.stepStay, RuleState.step, RuleState.setModules] at h ⊢ <;>
    cases any <;> cases sn <;> cases sn' <;>
    first
    | (simp_all; done)
    | (simp_all; grind)
    | (rcases nx with _ | _ | _ <;> rcases nx' with _ | _ | _ <;> first | (simp_all; done) | (simp_all; grind))

theorem dedupSubjects_idem (ss : List Filter) : dedupSubjects (dedupSubjects ss) = dedupSubjects ss := by
  show (dedupSubjects ss).filter (fun m => !((dedupSubjects ss).any fun other => !other.isParent && isStrictSub other.id m.id)) = _
  rw [List.filter_eq_self]
  intro m hm
  simp only [dedupSubjects, List.mem_filter, Bool.not_eq_true', List.any_eq_false, Bool.not_eq_true] at hm ⊢
  intro o ho
  exact hm.2 o ho.1

theorem dedup_of_dropped_nil (ss : List Filter) (h : droppedSubjects ss = []) : dedupSubjects ss = ss := by
  unfold droppedSubjects at h
  rw [List.filter_eq_nil_iff] at h
  show ss.filter (fun m => !(ss.any fun other => !other.isParent && isStrictSub other.id m.id)) = _
  rw [List.filter_eq_self]
  intro m hm
  have := h m hm
  simp only [Bool.not_eq_true', List.contains_eq_mem, decide_eq_false_iff_not, Decidable.not_not] at this
  simp only [dedupSubjects, List.mem_filter] at this
  exact this.2

theorem dropped_dedup (ss : List Filter) : droppedSubjects (dedupSubjects ss) = [] := by
  unfold droppedSubjects
  rw [List.filter_eq_nil_iff]
  intro m hm
  simp only [dedupSubjects_idem, List.contains_eq_mem, hm, decide_true, Bool.not_true, Bool.false_eq_true, not_false_eq_true]

set_option linter.unusedSimpArgs false in
set_option maxHeartbeats 800000 in
/-- re-issuing `import_anything` / `be_imported_by_anything` respects the equivalence when no removed subject is remembered -/
theorem stepStay_equiv_anything (glob : Str → Str) (s t : RuleState) (op : RuleOp) (h : s.Equiv t)
    (hop : op = .importAnything ∨ op = .beImportedByAnything)
    (hs : s.cfg.dropped = []) (ht : t.cfg.dropped = []) : (s.stepStay glob op).Equiv (t.stepStay glob op) := by
  obtain ⟨⟨subj, obj, sh, so, sn, ex, dir, any, dr⟩, nx⟩ := s
  obtain ⟨⟨subj', obj', sh', so', sn', ex', dir', any', dr'⟩, nx'⟩ := t
  simp only at hs ht
  subst hs ht
  unfold RuleState.Equiv RuleState.normalForm anythingMisused convertAliases at h ⊢
  rcases hop with rfl | rfl <;>
    simp only [RuleState.stepStay, RuleState.step] at h ⊢ <;>
    cases any <;> cases any' <;> cases sn <;> cases sn' <;> cases subj <;> cases subj' <;>
    first
    | (simp_all; done)
    | (simp_all [dedupSubjects_idem, dropped_dedup]; done)
    | (simp_all [dedupSubjects_idem, dropped_dedup]; grind [dedup_of_dropped_nil, dedupSubjects_idem, dropped_dedup])

/-! ### applications -/

theorem equiv_refl (s : RuleState) : s.Equiv s := rfl

theorem equiv_trans {r s t : RuleState} (h₁ : r.Equiv s) (h₂ : s.Equiv t) : r.Equiv t := Eq.trans h₁ h₂

/-- an application on equivalent objects: the same outcome, and equivalent objects again -/
theorem stepREv_apply_equiv (glob : Str → Str) (mt : Str → Str → Bool) (archs : List (PGraph Str)) (s t : RuleState)
    (j : Nat) (h : s.Equiv t) :
    (stepREv glob mt archs s (.apply j)).2 = (stepREv glob mt archs t (.apply j)).2 ∧
    (stepREv glob mt archs s (.apply j)).1.Equiv t := by
  simp only [stepREv]
  cases archs[j]? with
  | none => exact ⟨rfl, h⟩
  | some g =>
    exact ⟨congrArg ROut.applied (Pta.History.assertAppliesText_congr mt s t h g),
      equiv_trans (Pta.History.assertAppliesText_equiv mt s g) h⟩

/-- an application that does not rewrite leaves the object literally as it was -/
theorem normalForm_of_not_rewriting (s : RuleState) (h : s.rewriting = false) : s.normalForm = s := by
  obtain ⟨⟨subj, obj, sh, so, sn, ex, dir, any, dr⟩, nx⟩ := s
  unfold RuleState.rewriting at h
  unfold RuleState.normalForm anythingMisused convertAliases
  cases any <;> cases sn <;> simp_all

theorem stepREv_apply_of_not_rewriting (glob : Str → Str) (mt : Str → Str → Bool) (archs : List (PGraph Str))
    (s : RuleState) (j : Nat) (h : (!s.rewriting || (archs[j]?).isNone) = true) :
    (stepREv glob mt archs s (.apply j)).1 = s := by
  simp only [stepREv]
  cases hg : archs[j]? with
  | none => rfl
  | some g =>
    simp only [hg, Option.isNone_some, Bool.or_false, Bool.not_eq_eq_eq_not, Bool.not_true] at h
    simp only [Pta.History.assertAppliesText_fst]
    exact normalForm_of_not_rewriting s h

/-! ### the transparency theorems -/

/-- under the synchronisation condition the history run is the reference run, and the object left behind is
    equivalent to the object the builder calls alone produce -/
theorem run_eq_ref_lemma (glob : Str → Str) (mt : Str → Str → Bool) (archs : List (PGraph Str)) :
    ∀ (h : List REv) (s t : RuleState), s.Equiv t → syncAtUnsafe glob mt archs s t h = true →
      runREvs glob mt archs s h = refREvs glob mt archs t h ∧
      (execREvs glob mt archs s h).Equiv (buildOnly glob t (forget h))
  | [], s, t, he, _ => ⟨rfl, he⟩
  | .call op :: es, s, t, he, hs => by
    simp only [syncAtUnsafe, Bool.and_eq_true, Bool.or_eq_true, beq_iff_eq, List.isEmpty_iff] at hs
    have he' : (s.stepStay glob op).Equiv (t.stepStay glob op) := by
      rcases hs.1 with (hsafe | hany) | ⟨⟨hop, hds⟩, hdt⟩
      · exact stepStay_equiv_safe glob s t op he hsafe
      · exact stepStay_equiv_sync glob s t op he hany
      · refine stepStay_equiv_anything glob s t op he ?_ hds hdt
        cases op <;> simp_all [RuleOp.setsAnything]
    have ih := run_eq_ref_lemma glob mt archs es _ _ he' hs.2
    simp only [runREvs, refREvs, execREvs, forget, buildOnly, stepREv]
    exact ⟨by rw [ih.1, stepOut_equiv glob s t op he], ih.2⟩
  | .apply j :: es, s, t, he, hs => by
    simp only [syncAtUnsafe] at hs
    have ha := stepREv_apply_equiv glob mt archs s t j he
    have ih := run_eq_ref_lemma glob mt archs es _ _ ha.2 hs
    simp only [runREvs, refREvs, execREvs, forget]
    exact ⟨by rw [ih.1, ha.1], ih.2⟩

/-- without a rewriting application the object is LITERALLY the one the builder calls alone produce -/
theorem noRewrite_lemma (glob : Str → Str) (mt : Str → Str → Bool) (archs : List (PGraph Str)) :
    ∀ (h : List REv) (s : RuleState), noRewrite glob mt archs s h = true →
      runREvs glob mt archs s h = refREvs glob mt archs s h ∧
      execREvs glob mt archs s h = buildOnly glob s (forget h)
  | [], _, _ => ⟨rfl, rfl⟩
  | .call op :: es, s, hn => by
    simp only [noRewrite] at hn
    have ih := noRewrite_lemma glob mt archs es _ hn
    simp only [runREvs, refREvs, execREvs, forget, buildOnly, stepREv]
    exact ⟨by rw [ih.1], ih.2⟩
  | .apply j :: es, s, hn => by
    simp only [noRewrite, Bool.and_eq_true] at hn
    have hst := stepREv_apply_of_not_rewriting glob mt archs s j hn.1
    have ih := noRewrite_lemma glob mt archs es _ hn.2
    rw [hst] at ih
    simp only [runREvs, refREvs, execREvs, forget, hst]
    exact ⟨by rw [ih.1], ih.2⟩

/-- only safe calls and applications: synchronised whatever the two objects are -/
theorem sync_of_all_safe (glob : Str → Str) (mt : Str → Str → Bool) (archs : List (PGraph Str)) :
    ∀ (h : List REv) (s t : RuleState),
      (h.all fun e => match e with | .call op => op.safe | .apply _ => true) = true →
      syncAtUnsafe glob mt archs s t h = true
  | [], _, _, _ => rfl
  | .call op :: es, s, t, ha => by
    simp only [List.all_cons, Bool.and_eq_true] at ha
    simp only [syncAtUnsafe, ha.1, Bool.true_or, Bool.true_and]
    exact sync_of_all_safe glob mt archs es _ _ ha.2
  | .apply j :: es, s, t, ha => by
    simp only [List.all_cons, Bool.true_and] at ha
    simp only [syncAtUnsafe]
    exact sync_of_all_safe glob mt archs es _ _ ha

/-- the syntactic condition implies the synchronisation condition (both objects start as the same object) -/
theorem sync_of_safeAfterApply (glob : Str → Str) (mt : Str → Str → Bool) (archs : List (PGraph Str)) :
    ∀ (h : List REv) (s : RuleState), safeAfterApply h = true → syncAtUnsafe glob mt archs s s h = true
  | [], _, _ => rfl
  | .call op :: es, s, ha => by
    simp only [safeAfterApply] at ha
    simp only [syncAtUnsafe, beq_self_eq_true, Bool.or_true, Bool.true_or, Bool.true_and]
    exact sync_of_safeAfterApply glob mt archs es _ ha
  | .apply j :: es, s, ha => by
    simp only [safeAfterApply] at ha
    simp only [syncAtUnsafe]
    exact sync_of_all_safe glob mt archs es _ _ ha

/-- the last application: equal outcomes from equivalent final objects -/
theorem outcome_of_equiv (glob : Str → Str) (mt : Str → Str → Bool) (archs : List (PGraph Str)) (s : RuleState)
    (h : List REv) (j : Nat) (he : (execREvs glob mt archs s h).Equiv (buildOnly glob s (forget h))) :
    outcomeAfter glob mt archs s h j = outcomeForgotten glob mt archs s h j :=
  (stepREv_apply_equiv glob mt archs _ _ j he).1

end Pta.HistoryBuild
