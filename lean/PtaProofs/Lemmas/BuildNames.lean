/-
  PtaProofs.Lemmas.BuildNames — component-list facts used by the graph-construction proof: well-formedness
  of prefixes, the chain `properPrefixes n ++ [n]` and its consecutive pairs, truncation of chain links,
  and the non-collision of hierarchy and import pairs.
-/
import Bridge.Abs
namespace Pta
namespace BuildNames
open PtaSpec

/-! ### consecutive -/

theorem consecutive_map {β γ : Type} (f : β → γ) :
    ∀ l : List β, consecutive (l.map f) = (consecutive l).map (fun p => (f p.1, f p.2))
  | [] => rfl
  | [_] => rfl
  | a :: b :: r => by
    have ih := consecutive_map f (b :: r)
    simp only [List.map_cons] at ih
    simp only [List.map_cons, consecutive, ih]

theorem consecutive_snoc2 {β : Type} (a b : β) : ∀ l : List β, consecutive (l ++ [a, b]) = consecutive (l ++ [a]) ++ [(a, b)]
  | [] => rfl
  | [x] => rfl
  | x :: y :: l => by
    have ih := consecutive_snoc2 a b (y :: l)
    simp only [List.cons_append] at ih
    simp only [List.cons_append, consecutive, ih]

/-! ### prefixes -/

/-- the first `m` candidates of `properPrefixes` -/
def pp (m : Nat) (n : Name) : List Name :=
  (List.range m).filterMap fun k => if 0 < k then some (n.take k) else none

theorem properPrefixes_eq (n : Name) : properPrefixes n = pp n.length n := rfl

theorem pp_succ (m : Nat) (n : Name) (hm : 0 < m) : pp (m + 1) n = pp m n ++ [n.take m] := by
  unfold pp
  rw [List.range_succ, List.filterMap_append]
  simp [hm]

theorem mem_consecutive_chain (n : Name) : ∀ m, ∀ p, p ∈ consecutive (pp (m + 1) n ++ [n.take (m + 1)]) ↔
    ∃ k, 0 < k ∧ k < m + 1 ∧ p = (n.take k, n.take (k + 1)) := by
  intro m
  induction m with
  | zero =>
    intro p
    have : pp 1 n = [] := by simp [pp]
    rw [this]
    simp only [List.nil_append, consecutive]
    constructor
    · intro h; cases h
    · rintro ⟨k, h1, h2, -⟩; omega
  | succ m ih =>
    intro p
    rw [pp_succ (m + 1) n (by omega), List.append_assoc]
    simp only [List.cons_append, List.nil_append]
    rw [consecutive_snoc2, List.mem_append, ih]
    simp only [List.mem_singleton]
    constructor
    · rintro (⟨k, h1, h2, h3⟩ | h)
      · exact ⟨k, h1, by omega, h3⟩
      · exact ⟨m + 1, by omega, by omega, h⟩
    · rintro ⟨k, h1, h2, h3⟩
      by_cases hk : k = m + 1
      · subst hk; exact Or.inr h3
      · exact Or.inl ⟨k, h1, by omega, h3⟩

/-- consecutive pairs of the chain `properPrefixes n ++ [n]` -/
theorem mem_consecutive_prefixes (n : Name) (hn : n ≠ []) (p : Name × Name) :
    p ∈ consecutive (properPrefixes n ++ [n]) ↔ ∃ k, 0 < k ∧ k < n.length ∧ p = (n.take k, n.take (k + 1)) := by
  obtain ⟨m, hm⟩ : ∃ m, n.length = m + 1 := by
    cases n with
    | nil => exact absurd rfl hn
    | cons x xs => exact ⟨xs.length, rfl⟩
  have h := mem_consecutive_chain n m p
  rw [properPrefixes_eq, hm]
  have : n.take (m + 1) = n := List.take_of_length_le (by omega)
  rw [this] at h
  exact h

theorem mem_properPrefixes (n p : Name) : p ∈ properPrefixes n ↔ ∃ k, 0 < k ∧ k < n.length ∧ p = n.take k := by
  unfold properPrefixes
  simp only [List.mem_filterMap, List.mem_range]
  constructor
  · rintro ⟨k, hk, h⟩
    by_cases h0 : 0 < k
    · simp only [h0, if_true, Option.some.injEq] at h
      exact ⟨k, h0, hk, h.symm⟩
    · simp [h0] at h
  · rintro ⟨k, h0, hk, rfl⟩
    exact ⟨k, hk, by simp [h0]⟩

/-! ### well-formedness -/

theorem nameWF_ne_nil' (n : Name) (h : nameWF n = true) : n ≠ [] := by
  rintro rfl; simp [nameWF] at h

theorem nameWF_take (n : Name) (h : nameWF n = true) (k : Nat) (hk : 0 < k) : nameWF (n.take k) = true := by
  unfold nameWF at *
  simp only [Bool.and_eq_true, Bool.not_eq_true', List.all_eq_true] at *
  refine ⟨?_, fun x hx => h.2 x (List.mem_of_mem_take hx)⟩
  cases n with
  | nil => simp at h
  | cons x xs =>
    cases k with
    | zero => omega
    | succ k => simp

theorem nameWF_trunc (lim : Option Nat) (n : Name) (h : nameWF n = true) : nameWF (trunc lim n) = true := by
  cases lim with
  | none => exact h
  | some k => exact nameWF_take n h (k + 1) (by omega)

theorem nameWF_dropLast (n : Name) (h : nameWF n = true) (hl : 2 ≤ n.length) : nameWF n.dropLast = true := by
  rw [List.dropLast_eq_take]
  exact nameWF_take n h _ (by omega)

/-! ### well-formed architectures -/

theorem wf_nodes (a : Arch) (hwf : a.wf = true) (n : Name) (hn : n ∈ a.nodes) : nameWF n = true := by
  unfold Arch.wf at hwf
  simp only [Bool.and_eq_true, List.all_eq_true] at hwf
  exact hwf.1.1.2 n hn

theorem wf_prefix (a : Arch) (hwf : a.wf = true) (n : Name) (hn : n ∈ a.nodes) (k : Nat) (h0 : 0 < k)
    (hk : k ≤ n.length) : n.take k ∈ a.nodes := by
  by_cases hk' : k = n.length
  · rw [List.take_of_length_le (by omega)]; exact hn
  · unfold Arch.wf at hwf
    simp only [Bool.and_eq_true, List.all_eq_true] at hwf
    have := hwf.1.2 n hn (n.take k) ((mem_properPrefixes n _).2 ⟨k, h0, by omega, rfl⟩)
    simpa using this

theorem wf_import (a : Arch) (hwf : a.wf = true) (e : Name × Name) (he : e ∈ a.imports) :
    e.1 ∈ a.nodes ∧ e.2 ∈ a.nodes ∧ e.1 ≠ e.2 ∧ sdesc e.1 e.2 = false := by
  unfold Arch.wf at hwf
  simp only [Bool.and_eq_true, List.all_eq_true] at hwf
  have := hwf.2 e he
  simpa [and_assoc] using this

/-! ### truncation along a chain -/

/-- a chain link either collapses under truncation or stays a (parent, child) pair -/
theorem trunc_link (lim : Option Nat) (n : Name) (k : Nat) (h0 : 0 < k) (hk : k < n.length) :
    trunc lim (n.take k) = trunc lim (n.take (k + 1)) ∨
    (2 ≤ (trunc lim (n.take (k + 1))).length ∧ trunc lim (n.take k) = (trunc lim (n.take (k + 1))).dropLast) := by
  cases lim with
  | none =>
    right
    simp only [trunc]
    refine ⟨by rw [List.length_take]; omega, ?_⟩
    rw [List.dropLast_eq_take, List.take_take, List.length_take]
    congr 1; omega
  | some j =>
    simp only [trunc]
    by_cases hkj : k ≤ j
    · right
      have h1 : List.take (j + 1) (List.take (k + 1) n) = List.take (k + 1) n := by
        rw [List.take_take]; congr 1; omega
      have h2 : List.take (j + 1) (List.take k n) = List.take k n := by
        rw [List.take_take]; congr 1; omega
      rw [h1, h2]
      refine ⟨by rw [List.length_take]; omega, ?_⟩
      rw [List.dropLast_eq_take, List.take_take, List.length_take]
      congr 1; omega
    · left
      rw [List.take_take, List.take_take]
      congr 1; omega

/-- the last link of the truncated chain of `c` -/
theorem trunc_last_link (lim : Option Nat) (c : Name) (hl : 2 ≤ (trunc lim c).length) :
    ∃ k, 0 < k ∧ k < c.length ∧ trunc lim (c.take k) = (trunc lim c).dropLast ∧
      trunc lim (c.take (k + 1)) = trunc lim c := by
  cases lim with
  | none =>
    simp only [trunc] at *
    refine ⟨c.length - 1, by omega, by omega, ?_, ?_⟩
    · rw [List.dropLast_eq_take]
    · exact List.take_of_length_le (by omega)
  | some j =>
    simp only [trunc] at *
    rw [List.length_take] at hl
    refine ⟨min (j + 1) c.length - 1, by omega, by omega, ?_, ?_⟩
    · rw [List.dropLast_eq_take, List.take_take, List.take_take, List.length_take]
      congr 1; omega
    · rw [List.take_take]
      by_cases h : j + 1 ≤ c.length
      · congr 1; omega
      · rw [List.take_of_length_le (by omega), List.take_of_length_le (by omega)]

/-- if the truncation of `u` is the parent of the truncation of `v` then `u` is a strict ancestor of `v` -/
theorem trunc_parent_sdesc (lim : Option Nat) (u v : Name) (hl : 2 ≤ (trunc lim v).length)
    (h : trunc lim u = (trunc lim v).dropLast) : sdesc u v = true := by
  have key : ∀ (u v : Name) (i : Nat), u = v.take i → i < v.length → sdesc u v = true := by
    intro u v i hu hi
    unfold sdesc
    simp only [Bool.and_eq_true, List.isPrefixOf_iff_prefix, bne_iff_ne, ne_eq]
    refine ⟨hu ▸ List.take_prefix i v, ?_⟩
    intro huv
    have := congrArg List.length hu
    rw [List.length_take, huv] at this
    omega
  cases lim with
  | none =>
    simp only [trunc] at *
    exact key u v (v.length - 1) (by rw [h, List.dropLast_eq_take]) (by omega)
  | some j =>
    simp only [trunc] at *
    rw [List.length_take] at hl
    rw [List.dropLast_eq_take, List.take_take, List.length_take] at h
    have hlen := congrArg List.length h
    rw [List.length_take, List.length_take] at hlen
    have hu : List.take (j + 1) u = u := List.take_of_length_le (by omega)
    rw [hu] at h
    exact key u v _ h (by omega)

end BuildNames
end Pta
