/-
  PtaProofs.Lemmas.MissingLines — audit finding F10: the `does not import` / `is not imported by` lines of a report are
  exactly the required imports without a realisation.  Works on every graph and every rule: the statements are about the
  queries the library asks (`pairQuery`, `otherQuery` of Bridge/ReportQueries.lean).
-/
import Bridge.Abs
import Bridge.ReportQueries
import PtaProofs.Lemmas.SearchChar
import PtaProofs.Lemmas.Expansion
namespace Pta.Miss
open Pta

/-! ### generic -/

theorem mapM_ok_mem_iff {α β ε : Type} (f : α → Except ε β) (l : List α) (r : List β)
    (h : l.mapM f = .ok r) : ∀ y, y ∈ r ↔ ∃ x ∈ l, f x = .ok y := by
  induction l generalizing r with
  | nil => simp [pure, Except.pure] at h; subst h; simp
  | cons a l ih =>
    rw [List.mapM_cons] at h
    cases hfa : f a with
    | error e => simp [hfa, bind, Except.bind] at h
    | ok b =>
      cases hl : l.mapM f with
      | error e => simp [hfa, hl, bind, Except.bind] at h
      | ok bs =>
        simp [hfa, hl, bind, Except.bind, pure, Except.pure] at h
        subst h
        intro y
        simp only [List.mem_cons, ih bs hl y]
        constructor
        · rintro (rfl | ⟨x, hx, hfx⟩)
          · exact ⟨a, .inl rfl, hfa⟩
          · exact ⟨x, .inr hx, hfx⟩
        · rintro ⟨x, rfl | hx, hfx⟩
          · rw [hfa] at hfx; cases hfx; exact .inl rfl
          · exact .inr ⟨x, hx, hfx⟩

theorem nodup_dedup {α : Type} [DecidableEq α] (l : List α) : (dedup l).Nodup := by
  induction l with
  | nil => simp [dedup]
  | cons x xs ih =>
    simp only [dedup]
    split
    · exact ih
    · rename_i hx; exact List.nodup_cons.2 ⟨hx, ih⟩

theorem bind_pure_ok {ε α β : Type} (x : Except ε α) (k : α → β) (y : β) :
    (do let d ← x; pure (k d) : Except ε β) = .ok y ↔ ∃ d, x = .ok d ∧ y = k d := by
  cases x <;> simp [bind, Except.bind, pure, Except.pure, eq_comm]

/-! ### `Mod` ↔ `Filter` -/

theorem toMod_toFilter (m : Mod) : m.toFilter.toMod = m := by
  rcases m with ⟨g, i⟩
  cases g <;> rfl

theorem toFilter_toMod (f : Filter) (h : f.isRegex = false) : f.toMod.toFilter = f := by
  cases f <;> first | rfl | simp [Filter.isRegex] at h

theorem toFilter_isRegex (m : Mod) : m.toFilter.isRegex = false := by
  rcases m with ⟨g, i⟩
  cases g <;> rfl

/-- the result of the regex conversion contains no regex filter -/
theorem convertFilters_noregex_out (mt : Str → Str → Bool) (mods : List Str) (fs R : List Filter)
    (h : convertFilters mt mods fs = .ok R) : ∀ f ∈ R, f.isRegex = false := by
  unfold convertFilters at h
  simp only at h
  split at h
  · cases h
  · cases h
    intro f hf
    simp only [List.mem_append, mem_dedup, List.mem_map, List.mem_filter] at hf
    rcases hf with ⟨m, _, rfl⟩ | ⟨_, h2⟩
    · rfl
    · simpa using h2

theorem mem_map_toMod_iff (R : List Filter) (hR : ∀ f ∈ R, f.isRegex = false) (m : Mod) :
    m ∈ R.map Filter.toMod ↔ m.toFilter ∈ R := by
  constructor
  · intro h
    obtain ⟨f, hf, rfl⟩ := List.mem_map.1 h
    rw [toFilter_toMod f (hR f hf)]; exact hf
  · intro h
    exact List.mem_map.2 ⟨_, h, toMod_toFilter m⟩

/-! ### exact content of the three query results -/

theorem getDependencies_mem_iff (g : PGraph Str) (ims ies : List Filter) (e : ExplDeps)
    (h : getDependencies g ims ies = .ok e) (kd : Dep × List (Str × Str)) :
    kd ∈ e ↔ ∃ f ∈ ims, ∃ o ∈ ies, kd.1 = (f.toMod, o.toMod) ∧ depBetween g f o = .ok kd.2 := by
  unfold getDependencies at h
  rw [mapM_ok_mem_iff _ _ _ h kd]
  simp only [List.mem_flatMap, List.mem_map, mem_dedup, bind_pure_ok]
  constructor
  · rintro ⟨fo, ⟨f, hf, o, ho, rfl⟩, d, hd, rfl⟩
    exact ⟨f, hf, o, ho, rfl, hd⟩
  · rintro ⟨f, hf, o, ho, hk, hd⟩
    refine ⟨(f, o), ⟨f, hf, o, ho, rfl⟩, kd.2, hd, ?_⟩
    rw [← hk]

theorem getOtherFrom_mem_iff (g : PGraph Str) (ims ies : List Filter) (e : OtherDeps)
    (h : getOtherFrom g ims ies = .ok e) (kd : Mod × List (Str × Str)) :
    kd ∈ e ↔ ∃ f ∈ ims, kd.1 = f.toMod ∧ otherFrom g f (dedup ies) = .ok kd.2 := by
  unfold getOtherFrom at h
  rw [mapM_ok_mem_iff _ _ _ h kd]
  simp only [mem_dedup, bind_pure_ok]
  constructor
  · rintro ⟨f, hf, d, hd, rfl⟩
    exact ⟨f, hf, rfl, hd⟩
  · rintro ⟨f, hf, hk, hd⟩
    refine ⟨f, hf, kd.2, hd, ?_⟩
    rw [← hk]

theorem getOtherTo_mem_iff (g : PGraph Str) (ims ies : List Filter) (e : OtherDeps)
    (h : getOtherTo g ims ies = .ok e) (kd : Mod × List (Str × Str)) :
    kd ∈ e ↔ ∃ o ∈ ies, kd.1 = o.toMod ∧ otherTo g (dedup ims) o = .ok kd.2 := by
  unfold getOtherTo at h
  rw [mapM_ok_mem_iff _ _ _ h kd]
  simp only [mem_dedup, bind_pure_ok]
  constructor
  · rintro ⟨f, hf, d, hd, rfl⟩
    exact ⟨f, hf, rfl, hd⟩
  · rintro ⟨f, hf, hk, hd⟩
    refine ⟨f, hf, kd.2, hd, ?_⟩
    rw [← hk]

/-- the required explicit imports without a realisation, in user order (subject, object) -/
theorem mem_abstractWithout (g : PGraph Str) (ir : Bool) (subs objs : List Filter) (e : ExplDeps)
    (h : getDependencies g (if ir = true then subs else objs) (if ir = true then objs else subs) = .ok e) (x : Dep) :
    x ∈ abstractWithout ir e ↔ ∃ s ∈ subs, ∃ o ∈ objs, x = (s.toMod, o.toMod) ∧ pairQuery g ir s o = .ok [] := by
  unfold abstractWithout
  simp only [List.mem_map, List.mem_filter, getDependencies_mem_iff g _ _ e h, List.isEmpty_iff]
  cases ir
  · simp only [Bool.false_eq_true, if_false, pairQuery, userOrder]
    constructor
    · rintro ⟨kd, ⟨⟨f, hf, o, ho, hk, hd⟩, hnil⟩, rfl⟩
      refine ⟨o, ho, f, hf, by rw [hk], ?_⟩
      rw [hd, hnil]
    · rintro ⟨s, hs, o, ho, rfl, hd⟩
      exact ⟨((o.toMod, s.toMod), []), ⟨⟨o, ho, s, hs, rfl, hd⟩, rfl⟩, rfl⟩
  · simp only [if_true, pairQuery, userOrder]
    constructor
    · rintro ⟨kd, ⟨⟨f, hf, o, ho, hk, hd⟩, hnil⟩, rfl⟩
      refine ⟨f, hf, o, ho, by rw [hk], ?_⟩
      rw [hd, hnil]
    · rintro ⟨s, hs, o, ho, rfl, hd⟩
      exact ⟨((s.toMod, o.toMod), []), ⟨⟨s, hs, o, ho, rfl, hd⟩, rfl⟩, rfl⟩

/-- the subjects of an `except` rule without any other import, paired with every object -/
theorem mem_missingOther (g : PGraph Str) (ir : Bool) (subs objs : List Filter) (e : OtherDeps) (objsM : List Mod)
    (h : (if ir = true then getOtherFrom g subs objs else getOtherTo g objs subs) = .ok e) (x : Dep) :
    x ∈ missingOther e objsM ↔ ∃ s ∈ subs, x.1 = s.toMod ∧ x.2 ∈ objsM ∧ otherQuery g ir s objs = .ok [] := by
  unfold missingOther
  simp only [List.mem_flatMap, List.mem_map, List.mem_filter, List.isEmpty_iff]
  cases ir
  · simp only [Bool.false_eq_true, if_false] at h
    simp only [getOtherTo_mem_iff g _ _ e h, otherQuery, Bool.false_eq_true, if_false]
    constructor
    · rintro ⟨kd, ⟨⟨s, hs, hk, hd⟩, hnil⟩, o, ho, rfl⟩
      exact ⟨s, hs, hk, ho, by rw [hd, hnil]⟩
    · rintro ⟨s, hs, h1, h2, hd⟩
      refine ⟨(s.toMod, []), ⟨⟨s, hs, rfl, hd⟩, rfl⟩, x.2, h2, ?_⟩
      rw [← h1]
  · simp only [if_true] at h
    simp only [getOtherFrom_mem_iff g _ _ e h, otherQuery, if_true]
    constructor
    · rintro ⟨kd, ⟨⟨s, hs, hk, hd⟩, hnil⟩, o, ho, rfl⟩
      exact ⟨s, hs, hk, ho, by rw [hd, hnil]⟩
    · rintro ⟨s, hs, h1, h2, hd⟩
      refine ⟨(s.toMod, []), ⟨⟨s, hs, rfl, hd⟩, rfl⟩, x.2, h2, ?_⟩
      rw [← h1]

/-! ### the `does not import` items of a report -/

theorem mem_missItems_iff (a ir : Bool) (ds : List Dep) (a' : Bool) (s : Mod) (os : List Mod) (d : Bool) :
    Item.miss a' s os d ∈ missItems a ir ds ↔
      a' = a ∧ d = !ir ∧ (∃ x ∈ ds, x.1 = s) ∧ os = dedup ((ds.filter fun x => x.1 = s).map (·.2)) := by
  unfold missItems
  simp only [List.mem_map, mem_dedup, Item.miss.injEq]
  constructor
  · rintro ⟨s', ⟨x, hx, rfl⟩, rfl, rfl, rfl, rfl⟩
    exact ⟨rfl, rfl, ⟨x, hx, rfl⟩, rfl⟩
  · rintro ⟨rfl, rfl, ⟨x, hx, rfl⟩, rfl⟩
    exact ⟨x.1, ⟨x, hx, rfl⟩, rfl, rfl, rfl, rfl⟩

/-- the dependencies behind the `does not import` lines of kind `a` -/
def missDeps (a ir : Bool) (expl : Option ExplDeps) (other : Option OtherDeps) (objsM : List Mod) : List Dep :=
  match a with
  | false => (match expl with | some e => abstractWithout ir e | none => [])
  | true => (match other with | some o => missingOther o objsM | none => [])

/-- is a line of kind `a` required by the behaviour -/
def missFlag (a : Bool) (b : Behavior) : Bool :=
  match a with
  | false => b.expExplPresent || b.expExplAndNoOther
  | true => b.expAtLeastOneOther || b.expExplNotButOthers

theorem missItems_nil (a ir : Bool) : missItems a ir [] = [] := rfl

theorem miss_mem_report_iff (b : Behavior) (ir : Bool) (expl : Option ExplDeps) (other : Option OtherDeps)
    (objsM : List Mod) (a : Bool) (s : Mod) (os : List Mod) (d : Bool) :
    Item.miss a s os d ∈ reportItems ir (detect b ir expl other objsM) ↔
      missFlag a b = true ∧ Item.miss a s os d ∈ missItems a ir (missDeps a ir expl other objsM) := by
  unfold reportItems detect
  simp only [List.mem_append, miss_not_mem_impItems, or_false]
  cases a <;> cases expl <;> cases other <;>
    cases h1 : b.expExplPresent <;> cases h2 : b.expExplAndNoOther <;>
    cases h3 : b.expAtLeastOneOther <;> cases h4 : b.expExplNotButOthers <;>
    simp [missFlag, missDeps, missItems_nil, mem_missItems_iff, h1, h2, h3, h4]

/-! ### counting the lines of one subject -/

theorem countP_missItems_le (a ir : Bool) (ds : List Dep) (a' : Bool) (s : Mod) :
    (missItems a ir ds).countP (Item.isMissFor a' s) ≤ 1 := by
  unfold missItems
  rw [List.countP_map]
  have hnd := nodup_dedup (ds.map (·.1))
  refine Nat.le_trans (List.countP_mono_left (q := fun x => x == s) ?_) ?_
  · intro x _ hx
    simp only [Function.comp, Item.isMissFor, Bool.and_eq_true] at hx
    exact hx.2
  · rw [← List.count_eq_countP]
    exact List.nodup_iff_count.1 hnd s

theorem countP_missItems_other (a ir : Bool) (ds : List Dep) (a' : Bool) (s : Mod) (h : a ≠ a') :
    (missItems a ir ds).countP (Item.isMissFor a' s) = 0 := by
  unfold missItems
  rw [List.countP_map, List.countP_eq_zero]
  intro x _
  cases a <;> cases a' <;> simp_all [Function.comp, Item.isMissFor]

theorem countP_impItems (ir : Bool) (ds : List Dep) (a' : Bool) (s : Mod) :
    (impItems ir ds).countP (Item.isMissFor a' s) = 0 := by
  unfold impItems
  rw [List.countP_map, List.countP_eq_zero]
  intro x _
  simp [Function.comp, Item.isMissFor]

/-- at most one line per (kind, subject) when the rule has a single verb; never more than two -/
theorem countP_report_le (b : Behavior) (ir : Bool) (expl : Option ExplDeps) (other : Option OtherDeps)
    (objsM : List Mod) (a : Bool) (s : Mod) :
    (reportItems ir (detect b ir expl other objsM)).countP (Item.isMissFor a s) ≤
      if (b.should && b.shouldOnly) = true then 2 else 1 := by
  unfold reportItems
  simp only [List.countP_append, countP_impItems, Nat.add_zero]
  have e1 := countP_missItems_le false ir (detect b ir expl other objsM).should a s
  have e2 := countP_missItems_le false ir (detect b ir expl other objsM).shouldOnlyNoImport a s
  have e3 := countP_missItems_le true ir (detect b ir expl other objsM).shouldExcept a s
  have e4 := countP_missItems_le true ir (detect b ir expl other objsM).shouldOnlyExceptNoImport a s
  cases a
  · rw [countP_missItems_other true ir _ false s (by simp), countP_missItems_other true ir _ false s (by simp)]
    split
    · omega
    · rename_i hb
      have : (detect b ir expl other objsM).should = [] ∨ (detect b ir expl other objsM).shouldOnlyNoImport = [] := by
        unfold detect
        cases expl <;> simp only [true_or]
        cases h1 : b.should <;> cases h2 : b.shouldOnly <;>
          simp_all [Behavior.expExplPresent, Behavior.expExplAndNoOther]
      rcases this with h | h <;> rw [h] at * <;> simp only [missItems_nil, List.countP_nil] at * <;> omega
  · rw [countP_missItems_other false ir _ true s (by simp), countP_missItems_other false ir _ true s (by simp)]
    split
    · omega
    · rename_i hb
      have : (detect b ir expl other objsM).shouldExcept = [] ∨
          (detect b ir expl other objsM).shouldOnlyExceptNoImport = [] := by
        unfold detect
        cases other <;> simp only [true_or]
        cases h1 : b.should <;> cases h2 : b.shouldOnly <;>
          simp_all [Behavior.expAtLeastOneOther, Behavior.expExplNotButOthers]
      rcases this with h | h <;> rw [h] at * <;> simp only [missItems_nil, List.countP_nil] at * <;> omega


/-! ### the object list of an `any` line -/

theorem dedup_append_of_subset {α : Type} [DecidableEq α] (l m : List α) (h : ∀ x ∈ l, x ∈ m) :
    dedup (l ++ m) = dedup m := by
  induction l with
  | nil => rfl
  | cons x xs ih =>
    have ih' := ih (fun y hy => h y (List.mem_cons_of_mem _ hy))
    simp only [List.cons_append, dedup, ih']
    rw [if_pos ((mem_dedup m x).2 (h x (by simp)))]

theorem dedup_flatMap_const {α κ : Type} [DecidableEq α] (K : List κ) (l : List α) (hK : K ≠ []) :
    dedup (K.flatMap fun _ => l) = dedup l := by
  induction K with
  | nil => exact absurd rfl hK
  | cons k K' ih =>
    cases K' with
    | nil => simp
    | cons k' K'' =>
      rw [List.flatMap_cons, dedup_append_of_subset, ih (by simp)]
      intro x hx
      simp only [List.flatMap_cons, List.mem_append]
      exact .inl hx

theorem missingOther_objs (deps : OtherDeps) (objsM : List Mod) (s : Mod) :
    ((missingOther deps objsM).filter fun x => x.1 = s).map (·.2) =
      ((deps.filter fun kd => kd.2.isEmpty).filter fun kd => kd.1 = s).flatMap fun _ => objsM := by
  unfold missingOther
  induction (deps.filter fun kd => kd.2.isEmpty) with
  | nil => rfl
  | cons kd L ih =>
    simp only [List.flatMap_cons, List.filter_append, List.map_append, ih, List.filter_cons]
    by_cases hk : kd.1 = s
    · simp [hk, List.filter_map, Function.comp_def]
    · simp [hk, List.filter_map, Function.comp_def]

theorem missingOther_objs_dedup (deps : OtherDeps) (objsM : List Mod) (s : Mod)
    (h : ∃ x ∈ missingOther deps objsM, x.1 = s) :
    dedup (((missingOther deps objsM).filter fun x => x.1 = s).map (·.2)) = dedup objsM := by
  rw [missingOther_objs]
  apply dedup_flatMap_const
  obtain ⟨x, hx, rfl⟩ := h
  unfold missingOther at hx
  simp only [List.mem_flatMap, List.mem_map] at hx
  obtain ⟨kd, hkd, o, _, rfl⟩ := hx
  exact List.ne_nil_of_mem (List.mem_filter.2 ⟨hkd, by simp⟩)

end Pta.Miss

/-! ### through `assert_applies` -/
namespace Pta
open Pta.Miss

theorem assertApplies_fail_objs (mt : Str → Str → Bool) (g : PGraph Str) (r : RuleState) (items : List Item)
    (h : (assertApplies mt r g).2 = .fail items) (os : List Filter)
    (hos : (convertAliases r.cfg).objects = some os) : os ≠ [] := by
  unfold assertApplies at h
  split at h
  · simp at h
  · simp only at h
    split at h
    · simp at h
    · rename_i hcm
      intro hnil
      simp [configMissing, hos, hnil] at hcm

/-- everything known about a failing `assert_applies` (shared set-up of the theorems below) -/
theorem fail_setup (mt : Str → Str → Bool) (g : PGraph Str) (r : RuleState) (items : List Item)
    (h : (assertApplies mt r g).2 = .fail items) (dir : Bool) (ss subs os objs : List Filter)
    (hd : (convertAliases r.cfg).importDir = some dir)
    (hss : (convertAliases r.cfg).subjects = some ss) (hconv : convertFilters mt g.nodes ss = .ok subs)
    (hos : (convertAliases r.cfg).objects = some os) (hconvo : convertFilters mt g.nodes os = .ok objs) :
    ∃ expl other, runQueries g (convertAliases r.cfg).behavior dir subs objs = .ok (expl, other) ∧
      items = reportItems dir (detect (convertAliases r.cfg).behavior dir expl other (objs.map Filter.toMod)) := by
  obtain ⟨d, ss', os', subs', objs', expl, other, hd', hss', hos', hconv', hconvo', hq, rfl⟩ :=
    assertApplies_fail mt g r items h
  rw [hd] at hd'; cases hd'
  rw [hss] at hss'; cases hss'
  rw [hconv] at hconv'; cases hconv'
  rw [hos] at hos'; cases hos'
  rw [hconvo] at hconvo'; cases hconvo'
  exact ⟨expl, other, hq, rfl⟩

theorem missFlag_false_eq (b : Behavior) : missFlag false b = ((b.should || b.shouldOnly) && !b.exc) := by
  rcases b with ⟨b1, b2, b3, b4⟩
  cases b1 <;> cases b2 <;> cases b4 <;> rfl

theorem missFlag_true_eq (b : Behavior) : missFlag true b = ((b.should || b.shouldOnly) && b.exc) := by
  rcases b with ⟨b1, b2, b3, b4⟩
  cases b1 <;> cases b2 <;> cases b4 <;> rfl

theorem missFlag_false_query (b : Behavior) (h : missFlag false b = true) : (b.explReq || b.explForb) = true := by
  rcases b with ⟨b1, b2, b3, b4⟩
  cases b1 <;> cases b2 <;> cases b3 <;> cases b4 <;> first | rfl | cases h

theorem missFlag_true_query (b : Behavior) (h : missFlag true b = true) : (b.otherReq || b.otherForb) = true := by
  rcases b with ⟨b1, b2, b3, b4⟩
  cases b1 <;> cases b2 <;> cases b3 <;> cases b4 <;> first | rfl | cases h

/-- a `does not import` line (not the `any` form): required by the verb, one rule subject, and EXACTLY the rule objects
    for which the query for the pair (subject, object) found no import -/
theorem missing_lines_are_missing_lemma (mt : Str → Str → Bool) (g : PGraph Str) (r : RuleState) (items : List Item)
    (h : (assertApplies mt r g).2 = .fail items) (dir : Bool) (ss subs os objs : List Filter)
    (hd : (convertAliases r.cfg).importDir = some dir)
    (hss : (convertAliases r.cfg).subjects = some ss) (hconv : convertFilters mt g.nodes ss = .ok subs)
    (hos : (convertAliases r.cfg).objects = some os) (hconvo : convertFilters mt g.nodes os = .ok objs) :
    ∀ s objsM d, Item.miss false s objsM d ∈ items →
      (((convertAliases r.cfg).behavior.should || (convertAliases r.cfg).behavior.shouldOnly) &&
        !(convertAliases r.cfg).behavior.exc) = true ∧ d = !dir ∧
      s.toFilter ∈ subs ∧ objsM ≠ [] ∧ objsM.Nodup ∧
      ∀ o, o ∈ objsM ↔ (o.toFilter ∈ objs ∧ pairQuery g dir s.toFilter o.toFilter = .ok []) := by
  obtain ⟨expl, other, hq, rfl⟩ := fail_setup mt g r items h dir ss subs os objs hd hss hconv hos hconvo
  have hsr := convertFilters_noregex_out mt g.nodes ss subs hconv
  have hor := convertFilters_noregex_out mt g.nodes os objs hconvo
  obtain ⟨q1, _⟩ := (runQueries_ok_iff g _ dir subs objs expl other).1 hq
  intro s objsM d hi
  obtain ⟨hflag, hm⟩ := (miss_mem_report_iff _ _ _ _ _ _ _ _ _).1 hi
  obtain ⟨_, rfl, ⟨x, hx, hxs⟩, rfl⟩ := (mem_missItems_iff _ _ _ _ _ _ _).1 hm
  rw [if_pos (missFlag_false_query _ hflag)] at q1
  obtain ⟨e, hg, rfl⟩ := q1
  simp only [missDeps] at hx ⊢
  have hmem := mem_abstractWithout g dir subs objs e hg
  refine ⟨by rw [← missFlag_false_eq]; exact hflag, by first | rfl | trivial, ?_, ?_, nodup_dedup _, ?_⟩
  · obtain ⟨s', hs', o', _, rfl, _⟩ := (hmem x).1 hx
    rw [← hxs, toFilter_toMod s' (hsr s' hs')]; exact hs'
  · intro hnil
    have : x.2 ∈ dedup ((List.filter (fun x => decide (x.1 = s)) (abstractWithout dir e)).map (·.2)) := by
      rw [mem_dedup]
      exact List.mem_map.2 ⟨x, List.mem_filter.2 ⟨hx, by simpa using hxs⟩, rfl⟩
    rw [hnil] at this; cases this
  · intro o
    simp only [mem_dedup, List.mem_map, List.mem_filter, decide_eq_true_eq]
    constructor
    · rintro ⟨y, ⟨hy, hys⟩, rfl⟩
      obtain ⟨s', hs', o', ho', rfl, hp⟩ := (hmem y).1 hy
      simp only at hys ⊢
      rw [← hys, toFilter_toMod s' (hsr s' hs'), toFilter_toMod o' (hor o' ho')]
      exact ⟨ho', hp⟩
    · rintro ⟨ho, hp⟩
      refine ⟨(s, o), ⟨(hmem _).2 ⟨s.toFilter, ?_, o.toFilter, ho, ?_, hp⟩, rfl⟩, rfl⟩
      · obtain ⟨s', hs', o', _, rfl, _⟩ := (hmem x).1 hx
        rw [← hxs, toFilter_toMod s' (hsr s' hs')]; exact hs'
      · rw [toMod_toFilter, toMod_toFilter]

/-- an `any module that is not …` line: required by the verb, one rule subject for which the "other" query found no
    import at all, listed with ALL rule objects -/
theorem missing_any_lines_are_missing_lemma (mt : Str → Str → Bool) (g : PGraph Str) (r : RuleState) (items : List Item)
    (h : (assertApplies mt r g).2 = .fail items) (dir : Bool) (ss subs os objs : List Filter)
    (hd : (convertAliases r.cfg).importDir = some dir)
    (hss : (convertAliases r.cfg).subjects = some ss) (hconv : convertFilters mt g.nodes ss = .ok subs)
    (hos : (convertAliases r.cfg).objects = some os) (hconvo : convertFilters mt g.nodes os = .ok objs) :
    ∀ s objsM d, Item.miss true s objsM d ∈ items →
      (((convertAliases r.cfg).behavior.should || (convertAliases r.cfg).behavior.shouldOnly) &&
        (convertAliases r.cfg).behavior.exc) = true ∧ d = !dir ∧
      s.toFilter ∈ subs ∧ objsM = dedup (objs.map Filter.toMod) ∧ otherQuery g dir s.toFilter objs = .ok [] := by
  obtain ⟨expl, other, hq, rfl⟩ := fail_setup mt g r items h dir ss subs os objs hd hss hconv hos hconvo
  have hsr := convertFilters_noregex_out mt g.nodes ss subs hconv
  obtain ⟨_, q2⟩ := (runQueries_ok_iff g _ dir subs objs expl other).1 hq
  intro s objsM d hi
  obtain ⟨hflag, hm⟩ := (miss_mem_report_iff _ _ _ _ _ _ _ _ _).1 hi
  obtain ⟨_, rfl, ⟨x, hx, hxs⟩, rfl⟩ := (mem_missItems_iff _ _ _ _ _ _ _).1 hm
  rw [if_pos (missFlag_true_query _ hflag)] at q2
  obtain ⟨e, hg, rfl⟩ := q2
  simp only [missDeps] at hx ⊢
  obtain ⟨s', hs', h1, _, hoq⟩ := (mem_missingOther g dir subs objs e _ hg x).1 hx
  have hs : s.toFilter = s' := by rw [← hxs, h1, toFilter_toMod s' (hsr s' hs')]
  refine ⟨by rw [← missFlag_true_eq]; exact hflag, by first | rfl | trivial, hs ▸ hs', ?_, hs ▸ hoq⟩
  exact missingOther_objs_dedup e _ s ⟨x, hx, hxs⟩

/-- every required pair (subject, object) for which the query found no import is reported -/
theorem missing_lines_complete_lemma (mt : Str → Str → Bool) (g : PGraph Str) (r : RuleState) (items : List Item)
    (h : (assertApplies mt r g).2 = .fail items) (dir : Bool) (ss subs os objs : List Filter)
    (hd : (convertAliases r.cfg).importDir = some dir)
    (hss : (convertAliases r.cfg).subjects = some ss) (hconv : convertFilters mt g.nodes ss = .ok subs)
    (hos : (convertAliases r.cfg).objects = some os) (hconvo : convertFilters mt g.nodes os = .ok objs)
    (hverb : (((convertAliases r.cfg).behavior.should || (convertAliases r.cfg).behavior.shouldOnly) &&
        !(convertAliases r.cfg).behavior.exc) = true) :
    ∀ s ∈ subs, ∀ o ∈ objs, pairQuery g dir s o = .ok [] →
      ∃ objsM, Item.miss false s.toMod objsM (!dir) ∈ items ∧ o.toMod ∈ objsM := by
  obtain ⟨expl, other, hq, rfl⟩ := fail_setup mt g r items h dir ss subs os objs hd hss hconv hos hconvo
  obtain ⟨q1, _⟩ := (runQueries_ok_iff g _ dir subs objs expl other).1 hq
  rw [← missFlag_false_eq] at hverb
  rw [if_pos (missFlag_false_query _ hverb)] at q1
  obtain ⟨e, hg, rfl⟩ := q1
  intro s hs o ho hp
  have hx : (s.toMod, o.toMod) ∈ abstractWithout dir e :=
    (mem_abstractWithout g dir subs objs e hg _).2 ⟨s, hs, o, ho, rfl, hp⟩
  refine ⟨_, (miss_mem_report_iff _ _ _ _ _ _ _ _ _).2 ⟨hverb,
    (mem_missItems_iff _ _ _ _ _ _ _).2 ⟨rfl, rfl, ⟨_, hx, rfl⟩, rfl⟩⟩, ?_⟩
  simp only [missDeps, mem_dedup, List.mem_map, List.mem_filter, decide_eq_true_eq]
  exact ⟨_, ⟨hx, rfl⟩, rfl⟩

/-- every subject of a `should (only) … except` rule for which the "other" query found no import is reported -/
theorem missing_any_lines_complete_lemma (mt : Str → Str → Bool) (g : PGraph Str) (r : RuleState) (items : List Item)
    (h : (assertApplies mt r g).2 = .fail items) (dir : Bool) (ss subs os objs : List Filter)
    (hd : (convertAliases r.cfg).importDir = some dir)
    (hss : (convertAliases r.cfg).subjects = some ss) (hconv : convertFilters mt g.nodes ss = .ok subs)
    (hos : (convertAliases r.cfg).objects = some os) (hconvo : convertFilters mt g.nodes os = .ok objs)
    (hverb : (((convertAliases r.cfg).behavior.should || (convertAliases r.cfg).behavior.shouldOnly) &&
        (convertAliases r.cfg).behavior.exc) = true) :
    ∀ s ∈ subs, otherQuery g dir s objs = .ok [] →
      Item.miss true s.toMod (dedup (objs.map Filter.toMod)) (!dir) ∈ items := by
  have hone := assertApplies_fail_objs mt g r items h os hos
  obtain ⟨expl, other, hq, rfl⟩ := fail_setup mt g r items h dir ss subs os objs hd hss hconv hos hconvo
  obtain ⟨_, q2⟩ := (runQueries_ok_iff g _ dir subs objs expl other).1 hq
  rw [← missFlag_true_eq] at hverb
  rw [if_pos (missFlag_true_query _ hverb)] at q2
  obtain ⟨e, hg, rfl⟩ := q2
  intro s hs hp
  have hobjs : objs ≠ [] := conv_ne_nil mt g.nodes os objs hone hconvo
  obtain ⟨o0, ho0⟩ := List.exists_mem_of_ne_nil objs hobjs
  have hx : (s.toMod, o0.toMod) ∈ missingOther e (objs.map Filter.toMod) :=
    (mem_missingOther g dir subs objs e _ hg _).2 ⟨s, hs, rfl, List.mem_map_of_mem ho0, hp⟩
  refine (miss_mem_report_iff _ _ _ _ _ _ _ _ _).2 ⟨hverb,
    (mem_missItems_iff _ _ _ _ _ _ _).2 ⟨rfl, rfl, ⟨_, hx, rfl⟩, ?_⟩⟩
  simp only [missDeps]
  exact (missingOther_objs_dedup e _ s.toMod ⟨_, hx, rfl⟩).symm

/-- two lines of the same kind for the same subject are the same line -/
theorem missing_line_unique_lemma (mt : Str → Str → Bool) (g : PGraph Str) (r : RuleState) (items : List Item)
    (h : (assertApplies mt r g).2 = .fail items) :
    ∀ any s os₁ d₁ os₂ d₂, Item.miss any s os₁ d₁ ∈ items → Item.miss any s os₂ d₂ ∈ items → os₁ = os₂ ∧ d₁ = d₂ := by
  obtain ⟨d, ss, os, subs, objs, expl, other, _, _, _, _, _, _, rfl⟩ := assertApplies_fail mt g r items h
  intro a s os₁ d₁ os₂ d₂ h1 h2
  obtain ⟨_, hm1⟩ := (miss_mem_report_iff _ _ _ _ _ _ _ _ _).1 h1
  obtain ⟨_, hm2⟩ := (miss_mem_report_iff _ _ _ _ _ _ _ _ _).1 h2
  obtain ⟨_, rfl, _, rfl⟩ := (mem_missItems_iff _ _ _ _ _ _ _).1 hm1
  obtain ⟨_, rfl, _, rfl⟩ := (mem_missItems_iff _ _ _ _ _ _ _).1 hm2
  exact ⟨rfl, rfl⟩

/-- at most one line per (kind, subject) — two when the rule carries both `should` and `should_only` -/
theorem missing_line_count_lemma (mt : Str → Str → Bool) (g : PGraph Str) (r : RuleState) (items : List Item)
    (h : (assertApplies mt r g).2 = .fail items) (any : Bool) (s : Mod) :
    items.countP (Item.isMissFor any s) ≤
      if ((convertAliases r.cfg).behavior.should && (convertAliases r.cfg).behavior.shouldOnly) = true then 2 else 1 := by
  obtain ⟨d, ss, os, subs, objs, expl, other, _, _, _, _, _, _, rfl⟩ := assertApplies_fail mt g r items h
  exact countP_report_le _ _ _ _ _ _ _

/-- what an empty pair query means: both modules exist and no import runs from the sub tree of the importer into the
    sub tree of the importee (the parent identifiers of `are_sub_modules_of` filters themselves do not count) -/
theorem pairQuery_nil_iff_lemma (g : PGraph Str) (dir : Bool) (s o : Filter) :
    pairQuery g dir s o = .ok [] ↔
      g.hasNode s.id = true ∧ g.hasNode o.id = true ∧
      ∀ u v, Reach g s.id u → Reach g o.id v → u ∉ parentIds [s, o] → v ∉ parentIds [s, o] →
        ¬ (if dir = true then v ∈ g.importSuccs u else u ∈ g.importSuccs v) := by
  have key : ∀ f o' : Filter, depBetween g f o' = .ok [] ↔
      g.hasNode f.id = true ∧ g.hasNode o'.id = true ∧
      ∀ u v, Reach g f.id u → Reach g o'.id v → u ∉ parentIds [f, o'] → v ∉ parentIds [f, o'] → v ∉ g.importSuccs u := by
    intro f o'
    by_cases hn : g.hasNode f.id = true ∧ g.hasNode o'.id = true
    · obtain ⟨l, hl, hm⟩ := depBetween_ok g f o' hn.1 hn.2
      rw [hl]
      simp only [Except.ok.injEq, hn.1, hn.2, true_and]
      constructor
      · rintro rfl u v h1 h2 h3 h4 h5
        exact absurd ((hm u v).2 ⟨h1, h5, h2, h3, h4⟩) (by simp)
      · intro hall
        cases l with
        | nil => rfl
        | cons p l' =>
          obtain ⟨h1, h5, h2, h3, h4⟩ := (hm p.1 p.2).1 (by simp)
          exact absurd h5 (hall _ _ h1 h2 h3 h4)
    · rw [depBetween_err g f o' (by
        by_cases h1 : g.hasNode f.id = true
        · right; simpa using fun h2 => hn ⟨h1, h2⟩
        · left; simpa using h1)]
      constructor
      · intro h; cases h
      · rintro ⟨h1, h2, _⟩; exact absurd ⟨h1, h2⟩ hn
  have hpar : ∀ x, x ∈ parentIds [o, s] ↔ x ∈ parentIds [s, o] := by
    intro x
    simp only [parentIds, List.mem_map, List.mem_filter, List.mem_cons, List.not_mem_nil, or_false]
    constructor <;> rintro ⟨f, ⟨hf | hf, hp⟩, rfl⟩ <;> first | exact ⟨f, ⟨.inr hf, hp⟩, rfl⟩ | exact ⟨f, ⟨.inl hf, hp⟩, rfl⟩
  cases dir
  · simp only [pairQuery, Bool.false_eq_true, if_false, key o s, hpar]
    constructor
    · rintro ⟨h1, h2, h3⟩; exact ⟨h2, h1, fun u v hu hv hup hvp => h3 v u hv hu hvp hup⟩
    · rintro ⟨h1, h2, h3⟩; exact ⟨h2, h1, fun u v hu hv hup hvp => h3 v u hv hu hvp hup⟩
  · simp only [pairQuery, if_true, key s o]


theorem mem_parentIds_dedup (os : List Filter) (x : Str) : x ∈ parentIds (dedup os) ↔ x ∈ parentIds os := by
  simp only [parentIds, List.mem_map, List.mem_filter, mem_dedup]

/-- what an empty "other" query means (`dir = true`): every import leaving the sub tree of the subject ends inside that
    sub tree or inside the sub tree of a rule object -/
theorem otherQuery_from_nil_lemma (g : PGraph Str) (s : Filter) (objs : List Filter)
    (h : otherQuery g true s objs = .ok []) :
    ∀ u v, Reach g s.id u → (s.isParent = true → u ≠ s.id) → v ∈ g.importSuccs u →
      Reach g s.id v ∨ ((∃ o ∈ objs, o ≠ s ∧ Reach g o.id v) ∧ v ∉ parentIds objs) := by
  simp only [otherQuery, if_true] at h
  by_cases hn : g.hasNode s.id = false ∨ ∃ o ∈ dedup objs, o ≠ s ∧ g.hasNode o.id = false
  · rw [otherFrom_err g s _ hn] at h; cases h
  · have hf : g.hasNode s.id = true := by
      cases hh : g.hasNode s.id
      · exact absurd (Or.inl hh) hn
      · rfl
    obtain ⟨l', hl', hm⟩ := otherFrom_ok g s (dedup objs) hf (by
      intro o ho
      by_cases hof : o = s
      · rw [hof]; exact hf
      · cases hh : g.hasNode o.id
        · exact absurd (Or.inr ⟨o, ho, hof, hh⟩) hn
        · rfl)
    rw [h] at hl'; cases hl'
    intro u v h1 h2 h3
    have hno : ¬ _ := fun hh => absurd ((hm u v).2 hh) (by simp)
    apply Classical.byContradiction
    intro hc
    rw [not_or] at hc
    apply hno
    refine ⟨h1, h2, h3, hc.1, ?_⟩
    simpa only [mem_dedup, mem_parentIds_dedup] using hc.2

/-- … and for `dir = false`: every import entering the sub tree of the subject starts inside it or inside the sub tree of
    a rule object -/
theorem otherQuery_to_nil_lemma (g : PGraph Str) (s : Filter) (objs : List Filter)
    (h : otherQuery g false s objs = .ok []) :
    ∀ p n, Reach g s.id n → (s.isParent = true → n ≠ s.id) → n ∈ g.importSuccs p →
      (Reach g s.id p ∧ (s.isParent = true → p ≠ s.id)) ∨
        ((∃ o ∈ objs, o ≠ s ∧ Reach g o.id p) ∧ p ∉ parentIds objs) := by
  simp only [otherQuery, Bool.false_eq_true, if_false] at h
  by_cases hn : g.hasNode s.id = false ∨ ∃ o ∈ dedup objs, o ≠ s ∧ g.hasNode o.id = false
  · rw [otherTo_err g _ s hn] at h; cases h
  · have hf : g.hasNode s.id = true := by
      cases hh : g.hasNode s.id
      · exact absurd (Or.inl hh) hn
      · rfl
    obtain ⟨l', hl', hm⟩ := otherTo_ok g (dedup objs) s hf (by
      intro o ho
      by_cases hof : o = s
      · rw [hof]; exact hf
      · cases hh : g.hasNode o.id
        · exact absurd (Or.inr ⟨o, ho, hof, hh⟩) hn
        · rfl)
    rw [h] at hl'; cases hl'
    intro p n h1 h2 h3
    have hno : ¬ _ := fun hh => absurd ((hm p n).2 hh) (by simp)
    apply Classical.byContradiction
    intro hc
    rw [not_or] at hc
    apply hno
    refine ⟨h1, h2, (mem_importPreds_iff g p n).2 h3, hc.1, ?_⟩
    simpa only [mem_dedup, mem_parentIds_dedup] using hc.2

end Pta
