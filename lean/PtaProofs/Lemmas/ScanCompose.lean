/-
  PtaProofs.Lemmas.ScanCompose — the directory walk (property C04) composed with the import conversion (property
  C02), and scans under two exclusion predicates compared (property C08).

  Listing convention: the C04 theorems take `entries` without the root directory and add `rootEntry`; `ScanHyps`
  (C02) is stated over any listing. Here `ScanHyps` is proved for the listing `rootEntry :: entries`, whose
  specification entries `sentriesOf … (rootEntry :: entries) o` are C04's `toSEntries … entries` by definition, and
  `scanParsed` / `generateGraph` ignore a listed root entry (`ScanWalk.scanParsed_root`, `generateGraph_root`).
-/
import Bridge.Abs
import Bridge.ScanAbs
import Bridge.ScanTree
import PtaProofs.Lemmas.ScanSpec
import PtaProofs.Lemmas.ScanGraph
import PtaProofs.Lemmas.ScanImports
namespace Pta
namespace ScanCompose
open PtaSpec ScanWalk ScanNames ScanSpec

/-! ### the two listings -/

theorem sentriesOf_root (mt : Str → Str → Bool) (base : Str) (entries : List Entry) (o : ScanOptions) :
    sentriesOf mt base (rootEntry :: entries) o = toSEntries (isExcluded mt o.exclusions) base entries := rfl

theorem mem_ownNames (excl : Str → Bool) (base root : Str) (mp : List Str) (entries : List Entry) (n : Name) :
    n ∈ ownNames root (toSEntries excl base entries) mp ↔
      ∃ e ∈ rootEntry :: entries, survives (toSEntries excl base entries) mp (toSEntry excl base e) = true ∧
        n = entryName root (toSEntry excl base e) := by
  unfold ownNames
  simp only [List.mem_map, List.mem_filter, toSEntries]
  constructor
  · rintro ⟨se, ⟨⟨e, he, rfl⟩, hs⟩, rfl⟩
    exact ⟨e, he, hs, rfl⟩
  · rintro ⟨e, he, hs, rfl⟩
    exact ⟨_, ⟨⟨e, he, rfl⟩, hs⟩, rfl⟩

theorem isNode_of_mem {entries : List Entry} {e : Entry} (he : e ∈ rootEntry :: entries) : IsNode entries e := by
  rcases List.mem_cons.1 he with rfl | h
  · exact Or.inr ⟨rfl, Or.inl rfl⟩
  · exact Or.inl h

section
variable {excl : Str → Bool} {base : Str} {mp : List Str} {entries : List Entry}
  (s : Shape entries) (nm : Names (Rel excl base mp) entries) (hmp : mpOK entries mp = true)
include s nm hmp

/-- the name of `module_path` is well-formed (its directories are relevant, hence named well) -/
theorem mp_wf (root : Str) (hroot : compWF root = true) : nameWF (root :: mp) = true := by
  rw [← relName_start s nm hmp (Rel.self excl base mp) root]
  exact relName_wf s nm root hroot _ (start_isNode hmp) rfl (Rel.self excl base mp)

/-- C04 ⟹ `ScanHyps.closed`: below `module_path`, the proper prefixes of a surviving entry's name are names of
    surviving entries -/
theorem own_closed (root : Str) (n : Name) (hn : n ∈ ownNames root (toSEntries excl base entries) mp)
    (p : Name) (hp : p ∈ properPrefixes n) (hd : desc (root :: mp) p = true) :
    p ∈ ownNames root (toSEntries excl base entries) mp := by
  obtain ⟨d, hd', hsv, rfl⟩ := (mem_ownNames excl base root mp entries n).1 hn
  have hS := (survives_iff excl base s mp d hd').1 hsv
  have hle := hS.1.length_le
  rcases ScanGraph.prefix_explicit excl base root s nm hmp (d.rel.length - mp.length) d hd' hS (by omega) p
      (mem_properPrefixes_ne_nil hp)
      (by rw [← entryName_toSEntry excl base]; exact ScanGraph.properPrefixes_prefix hp) with
    ⟨e, he, heS, hen⟩ | ⟨k, -, hk, hpk⟩
  · exact (mem_ownNames excl base root mp entries p).2
      ⟨e, he, (survives_iff excl base s mp e he).2 heS, by rw [entryName_toSEntry]; exact hen⟩
  · exfalso
    simp only [desc, List.isPrefixOf_iff_prefix] at hd
    have h1 := hd.length_le
    rw [hpk, List.length_take] at h1
    simp only [List.length_cons] at h1
    omega

omit hmp in
/-- C04 ⟹ no `x.py` next to `x/` among the surviving entries: a surviving file's module has no surviving entry's
    module strictly below it -/
theorem noFileParent_of_tree (root : Str) :
    ScanImports.noFileParent root (toSEntries excl base entries) mp = true := by
  unfold ScanImports.noFileParent
  simp only [List.all_eq_true, Bool.not_eq_true']
  intro f hf n hn
  unfold ScanImports.filesOf at hf
  obtain ⟨hfm, hfc⟩ := List.mem_filter.1 hf
  simp only [Bool.and_eq_true, Bool.not_eq_true'] at hfc
  obtain ⟨e, he, rfl⟩ := List.mem_map.1 hfm
  obtain ⟨d, hd, -, rfl⟩ := (mem_ownNames excl base root mp entries n).1 hn
  have hedir : e.isDir = false := hfc.1
  have hee : e ∈ entries := by
    rcases List.mem_cons.1 he with rfl | h
    · cases hedir
    · exact h
  have hS := (survives_iff excl base s mp e he).1 hfc.2
  have hpy : isPyFile (lastName e) = true := by
    have := survives_dirOrPy excl base hS
    simpa [dirOrPy, hedir] using this
  rw [entryName_toSEntry, entryName_toSEntry]
  cases hsd : sdesc (relName root e) (relName root d) with
  | false => rfl
  | true =>
    exfalso
    simp only [sdesc, Bool.and_eq_true, List.isPrefixOf_iff_prefix, bne_iff_ne, ne_eq] at hsd
    have := file_leaf s nm root e hee hedir hpy (Rel.of_survives hS) d (isNode_of_mem hd) (relName root d) hsd.1
      (List.prefix_refl _)
    exact hsd.2 this.symm

end

/-! ### `ScanHyps` from the tree hypotheses of C04 -/

section
variable {mt : Str → Str → Bool} {base root : Str} {mp : List Str} {entries : List Entry} {o : ScanOptions}

/-- the hypotheses C02 takes from the directory walk, discharged by C04 -/
theorem scanHyps_of_tree (hwf : treeWFFor (isExcluded mt o.exclusions) base mp entries = true)
    (hmp : mpOK entries mp = true) (hroot : compWF root = true)
    (hxx : o.excludeExternal = true) (hlim : o.levelLimit = none) (hext : o.externalExclusions.isEmpty = true)
    (hst : ∀ e ∈ entries, ∀ st ∈ e.stmts, stmtOK (toSStmt st) = true) :
    ScanHyps mt base root mp (rootEntry :: entries) o := by
  have hwf' := hwf
  simp only [treeWFFor, Bool.and_eq_true] at hwf'
  have hshape := hwf'.1
  have s := shape_of entries hshape
  have nm := names_of _ base mp entries hwf'.2
  refine ⟨hxx, hlim, hext, mp_wf s nm hmp root hroot, ?_, ?_, ?_, ?_, ?_⟩
  · intro n hn
    rw [sentriesOf_root] at hn
    obtain ⟨e, he, hsv, rfl⟩ := (mem_ownNames _ base root mp entries n).1 hn
    exact scan_modules_wf_lemma base mt root mp entries o hwf hroot e he hsv
  · intro n hn p hp hd
    rw [sentriesOf_root] at hn ⊢
    exact own_closed s nm hmp root n hn p hp hd
  · intro e he st hs
    rcases List.mem_cons.1 he with rfl | h
    · cases hs
    · exact hst e h st hs
  · intro x
    rw [scanParsed_root base mt root mp rootEntry rfl, sentriesOf_root,
      scan_modules_lemma base mt root mp entries o hshape hmp x]
    constructor
    · rintro ⟨e, he, hsv, rfl⟩
      exact ⟨_, (mem_ownNames _ base root mp entries _).2 ⟨e, he, hsv, rfl⟩, rfl⟩
    · rintro ⟨n, hn, rfl⟩
      obtain ⟨e, he, hsv, rfl⟩ := (mem_ownNames _ base root mp entries n).1 hn
      exact ⟨e, he, hsv, rfl⟩
  · intro f
    rw [scanParsed_root base mt root mp rootEntry rfl, sentriesOf_root,
      scan_files_lemma base mt root mp entries o hshape hmp f]
    constructor
    · rintro ⟨e, he, hd, hsv, rfl⟩
      exact ⟨e, List.mem_cons_of_mem _ he, hd, hsv, rfl⟩
    · rintro ⟨e, he, hd, hsv, rfl⟩
      rcases List.mem_cons.1 he with rfl | h
      · cases hd
      · exact ⟨e, h, hd, hsv, rfl⟩

/-- C02 at graph level without walk hypotheses, and without the collision exception (`treeWFFor` forbids a
    relevant `x.py` next to `x/`) -/
theorem scan_imports_tree_lemma (hwf : treeWFFor (isExcluded mt o.exclusions) base mp entries = true)
    (hmp : mpOK entries mp = true) (hroot : compWF root = true)
    (hxx : o.excludeExternal = true) (hlim : o.levelLimit = none) (hext : o.externalExclusions.isEmpty = true)
    (hst : ∀ e ∈ entries, ∀ st ∈ e.stmts, stmtOK (toSStmt st) = true) :
    match scanImports root (toSEntries (isExcluded mt o.exclusions) base entries) mp with
    | none => generateGraph mt base root mp entries o = .error .lookupError
    | some is => ∃ g, generateGraph mt base root mp entries o = .ok g ∧
        ∀ u v, (u, v) ∈ g.importPairs ↔ ∃ e ∈ is, u = render e.1 ∧ v = render e.2 := by
  have H := scanHyps_of_tree (root := root) hwf hmp hroot hxx hlim hext hst
  have hwf' := hwf
  simp only [treeWFFor, Bool.and_eq_true] at hwf'
  have hnc := noFileParent_of_tree (shape_of entries hwf'.1) (names_of _ base mp entries hwf'.2) root
  have := ScanImports.scan_imports_nocollision_lemma H (by rw [sentriesOf_root]; exact hnc)
  rw [sentriesOf_root, generateGraph_root base mt root mp rootEntry rfl] at this
  exact this

end

end ScanCompose
end Pta
