/-
  PtaProofs.Lemmas.SubScan — the scan of a sub-directory (`module_path = mp`) against the scan of the whole root
  (`module_path = []`) of ONE tree (property C04, imports), and against the scan of the same tree with its absolute
  imports re-spelled relative to `mp`'s parent directory. Vocabulary: Bridge/SubScan.lean.
-/
import Bridge.Abs
import Bridge.ScanAbs
import Bridge.ScanTree
import Bridge.ScanExcl
import Bridge.SubScan
import PtaProofs.Lemmas.ScanSpec
import PtaProofs.Lemmas.ScanGraph
import PtaProofs.Lemmas.ScanImports
import PtaProofs.Lemmas.ScanCompose
import PtaProofs.Lemmas.ScanExclude
namespace Pta
namespace SubScan
open PtaSpec ScanWalk ScanNames ScanSpec ScanCompose

/-! ### one statement against two module lists: `m` (sub-scan, below `P`) and `m0` (whole root) -/

theorem parentPrefix_eq (root : Str) (mp : List Str) : parentPrefix root mp = ScanImports.apOf root mp := rfl

/-- whether a statement has targets at all depends neither on the module list nor on the prefix -/
theorem targets_none_congr (m m' : List Name) (ap ap' : Option Name) (imp : Name) (st : SStmt) :
    targets m ap imp st = none ↔ targets m' ap' imp st = none := by
  cases st with
  | imp names => simp [targets]
  | impFrom mo names lvl =>
    cases lvl with
    | zero =>
      cases mo with
      | none => simp [targets]
      | some p => simp [targets]
    | succ l =>
      simp only [targets]
      split <;> simp

theorem qualify_none (m : List Name) (n : Name) : targets.qualify m none n = n := rfl

theorem qualify_some (m : List Name) (pre n : Name) :
    targets.qualify m (some pre) n = if m.contains (pre ++ n) = true then pre ++ n else n := rfl

/-- a name that cannot be read relative to the prefix is left as written -/
theorem qualify_portable (m : List Name) (ap : Option Name) (n : Name)
    (h : ∀ pre, ap = some pre → m.contains (pre ++ n) = false) : targets.qualify m ap n = n := by
  cases ap with
  | none => rfl
  | some pre =>
    rw [qualify_some, if_neg]
    rw [h pre rfl]; exact Bool.false_ne_true

section
variable {m0 m : List Name} {P : Name}
  (hsub : ∀ q, m.contains q = true → m0.contains q = true)
  (hdown : ∀ q, m0.contains q = true → P <+: q → m.contains q = true)
  (hP : ∀ q, m.contains q = true → P <+: q)
include hsub hdown hP

/-- the choice between a sub-module and its package, against the modules below `P` and against all modules, names
    the same module below `P` -/
theorem choice_sub (sub q t : Name) (hq : q <+: sub) (ht : m.contains t = true) :
    (if m.contains sub = true then sub else q) = t ↔ (if m0.contains sub = true then sub else q) = t := by
  apply ScanExclude.choice_congr hsub sub q t ?_ ht
  cases hmq : m.contains q with
  | false => simp
  | true =>
    cases hm0 : m0.contains sub with
    | false => unfold gone; rw [hm0]; rfl
    | true =>
      have := hdown sub hm0 ((hP q hmq).trans hq)
      unfold gone; rw [hm0, this]; rfl

/-- a portable statement names the same modules below `P` in the sub-scan (prefix `ap`) and in the whole-root scan
    (no prefix) -/
theorem targets_subscan (ap : Option Name) (imp : Name) (st : SStmt) (hc : portableStmt m ap st = true)
    (ts ts0 : List Name) (h : targets m ap imp st = some ts) (h0 : targets m0 none imp st = some ts0)
    (t : Name) (ht : m.contains t = true) : t ∈ ts ↔ t ∈ ts0 := by
  cases st with
  | imp names =>
    simp only [targets, Option.some.injEq] at h h0
    subst h h0
    simp only [portableStmt, List.all_eq_true] at hc
    have : names.map (targets.qualify m ap) = names.map (targets.qualify m0 none) := by
      apply List.map_congr_left
      intro n hn
      rw [qualify_none]
      apply qualify_portable
      intro pre hpre
      have := hc n hn
      subst hpre
      simpa using this
    rw [this]
  | impFrom mo names lvl =>
    cases lvl with
    | zero =>
      cases mo with
      | none => simp [targets] at h
      | some p =>
        simp only [targets, Option.some.injEq] at h h0
        subst h h0
        simp only [portableStmt, List.all_eq_true] at hc
        simp only [List.mem_map, qualify_none]
        have key : ∀ n ∈ names,
            ((if m.contains (targets.qualify m ap (p ++ [n])) = true then targets.qualify m ap (p ++ [n])
              else targets.qualify m ap p) = t ↔
             (if m0.contains (p ++ [n]) = true then p ++ [n] else p) = t) := by
          intro n hn
          have hcn := hc n hn
          have e1 : targets.qualify m ap (p ++ [n]) = p ++ [n] := by
            apply qualify_portable
            intro pre hpre
            subst hpre
            simp only [Bool.and_eq_true, Bool.not_eq_true'] at hcn
            exact hcn.1
          have e2 : targets.qualify m ap p = p := by
            apply qualify_portable
            intro pre hpre
            subst hpre
            simp only [Bool.and_eq_true, Bool.not_eq_true'] at hcn
            exact hcn.2
          rw [e1, e2]
          exact choice_sub hsub hdown hP _ _ t (List.prefix_append _ _) ht
        constructor
        · rintro ⟨n, hn, hF⟩; exact ⟨n, hn, (key n hn).1 hF⟩
        · rintro ⟨n, hn, hF⟩; exact ⟨n, hn, (key n hn).2 hF⟩
    | succ l =>
      simp only [targets] at h h0
      split at h
      · cases h
      · rename_i hl
        rw [if_neg hl] at h0
        simp only [Option.some.injEq] at h h0
        subst h h0
        cases mo with
        | none => rfl
        | some p =>
          simp only [List.mem_map]
          constructor
          · rintro ⟨n, hn, hF⟩
            exact ⟨n, hn, (choice_sub hsub hdown hP _ _ t (List.prefix_append _ _) ht).1 hF⟩
          · rintro ⟨n, hn, hF⟩
            exact ⟨n, hn, (choice_sub hsub hdown hP _ _ t (List.prefix_append _ _) ht).2 hF⟩

end

/-! ### the two scans of one tree -/

section tree
variable {mt : Str → Str → Bool} {base root : Str} {mp : List Str} {entries : List Entry} {o : ScanOptions}

/-- names of surviving entries are well-formed (no option hypotheses) -/
theorem own_wf (hwf : treeWFFor (isExcluded mt o.exclusions) base mp entries = true) (hroot : compWF root = true) :
    ∀ n ∈ ownNames root (toSEntries (isExcluded mt o.exclusions) base entries) mp, nameWF n = true := by
  intro n hn
  obtain ⟨e, he, hsv, rfl⟩ := (mem_ownNames _ base root mp entries n).1 hn
  exact scan_modules_wf_lemma base mt root mp entries o hwf hroot e he hsv

/-- below `module_path` the names of surviving entries are closed under ancestors -/
theorem own_cl (hwf : treeWFFor (isExcluded mt o.exclusions) base mp entries = true) (hmp : mpOK entries mp = true) :
    ∀ n ∈ ownNames root (toSEntries (isExcluded mt o.exclusions) base entries) mp, ∀ p ∈ properPrefixes n,
      desc (root :: mp) p = true → p ∈ ownNames root (toSEntries (isExcluded mt o.exclusions) base entries) mp := by
  simp only [treeWFFor, Bool.and_eq_true] at hwf
  intro n hn p hp hd
  exact own_closed (shape_of entries hwf.1) (names_of _ base mp entries hwf.2) hmp root n hn p hp hd

section
variable (hwf0 : treeWFFor (isExcluded mt o.exclusions) base [] entries = true)
  (hmp : mpOK entries mp = true)
  (hclear : ∀ k, k < mp.length → isExcluded mt o.exclusions (pathStr base (mp.take k)) = false)
include hwf0 hmp hclear

/-- an entry survives the sub-scan iff it survives the whole-root scan and its dotted name lies at or below
    `module_path`'s -/
theorem survives_subscan_name (e : Entry) (he : e ∈ rootEntry :: entries) :
    survives (toSEntries (isExcluded mt o.exclusions) base entries) mp (toSEntry (isExcluded mt o.exclusions) base e) = true ↔
      survives (toSEntries (isExcluded mt o.exclusions) base entries) [] (toSEntry (isExcluded mt o.exclusions) base e) = true ∧
      (root :: mp) <+: entryName root (toSEntry (isExcluded mt o.exclusions) base e) := by
  simp only [treeWFFor, Bool.and_eq_true] at hwf0
  have s := shape_of entries hwf0.1
  have nm0 := names_of _ base [] entries hwf0.2
  rw [survives_iff _ base s mp e he, survives_iff _ base s [] e he, survives_subscan _ base hclear e, entryName_toSEntry]
  constructor
  · rintro ⟨h1, h2⟩
    exact ⟨h2, (prefix_relName_iff s nm0 hmp root e he (survives_dirOrPy _ base h2) (Rel.of_survives h2)).2 h1⟩
  · rintro ⟨h2, h1⟩
    exact ⟨(prefix_relName_iff s nm0 hmp root e he (survives_dirOrPy _ base h2) (Rel.of_survives h2)).1 h1, h2⟩

variable (hwf : treeWFFor (isExcluded mt o.exclusions) base mp entries = true) (hroot : compWF root = true)
include hwf hroot

/-- the internal modules of the sub-scan are the modules of the whole-root scan at or below `module_path` -/
theorem inside_subscan (n : Name) :
    n ∈ ScanImports.insideOf root (toSEntries (isExcluded mt o.exclusions) base entries) mp ↔
      n ∈ ScanImports.insideOf root (toSEntries (isExcluded mt o.exclusions) base entries) [] ∧ (root :: mp) <+: n := by
  rw [ScanImports.mem_insideOf_closed root _ mp (own_wf hwf hroot) (own_cl hwf hmp) n,
    ScanImports.mem_insideOf_closed root _ [] (own_wf hwf0 hroot) (own_cl hwf0 rfl) n]
  constructor
  · rintro ⟨hown, hpre⟩
    obtain ⟨e, he, hsv, rfl⟩ := (mem_ownNames _ base root mp entries n).1 hown
    obtain ⟨hsv0, -⟩ := (survives_subscan_name (root := root) hwf0 hmp hclear e he).1 hsv
    exact ⟨⟨(mem_ownNames _ base root [] entries _).2 ⟨e, he, hsv0, rfl⟩,
      ((List.prefix_cons_inj root).2 List.nil_prefix).trans hpre⟩, hpre⟩
  · rintro ⟨⟨hown0, -⟩, hpre⟩
    obtain ⟨e, he, hsv0, rfl⟩ := (mem_ownNames _ base root [] entries n).1 hown0
    exact ⟨(mem_ownNames _ base root mp entries _).2
      ⟨e, he, (survives_subscan_name (root := root) hwf0 hmp hclear e he).2 ⟨hsv0, hpre⟩, rfl⟩, hpre⟩

/-- C04, sub-directory scans, the specification's edges: if the whole-root scan has an answer then so has the
    sub-scan, and on portable statements its edges are exactly the whole-root edges with both ends at or below
    `module_path`'s dotted name -/
theorem scanImports_subscan_lemma
    (hport : portable root (toSEntries (isExcluded mt o.exclusions) base entries) mp = true)
    (is0 : List (Name × Name))
    (his0 : scanImports root (toSEntries (isExcluded mt o.exclusions) base entries) [] = some is0) :
    ∃ is, scanImports root (toSEntries (isExcluded mt o.exclusions) base entries) mp = some is ∧
      ∀ e : Name × Name, e ∈ is ↔ e ∈ is0 ∧ (root :: mp) <+: e.1 ∧ (root :: mp) <+: e.2 := by
  have hI := inside_subscan (root := root) hwf0 hmp hclear hwf hroot
  have hSv := survives_subscan_name (root := root) hwf0 hmp hclear
  -- the module lists
  have hsub : ∀ q, (ScanImports.insideOf root (toSEntries (isExcluded mt o.exclusions) base entries) mp).contains q = true →
      (ScanImports.insideOf root (toSEntries (isExcluded mt o.exclusions) base entries) []).contains q = true := by
    intro q hq
    rw [List.contains_iff_mem] at hq ⊢
    exact ((hI q).1 hq).1
  have hdown : ∀ q, (ScanImports.insideOf root (toSEntries (isExcluded mt o.exclusions) base entries) []).contains q = true →
      (root :: mp) <+: q →
      (ScanImports.insideOf root (toSEntries (isExcluded mt o.exclusions) base entries) mp).contains q = true := by
    intro q hq hp
    rw [List.contains_iff_mem] at hq ⊢
    exact (hI q).2 ⟨hq, hp⟩
  have hP : ∀ q, (ScanImports.insideOf root (toSEntries (isExcluded mt o.exclusions) base entries) mp).contains q = true →
      (root :: mp) <+: q := by
    intro q hq
    rw [List.contains_iff_mem] at hq
    exact ((hI q).1 hq).2
  have hC : ∀ f ∈ ScanImports.filesOf (toSEntries (isExcluded mt o.exclusions) base entries) mp, ∀ st ∈ f.stmts,
      portableStmt (ScanImports.insideOf root (toSEntries (isExcluded mt o.exclusions) base entries) mp)
        (ScanImports.apOf root mp) st = true := by
    simp only [portable, List.all_eq_true] at hport
    exact hport
  -- the sub-scan has an answer
  obtain ⟨is, his⟩ : ∃ is, scanImports root (toSEntries (isExcluded mt o.exclusions) base entries) mp = some is := by
    cases hs : scanImports root (toSEntries (isExcluded mt o.exclusions) base entries) mp with
    | some is => exact ⟨is, rfl⟩
    | none =>
      exfalso
      obtain ⟨f, hf, st, hst', ht⟩ :=
        (ScanExclude.scanImports_none_iff (mt := mt) (entries := rootEntry :: entries) (o := o)).1 hs
      obtain ⟨e0, he0, rfl, hd, hsv⟩ := (ScanImports.mem_filesOf f).1 hf
      have hf0 : toSEntry (isExcluded mt o.exclusions) base e0 ∈
          ScanImports.filesOf (sentriesOf mt base (rootEntry :: entries) o) [] :=
        (ScanImports.mem_filesOf _).2 ⟨e0, he0, rfl, hd, ((hSv e0 he0).1 hsv).1⟩
      have : scanImports root (sentriesOf mt base (rootEntry :: entries) o) [] = none :=
        ScanImports.scanImports_none _ _ _ ⟨_, hf0, st, hst', (targets_none_congr _ _ _ _ _ _).1 ht⟩
      rw [sentriesOf_root, his0] at this
      cases this
  refine ⟨is, his, fun e => ?_⟩
  have M0 := ScanExclude.scanImports_mem_iff (mt := mt) (entries := rootEntry :: entries) (o := o) is0 his0
  have M := ScanExclude.scanImports_mem_iff (mt := mt) (entries := rootEntry :: entries) (o := o) is his
  constructor
  · intro he
    obtain ⟨hacc, hin, hne⟩ := (M e).1 he
    obtain ⟨e0, he0, hd, hsv, himp, st, hst', ts, hts, ht⟩ := hacc
    replace himp : e.1 = entryName root (toSEntry (isExcluded mt o.exclusions) base e0) := himp
    replace hts : targets (ScanImports.insideOf root (toSEntries (isExcluded mt o.exclusions) base entries) mp)
        (ScanImports.apOf root mp) e.1 (toSStmt st) = some ts := hts
    replace hin : e.2 ∈ ScanImports.insideOf root (toSEntries (isExcluded mt o.exclusions) base entries) mp := hin
    replace hsv : survives (toSEntries (isExcluded mt o.exclusions) base entries) mp
        (toSEntry (isExcluded mt o.exclusions) base e0) = true := hsv
    obtain ⟨hsv0, hpre1⟩ := (hSv e0 he0).1 hsv
    have hfm : toSEntry (isExcluded mt o.exclusions) base e0 ∈
        ScanImports.filesOf (toSEntries (isExcluded mt o.exclusions) base entries) mp :=
      (ScanImports.mem_filesOf (mt := mt) (entries := rootEntry :: entries) (o := o) _).2 ⟨e0, he0, rfl, hd, hsv⟩
    have hcs := hC _ hfm (toSStmt st) (List.mem_map.2 ⟨st, hst', rfl⟩)
    cases hts0 : targets (ScanImports.insideOf root (toSEntries (isExcluded mt o.exclusions) base entries) [])
        none e.1 (toSStmt st) with
    | none => rw [(targets_none_congr _ _ _ _ _ _).1 hts0] at hts; cases hts
    | some ts0 =>
      have ht0 := (targets_subscan hsub hdown hP _ _ _ hcs ts ts0 hts hts0 e.2 (List.contains_iff_mem.2 hin)).1 ht
      exact ⟨(M0 e).2 ⟨⟨e0, he0, hd, hsv0, himp, st, hst', ts0, hts0, ht0⟩, ((hI _).1 hin).1, hne⟩,
        by rw [himp]; exact hpre1, ((hI _).1 hin).2⟩
  · rintro ⟨he, hp1, hp2⟩
    obtain ⟨hacc, hin0, hne⟩ := (M0 e).1 he
    obtain ⟨e0, he0, hd, hsv0, himp, st, hst', ts0, hts0, ht0⟩ := hacc
    replace himp : e.1 = entryName root (toSEntry (isExcluded mt o.exclusions) base e0) := himp
    replace hts0 : targets (ScanImports.insideOf root (toSEntries (isExcluded mt o.exclusions) base entries) [])
        none e.1 (toSStmt st) = some ts0 := hts0
    replace hin0 : e.2 ∈ ScanImports.insideOf root (toSEntries (isExcluded mt o.exclusions) base entries) [] := hin0
    replace hsv0 : survives (toSEntries (isExcluded mt o.exclusions) base entries) []
        (toSEntry (isExcluded mt o.exclusions) base e0) = true := hsv0
    have hsv := (hSv e0 he0).2 ⟨hsv0, by rw [← himp]; exact hp1⟩
    have hin := (hI _).2 ⟨hin0, hp2⟩
    have hfm : toSEntry (isExcluded mt o.exclusions) base e0 ∈
        ScanImports.filesOf (toSEntries (isExcluded mt o.exclusions) base entries) mp :=
      (ScanImports.mem_filesOf (mt := mt) (entries := rootEntry :: entries) (o := o) _).2 ⟨e0, he0, rfl, hd, hsv⟩
    have hcs := hC _ hfm (toSStmt st) (List.mem_map.2 ⟨st, hst', rfl⟩)
    cases hts : targets (ScanImports.insideOf root (toSEntries (isExcluded mt o.exclusions) base entries) mp)
        (ScanImports.apOf root mp) e.1 (toSStmt st) with
    | none => rw [(targets_none_congr _ _ _ _ _ _).1 hts] at hts0; cases hts0
    | some ts =>
      have ht := (targets_subscan hsub hdown hP _ _ _ hcs ts ts0 hts hts0 e.2 (List.contains_iff_mem.2 hin)).2 ht0
      exact (M e).2 ⟨⟨e0, he0, hd, hsv, himp, st, hst', ts, hts, ht⟩, hin, hne⟩

end

end tree

/-! ### graph level -/

section graph
variable {mt : Str → Str → Bool} {base root : Str} {mp : List Str} {entries : List Entry} {o : ScanOptions}

/-- the model's internal-module test on rendered names is the dotted-prefix relation -/
theorem isInternal_render (hw : nameWF (root :: mp) = true) (n : Name) (hn : nameWF n = true) :
    isInternal (render n) (internalPrefix root mp) = true ↔ (root :: mp) <+: n := by
  rw [isInternal, ScanImports.internalPrefix_eq, isModuleOrSub_render _ _ hw hn, desc_iff]

/-- nodes of a whole-root scan: the surviving entries' names -/
theorem nodes_root (hwf0 : treeWFFor (isExcluded mt o.exclusions) base [] entries = true) (hroot : compWF root = true)
    (hxx : o.excludeExternal = true) (hlim : o.levelLimit = none) (g0 : PGraph Str)
    (h0 : generateGraph mt base root [] entries o = .ok g0) (s : Str) :
    s ∈ g0.nodes ↔ s ∈ (scanParsed mt base root [] entries o).allModules := by
  have hwf0' := hwf0
  simp only [treeWFFor, Bool.and_eq_true] at hwf0'
  rw [ScanGraph.scan_nodes_explicit_lemma mt base root [] entries o hwf0 rfl hroot hxx hlim g0 h0 s,
    scan_modules_lemma base mt root [] entries o hwf0'.1 rfl s]
  constructor
  · rintro (h | ⟨-, k, k0, hk, -⟩)
    · exact h
    · simp only [List.length_nil] at hk; omega
  · exact Or.inl

/-- C04, sub-directory scans, graph level: when the scan of the whole root succeeds, so does the scan of
    `module_path`; its nodes are the whole-root nodes internal to `module_path` plus the ancestor packages of
    `module_path`, and (on portable statements) its import pairs are the whole-root import pairs with both ends
    internal to `module_path` -/
theorem subscan_graph_lemma
    (hwf0 : treeWFFor (isExcluded mt o.exclusions) base [] entries = true)
    (hwf : treeWFFor (isExcluded mt o.exclusions) base mp entries = true)
    (hmp : mpOK entries mp = true) (hroot : compWF root = true)
    (hxx : o.excludeExternal = true) (hlim : o.levelLimit = none) (hext : o.externalExclusions.isEmpty = true)
    (hst : ∀ e ∈ entries, ∀ st ∈ e.stmts, stmtOK (toSStmt st) = true)
    (hclear : ∀ k, k < mp.length → isExcluded mt o.exclusions (pathStr base (mp.take k)) = false)
    (hport : portable root (toSEntries (isExcluded mt o.exclusions) base entries) mp = true)
    (g0 : PGraph Str) (h0 : generateGraph mt base root [] entries o = .ok g0) :
    ∃ g, generateGraph mt base root mp entries o = .ok g ∧
      (∀ s, s ∈ g.nodes ↔
        (s ∈ g0.nodes ∧ isInternal s (internalPrefix root mp) = true) ∨
        (isExcluded mt o.exclusions (pathStr base mp) = false ∧
          ∃ k, 0 < k ∧ k ≤ mp.length ∧ s = render ((root :: mp).take k))) ∧
      (∀ u v, (u, v) ∈ g.importPairs ↔
        (u, v) ∈ g0.importPairs ∧ isInternal u (internalPrefix root mp) = true ∧
          isInternal v (internalPrefix root mp) = true) := by
  have H0 := scanHyps_of_tree (root := root) (mp := []) hwf0 rfl hroot hxx hlim hext hst
  have H := scanHyps_of_tree (root := root) hwf hmp hroot hxx hlim hext hst
  have T0 := scan_imports_tree_lemma (root := root) (mp := []) hwf0 rfl hroot hxx hlim hext hst
  have T := scan_imports_tree_lemma (root := root) hwf hmp hroot hxx hlim hext hst
  obtain ⟨is0, his0⟩ : ∃ is0, scanImports root (toSEntries (isExcluded mt o.exclusions) base entries) [] = some is0 := by
    cases hs : scanImports root (toSEntries (isExcluded mt o.exclusions) base entries) [] with
    | none => rw [hs] at T0; rw [T0] at h0; cases h0
    | some is0 => exact ⟨is0, rfl⟩
  rw [his0] at T0
  obtain ⟨g0', hg0', E0⟩ := T0
  rw [h0, Except.ok.injEq] at hg0'
  subst hg0'
  obtain ⟨is, his, hiff⟩ := scanImports_subscan_lemma (root := root) hwf0 hmp hclear hwf hroot hport is0 his0
  rw [his] at T
  obtain ⟨g, hg, E⟩ := T
  have hw : nameWF (root :: mp) = true := H.rootWF
  have M0 := ScanExclude.scanImports_mem_iff (mt := mt) (entries := rootEntry :: entries) (o := o) is0 his0
  have hwfe : ∀ e ∈ is0, nameWF e.1 = true ∧ nameWF e.2 = true := by
    intro e he
    obtain ⟨hown, hw2⟩ := ScanImports.Acc_facts H0 e.1 e.2 ((M0 e).1 he).1
    exact ⟨H0.ownWF _ hown, hw2⟩
  refine ⟨g, hg, fun s => ?_, fun u v => ?_⟩
  · have hwf' := hwf
    simp only [treeWFFor, Bool.and_eq_true] at hwf'
    rw [ScanGraph.scan_nodes_explicit_lemma mt base root mp entries o hwf hmp hroot hxx hlim g hg s,
      nodes_root hwf0 hroot hxx hlim g0 h0 s,
      ← subscan_modules_lemma base mt root mp entries o hwf0 hwf hmp hroot hclear s,
      scan_modules_lemma base mt root mp entries o hwf'.1 hmp s]
  · rw [E u v, E0 u v]
    constructor
    · rintro ⟨e, he, rfl, rfl⟩
      obtain ⟨he0, hp1, hp2⟩ := (hiff e).1 he
      obtain ⟨hw1, hw2⟩ := hwfe e he0
      exact ⟨⟨e, he0, rfl, rfl⟩, (isInternal_render hw _ hw1).2 hp1, (isInternal_render hw _ hw2).2 hp2⟩
    · rintro ⟨⟨e, he0, rfl, rfl⟩, hi1, hi2⟩
      obtain ⟨hw1, hw2⟩ := hwfe e he0
      exact ⟨e, (hiff e).2 ⟨he0, (isInternal_render hw _ hw1).1 hi1, (isInternal_render hw _ hw2).1 hi2⟩, rfl, rfl⟩

end graph

/-! ### the spelling relative to `module_path`'s parent: one statement -/

section strip

theorem stripName_none (n : Name) : stripName none n = n := rfl

/-- a stripped name is the name as written, or the non-empty rest after the prefix -/
theorem stripName_cases (pre n : Name) :
    stripName (some pre) n = n ∨ (pre ++ stripName (some pre) n = n ∧ stripName (some pre) n ≠ []) := by
  by_cases h : (pre.isPrefixOf n && decide (pre.length < n.length)) = true
  · have hs : stripName (some pre) n = n.drop pre.length := by simp only [stripName, if_pos h]
    right
    rw [hs]
    simp only [Bool.and_eq_true, List.isPrefixOf_iff_prefix, decide_eq_true_eq] at h
    obtain ⟨⟨t, rfl⟩, hl⟩ := h
    rw [List.drop_left]
    refine ⟨rfl, ?_⟩
    rintro rfl
    simp at hl
  · exact Or.inl (by simp only [stripName, if_neg h])

theorem stripName_wf (ap : Option Name) (n : Name) (h : nameWF n = true) : nameWF (stripName ap n) = true := by
  cases ap with
  | none => exact h
  | some pre =>
    rcases stripName_cases pre n with e | ⟨e, hne⟩
    · rw [e]; exact h
    · rw [nameWF_iff] at h ⊢
      refine ⟨hne, fun c hc => h.2 c ?_⟩
      rw [← e]
      exact List.mem_append_right _ hc

/-- `_adjust_with_root_prefix` undoes the stripping when the fully qualified name is a module of the sub-scan -/
theorem qualify_strip (m : List Name) (pre n : Name) (hn : m.contains n = true) :
    targets.qualify m (some pre) (stripName (some pre) n) = n ∨
    targets.qualify m (some pre) (stripName (some pre) n) = pre ++ n := by
  rcases stripName_cases pre n with e | ⟨e, -⟩
  · rw [e, qualify_some]
    split
    · exact Or.inr rfl
    · exact Or.inl rfl
  · left
    rw [qualify_some, e, if_pos hn]

/-- the stripped spelling of a module of the sub-scan resolves back to the module -/
theorem qualify_strip_module (m : List Name) (pre n : Name) (h : m.contains n = true)
    (hp : pre <+: n) (hl : pre.length < n.length) :
    targets.qualify m (some pre) (stripName (some pre) n) = n := by
  obtain ⟨t, rfl⟩ := hp
  have hc : (pre.isPrefixOf (pre ++ t) && decide (pre.length < (pre ++ t).length)) = true := by
    simp only [Bool.and_eq_true, List.isPrefixOf_iff_prefix, decide_eq_true_eq]
    exact ⟨List.prefix_append _ _, hl⟩
  have hs : stripName (some pre) (pre ++ t) = t := by
    simp only [stripName, if_pos hc, List.drop_left]
  rw [hs, qualify_some, if_pos h]

variable {m : List Name}

/-- two names of which each is the wanted module `t ∈ m` only if the other is -/
theorem eq_iff_of_same {a b t : Name} (ht : m.contains t = true)
    (h : a = b ∨ (m.contains a = false ∧ m.contains b = false)) : a = t ↔ b = t := by
  rcases h with rfl | ⟨ha, hb⟩
  · exact Iff.rfl
  · constructor
    · rintro rfl; rw [ha] at ht; cases ht
    · rintro rfl; rw [hb] at ht; cases ht

/-- a portable, plainly re-spellable name resolves, stripped, to the same module of the sub-scan or to none -/
theorem qualify_strip_same (ap : Option Name) (n : Name)
    (h1 : ∀ pre, ap = some pre → m.contains (pre ++ n) = false) (h2 : plainName m ap n = true) :
    targets.qualify m ap (stripName ap n) = n ∨
    (m.contains (targets.qualify m ap (stripName ap n)) = false ∧ m.contains n = false) := by
  cases ap with
  | none => exact Or.inl rfl
  | some pre =>
    rcases stripName_cases pre n with e | ⟨e, -⟩
    · rw [e]
      exact Or.inl (qualify_portable m _ n h1)
    · rw [qualify_some, e]
      by_cases hn : m.contains n = true
      · rw [if_pos hn]; exact Or.inl rfl
      · rw [if_neg hn]
        right
        simp only [plainName, Bool.or_eq_true, Bool.not_eq_true'] at h2
        rcases h2 with h2 | h2
        · exact ⟨h2, by simpa using hn⟩
        · exact absurd h2 hn

theorem targets_none_strip (ap ap' : Option Name) (imp : Name) (st : SStmt) :
    targets m ap imp (stripSStmt ap' st) = none ↔ targets m ap imp st = none := by
  cases st with
  | imp names => simp [targets, stripSStmt]
  | impFrom mo names lvl =>
    cases lvl with
    | zero =>
      cases mo with
      | none => simp [targets, stripSStmt]
      | some p => simp [targets, stripSStmt]
    | succ l => simp only [stripSStmt]

/-- a portable statement that can be re-spelled plainly names, re-spelled, the same modules of the sub-scan -/
theorem targets_strip (ap : Option Name) (imp : Name) (st : SStmt) (h1 : portableStmt m ap st = true)
    (h2 : plainStmt m ap st = true) (ts ts' : List Name) (h : targets m ap imp st = some ts)
    (h' : targets m ap imp (stripSStmt ap st) = some ts') (t : Name) (ht : m.contains t = true) :
    t ∈ ts' ↔ t ∈ ts := by
  cases st with
  | imp names =>
    simp only [stripSStmt, targets, Option.some.injEq] at h h'
    subst h h'
    simp only [portableStmt, List.all_eq_true] at h1
    simp only [plainStmt, List.all_eq_true] at h2
    simp only [List.mem_map, List.map_map, Function.comp]
    have key : ∀ n ∈ names, (targets.qualify m ap (stripName ap n) = t ↔ targets.qualify m ap n = t) := by
      intro n hn
      have hp : ∀ pre, ap = some pre → m.contains (pre ++ n) = false := by
        intro pre hpre
        have := h1 n hn
        subst hpre
        simpa using this
      rw [qualify_portable m ap n hp]
      apply eq_iff_of_same ht
      rcases qualify_strip_same ap n hp (h2 n hn) with e | e
      · exact Or.inl e
      · exact Or.inr e
    constructor
    · rintro ⟨n, hn, hF⟩; exact ⟨n, hn, (key n hn).1 hF⟩
    · rintro ⟨n, hn, hF⟩; exact ⟨n, hn, (key n hn).2 hF⟩
  | impFrom mo names lvl =>
    cases lvl with
    | zero =>
      cases mo with
      | none => simp [targets] at h
      | some p =>
        cases ap with
        | none =>
          simp only [stripSStmt, stripName_none] at h'
          rw [h] at h'
          simp only [Option.some.injEq] at h'
          rw [h']
        | some pre =>
          simp only [stripSStmt, targets, Option.some.injEq] at h h'
          subst h h'
          simp only [portableStmt, List.all_eq_true, Bool.and_eq_true, Bool.not_eq_true'] at h1
          simp only [plainStmt, List.all_eq_true, Bool.and_eq_true, Bool.or_eq_true, Bool.not_eq_true'] at h2
          obtain ⟨h2p, h2n⟩ := h2
          simp only [List.mem_map]
          have key : ∀ x ∈ names,
              ((if m.contains (targets.qualify m (some pre) (stripName (some pre) p ++ [x])) = true
                  then targets.qualify m (some pre) (stripName (some pre) p ++ [x])
                  else targets.qualify m (some pre) (stripName (some pre) p)) = t ↔
               (if m.contains (targets.qualify m (some pre) (p ++ [x])) = true
                  then targets.qualify m (some pre) (p ++ [x])
                  else targets.qualify m (some pre) p) = t) := by
            intro x hx
            obtain ⟨hp1, hp2⟩ := h1 x hx
            have e1 : targets.qualify m (some pre) (p ++ [x]) = p ++ [x] :=
              qualify_portable m _ _ (fun pre' hpre' => by cases hpre'; exact hp1)
            have e2 : targets.qualify m (some pre) p = p :=
              qualify_portable m _ _ (fun pre' hpre' => by cases hpre'; exact hp2)
            rw [e1, e2]
            rcases stripName_cases pre p with e | ⟨e, -⟩
            · rw [e, e1, e2]
            · -- `p = pre ++ r`
              have ea : pre ++ (stripName (some pre) p ++ [x]) = p ++ [x] := by
                rw [← List.append_assoc, e]
              apply eq_iff_of_same ht
              rw [qualify_some m pre (stripName (some pre) p ++ [x]), qualify_some m pre (stripName (some pre) p), ea, e]
              by_cases ha : m.contains (p ++ [x]) = true
              · simp only [if_pos ha, true_or]
              · have hb : m.contains (stripName (some pre) p ++ [x]) = false := by
                  rcases h2n x hx with hb | hb
                  · exact hb
                  · exact absurd hb ha
                simp only [if_neg ha]
                rw [if_neg (by rw [hb]; exact Bool.false_ne_true)]
                by_cases hc : m.contains p = true
                · rw [if_pos hc]; exact Or.inl rfl
                · rw [if_neg hc]
                  right
                  simp only [plainName, Bool.or_eq_true, Bool.not_eq_true'] at h2p
                  rcases h2p with hd | hd
                  · exact ⟨hd, by simpa using hc⟩
                  · exact absurd hd hc
          constructor
          · rintro ⟨n, hn, hF⟩; exact ⟨n, hn, (key n hn).1 hF⟩
          · rintro ⟨n, hn, hF⟩; exact ⟨n, hn, (key n hn).2 hF⟩
    | succ l =>
      simp only [stripSStmt] at h'
      rw [h] at h'
      simp only [Option.some.injEq] at h'
      rw [h']

theorem stmtOK_strip (ap : Option Name) (st : SStmt) (h : stmtOK st = true) : stmtOK (stripSStmt ap st) = true := by
  cases st with
  | imp names =>
    simp only [stripSStmt, stmtOK, List.all_eq_true, List.mem_map] at h ⊢
    rintro _ ⟨n, hn, rfl⟩
    exact stripName_wf ap n (h n hn)
  | impFrom mo names lvl =>
    cases lvl with
    | zero =>
      cases mo with
      | none => exact h
      | some p =>
        simp only [stripSStmt, stmtOK, Bool.and_eq_true] at h ⊢
        exact ⟨stripName_wf ap p h.1, h.2⟩
    | succ l => cases mo <;> exact h

/-- the raw-string re-spelling is the re-spelling of the component lists, on parser-producible statements -/
theorem toSStmt_strip (ap : Option Name) (st : ImportStmt) (h : stmtOK (toSStmt st) = true) :
    toSStmt (stripStmt ap st) = stripSStmt ap (toSStmt st) := by
  cases st with
  | imp names =>
    simp only [toSStmt, stmtOK, List.all_eq_true, List.mem_map] at h
    simp only [stripStmt, toSStmt, stripSStmt, List.map_map, SStmt.imp.injEq]
    apply List.map_congr_left
    intro n hn
    simp only [Function.comp, stripStr]
    exact splitDots_render _ (stripName_wf ap _ (h _ ⟨n, hn, rfl⟩))
  | impFrom mo names lvl =>
    cases lvl with
    | zero =>
      cases mo with
      | none => rfl
      | some p =>
        simp only [toSStmt, Option.map_some, stmtOK, Bool.and_eq_true] at h
        simp only [stripStmt, toSStmt, stripSStmt, Option.map_some, stripStr]
        rw [splitDots_render _ (stripName_wf ap _ h.1)]
    | succ l => cases mo <;> rfl

end strip

/-! ### the re-spelled tree: same walk, same modules -/

section respell
variable (root : Str) (mp : List Str)

theorem respell_rel (e : Entry) : (respellEntry root mp e).rel = e.rel := by
  unfold respellEntry; split <;> rfl

theorem respell_isDir (e : Entry) : (respellEntry root mp e).isDir = e.isDir := by
  unfold respellEntry; split <;> rfl

theorem respell_root : respellEntry root mp rootEntry = rootEntry := by
  unfold respellEntry; split <;> rfl

theorem respell_stmts (e : Entry) (h : mp.isPrefixOf e.rel = true) :
    (respellEntry root mp e).stmts = e.stmts.map (stripStmt (parentPrefix root mp)) := by
  simp only [respellEntry, if_pos h]

theorem lastName_respell (e : Entry) : lastName (respellEntry root mp e) = lastName e := by
  simp only [lastName, respell_rel]

theorem relsNodup_respell : ∀ entries : List Entry,
    relsNodup (entries.map (respellEntry root mp)) = relsNodup entries
  | [] => rfl
  | e :: es => by
    simp only [List.map_cons, relsNodup, List.any_map, Function.comp_def, respell_rel, relsNodup_respell es]

theorem relevant_respell (excl : Str → Bool) (base : Str) (q : List Str) (e : Entry) :
    relevant excl base q (respellEntry root mp e) = relevant excl base q e := by
  simp only [relevant, respell_rel]

theorem treeWFFor_respell (excl : Str → Bool) (base : Str) (q : List Str) (entries : List Entry) :
    treeWFFor excl base q (parentRelative root mp entries) = treeWFFor excl base q entries := by
  simp only [treeWFFor, treeShape, treeNamesFor, parentRelative, relsNodup_respell, List.all_map, List.any_map,
    Function.comp_def, respell_rel, respell_isDir, lastName_respell, relevant_respell]

theorem mpOK_respell (q : List Str) (entries : List Entry) :
    mpOK (parentRelative root mp entries) q = mpOK entries q := by
  simp only [mpOK, parentRelative, List.any_map, Function.comp_def, respell_rel, respell_isDir]

theorem mem_respell (entries : List Entry) (e' : Entry) :
    e' ∈ rootEntry :: parentRelative root mp entries ↔ ∃ e ∈ rootEntry :: entries, e' = respellEntry root mp e := by
  simp only [parentRelative, List.mem_cons, List.mem_map]
  constructor
  · rintro (rfl | ⟨e, he, rfl⟩)
    · exact ⟨rootEntry, Or.inl rfl, (respell_root root mp).symm⟩
    · exact ⟨e, Or.inr he, rfl⟩
  · rintro ⟨e, rfl | he, rfl⟩
    · exact Or.inl (respell_root root mp)
    · exact Or.inr ⟨e, he, rfl⟩

variable (excl : Str → Bool) (base : Str)

theorem toSEntries_respell (entries : List Entry) :
    toSEntries excl base (parentRelative root mp entries) =
      (rootEntry :: entries).map fun e => toSEntry excl base (respellEntry root mp e) := by
  simp only [toSEntries, parentRelative, List.map_cons, List.map_map, Function.comp_def, respell_root]

theorem entryName_respell (e : Entry) :
    entryName root (toSEntry excl base (respellEntry root mp e)) = entryName root (toSEntry excl base e) := by
  rw [entryName_toSEntry, entryName_toSEntry]
  exact relName_congr root (respell_rel root mp e)

theorem survives_respell (entries : List Entry) (q : List Str) (e : Entry) :
    survives (toSEntries excl base (parentRelative root mp entries)) q (toSEntry excl base (respellEntry root mp e)) =
      survives (toSEntries excl base entries) q (toSEntry excl base e) := by
  rw [toSEntries_respell]
  simp only [survives, toSEntries, List.all_map, Function.comp_def, toSEntry, respell_rel, respell_isDir]

theorem ownNames_respell (entries : List Entry) (q : List Str) :
    ownNames root (toSEntries excl base (parentRelative root mp entries)) q =
      ownNames root (toSEntries excl base entries) q := by
  unfold ownNames
  have hs := survives_respell root mp excl base entries q
  rw [toSEntries_respell] at hs ⊢
  rw [toSEntries, List.filter_map, List.filter_map, List.map_map, List.map_map]
  have hf : (survives ((rootEntry :: entries).map fun e => toSEntry excl base (respellEntry root mp e)) q ∘
        fun e => toSEntry excl base (respellEntry root mp e)) =
      (survives ((rootEntry :: entries).map (toSEntry excl base)) q ∘ toSEntry excl base) := by
    funext e
    exact hs e
  rw [hf]
  apply List.map_congr_left
  intro e _
  exact entryName_respell root mp excl base e

theorem scanModules_eq_own (sents : List SEntry) (q : List Comp) :
    scanModules root sents q =
      (ownNames root sents q ++ (ownNames root sents q).flatMap properPrefixes).eraseDups := rfl

theorem insideOf_respell (entries : List Entry) (q : List Str) :
    ScanImports.insideOf root (toSEntries excl base (parentRelative root mp entries)) q =
      ScanImports.insideOf root (toSEntries excl base entries) q := by
  unfold ScanImports.insideOf
  rw [scanModules_eq_own, scanModules_eq_own, ownNames_respell]

end respell

/-! ### the sub-scan of the re-spelled tree -/

section respellScan
variable {mt : Str → Str → Bool} {base root : Str} {mp : List Str} {entries : List Entry} {o : ScanOptions}

theorem survives_prefix {sents : List SEntry} {q : List Comp} {e : SEntry} (h : survives sents q e = true) :
    q.isPrefixOf e.rel = true := by
  simp only [survives, Bool.and_eq_true] at h
  exact h.1.1

theorem stmts_root (hst : ∀ e ∈ entries, ∀ st ∈ e.stmts, stmtOK (toSStmt st) = true) :
    ∀ e ∈ rootEntry :: entries, ∀ st ∈ e.stmts, stmtOK (toSStmt st) = true := by
  intro e he st hs
  rcases List.mem_cons.1 he with rfl | h
  · cases hs
  · exact hst e h st hs

/-- the re-spelled tree keeps parser-producible statements -/
theorem stmts_respell (hst : ∀ e ∈ entries, ∀ st ∈ e.stmts, stmtOK (toSStmt st) = true) :
    ∀ e ∈ parentRelative root mp entries, ∀ st ∈ e.stmts, stmtOK (toSStmt st) = true := by
  intro e' he' st' hs'
  obtain ⟨e, he, rfl⟩ := List.mem_map.1 he'
  unfold respellEntry at hs'
  split at hs'
  · obtain ⟨st, hs, rfl⟩ := List.mem_map.1 hs'
    rw [toSStmt_strip _ _ (hst e he st hs)]
    exact stmtOK_strip _ _ (hst e he st hs)
  · exact hst e he st' hs'

variable (hst : ∀ e ∈ entries, ∀ st ∈ e.stmts, stmtOK (toSStmt st) = true)
  (hport : portable root (toSEntries (isExcluded mt o.exclusions) base entries) mp = true)
  (hplain : plain root (toSEntries (isExcluded mt o.exclusions) base entries) mp = true)
include hst hport hplain

/-- The same tree with the absolute imports of the files below `module_path` re-spelled relative to
    `module_path`'s parent: the sub-scan has an answer for both or for neither, and the same edges. -/
theorem scanImports_respell_lemma :
    (scanImports root (toSEntries (isExcluded mt o.exclusions) base (parentRelative root mp entries)) mp = none ↔
      scanImports root (toSEntries (isExcluded mt o.exclusions) base entries) mp = none) ∧
    ∀ is is', scanImports root (toSEntries (isExcluded mt o.exclusions) base entries) mp = some is →
      scanImports root (toSEntries (isExcluded mt o.exclusions) base (parentRelative root mp entries)) mp = some is' →
      ∀ e : Name × Name, e ∈ is' ↔ e ∈ is := by
  have hst' := stmts_root hst
  have hC1 : ∀ f ∈ ScanImports.filesOf (toSEntries (isExcluded mt o.exclusions) base entries) mp, ∀ st ∈ f.stmts,
      portableStmt (ScanImports.insideOf root (toSEntries (isExcluded mt o.exclusions) base entries) mp)
        (ScanImports.apOf root mp) st = true := by
    simp only [portable, List.all_eq_true] at hport
    exact hport
  have hC2 : ∀ f ∈ ScanImports.filesOf (toSEntries (isExcluded mt o.exclusions) base entries) mp, ∀ st ∈ f.stmts,
      plainStmt (ScanImports.insideOf root (toSEntries (isExcluded mt o.exclusions) base entries) mp)
        (ScanImports.apOf root mp) st = true := by
    simp only [plain, List.all_eq_true] at hplain
    exact hplain
  refine ⟨⟨fun h => ?_, fun h => ?_⟩, fun is is' his his' e => ?_⟩
  · obtain ⟨f, hf, sst, hsst, ht⟩ :=
      (ScanExclude.scanImports_none_iff (mt := mt) (entries := rootEntry :: parentRelative root mp entries) (o := o)).1 h
    obtain ⟨e0', he0', rfl, hd, hsv⟩ := (ScanImports.mem_filesOf f).1 hf
    obtain ⟨e0, he0, rfl⟩ := (mem_respell root mp entries e0').1 he0'
    replace hsv : survives (toSEntries (isExcluded mt o.exclusions) base (parentRelative root mp entries)) mp
        (toSEntry (isExcluded mt o.exclusions) base (respellEntry root mp e0)) = true := hsv
    rw [survives_respell] at hsv
    rw [respell_isDir] at hd
    replace hsst : sst ∈ (respellEntry root mp e0).stmts.map toSStmt := hsst
    rw [respell_stmts root mp e0 (survives_prefix hsv), List.map_map] at hsst
    obtain ⟨st, hs, rfl⟩ := List.mem_map.1 hsst
    replace ht : targets
        (ScanImports.insideOf root (toSEntries (isExcluded mt o.exclusions) base (parentRelative root mp entries)) mp)
        (ScanImports.apOf root mp)
        (entryName root (toSEntry (isExcluded mt o.exclusions) base (respellEntry root mp e0)))
        (toSStmt (stripStmt (parentPrefix root mp) st)) = none := ht
    rw [insideOf_respell, entryName_respell, toSStmt_strip _ _ (hst' e0 he0 st hs), targets_none_strip] at ht
    exact ScanImports.scanImports_none _ _ _
      ⟨_, (ScanImports.mem_filesOf (mt := mt) (entries := rootEntry :: entries) (o := o) _).2 ⟨e0, he0, rfl, hd, hsv⟩,
        toSStmt st, List.mem_map.2 ⟨st, hs, rfl⟩, ht⟩
  · obtain ⟨f, hf, sst, hsst, ht⟩ :=
      (ScanExclude.scanImports_none_iff (mt := mt) (entries := rootEntry :: entries) (o := o)).1 h
    obtain ⟨e0, he0, rfl, hd, hsv⟩ := (ScanImports.mem_filesOf f).1 hf
    replace hsv : survives (toSEntries (isExcluded mt o.exclusions) base entries) mp
        (toSEntry (isExcluded mt o.exclusions) base e0) = true := hsv
    replace hsst : sst ∈ e0.stmts.map toSStmt := hsst
    obtain ⟨st, hs, rfl⟩ := List.mem_map.1 hsst
    replace ht : targets (ScanImports.insideOf root (toSEntries (isExcluded mt o.exclusions) base entries) mp)
        (ScanImports.apOf root mp) (entryName root (toSEntry (isExcluded mt o.exclusions) base e0)) (toSStmt st) = none := ht
    have hsv' : survives (toSEntries (isExcluded mt o.exclusions) base (parentRelative root mp entries)) mp
        (toSEntry (isExcluded mt o.exclusions) base (respellEntry root mp e0)) = true := by
      rw [survives_respell]; exact hsv
    refine ScanImports.scanImports_none _ _ _
      ⟨_, (ScanImports.mem_filesOf (mt := mt) (entries := rootEntry :: parentRelative root mp entries) (o := o) _).2
          ⟨respellEntry root mp e0, (mem_respell root mp entries _).2 ⟨e0, he0, rfl⟩, rfl,
            by rw [respell_isDir]; exact hd, hsv'⟩,
        toSStmt (stripStmt (parentPrefix root mp) st), ?_, ?_⟩
    · show _ ∈ (respellEntry root mp e0).stmts.map toSStmt
      rw [respell_stmts root mp e0 (survives_prefix hsv)]
      exact List.mem_map.2 ⟨_, List.mem_map.2 ⟨st, hs, rfl⟩, rfl⟩
    · rw [insideOf_respell, entryName_respell, toSStmt_strip _ _ (hst' e0 he0 st hs), targets_none_strip]
      exact ht
  · have M := ScanExclude.scanImports_mem_iff (mt := mt) (entries := rootEntry :: entries) (o := o) is his
    have M' := ScanExclude.scanImports_mem_iff (mt := mt) (entries := rootEntry :: parentRelative root mp entries)
      (o := o) is' his'
    constructor
    · intro he
      obtain ⟨hacc, hin, hne⟩ := (M' e).1 he
      obtain ⟨e0', he0', hd, hsv, himp, st', hs', ts', hts', ht'⟩ := hacc
      obtain ⟨e0, he0, rfl⟩ := (mem_respell root mp entries e0').1 he0'
      replace hsv : survives (toSEntries (isExcluded mt o.exclusions) base (parentRelative root mp entries)) mp
          (toSEntry (isExcluded mt o.exclusions) base (respellEntry root mp e0)) = true := hsv
      rw [survives_respell] at hsv
      rw [respell_isDir] at hd
      replace himp : e.1 = entryName root (toSEntry (isExcluded mt o.exclusions) base (respellEntry root mp e0)) := himp
      rw [entryName_respell] at himp
      rw [respell_stmts root mp e0 (survives_prefix hsv)] at hs'
      obtain ⟨st, hs, rfl⟩ := List.mem_map.1 hs'
      replace hts' : targets
          (ScanImports.insideOf root (toSEntries (isExcluded mt o.exclusions) base (parentRelative root mp entries)) mp)
          (ScanImports.apOf root mp) e.1 (toSStmt (stripStmt (parentPrefix root mp) st)) = some ts' := hts'
      rw [insideOf_respell, toSStmt_strip _ _ (hst' e0 he0 st hs)] at hts'
      replace hin : e.2 ∈
          ScanImports.insideOf root (toSEntries (isExcluded mt o.exclusions) base (parentRelative root mp entries)) mp := hin
      rw [insideOf_respell] at hin
      have hfm : toSEntry (isExcluded mt o.exclusions) base e0 ∈
          ScanImports.filesOf (toSEntries (isExcluded mt o.exclusions) base entries) mp :=
        (ScanImports.mem_filesOf (mt := mt) (entries := rootEntry :: entries) (o := o) _).2 ⟨e0, he0, rfl, hd, hsv⟩
      have hcs1 := hC1 _ hfm (toSStmt st) (List.mem_map.2 ⟨st, hs, rfl⟩)
      have hcs2 := hC2 _ hfm (toSStmt st) (List.mem_map.2 ⟨st, hs, rfl⟩)
      cases hts : targets (ScanImports.insideOf root (toSEntries (isExcluded mt o.exclusions) base entries) mp)
          (ScanImports.apOf root mp) e.1 (toSStmt st) with
      | none => rw [(targets_none_strip _ _ _ _).2 hts] at hts'; cases hts'
      | some ts =>
        have ht := (targets_strip _ _ _ hcs1 hcs2 ts ts' hts hts' e.2 (List.contains_iff_mem.2 hin)).1 ht'
        exact (M e).2 ⟨⟨e0, he0, hd, hsv, himp, st, hs, ts, hts, ht⟩, hin, hne⟩
    · intro he
      obtain ⟨hacc, hin, hne⟩ := (M e).1 he
      obtain ⟨e0, he0, hd, hsv, himp, st, hs, ts, hts, ht⟩ := hacc
      replace hsv : survives (toSEntries (isExcluded mt o.exclusions) base entries) mp
          (toSEntry (isExcluded mt o.exclusions) base e0) = true := hsv
      replace himp : e.1 = entryName root (toSEntry (isExcluded mt o.exclusions) base e0) := himp
      replace hts : targets (ScanImports.insideOf root (toSEntries (isExcluded mt o.exclusions) base entries) mp)
          (ScanImports.apOf root mp) e.1 (toSStmt st) = some ts := hts
      replace hin : e.2 ∈ ScanImports.insideOf root (toSEntries (isExcluded mt o.exclusions) base entries) mp := hin
      have hfm : toSEntry (isExcluded mt o.exclusions) base e0 ∈
          ScanImports.filesOf (toSEntries (isExcluded mt o.exclusions) base entries) mp :=
        (ScanImports.mem_filesOf (mt := mt) (entries := rootEntry :: entries) (o := o) _).2 ⟨e0, he0, rfl, hd, hsv⟩
      have hcs1 := hC1 _ hfm (toSStmt st) (List.mem_map.2 ⟨st, hs, rfl⟩)
      have hcs2 := hC2 _ hfm (toSStmt st) (List.mem_map.2 ⟨st, hs, rfl⟩)
      have hsv' : survives (toSEntries (isExcluded mt o.exclusions) base (parentRelative root mp entries)) mp
          (toSEntry (isExcluded mt o.exclusions) base (respellEntry root mp e0)) = true := by
        rw [survives_respell]; exact hsv
      cases hts' : targets (ScanImports.insideOf root (toSEntries (isExcluded mt o.exclusions) base entries) mp)
          (ScanImports.apOf root mp) e.1 (stripSStmt (parentPrefix root mp) (toSStmt st)) with
      | none => rw [(targets_none_strip _ _ _ _).1 hts'] at hts; cases hts
      | some ts' =>
        have ht' := (targets_strip _ _ _ hcs1 hcs2 ts ts' hts hts' e.2 (List.contains_iff_mem.2 hin)).2 ht
        refine (M' e).2 ⟨⟨respellEntry root mp e0, (mem_respell root mp entries _).2 ⟨e0, he0, rfl⟩,
          by rw [respell_isDir]; exact hd, hsv', ?_, stripStmt (parentPrefix root mp) st, ?_, ts', ?_, ht'⟩, ?_, hne⟩
        · show e.1 = entryName root (toSEntry (isExcluded mt o.exclusions) base (respellEntry root mp e0))
          rw [entryName_respell]; exact himp
        · rw [respell_stmts root mp e0 (survives_prefix hsv)]
          exact List.mem_map.2 ⟨st, hs, rfl⟩
        · show targets
            (ScanImports.insideOf root (toSEntries (isExcluded mt o.exclusions) base (parentRelative root mp entries)) mp)
            (ScanImports.apOf root mp) e.1 (toSStmt (stripStmt (parentPrefix root mp) st)) = some ts'
          rw [insideOf_respell, toSStmt_strip _ _ (hst' e0 he0 st hs)]
          exact hts'
        · show e.2 ∈
            ScanImports.insideOf root (toSEntries (isExcluded mt o.exclusions) base (parentRelative root mp entries)) mp
          rw [insideOf_respell]; exact hin

end respellScan

/-! ### the re-spelled tree, graph level -/

section respellGraph
variable {mt : Str → Str → Bool} {base root : Str} {mp : List Str} {entries : List Entry} {o : ScanOptions}

theorem scanModules_respell (excl : Str → Bool) (q : List Str) :
    scanModules root (toSEntries excl base (parentRelative root mp entries)) q =
      scanModules root (toSEntries excl base entries) q := by
  rw [scanModules_eq_own, scanModules_eq_own, ownNames_respell]

/-- the sub-scans of the tree and of the re-spelled tree fail together, and otherwise give graphs with the same
    nodes and the same import pairs -/
theorem respell_graph_lemma
    (hwf : treeWFFor (isExcluded mt o.exclusions) base mp entries = true)
    (hmp : mpOK entries mp = true) (hroot : compWF root = true)
    (hxx : o.excludeExternal = true) (hlim : o.levelLimit = none) (hext : o.externalExclusions.isEmpty = true)
    (hst : ∀ e ∈ entries, ∀ st ∈ e.stmts, stmtOK (toSStmt st) = true)
    (hport : portable root (toSEntries (isExcluded mt o.exclusions) base entries) mp = true)
    (hplain : plain root (toSEntries (isExcluded mt o.exclusions) base entries) mp = true) :
    (generateGraph mt base root mp (parentRelative root mp entries) o = .error .lookupError ↔
      generateGraph mt base root mp entries o = .error .lookupError) ∧
    ∀ g, generateGraph mt base root mp entries o = .ok g →
      ∃ g', generateGraph mt base root mp (parentRelative root mp entries) o = .ok g' ∧
        (∀ s, s ∈ g'.nodes ↔ s ∈ g.nodes) ∧ ∀ u v, (u, v) ∈ g'.importPairs ↔ (u, v) ∈ g.importPairs := by
  have hwf' : treeWFFor (isExcluded mt o.exclusions) base mp (parentRelative root mp entries) = true := by
    rw [treeWFFor_respell]; exact hwf
  have hmp' : mpOK (parentRelative root mp entries) mp = true := by rw [mpOK_respell]; exact hmp
  have T := scan_imports_tree_lemma (root := root) hwf hmp hroot hxx hlim hext hst
  have T' := scan_imports_tree_lemma (root := root) hwf' hmp' hroot hxx hlim hext (stmts_respell hst)
  obtain ⟨hnone, hsome⟩ := scanImports_respell_lemma (root := root) hst hport hplain
  cases his : scanImports root (toSEntries (isExcluded mt o.exclusions) base entries) mp with
  | none =>
    rw [his] at T
    rw [hnone.2 his] at T'
    simp only at T T'
    refine ⟨⟨fun _ => T, fun _ => T'⟩, fun g hg => ?_⟩
    rw [T] at hg; cases hg
  | some is =>
    cases his' : scanImports root (toSEntries (isExcluded mt o.exclusions) base (parentRelative root mp entries)) mp with
    | none => rw [hnone.1 his'] at his; cases his
    | some is' =>
      rw [his] at T
      rw [his'] at T'
      obtain ⟨g, hg, E⟩ := T
      obtain ⟨g', hg', E'⟩ := T'
      refine ⟨⟨fun h => ?_, fun h => ?_⟩, fun g1 hg1 => ?_⟩
      · rw [hg'] at h; cases h
      · rw [hg] at h; cases h
      · rw [hg, Except.ok.injEq] at hg1
        subst hg1
        refine ⟨g', hg', fun s => ?_, fun u v => ?_⟩
        · rw [ScanGraph.scan_nodes_lemma mt base root mp _ o hwf' hmp' hroot hxx hlim g' hg' s,
            ScanGraph.scan_nodes_lemma mt base root mp entries o hwf hmp hroot hxx hlim g hg s]
          show (∃ n ∈ scanModules root (toSEntries _ base (parentRelative root mp entries)) mp, s = render n) ↔ _
          rw [scanModules_respell]
        · rw [E u v, E' u v]
          constructor
          · rintro ⟨e, he, h1, h2⟩; exact ⟨e, (hsome is is' his his' e).1 he, h1, h2⟩
          · rintro ⟨e, he, h1, h2⟩; exact ⟨e, (hsome is is' his his' e).2 he, h1, h2⟩

/-- C04, both spellings: the sub-scan of the tree whose files below `module_path` spell their absolute imports
    relative to `module_path`'s parent directory, against the whole-root scan of the tree with the fully qualified
    spelling -/
theorem parent_relative_lemma
    (hwf0 : treeWFFor (isExcluded mt o.exclusions) base [] entries = true)
    (hwf : treeWFFor (isExcluded mt o.exclusions) base mp entries = true)
    (hmp : mpOK entries mp = true) (hroot : compWF root = true)
    (hxx : o.excludeExternal = true) (hlim : o.levelLimit = none) (hext : o.externalExclusions.isEmpty = true)
    (hst : ∀ e ∈ entries, ∀ st ∈ e.stmts, stmtOK (toSStmt st) = true)
    (hclear : ∀ k, k < mp.length → isExcluded mt o.exclusions (pathStr base (mp.take k)) = false)
    (hport : portable root (toSEntries (isExcluded mt o.exclusions) base entries) mp = true)
    (hplain : plain root (toSEntries (isExcluded mt o.exclusions) base entries) mp = true)
    (g0 : PGraph Str) (h0 : generateGraph mt base root [] entries o = .ok g0) :
    ∃ g', generateGraph mt base root mp (parentRelative root mp entries) o = .ok g' ∧
      (∀ s, s ∈ g'.nodes ↔
        (s ∈ g0.nodes ∧ isInternal s (internalPrefix root mp) = true) ∨
        (isExcluded mt o.exclusions (pathStr base mp) = false ∧
          ∃ k, 0 < k ∧ k ≤ mp.length ∧ s = render ((root :: mp).take k))) ∧
      (∀ u v, (u, v) ∈ g'.importPairs ↔
        (u, v) ∈ g0.importPairs ∧ isInternal u (internalPrefix root mp) = true ∧
          isInternal v (internalPrefix root mp) = true) := by
  obtain ⟨g, hg, hn, hi⟩ := subscan_graph_lemma (root := root) hwf0 hwf hmp hroot hxx hlim hext hst hclear hport g0 h0
  obtain ⟨g', hg', hn', hi'⟩ := (respell_graph_lemma (root := root) hwf hmp hroot hxx hlim hext hst hport hplain).2 g hg
  exact ⟨g', hg', fun s => (hn' s).trans (hn s), fun u v => (hi' u v).trans (hi u v)⟩

end respellGraph

end SubScan
end Pta
