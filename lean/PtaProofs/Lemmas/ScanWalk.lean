/-
  PtaProofs.Lemmas.ScanWalk — the directory walk (`parseWalk`, PtaModel/Scan.lean) visits exactly the surviving
  entries (property C04, part 1): fuel sufficiency, membership, no duplicates, and the bridge between the
  model's raw view (`Survives`, `moduleName`) and the specification's (`survives`, `entryName` through `toSEntry`).
-/
import Bridge.Abs
import Bridge.ScanTree
import PtaProofs.Lemmas.Render
namespace Pta
namespace ScanWalk
open PtaSpec

/-! ### unpacking the Bool-valued tree predicates -/

theorem relsNodup_inj : ∀ (entries : List Entry), relsNodup entries = true →
    ∀ d ∈ entries, ∀ d' ∈ entries, d.rel = d'.rel → d = d'
  | [], _, d, hd, _, _, _ => by cases hd
  | e :: es, h, d, hd, d', hd', hrel => by
    simp only [relsNodup, Bool.and_eq_true, Bool.not_eq_true', List.any_eq_false, beq_iff_eq] at h
    rcases List.mem_cons.1 hd with rfl | hd1 <;> rcases List.mem_cons.1 hd' with rfl | hd2
    · rfl
    · exact absurd hrel.symm (by simpa using h.1 d' hd2)
    · exact absurd hrel (by simpa using h.1 d hd1)
    · exact relsNodup_inj es h.2 d hd1 d' hd2 hrel

theorem relsNodup_pairwise : ∀ (entries : List Entry), relsNodup entries = true →
    entries.Pairwise fun d d' => d.rel ≠ d'.rel
  | [], _ => List.Pairwise.nil
  | e :: es, h => by
    simp only [relsNodup, Bool.and_eq_true, Bool.not_eq_true', List.any_eq_false, beq_iff_eq] at h
    refine List.Pairwise.cons ?_ (relsNodup_pairwise es h.2)
    intro d hd heq
    exact absurd heq.symm (by simpa using h.1 d hd)

structure Shape (entries : List Entry) : Prop where
  inj : ∀ d ∈ entries, ∀ d' ∈ entries, d.rel = d'.rel → d = d'
  pw : entries.Pairwise fun d d' => d.rel ≠ d'.rel
  ne : ∀ e ∈ entries, e.rel ≠ []
  parent : ∀ e ∈ entries, 2 ≤ e.rel.length → ∃ d ∈ entries, d.isDir = true ∧ d.rel = e.rel.dropLast

theorem shape_of (entries : List Entry) (h : treeShape entries = true) : Shape entries := by
  simp only [treeShape, Bool.and_eq_true, List.all_eq_true, Bool.not_eq_true', Bool.or_eq_true, beq_iff_eq,
    List.any_eq_true, List.isEmpty_eq_false_iff] at h
  refine ⟨relsNodup_inj entries h.1, relsNodup_pairwise entries h.1, fun e he => (h.2 e he).1, ?_⟩
  intro e he hl
  rcases (h.2 e he).2 with h1 | ⟨d, hd, hdir, hrel⟩
  · omega
  · exact ⟨d, hd, hdir, hrel⟩

/-- the model-side tree predicate of `Bridge.Abs` follows from the Bool-valued one -/
theorem treeWF_of_shape (entries : List Entry) (h : treeShape entries = true) : TreeWF entries := by
  have s := shape_of entries h
  refine ⟨?_, s.ne, s.parent⟩
  exact List.pairwise_map.2 s.pw

/-- every proper non-empty prefix of an entry's path is the path of a listed directory -/
theorem prefix_closed {entries : List Entry} (s : Shape entries) :
    ∀ n, ∀ d ∈ entries, d.rel.length = n → ∀ k, 0 < k → k < n →
      ∃ c ∈ entries, c.isDir = true ∧ c.rel = d.rel.take k := by
  intro n
  induction n with
  | zero => intro d _ _ k _ hk; omega
  | succ n ih =>
    intro d hd hlen k h0 hk
    obtain ⟨p, hp, hpd, hpr⟩ := s.parent d hd (by omega)
    have hplen : p.rel.length = n := by rw [hpr, List.length_dropLast]; omega
    by_cases hkn : k = n
    · refine ⟨p, hp, hpd, ?_⟩
      rw [hpr, List.dropLast_eq_take, hlen, hkn]; rfl
    · obtain ⟨c, hc, hcd, hcr⟩ := ih p hp hplen k h0 (by omega)
      refine ⟨c, hc, hcd, ?_⟩
      rw [hcr, hpr, List.dropLast_eq_take, List.take_take]
      congr 1
      omega

theorem prefix_dir {entries : List Entry} (s : Shape entries) (d : Entry) (hd : d ∈ entries) (p : List Str)
    (hp : p ≠ []) (hpre : p <+: d.rel) (hne : p ≠ d.rel) : ∃ c ∈ entries, c.isDir = true ∧ c.rel = p := by
  have hlen : p.length < d.rel.length := by
    rcases Nat.lt_or_ge p.length d.rel.length with h | h
    · exact h
    · exact absurd (hpre.eq_of_length_le h) hne
  obtain ⟨c, hc, hcd, hcr⟩ := prefix_closed s _ d hd rfl p.length (List.length_pos_iff.2 hp) hlen
  exact ⟨c, hc, hcd, by rw [hcr]; exact (List.prefix_iff_eq_take.1 hpre).symm⟩

/-! ### fuel -/

theorem foldl_max_ge (l : List Entry) (m : Nat) : m ≤ l.foldl (fun m e => max m e.rel.length) m := by
  induction l generalizing m with
  | nil => exact Nat.le_refl _
  | cons e es ih => exact Nat.le_trans (Nat.le_max_left _ _) (ih _)

theorem foldl_max_mem (l : List Entry) (m : Nat) (e : Entry) (he : e ∈ l) :
    e.rel.length ≤ l.foldl (fun m e => max m e.rel.length) m := by
  induction l generalizing m with
  | nil => cases he
  | cons x xs ih =>
    rcases List.mem_cons.1 he with rfl | h
    · exact Nat.le_trans (Nat.le_max_right _ _) (foldl_max_ge xs _)
    · exact ih _ h

/-- no entry lies deeper than `maxDepth` -/
theorem le_maxDepth (entries : List Entry) (e : Entry) (he : e ∈ entries) : e.rel.length ≤ maxDepth entries :=
  foldl_max_mem entries 0 e he

/-! ### the walk as a list of visited entries -/

/-- the entries `parseWalk` registers, in visiting order -/
def walkList (excl : Str → Bool) (base : Str) (entries : List Entry) : Nat → Entry → List Entry
  | 0, _ => []
  | fuel + 1, e =>
    if e.isDir then
      if excl (pathStr base e.rel) then []
      else e :: (childrenOf entries e.rel).flatMap fun c => walkList excl base entries fuel c
    else
      match e.rel.getLast? with
      | none => []
      | some name => if isPyFile name && !excl (pathStr base e.rel) then [e] else []

theorem foldl_append (f : Entry → Parsed) (l : List Entry) (init : Parsed) :
    l.foldl (fun acc c => acc.append (f c)) init =
      ⟨init.allModules ++ l.flatMap (fun c => (f c).allModules), init.files ++ l.flatMap (fun c => (f c).files)⟩ := by
  induction l generalizing init with
  | nil => simp
  | cons x xs ih =>
    rw [List.foldl_cons, ih]
    simp [Parsed.append, List.append_assoc]

theorem parseWalk_eq (excl : Str → Bool) (base root : Str) (entries : List Entry) :
    ∀ fuel e, parseWalk excl base root entries fuel e =
      ⟨(walkList excl base entries fuel e).map fun d => moduleName root d.rel,
       ((walkList excl base entries fuel e).filter fun d => !d.isDir).map fun d => (moduleName root d.rel, d.stmts)⟩ := by
  intro fuel
  induction fuel with
  | zero => intro e; rfl
  | succ fuel ih =>
    intro e
    rw [parseWalk, walkList]
    by_cases hd : e.isDir = true
    · simp only [hd, if_true]
      by_cases hx : excl (pathStr base e.rel) = true
      · simp [hx]
      · simp only [hx, if_false, Bool.false_eq_true]
        rw [foldl_append]
        simp only [ih, List.map_cons, List.map_flatMap, List.filter_cons, hd, Bool.not_true, Bool.false_eq_true,
          if_false, List.filter_flatMap, List.nil_append, List.singleton_append]
    · simp only [hd, if_false, Bool.false_eq_true]
      cases e.rel.getLast? with
      | none => rfl
      | some name =>
        simp only []
        split <;> simp [hd]

/-! ### membership -/

/-- `e` is a place the walk can stand on: a listed entry, or (a copy of) the root / a listed directory -/
def IsNode (entries : List Entry) (e : Entry) : Prop :=
  e ∈ entries ∨ (e.isDir = true ∧ (e.rel = [] ∨ ∃ e' ∈ entries, e'.isDir = true ∧ e'.rel = e.rel))

theorem IsNode.depth {entries : List Entry} {e : Entry} (h : IsNode entries e) : e.rel.length ≤ maxDepth entries := by
  rcases h with h | ⟨_, h | ⟨e', he', _, hr⟩⟩
  · exact le_maxDepth entries e h
  · rw [h]; exact Nat.zero_le _
  · rw [← hr]; exact le_maxDepth entries e' he'

theorem mem_childrenOf (entries : List Entry) (p : List Str) (c : Entry) :
    c ∈ childrenOf entries p ↔ c ∈ entries ∧ c.rel.length = p.length + 1 ∧ c.rel.take p.length = p := by
  simp [childrenOf, List.mem_filter]

theorem child_prefix {entries : List Entry} {p : List Str} {c : Entry} (h : c ∈ childrenOf entries p) : p <+: c.rel := by
  have := ((mem_childrenOf entries p c).1 h).2.2
  rw [← this]
  exact List.take_prefix _ _

theorem take_of_prefix {α : Type} {p l : List α} (h : p <+: l) : l.take p.length = p :=
  (List.prefix_iff_eq_take.1 h).symm

variable (excl : Str → Bool) (base : Str)

theorem survives_self (e : Entry) (hd : dirOrPy e = true) (hne : e.isDir = false → e.rel ≠ [])
    (hx : excl (pathStr base e.rel) = false) : Survives excl base e.rel e := by
  refine ⟨List.prefix_refl _, ?_, ?_⟩
  · cases hdir : e.isDir with
    | true => exact Or.inl rfl
    | false =>
      right
      have hne' := hne hdir
      simp only [dirOrPy, hdir, Bool.false_or, lastName] at hd
      cases hl : e.rel.getLast? with
      | none => exact absurd (List.getLast?_eq_none_iff.1 hl) hne'
      | some name => rw [hl] at hd; exact ⟨name, rfl, hd⟩
  · intro k h1 h2
    have : k = e.rel.length := Nat.le_antisymm h2 h1
    rw [this, List.take_length]
    exact hx

theorem survives_excl {mp : List Str} {d : Entry} (h : Survives excl base mp d) : excl (pathStr base mp) = false := by
  have := h.2.2 mp.length (Nat.le_refl _) h.1.length_le
  rwa [take_of_prefix h.1] at this

theorem survives_dirOrPy {mp : List Str} {d : Entry} (h : Survives excl base mp d) : dirOrPy d = true := by
  rcases h.2.1 with h | ⟨name, hn, hp⟩
  · simp [dirOrPy, h]
  · simp [dirOrPy, lastName, hn, hp]

/-- weakening the starting point upwards along non-excluded directories / restricting it downwards -/
theorem survives_mono {p q : List Str} {d : Entry} (hpq : p <+: q) (hq : Survives excl base q d)
    (hx : ∀ k, p.length ≤ k → k < q.length → excl (pathStr base (q.take k)) = false) : Survives excl base p d := by
  refine ⟨hpq.trans hq.1, hq.2.1, ?_⟩
  intro k h1 h2
  rcases Nat.lt_or_ge k q.length with hk | hk
  · have : d.rel.take k = q.take k := by
      obtain ⟨t, ht⟩ := hq.1
      rw [← ht, List.take_append_of_le_length (Nat.le_of_lt hk)]
    rw [this]; exact hx k h1 hk
  · exact hq.2.2 k hk h2

theorem survives_restrict {p q : List Str} {d : Entry} (hp : Survives excl base p d) (hqd : q <+: d.rel)
    (hpq : p.length ≤ q.length) : Survives excl base q d :=
  ⟨hqd, hp.2.1, fun k h1 h2 => hp.2.2 k (Nat.le_trans hpq h1) h2⟩

theorem mem_walkList {entries : List Entry} (s : Shape entries) :
    ∀ fuel e, IsNode entries e → maxDepth entries + 1 ≤ fuel + e.rel.length →
      ∀ d, d ∈ walkList excl base entries fuel e ↔
        (d = e ∨ (d ∈ entries ∧ d.rel ≠ e.rel)) ∧ Survives excl base e.rel d := by
  intro fuel
  induction fuel with
  | zero =>
    intro e hn hf
    have := hn.depth
    omega
  | succ fuel ih =>
    intro e hn hf d
    rw [walkList]
    by_cases hd : e.isDir = true
    · simp only [hd, if_true]
      by_cases hx : excl (pathStr base e.rel) = true
      · simp only [hx, if_true, List.not_mem_nil, false_iff]
        rintro ⟨-, hs⟩
        rw [survives_excl excl base hs] at hx
        cases hx
      · have hx' : excl (pathStr base e.rel) = false := by simpa using hx
        simp only [hx, if_false, Bool.false_eq_true, List.mem_cons, List.mem_flatMap]
        constructor
        · rintro (rfl | ⟨c, hc, hdc⟩)
          · exact ⟨Or.inl rfl, survives_self excl base d (by simp [dirOrPy, hd]) (by simp [hd]) hx'⟩
          · obtain ⟨hce, hcl, hct⟩ := (mem_childrenOf entries e.rel c).1 hc
            have hcn : IsNode entries c := Or.inl hce
            obtain ⟨h1, h2⟩ := (ih c hcn (by omega) d).1 hdc
            have hde : d ∈ entries := by
              rcases h1 with rfl | ⟨h, -⟩
              · exact hce
              · exact h
            have hne : d.rel ≠ e.rel := by
              intro heq
              have := h2.1.length_le
              rw [heq] at this
              omega
            refine ⟨Or.inr ⟨hde, hne⟩, survives_mono excl base (child_prefix hc) h2 ?_⟩
            intro k hk1 hk2
            have : k = e.rel.length := by omega
            rw [this, hct]; exact hx'
        · rintro ⟨h1, h2⟩
          rcases h1 with rfl | ⟨hde, hne⟩
          · exact Or.inl rfl
          · right
            have hlt : e.rel.length < d.rel.length := by
              rcases Nat.lt_or_ge e.rel.length d.rel.length with h | h
              · exact h
              · exact absurd (h2.1.eq_of_length_le h).symm hne
            -- the child of `e` on the way to `d`
            have hc : ∃ c ∈ entries, c.rel = d.rel.take (e.rel.length + 1) := by
              by_cases hk : e.rel.length + 1 = d.rel.length
              · exact ⟨d, hde, by rw [hk, List.take_length]⟩
              · obtain ⟨c, hc, -, hcr⟩ := prefix_closed s _ d hde rfl (e.rel.length + 1) (by omega) (by omega)
                exact ⟨c, hc, hcr⟩
            obtain ⟨c, hce, hcr⟩ := hc
            have hcl : c.rel.length = e.rel.length + 1 := by rw [hcr, List.length_take]; omega
            have hct : c.rel.take e.rel.length = e.rel := by
              rw [hcr, List.take_take, Nat.min_eq_left (by omega)]
              exact take_of_prefix h2.1
            have hcd : c.rel <+: d.rel := by rw [hcr]; exact List.take_prefix _ _
            refine ⟨c, (mem_childrenOf entries e.rel c).2 ⟨hce, hcl, hct⟩, ?_⟩
            refine (ih c (Or.inl hce) (by omega) d).2 ⟨?_, survives_restrict excl base h2 hcd (by omega)⟩
            by_cases heq : d.rel = c.rel
            · exact Or.inl (s.inj d hde c hce heq)
            · exact Or.inr ⟨hde, heq⟩
    · have hd' : e.isDir = false := by simpa using hd
      have hee : e ∈ entries := by
        rcases hn with h | ⟨h, -⟩
        · exact h
        · rw [hd'] at h; cases h
      have hne := s.ne e hee
      simp only [hd, if_false, Bool.false_eq_true]
      cases hl : e.rel.getLast? with
      | none => exact absurd (List.getLast?_eq_none_iff.1 hl) hne
      | some name =>
        simp only []
        constructor
        · intro h
          split at h
          · rename_i hc
            simp only [Bool.and_eq_true, Bool.not_eq_true'] at hc
            simp only [List.mem_singleton] at h
            subst h
            exact ⟨Or.inl rfl, survives_self excl base d (by simp [dirOrPy, lastName, hl, hc.1]) (fun _ => hne) hc.2⟩
          · cases h
        · rintro ⟨h1, h2⟩
          have hde : d = e := by
            rcases h1 with h | ⟨hde, hne'⟩
            · exact h
            · obtain ⟨c, hc, hcd, hcr⟩ := prefix_dir s d hde e.rel hne h2.1 (Ne.symm hne')
              have := s.inj c hc e hee hcr
              rw [this, hd'] at hcd
              cases hcd
          subst hde
          have hpy : isPyFile name = true := by
            rcases h2.2.1 with h | ⟨n', hn', hp⟩
            · rw [hd'] at h; cases h
            · rw [hl] at hn'; cases hn'; exact hp
          have hx := survives_excl excl base h2
          simp [hpy, hx]

/-! ### no duplicates -/

theorem walk_prefix (entries : List Entry) : ∀ fuel e d, d ∈ walkList excl base entries fuel e → e.rel <+: d.rel := by
  intro fuel
  induction fuel with
  | zero => intro e d h; cases h
  | succ fuel ih =>
    intro e d h
    rw [walkList] at h
    split at h
    · split at h
      · cases h
      · simp only [List.mem_cons, List.mem_flatMap] at h
        rcases h with rfl | ⟨c, hc, hdc⟩
        · exact List.prefix_refl _
        · exact (child_prefix hc).trans (ih c d hdc)
    · split at h
      · cases h
      · split at h
        · simp only [List.mem_singleton] at h
          subst h; exact List.prefix_refl _
        · cases h

theorem walk_pairwise {entries : List Entry} (pw : entries.Pairwise fun d d' => d.rel ≠ d'.rel) :
    ∀ fuel e, (walkList excl base entries fuel e).Pairwise fun d d' => d.rel ≠ d'.rel := by
  intro fuel
  induction fuel with
  | zero => intro e; exact List.Pairwise.nil
  | succ fuel ih =>
    intro e
    rw [walkList]
    split
    · split
      · exact List.Pairwise.nil
      · refine List.Pairwise.cons ?_ ?_
        · intro d hd heq
          obtain ⟨c, hc, hdc⟩ := List.mem_flatMap.1 hd
          have h1 := (walk_prefix excl base entries fuel c d hdc).length_le
          have h2 := ((mem_childrenOf entries e.rel c).1 hc).2.1
          rw [← heq] at h1
          omega
        · rw [List.pairwise_flatMap]
          refine ⟨fun c _ => ih c, ?_⟩
          have hsub : (childrenOf entries e.rel).Pairwise fun d d' => d.rel ≠ d'.rel :=
            List.Pairwise.sublist List.filter_sublist pw
          refine List.Pairwise.imp_of_mem ?_ hsub
          intro c1 c2 h1 h2 hne x hx y hy heq
          have p1 := walk_prefix excl base entries fuel c1 x hx
          have p2 := walk_prefix excl base entries fuel c2 y hy
          rw [heq] at p1
          have l1 := ((mem_childrenOf entries e.rel c1).1 h1).2.1
          have l2 := ((mem_childrenOf entries e.rel c2).1 h2).2.1
          have := List.prefix_of_prefix_length_le p1 p2 (by omega)
          exact hne (this.eq_of_length (by omega))
    · split
      · exact List.Pairwise.nil
      · split
        · exact List.pairwise_singleton _ _
        · exact List.Pairwise.nil

/-! ### a listed root entry (empty relative path) is ignored by the model -/

theorem childrenOf_root (r : Entry) (hr : r.rel = []) (entries : List Entry) (p : List Str) :
    childrenOf (r :: entries) p = childrenOf entries p := by
  simp [childrenOf, hr]

theorem parseWalk_root (root : Str) (r : Entry) (hr : r.rel = []) (entries : List Entry) :
    ∀ fuel e, parseWalk excl base root (r :: entries) fuel e = parseWalk excl base root entries fuel e := by
  intro fuel
  induction fuel with
  | zero => intro e; rfl
  | succ fuel ih =>
    intro e
    rw [parseWalk, parseWalk, childrenOf_root r hr]
    have : (fun (acc : Parsed) c => acc.append (parseWalk excl base root (r :: entries) fuel c)) =
        (fun (acc : Parsed) c => acc.append (parseWalk excl base root entries fuel c)) := by
      funext acc c; rw [ih]
    rw [this]

theorem maxDepth_root (r : Entry) (hr : r.rel = []) (entries : List Entry) :
    maxDepth (r :: entries) = maxDepth entries := by
  simp [maxDepth, hr]

theorem scanParsed_root (mt : Str → Str → Bool) (root : Str) (mp : List Str) (r : Entry) (hr : r.rel = [])
    (entries : List Entry) (o : ScanOptions) :
    scanParsed mt base root mp (r :: entries) o = scanParsed mt base root mp entries o := by
  unfold scanParsed
  rw [maxDepth_root r hr, parseWalk_root _ base root r hr]

theorem generateGraph_root (mt : Str → Str → Bool) (root : Str) (mp : List Str) (r : Entry) (hr : r.rel = [])
    (entries : List Entry) (o : ScanOptions) :
    generateGraph mt base root mp (r :: entries) o = generateGraph mt base root mp entries o := by
  unfold generateGraph
  rw [scanParsed_root base mt root mp r hr]

end ScanWalk
end Pta
