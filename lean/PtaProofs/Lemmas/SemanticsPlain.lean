/-
  PtaProofs.Lemmas.SemanticsPlain — C01 beyond strict rules: plain rules (`should` / `should_not`, no `except`, not
  `anything`) whose subjects and objects are all given by name (`are_named`). Such a rule only asks the 'edge'
  question (`getDependencies` / `depBetween`), and for `.named` filters `depBetween` has no exclusion set
  (`parentIds` only lists the identifiers of `are_sub_modules_of` filters). So no relation between the names is
  needed: subjects and objects may be equal, nested, or listed several times.
-/
import Bridge.Abs
import PtaProofs.Lemmas.Semantics
namespace Pta
open PtaSpec

/-- all filters are `are_named` filters -/
def allNamed (l : List SFilter) : Bool := l.all fun f => !f.isSub

theorem allNamed_mem {l : List SFilter} (h : allNamed l = true) (f : SFilter) (hf : f ∈ l) : f.isSub = false := by
  unfold allNamed at h
  simpa using List.all_eq_true.1 h f hf

/-- plain rule with named subjects and objects -/
structure PlainCtx (a : Arch) (r : RuleSpec) : Prop where
  verb : r.verb = .should ∨ r.verb = .shouldNot
  exc : r.exc = false
  anything : r.anything = false
  namedS : ∀ f ∈ r.subjects, f.isSub = false
  namedO : ∀ f ∈ r.objects, f.isSub = false
  namesS : ∀ f ∈ r.subjects, f.id ∈ a.nodes
  namesO : ∀ f ∈ r.objects, f.id ∈ a.nodes

theorem plainCtx_of (a : Arch) (r : RuleSpec) (hverb : r.verb = .should ∨ r.verb = .shouldNot)
    (hexc : r.exc = false) (hany : r.anything = false)
    (hnamed : allNamed (r.subjects ++ r.objects) = true) (hnames : r.namesIn a = true) : PlainCtx a r := by
  unfold RuleSpec.namesIn RuleSpec.effObjects at hnames
  simp only [hany, Bool.false_eq_true, if_false, List.all_eq_true, List.contains_iff_mem] at hnames
  exact ⟨hverb, hexc, hany,
    fun f hf => allNamed_mem hnamed f (List.mem_append_left _ hf),
    fun f hf => allNamed_mem hnamed f (List.mem_append_right _ hf),
    fun f hf => hnames f (List.mem_append_left _ hf),
    fun f hf => hnames f (List.mem_append_right _ hf)⟩

theorem PlainCtx.effObjects {a : Arch} {r : RuleSpec} (c : PlainCtx a r) : r.effObjects = r.objects := by
  simp [RuleSpec.effObjects, c.anything]

theorem PlainCtx.effExc {a : Arch} {r : RuleSpec} (c : PlainCtx a r) : r.effExc = false := by
  simp [RuleSpec.effExc, c.anything, c.exc]

section searches
variable {a : Arch} {g : PGraph Str} (hw : ArchWF a) (hg : GraphOf a g)
include hw hg

/-- `get_dependency_between_modules` on two NAMED filters = the specification's `edges`, whatever the relation
    between the two names (equal, nested, unrelated) -/
theorem depBetween_rep_named (f o : SFilter) (hf : f.id ∈ a.nodes) (ho : o.id ∈ a.nodes)
    (hfn : f.isSub = false) (hon : o.isSub = false) :
    ∃ l, depBetween g (compileFilter f) (compileFilter o) = .ok l ∧ Rep l (edges a true f o) := by
  obtain ⟨l, hl, hm⟩ := depBetween_ok g (compileFilter f) (compileFilter o)
    (by simpa using hasNode_render hg _ hf) (by simpa using hasNode_render hg _ ho)
  refine ⟨l, hl, ?_⟩
  have hpi : ∀ x, x ∉ parentIds [compileFilter f, compileFilter o] := by
    intro x hx
    obtain ⟨f', hf', hs, _⟩ := (mem_parentIds_map [f, o] x).1 hx
    simp only [List.mem_cons, List.not_mem_nil, or_false] at hf'
    rcases hf' with rfl | rfl
    · rw [hfn] at hs; cases hs
    · rw [hon] at hs; cases hs
  intro u v
  rw [hm]
  simp only [compileFilter_id, edges, if_true, List.mem_filter, Bool.and_eq_true]
  constructor
  · rintro ⟨h1, h2, h3, _, _⟩
    obtain ⟨e, he, rfl, rfl⟩ := (hg.succs _ _).1 h2
    refine ⟨e, ⟨he, ?_, ?_⟩, rfl, rfl⟩
    · rw [mem_iff]
      exact ⟨(reach_render hw hg _ _ hf (hw.impL e he)).1 h1, fun hs => by rw [hfn] at hs; cases hs⟩
    · rw [mem_iff]
      exact ⟨(reach_render hw hg _ _ ho (hw.impR e he)).1 h3, fun hs => by rw [hon] at hs; cases hs⟩
  · rintro ⟨e, ⟨he, h1, h2⟩, rfl, rfl⟩
    exact ⟨(reach_render hw hg _ _ hf (hw.impL e he)).2 (mem_desc _ _ h1), (hg.succs _ _).2 ⟨e, he, rfl, rfl⟩,
      (reach_render hw hg _ _ ho (hw.impR e he)).2 (mem_desc _ _ h2), hpi _, hpi _⟩

/-- `get_dependencies` on named filters: one entry per (importer, importee) pair, each representing `edges` -/
theorem getDeps_spec_named (A B : List SFilter) (hA : ∀ f ∈ A, f.id ∈ a.nodes) (hB : ∀ o ∈ B, o.id ∈ a.nodes)
    (hAn : ∀ f ∈ A, f.isSub = false) (hBn : ∀ o ∈ B, o.isSub = false) :
    ∃ e, getDependencies g (A.map compileFilter) (B.map compileFilter) = .ok e ∧
      (∀ kd ∈ e, ∃ f ∈ A, ∃ o ∈ B, kd.1 = (sfilterMod f, sfilterMod o) ∧ Rep kd.2 (edges a true f o)) ∧
      (∀ f ∈ A, ∀ o ∈ B, ∃ kd ∈ e, kd.1 = (sfilterMod f, sfilterMod o) ∧ Rep kd.2 (edges a true f o)) := by
  unfold getDependencies
  have hpairs : ∀ fo, fo ∈ ((dedup (A.map compileFilter)).flatMap fun f =>
      (dedup (B.map compileFilter)).map fun o => (f, o)) ↔
      ∃ f ∈ A, ∃ o ∈ B, fo = (compileFilter f, compileFilter o) := by
    intro fo
    simp only [List.mem_flatMap, List.mem_map, mem_dedup]
    constructor
    · rintro ⟨_, ⟨f, hf, rfl⟩, _, ⟨o, ho, rfl⟩, rfl⟩; exact ⟨f, hf, o, ho, rfl⟩
    · rintro ⟨f, hf, o, ho, rfl⟩; exact ⟨_, ⟨f, hf, rfl⟩, _, ⟨o, ho, rfl⟩, rfl⟩
  obtain ⟨e, he, hm⟩ := mapM_ok_of_forall (fun fo : Filter × Filter => do
      let d ← depBetween g fo.1 fo.2
      pure ((fo.1.toMod, fo.2.toMod), d)) _ (by
    intro fo hfo
    obtain ⟨f, hf, o, ho, rfl⟩ := (hpairs fo).1 hfo
    obtain ⟨l, hl, _⟩ := depBetween_rep_named hw hg f o (hA f hf) (hB o ho) (hAn f hf) (hBn o ho)
    exact ⟨_, by simp only [hl, bind, Except.bind, pure, Except.pure]; rfl⟩)
  refine ⟨e, he, ?_, ?_⟩
  · intro kd hkd
    obtain ⟨fo, hfo, hfx⟩ := (hm kd).1 hkd
    obtain ⟨f, hf, o, ho, rfl⟩ := (hpairs fo).1 hfo
    obtain ⟨l, hl, hrep⟩ := depBetween_rep_named hw hg f o (hA f hf) (hB o ho) (hAn f hf) (hBn o ho)
    simp only [hl, bind, Except.bind, pure, Except.pure, Except.ok.injEq] at hfx
    subst hfx
    exact ⟨f, hf, o, ho, by simp, hrep⟩
  · intro f hf o ho
    obtain ⟨l, hl, hrep⟩ := depBetween_rep_named hw hg f o (hA f hf) (hB o ho) (hAn f hf) (hBn o ho)
    refine ⟨((sfilterMod f, sfilterMod o), l), (hm _).2 ⟨(compileFilter f, compileFilter o),
      (hpairs _).2 ⟨f, hf, o, ho, rfl⟩, ?_⟩, rfl, hrep⟩
    simp only [hl, bind, Except.bind, pure, Except.pure, compileFilter_toMod]

end searches

theorem beh_plain_other {a : Arch} {r : RuleSpec} (c : PlainCtx a r) :
    ((beh r).otherReq || (beh r).otherForb) = false := by
  unfold beh
  rw [c.effExc]
  rcases c.verb with h | h <;> rw [h] <;> rfl

theorem beh_plain_expl {a : Arch} {r : RuleSpec} (c : PlainCtx a r) :
    ((beh r).explReq || (beh r).explForb) = true := by
  unfold beh
  rw [c.effExc]
  rcases c.verb with h | h <;> rw [h] <;> rfl

/-- what `runQueries` returns on a plain named rule: the explicit dependencies only (the `[]` in the second
    component is never looked at: the condition is false; it keeps the shape of `detect_any` / `report_detect`) -/
theorem runQueries_compile_plain {a : Arch} {g : PGraph Str} (hw : ArchWF a) (hg : GraphOf a g) (r : RuleSpec)
    (c : PlainCtx a r) :
    ∃ e, ESpec a r e ∧
      runQueries g (beh r) r.importDir (r.subjects.map compileFilter) (r.effObjects.map compileFilter) =
        .ok (if ((beh r).explReq || (beh r).explForb) = true then some e else none,
             if ((beh r).otherReq || (beh r).otherForb) = true then some [] else none) := by
  have heo := c.effObjects
  rw [heo]
  unfold ESpec
  rw [heo]
  cases hd : r.importDir
  · obtain ⟨e, he, he1, he2⟩ := getDeps_spec_named hw hg r.objects r.subjects c.namesO c.namesS c.namedO c.namedS
    refine ⟨e, ⟨?_, ?_⟩, ?_⟩
    · intro kd hkd
      obtain ⟨f, hf, s, hs, h1, h2⟩ := he1 kd hkd
      exact ⟨s, hs, f, hf, by simp [userOrder, h1], by rw [edges_false]; exact h2⟩
    · intro s hs f hf
      obtain ⟨kd, hkd, h1, h2⟩ := he2 f hf s hs
      exact ⟨kd, hkd, by simp [userOrder, h1], by rw [edges_false]; exact h2⟩
    · rw [runQueries_ok_iff, beh_plain_expl c, beh_plain_other c]
      simp only [if_true, Bool.false_eq_true, if_false]
      exact ⟨⟨e, he, rfl⟩, trivial⟩
  · obtain ⟨e, he, he1, he2⟩ := getDeps_spec_named hw hg r.subjects r.objects c.namesS c.namesO c.namedS c.namedO
    refine ⟨e, ⟨?_, ?_⟩, ?_⟩
    · intro kd hkd
      obtain ⟨s, hs, f, hf, h1, h2⟩ := he1 kd hkd
      exact ⟨s, hs, f, hf, by simp [userOrder, h1], h2⟩
    · intro s hs f hf
      obtain ⟨kd, hkd, h1, h2⟩ := he2 s hs f hf
      exact ⟨kd, hkd, by simp [userOrder, h1], h2⟩
    · rw [runQueries_ok_iff, beh_plain_expl c, beh_plain_other c]
      simp only [if_true, Bool.false_eq_true, if_false]
      exact ⟨⟨e, he, rfl⟩, trivial⟩

/-- C01 for plain rules with named subjects and objects: no strictness needed -/
theorem verdict_spec_plain_named_lemma (mt : Str → Str → Bool) (a : Arch) (g : PGraph Str) (hg : GraphOf a g)
    (hwf : a.wf = true) (r : RuleSpec) (hverb : r.verb = .should ∨ r.verb = .shouldNot)
    (hexc : r.exc = false) (hany : r.anything = false)
    (hnamed : allNamed (r.subjects ++ r.objects) = true) (hnames : r.namesIn a = true)
    (hs : r.subjects ≠ []) (ho : r.objects ≠ []) :
    verdictOf mt g (compile r) = VClass.ofBool (verdict a r) := by
  have hw := archWF_of_wf a hwf
  have ctx := plainCtx_of a r hverb hexc hany hnamed hnames
  obtain ⟨e, hE, hq⟩ := runQueries_compile_plain hw hg r ctx
  unfold verdictOf
  rw [assertApplies_compile mt g r hs (.inr ho) (by rw [hany]; intro h; cases h) (by rw [hany]; intro h; cases h), hq]
  have hEn := (realised_isEmpty r.importDir e).trans (all_transfer_E hE _ _ (fun _ _ h => h.isEmpty))
  have hEa := (abstractWithout_isEmpty r.importDir e).trans
    (all_transfer_E hE (fun l => !l.isEmpty) (fun l => !l.isEmpty) (fun _ _ h => by simp only [h.isEmpty]))
  unfold verdict
  simp only []
  generalize (r.subjects.all fun s => r.effObjects.all fun o => (edges a r.importDir s o).isEmpty) = EN at *
  generalize (r.subjects.all fun s => r.effObjects.all fun o => !(edges a r.importDir s o).isEmpty) = EA at *
  have hb : beh r = ⟨r.verb == .should, r.verb == .shouldOnly, r.verb == .shouldNot, r.effExc⟩ := rfl
  rw [hb, ctx.effExc]
  generalize r.verb = v at hverb ⊢
  rw [detect_any, hEn, hEa]
  rcases hverb with rfl | rfl <;> simp only [] <;> cases EA <;> cases EN <;> rfl

/-- C03 part 2 for plain rules with named subjects and objects -/
theorem report_spec_plain_named_lemma (mt : Str → Str → Bool) (a : Arch) (g : PGraph Str) (hg : GraphOf a g)
    (hwf : a.wf = true) (r : RuleSpec) (hverb : r.verb = .should ∨ r.verb = .shouldNot)
    (hexc : r.exc = false) (hany : r.anything = false)
    (hnamed : allNamed (r.subjects ++ r.objects) = true) (hnames : r.namesIn a = true)
    (hs : r.subjects ≠ []) (ho : r.objects ≠ []) (items : List Item)
    (h : (assertApplies mt (compile r) g).2 = .fail items) :
    ∀ x, x ∈ items.flatMap Item.atoms ↔ x ∈ (violating a r).flatMap SItem.atoms := by
  have hw := archWF_of_wf a hwf
  have ctx := plainCtx_of a r hverb hexc hany hnamed hnames
  obtain ⟨e, hE, hq⟩ := runQueries_compile_plain hw hg r ctx
  rw [assertApplies_compile mt g r hs (.inr ho) (by rw [hany]; intro h; cases h) (by rw [hany]; intro h; cases h),
    hq] at h
  simp only [] at h
  have key : ∀ (V : Violations), (if V.any = true then Verdict.fail (reportItems r.importDir V) else .pass) = .fail items →
      items = reportItems r.importDir V := by
    intro V hV
    split at hV
    · cases hV; rfl
    · cases hV
  have hit := key _ h
  subst hit
  intro x
  have h1 := eforb_iff hE x
  have h3 := eneed_iff hE x
  have hb : beh r = ⟨r.verb == .should, r.verb == .shouldOnly, r.verb == .shouldNot, r.effExc⟩ := rfl
  rw [hb, report_detect, mem_violating, ctx.effExc]
  generalize r.verb = v at hverb ⊢
  rcases hverb with rfl | rfl <;> simp only [h1, h3]

end Pta
