/-
  PtaProofs.Lemmas.ExtNodup — the constructed graph has no duplicate nodes and no duplicate edge records (for
  arbitrary inputs), so "same members" of node / edge-pair lists is the same as "equal up to order" (`List.Perm`).
-/
import Bridge.Abs
import Bridge.ExtAbs
import PtaProofs.Lemmas.Build
import PtaProofs.Lemmas.ExtBuild
import PtaProofs.Lemmas.ExtScan
namespace Pta
namespace ExtNodup
open ExtBuild BuildGen BuildMain

/-- one record per pair, no repeated record -/
def UN (g : PGraph Str) : Prop := U g ∧ g.edges.Nodup

section
variable {α : Type} [DecidableEq α]

theorem U_same_gen {g : PGraph α} (hU : ∀ x ∈ g.edges, g.findEdge x.src x.dst = some x) {x y : Edge α}
    (hx : x ∈ g.edges) (hy : y ∈ g.edges) (h1 : x.src = y.src) (h2 : x.dst = y.dst) : x = y := by
  have a := hU x hx
  have b := hU y hy
  rw [h1, h2, b] at a
  exact (Option.some.inj a).symm

theorem setEdge_nodup_gen (g : PGraph α) (s e : α) (inh : Bool)
    (hU : ∀ x ∈ g.edges, g.findEdge x.src x.dst = some x) (hN : g.edges.Nodup) : (g.setEdge s e inh).edges.Nodup := by
  unfold PGraph.setEdge PGraph.hasEdge
  by_cases hh : (g.findEdge s e).isSome = true
  · simp only [hh, if_true]
    unfold List.Nodup
    rw [List.pairwise_map]
    refine List.Pairwise.imp_of_mem ?_ hN
    intro a b ha hb hab
    by_cases ma : (a.src == s && a.dst == e) = true
    · by_cases mb : (b.src == s && b.dst == e) = true
      · exfalso
        simp only [Bool.and_eq_true, beq_iff_eq] at ma mb
        exact hab (U_same_gen hU ha hb (ma.1.trans mb.1.symm) (ma.2.trans mb.2.symm))
      · simp only [ma, mb, if_true, Bool.false_eq_true, if_false]
        intro he
        apply mb
        rw [← he]
        simp
    · by_cases mb : (b.src == s && b.dst == e) = true
      · simp only [ma, mb, if_true, Bool.false_eq_true, if_false]
        intro he
        apply ma
        rw [he]
        simp
      · simp only [ma, mb, Bool.false_eq_true, if_false]
        exact hab
  · simp only [hh, Bool.false_eq_true, if_false]
    rw [List.nodup_append]
    refine ⟨hN, by simp, ?_⟩
    intro a ha b hb
    simp only [List.mem_singleton] at hb
    subst hb
    intro hab
    subst hab
    have hn : g.findEdge s e = none := by simpa using hh
    unfold PGraph.findEdge at hn
    have := List.find?_eq_none.1 hn _ ha
    simp at this

end

theorem U_same {g : PGraph Str} (hU : U g) {x y : Edge Str} (hx : x ∈ g.edges) (hy : y ∈ g.edges)
    (h1 : x.src = y.src) (h2 : x.dst = y.dst) : x = y := U_same_gen hU hx hy h1 h2

theorem setEdge_UN (g : PGraph Str) (s e : Str) (inh : Bool) (h : UN g) : UN (g.setEdge s e inh) :=
  ⟨setEdge_U g s e inh h.1, setEdge_nodup_gen g s e inh h.1 h.2⟩

theorem createEdge_UN (lim : Option Nat) (g : PGraph Str) (s e : Str) (inh : Bool) (h : UN g) :
    UN (createEdge lim g s e inh) := by
  rcases createEdge_cases lim g s e inh with ⟨-, h'⟩ | ⟨-, -, h'⟩ | ⟨-, h'⟩
  · rw [h']; exact h
  · rw [h']; exact h
  · rw [h']; exact setEdge_UN g _ _ inh h

theorem UN_congr {g g' : PGraph Str} (h : g'.edges = g.edges) (hg : UN g) : UN g' :=
  ⟨U_congr h hg.1, by rw [h]; exact hg.2⟩

theorem edgeFold_UN (lim : Option Nat) (inh : Bool) (l : List (Str × Str)) (g : PGraph Str) (h : UN g) :
    UN (l.foldl (fun g pc => createEdge lim g pc.1 pc.2 inh) g) := by
  induction l generalizing g with
  | nil => exact h
  | cons p ps ih => exact ih _ (createEdge_UN lim g p.1 p.2 inh h)

theorem addHierarchy_UN (lim : Option Nat) (g : PGraph Str) (ps : List Str) (c : Str) (h : UN g) :
    UN (addHierarchy lim g ps c) := by
  unfold addHierarchy
  simp only
  exact edgeFold_UN lim true _ _ (UN_congr (nodeFold_edges lim ps g) h)

theorem addImport_UN (lim : Option Nat) (known : List Str) (g : PGraph Str) (i : ImportRec) (h : UN g) :
    UN (addImport lim known g i) := by
  unfold addImport
  simp only
  refine edgeFold_UN lim true _ _ (addHierarchy_UN lim _ _ _ ?_)
  split
  · exact h
  · exact createEdge_UN lim g _ _ false h

theorem buildGraph_UN (mods : List Str) (imps : List ImportRec) (lim : Option Nat) : UN (buildGraph mods imps lim) := by
  unfold buildGraph
  apply foldl_inv (addImport lim _) UN _ (fun g x _ h => addImport_UN lim _ g x h)
  unfold addAllModules
  apply foldl_inv _ UN _ (fun g x _ h => addHierarchy_UN lim _ _ _ (UN_congr (createNode_edges lim g x) h))
  exact ⟨fun x hx => (by cases hx), List.nodup_nil⟩

theorem buildGraph_nodes_nodup (mods : List Str) (imps : List ImportRec) (lim : Option Nat) :
    (buildGraph mods imps lim).nodes.Nodup := by
  unfold buildGraph
  apply foldl_inv (addImport lim _) (fun g => g.nodes.Nodup) _ (fun g x _ h => addImport_nodup lim _ g x h)
  unfold addAllModules
  apply foldl_inv _ (fun g => g.nodes.Nodup) _
    (fun g x _ h => addHierarchy_nodup lim _ _ _ (createNode_nodup lim g x h))
  exact List.nodup_nil

theorem pairs_nodup {g : PGraph Str} (h : UN g) (p : Edge Str → Bool) :
    ((g.edges.filter p).map (fun e => (e.src, e.dst))).Nodup := by
  unfold List.Nodup
  rw [List.pairwise_map]
  have hN : (g.edges.filter p).Nodup := h.2.sublist List.filter_sublist
  refine List.Pairwise.imp_of_mem ?_ hN
  intro a b ha hb hab he
  simp only [Prod.mk.injEq] at he
  exact hab (U_same h.1 (List.mem_filter.1 ha).1 (List.mem_filter.1 hb).1 he.1 he.2)

theorem importPairs_nodup {g : PGraph Str} (h : UN g) : g.importPairs.Nodup := pairs_nodup h _
theorem hierPairs_nodup {g : PGraph Str} (h : UN g) : g.hierPairs.Nodup := pairs_nodup h _

theorem generateGraph_nodup (mt : Str → Str → Bool) (base rootName : Str) (mp : List Str) (entries : List Entry)
    (o : ScanOptions) (g : PGraph Str) (h : generateGraph mt base rootName mp entries o = .ok g) :
    g.nodes.Nodup ∧ g.importPairs.Nodup ∧ g.hierPairs.Nodup := by
  rw [ExtScan.generateGraph_eq] at h
  split at h
  · cases h
  · simp only [Except.ok.injEq] at h
    subst h
    exact ⟨buildGraph_nodes_nodup _ _ _, importPairs_nodup (buildGraph_UN _ _ _), hierPairs_nodup (buildGraph_UN _ _ _)⟩

/-- the internal parts of two scans that differ only in the external options are equal up to order -/
theorem internal_perm_lemma (mt : Str → Str → Bool) (base rootName : Str) (mp : List Str) (entries : List Entry)
    (o o' : ScanOptions) (hex : o.exclusions = o'.exclusions) (hlim : o.levelLimit = o'.levelLimit)
    (g g' : PGraph Str) (h : generateGraph mt base rootName mp entries o = .ok g)
    (h' : generateGraph mt base rootName mp entries o' = .ok g') :
    (internalNodes (internalPrefix rootName mp) g).Perm (internalNodes (internalPrefix rootName mp) g') ∧
    (internalImports (internalPrefix rootName mp) g).Perm (internalImports (internalPrefix rootName mp) g') ∧
    (internalHier (internalPrefix rootName mp) g).Perm (internalHier (internalPrefix rootName mp) g') := by
  obtain ⟨m1, m2, m3⟩ := (ExtScan.internal_invariant_lemma mt base rootName mp entries o o' hex hlim).2 g g' h h'
  obtain ⟨a1, a2, a3⟩ := generateGraph_nodup mt base rootName mp entries o g h
  obtain ⟨b1, b2, b3⟩ := generateGraph_nodup mt base rootName mp entries o' g' h'
  refine ⟨?_, ?_, ?_⟩
  · exact (List.perm_ext_iff_of_nodup (a1.sublist List.filter_sublist) (b1.sublist List.filter_sublist)).2 m1
  · exact (List.perm_ext_iff_of_nodup (a2.sublist List.filter_sublist) (b2.sublist List.filter_sublist)).2 m2
  · exact (List.perm_ext_iff_of_nodup (a3.sublist List.filter_sublist) (b3.sublist List.filter_sublist)).2 m3

end ExtNodup
end Pta
