/-
  PtaProofs.Lemmas.RenameLabel — plot labels and the internal/external classification commute with injective
  renamings of path components (property C14, cheap corollaries; namespace `Pta.RM`).
-/
import Bridge.Abs
import Bridge.Rename
import PtaProofs.Lemmas.Rename
import PtaProofs.Lemmas.GlobLabel
namespace Pta.RM
open Pta PtaSpec

theorem labelWith_id (al : Aliases) (n : Name) : labelWith id al n = PtaSpec.label al n := by
  unfold labelWith PtaSpec.label
  cases nearestAliased al n with
  | none => simp only [id, render, joinDotsS_eq]
  | some p => obtain ⟨m, alias⟩ := p; simp only [id, render, joinDotsS_eq]

theorem label_ren {ρ : Comp → Comp} (hρ : GoodRen ρ) (al : Aliases) (n : Name) :
    PtaSpec.label (renAliases ρ al) (renName ρ n) = labelWith (renName ρ) al n := by
  unfold labelWith PtaSpec.label renAliases
  rw [nearest_alias_ren_lemma ρ hρ al n]
  cases nearestAliased al n with
  | none => simp only [Option.map_none, render, joinDotsS_eq]
  | some p =>
    obtain ⟨m, alias⟩ := p
    simp only [Option.map_some, renName, List.length_map, ← List.map_drop, List.isEmpty_map, render, joinDotsS_eq]

theorem labels_ren_lemma (ρ : Comp → Comp) (hρ : GoodRen ρ) (nodes : List Name) (al : Aliases)
    (hn : ∀ n ∈ nodes, nameWF n = true) (hk : (al.map (·.1)).Nodup) (hex : ∀ a ∈ al, a.1 ∈ nodes) :
    plotLabels ((nodes.map (renName ρ)).map render) ((renAliases ρ al).map fun a => (render a.1, a.2)) =
      .ok (nodes.map fun n => (render (renName ρ n), labelWith (renName ρ) al n)) := by
  have hn' : ∀ n ∈ nodes.map (renName ρ), nameWF n = true := by
    intro n h
    obtain ⟨n0, h0, rfl⟩ := List.mem_map.1 h
    exact Ren.nameWF_ren hρ (hn n0 h0)
  have hk' : ((renAliases ρ al).map (·.1)).Nodup := by
    have : (renAliases ρ al).map (·.1) = (al.map (·.1)).map (renName ρ) := by
      simp only [renAliases, List.map_map, Function.comp_def]
    rw [this]
    exact List.Pairwise.map (renName ρ) (fun a b hab h => hab (Ren.renName_inj hρ h)) hk
  have hex' : ∀ a ∈ renAliases ρ al, a.1 ∈ nodes.map (renName ρ) := by
    intro a ha
    obtain ⟨a0, h0, rfl⟩ := List.mem_map.1 ha
    exact List.mem_map.2 ⟨a0.1, hex a0 h0, rfl⟩
  rw [labels_spec_lemma _ _ hn' hk' hex', List.map_map]
  simp only [Function.comp_def, label_ren hρ]

theorem isInternal_ren_lemma (ρ : Comp → Comp) (hρ : GoodRen ρ) (n p : Name) (hn : nameWF n = true) (hp : nameWF p = true) :
    isInternal (render (renName ρ n)) (render (renName ρ p)) = isInternal (render n) (render p) := by
  rw [(raw_test_is_prefix_lemma _ _ (Ren.nameWF_ren hρ hp) (Ren.nameWF_ren hρ hn)).2.2,
    (raw_test_is_prefix_lemma _ _ hp hn).2.2, Ren.desc_ren hρ]

end Pta.RM
