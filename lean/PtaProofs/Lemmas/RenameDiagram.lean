/-
  PtaProofs.Lemmas.RenameDiagram — DIAGRAM rules commute with every injective map `φ` of node names (namespace `Pta.RD`).
  (a) `MultipleRuleApplier.assert_applies` (`applyAll`) on the mapped graph and the mapped rules returns the mapped outcome
      (exact equality).
  (b) `DependencyToRuleConverter.convert` (`diagramRules`) on the mapped diagram yields the mapped "should" rules in the same
      order, and the mapped "should not" rules in a possibly different ORDER and with their objects in a possibly
      different order (`sorted(...)` sorts the renamed names).
  (c) neither order matters: same verdict class (same error kind), same report items as a multiset.
-/
import Bridge.Abs
import Bridge.Rename
import Bridge.RenameLayer
import Bridge.Diagram
import Bridge.OrderDefs
import PtaProofs.Lemmas.RenameModel
import PtaProofs.Lemmas.RenameBuild
import PtaProofs.Lemmas.RenameLayer
import PtaProofs.Lemmas.DiagramApply
import PtaProofs.Lemmas.DiagramSem
import PtaProofs.Lemmas.Expansion
import PtaProofs.Lemmas.QueryErr
import PtaProofs.Lemmas.OrderLayer
namespace Pta.RD
open Pta PtaSpec Pta.RM Pta.Dg

/-! ### (a) exact commutation of `applyAll` -/

section Exact
variable (φ : Str → Str) (hφ : ∀ x y, φ x = φ y → x = y)
include hφ

theorem ruleVerdict_map (mt : Str → Str → Bool) (g : PGraph Str) (r : RuleState) (hreg : cfgNoRegex r.cfg)
    (hsub : cfgSubOK φ r.cfg) : ruleVerdict mt (mapGraph φ g) (r.mapId φ) = (ruleVerdict mt g r).mapId φ := by
  unfold ruleVerdict
  rw [assertApplies_map φ hφ mt g r hreg hsub]

theorem applyAll_go_map (mt : Str → Str → Bool) (g : PGraph Str) (rules : List RuleState)
    (h : ∀ r ∈ rules, cfgNoRegex r.cfg ∧ cfgSubOK φ r.cfg) (acc : List Item) (failed : Bool) :
    applyAll.go mt (mapGraph φ g) (acc.map (Item.mapId φ)) failed (rules.map (RuleState.mapId φ)) =
      (applyAll.go mt g acc failed rules).mapId φ := by
  induction rules generalizing acc failed with
  | nil => cases failed <;> rfl
  | cons r rs ih =>
    have hr := h r (by simp)
    have ih' := fun acc failed => ih (fun r' hr' => h r' (by simp [hr'])) acc failed
    simp only [List.map_cons, applyAll.go]
    have e := ruleVerdict_map φ hφ mt g r hr.1 hr.2
    unfold ruleVerdict at e
    rw [e]
    cases (assertApplies mt r g).2 with
    | pass => exact ih' acc failed
    | fail items =>
      simp only [Verdict.mapId]
      rw [← List.map_append]
      exact ih' _ _
    | err k => rfl

/-- (a) evaluating the mapped rules on the mapped graph gives the mapped outcome -/
theorem applyAll_map (mt : Str → Str → Bool) (g : PGraph Str) (rules : List RuleState)
    (h : ∀ r ∈ rules, cfgNoRegex r.cfg ∧ cfgSubOK φ r.cfg) :
    applyAll mt (mapGraph φ g) (rules.map (RuleState.mapId φ)) = (applyAll mt g rules).mapId φ :=
  applyAll_go_map φ hφ mt g rules h [] false

end Exact

/-! ### the generated rules -/

theorem startsWith_length (p s : Str) (h : startsWith p s = true) : p.length ≤ s.length :=
  ((startsWith_iff_prefix p s).1 h).length_le

theorem isStrictSub_self (x : Str) : isStrictSub x x = false := by
  cases h : isStrictSub x x
  · rfl
  · have := startsWith_length _ _ h
    simp only [List.length_append, List.length_cons, List.length_nil] at this
    omega

theorem mkD_mapId (φ : Str → Str) (s : Str) (os : List Str) (v : RuleOp) :
    (mkD s os v).mapId φ = mkD (φ s) (os.map φ) v := by
  simp [mkD, RuleState.mapId, RuleConfig.mapId, Filter.mapId, List.map_map, Function.comp_def]

theorem mkD_ok (φ : Str → Str) (s : Str) (os : List Str) (v : RuleOp) :
    cfgNoRegex (mkD s os v).cfg ∧ cfgSubOK φ (mkD s os v).cfg := by
  refine ⟨⟨?_, ?_⟩, ?_⟩
  · intro ss hss f hf
    simp only [mkD, Option.some.injEq] at hss
    subst hss
    simp only [List.mem_singleton] at hf
    subst hf; rfl
  · intro ss hss f hf
    simp only [mkD, Option.some.injEq] at hss
    subst hss
    obtain ⟨x, _, rfl⟩ := List.mem_map.1 hf
    rfl
  · intro ss hss f hf f' hf'
    simp only [mkD, Option.some.injEq] at hss
    subst hss
    simp only [List.mem_singleton] at hf hf'
    subst hf; subst hf'
    simp only [Filter.id, isStrictSub_self]

theorem mem_diagramRules (so : Bool) (p : Parsed') (r : RuleState) (hr : r ∈ diagramRules so p) :
    ∃ s os v, r = mkD s os v := by
  rw [diagramRules_eq] at hr
  rcases List.mem_append.1 hr with h | h
  · obtain ⟨kv, _, rfl⟩ := List.mem_map.1 h
    exact ⟨_, _, _, rfl⟩
  · obtain ⟨m, _, hm⟩ := List.mem_filterMap.1 h
    unfold shouldNotOf at hm
    split at hm
    · cases hm
    · cases hm; exact ⟨_, _, _, rfl⟩

theorem diagramRules_ok (φ : Str → Str) (so : Bool) (p : Parsed') :
    ∀ r ∈ diagramRules so p, cfgNoRegex r.cfg ∧ cfgSubOK φ r.cfg := by
  intro r hr
  obtain ⟨s, os, v, rfl⟩ := mem_diagramRules so p r hr
  exact mkD_ok φ s os v

/-! ### a "should not import" rule does not depend on the order of its objects -/

/-- two results of a monadic map over permuted lists -/
def PermRes {β : Type} (e0 : ErrKind) : Except ErrKind (List β) → Except ErrKind (List β) → Prop
  | .ok r, .ok r' => r.Perm r'
  | .error e, .error e' => e = e0 ∧ e' = e0
  | _, _ => False

theorem mapM_perm {α β : Type} (f : α → Except ErrKind β) (e0 : ErrKind) {l l' : List α} (hp : l.Perm l')
    (he : ∀ x ∈ l, ∀ e, f x = .error e → e = e0) : PermRes e0 (l.mapM f) (l'.mapM f) := by
  induction hp with
  | nil => exact List.Perm.nil
  | cons x hp ih =>
    rename_i l1 l2
    have ih := ih (fun y hy => he y (by simp [hy]))
    simp only [List.mapM_cons]
    cases hx : f x with
    | error e => exact ⟨he x (by simp) e hx, he x (by simp) e hx⟩
    | ok y =>
      cases h1 : l1.mapM f <;> cases h2 : l2.mapM f <;> rw [h1, h2] at ih
      · exact ih
      · exact ih.elim
      · exact ih.elim
      · exact List.Perm.cons y ih
  | swap x y l =>
    simp only [List.mapM_cons]
    cases hx : f x with
    | error e =>
      have := he x (by simp) e hx
      cases hy : f y with
      | error e' => exact ⟨he y (by simp) e' hy, this⟩
      | ok b => exact ⟨this, this⟩
    | ok a =>
      cases hy : f y with
      | error e' => exact ⟨he y (by simp) e' hy, he y (by simp) e' hy⟩
      | ok b =>
        cases hl : l.mapM f with
        | error e =>
          have : e = e0 := by
            obtain h := Pta.Hist.mapM_error_only f e0 l (fun z hz e hz' => he z (by simp [hz]) e hz') e hl
            exact h
          exact ⟨this, this⟩
        | ok r => exact List.Perm.swap a b r
  | trans hp1 hp2 ih1 ih2 =>
    rename_i l1 l2 l3
    have ih1 := ih1 he
    have ih2 := ih2 (fun y hy => he y (hp1.mem_iff.2 hy))
    cases h1 : l1.mapM f <;> cases h2 : l2.mapM f <;> cases h3 : l3.mapM f <;> rw [h1, h2] at ih1 <;> rw [h2, h3] at ih2
    · exact ⟨ih1.1, ih2.2⟩
    · exact ih2.elim
    · exact ih1.elim
    · exact ih1.elim
    · exact ih1.elim
    · exact ih1.elim
    · exact ih2.elim
    · exact ih1.trans ih2

/-- the behaviour of a plain "should not" rule -/
def bSN : Behavior := ⟨false, false, true, false⟩

theorem matchRule_shouldNot (mt : Str → Str → Bool) (g : PGraph Str) (S O : List Filter)
    (hS : ∀ f ∈ S, f.isRegex = false) (hO : ∀ f ∈ O, f.isRegex = false) :
    matchRule mt g bSN true S O =
      match getDependencies g S O with
      | .error k => .err k
      | .ok e => if (realised true e).isEmpty then .pass else .fail (impItems true (realised true e)) := by
  unfold matchRule
  rw [Pta.Hist.convertFilters_noregex mt _ _ hS, Pta.Hist.convertFilters_noregex mt _ _ hO]
  have hq : runQueries g bSN true S O = (getDependencies g S O).map fun e => (some e, none) := by
    have h1 : (bSN.explReq || bSN.explForb) = true := rfl
    have h2 : (bSN.otherReq || bSN.otherForb) = false := rfl
    simp only [runQueries, h1, h2, if_true, Bool.false_eq_true, if_false]
    cases getDependencies g S O <;> rfl
  simp only [hq]
  cases getDependencies g S O with
  | error k => rfl
  | ok e =>
    simp only [Except.map]
    have hd : detect bSN true (some e) none (O.map Filter.toMod) = { shouldNot := realised true e } := rfl
    rw [hd]
    simp only [Violations.any, List.isEmpty_nil, Bool.not_true, Bool.false_or, Bool.or_false, reportItems, missItems, impItems,
      List.map_nil, dedup, List.nil_append, List.append_nil]
    cases (realised true e).isEmpty <;> rfl

theorem mkD_shouldNot_eq (s : Str) (os : List Str) :
    mkD s os .shouldNot = mkRule false false true true false [.name s] (os.map .name) := by
  simp [mkD, mkRule]

/-- the outcome of a generated "should not" rule, explicitly -/
theorem verdict_shouldNot (mt : Str → Str → Bool) (g : PGraph Str) (s : Str) (os : List Str) :
    ruleVerdict mt g (mkD s os .shouldNot) =
      if os.isEmpty then .err .improperlyConfigured
      else match getDependencies g [.name s] (os.map .name) with
        | .error k => .err k
        | .ok e => if (realised true e).isEmpty then .pass else .fail (impItems true (realised true e)) := by
  unfold ruleVerdict
  rw [mkD_shouldNot_eq, assertApplies_mkRule]
  have hb : (Behavior.mk false false true false).inconsistent = false := rfl
  simp only [hb, Bool.or_self, Bool.false_or, Bool.not_true, List.isEmpty_cons, List.isEmpty_map, Bool.false_eq_true, if_false]
  split
  · rfl
  · apply matchRule_shouldNot
    · intro f hf; simp only [List.mem_singleton] at hf; subst hf; rfl
    · intro f hf; obtain ⟨x, _, rfl⟩ := List.mem_map.1 hf; rfl

theorem getDependencies_perm (g : PGraph Str) (A O O' : List Filter) (h : O.Perm O') :
    PermRes .lookupError (getDependencies g A O) (getDependencies g A O') := by
  unfold getDependencies
  apply mapM_perm
  · apply Pta.Ord.flatMap_perm_left
    intro f _
    exact (Pta.OrdL.dedup_perm h).map _
  · intro fo _ e he
    exact Pta.Hist.depBetween_err _ _ _ _ (Pta.Hist.bind_pure_err _ _ _ he)

/-- same error kind, same failure flag, same report items up to their order -/
def VE (v v' : Verdict) : Prop := v.errKind = v'.errKind ∧ v.isFail = v'.isFail ∧ v.items.Perm v'.items

theorem VE.refl (v : Verdict) : VE v v := ⟨rfl, rfl, List.Perm.refl _⟩

theorem verdict_shouldNot_perm (mt : Str → Str → Bool) (g : PGraph Str) (s : Str) (os os' : List Str) (h : os.Perm os') :
    VE (ruleVerdict mt g (mkD s os .shouldNot)) (ruleVerdict mt g (mkD s os' .shouldNot)) := by
  rw [verdict_shouldNot, verdict_shouldNot, Pta.Ord.perm_isEmpty h]
  split
  · exact VE.refl _
  · have hp := getDependencies_perm g [.name s] (os.map .name) (os'.map .name) (h.map _)
    cases h1 : getDependencies g [.name s] (os.map .name) <;> cases h2 : getDependencies g [.name s] (os'.map .name) <;>
      rw [h1, h2] at hp
    · obtain ⟨rfl, rfl⟩ := hp
      exact VE.refl _
    · exact hp.elim
    · exact hp.elim
    · rename_i e e'
      have hr : (realised true e).Perm (realised true e') := List.Perm.flatMap_right _ hp
      simp only [Pta.Ord.perm_isEmpty hr]
      split
      · exact VE.refl _
      · exact ⟨rfl, rfl, hr.map _⟩

theorem verdict_shouldNot_err (mt : Str → Str → Bool) (g : PGraph Str) (s : Str) (os : List Str) (hne : os ≠ []) (k : ErrKind)
    (h : ruleVerdict mt g (mkD s os .shouldNot) = .err k) : k = .lookupError := by
  rw [verdict_shouldNot] at h
  have : os.isEmpty = false := by cases os <;> simp_all
  simp only [this, Bool.false_eq_true, if_false] at h
  cases h1 : getDependencies g [.name s] (os.map .name) with
  | error e =>
    rw [h1] at h
    cases h
    exact Pta.Hist.getDependencies_err _ _ _ _ h1
  | ok e =>
    rw [h1] at h
    simp only at h
    split at h <;> cases h

/-! ### (b) the rules generated for the mapped diagram -/

theorem mkD_shouldNot_eq' (s : Str) (os : List Str) : mkD s os .shouldNot = shouldNotRule s os := mkD_shouldNot_eq s os

theorem forall2_filterMap {α β γ : Type} (R : β → γ → Prop) (I : List α) (F : α → Option β) (F' : α → Option γ)
    (h : ∀ m ∈ I, match F m, F' m with | none, none => True | some a, some b => R a b | _, _ => False) :
    Forall2 R (I.filterMap F) (I.filterMap F') := by
  induction I with
  | nil => exact Forall2.nil
  | cons m I ih =>
    have hm := h m (by simp)
    have ih := ih (fun x hx => h x (by simp [hx]))
    simp only [List.filterMap_cons]
    cases h1 : F m <;> cases h2 : F' m <;> rw [h1, h2] at hm
    · exact ih
    · exact hm.elim
    · exact hm.elim
    · exact Forall2.cons hm ih

section Shape
variable (φ : Str → Str) (hφ : ∀ x y, φ x = φ y → x = y)
include hφ

theorem importedOf_map (p : Parsed') (m : Str) : importedOf (p.mapNames φ) (φ m) = (importedOf p m).map φ := by
  unfold importedOf Parsed'.mapNames
  simp only [List.find?_map]
  have : ((fun x : Str × List Str => x.1 == φ m) ∘ fun kv : Str × List Str => (φ kv.1, kv.2.map φ)) = fun kv => kv.1 == m := by
    funext kv
    simp only [Function.comp]
    exact beq_inj φ hφ kv.1 m
  rw [this]
  cases p.dependencies.find? (fun kv => kv.1 == m) <;> rfl

theorem notImportedOf_map (p : Parsed') (m : Str) :
    notImportedOf (p.mapNames φ) (φ m) = (notImportedOf p m).map φ := by
  unfold notImportedOf
  rw [importedOf_map φ hφ]
  have hm : (p.mapNames φ).modules = p.modules.map φ := rfl
  rw [hm, RM.dedup_map_inj φ hφ, List.filter_map]
  congr 1
  apply List.filter_congr
  intro x _
  simp only [Function.comp, contains_map_inj φ hφ, bne, beq_inj φ hφ]

omit hφ in
theorem sortStr_map_perm (l : List Str) : (sortStr (l.map φ)).Perm ((sortStr l).map φ) :=
  (sortBy_perm strLe _).trans ((sortBy_perm strLe l).symm.map φ)

/-- (b) the rules of the mapped diagram: the mapped "should" rules in the same order, followed by a permutation of the
    mapped "should not" rules, each with its object list permuted -/
theorem diagramRules_mapNames (so : Bool) (p : Parsed') :
    ∃ B' B'', diagramRules so (p.mapNames φ) =
        (p.dependencies.map fun kv => mkD kv.1 kv.2 (shouldVerb so)).map (RuleState.mapId φ) ++ B' ∧
      B'.Perm B'' ∧
      Forall2 SNPerm B'' (((sortStr (dedup p.modules)).filterMap (shouldNotOf p)).map (RuleState.mapId φ)) := by
  refine ⟨(sortStr (dedup (p.mapNames φ).modules)).filterMap (shouldNotOf (p.mapNames φ)),
    (sortStr (dedup p.modules)).filterMap (fun m => shouldNotOf (p.mapNames φ) (φ m)), ?_, ?_, ?_⟩
  · rw [diagramRules_eq]
    congr 1
    simp only [Parsed'.mapNames, List.map_map, Function.comp_def, mkD_mapId]
  · have hm : (p.mapNames φ).modules = p.modules.map φ := rfl
    rw [hm, RM.dedup_map_inj φ hφ]
    have := (sortStr_map_perm φ (dedup p.modules)).filterMap (shouldNotOf (p.mapNames φ))
    rw [List.filterMap_map] at this
    exact this
  · rw [List.map_filterMap]
    apply forall2_filterMap
    intro m _
    unfold shouldNotOf
    rw [notImportedOf_map φ hφ, List.isEmpty_map]
    by_cases hE : (notImportedOf p m).isEmpty = true
    · simp only [hE, if_true, Option.map_none]
    · simp only [hE, Bool.false_eq_true, if_false, Option.map_some, mkD_mapId]
      refine ⟨φ m, _, _, sortStr_map_perm φ _, ?_, mkD_shouldNot_eq' _ _, mkD_shouldNot_eq' _ _⟩
      intro hnil
      have h1 := (sortBy_perm strLe ((notImportedOf p m).map φ)).length_eq
      rw [show sortBy strLe ((notImportedOf p m).map φ) = sortStr ((notImportedOf p m).map φ) from rfl, hnil] at h1
      simp only [List.length_nil, List.length_map] at h1
      apply hE
      rw [List.isEmpty_iff, ← List.length_eq_zero_iff]
      exact h1.symm

end Shape

/-! ### (c) neither the order of the "should not" rules nor the order of their objects matters -/

theorem forall2_imp {α β : Type} {R S : α → β → Prop} {l : List α} {l' : List β} (hRS : ∀ a b, R a b → S a b)
    (h : Forall2 R l l') : Forall2 S l l' := by
  induction h with
  | nil => exact Forall2.nil
  | cons hab _ ih => exact Forall2.cons (hRS _ _ hab) ih

theorem forall2_mem_left {α β : Type} {R : α → β → Prop} {l : List α} {l' : List β} (h : Forall2 R l l') :
    ∀ a ∈ l, ∃ b ∈ l', R a b := by
  induction h with
  | nil => intro a ha; cases ha
  | cons hab _ ih =>
    intro x hx
    rcases List.mem_cons.1 hx with rfl | hx
    · exact ⟨_, by simp, hab⟩
    · obtain ⟨b, hb, hr⟩ := ih x hx
      exact ⟨b, List.mem_cons_of_mem _ hb, hr⟩

theorem forall2_mem_right {α β : Type} {R : α → β → Prop} {l : List α} {l' : List β} (h : Forall2 R l l') :
    ∀ b ∈ l', ∃ a ∈ l, R a b := by
  induction h with
  | nil => intro a ha; cases ha
  | cons hab _ ih =>
    intro x hx
    rcases List.mem_cons.1 hx with rfl | hx
    · exact ⟨_, by simp, hab⟩
    · obtain ⟨b, hb, hr⟩ := ih x hx
      exact ⟨b, List.mem_cons_of_mem _ hb, hr⟩

section Combine
variable (mt : Str → Str → Bool) (g : PGraph Str)

def isErr (r : RuleState) : Bool := (ruleVerdict mt g r).errKind.isSome

/-- two rule lists with the same aggregate: some rule raises, some rule fails, the items as a multiset -/
def SumEq (B B' : List RuleState) : Prop :=
  B.any (isErr mt g) = B'.any (isErr mt g) ∧
  (B.any fun r => (ruleVerdict mt g r).isFail) = (B'.any fun r => (ruleVerdict mt g r).isFail) ∧
  (B.flatMap fun r => (ruleVerdict mt g r).items).Perm (B'.flatMap fun r => (ruleVerdict mt g r).items)

theorem SumEq.of_perm {B B' : List RuleState} (h : B.Perm B') : SumEq mt g B B' :=
  ⟨h.any_eq, h.any_eq, h.flatMap_right _⟩

theorem SumEq.trans {B B' B'' : List RuleState} (h1 : SumEq mt g B B') (h2 : SumEq mt g B' B'') : SumEq mt g B B'' :=
  ⟨h1.1.trans h2.1, h1.2.1.trans h2.2.1, h1.2.2.trans h2.2.2⟩

theorem SumEq.of_forall2 {B B' : List RuleState}
    (h : Forall2 (fun r r' => VE (ruleVerdict mt g r) (ruleVerdict mt g r')) B B') : SumEq mt g B B' := by
  induction h with
  | nil => exact ⟨rfl, rfl, List.Perm.refl _⟩
  | cons hab _ ih =>
    obtain ⟨e1, e2, e3⟩ := hab
    obtain ⟨i1, i2, i3⟩ := ih
    refine ⟨?_, ?_, ?_⟩
    · unfold isErr at i1 ⊢
      simp only [List.any_cons, e1, i1]
    · simp only [List.any_cons, e2, i2]
    · simp only [List.flatMap_cons]
      exact e3.append i3

theorem findSome_uniform (B : List RuleState) (e0 : ErrKind)
    (hu : ∀ r ∈ B, ∀ k, ruleVerdict mt g r = .err k → k = e0) :
    B.findSome? (fun r => (ruleVerdict mt g r).errKind) = if B.any (isErr mt g) then some e0 else none := by
  induction B with
  | nil => rfl
  | cons r B ih =>
    have ih := ih (fun r' hr' => hu r' (by simp [hr']))
    rw [List.findSome?_cons, List.any_cons]
    cases hv : ruleVerdict mt g r with
    | pass =>
      have h0 : isErr mt g r = false := by unfold isErr; rw [hv]; rfl
      rw [h0]; exact ih
    | fail items =>
      have h0 : isErr mt g r = false := by unfold isErr; rw [hv]; rfl
      rw [h0]; exact ih
    | err k =>
      have h0 : isErr mt g r = true := by unfold isErr; rw [hv]; rfl
      rw [h0, hu r (by simp) k hv]; rfl

theorem applyAll_sumEq (A B B' : List RuleState) (e0 : ErrKind)
    (hu : ∀ r ∈ B, ∀ k, ruleVerdict mt g r = .err k → k = e0) (hu' : ∀ r ∈ B', ∀ k, ruleVerdict mt g r = .err k → k = e0)
    (h : SumEq mt g B B') :
    (applyAll mt g (A ++ B)).cls = (applyAll mt g (A ++ B')).cls ∧
    (applyAll mt g (A ++ B)).items.Perm (applyAll mt g (A ++ B')).items := by
  obtain ⟨h1, h2, h3⟩ := h
  rw [applyAll_eq, applyAll_eq, List.findSome?_append, List.findSome?_append, findSome_uniform mt g B e0 hu,
    findSome_uniform mt g B' e0 hu', h1]
  cases A.findSome? (fun r => (ruleVerdict mt g r).errKind) with
  | some k => exact ⟨rfl, List.Perm.refl _⟩
  | none =>
    simp only [Option.none_or]
    cases B'.any (isErr mt g)
    · simp only [Bool.false_eq_true, if_false, List.any_append, List.flatMap_append, h2]
      split
      · exact ⟨rfl, h3.append_left _⟩
      · exact ⟨rfl, List.Perm.refl _⟩
    · exact ⟨rfl, List.Perm.refl _⟩

end Combine

theorem cls_mapId (φ : Str → Str) (v : DVerdict) : (v.mapId φ).cls = v.cls := by cases v <;> rfl
theorem items_mapId (φ : Str → Str) (v : DVerdict) : (v.mapId φ).items = v.items.map (Item.mapId φ) := by cases v <;> rfl

/-- (c) a diagram rule on the mapped graph with the mapped diagram: same verdict class (same error kind), and the same
    report items up to the map and up to their order -/
theorem diagram_map (φ : Str → Str) (hφ : ∀ x y, φ x = φ y → x = y) (mt : Str → Str → Bool) (g : PGraph Str) (so : Bool)
    (p : Parsed') :
    (applyAll mt (mapGraph φ g) (diagramRules so (p.mapNames φ))).cls = (applyAll mt g (diagramRules so p)).cls ∧
    (applyAll mt (mapGraph φ g) (diagramRules so (p.mapNames φ))).items.Perm
      ((applyAll mt g (diagramRules so p)).items.map (Item.mapId φ)) := by
  obtain ⟨B', B'', hshape, hperm, hf2⟩ := diagramRules_mapNames φ hφ so p
  have hexact := applyAll_map φ hφ mt g (diagramRules so p) (diagramRules_ok φ so p)
  rw [diagramRules_eq so p, List.map_append] at hexact
  have hve : Forall2 (fun r r' => VE (ruleVerdict mt (mapGraph φ g) r) (ruleVerdict mt (mapGraph φ g) r')) B''
      (((sortStr (dedup p.modules)).filterMap (shouldNotOf p)).map (RuleState.mapId φ)) := by
    refine forall2_imp ?_ hf2
    rintro r r' ⟨s, os, os', hp, _, rfl, rfl⟩
    rw [← mkD_shouldNot_eq', ← mkD_shouldNot_eq']
    exact verdict_shouldNot_perm mt _ s os os' hp
  have hsum : SumEq mt (mapGraph φ g) B' (((sortStr (dedup p.modules)).filterMap (shouldNotOf p)).map (RuleState.mapId φ)) :=
    (SumEq.of_perm mt _ hperm).trans mt _ (SumEq.of_forall2 mt _ hve)
  have hu : ∀ r ∈ B', ∀ k, ruleVerdict mt (mapGraph φ g) r = .err k → k = .lookupError := by
    intro r hr k hk
    obtain ⟨r', _, s, os, os', _, hne, rfl, _⟩ := forall2_mem_left hf2 r (hperm.mem_iff.1 hr)
    rw [← mkD_shouldNot_eq'] at hk
    exact verdict_shouldNot_err mt _ s os hne k hk
  have hu' : ∀ r ∈ ((sortStr (dedup p.modules)).filterMap (shouldNotOf p)).map (RuleState.mapId φ), ∀ k,
      ruleVerdict mt (mapGraph φ g) r = .err k → k = .lookupError := by
    intro r hr k hk
    obtain ⟨r', _, s, os, os', hp, hne, _, rfl⟩ := forall2_mem_right hf2 r hr
    rw [← mkD_shouldNot_eq'] at hk
    refine verdict_shouldNot_err mt _ s os' ?_ k hk
    intro h; rw [h] at hp; exact hne hp.eq_nil
  obtain ⟨c1, c2⟩ := applyAll_sumEq mt (mapGraph φ g) _ B' _ .lookupError hu hu' hsum
  rw [hshape, c1, hexact, cls_mapId, ← diagramRules_eq]
  refine ⟨rfl, ?_⟩
  have := c2
  rw [hexact, items_mapId, ← diagramRules_eq] at this
  exact this

/-! ### instantiation: the component-wise renaming -/

theorem addDep_map (φ : Str → Str) (hφ : ∀ x y, φ x = φ y → x = y) (G : List (Str × List Str)) (k v : Str) :
    addDep (G.map fun kv => (φ kv.1, kv.2.map φ)) (φ k) (φ v) = (addDep G k v).map fun kv => (φ kv.1, kv.2.map φ) := by
  unfold addDep
  simp only [List.any_map, Function.comp_def, beq_inj φ hφ, List.map_map]
  split
  · rw [List.map_map]
    apply List.map_congr_left
    intro e _
    simp only [contains_map_inj φ hφ, Function.comp]
    split
    · split <;> simp
    · rfl
  · simp

theorem foldl_addDep_map (φ : Str → Str) (hφ : ∀ x y, φ x = φ y → x = y) (pairs : List (Str × Str))
    (G : List (Str × List Str)) :
    (pairs.map fun p => (φ p.1, φ p.2)).foldl (fun acc p => addDep acc p.1 p.2) (G.map fun kv => (φ kv.1, kv.2.map φ)) =
      (pairs.foldl (fun acc p => addDep acc p.1 p.2) G).map fun kv => (φ kv.1, kv.2.map φ) := by
  induction pairs generalizing G with
  | nil => rfl
  | cons p ps ih => simp only [List.map_cons, List.foldl_cons, addDep_map φ hφ, ih]

theorem specDiagramWF_iff (d : Diagram) :
    specDiagramWF d = true ↔ (∀ c ∈ d.components, nameWF c = true) ∧ ∀ e ∈ d.arrows, nameWF e.1 = true ∧ nameWF e.2 = true := by
  simp only [specDiagramWF, Bool.and_eq_true, List.all_eq_true]

/-- the parser result of the renamed diagram is the renamed parser result -/
theorem parsedOf_ren {ρ : Comp → Comp} (hρ : GoodRen ρ) (d : Diagram) (hd : specDiagramWF d = true) :
    parsedOf (renDiagram ρ d) = (parsedOf d).mapNames (renStr ρ) := by
  obtain ⟨hc, ha⟩ := (specDiagramWF_iff d).1 hd
  have e1 : ∀ (l : List (Name × Name)) (G : List (Str × List Str)),
      l.foldl (fun acc e => addDep acc (render e.1) (render e.2)) G =
      (l.map fun e => (render e.1, render e.2)).foldl (fun acc p => addDep acc p.1 p.2) G := by
    intro l G; rw [List.foldl_map]
  simp only [parsedOf, renDiagram, Parsed'.mapNames, Parsed'.mk.injEq]
  constructor
  · simp only [List.map_map]
    apply List.map_congr_left
    intro c hc'
    simp only [Function.comp, renStr_render ρ c (hc c hc')]
  · rw [e1 d.arrows, e1 (d.arrows.map _), ← foldl_addDep_map (renStr ρ) (renStr_inj hρ) _ []]
    simp only [List.map_map, List.map_nil]
    congr 1
    apply List.map_congr_left
    intro e he
    simp only [Function.comp, renStr_render ρ _ (ha e he).1, renStr_render ρ _ (ha e he).2]

/-- Target 3 for the component-wise renaming: any parser result -/
theorem diagram_verdict_ren_lemma (mt : Str → Str → Bool) (ρ : Comp → Comp) (hρ : GoodRen ρ) (a : Arch) (hwf : a.wf = true)
    (so : Bool) (p : Parsed') :
    (applyAll mt (archGraph (renArch ρ a)) (diagramRules so (p.mapNames (renStr ρ)))).cls =
      (applyAll mt (archGraph a) (diagramRules so p)).cls ∧
    (applyAll mt (archGraph (renArch ρ a)) (diagramRules so (p.mapNames (renStr ρ)))).items.Perm
      ((applyAll mt (archGraph a) (diagramRules so p)).items.map (Item.mapId (renStr ρ))) := by
  rw [archGraph_ren hρ a hwf]
  exact diagram_map (renStr ρ) (renStr_inj hρ) mt (archGraph a) so p

/-! ### … with `with_base_module` -/

/-- the diagram a `DiagramRule` evaluates: every component prefixed with the base module, if one is configured -/
def withBase (base : Option Name) (d : Diagram) : Diagram :=
  match base with
  | none => d
  | some q => prefixDiagram q d

theorem nameWF_append (q c : Name) (hq : nameWF q = true) (hc : nameWF c = true) : nameWF (q ++ c) = true := by
  rw [nameWF_iff] at hq hc ⊢
  refine ⟨by simp [hq.1], ?_⟩
  intro x hx
  rcases List.mem_append.1 hx with h | h
  · exact hq.2 x h
  · exact hc.2 x h

theorem withBase_wf (base : Option Name) (d : Diagram) (hb : ∀ q, base = some q → nameWF q = true) (hd : specDiagramWF d = true) :
    specDiagramWF (withBase base d) = true := by
  cases base with
  | none => exact hd
  | some q =>
    obtain ⟨hc, ha⟩ := (specDiagramWF_iff d).1 hd
    have hq := hb q rfl
    rw [specDiagramWF_iff]
    constructor
    · intro c hc'
      obtain ⟨c0, h0, rfl⟩ := List.mem_map.1 hc'
      exact nameWF_append q c0 hq (hc c0 h0)
    · intro e he
      obtain ⟨e0, h0, rfl⟩ := List.mem_map.1 he
      exact ⟨nameWF_append q _ hq (ha e0 h0).1, nameWF_append q _ hq (ha e0 h0).2⟩

/-- what `DiagramRule.assert_applies` evaluates for the diagram `d` with base module `base` -/
theorem prefixParsed_withBase (base : Option Name) (d : Diagram) (hb : ∀ q, base = some q → nameWF q = true)
    (hd : specDiagramWF d = true) : prefixParsed (parsedOf d) (base.map render) = parsedOf (withBase base d) := by
  cases base with
  | none => rfl
  | some q =>
    obtain ⟨hc, ha⟩ := (specDiagramWF_iff d).1 hd
    exact base_module_diagram_lemma q d (nameWF_ne_nil (hb q rfl)) (fun c hc' => nameWF_ne_nil (hc c hc'))
      (fun e he => ⟨nameWF_ne_nil (ha e he).1, nameWF_ne_nil (ha e he).2⟩)

theorem withBase_ren (ρ : Comp → Comp) (base : Option Name) (d : Diagram) :
    withBase (base.map (renName ρ)) (renDiagram ρ d) = renDiagram ρ (withBase base d) := by
  cases base with
  | none => rfl
  | some q =>
    simp only [withBase, Option.map_some, prefixDiagram, renDiagram, List.map_map, Function.comp_def, renName, List.map_append]

theorem nameWF_renName {ρ : Comp → Comp} (hρ : GoodRen ρ) (q : Name) (hq : nameWF q = true) : nameWF (renName ρ q) = true :=
  Ren.nameWF_ren hρ hq

theorem specDiagramWF_ren {ρ : Comp → Comp} (hρ : GoodRen ρ) (d : Diagram) (hd : specDiagramWF d = true) :
    specDiagramWF (renDiagram ρ d) = true := by
  obtain ⟨hc, ha⟩ := (specDiagramWF_iff d).1 hd
  rw [specDiagramWF_iff]
  constructor
  · intro c hc'
    obtain ⟨c0, h0, rfl⟩ := List.mem_map.1 hc'
    exact nameWF_renName hρ c0 (hc c0 h0)
  · intro e he
    obtain ⟨e0, h0, rfl⟩ := List.mem_map.1 he
    exact ⟨nameWF_renName hρ _ (ha e0 h0).1, nameWF_renName hρ _ (ha e0 h0).2⟩

/-- Target 3, specification-level diagrams with an optional base module: the rules `DiagramRule.assert_applies` generates
    and evaluates for the renamed diagram (renamed base module) on the renamed architecture give the same verdict class
    and the renamed report items (as a multiset) -/
theorem diagram_spec_ren_lemma (mt : Str → Str → Bool) (ρ : Comp → Comp) (hρ : GoodRen ρ) (a : Arch) (hwf : a.wf = true)
    (so : Bool) (d : Diagram) (hd : specDiagramWF d = true) (base : Option Name) (hb : ∀ q, base = some q → nameWF q = true) :
    (applyAll mt (archGraph (renArch ρ a))
        (diagramRules so (prefixParsed (parsedOf (renDiagram ρ d)) ((base.map (renName ρ)).map render)))).cls =
      (applyAll mt (archGraph a) (diagramRules so (prefixParsed (parsedOf d) (base.map render)))).cls ∧
    (applyAll mt (archGraph (renArch ρ a))
        (diagramRules so (prefixParsed (parsedOf (renDiagram ρ d)) ((base.map (renName ρ)).map render)))).items.Perm
      ((applyAll mt (archGraph a) (diagramRules so (prefixParsed (parsedOf d) (base.map render)))).items.map
        (Item.mapId (renStr ρ))) := by
  have hb' : ∀ q, base.map (renName ρ) = some q → nameWF q = true := by
    intro q hq
    cases base with
    | none => cases hq
    | some q0 =>
      simp only [Option.map_some, Option.some.injEq] at hq
      subst hq
      exact nameWF_renName hρ q0 (hb q0 rfl)
  rw [prefixParsed_withBase _ _ hb' (specDiagramWF_ren hρ d hd), prefixParsed_withBase _ _ hb hd, withBase_ren,
    parsedOf_ren hρ _ (withBase_wf base d hb hd)]
  exact diagram_verdict_ren_lemma mt ρ hρ a hwf so _

end Pta.RD
