/-
  PtaProofs.Lemmas.DiagramE2E — composition of the parser round trip (C06) with diagram conformance (C07).

  * the rules `DependencyToRuleConverter` generates depend on the parse result only through its module SET and
    its dependency RELATION (given the dictionary invariants the parser guarantees): `rules_sim`,
    `diagramRules_congr_lemma`;
  * hence a rendered diagram file (`diagramText`) is checked like the specification diagram it means:
    `file_conforms_lemma`, `file_conforms_base_lemma`.
-/
import Bridge.Abs
import Bridge.Diagram
import Bridge.OrderDefs
import Bridge.PumlRender
import PtaProofs.Lemmas.OrderCongr
import PtaProofs.Lemmas.DiagramItems
import PtaProofs.Lemmas.OrderDiagram
import Bridge.DiagramE2E
import PtaProofs.Lemmas.DiagramApply
import PtaProofs.Lemmas.DiagramSem
import PtaProofs.Lemmas.PumlAgg
import PtaProofs.Lemmas.PumlRoundtrip
import PtaProofs.Lemmas.ExtNames
import PtaProofs.Lemmas.DiagramRepair
namespace Pta.E2E
open Pta PtaSpec Pta.Ord Pta.Dg Pta.Itm

/-! ### dictionary invariants and lookup -/

/-- what the congruence needs of a dependency dictionary: unique keys, no empty value list
    (the parser guarantees both: `C06.roundtrip`, `C06.aggregate_law`) -/
def DepsOK (p : Parsed') : Prop :=
  (p.dependencies.map (·.1)).Nodup ∧ ∀ kv ∈ p.dependencies, kv.2 ≠ []

theorem depsOf_eq_importedOf (p : Parsed') (x : Str) : p.depsOf x = importedOf p x := rfl

/-- with unique keys the lookup of a listed key returns the listed value -/
theorem depsOf_of_mem (p : Parsed') (hk : (p.dependencies.map (·.1)).Nodup) (kv : Str × List Str)
    (h : kv ∈ p.dependencies) : p.depsOf kv.1 = kv.2 := by
  unfold Parsed'.depsOf
  cases hf : p.dependencies.find? (·.1 == kv.1) with
  | none =>
    have := List.find?_eq_none.1 hf kv h
    simp at this
  | some kv' =>
    have hm := List.mem_of_find?_eq_some hf
    have hk' : kv'.1 = kv.1 := by simpa using List.find?_some hf
    exact dict_unique _ hk kv.1 kv'.2 kv.2 (by rw [← hk']; exact hm) h

/-- a non-empty lookup result comes from an entry -/
theorem entry_of_depsOf (p : Parsed') (x y : Str) (h : y ∈ p.depsOf x) :
    ∃ kv ∈ p.dependencies, kv.1 = x ∧ kv.2 = p.depsOf x := by
  unfold Parsed'.depsOf at h ⊢
  cases hf : p.dependencies.find? (·.1 == x) with
  | none => rw [hf] at h; cases h
  | some kv =>
    exact ⟨kv, List.mem_of_find?_eq_some hf, by simpa using List.find?_some hf, rfl⟩

/-- the entries of two dictionaries with the same relation correspond (same key, same value SET) -/
theorem entry_sim (p q : Parsed') (hp : DepsOK p)
    (hd : ∀ x y, y ∈ p.depsOf x ↔ y ∈ q.depsOf x) (kv : Str × List Str) (h : kv ∈ p.dependencies) :
    ∃ kv' ∈ q.dependencies, kv'.1 = kv.1 ∧ SM kv.2 kv'.2 := by
  obtain ⟨v, hv⟩ := List.exists_mem_of_ne_nil _ (hp.2 kv h)
  have e := depsOf_of_mem p hp.1 kv h
  have hv' : v ∈ q.depsOf kv.1 := (hd _ _).1 (by rw [e]; exact hv)
  obtain ⟨kv', hm, h1, h2⟩ := entry_of_depsOf q kv.1 v hv'
  refine ⟨kv', hm, h1, fun y => ?_⟩
  rw [h2, ← e]
  exact hd _ _

theorem notImportedOf_sim (p q : Parsed') (hm : ∀ x, x ∈ p.modules ↔ x ∈ q.modules)
    (hd : ∀ x y, y ∈ p.depsOf x ↔ y ∈ q.depsOf x) (m : Str) :
    SM (notImportedOf p m) (notImportedOf q m) := by
  intro x
  unfold notImportedOf
  simp only [List.mem_filter, mem_dedup, Bool.and_eq_true, bne_iff_ne, ne_eq, Bool.not_eq_true',
    ← Bool.not_eq_true, List.contains_iff_mem, ← depsOf_eq_importedOf]
  rw [hm x, hd m x]

/-! ### one generated rule: outcome and report depend on the object SET only -/

theorem mkD_eq_mkRule (s : Str) (os : List Str) (v : RuleOp) :
    mkD s os v = mkRule (v == .should) (v == .shouldOnly) (v == .shouldNot) true false [.name s] (os.map .name) := rfl

theorem vrel_mkD_sm (mt : Str → Str → Bool) (g : PGraph Str) (s : Str) (os os' : List Str) (v : RuleOp)
    (h : SM os os') : VRel (ruleVerdict mt g (mkD s os v)) (ruleVerdict mt g (mkD s os' v)) := by
  rw [mkD_eq_mkRule, mkD_eq_mkRule]
  exact mkRule_vrel mt g _ _ _ _ _ _ _ _ _ (SM.refl _) (sm_map _ h)

theorem sm_sortStr {l l' : List Str} (h : SM l l') : SM (sortStr l) (sortStr l') := by
  intro x; rw [mem_sortStr, mem_sortStr]; exact h x

/-! ### the generated rule lists simulate each other -/

/-- every rule generated from `p` has a counterpart generated from `q` with the same outcome and the same report
    (up to `Item.sim`) on every graph -/
theorem rules_sim (so : Bool) (p q : Parsed') (hp : DepsOK p)
    (hm : ∀ x, x ∈ p.modules ↔ x ∈ q.modules) (hd : ∀ x y, y ∈ p.depsOf x ↔ y ∈ q.depsOf x)
    (r : RuleState) (hr : r ∈ diagramRules so p) :
    ∃ r' ∈ diagramRules so q, ∀ (mt : Str → Str → Bool) (g : PGraph Str),
      VRel (ruleVerdict mt g r) (ruleVerdict mt g r') := by
  rw [diagramRules_eq, List.mem_append, List.mem_map, List.mem_filterMap] at hr
  rcases hr with ⟨kv, hkv, rfl⟩ | ⟨m, hmm, hsome⟩
  · obtain ⟨kv', hkv', h1, h2⟩ := entry_sim p q hp hd kv hkv
    refine ⟨mkD kv'.1 kv'.2 (shouldVerb so), ?_, fun mt g => ?_⟩
    · rw [diagramRules_eq, List.mem_append, List.mem_map]
      exact .inl ⟨kv', hkv', rfl⟩
    · rw [h1]; exact vrel_mkD_sm mt g _ _ _ _ h2
  · have hN := notImportedOf_sim p q hm hd m
    unfold shouldNotOf at hsome
    by_cases he : (notImportedOf p m).isEmpty = true
    · rw [if_pos he] at hsome; cases hsome
    · rw [if_neg he] at hsome
      have he' : ¬ (notImportedOf q m).isEmpty = true := by
        rw [← isEmpty_congr hN.nil_iff]; exact he
      refine ⟨mkD m (sortStr (notImportedOf q m)) .shouldNot, ?_, fun mt g => ?_⟩
      · rw [diagramRules_eq, List.mem_append, List.mem_filterMap]
        right
        refine ⟨m, ?_, ?_⟩
        · rw [mem_sortStr, mem_dedup] at hmm ⊢
          exact (hm m).1 hmm
        · unfold shouldNotOf; rw [if_neg he']
      · rw [← Option.some.inj hsome]
        exact vrel_mkD_sm mt g _ _ _ _ (sm_sortStr hN)

/-! ### `applyAll` on two rule lists that simulate each other -/

theorem noErr_of_sim (mt : Str → Str → Bool) (g : PGraph Str) (rs rs' : List RuleState)
    (h : ∀ r ∈ rs, ∃ r' ∈ rs', VRel (ruleVerdict mt g r) (ruleVerdict mt g r'))
    (hne : ∀ r ∈ rs', ∀ k, ruleVerdict mt g r ≠ .err k) :
    ∀ r ∈ rs, ∀ k, ruleVerdict mt g r ≠ .err k := by
  intro r hr k hk
  obtain ⟨r', hr', e⟩ := h r hr
  rw [hk] at e
  cases hv : ruleVerdict mt g r' with
  | err k' => exact hne r' hr' k' hv
  | pass => rw [hv] at e; exact e
  | fail its => rw [hv] at e; exact e

theorem allPass_of_sim (mt : Str → Str → Bool) (g : PGraph Str) (rs rs' : List RuleState)
    (h : ∀ r ∈ rs, ∃ r' ∈ rs', VRel (ruleVerdict mt g r) (ruleVerdict mt g r'))
    (hall : ∀ r ∈ rs', ruleVerdict mt g r = .pass) : ∀ r ∈ rs, ruleVerdict mt g r = .pass := by
  intro r hr
  obtain ⟨r', hr', e⟩ := h r hr
  rw [hall r' hr'] at e
  cases hv : ruleVerdict mt g r with
  | pass => rfl
  | err k => rw [hv] at e; exact e.elim
  | fail its => rw [hv] at e; exact e.elim

/-- without errors, the collected items are the items of all rules, in rule order -/
theorem applyAll_items (mt : Str → Str → Bool) (g : PGraph Str) (rs : List RuleState)
    (hne : ∀ r ∈ rs, ∀ k, ruleVerdict mt g r ≠ .err k) :
    (applyAll mt g rs).items = rs.flatMap fun r => (ruleVerdict mt g r).items := by
  rw [applyAll_eq, findSome_none_of_noErr mt g rs hne]
  simp only []
  split
  · rfl
  · rename_i hany
    symm
    show _ = []
    rw [List.flatMap_eq_nil_iff]
    intro r hr
    cases hv : ruleVerdict mt g r with
    | pass => rfl
    | err k => rfl
    | fail its =>
      exfalso; apply hany
      rw [List.any_eq_true]
      exact ⟨r, hr, by rw [hv]; rfl⟩

theorem flatMap_lrel {α β : Type} {R : β → β → Prop} (f f' : α → List β) (l l' : List α)
    (h : ∀ x ∈ l, ∃ x' ∈ l', LRel R (f x) (f' x')) (h' : ∀ x' ∈ l', ∃ x ∈ l, LRel R (f x) (f' x')) :
    LRel R (l.flatMap f) (l'.flatMap f') := by
  refine ⟨fun y hy => ?_, fun y' hy' => ?_⟩
  · obtain ⟨x, hx, hy⟩ := List.mem_flatMap.1 hy
    obtain ⟨x', hx', r⟩ := h x hx
    obtain ⟨y', hy', ryy⟩ := r.1 y hy
    exact ⟨y', List.mem_flatMap.2 ⟨x', hx', hy'⟩, ryy⟩
  · obtain ⟨x', hx', hy'⟩ := List.mem_flatMap.1 hy'
    obtain ⟨x, hx, r⟩ := h' x' hx'
    obtain ⟨y, hy, ryy⟩ := r.2 y' hy'
    exact ⟨y, List.mem_flatMap.2 ⟨x, hx, hy⟩, ryy⟩

theorem sameItems_iff (l l' : List Item) : sameItems l l' = true ↔ LRel ItemSim l l' := by
  simp only [sameItems, Bool.and_eq_true, List.all_eq_true, List.any_eq_true, LRel, ItemSim]

theorem applyAll_sim (mt : Str → Str → Bool) (g : PGraph Str) (rs rs' : List RuleState)
    (h : ∀ r ∈ rs, ∃ r' ∈ rs', VRel (ruleVerdict mt g r) (ruleVerdict mt g r'))
    (h' : ∀ r' ∈ rs', ∃ r ∈ rs, VRel (ruleVerdict mt g r') (ruleVerdict mt g r))
    (hne' : ∀ r ∈ rs', ∀ k, ruleVerdict mt g r ≠ .err k) :
    (applyAll mt g rs).cls = (applyAll mt g rs').cls ∧ (∀ k, applyAll mt g rs ≠ .err k) ∧
      (applyAll mt g rs = .pass ↔ applyAll mt g rs' = .pass) ∧
      sameItems (applyAll mt g rs).items (applyAll mt g rs').items = true := by
  have hne := noErr_of_sim mt g rs rs' h hne'
  have e1 := applyAll_noErr_lemma mt g rs hne
  have e2 := applyAll_noErr_lemma mt g rs' hne'
  have hiff : applyAll mt g rs = .pass ↔ applyAll mt g rs' = .pass := by
    rw [applyAll_pass_iff_lemma mt g rs hne, applyAll_pass_iff_lemma mt g rs' hne']
    exact ⟨allPass_of_sim mt g rs' rs h', allPass_of_sim mt g rs rs' h⟩
  refine ⟨?_, e1, hiff, ?_⟩
  · cases h1 : applyAll mt g rs with
    | err k => exact absurd h1 (e1 k)
    | pass => rw [hiff.1 h1]
    | fail its =>
      cases h2 : applyAll mt g rs' with
      | err k => exact absurd h2 (e2 k)
      | pass => rw [hiff.2 h2] at h1; cases h1
      | fail its' => rfl
  · rw [sameItems_iff, applyAll_items mt g rs hne, applyAll_items mt g rs' hne']
    apply flatMap_lrel
    · intro r hr
      obtain ⟨r', hr', e⟩ := h r hr
      exact ⟨r', hr', e.items⟩
    · intro r' hr'
      obtain ⟨r, hr, e⟩ := h' r' hr'
      exact ⟨r, hr, e.symm.items⟩

/-- **congruence of `diagramRules`** in the parse result: same module set, same dependency relation, unique keys and
    non-empty value lists on both sides; on every graph on which no rule generated from `q` errs, the rules generated
    from `p` do not err either, the outcome class is the same and the reports consist of the same lines (as sets, a
    `does not import` line listing its objects in any order) -/
theorem diagramRules_congr_lemma (mt : Str → Str → Bool) (g : PGraph Str) (so : Bool) (p q : Parsed')
    (hp : DepsOK p) (hq : DepsOK q)
    (hm : ∀ x, x ∈ p.modules ↔ x ∈ q.modules) (hd : ∀ x y, y ∈ p.depsOf x ↔ y ∈ q.depsOf x)
    (hne : ∀ r ∈ diagramRules so q, ∀ k, (assertApplies mt r g).2 ≠ .err k) :
    (applyAll mt g (diagramRules so p)).cls = (applyAll mt g (diagramRules so q)).cls ∧
      (∀ k, applyAll mt g (diagramRules so p) ≠ .err k) ∧
      (applyAll mt g (diagramRules so p) = .pass ↔ applyAll mt g (diagramRules so q) = .pass) ∧
      sameItems (applyAll mt g (diagramRules so p)).items (applyAll mt g (diagramRules so q)).items = true := by
  apply applyAll_sim mt g _ _ _ _ hne
  · intro r hr
    obtain ⟨r', hr', e⟩ := rules_sim so p q hp hm hd r hr
    exact ⟨r', hr', e mt g⟩
  · intro r hr
    obtain ⟨r', hr', e⟩ := rules_sim so q p hq (fun x => (hm x).symm) (fun x y => (hd x y).symm) r hr
    exact ⟨r', hr', e mt g⟩

/-! ### `with_base_module` keeps the invariants and the simulation -/

theorem depsOf_prefix (p : Parsed') (s x y : Str) :
    y ∈ (prefixParsed p (some s)).depsOf x ↔
      ∃ m v, x = prefixName s m ∧ y = prefixName s v ∧ v ∈ p.depsOf m := by
  constructor
  · intro h
    obtain ⟨kv, hkv, h1, _⟩ := entry_of_depsOf _ x y h
    rw [dependencies_prefix, List.mem_map] at hkv
    obtain ⟨e, _, rfl⟩ := hkv
    simp only at h1
    subst h1
    rw [depsOf_eq_importedOf, importedOf_prefix, List.mem_map] at h
    obtain ⟨v, hv, rfl⟩ := h
    exact ⟨e.1, v, rfl, rfl, hv⟩
  · rintro ⟨m, v, rfl, rfl, hv⟩
    rw [depsOf_eq_importedOf, importedOf_prefix]
    exact List.mem_map_of_mem hv

theorem prefix_sim (p q : Parsed') (s : Str) (hm : ∀ x, x ∈ p.modules ↔ x ∈ q.modules)
    (hd : ∀ x y, y ∈ p.depsOf x ↔ y ∈ q.depsOf x) :
    (∀ x, x ∈ (prefixParsed p (some s)).modules ↔ x ∈ (prefixParsed q (some s)).modules) ∧
    (∀ x y, y ∈ (prefixParsed p (some s)).depsOf x ↔ y ∈ (prefixParsed q (some s)).depsOf x) := by
  refine ⟨fun x => ?_, fun x y => ?_⟩
  · rw [modules_prefix, modules_prefix]
    exact sm_map _ hm x
  · rw [depsOf_prefix, depsOf_prefix]
    constructor
    · rintro ⟨m, v, h1, h2, h3⟩; exact ⟨m, v, h1, h2, (hd m v).1 h3⟩
    · rintro ⟨m, v, h1, h2, h3⟩; exact ⟨m, v, h1, h2, (hd m v).2 h3⟩

theorem depsOK_prefix (p : Parsed') (s : Str) (h : DepsOK p) : DepsOK (prefixParsed p (some s)) := by
  constructor
  · rw [dependencies_prefix, List.map_map]
    have : ((fun x : Str × List Str => x.1) ∘ fun kv : Str × List Str =>
        (prefixName s kv.1, kv.2.map (prefixName s))) = (prefixName s) ∘ (fun x => x.1) := rfl
    rw [this, ← List.map_map]
    have h1 := h.1
    unfold List.Nodup at h1 ⊢
    rw [List.pairwise_map]
    exact h1.imp fun hne e => hne (prefixName_inj s _ _ e)
  · intro kv hkv
    rw [dependencies_prefix, List.mem_map] at hkv
    obtain ⟨e, he, rfl⟩ := hkv
    intro hnil
    exact h.2 e he (List.map_eq_nil_iff.1 hnil)

/-! ### the specification diagram a rendered diagram means -/

theorem render_splitDots (s : Str) : render (splitDots s) = s := ExtNames.joinDots_splitDots s

/-- `D` lists the components and arrows `d` means (as sets; names split into components) -/
structure Means (d : List DLine) (D : Diagram) : Prop where
  comps : ∀ c, c ∈ D.components ↔ c ∈ (diagramComponents d).map splitDots
  arrows : ∀ e, e ∈ D.arrows ↔ e ∈ (diagramArrows d).map fun e => (splitDots e.1, splitDots e.2)

theorem depsOK_parsedOf (D : Diagram) : DepsOK (parsedOf D) := by
  have e : (parsedOf D).dependencies = addAll [] (D.arrows.map fun e => (render e.1, render e.2)) := by
    unfold parsedOf addAll
    rw [List.foldl_map]
  have := dictOK_addAll (D.arrows.map fun e => (render e.1, render e.2)) [] dictOK_nil
  rw [← e] at this
  exact ⟨this.1, fun kv hkv => (this.2 kv hkv).2⟩

theorem depsOf_parsedOf (D : Diagram) (x y : Str) :
    y ∈ (parsedOf D).depsOf x ↔ (x, y) ∈ D.arrows.map fun e => (render e.1, render e.2) :=
  mem_importedOf (parsedOf D) _ (groups_parsedOf D) x y

/-- a parse result with the content of `d` and the parse result `D` stands for have the same content -/
theorem parse_sim (d : List DLine) (D : Diagram) (hM : Means d D) (p : Parsed')
    (hpm : ∀ x, x ∈ p.modules ↔ x ∈ diagramComponents d)
    (hpd : ∀ x y, y ∈ p.depsOf x ↔ (x, y) ∈ diagramArrows d) :
    (∀ x, x ∈ p.modules ↔ x ∈ (parsedOf D).modules) ∧
    (∀ x y, y ∈ p.depsOf x ↔ y ∈ (parsedOf D).depsOf x) := by
  refine ⟨fun x => ?_, fun x y => ?_⟩
  · rw [hpm]
    show _ ↔ x ∈ D.components.map render
    rw [List.mem_map]
    constructor
    · intro h
      exact ⟨splitDots x, (hM.comps _).2 (List.mem_map_of_mem h), render_splitDots x⟩
    · rintro ⟨c, hc, rfl⟩
      obtain ⟨s, hs, rfl⟩ := List.mem_map.1 ((hM.comps c).1 hc)
      rw [render_splitDots]; exact hs
  · rw [hpd, depsOf_parsedOf, List.mem_map]
    constructor
    · intro h
      refine ⟨(splitDots x, splitDots y), (hM.arrows _).2 (List.mem_map.2 ⟨(x, y), h, rfl⟩), ?_⟩
      simp only [render_splitDots]
    · rintro ⟨e, he, h⟩
      obtain ⟨e0, he0, rfl⟩ := List.mem_map.1 ((hM.arrows e).1 he)
      simp only [render_splitDots] at h
      rw [← h]; exact he0

theorem noErr_of_decided {mt : Str → Str → Bool} {g : PGraph Str} {rs : List RuleState}
    (h : ∀ r ∈ rs, ∃ b, verdictOf mt g r = VClass.ofBool b) :
    ∀ r ∈ rs, ∀ k, (assertApplies mt r g).2 ≠ .err k := by
  intro r hr k hk
  obtain ⟨b, hb⟩ := h r hr
  unfold verdictOf at hb
  rw [hk] at hb
  cases b <;> cases hb

/-! ### the end-to-end statements -/

/-- a rendered diagram file, checked against any graph representing `a`: passes iff the imports conform to the
    diagram the file means; never an error -/
theorem file_conforms_lemma (mt : Str → Str → Bool) (a : Arch) (g : PGraph Str) (hg : GraphOf a g)
    (n1 n2 : Str) (d : List DLine) (hwf : diagramWF d = true) (hn : isInfix tagEnd n2 = false)
    (D : Diagram) (hM : Means d D) (so : Bool) (hdom : diagramDomain a D = true) :
    (diagramAssert mt (some (diagramText n1 d n2)) none so g = .pass ↔ conforms a D so = true) ∧
    (∀ k, diagramAssert mt (some (diagramText n1 d n2)) none so g ≠ .err k) ∧
    (diagramAssert mt (some (diagramText n1 d n2)) none so g).cls =
      (applyAll mt g (diagramRules so (parsedOf D))).cls ∧
    sameItems (diagramAssert mt (some (diagramText n1 d n2)) none so g).items
      (applyAll mt g (diagramRules so (parsedOf D))).items = true := by
  obtain ⟨p, hp, _, hpm, hpd, hk, hv⟩ := roundtrip_lemma n1 n2 d hwf hn
  obtain ⟨c1, _, c3⟩ := conforms_iff_lemma mt a g hg D so hdom
  obtain ⟨s1, s2⟩ := parse_sim d D hM p hpm hpd
  obtain ⟨e1, e2, e3, e4⟩ := diagramRules_congr_lemma mt g so p (parsedOf D) ⟨hk, fun kv h => (hv kv h).2⟩
    (depsOK_parsedOf D) s1 s2 (noErr_of_decided c3)
  -- in the domain the check of the repair (every component is a module) is a no-op
  rw [Pta.Repair.diagramAssert_of_noMissing mt g so _ none p hp (Pta.Repair.noMissing_of_modules a g hg D hdom p s1)]
  simp only [prefixParsed]
  exact ⟨e3.trans c1, e2, e1, e4⟩

/-- the same with `with_base_module(q)`: the file is read as if every component were written `q.name` -/
theorem file_conforms_base_lemma (mt : Str → Str → Bool) (a : Arch) (g : PGraph Str) (hg : GraphOf a g)
    (n1 n2 : Str) (d : List DLine) (hwf : diagramWF d = true) (hn : isInfix tagEnd n2 = false)
    (D : Diagram) (hM : Means d D) (q : Name) (hq : q ≠ []) (so : Bool)
    (hdom : diagramDomain a (prefixDiagram q D) = true) :
    (diagramAssert mt (some (diagramText n1 d n2)) (some (render q)) so g = .pass ↔
      conforms a (prefixDiagram q D) so = true) ∧
    (∀ k, diagramAssert mt (some (diagramText n1 d n2)) (some (render q)) so g ≠ .err k) ∧
    (diagramAssert mt (some (diagramText n1 d n2)) (some (render q)) so g).cls =
      (applyAll mt g (diagramRules so (parsedOf (prefixDiagram q D)))).cls ∧
    sameItems (diagramAssert mt (some (diagramText n1 d n2)) (some (render q)) so g).items
      (applyAll mt g (diagramRules so (parsedOf (prefixDiagram q D)))).items = true := by
  obtain ⟨p, hp, _, hpm, hpd, hk, hv⟩ := roundtrip_lemma n1 n2 d hwf hn
  obtain ⟨c1, _, c3⟩ := conforms_iff_lemma mt a g hg (prefixDiagram q D) so hdom
  obtain ⟨s1, s2⟩ := parse_sim d D hM p hpm hpd
  have hc : ∀ c ∈ D.components, c ≠ [] := by
    intro c hc
    obtain ⟨s, _, rfl⟩ := List.mem_map.1 ((hM.comps c).1 hc)
    exact splitDots_ne_nil s
  have ha : ∀ e ∈ D.arrows, e.1 ≠ [] ∧ e.2 ≠ [] := by
    intro e he
    obtain ⟨e0, _, rfl⟩ := List.mem_map.1 ((hM.arrows e).1 he)
    exact ⟨splitDots_ne_nil _, splitDots_ne_nil _⟩
  have hbase := base_module_diagram_lemma q D hq hc ha
  obtain ⟨t1, t2⟩ := prefix_sim p (parsedOf D) (render q) s1 s2
  rw [hbase] at t1 t2
  obtain ⟨e1, e2, e3, e4⟩ := diagramRules_congr_lemma mt g so (prefixParsed p (some (render q)))
    (parsedOf (prefixDiagram q D)) (depsOK_prefix p _ ⟨hk, fun kv h => (hv kv h).2⟩)
    (depsOK_parsedOf _) t1 t2 (noErr_of_decided c3)
  rw [Pta.Repair.diagramAssert_of_noMissing mt g so _ (some (render q)) p hp
    (Pta.Repair.noMissing_of_modules a g hg _ hdom _ t1)]
  exact ⟨e3.trans c1, e2, e1, e4⟩

/-! ### the two canonical meanings; the `hasDep` view of the relation; a checkable form of "no rule errs" -/

theorem means_specDiagramRaw (d : List DLine) : Means d (specDiagramRaw d) :=
  ⟨fun _ => Iff.rfl, fun _ => Iff.rfl⟩

theorem means_specDiagram (d : List DLine) : Means d (specDiagram d) :=
  ⟨fun c => mem_dedup _ c, fun _ => Iff.rfl⟩

/-- with unique keys, `hasDep` (some entry for `k` lists `v`) is membership in the lookup result -/
theorem hasDep_iff_depsOf (p : Parsed') (hk : (p.dependencies.map (·.1)).Nodup) (k v : Str) :
    p.hasDep k v = true ↔ v ∈ p.depsOf k := by
  unfold Parsed'.hasDep
  simp only [List.any_eq_true, Bool.and_eq_true, beq_iff_eq, List.contains_iff_mem]
  constructor
  · rintro ⟨e, he, rfl, hv⟩
    rw [depsOf_of_mem p hk e he]; exact hv
  · intro h
    obtain ⟨kv, hkv, h1, h2⟩ := entry_of_depsOf p k v h
    exact ⟨kv, hkv, h1, by rw [h2]; exact h⟩

theorem noErr_of_check (mt : Str → Str → Bool) (g : PGraph Str) (rs : List RuleState)
    (h : (rs.all fun r => ((assertApplies mt r g).2.errKind).isNone) = true) :
    ∀ r ∈ rs, ∀ k, (assertApplies mt r g).2 ≠ .err k := by
  intro r hr k hk
  have := List.all_eq_true.1 h r hr
  rw [hk] at this
  cases this

/-- `applyAll` does not raise iff no rule raises -/
theorem noErr_of_applyAll (mt : Str → Str → Bool) (g : PGraph Str) (rs : List RuleState)
    (h : ∀ k, applyAll mt g rs ≠ .err k) : ∀ r ∈ rs, ∀ k, (assertApplies mt r g).2 ≠ .err k := by
  intro r hr k hk
  obtain ⟨k1, _, h1, _⟩ := Pta.OrdD.applyAll_perm_err mt g rs rs (List.Perm.refl _) ⟨r, hr, k, hk⟩
  exact h k1 h1

/-- two rendered diagrams with the same meaning, any noise, any base module, ANY graph: if checking the second file
    does not raise, checking the first does not raise either, the outcome class is the same and the reports consist
    of the same lines -/
theorem file_same_meaning_lemma (mt : Str → Str → Bool) (g : PGraph Str) (so : Bool) (base : Option Str)
    (n1 n2 n1' n2' : Str) (d d' : List DLine) (hwf : diagramWF d = true) (hwf' : diagramWF d' = true)
    (hn : isInfix tagEnd n2 = false) (hn' : isInfix tagEnd n2' = false)
    (hc : ∀ x, x ∈ diagramComponents d ↔ x ∈ diagramComponents d')
    (ha : ∀ e, e ∈ diagramArrows d ↔ e ∈ diagramArrows d')
    (hne : ∀ k, diagramAssert mt (some (diagramText n1' d' n2')) base so g ≠ .err k) :
    (diagramAssert mt (some (diagramText n1 d n2)) base so g).cls =
      (diagramAssert mt (some (diagramText n1' d' n2')) base so g).cls ∧
    (∀ k, diagramAssert mt (some (diagramText n1 d n2)) base so g ≠ .err k) ∧
    sameItems (diagramAssert mt (some (diagramText n1 d n2)) base so g).items
      (diagramAssert mt (some (diagramText n1' d' n2')) base so g).items = true := by
  obtain ⟨p, hp, _, hpm, hpd, hk, hv⟩ := roundtrip_lemma n1 n2 d hwf hn
  obtain ⟨p', hp', _, hpm', hpd', hk', hv'⟩ := roundtrip_lemma n1' n2' d' hwf' hn'
  have s1 : ∀ x, x ∈ p.modules ↔ x ∈ p'.modules := fun x => by rw [hpm, hpm']; exact hc x
  have s2 : ∀ x y, y ∈ p.depsOf x ↔ y ∈ p'.depsOf x := fun x y => by rw [hpd, hpd']; exact ha (x, y)
  have o1 : DepsOK p := ⟨hk, fun kv h => (hv kv h).2⟩
  have o2 : DepsOK p' := ⟨hk', fun kv h => (hv' kv h).2⟩
  -- the second check does not raise: no component is missing there, and the first file draws the same components
  have hm' := Pta.Repair.noMissing_of_noErr mt g so _ base p' hp' hne
  have hm : diagramMissing (prefixParsed p base) g = false := by
    rw [← hm']
    apply Pta.Repair.diagramMissing_congr
    cases base with
    | none => exact s1
    | some b => exact (prefix_sim p p' b s1 s2).1
  rw [Pta.Repair.diagramAssert_of_noMissing mt g so _ base p' hp' hm'] at hne ⊢
  rw [Pta.Repair.diagramAssert_of_noMissing mt g so _ base p hp hm]
  cases base with
  | none =>
    obtain ⟨e1, e2, _, e4⟩ := diagramRules_congr_lemma mt g so p p' o1 o2 s1 s2 (noErr_of_applyAll mt g _ hne)
    exact ⟨e1, e2, e4⟩
  | some b =>
    obtain ⟨t1, t2⟩ := prefix_sim p p' b s1 s2
    obtain ⟨e1, e2, _, e4⟩ := diagramRules_congr_lemma mt g so _ _ (depsOK_prefix p b o1) (depsOK_prefix p' b o2)
      t1 t2 (noErr_of_applyAll mt g _ hne)
    exact ⟨e1, e2, e4⟩

theorem sameParse_of_check (p q : Parsed') (h : sameParseB p q = true) :
    (∀ x, x ∈ p.modules ↔ x ∈ q.modules) ∧ (∀ x y, y ∈ p.depsOf x ↔ y ∈ q.depsOf x) := by
  unfold sameParseB at h
  simp only [Bool.and_eq_true, List.all_eq_true, List.contains_iff_mem, List.mem_append, List.mem_map] at h
  obtain ⟨⟨h1, h2⟩, h3⟩ := h
  refine ⟨fun x => ⟨h1 x, h2 x⟩, fun x y => ⟨fun hy => ?_, fun hy => ?_⟩⟩
  · obtain ⟨kv, hkv, hk, _⟩ := entry_of_depsOf p x y hy
    exact (h3 x (.inl ⟨kv, hkv, hk⟩)).1 y hy
  · obtain ⟨kv, hkv, hk, _⟩ := entry_of_depsOf q x y hy
    exact (h3 x (.inr ⟨kv, hkv, hk⟩)).2 y hy

theorem sm_of_check {α : Type} [DecidableEq α] (l l' : List α)
    (h : (l.all l'.contains && l'.all l.contains) = true) : ∀ x, x ∈ l ↔ x ∈ l' := by
  simp only [Bool.and_eq_true, List.all_eq_true, List.contains_iff_mem] at h
  exact fun x => ⟨h.1 x, h.2 x⟩

end Pta.E2E
