/-
  PtaProofs.Lemmas.E2EMore — glue for the further end-to-end theorems of Props/E2E.lean:
  * `quotientOf_of_flatten`: a graph `g` whose nodes / hierarchy pairs / import pairs are the flattened ones of a graph
    `g0` of a well-formed architecture `a` (the shape of the scan-level quotient theorems of C09) is a
    `QuotientOf a (some j) g`;
  * `noDownward_of_graphOf`: a graph of a well-formed architecture has no import from a module into its own subtree;
  * `verdict_of_quotient`: C01 ∘ C09 on any `QuotientOf` graph;
  * `scan_limit_lemma`: the composition for scans with `level_limit = k`;
  * `nodes_perm_lemma`, `labels_perm_lemma`: the node list of a scan graph is a permutation of the rendered
    specification modules, hence the plot labels are a permutation of the documented labelling.
-/
import Bridge.Abs
import Bridge.Quotient
import Bridge.ScanAbs
import Bridge.ScanTree
import Bridge.ScanLimit
import PtaProofs.Lemmas.Render
import PtaProofs.Lemmas.BuildNames
import PtaProofs.Lemmas.Build
import PtaProofs.Lemmas.BuildGen
import PtaProofs.Lemmas.SearchChar
import PtaProofs.Lemmas.Semantics
import PtaProofs.Lemmas.LimitVerdict
import PtaProofs.Lemmas.ExtScan
import PtaProofs.Lemmas.ScanGraph
import PtaProofs.Lemmas.ScanLimit
import PtaProofs.Lemmas.E2ERule
import PtaProofs.Lemmas.GlobLabel
namespace Pta
namespace E2EMore
open PtaSpec

/-! ### edge lists and adjacency -/

theorem importPairs_iff_succs (g : PGraph Str) (u v : Str) : (u, v) ∈ g.importPairs ↔ v ∈ g.importSuccs u := by
  rw [ExtScan.mem_importPairs, BuildMain.mem_importSuccs]

theorem hierPairs_iff_children (g : PGraph Str) (u v : Str) : (u, v) ∈ g.hierPairs ↔ v ∈ g.hierChildren u := by
  rw [ExtScan.mem_hierPairs, BuildMain.mem_hierChildren]

/-! ### truncation facts -/

theorem fl_render (a : Arch) (hwf : a.wf = true) (j : Nat) (n : Name) (hn : n ∈ a.nodes) :
    flattenNode (some j) (render n) = render (trunc (some j) n) :=
  flattenNode_render j n (BuildNames.wf_nodes a hwf n hn)

theorem dropLast_mem (a : Arch) (hwf : a.wf = true) (c : Name) (hc : c ∈ a.nodes) (h2 : 2 ≤ c.length) :
    c.dropLast ∈ a.nodes := by
  rw [List.dropLast_eq_take]
  exact BuildNames.wf_prefix a hwf c hc _ (by omega) (by omega)

theorem trunc_mem (a : Arch) (hwf : a.wf = true) (j : Nat) (c : Name) (hc : c ∈ a.nodes) :
    trunc (some j) c ∈ a.nodes := by
  show c.take (j + 1) ∈ a.nodes
  by_cases h : j + 1 ≤ c.length
  · exact BuildNames.wf_prefix a hwf c hc _ (by omega) h
  · rw [List.take_of_length_le (by omega)]; exact hc

theorem render_ne_of_ne (x y : Name) (hx : nameWF x = true) (hy : nameWF y = true) (h : x ≠ y) :
    render x ≠ render y := fun e => h (render_injective x y hx hy e)

/-! ### from the scan-level description to `QuotientOf` -/

theorem quotientOf_of_flatten (a : Arch) (hwf : a.wf = true) (g g0 : PGraph Str) (j : Nat) (hg0 : GraphOf a g0)
    (hn : ∀ s, s ∈ g.nodes ↔ ∃ n ∈ g0.nodes, s = flattenNode (some j) n)
    (hh : ∀ x y, (x, y) ∈ g.hierPairs ↔
      ∃ u v, (u, v) ∈ g0.hierPairs ∧ x = flattenNode (some j) u ∧ y = flattenNode (some j) v ∧ x ≠ y)
    (hi : ∀ x y, (x, y) ∈ g.importPairs ↔
      x ≠ y ∧ ∃ u v, (u, v) ∈ g0.importPairs ∧ x = flattenNode (some j) u ∧ y = flattenNode (some j) v) :
    QuotientOf a (some j) g := by
  have hsuccs : ∀ s x, x ∈ g.importSuccs s ↔
      ∃ e ∈ a.imports, trunc (some j) e.1 ≠ trunc (some j) e.2 ∧ s = render (trunc (some j) e.1) ∧
        x = render (trunc (some j) e.2) := by
    intro s x
    rw [← importPairs_iff_succs, hi]
    constructor
    · rintro ⟨hne, u, v, huv, rfl, rfl⟩
      rw [importPairs_iff_succs, hg0.succs] at huv
      obtain ⟨e, he, rfl, rfl⟩ := huv
      obtain ⟨h1, h2, -, -⟩ := BuildNames.wf_import a hwf e he
      rw [fl_render a hwf j _ h1, fl_render a hwf j _ h2] at hne ⊢
      exact ⟨e, he, fun h => hne (by rw [h]), rfl, rfl⟩
    · rintro ⟨e, he, hne, rfl, rfl⟩
      obtain ⟨h1, h2, -, -⟩ := BuildNames.wf_import a hwf e he
      refine ⟨render_ne_of_ne _ _ (BuildNames.nameWF_trunc _ _ (BuildNames.wf_nodes a hwf _ h1))
        (BuildNames.nameWF_trunc _ _ (BuildNames.wf_nodes a hwf _ h2)) hne, render e.1, render e.2, ?_,
        (fl_render a hwf j _ h1).symm, (fl_render a hwf j _ h2).symm⟩
      rw [importPairs_iff_succs, hg0.succs]
      exact ⟨e, he, rfl, rfl⟩
  refine ⟨?_, ?_, hsuccs, ?_⟩
  · intro s
    rw [BuildGen.hasNode_iff, hn]
    constructor
    · rintro ⟨t, ht, rfl⟩
      obtain ⟨n, hnn, rfl⟩ := (hg0.nodes t).1 ((BuildGen.hasNode_iff _ _).2 ht)
      exact ⟨n, hnn, fl_render a hwf j n hnn⟩
    · rintro ⟨n, hnn, rfl⟩
      exact ⟨render n, (BuildGen.hasNode_iff _ _).1 ((hg0.nodes _).2 ⟨n, hnn, rfl⟩), (fl_render a hwf j n hnn).symm⟩
  · intro s x
    rw [← hierPairs_iff_children, hh]
    constructor
    · rintro ⟨u, v, huv, rfl, rfl, hne⟩
      rw [hierPairs_iff_children, hg0.hier] at huv
      obtain ⟨c, hc, h2, rfl, rfl⟩ := huv
      have hd := dropLast_mem a hwf c hc h2
      rw [fl_render a hwf j _ hd, fl_render a hwf j _ hc] at hne ⊢
      have hlen : c.length ≤ j + 1 := by
        apply Nat.le_of_not_lt
        intro hlt
        apply hne
        show render (c.dropLast.take (j + 1)) = render (c.take (j + 1))
        rw [List.dropLast_eq_take, List.take_take, Nat.min_eq_left (by omega)]
      have e1 : trunc (some j) c = c := List.take_of_length_le hlen
      have e2 : trunc (some j) c.dropLast = c.dropLast :=
        List.take_of_length_le (by rw [List.length_dropLast]; omega)
      refine ⟨c, hc, by rw [e1]; exact h2, ?_, rfl⟩
      rw [e1, e2]
    · rintro ⟨c, hc, h2, rfl, rfl⟩
      have hc' := trunc_mem a hwf j c hc
      have hlen : (trunc (some j) c).length ≤ j + 1 := by
        show (c.take (j + 1)).length ≤ j + 1
        rw [List.length_take]; omega
      have hd := dropLast_mem a hwf _ hc' h2
      refine ⟨render (trunc (some j) c).dropLast, render (trunc (some j) c), ?_, ?_, ?_, ?_⟩
      · rw [hierPairs_iff_children, hg0.hier]
        exact ⟨_, hc', h2, rfl, rfl⟩
      · rw [fl_render a hwf j _ hd]
        congr 1
        exact (List.take_of_length_le (by rw [List.length_dropLast]; omega)).symm
      · rw [fl_render a hwf j _ hc']
        congr 1
        exact (List.take_of_length_le hlen).symm
      · apply render_ne_of_ne _ _ (BuildNames.wf_nodes a hwf _ hd) (BuildNames.wf_nodes a hwf _ hc')
        intro e
        have := congrArg List.length e
        rw [List.length_dropLast] at this
        omega
  · intro s x
    rw [Pta.mem_importPreds_iff, hsuccs]

/-- a graph of a well-formed architecture has no import edge from a module into its own dotted subtree -/
theorem noDownward_of_graphOf (a : Arch) (hwf : a.wf = true) (g0 : PGraph Str) (hg0 : GraphOf a g0) :
    noDownwardImports g0 = true := by
  unfold noDownwardImports
  rw [List.all_eq_true]
  rintro ⟨u, v⟩ huv
  rw [importPairs_iff_succs, hg0.succs] at huv
  obtain ⟨e, he, rfl, rfl⟩ := huv
  obtain ⟨h1, h2, -, h4⟩ := BuildNames.wf_import a hwf e he
  show (!isStrictSub (render e.1) (render e.2)) = true
  rw [isStrictSub_render _ _ (BuildNames.wf_nodes a hwf _ h1) (BuildNames.wf_nodes a hwf _ h2), h4]
  rfl

/-! ### C01 ∘ C09 on any quotient graph -/

theorem verdict_of_quotient (mt : Str → Str → Bool) (a : Arch) (hwf : a.wf = true) (k : Nat) (g : PGraph Str)
    (q : QuotientOf a (some k) g)
    (r : RuleSpec) (hstrict : r.strict = true) (hnames : r.namesIn a = true)
    (hs : r.subjects ≠ []) (ho : r.anything = true ∨ r.objects ≠ [])
    (hany : r.anything = true → r.verb = .shouldNot)
    (habove : ruleAbove k r = true) :
    verdictOf mt g (compile r) = VClass.ofBool (verdict a r) := by
  rw [verdict_spec_of_graph_lemma mt (truncArch (some k) a) g (graphOf_truncArch a (some k) g q)
        (truncArch_wf (some k) a hwf) r hstrict (namesIn_trunc k a r hnames habove) hs ho hany,
      verdict_trunc k a r hstrict habove hany]

/-! ### scans with a level limit -/

section
variable (mt : Str → Str → Bool) (base root : Str) (mp : List Str) (entries : List Entry) (o : ScanOptions)
  (hwf : treeWFFor (isExcluded mt o.exclusions) base mp entries = true) (hmp : mpOK entries mp = true)
  (hroot : compWF root = true)
  (hxx : o.excludeExternal = true) (hext : o.externalExclusions.isEmpty = true)
  (hst : ∀ e ∈ entries, ∀ st ∈ e.stmts, stmtOK (toSStmt st) = true)
  (is : List (Name × Name))
  (his : scanImports root (toSEntries (isExcluded mt o.exclusions) base entries) mp = some is)
include hwf hmp hroot hxx hext hst his

/-- the scan WITHOUT the limit succeeds with a graph of the specification architecture (whatever `o.levelLimit` is) -/
theorem scan_noLimit_lemma :
    ∃ g0, generateGraph mt base root mp entries o.noLimit = .ok g0 ∧
      (Arch.mk (scanModules root (toSEntries (isExcluded mt o.exclusions) base entries) mp) is).wf = true ∧
      GraphOf (Arch.mk (scanModules root (toSEntries (isExcluded mt o.exclusions) base entries) mp) is) g0 :=
  E2ERule.scan_spec_arch_lemma mt base root mp entries o.noLimit hwf hmp hroot hxx rfl hext hst is his

/-- with `level_limit = k` the scan succeeds as well, and its graph is the quotient of the specification architecture
    under truncation to `k + |module_path|` levels below the root -/
theorem scan_limit_lemma (k : Nat) (hlim : o.levelLimit = some k) :
    ∃ g g0, generateGraph mt base root mp entries o = .ok g ∧
      generateGraph mt base root mp entries o.noLimit = .ok g0 ∧
      (Arch.mk (scanModules root (toSEntries (isExcluded mt o.exclusions) base entries) mp) is).wf = true ∧
      GraphOf (Arch.mk (scanModules root (toSEntries (isExcluded mt o.exclusions) base entries) mp) is) g0 ∧
      QuotientOf (Arch.mk (scanModules root (toSEntries (isExcluded mt o.exclusions) base entries) mp) is)
        (some (k + mp.length)) g := by
  obtain ⟨g0, hg0, hawf, hG0⟩ := scan_noLimit_lemma mt base root mp entries o hwf hmp hroot hxx hext hst is his
  cases hgen : generateGraph mt base root mp entries o with
  | error e =>
    have := (ScanLimit.error_indep_lemma mt base root mp entries o e).1 hgen
    rw [hg0] at this
    cases this
  | ok g =>
    refine ⟨g, g0, rfl, hg0, hawf, hG0, ?_⟩
    obtain ⟨q1, q2, q3, q4, -, q6⟩ := ScanLimit.scan_quotient_lemma mt base root mp entries o g g0 hgen hg0
    rw [ScanLimit.shiftedLimit_some o mp k hlim] at q1 q2 q3 q6
    have hdown := noDownward_of_graphOf _ hawf g0 hG0
    apply quotientOf_of_flatten _ hawf g g0 (k + mp.length) hG0 q1 q2
    intro x y
    constructor
    · intro hxy
      exact ⟨(q4 x y hxy).1, q6 x y hxy⟩
    · rintro ⟨hne, u, v, huv, rfl, rfl⟩
      apply q3
      refine ⟨hne, ?_, u, v, huv, rfl, rfl⟩
      have := ScanLimit.no_collision_lemma mt base root mp entries o g0 hg0 hdown u v huv
      rw [ScanLimit.shiftedLimit_some o mp k hlim] at this
      exact this

end

/-! ### node list and plot labels of a scan graph -/

section
variable (mt : Str → Str → Bool) (base root : Str) (mp : List Str) (entries : List Entry) (o : ScanOptions)
  (hwf : treeWFFor (isExcluded mt o.exclusions) base mp entries = true) (hmp : mpOK entries mp = true)
  (hroot : compWF root = true)
  (hxx : o.excludeExternal = true) (hlim : o.levelLimit = none) (g : PGraph Str)
  (h : generateGraph mt base root mp entries o = .ok g)
include hwf hmp hroot hxx hlim h

/-- the node list of the scan graph, read back as component lists, is a permutation of the specification's modules -/
theorem nodes_perm_lemma :
    (g.nodes.map splitDots).Perm (scanModules root (toSEntries (isExcluded mt o.exclusions) base entries) mp) ∧
    (g.nodes.map splitDots).map render = g.nodes ∧
    ∀ n ∈ scanModules root (toSEntries (isExcluded mt o.exclusions) base entries) mp, nameWF n = true := by
  obtain ⟨a, han, hawf, hg, hnd⟩ := ScanGraph.scan_graph_lemma mt base root mp entries o hwf hmp hroot hxx hlim g h
  have hmem : ∀ s, s ∈ g.nodes ↔ ∃ n ∈ a.nodes, s = render n := by
    intro s; rw [← BuildGen.hasNode_iff, hg.nodes]
  have hwfn : ∀ n ∈ a.nodes, nameWF n = true := fun n hn => BuildNames.wf_nodes a hawf n hn
  have hback : (g.nodes.map splitDots).map render = g.nodes := by
    rw [List.map_map]
    conv => rhs; rw [← List.map_id g.nodes]
    apply List.map_congr_left
    intro s hs
    obtain ⟨n, hn, rfl⟩ := (hmem s).1 hs
    simp only [Function.comp_def, id]
    rw [splitDots_render n (hwfn n hn)]
  refine ⟨?_, hback, fun n hn => hwfn n (by rw [han]; exact hn)⟩
  show (g.nodes.map splitDots).Perm (ScanGraph.specModules mt base root mp entries o)
  rw [← han]
  apply (List.perm_ext_iff_of_nodup ?_ ?_).2
  · intro n
    rw [List.mem_map]
    constructor
    · rintro ⟨s, hs, rfl⟩
      obtain ⟨m, hm, rfl⟩ := (hmem s).1 hs
      rw [splitDots_render m (hwfn m hm)]; exact hm
    · intro hn
      exact ⟨render n, (hmem _).2 ⟨n, hn, rfl⟩, splitDots_render n (hwfn n hn)⟩
  · have : ((g.nodes.map splitDots).map render).Nodup := by rw [hback]; exact hnd
    exact (List.pairwise_map.1 this).imp fun hne e => hne (by rw [e])
  · rw [han]; exact ScanGraph.scanModules_nodup _ _ _

/-- plot labels of a scan graph: for aliases of scanned modules `plotLabels` succeeds, labels every node once (in the
    graph's node order), and the labelling is — up to that order — the documented one on the specification's modules -/
theorem labels_perm_lemma (al : Aliases) (hk : (al.map (·.1)).Nodup)
    (hex : ∀ a ∈ al, a.1 ∈ scanModules root (toSEntries (isExcluded mt o.exclusions) base entries) mp) :
    ∃ ls, plotLabels g.nodes (al.map fun a => (render a.1, a.2)) = .ok ls ∧
      ls.map (·.1) = g.nodes ∧
      ls.Perm ((scanModules root (toSEntries (isExcluded mt o.exclusions) base entries) mp).map
        fun n => (render n, PtaSpec.label al n)) := by
  obtain ⟨hp, hback, hwfn⟩ := nodes_perm_lemma mt base root mp entries o hwf hmp hroot hxx hlim g h
  have hl := labels_spec_lemma (g.nodes.map splitDots) al
    (fun n hn => hwfn n (hp.mem_iff.1 hn)) hk (fun a ha => hp.mem_iff.2 (hex a ha))
  rw [hback] at hl
  refine ⟨_, hl, ?_, hp.map _⟩
  rw [List.map_map]
  exact hback

end

end E2EMore
end Pta
