/-
  PtaProofs.Lemmas.OrderScan — `generate_graph` does not depend on the order in which the file system enumerates
  directory entries (namespace `Pta.OrdS`): the walk returns permuted module / file lists, the import conversion
  returns the same error or import lists with the same members, the external filters keep member sets, and the graph
  constructor only looks at member sets (`OrdB.buildGraph_equiv`; its two side conditions hold for every scan:
  importers are parsed files, and `ImportConverter` builds every import with the parents of its importee).
-/
import Bridge.Abs
import PtaProofs.Lemmas.OrderCongr
import PtaProofs.Lemmas.OrderBuild
namespace Pta.OrdS
open Pta PtaSpec Pta.Ord

/-! ### generic: `mapM` / `foldlM` in `Except` -/

theorem mapM_error_mem {α β : Type} (f : α → Except ErrKind β) (l : List α) (e : ErrKind)
    (h : l.mapM f = .error e) : ∃ x ∈ l, f x = .error e := by
  induction l with
  | nil => simp [List.mapM_nil, pure, Except.pure] at h
  | cons a l ih =>
    rw [List.mapM_cons] at h
    cases hfa : f a with
    | error e' =>
      rw [hfa] at h
      simp only [bind, Except.bind] at h
      cases h
      exact ⟨a, by simp, hfa⟩
    | ok b =>
      rw [hfa] at h
      simp only [bind, Except.bind] at h
      cases hr : l.mapM f with
      | error e' =>
        rw [hr] at h
        simp only at h
        cases h
        obtain ⟨x, hx, hxe⟩ := ih hr
        exact ⟨x, List.mem_cons_of_mem _ hx, hxe⟩
      | ok r =>
        rw [hr] at h
        simp [pure, Except.pure] at h

theorem mapM_ok_mem {α β : Type} (f : α → Except ErrKind β) (l : List α) (r : List β)
    (h : l.mapM f = .ok r) : ∀ y ∈ r, ∃ x ∈ l, f x = .ok y := by
  induction l generalizing r with
  | nil =>
    simp only [List.mapM_nil, pure, Except.pure, Except.ok.injEq] at h
    subst h; intro y hy; cases hy
  | cons a l ih =>
    rw [List.mapM_cons] at h
    cases hfa : f a with
    | error e' => rw [hfa] at h; simp [bind, Except.bind] at h
    | ok b =>
      rw [hfa] at h
      simp only [bind, Except.bind] at h
      cases hr : l.mapM f with
      | error e' => rw [hr] at h; simp at h
      | ok r' =>
        rw [hr] at h
        simp only [pure, Except.pure, Except.ok.injEq] at h
        subst h
        intro y hy
        rcases List.mem_cons.1 hy with rfl | hy
        · exact ⟨a, by simp, hfa⟩
        · obtain ⟨x, hx, hxy⟩ := ih r' hr y hy
          exact ⟨x, List.mem_cons_of_mem _ hx, hxy⟩

/-- accumulating `foldlM` = `mapM` followed by concatenation -/
theorem foldlM_append_eq {α β : Type} (h : α → Except ErrKind (List β)) (l : List α) (init : List β) :
    l.foldlM (fun acc x => do let r ← h x; pure (acc ++ r)) init = (l.mapM h).map (fun rs => init ++ rs.flatten) := by
  induction l generalizing init with
  | nil => simp [List.mapM_nil, pure, Except.pure, Except.map]
  | cons a l ih =>
    rw [List.foldlM_cons, List.mapM_cons]
    cases hfa : h a with
    | error e => simp [bind, Except.bind, Except.map]
    | ok b =>
      show List.foldlM _ (init ++ b) l = Except.map _ (do let bs ← l.mapM h; pure (b :: bs))
      rw [ih]
      cases l.mapM h <;> simp [Except.map, bind, Except.bind, pure, Except.pure]

/-! ### the walk -/

theorem maxDepth_perm {entries entries' : List Entry} (h : entries.Perm entries') : maxDepth entries = maxDepth entries' := by
  unfold maxDepth
  have key : ∀ (l l' : List Entry), l.Perm l' → ∀ m : Nat,
      l.foldl (fun m e => max m e.rel.length) m = l'.foldl (fun m e => max m e.rel.length) m := by
    intro l l' hp
    induction hp with
    | nil => intro m; rfl
    | cons x _ ih => intro m; simp only [List.foldl_cons]; exact ih _
    | swap x y l =>
      intro m
      simp only [List.foldl_cons]
      congr 1
      omega
    | trans _ _ ih1 ih2 => intro m; rw [ih1, ih2]
  exact key _ _ h 0

theorem foldl_append_files {γ : Type} (f : γ → Parsed) (l : List γ) (init : Parsed) :
    (l.foldl (fun acc c => acc.append (f c)) init).files = init.files ++ l.flatMap (fun c => (f c).files) := by
  induction l generalizing init with
  | nil => simp
  | cons x xs ih =>
    rw [List.foldl_cons, ih]
    simp [Parsed.append]

theorem perm_dir_files (excl : Str → Bool) (base rootName : Str) (entries entries' : List Entry) (h : entries.Perm entries')
    (fuel : Nat) (e : Entry) :
    (parseWalk excl base rootName entries fuel e).files.Perm (parseWalk excl base rootName entries' fuel e).files := by
  induction fuel generalizing e with
  | zero => simp [parseWalk]
  | succ n ih =>
    unfold parseWalk
    simp only
    split
    · split
      · exact List.Perm.refl _
      · rw [foldl_append_files, foldl_append_files]
        apply List.Perm.append_left
        refine ((h.filter _).flatMap_right _).trans ?_
        exact flatMap_perm_left _ _ _ (fun c _ => ih c)
    · exact List.Perm.refl _

/-- every parsed file is a parsed module -/
theorem files_sub_modules (excl : Str → Bool) (base rootName : Str) (entries : List Entry) (fuel : Nat) (e : Entry) :
    ∀ f ∈ (parseWalk excl base rootName entries fuel e).files,
      f.1 ∈ (parseWalk excl base rootName entries fuel e).allModules := by
  induction fuel generalizing e with
  | zero => intro f hf; simp [parseWalk] at hf
  | succ n ih =>
    unfold parseWalk
    simp only
    split
    · split
      · intro f hf; cases hf
      · rw [foldl_append_files, foldl_append_allModules]
        intro f hf
        simp only [List.nil_append, List.mem_flatMap] at hf
        obtain ⟨c, hc, hfc⟩ := hf
        apply List.mem_append_right
        exact List.mem_flatMap.2 ⟨c, hc, ih c f hfc⟩
    · split
      · intro f hf; cases hf
      · split
        · intro f hf
          simp only [List.mem_singleton] at hf
          subst hf
          simp
        · intro f hf; cases hf

/-! ### import conversion -/

theorem relativeImportee_err (importer name : Str) (level : Nat) (e : ErrKind)
    (h : relativeImportee importer name level = .error e) : e = .lookupError := by
  unfold relativeImportee at h
  simp only at h
  split at h
  · cases h; rfl
  · split at h
    · cases h
    · cases h; rfl

/-- an import as `ImportConverter` builds it: with the parents of its importee -/
def IsAbs (importer : Str) (i : ImportRec) : Prop := ∃ t, i = absImport importer t

theorem convertStmt_spec (importer ap : Str) (internal : List Str) (st : ImportStmt) :
    (∀ e, convertStmt importer ap internal st = .error e → e = .lookupError) ∧
    (∀ r, convertStmt importer ap internal st = .ok r → ∀ i ∈ r, IsAbs importer i) := by
  unfold convertStmt
  split
  · refine ⟨fun e h => (by cases h), fun r h i hi => ?_⟩
    cases h
    obtain ⟨n, -, rfl⟩ := List.mem_map.1 hi
    exact ⟨_, rfl⟩
  · split
    · refine ⟨fun e h => (by cases h; rfl), fun r h => (by cases h)⟩
    · refine ⟨fun e h => (by cases h), fun r h i hi => ?_⟩
      cases h
      obtain ⟨n, -, rfl⟩ := List.mem_map.1 hi
      simp only
      split <;> exact ⟨_, rfl⟩
  · rename_i module names level _
    constructor
    · intro e h
      obtain ⟨n, -, hn⟩ := mapM_error_mem _ _ _ h
      cases module with
      | none =>
        simp only at hn
        cases h1 : relativeImportee importer n level with
        | error e1 =>
          rw [h1] at hn
          simp only [bind, Except.bind] at hn
          cases hn
          exact relativeImportee_err _ _ _ _ h1
        | ok v1 =>
          rw [h1] at hn
          simp [bind, Except.bind, pure, Except.pure] at hn
      | some m =>
        simp only at hn
        cases h1 : relativeImportee importer m level with
        | error e1 =>
          rw [h1] at hn
          simp only [bind, Except.bind] at hn
          cases hn
          exact relativeImportee_err _ _ _ _ h1
        | ok v1 =>
          rw [h1] at hn
          simp only [bind, Except.bind] at hn
          cases h2 : relativeImportee importer (m ++ '.' :: n) level with
          | error e2 =>
            rw [h2] at hn
            simp only at hn
            cases hn
            exact relativeImportee_err _ _ _ _ h2
          | ok v2 =>
            rw [h2] at hn
            simp [pure, Except.pure] at hn
    · intro r h i hi
      obtain ⟨n, -, hn⟩ := mapM_ok_mem _ _ _ h i hi
      cases module with
      | none =>
        simp only at hn
        cases h1 : relativeImportee importer n level with
        | error e1 =>
          rw [h1] at hn
          simp [bind, Except.bind] at hn
        | ok v1 =>
          rw [h1] at hn
          simp only [bind, Except.bind, pure, Except.pure, Except.ok.injEq] at hn
          exact ⟨_, hn.symm⟩
      | some m =>
        simp only at hn
        cases h1 : relativeImportee importer m level with
        | error e1 =>
          rw [h1] at hn
          simp [bind, Except.bind] at hn
        | ok v1 =>
          rw [h1] at hn
          simp only [bind, Except.bind] at hn
          cases h2 : relativeImportee importer (m ++ '.' :: n) level with
          | error e2 =>
            rw [h2] at hn
            simp at hn
          | ok v2 =>
            rw [h2] at hn
            simp only [pure, Except.pure, Except.ok.injEq] at hn
            rw [← hn]
            split <;> exact ⟨_, rfl⟩

theorem contains_congr {l l' : List Str} (h : SM l l') (x : Str) : l.contains x = l'.contains x := by
  rw [Bool.eq_iff_iff]; simp only [List.contains_iff_mem]; exact h x

theorem convertStmt_congr (importer ap : Str) (internal internal' : List Str) (h : SM internal internal') (st : ImportStmt) :
    convertStmt importer ap internal st = convertStmt importer ap internal' st := by
  have hc : ∀ x, internal.contains x = internal'.contains x := contains_congr h
  unfold convertStmt adjustWithRootPrefix
  simp only [hc]

/-- the imports of one file -/
def convFile (ap : Str) (internal : List Str) (f : Str × List ImportStmt) : Except ErrKind (List ImportRec) :=
  (f.2.mapM (convertStmt f.1 ap internal)).map List.flatten

theorem convertAll_eq (parsed : Parsed) (ap : Str) (internal : List Str) :
    convertAll parsed ap internal = (parsed.files.mapM (convFile ap internal)).map List.flatten := by
  unfold convertAll
  have hin : ∀ f : Str × List ImportStmt,
      (f.2.foldlM (fun acc2 st => do let r ← convertStmt f.1 ap internal st; pure (acc2 ++ r)) []) =
        convFile ap internal f := by
    intro f
    rw [foldlM_append_eq]
    unfold convFile
    simp
  simp only [hin]
  rw [foldlM_append_eq]
  simp

theorem convFile_spec (ap : Str) (internal : List Str) (f : Str × List ImportStmt) :
    (∀ e, convFile ap internal f = .error e → e = .lookupError) ∧
    (∀ r, convFile ap internal f = .ok r → ∀ i ∈ r, IsAbs f.1 i) := by
  unfold convFile
  constructor
  · intro e h
    cases hm : f.2.mapM (convertStmt f.1 ap internal) with
    | ok r => rw [hm] at h; simp [Except.map] at h
    | error e' =>
      rw [hm] at h
      simp only [Except.map, Except.error.injEq] at h
      subst h
      obtain ⟨st, -, hst⟩ := mapM_error_mem _ _ _ hm
      exact (convertStmt_spec f.1 ap internal st).1 _ hst
  · intro r h i hi
    cases hm : f.2.mapM (convertStmt f.1 ap internal) with
    | error e' => rw [hm] at h; simp [Except.map] at h
    | ok rs =>
      rw [hm] at h
      simp only [Except.map, Except.ok.injEq] at h
      subst h
      obtain ⟨r0, hr0, hir0⟩ := List.mem_flatten.1 hi
      obtain ⟨st, -, hst⟩ := mapM_ok_mem _ _ _ hm r0 hr0
      exact (convertStmt_spec f.1 ap internal st).2 _ hst i hir0

theorem convFile_congr (ap : Str) (internal internal' : List Str) (h : SM internal internal') (f : Str × List ImportStmt) :
    convFile ap internal f = convFile ap internal' f := by
  unfold convFile
  have : convertStmt f.1 ap internal = convertStmt f.1 ap internal' := funext (convertStmt_congr f.1 ap _ _ h)
  rw [this]

/-- every converted import belongs to a parsed file and carries the parents of its importee -/
theorem convertAll_ok_mem (parsed : Parsed) (ap : Str) (internal : List Str) (r : List ImportRec)
    (h : convertAll parsed ap internal = .ok r) : ∀ i ∈ r, ∃ f ∈ parsed.files, IsAbs f.1 i := by
  rw [convertAll_eq] at h
  cases hm : parsed.files.mapM (convFile ap internal) with
  | error e' => rw [hm] at h; simp [Except.map] at h
  | ok rs =>
    rw [hm] at h
    simp only [Except.map, Except.ok.injEq] at h
    subst h
    intro i hi
    obtain ⟨r0, hr0, hir0⟩ := List.mem_flatten.1 hi
    obtain ⟨f, hf, hfr⟩ := mapM_ok_mem _ _ _ hm r0 hr0
    exact ⟨f, hf, (convFile_spec ap internal f).2 _ hfr i hir0⟩

theorem ERel.map_rel {α β α' β' : Type} {R : α → β → Prop} {S : α' → β' → Prop}
    {x : Except ErrKind α} {y : Except ErrKind β} (k : α → α') (k' : β → β')
    (h : ERel R x y) (hk : ∀ a b, R a b → S (k a) (k' b)) : ERel S (x.map k) (y.map k') := by
  cases x <;> cases y <;> simp_all [ERel, Except.map]

/-- the conversion of permuted file lists with equivalent internal-module lists: the same error, or import lists with
    the same members -/
theorem convertAll_congr (parsed parsed' : Parsed) (ap : Str) (internal internal' : List Str)
    (hf : SM parsed.files parsed'.files) (hi : SM internal internal') :
    ERel SM (convertAll parsed ap internal) (convertAll parsed' ap internal') := by
  rw [convertAll_eq, convertAll_eq]
  have hfun : convFile ap internal' = convFile ap internal := funext fun f => (convFile_congr ap _ _ hi f).symm
  rw [hfun]
  have := mapM_congr (convFile ap internal) (convFile ap internal) (fun a b => a = b) .lookupError
    parsed.files parsed'.files hf
    (fun x _ => by cases convFile ap internal x <;> simp [ERel])
    (fun x _ e he => (convFile_spec ap internal x).1 e he)
  refine ERel.map_rel _ _ this ?_
  intro a b hab x
  simp only [List.mem_flatten]
  constructor
  · rintro ⟨l, hl, hx⟩
    obtain ⟨l', hl', rfl⟩ := hab.1 l hl
    exact ⟨l, hl', hx⟩
  · rintro ⟨l, hl, hx⟩
    obtain ⟨l', hl', rfl⟩ := hab.2 l hl
    exact ⟨l', hl', hx⟩

/-! ### the external filters -/

theorem SM.filter {α : Type} {l l' : List α} (h : SM l l') (p : α → Bool) : SM (l.filter p) (l'.filter p) := by
  intro x; simp only [List.mem_filter, h x]

theorem SM.append {α : Type} {a a' b b' : List α} (h1 : SM a a') (h2 : SM b b') : SM (a ++ b) (a' ++ b') := by
  intro x; simp only [List.mem_append, h1 x, h2 x]

theorem SM.flatMap {α β : Type} {l l' : List α} (h : SM l l') (f : α → List β) : SM (l.flatMap f) (l'.flatMap f) := by
  intro x
  simp only [List.mem_flatMap]
  constructor
  · rintro ⟨a, ha, hx⟩; exact ⟨a, (h a).1 ha, hx⟩
  · rintro ⟨a, ha, hx⟩; exact ⟨a, (h a).2 ha, hx⟩

theorem retainImports_congr (mt : Str → Str → Bool) (o : ScanOptions) (pre : Str) (l l' : List ImportRec) (h : SM l l') :
    SM (retainImports mt o pre l) (retainImports mt o pre l') := by
  unfold retainImports
  simp only
  split
  · exact h
  · split <;> exact SM.filter h _

theorem retainImports_sub (mt : Str → Str → Bool) (o : ScanOptions) (pre : Str) (l : List ImportRec) :
    ∀ i ∈ retainImports mt o pre l, i ∈ l := by
  unfold retainImports
  simp only
  intro i hi
  split at hi
  · exact hi
  · split at hi <;> exact (List.mem_filter.1 hi).1

theorem moduleList_congr (mt : Str → Str → Bool) (base : Str) (o : ScanOptions) (pre : Str) (ms ms' : List Str)
    (is is' : List ImportRec) (hm : SM ms ms') (hi : SM is is') :
    SM (moduleList mt base o pre ms is) (moduleList mt base o pre ms' is') := by
  unfold moduleList
  split
  · exact hm
  · simp only
    have hall : SM (dedup (ms ++ List.flatMap (fun i => i.importee :: i.importeeParents)
          (List.filter (fun i => !isInternal i.importee pre) is)))
        (dedup (ms' ++ List.flatMap (fun i => i.importee :: i.importeeParents)
          (List.filter (fun i => !isInternal i.importee pre) is'))) :=
      SM.dedup (SM.append hm (SM.flatMap (SM.filter hi _) _))
    split
    · exact hall
    · have hc : ms.contains = ms'.contains := funext (contains_congr hm)
      rw [hc]
      exact SM.filter hall _

theorem moduleList_sup (mt : Str → Str → Bool) (base : Str) (o : ScanOptions) (pre : Str) (ms : List Str)
    (is : List ImportRec) : ∀ m ∈ ms, m ∈ moduleList mt base o pre ms is := by
  intro m hm
  unfold moduleList
  split
  · exact hm
  · simp only
    have h1 : m ∈ dedup (ms ++ List.flatMap (fun i => i.importee :: i.importeeParents)
          (List.filter (fun i => !isInternal i.importee pre) is)) :=
      (Pta.mem_dedup _ _).2 (List.mem_append_left _ hm)
    split
    · exact h1
    · refine List.mem_filter.2 ⟨h1, ?_⟩
      simp [hm]

/-! ### the scan -/

/-- two scans of the same tree, the directory entries enumerated in different orders: the same error, or graphs with
    the same nodes, hierarchy edges and import edges -/
theorem scan_graph_perm (mt : Str → Str → Bool) (base rootName : Str) (mp : List Str) (entries entries' : List Entry)
    (o : ScanOptions) (h : entries.Perm entries') :
    ERel GraphEquiv (generateGraph mt base rootName mp entries o) (generateGraph mt base rootName mp entries' o) := by
  unfold generateGraph scanParsed
  simp only
  rw [← maxDepth_perm h]
  generalize maxDepth entries + 2 = fuel
  generalize hp : parseWalk (isExcluded mt o.exclusions) base rootName entries fuel { rel := mp, isDir := true } = p
  generalize hp' : parseWalk (isExcluded mt o.exclusions) base rootName entries' fuel { rel := mp, isDir := true } = p'
  have hmods : SM p.allModules p'.allModules := by
    rw [← hp, ← hp']; exact SM.of_perm (perm_dir_entries _ base rootName entries entries' h fuel _)
  have hfiles : SM p.files p'.files := by
    rw [← hp, ← hp']; exact SM.of_perm (perm_dir_files _ base rootName entries entries' h fuel _)
  have hsub : ∀ f ∈ p.files, f.1 ∈ p.allModules := by
    rw [← hp]; exact files_sub_modules _ base rootName entries fuel _
  have hint := SM.filter hmods (fun m => isInternal m (internalPrefix rootName mp))
  have hconv := convertAll_congr p p' (absolutePrefix rootName mp) _ _ hfiles hint
  cases hc : convertAll p (absolutePrefix rootName mp)
      (List.filter (fun m => isInternal m (internalPrefix rootName mp)) p.allModules) with
  | error e =>
    rw [hc] at hconv
    rw [hconv.error_left]
    simp [ERel, bind, Except.bind]
  | ok r =>
    rw [hc] at hconv
    obtain ⟨r', hr', hrr⟩ := hconv.ok_left
    rw [hr']
    simp only [bind, Except.bind, pure, Except.pure, ERel]
    have hmem := convertAll_ok_mem p _ _ r hc
    apply OrdB.buildGraph_equiv
    · exact moduleList_congr mt base o _ _ _ _ _ hmods (retainImports_congr mt o _ _ _ hrr)
    · exact retainImports_congr mt o _ _ _ hrr
    · intro i hi
      obtain ⟨f, hf, t, rfl⟩ := hmem i (retainImports_sub mt o _ _ i hi)
      exact moduleList_sup mt base o _ _ _ _ (hsub f hf)
    · intro i hi
      obtain ⟨f, hf, t, rfl⟩ := hmem i (retainImports_sub mt o _ _ i hi)
      rfl

end Pta.OrdS
