/-
  PtaProofs.Lemmas.OrderReport — the MESSAGE of a rule (the literal list of lines, not only the verdict class) does not
  depend on the order in which subjects, objects, layers or graph elements were listed (namespace `Pta.OrdR`; the
  `…_lemma`s at the end are in `Pta`).

  Module rules: the eight buckets depend on the converted subject / object lists and on the graph only as SETS
  (`VioRel`, Lemmas/DiagramItems.lean, here generalised to two equivalent graphs), the generator's lines are a function
  of the bucket sets (`reportLines_sm`), and `sorted(set(lines))` is a function of the set of lines (`canon_ext`).
  Layer rules: the same with `MapRel` (Lemmas/OrderLayer.lean) for the layer mapping.
-/
import Bridge.Abs
import Bridge.Message
import PtaProofs.Lemmas.OrderCongr
import PtaProofs.Lemmas.OrderLayer
import PtaProofs.Lemmas.DiagramItems
import PtaProofs.Lemmas.MessageText
import PtaProofs.Lemmas.MessageTextLayer
import PtaProofs.Lemmas.AnythingDedup
namespace Pta.OrdR
open Pta PtaSpec Pta.Ord Pta.OrdS Pta.Itm

/-! ### the three queries on two equivalent graphs -/

theorem getDependencies_krel {g g' : PGraph Str} (h : GraphEquiv g g') (A A' B B' : List Filter)
    (hA : SM A A') (hB : SM B B') :
    ERel (LRel KRel) (getDependencies g A B) (getDependencies g' A' B') := by
  unfold getDependencies
  apply mapM_congr _ _ _ .lookupError
  · rintro ⟨f, o⟩
    simp only [List.mem_flatMap, List.mem_map, mem_dedup, Prod.mk.injEq]
    constructor
    · rintro ⟨f', hf, o', ho, rfl, rfl⟩; exact ⟨f', (hA _).1 hf, o', (hB _).1 ho, rfl, rfl⟩
    · rintro ⟨f', hf, o', ho, rfl, rfl⟩; exact ⟨f', (hA _).2 hf, o', (hB _).2 ho, rfl, rfl⟩
  · intro fo _
    exact (depBetween_congr h fo.1 fo.2).bind_pure _ _ (fun a b hab => ⟨rfl, hab⟩)
  · intro fo _ e he
    exact Pta.Hist.depBetween_err _ _ _ _ (Pta.Hist.bind_pure_err _ _ _ he)

theorem getOtherFrom_krel {g g' : PGraph Str} (h : GraphEquiv g g') (A A' B B' : List Filter)
    (hA : SM A A') (hB : SM B B') :
    ERel (LRel KRel) (getOtherFrom g A B) (getOtherFrom g' A' B') := by
  unfold getOtherFrom
  apply mapM_congr _ _ _ .lookupError
  · exact hA.dedup
  · intro f _
    exact (otherFrom_congr h f _ _ hB.dedup).bind_pure _ _ (fun a b hab => ⟨rfl, hab⟩)
  · intro f _ e he
    exact Pta.Hist.otherFrom_err _ _ _ _ (Pta.Hist.bind_pure_err _ _ _ he)

theorem getOtherTo_krel {g g' : PGraph Str} (h : GraphEquiv g g') (A A' B B' : List Filter)
    (hA : SM A A') (hB : SM B B') :
    ERel (LRel KRel) (getOtherTo g A B) (getOtherTo g' A' B') := by
  unfold getOtherTo
  apply mapM_congr _ _ _ .lookupError
  · exact hB.dedup
  · intro o _
    exact (otherTo_congr h _ _ o hA.dedup).bind_pure _ _ (fun a b hab => ⟨rfl, hab⟩)
  · intro o _ e he
    exact Pta.Hist.otherTo_err _ _ _ _ (Pta.Hist.bind_pure_err _ _ _ he)

theorem runQueries_krel {g g' : PGraph Str} (h : GraphEquiv g g') (b : Behavior) (ir : Bool) (S S' O O' : List Filter)
    (hS : SM S S') (hO : SM O O') :
    ERel QRelK (runQueries g b ir S O) (runQueries g' b ir S' O') := by
  unfold runQueries
  cases ir
  · exact Itm.runQ_aux _ _ _ _ _ _ (getDependencies_krel h _ _ _ _ hO hS) (getOtherTo_krel h _ _ _ _ hO hS)
  · exact Itm.runQ_aux _ _ _ _ _ _ (getDependencies_krel h _ _ _ _ hS hO) (getOtherFrom_krel h _ _ _ _ hS hO)

/-! ### the lines are a function of the bucket SETS -/

theorem dedup_perm_of_sm {α : Type} [DecidableEq α] {l l' : List α} (h : SM l l') : (dedup l).Perm (dedup l') := by
  rw [List.perm_ext_iff_of_nodup (OrdL.dedup_nodup l) (OrdL.dedup_nodup l')]
  exact h.dedup

/-- the `does not import` line of one subject depends on the bucket as a set -/
theorem missLineOf_congr (any ir : Bool) (ds ds' : List Dep) (h : SM ds ds') (s : Mod) :
    missLineOf any ir ds s = missLineOf any ir ds' s := by
  unfold missLineOf
  rw [renderItem_miss, renderItem_miss]
  have hp : (dedup ((ds.filter fun d => d.1 = s).map (·.2))).Perm (dedup ((ds'.filter fun d => d.1 = s).map (·.2))) :=
    dedup_perm_of_sm (sm_map _ (SM.filter h _))
  rw [sortStr_eq_of_perm _ _ (hp.map objText)]

theorem missLines_sm (any ir : Bool) (ds ds' : List Dep) (h : SM ds ds') :
    SM ((missItems any ir ds).map renderItem) ((missItems any ir ds').map renderItem) := by
  rw [missItems_render, missItems_render]
  intro x
  simp only [List.mem_map, mem_dedup]
  constructor
  · rintro ⟨s, ⟨d, hd, rfl⟩, rfl⟩
    exact ⟨_, ⟨d, (h d).1 hd, rfl⟩, (missLineOf_congr any ir ds ds' h _).symm⟩
  · rintro ⟨s, ⟨d, hd, rfl⟩, rfl⟩
    exact ⟨_, ⟨d, (h d).2 hd, rfl⟩, missLineOf_congr any ir ds ds' h _⟩

theorem impLines_sm (ir : Bool) (ds ds' : List Dep) (h : SM ds ds') :
    SM ((impItems ir ds).map renderItem) ((impItems ir ds').map renderItem) := by
  unfold impItems
  exact sm_map _ (sm_map _ h)

/-- the rendered report items of two bucket families that agree as sets are the same set of lines -/
theorem reportLines_sm (ir : Bool) (v v' : Violations) (h : VioRel v v') :
    SM ((reportItems ir v).map renderItem) ((reportItems ir v').map renderItem) := by
  unfold reportItems
  simp only [List.map_append]
  exact SM.append (SM.append (SM.append (SM.append (SM.append (SM.append (SM.append
    (missLines_sm _ _ _ _ h.h1) (impLines_sm _ _ _ h.h2)) (missLines_sm _ _ _ _ h.h3))
    (impLines_sm _ _ _ h.h4)) (missLines_sm _ _ _ _ h.h5)) (impLines_sm _ _ _ h.h6))
    (missLines_sm _ _ _ _ h.h7)) (impLines_sm _ _ _ h.h8)

/-- … hence literally the same message -/
theorem renderItems_congr (ir : Bool) (v v' : Violations) (h : VioRel v v') :
    renderItems (reportItems ir v) = renderItems (reportItems ir v') := by
  unfold renderItems
  exact canon_ext _ _ (reportLines_sm ir v v' h)

theorem messageLines_congr (ir : Bool) (v v' : Violations) (h : VioRel v v') :
    messageLines ir v = messageLines ir v' := by
  rw [messageLines_eq_lemma, messageLines_eq_lemma, renderItems_congr ir v v' h]

/-! ### `matchRule` / `assertApplies`, outcome with message text -/

theorem matchRule_text_congr (mt : Str → Str → Bool) {g g' : PGraph Str} (h : GraphEquiv g g') (b : Behavior) (ir : Bool)
    (ss ss' os os' : List Filter) (hs : SM ss ss') (ho : SM os os') :
    (matchRule mt g b ir ss os).toText = (matchRule mt g' b ir ss' os').toText := by
  unfold matchRule
  have c1 := convertFilters_congr mt g.nodes g'.nodes ss ss' h.nodes hs
  have c2 := convertFilters_congr mt g.nodes g'.nodes os os' h.nodes ho
  cases hS : convertFilters mt g.nodes ss with
  | error k => rw [hS] at c1; simp only [c1.error_left]
  | ok S =>
    rw [hS] at c1
    obtain ⟨S', hS', hSS⟩ := c1.ok_left
    rw [hS']
    cases hO : convertFilters mt g.nodes os with
    | error k => rw [hO] at c2; simp only [c2.error_left]
    | ok O =>
      rw [hO] at c2
      obtain ⟨O', hO', hOO⟩ := c2.ok_left
      rw [hO']
      simp only []
      have c3 := runQueries_krel h b ir S S' O O' hSS hOO
      cases hq : runQueries g b ir S O with
      | error k => rw [hq] at c3; simp only [c3.error_left]
      | ok eo =>
        rw [hq] at c3
        obtain ⟨eo', hq', hr⟩ := c3.ok_left
        rw [hq']
        obtain ⟨expl, other⟩ := eo
        obtain ⟨expl', other'⟩ := eo'
        simp only
        have hv := detect_rel b ir expl expl' other other' _ _ (sm_map Filter.toMod hOO) hr.1 hr.2
        rw [hv.any_eq]
        split
        · simp only [Verdict.toText, renderItems_congr ir _ _ hv]
        · rfl

/-- two rule configurations that differ only in the order (and multiplicity) in which subjects, objects and the
    subjects removed by an earlier alias conversion are listed -/
structure CfgRel (c c' : RuleConfig) : Prop where
  subjects : ORel SM c.subjects c'.subjects
  objects : ORel SM c.objects c'.objects
  dropped : SM c.dropped c'.dropped
  should : c.should = c'.should
  shouldOnly : c.shouldOnly = c'.shouldOnly
  shouldNot : c.shouldNot = c'.shouldNot
  exceptPresent : c.exceptPresent = c'.exceptPresent
  importDir : c.importDir = c'.importDir
  anything : c.anything = c'.anything

theorem CfgRel.refl (c : RuleConfig) : CfgRel c c := by
  refine ⟨?_, ?_, SM.refl _, rfl, rfl, rfl, rfl, rfl, rfl⟩
  · cases c.subjects <;> simp [ORel, SM.refl]
  · cases c.objects <;> simp [ORel, SM.refl]

theorem any_congr {α : Type} {l l' : List α} (h : SM l l') (p : α → Bool) : l.any p = l'.any p := by
  rw [Bool.eq_iff_iff, List.any_eq_true, List.any_eq_true]
  constructor
  · rintro ⟨x, hx, hp⟩; exact ⟨x, (h x).1 hx, hp⟩
  · rintro ⟨x, hx, hp⟩; exact ⟨x, (h x).2 hx, hp⟩

theorem dedupSubjects_sm {fs fs' : List Filter} (h : SM fs fs') : SM (dedupSubjects fs) (dedupSubjects fs') := by
  intro x
  unfold dedupSubjects
  simp only [List.mem_filter, h x, any_congr h]

theorem contains_congr' {α : Type} [BEq α] [LawfulBEq α] {l l' : List α} (h : SM l l') (x : α) :
    l.contains x = l'.contains x := by
  rw [Bool.eq_iff_iff]; simp only [List.contains_iff_mem]; exact h x

theorem droppedSubjects_sm {fs fs' : List Filter} (h : SM fs fs') : SM (droppedSubjects fs) (droppedSubjects fs') := by
  intro x
  unfold droppedSubjects
  simp only [List.mem_filter, h x, contains_congr' (dedupSubjects_sm h)]

theorem convertAliases_rel {c c' : RuleConfig} (h : CfgRel c c') : CfgRel (convertAliases c) (convertAliases c') := by
  unfold convertAliases
  rw [← h.anything]
  cases c.anything with
  | false => exact h
  | true =>
    simp only [Bool.not_true, Bool.false_eq_true, if_false]
    have hs := h.subjects
    rcases c with ⟨s, _, _, _, _, _, _, _, _⟩
    rcases c' with ⟨s', _, _, _, _, _, _, _, _⟩
    cases s <;> cases s' <;> simp only [ORel] at hs
    · exact ⟨trivial, trivial, SM.refl _, h.should, h.shouldOnly, h.shouldNot, rfl, h.importDir, rfl⟩
    · exact ⟨dedupSubjects_sm hs, dedupSubjects_sm hs, droppedSubjects_sm hs, h.should, h.shouldOnly, h.shouldNot, rfl,
        h.importDir, rfl⟩

theorem configMissing_congr {c c' : RuleConfig} (h : CfgRel c c') : configMissing c = configMissing c' := by
  have h1 := h.subjects
  have h2 := h.objects
  unfold configMissing
  rw [h.should, h.shouldOnly, h.shouldNot, h.importDir]
  rcases c with ⟨s, o, _, _, _, _, _, _, _⟩
  rcases c' with ⟨s', o', _, _, _, _, _, _, _⟩
  simp only at h1 h2 ⊢
  cases s <;> cases s' <;> simp only [ORel] at h1 <;> cases o <;> cases o' <;> simp only [ORel] at h2 <;>
    first
      | rfl
      | simp only [isEmpty_congr (SM.nil_iff h1), isEmpty_congr (SM.nil_iff h2)]
      | simp only [isEmpty_congr (SM.nil_iff h1)]
      | simp only [isEmpty_congr (SM.nil_iff h2)]

theorem droppedAbsent_congr' {g g' : PGraph Str} (hg : GraphEquiv g g') {c c' : RuleConfig} (h : CfgRel c c') :
    droppedAbsent g c = droppedAbsent g' c' := by
  unfold droppedAbsent
  rw [any_congr h.dropped]
  congr 1
  funext f
  rw [hasNode_congr hg]

theorem behavior_congr {c c' : RuleConfig} (h : CfgRel c c') : c.behavior = c'.behavior := by
  unfold RuleConfig.behavior
  rw [h.should, h.shouldOnly, h.shouldNot, h.exceptPresent]

/-- the outcome (class AND message lines) of `assert_applies` depends on the graph only through its node / edge sets and
    on the rule configuration only through the sets of subjects and objects -/
theorem assertApplies_text_congr (mt : Str → Str → Bool) {g g' : PGraph Str} (hg : GraphEquiv g g') (s s' : RuleState)
    (h : CfgRel s.cfg s'.cfg) :
    (assertApplies mt s g).2.toText = (assertApplies mt s' g').2.toText := by
  have hm : anythingMisused s.cfg = anythingMisused s'.cfg := by
    unfold anythingMisused; rw [h.anything, h.shouldNot]
  have hc := convertAliases_rel h
  unfold assertApplies
  rw [← hm]
  split
  · rfl
  · simp only []
    rw [← configMissing_congr hc]
    split
    · rfl
    · rw [← droppedAbsent_congr' hg hc]
      split
      · rfl
      · rw [← behavior_congr hc]
        split
        · rfl
        · have h1 := hc.subjects
          have h2 := hc.objects
          have h3 := hc.importDir
          have hb := behavior_congr hc
          generalize (convertAliases s.cfg).behavior = b at hb ⊢
          generalize convertAliases s.cfg = c at h1 h2 h3 ⊢
          generalize convertAliases s'.cfg = c' at h1 h2 h3 ⊢
          rcases c with ⟨subjects, objects, _, _, _, _, importDir, _, _⟩
          rcases c' with ⟨subjects', objects', _, _, _, _, importDir', _, _⟩
          simp only at h1 h2 h3
          subst h3
          cases subjects <;> cases subjects' <;> simp only [ORel] at h1 <;>
            cases objects <;> cases objects' <;> simp only [ORel] at h2 <;>
            cases importDir <;> simp only [Verdict.toText]
          exact matchRule_text_congr mt hg _ _ _ _ _ _ h1 h2

/-! ### layer rules: the lines are a function of the bucket sets and of what the detector sees of the mapping -/

theorem optStrLe_total (a b : Option Str) (h : optStrLe a b = false) : optStrLe b a = true := by
  match a, b, h with
  | none, _, h => exact absurd h (by simp [optStrLe])
  | some _, none, _ => rfl
  | some a, some b, h => exact strLe_total a b h

theorem optStrLe_trans (a b c : Option Str) (h1 : optStrLe a b = true) (h2 : optStrLe b c = true) : optStrLe a c = true := by
  match a, b, c, h1, h2 with
  | none, _, _, _, _ => rfl
  | some _, none, _, h1, _ => exact absurd h1 (by simp [optStrLe])
  | some _, some _, none, _, h2 => exact absurd h2 (by simp [optStrLe])
  | some a, some b, some c, h1, h2 => exact strLe_trans a b c h1 h2

theorem optStrLe_antisymm (a b : Option Str) (h1 : optStrLe a b = true) (h2 : optStrLe b a = true) : a = b := by
  match a, b, h1, h2 with
  | none, none, _, _ => rfl
  | none, some _, _, h2 => exact absurd h2 (by simp [optStrLe])
  | some _, none, h1, _ => exact absurd h1 (by simp [optStrLe])
  | some a, some b, h1, h2 => rw [strLe_antisymm a b h1 h2]

/-- lines of two lists of layer report items agree as sets -/
def LinesSM (its its' : List LItem) : Prop := SM (its.map renderLItem) (its'.map renderLItem)

theorem LinesSM.append {a a' b b' : List LItem} (h1 : LinesSM a a') (h2 : LinesSM b b') : LinesSM (a ++ b) (a' ++ b') := by
  unfold LinesSM
  rw [List.map_append, List.map_append]
  exact SM.append h1 h2

theorem missOfPairsL_lines (any ir : Bool) (ls ls' : List (Option Str × Option Str)) (h : SM ls ls') :
    LinesSM (missOfPairsL any ir ls) (missOfPairsL any ir ls') := by
  have key : ∀ s, renderLItem (LItem.miss any s (dedup ((ls.filter fun d => d.1 = s).map (·.2))) (!ir)) =
      renderLItem (LItem.miss any s (dedup ((ls'.filter fun d => d.1 = s).map (·.2))) (!ir)) := by
    intro s
    rw [renderLItem_miss, renderLItem_miss]
    have hp : (dedup ((ls.filter fun d => d.1 = s).map (·.2))).Perm (dedup ((ls'.filter fun d => d.1 = s).map (·.2))) :=
      dedup_perm_of_sm (sm_map _ (SM.filter h _))
    rw [sortBy_eq_of_perm optStrLe optStrLe_total optStrLe_trans optStrLe_antisymm _ _ hp]
  intro x
  unfold missOfPairsL
  simp only [List.mem_map, mem_dedup]
  constructor
  · rintro ⟨it, ⟨s, ⟨d, hd, rfl⟩, rfl⟩, rfl⟩
    exact ⟨_, ⟨_, ⟨d, (h d).1 hd, rfl⟩, rfl⟩, (key _).symm⟩
  · rintro ⟨it, ⟨s, ⟨d, hd, rfl⟩, rfl⟩, rfl⟩
    exact ⟨_, ⟨_, ⟨d, (h d).2 hd, rfl⟩, rfl⟩, key _⟩

theorem missItemsL_eq (m : LayerMap) (any ir : Bool) (ds : List Dep) :
    missItemsL m any ir ds =
      (ds.mapM fun d => do
        let a ← m.layerOf d.1.id
        let b ← m.layerOf d.2.id
        pure (a, b)) >>= fun ls => pure (missOfPairsL any ir ls) := rfl

theorem missItemsL_lines {m m' : LayerMap} (hm : OrdL.MapRel m m') (any ir : Bool) {ds ds' : List Dep} (h : SM ds ds') :
    ERel LinesSM (missItemsL m any ir ds) (missItemsL m' any ir ds') := by
  rw [missItemsL_eq, missItemsL_eq]
  refine OrdL.ERel.bind (OrdL.mapM_rel _ _ (fun a b => a = b) (fun a b => a = b) .layerMismatch ds ds' (OrdL.LRel.of_SM h) ?_ ?_ ?_)
    (fun ls ls' hl => missOfPairsL_lines any ir ls ls' (OrdL.LRel.to_SM hl))
  · intro x _ x' _ hxx
    subst hxx
    simp only [← hm.1]
    exact OrdL.ERel.refl_eq _
  · intro x _
    exact OrdL.ErrOnly.bind (OrdL.layerOf_errOnly _ _) fun _ => OrdL.ErrOnly.bind (OrdL.layerOf_errOnly _ _) fun _ => OrdL.ErrOnly.pure _
  · intro x _
    exact OrdL.ErrOnly.bind (OrdL.layerOf_errOnly _ _) fun _ => OrdL.ErrOnly.bind (OrdL.layerOf_errOnly _ _) fun _ => OrdL.ErrOnly.pure _

theorem impItemsL_lines {m m' : LayerMap} (hm : OrdL.MapRel m m') (ir : Bool) {ds ds' : List Dep} (h : SM ds ds') :
    ERel LinesSM (impItemsL m ir ds) (impItemsL m' ir ds') := by
  unfold impItemsL
  refine (OrdL.mapM_rel _ _ (fun a b => a = b) (fun a b => a = b) .layerMismatch ds ds' (OrdL.LRel.of_SM h) ?_ ?_ ?_).mono
    (fun its its' hl => sm_map _ (OrdL.LRel.to_SM hl))
  · intro x _ x' _ hxx
    subst hxx
    simp only [← hm.1]
    exact OrdL.ERel.refl_eq _
  · intro x _
    exact OrdL.ErrOnly.bind (OrdL.layerOf_errOnly _ _) fun _ => OrdL.ErrOnly.bind (OrdL.layerOf_errOnly _ _) fun _ => OrdL.ErrOnly.pure _
  · intro x _
    exact OrdL.ErrOnly.bind (OrdL.layerOf_errOnly _ _) fun _ => OrdL.ErrOnly.bind (OrdL.layerOf_errOnly _ _) fun _ => OrdL.ErrOnly.pure _

theorem reportItemsL_lines {m m' : LayerMap} (hm : OrdL.MapRel m m') (ir : Bool) {v v' : Violations} (h : OrdL.VRel v v') :
    ERel LinesSM (reportItemsL m ir v) (reportItemsL m' ir v') := by
  obtain ⟨h1, h2, h3, h4, h5, h6, h7, h8⟩ := h
  unfold reportItemsL
  refine OrdL.ERel.bind (missItemsL_lines hm false ir h1) fun _ _ r1 => ?_
  refine OrdL.ERel.bind (impItemsL_lines hm ir h2) fun _ _ r2 => ?_
  refine OrdL.ERel.bind (missItemsL_lines hm false ir h3) fun _ _ r3 => ?_
  refine OrdL.ERel.bind (impItemsL_lines hm ir h4) fun _ _ r4 => ?_
  refine OrdL.ERel.bind (missItemsL_lines hm true ir h5) fun _ _ r5 => ?_
  refine OrdL.ERel.bind (impItemsL_lines hm ir h6) fun _ _ r6 => ?_
  refine OrdL.ERel.bind (missItemsL_lines hm true ir h7) fun _ _ r7 => ?_
  refine OrdL.ERel.bind (impItemsL_lines hm ir h8) fun _ _ r8 => ?_
  exact ((((((r1.append r2).append r3).append r4).append r5).append r6).append r7).append r8

theorem renderLItems_congr {its its' : List LItem} (h : LinesSM its its') : renderLItems its = renderLItems its' := by
  unfold renderLItems
  exact canon_ext _ _ h

/-! ### the rule's layer mapping over two node lists with the same members -/

/-- entries with the same layer name listing the same identifiers -/
def EntryRel (l l' : Str × List Str) : Prop := l.1 = l'.1 ∧ SM l.2 l'.2

/-- element-wise related lists -/
inductive ListRel {α : Type} (R : α → α → Prop) : List α → List α → Prop
  | nil : ListRel R [] []
  | cons {a b : α} {l l' : List α} : R a b → ListRel R l l' → ListRel R (a :: l) (b :: l')

theorem forall₂_lrel {α : Type} {R : α → α → Prop} {l l' : List α} (h : ListRel R l l') : LRel R l l' := by
  induction h with
  | nil => exact ⟨fun _ hy => absurd hy (List.not_mem_nil), fun _ hy => absurd hy (List.not_mem_nil)⟩
  | cons hab _ ih =>
    constructor
    · intro y hy
      rcases List.mem_cons.1 hy with rfl | hy
      · exact ⟨_, List.mem_cons_self, hab⟩
      · obtain ⟨y', hy', r⟩ := ih.1 y hy; exact ⟨y', List.mem_cons_of_mem _ hy', r⟩
    · intro y hy
      rcases List.mem_cons.1 hy with rfl | hy
      · exact ⟨_, List.mem_cons_self, hab⟩
      · obtain ⟨y', hy', r⟩ := ih.2 y hy; exact ⟨y', List.mem_cons_of_mem _ hy', r⟩

theorem layerOfListed_rel {m m' : LayerMap} (h : ListRel EntryRel m m') (id : Str) :
    m.layerOfListed id = m'.layerOfListed id := by
  unfold LayerMap.layerOfListed
  rw [← List.getLast?_map, ← List.getLast?_map]
  congr 1
  induction h with
  | nil => rfl
  | cons hab _ ih =>
    simp only [List.filter_cons]
    rw [contains_congr hab.2 id]
    split
    · simp only [List.map_cons, hab.1, ih]
    · exact ih

theorem listed_rel {m m' : LayerMap} (h : ListRel EntryRel m m') : SM m.listed m'.listed := by
  have hl := forall₂_lrel h
  intro x
  unfold LayerMap.listed
  simp only [List.mem_flatMap]
  constructor
  · rintro ⟨l, hl', hx⟩; obtain ⟨l', h1, r⟩ := hl.1 l hl'; exact ⟨l', h1, (r.2 x).1 hx⟩
  · rintro ⟨l, hl', hx⟩; obtain ⟨l', h1, r⟩ := hl.2 l hl'; exact ⟨l', h1, (r.2 x).2 hx⟩

theorem sm_filterMap {α β : Type} {l l' : List α} (h : SM l l') (f : α → Option β) : SM (l.filterMap f) (l'.filterMap f) := by
  intro x
  simp only [List.mem_filterMap]
  constructor
  · rintro ⟨a, ha, hx⟩; exact ⟨a, (h a).1 ha, hx⟩
  · rintro ⟨a, ha, hx⟩; exact ⟨a, (h a).2 ha, hx⟩

theorem layerOf_rel {m m' : LayerMap} (h : ListRel EntryRel m m') (name : Str) : m.layerOf name = m'.layerOf name := by
  unfold LayerMap.layerOf
  rw [layerOfListed_rel h name]
  cases m'.layerOfListed name with
  | some l => rfl
  | none =>
    simp only
    have hfun : m.layerOfListed = m'.layerOfListed := funext (layerOfListed_rel h)
    rw [hfun]
    have hperm : (dedup (List.filterMap m'.layerOfListed (List.filter (fun c => isStrictSub c name) m.listed))).Perm
        (dedup (List.filterMap m'.layerOfListed (List.filter (fun c => isStrictSub c name) m'.listed))) :=
      dedup_perm_of_sm (sm_filterMap (SM.filter (listed_rel h) _) _)
    generalize dedup (List.filterMap m'.layerOfListed (List.filter (fun c => isStrictSub c name) m.listed)) = d at hperm
    generalize dedup (List.filterMap m'.layerOfListed (List.filter (fun c => isStrictSub c name) m'.listed)) = d' at hperm
    cases d with
    | nil => have := hperm.nil_eq; subst this; rfl
    | cons x t =>
      cases t with
      | nil => have := List.singleton_perm.1 hperm; subst this; rfl
      | cons y r =>
        cases d' with
        | nil => exact absurd hperm.eq_nil (by simp)
        | cons x' t' =>
          cases t' with
          | nil => exact absurd (List.perm_singleton.1 hperm) (by simp)
          | cons y' r' => rfl

theorem mapRel_of_rel {m m' : LayerMap} (h : ListRel EntryRel m m') : OrdL.MapRel m m' := by
  refine ⟨layerOf_rel h, ?_⟩
  have hl := forall₂_lrel h
  intro x
  simp only [List.mem_map]
  constructor
  · rintro ⟨l, hl', rfl⟩; obtain ⟨l', h1, r⟩ := hl.1 l hl'; exact ⟨l', h1, r.1.symm⟩
  · rintro ⟨l, hl', rfl⟩; obtain ⟨l', h1, r⟩ := hl.2 l hl'; exact ⟨l', h1, r.1⟩

theorem consistent_rel {m m' : LayerMap} (h : ListRel EntryRel m m') : m.consistent = m'.consistent := by
  have hl := forall₂_lrel h
  rw [Bool.eq_iff_iff, consistent_iff, consistent_iff]
  unfold ConsP
  constructor
  · intro hc l1 h1 l2 h2 id i1 i2
    obtain ⟨k1, hk1, r1⟩ := hl.2 l1 h1
    obtain ⟨k2, hk2, r2⟩ := hl.2 l2 h2
    rw [← r1.1, ← r2.1]
    exact hc k1 hk1 k2 hk2 id ((r1.2 id).2 i1) ((r2.2 id).2 i2)
  · intro hc l1 h1 l2 h2 id i1 i2
    obtain ⟨k1, hk1, r1⟩ := hl.1 l1 h1
    obtain ⟨k2, hk2, r2⟩ := hl.1 l2 h2
    rw [r1.1, r2.1]
    exact hc k1 hk1 k2 hk2 id ((r1.2 id).1 i1) ((r2.2 id).1 i2)

theorem updateLayerMap_nodes (mt : Str → Str → Bool) {mods mods' : List Str} (hm : SM mods mods') (a : LArch) (c : List Str) :
    ListRel EntryRel (updateLayerMap mt mods a c) (updateLayerMap mt mods' a c) := by
  unfold updateLayerMap
  induction a with
  | nil => exact .nil
  | cons l a ih =>
    refine .cons ⟨rfl, ?_⟩ ih
    intro x
    simp only [List.mem_flatMap]
    constructor
    · rintro ⟨f, hf, hx⟩
      refine ⟨f, hf, ?_⟩
      cases f with
      | name i => exact hx
      | parent i => exact hx
      | regex p =>
        simp only at hx ⊢
        split at hx
        · rw [if_pos (by assumption)]; exact (SM.filter hm _ x).1 hx
        · cases hx
    · rintro ⟨f, hf, hx⟩
      refine ⟨f, hf, ?_⟩
      cases f with
      | name i => exact hx
      | parent i => exact hx
      | regex p =>
        simp only at hx ⊢
        split at hx
        · rw [if_pos (by assumption)]; exact (SM.filter hm _ x).2 hx
        · cases hx

theorem MapRel.trans {m1 m2 m3 : LayerMap} (h1 : OrdL.MapRel m1 m2) (h2 : OrdL.MapRel m2 m3) : OrdL.MapRel m1 m3 :=
  ⟨fun x => (h1.1 x).trans (h2.1 x), fun x => (h1.2 x).trans (h2.2 x)⟩

theorem qrel_conv {p p' : Option ExplDeps × Option OtherDeps} (h : QRelK p p') : OrdL.QRel' p p' := by
  obtain ⟨e, o⟩ := p
  obtain ⟨e', o'⟩ := p'
  obtain ⟨h1, h2⟩ := h
  constructor
  · cases e <;> cases e' <;> first | exact h1 | exact (h1 : False).elim
  · cases o <;> cases o' <;> first | exact h2 | exact (h2 : False).elim

/-- `matchLayerRule`, outcome with message text: two layer definitions whose rule mappings are both inconsistent or look
    the same to the detector, and subject / object lists with the same members -/
theorem matchLayerRule_text_congr (mt : Str → Str → Bool) {g g' : PGraph Str} (hg : GraphEquiv g g') (a a' : LArch)
    (b : Behavior) (ir : Bool) (ss ss' os os' : List Filter) (hs : SM ss ss') (ho : SM os os')
    (hcc : (updateLayerMap mt g.nodes a (OrdL.convOf ss os)).consistent =
      (updateLayerMap mt g'.nodes a' (OrdL.convOf ss os)).consistent)
    (hm : (updateLayerMap mt g.nodes a (OrdL.convOf ss os)).consistent = true →
      OrdL.MapRel (updateLayerMap mt g.nodes a (OrdL.convOf ss os)) (updateLayerMap mt g'.nodes a' (OrdL.convOf ss os))) :
    (matchLayerRule mt g a b ir ss os).toText = (matchLayerRule mt g' a' b ir ss' os').toText := by
  unfold matchLayerRule
  have c1 := convertFilters_congr mt g.nodes g'.nodes ss ss' hg.nodes hs
  have c2 := convertFilters_congr mt g.nodes g'.nodes os os' hg.nodes ho
  cases hS : convertFilters mt g.nodes ss with
  | error k => rw [hS] at c1; simp only [c1.error_left]
  | ok S =>
    rw [hS] at c1
    obtain ⟨S', hS', hSS⟩ := c1.ok_left
    rw [hS']
    cases hO : convertFilters mt g.nodes os with
    | error k => rw [hO] at c2; simp only [c2.error_left]
    | ok O =>
      rw [hO] at c2
      obtain ⟨O', hO', hOO⟩ := c2.ok_left
      rw [hO']
      simp only []
      have c3 := runQueries_krel hg b ir S S' O O' hSS hOO
      cases hq : runQueries g b ir S O with
      | error k => rw [hq] at c3; simp only [c3.error_left]
      | ok eo =>
        rw [hq] at c3
        obtain ⟨eo', hq', hr0⟩ := c3.ok_left
        have hr := qrel_conv hr0
        rw [hq']
        obtain ⟨expl, other⟩ := eo
        obtain ⟨expl', other'⟩ := eo'
        simp only
        have e1 : List.map (fun x : Filter => x.id) (List.filter (fun x => x.isRegex) (ss ++ os)) = OrdL.convOf ss os := rfl
        have e2 : List.map (fun x : Filter => x.id) (List.filter (fun x => x.isRegex) (ss' ++ os')) = OrdL.convOf ss' os' := rfl
        rw [e1, e2, OrdL.updateLayerMap_congr mt g'.nodes a' (fun x => ((OrdL.convOf_congr hs ho) x).symm)]
        generalize updateLayerMap mt g.nodes a (OrdL.convOf ss os) = m at hm hcc ⊢
        generalize updateLayerMap mt g'.nodes a' (OrdL.convOf ss os) = m' at hm hcc ⊢
        rw [← hcc]
        cases hcons : m.consistent with
        | false => simp only [Bool.not_false, if_true]
        | true =>
        replace hm := hm hcons
        simp only [Bool.not_true, Bool.false_eq_true, if_false]
        have hd := OrdL.detectL_congr hm b ir hr.1 hr.2 (OrdL.SM.map hOO Filter.toMod)
        cases hv : detectL m b ir expl other (O.map Filter.toMod) with
        | error k =>
          rw [hv] at hd
          simp only [hd.error_left]
        | ok v =>
          rw [hv] at hd
          obtain ⟨v', hv', hvv⟩ := hd.ok_left
          rw [hv']
          simp only
          rw [OrdL.any_congr hvv]
          split
          · have hrep := reportItemsL_lines hm ir hvv
            cases hr1 : reportItemsL m ir v with
            | error k => rw [hr1] at hrep; simp only [hrep.error_left]
            | ok it =>
              rw [hr1] at hrep
              obtain ⟨it', hit', hl⟩ := hrep.ok_left
              rw [hit']
              simp only [LVerdict.toText, renderLItems_congr hl]
          · rfl

/-- `LayerRule.assert_applies`, outcome with message text: layers defined in another order, rule configurations that
    list the same subjects / objects -/
theorem assertAppliesLayer_text_congr (mt : Str → Str → Bool) {g g' : PGraph Str} (hg : GraphEquiv g g') (a a' : LArch)
    (hp : a.Perm a') (r r' : RuleState) (h : CfgRel r.cfg r'.cfg) :
    (assertAppliesLayer mt ⟨some a, some r⟩ g).toText = (assertAppliesLayer mt ⟨some a', some r'⟩ g').toText := by
  have hm : anythingMisused r.cfg = anythingMisused r'.cfg := by
    unfold anythingMisused; rw [h.anything, h.shouldNot]
  have hc := convertAliases_rel h
  unfold assertAppliesLayer
  simp only []
  rw [← hm]
  split
  · rfl
  · rw [← configMissing_congr hc]
    split
    · rfl
    · rw [← droppedAbsent_congr' hg hc]
      split
      · rfl
      · rw [← behavior_congr hc]
        split
        · rfl
        · have h1 := hc.subjects
          have h2 := hc.objects
          have h3 := hc.importDir
          generalize (convertAliases r.cfg).behavior = b
          generalize convertAliases r.cfg = c at h1 h2 h3 ⊢
          generalize convertAliases r'.cfg = c' at h1 h2 h3 ⊢
          rcases c with ⟨subjects, objects, _, _, _, _, importDir, _, _⟩
          rcases c' with ⟨subjects', objects', _, _, _, _, importDir', _, _⟩
          simp only at h1 h2 h3
          subst h3
          cases subjects <;> cases subjects' <;> simp only [ORel] at h1 <;>
            cases objects <;> cases objects' <;> simp only [ORel] at h2 <;>
            cases importDir <;> simp only [LVerdict.toText]
          exact matchLayerRule_text_congr mt hg a a' _ _ _ _ _ _ h1 h2
            ((consistent_perm (OrdL.updateLayerMap_perm mt g.nodes hp (OrdL.convOf _ _))).trans
              (consistent_rel (updateLayerMap_nodes mt hg.nodes a' (OrdL.convOf _ _))))
            (fun hc => MapRel.trans
              (OrdL.MapRel.of_perm (OrdL.updateLayerMap_perm mt g.nodes hp (OrdL.convOf _ _)) ((consistent_iff _).1 hc))
              (mapRel_of_rel (updateLayerMap_nodes mt hg.nodes a' (OrdL.convOf _ _))))

end Pta.OrdR

namespace Pta
open PtaSpec Pta.Ord

/-- rule objects with the same verb / direction / `except` / `anything` settings whose subject lists, object lists and
    lists of subjects removed by an earlier alias conversion have the same MEMBERS (in particular: permutations of each
    other); `next` (which list the next `are_named` call would fill) is irrelevant for a finished rule -/
def SameRuleUpToOrder (r r' : RuleState) : Prop := OrdR.CfgRel r.cfg r'.cfg

theorem sameRule_mkRule (s o n dir exc : Bool) (subs subs' objs objs' : List Filter)
    (hs : subs.Perm subs') (ho : objs.Perm objs') :
    SameRuleUpToOrder (mkRule s o n dir exc subs objs) (mkRule s o n dir exc subs' objs') :=
  ⟨SM.of_perm hs, SM.of_perm ho, SM.refl _, rfl, rfl, rfl, rfl, rfl, rfl⟩

theorem sameRule_anything (S S' : List Filter) (dir : Bool) (h : S.Perm S') :
    SameRuleUpToOrder (anythingRule dir S) (anythingRule dir S') :=
  ⟨SM.of_perm h, trivial, SM.refl _, rfl, rfl, rfl, rfl, rfl, rfl⟩

/-- master lemma for module rules: class and message lines -/
theorem report_congr_lemma (mt : Str → Str → Bool) (g g' : PGraph Str) (hg : GraphEquiv g g') (r r' : RuleState)
    (h : SameRuleUpToOrder r r') : (assertAppliesText mt r g).2 = (assertAppliesText mt r' g').2 := by
  rw [assertAppliesText_eq_lemma, assertAppliesText_eq_lemma]
  exact OrdR.assertApplies_text_congr mt hg r r' h

/-- re-applying a rule object: class and message are those of a fresh rule object -/
theorem report_reapply_lemma (mt : Str → Str → Bool) (s : RuleState) (g g' : PGraph Str) :
    (assertAppliesText mt (assertAppliesText mt s g).1 g').2 = (assertAppliesText mt s g').2 := by
  rw [assertAppliesText_eq_lemma mt s g, assertAppliesText_eq_lemma, assertAppliesText_eq_lemma]
  simp only
  rw [Ord.reapply]

theorem report_perm_subjects_lemma (mt : Str → Str → Bool) (g : PGraph Str) (s o n dir exc : Bool)
    (subs subs' objs : List Filter) (h : subs.Perm subs') :
    (assertAppliesText mt (mkRule s o n dir exc subs objs) g).2 = (assertAppliesText mt (mkRule s o n dir exc subs' objs) g).2 :=
  report_congr_lemma mt g g (Itm.geq g) _ _ (sameRule_mkRule s o n dir exc subs subs' objs objs h (List.Perm.refl _))

theorem report_perm_objects_lemma (mt : Str → Str → Bool) (g : PGraph Str) (s o n dir exc : Bool)
    (subs objs objs' : List Filter) (h : objs.Perm objs') :
    (assertAppliesText mt (mkRule s o n dir exc subs objs) g).2 = (assertAppliesText mt (mkRule s o n dir exc subs objs') g).2 :=
  report_congr_lemma mt g g (Itm.geq g) _ _ (sameRule_mkRule s o n dir exc subs subs objs objs' (List.Perm.refl _) h)

theorem report_perm_anything_lemma (mt : Str → Str → Bool) (g : PGraph Str) (S S' : List Filter) (dir : Bool)
    (h : S.Perm S') :
    (assertAppliesText mt (anythingRule dir S) g).2 = (assertAppliesText mt (anythingRule dir S') g).2 :=
  report_congr_lemma mt g g (Itm.geq g) _ _ (sameRule_anything S S' dir h)

theorem toText_cls (v : Verdict) : v.cls = match v.toText with | .pass => .pass | .fail _ => .fail | .err k => .err k := by
  cases v <;> rfl

theorem perm_subjects_anything_lemma (mt : Str → Str → Bool) (g : PGraph Str) (S S' : List Filter) (dir : Bool)
    (h : S.Perm S') : verdictOf mt g (anythingRule dir S) = verdictOf mt g (anythingRule dir S') := by
  unfold verdictOf
  rw [toText_cls, toText_cls, OrdR.assertApplies_text_congr mt (Itm.geq g) _ _ (sameRule_anything S S' dir h)]

theorem report_congr_graph_lemma (mt : Str → Str → Bool) (g g' : PGraph Str) (h : GraphEquiv g g') (r : RuleState) :
    (assertAppliesText mt r g).2 = (assertAppliesText mt r g').2 :=
  report_congr_lemma mt g g' h r r (OrdR.CfgRel.refl _)

theorem report_perm_modules_imports_lemma (mt : Str → Str → Bool) (a a' : Arch) (hwf : a.wf = true)
    (hn : a.nodes.Perm a'.nodes) (hi : a.imports.Perm a'.imports) (lim : Option Nat) (r : RuleState) :
    (assertAppliesText mt r (archGraphLim a lim)).2 = (assertAppliesText mt r (archGraphLim a' lim)).2 :=
  report_congr_graph_lemma mt _ _ (quotient_equiv a a' lim _ _ hn hi (buildGraph_quotient a hwf lim)
    (buildGraph_quotient a' (wf_perm a a' hwf hn hi) lim)) r

theorem scan_report_perm_lemma (mt mt' : Str → Str → Bool) (base rootName : Str) (mp : List Str) (entries entries' : List Entry)
    (o : ScanOptions) (h : entries.Perm entries') (g g' : PGraph Str)
    (hg : generateGraph mt base rootName mp entries o = .ok g) (hg' : generateGraph mt base rootName mp entries' o = .ok g')
    (r : RuleState) : (assertAppliesText mt' r g).2 = (assertAppliesText mt' r g').2 := by
  have := OrdS.scan_graph_perm mt base rootName mp entries entries' o h
  rw [hg, hg'] at this
  exact report_congr_graph_lemma mt' g g' this r

/-- master lemma for layer rules -/
theorem report_layer_congr_lemma (mt : Str → Str → Bool) (g g' : PGraph Str) (hg : GraphEquiv g g') (a a' : LArch)
    (hp : a.Perm a') (r r' : RuleState) (h : SameRuleUpToOrder r r') :
    assertAppliesLayerText mt ⟨some a, some r⟩ g = assertAppliesLayerText mt ⟨some a', some r'⟩ g' := by
  rw [assertAppliesLayerText_eq_lemma, assertAppliesLayerText_eq_lemma]
  exact OrdR.assertAppliesLayer_text_congr mt hg a a' hp r r' h

/-- a layer rule on two graphs with the same node / edge sets: the same outcome and message (the rule need not be
    finished, the architecture need not be set) -/
theorem report_layer_congr_graph_lemma (mt : Str → Str → Bool) (g g' : PGraph Str) (hg : GraphEquiv g g') (s : LayerRuleState) :
    assertAppliesLayerText mt s g = assertAppliesLayerText mt s g' := by
  rcases s with ⟨arch, rule⟩
  cases rule with
  | none => rfl
  | some r =>
    cases arch with
    | none => rfl
    | some a => exact report_layer_congr_lemma mt g g' hg a a (List.Perm.refl _) r r (OrdR.CfgRel.refl _)

theorem scan_report_layer_perm_lemma (mt mt' : Str → Str → Bool) (base rootName : Str) (mp : List Str)
    (entries entries' : List Entry) (o : ScanOptions) (h : entries.Perm entries') (g g' : PGraph Str)
    (hg : generateGraph mt base rootName mp entries o = .ok g) (hg' : generateGraph mt base rootName mp entries' o = .ok g')
    (s : LayerRuleState) : assertAppliesLayerText mt' s g = assertAppliesLayerText mt' s g' := by
  have := OrdS.scan_graph_perm mt base rootName mp entries entries' o h
  rw [hg, hg'] at this
  exact report_layer_congr_graph_lemma mt' g g' this s

theorem report_perm_layers_lemma (mt : Str → Str → Bool) (larch larch' : LArch) (rule : Option RuleState) (g : PGraph Str)
    (hp : larch.Perm larch') :
    assertAppliesLayerText mt ⟨some larch, rule⟩ g = assertAppliesLayerText mt ⟨some larch', rule⟩ g := by
  cases rule with
  | none => rfl
  | some r => exact report_layer_congr_lemma mt g g (Itm.geq g) larch larch' hp r r (OrdR.CfgRel.refl _)

theorem report_perm_layer_rule_filters_lemma (mt : Str → Str → Bool) (g : PGraph Str) (a : LArch) (s o n dir exc : Bool)
    (subs subs' objs objs' : List Filter) (hs : subs.Perm subs') (ho : objs.Perm objs') :
    assertAppliesLayerText mt ⟨some a, some (mkRule s o n dir exc subs objs)⟩ g =
      assertAppliesLayerText mt ⟨some a, some (mkRule s o n dir exc subs' objs')⟩ g :=
  report_layer_congr_lemma mt g g (Itm.geq g) a a (List.Perm.refl _) _ _ (sameRule_mkRule s o n dir exc subs subs' objs objs' hs ho)

end Pta
