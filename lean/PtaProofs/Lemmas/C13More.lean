/-
  PtaProofs.Lemmas.C13More — lemmas behind Props/C13More.lean (property C13, completions):
  absent modules behind LAYERS, regex layers without a match, which error wins, layers the rule does not mention.
-/
import Bridge.Abs
import Bridge.LayerAbs
import PtaProofs.Lemmas.QueryErr
import PtaProofs.Lemmas.NoMatchExact
import PtaProofs.Lemmas.AnythingDedup
import PtaProofs.Lemmas.DroppedAbsent
import PtaProofs.Lemmas.OrderLayer
import PtaProofs.Lemmas.LayerRule
import PtaProofs.Lemmas.DiagramSem
import PtaProofs.Lemmas.PumlAgg
import PtaProofs.Lemmas.Builders
import PtaProofs.Lemmas.RuleErrors
import PtaProofs.Lemmas.Build
import PtaProofs.Lemmas.BuildNames
import PtaProofs.Lemmas.EntryPoint
import PtaProofs.Lemmas.DiagramRepair
namespace Pta.C13M
open Pta PtaSpec

/-! ### `convertFilters` when every regex has a match -/

/-- every regex filter of `fs` matches some module of `mods` -/
def AllMatch (mt : Str → Str → Bool) (mods : List Str) (fs : List Filter) : Prop :=
  ∀ f ∈ fs, f.isRegex = true → ∃ m ∈ mods, mt f.id m = true

theorem convertFilters_ok (mt : Str → Str → Bool) (mods : List Str) (fs : List Filter) (h : AllMatch mt mods fs) :
    convertFilters mt mods fs =
      .ok (dedup ((mods.filter fun m => (fs.filter (·.isRegex)).any fun r => mt r.id m).map Filter.name) ++
           fs.filter fun f => !f.isRegex) := by
  unfold convertFilters
  have : ((fs.filter (·.isRegex)).any fun r => !(mods.any (mt r.id))) = false := by
    rw [List.any_eq_false]
    intro r hr
    obtain ⟨hr1, hr2⟩ := List.mem_filter.1 hr
    obtain ⟨m, hm, hmt⟩ := h r hr1 hr2
    have : mods.any (mt r.id) = true := List.any_eq_true.2 ⟨m, hm, hmt⟩
    simp [this]
  simp only [this, Bool.false_eq_true, if_false]

/-- the converted list keeps every non-regex filter, is non-empty when `fs` is, and lists nodes only in its new part -/
theorem convertFilters_ok_props (mt : Str → Str → Bool) (mods : List Str) (fs : List Filter) (h : AllMatch mt mods fs) :
    ∃ cs, convertFilters mt mods fs = .ok cs ∧ (∀ f ∈ fs, f.isRegex = false → f ∈ cs) ∧ (fs ≠ [] → cs ≠ []) := by
  refine ⟨_, convertFilters_ok mt mods fs h, ?_, ?_⟩
  · intro f hf hr
    exact List.mem_append_right _ (List.mem_filter.2 ⟨hf, by simp [hr]⟩)
  · intro hne
    obtain ⟨f, hf⟩ := List.exists_mem_of_ne_nil fs hne
    cases hr : f.isRegex
    · exact List.ne_nil_of_mem (List.mem_append_right _ (List.mem_filter.2 ⟨hf, by simp [hr]⟩))
    · obtain ⟨m, hm, hmt⟩ := h f hf hr
      have hmem : Filter.name m ∈ dedup ((mods.filter fun m => (fs.filter (·.isRegex)).any fun r => mt r.id m).map Filter.name) := by
        rw [Hist.mem_dedup]
        refine List.mem_map_of_mem (List.mem_filter.2 ⟨hm, ?_⟩)
        exact List.any_eq_true.2 ⟨f, List.mem_filter.2 ⟨hf, hr⟩, hmt⟩
      exact List.ne_nil_of_mem (List.mem_append_left _ hmem)

theorem allMatch_append {mt : Str → Str → Bool} {mods : List Str} {A B : List Filter}
    (h : AllMatch mt mods (A ++ B)) : AllMatch mt mods A ∧ AllMatch mt mods B :=
  ⟨fun f hf => h f (List.mem_append_left _ hf), fun f hf => h f (List.mem_append_right _ hf)⟩

/-! ### the two matchers: an absent name next to regexes that all match -/

/-- what the matchers have in common before the detector runs -/
theorem queries_lookup (mt : Str → Str → Bool) (g : PGraph Str) (b : Behavior) (d : Bool) (ss os : List Filter)
    (hverb : b.should = true ∨ b.shouldOnly = true ∨ b.shouldNot = true)
    (hs : ss ≠ []) (ho : os ≠ [])
    (hreg : AllMatch mt g.nodes (ss ++ os))
    (hmiss : ∃ f ∈ ss ++ os, f.isRegex = false ∧ g.hasNode f.id = false) :
    ∃ subs objs, convertFilters mt g.nodes ss = .ok subs ∧ convertFilters mt g.nodes os = .ok objs ∧
      runQueries g b d subs objs = .error .lookupError := by
  obtain ⟨hA, hB⟩ := allMatch_append hreg
  obtain ⟨subs, h1, k1, n1⟩ := convertFilters_ok_props mt g.nodes ss hA
  obtain ⟨objs, h2, k2, n2⟩ := convertFilters_ok_props mt g.nodes os hB
  refine ⟨subs, objs, h1, h2, ?_⟩
  obtain ⟨f, hf, hr, hm⟩ := hmiss
  refine Hist.runQueries_missing g b d subs objs hverb (n1 hs) (n2 ho) ⟨f, ?_, hm⟩
  rcases List.mem_append.1 hf with hf | hf
  · exact List.mem_append_left _ (k1 f hf hr)
  · exact List.mem_append_right _ (k2 f hf hr)

/-- module rules: `unknown_name` without the "no regex at all" hypothesis -/
theorem matchRule_lookup (mt : Str → Str → Bool) (g : PGraph Str) (b : Behavior) (d : Bool) (ss os : List Filter)
    (hverb : b.should = true ∨ b.shouldOnly = true ∨ b.shouldNot = true)
    (hs : ss ≠ []) (ho : os ≠ [])
    (hreg : AllMatch mt g.nodes (ss ++ os))
    (hmiss : ∃ f ∈ ss ++ os, f.isRegex = false ∧ g.hasNode f.id = false) :
    matchRule mt g b d ss os = .err .lookupError := by
  obtain ⟨subs, objs, h1, h2, h3⟩ := queries_lookup mt g b d ss os hverb hs ho hreg hmiss
  unfold matchRule
  simp only [h1, h2, h3]

theorem matchLayerRule_lookup (mt : Str → Str → Bool) (g : PGraph Str) (a : LArch) (b : Behavior) (d : Bool)
    (ss os : List Filter)
    (hverb : b.should = true ∨ b.shouldOnly = true ∨ b.shouldNot = true)
    (hs : ss ≠ []) (ho : os ≠ [])
    (hreg : AllMatch mt g.nodes (ss ++ os))
    (hmiss : ∃ f ∈ ss ++ os, f.isRegex = false ∧ g.hasNode f.id = false) :
    matchLayerRule mt g a b d ss os = .err .lookupError := by
  obtain ⟨subs, objs, h1, h2, h3⟩ := queries_lookup mt g b d ss os hverb hs ho hreg hmiss
  unfold matchLayerRule
  simp only [h1, h2, h3]

theorem matchLayerRule_no_match (mt : Str → Str → Bool) (g : PGraph Str) (a : LArch) (b : Behavior) (d : Bool)
    (ss os : List Filter)
    (h : ∃ f ∈ ss ++ os, f.isRegex = true ∧ ∀ m ∈ g.nodes, mt f.id m = false) :
    matchLayerRule mt g a b d ss os = .err .impossibleMatch := by
  obtain ⟨f, hf, h1, h2⟩ := h
  unfold matchLayerRule
  rcases List.mem_append.1 hf with hf | hf
  · rw [Hist.convertFilters_nomatch mt g.nodes ss ⟨f, hf, h1, h2⟩]
  · cases hs : convertFilters mt g.nodes ss with
    | error k => rw [convertFilters_error_kind mt g.nodes ss k hs]
    | ok S => simp only [Hist.convertFilters_nomatch mt g.nodes os ⟨f, hf, h1, h2⟩]

/-! ### after the queries a layer rule raises nothing but `LayerMismatch` -/

open Pta.OrdL in
theorem dropSameLayer_errOnly (m : LayerMap) (ds : List Dep) : ErrOnly .layerMismatch (dropSameLayer m ds) := by
  unfold dropSameLayer
  rw [filterMapM_eq]
  intro e h
  cases hx : ds.mapM (fun d => do
      let l1 ← m.layerOf d.1.id
      let l2 ← m.layerOf d.2.id
      pure (if l1 != l2 then some d else none)) with
  | error e' =>
    rw [hx] at h
    cases h
    exact ErrOnly.mapM (fun x _ => ErrOnly.bind (layerOf_errOnly _ _) fun _ =>
      ErrOnly.bind (layerOf_errOnly _ _) fun _ => ErrOnly.pure _) _ hx
  | ok v => rw [hx] at h; cases h

open Pta.OrdL in
theorem realisedL_errOnly (m : LayerMap) (ir : Bool) {κ : Type} (deps : List (κ × List (Str × Str))) :
    ErrOnly .layerMismatch (realisedL m ir deps) := dropSameLayer_errOnly m _

open Pta.OrdL in
theorem abstractWithoutAny_errOnly (m : LayerMap) (ir : Bool) (deps : ExplDeps) :
    ErrOnly .layerMismatch (abstractWithoutAny m ir deps) := by
  unfold abstractWithoutAny
  refine ErrOnly.bind (ErrOnly.mapM fun x _ => ErrOnly.bind (layerOf_errOnly _ _) fun _ => ErrOnly.pure _) fun _ => ?_
  exact ErrOnly.pure _

open Pta.OrdL in
theorem anyMissing_errOnly (m : LayerMap) (ir : Bool) (deps : OtherDeps) (objs : List Mod) :
    ErrOnly .layerMismatch (anyMissing m ir deps objs) := by
  unfold anyMissing
  refine ErrOnly.bind (realisedL_errOnly m ir deps) fun r => ?_
  split <;> exact ErrOnly.pure _

open Pta.OrdL in
theorem ite_errOnly (c : Bool) {x : Except ErrKind (List Dep)} (h : ErrOnly .layerMismatch x) :
    ErrOnly .layerMismatch (if c then x else pure []) := by
  cases c
  · exact ErrOnly.pure _
  · exact h

open Pta.OrdL in
theorem detectL_errOnly (m : LayerMap) (b : Behavior) (ir : Bool) (expl : Option ExplDeps) (other : Option OtherDeps)
    (objs : List Mod) : ErrOnly .layerMismatch (detectL m b ir expl other objs) := by
  unfold detectL
  cases expl <;> cases other <;> dsimp only
  all_goals
    repeat (first
      | refine ErrOnly.bind (ite_errOnly _ (realisedL_errOnly m ir _)) (fun _ => ?_)
      | refine ErrOnly.bind (ite_errOnly _ (abstractWithoutAny_errOnly m ir _)) (fun _ => ?_)
      | refine ErrOnly.bind (ite_errOnly _ (anyMissing_errOnly m ir _ objs)) (fun _ => ?_)
      | refine ErrOnly.bind (ErrOnly.pure ([] : List Dep)) (fun _ => ?_))
    exact ErrOnly.pure _

open Pta.OrdL in
theorem impItemsL_errOnly (m : LayerMap) (ir : Bool) (ds : List Dep) : ErrOnly .layerMismatch (impItemsL m ir ds) := by
  unfold impItemsL
  exact ErrOnly.mapM fun x _ => ErrOnly.bind (layerOf_errOnly _ _) fun _ =>
    ErrOnly.bind (layerOf_errOnly _ _) fun _ => ErrOnly.pure _

open Pta.OrdL in
theorem missItemsL_errOnly (m : LayerMap) (any ir : Bool) (ds : List Dep) :
    ErrOnly .layerMismatch (missItemsL m any ir ds) := by
  unfold missItemsL
  refine ErrOnly.bind (ErrOnly.mapM fun x _ => ErrOnly.bind (layerOf_errOnly _ _) fun _ =>
    ErrOnly.bind (layerOf_errOnly _ _) fun _ => ErrOnly.pure _) fun _ => ErrOnly.pure _

open Pta.OrdL in
theorem reportItemsL_errOnly (m : LayerMap) (ir : Bool) (v : Violations) :
    ErrOnly .layerMismatch (reportItemsL m ir v) := by
  unfold reportItemsL
  refine ErrOnly.bind (missItemsL_errOnly m false ir _) fun _ => ?_
  refine ErrOnly.bind (impItemsL_errOnly m ir _) fun _ => ?_
  refine ErrOnly.bind (missItemsL_errOnly m false ir _) fun _ => ?_
  refine ErrOnly.bind (impItemsL_errOnly m ir _) fun _ => ?_
  refine ErrOnly.bind (missItemsL_errOnly m true ir _) fun _ => ?_
  refine ErrOnly.bind (impItemsL_errOnly m ir _) fun _ => ?_
  refine ErrOnly.bind (missItemsL_errOnly m true ir _) fun _ => ?_
  refine ErrOnly.bind (impItemsL_errOnly m ir _) fun _ => ?_
  exact ErrOnly.pure _

/-- the error of a layer rule, stage by stage: a regex without a match (`ImpossibleMatch`, from the conversion of the
    subjects or of the objects), else an absent module (`KeyError`, from the graph queries), else `LayerMismatch` (from
    `_update_layer_mapping`, the detector or the message generator). Only the last stage looks at the layered
    architecture. -/
theorem matchLayerRule_err_iff (mt : Str → Str → Bool) (g : PGraph Str) (a : LArch) (b : Behavior) (d : Bool)
    (ss os : List Filter) (k : ErrKind) (hk : k ≠ .layerMismatch) :
    matchLayerRule mt g a b d ss os = .err k ↔
      convertFilters mt g.nodes ss = .error k ∨
      (∃ subs, convertFilters mt g.nodes ss = .ok subs ∧ convertFilters mt g.nodes os = .error k) ∨
      (∃ subs objs, convertFilters mt g.nodes ss = .ok subs ∧ convertFilters mt g.nodes os = .ok objs ∧
        runQueries g b d subs objs = .error k) := by
  cases h1 : convertFilters mt g.nodes ss with
  | error k1 =>
    have : matchLayerRule mt g a b d ss os = .err k1 := by unfold matchLayerRule; simp only [h1]
    rw [this]; simp
  | ok subs =>
    cases h2 : convertFilters mt g.nodes os with
    | error k2 =>
      have : matchLayerRule mt g a b d ss os = .err k2 := by unfold matchLayerRule; simp only [h1, h2]
      rw [this]; simp
    | ok objs =>
      cases h3 : runQueries g b d subs objs with
      | error k3 =>
        have : matchLayerRule mt g a b d ss os = .err k3 := by unfold matchLayerRule; simp only [h1, h2, h3]
        rw [this]; simp [h3]
      | ok q =>
        obtain ⟨expl, other⟩ := q
        refine ⟨fun h => False.elim ?_, ?_⟩
        · unfold matchLayerRule at h
          simp only [h1, h2, h3] at h
          split at h
          · cases h; exact hk rfl
          · split at h
            · rename_i k' hd
              cases h
              exact hk (detectL_errOnly _ _ _ _ _ _ _ hd)
            · split at h
              · split at h
                · rename_i k' hr
                  cases h
                  exact hk (reportItemsL_errOnly _ _ _ _ hr)
                · cases h
              · cases h
        · rintro (h | ⟨_, _, h⟩ | ⟨s, o, hs, ho, h⟩)
          · cases h
          · cases h
          · cases hs; cases ho; rw [h3] at h; cases h

/-- … so whether a layer rule raises `ImpossibleMatch` or a lookup error does not depend on the layered architecture -/
theorem matchLayerRule_err_arch_indep (mt : Str → Str → Bool) (g : PGraph Str) (a a' : LArch) (b : Behavior) (d : Bool)
    (ss os : List Filter) (k : ErrKind) (hk : k ≠ .layerMismatch) :
    matchLayerRule mt g a b d ss os = .err k ↔ matchLayerRule mt g a' b d ss os = .err k := by
  rw [matchLayerRule_err_iff mt g a b d ss os k hk, matchLayerRule_err_iff mt g a' b d ss os k hk]

/-! ### complete layer rules (`compileLayerRule larch r`: all 12 shapes and the two `any layer` forms) -/

/-- the layers a layer rule mentions: its subject layer and, unless it is an `any layer` rule, its object layers -/
def mentionedLayers (r : LRuleSpec) : List Str := r.subject :: (if r.anything then [] else r.objects)

/-- the module filters the mentioned layers list -/
def mentioned (larch : LArch) (r : LRuleSpec) : List Filter := (mentionedLayers r).flatMap larch.getD

theorem mentioned_eq (larch : LArch) (r : LRuleSpec) :
    mentioned larch r = larch.getD r.subject ++ (if r.anything then [] else r.objects.flatMap larch.getD) := by
  unfold mentioned mentionedLayers
  cases r.anything <;> simp

theorem behL_verb (r : LRuleSpec) : (behL r).should = true ∨ (behL r).shouldOnly = true ∨ (behL r).shouldNot = true := by
  obtain ⟨verb, dir, exc, subject, objects, anything⟩ := r
  cases verb <;> simp [behL]

/-- an `any layer` rule whose alias conversion drops an absent listed module: the check added for F-C13b fires first -/
theorem assertAppliesLayer_dropped (mt : Str → Str → Bool) (g : PGraph Str) (larch : LArch) (r : LRuleSpec)
    (ha : r.anything = true) (hv : r.verb = .shouldNot)
    (hda : droppedAbsentIn g (larch.getD r.subject) = true) :
    assertAppliesLayer mt (compileLayerRule larch r) g = .err .lookupError := by
  obtain ⟨verb, dir, exc, subject, objects, anything⟩ := r
  simp only at ha hv hda
  subst ha; subst hv
  have hne : larch.getD subject ≠ [] := by
    intro h; rw [h] at hda; cases hda
  have hs1 : (dedupSubjects (larch.getD subject)).isEmpty = false := by
    cases h : dedupSubjects (larch.getD subject)
    · exact absurd h (dedupSubjects_ne_nil _ hne)
    · rfl
  unfold droppedAbsentIn at hda
  simp [assertAppliesLayer, compileLayerRule, anythingMisused, droppedAbsent, hda,
      convertAliases, configMissing, hs1]

theorem subjF_subset (larch : LArch) (r : LRuleSpec) : ∀ f ∈ subjF larch r, f ∈ larch.getD r.subject := by
  intro f hf
  unfold subjF at hf
  split at hf
  · exact dedupSubjects_subset _ f hf
  · exact hf

theorem objF_subset (larch : LArch) (r : LRuleSpec) : ∀ f ∈ objF larch r, f ∈ mentioned larch r := by
  intro f hf
  rw [mentioned_eq]
  unfold objF at hf
  split at hf
  · exact List.mem_append_left _ (dedupSubjects_subset _ f hf)
  · rename_i h
    have : r.anything = false := by simpa using h
    simp only [this, Bool.false_eq_true, if_false]
    exact List.mem_append_right _ hf

theorem subjF_ne_nil (larch : LArch) (r : LRuleSpec) (hs : larch.getD r.subject ≠ []) : subjF larch r ≠ [] := by
  unfold subjF
  split
  · exact dedupSubjects_ne_nil _ hs
  · exact hs

theorem objF_ne_nil (larch : LArch) (r : LRuleSpec) (hs : larch.getD r.subject ≠ [])
    (ho : r.anything = true ∨ r.objects.flatMap larch.getD ≠ []) : objF larch r ≠ [] := by
  unfold objF
  split
  · exact dedupSubjects_ne_nil _ hs
  · rename_i h
    exact ho.resolve_left h

/-- **absent module behind a layer**: a complete layer rule one of whose mentioned layers lists, by name, a module that
    is not a node of the graph raises the lookup error (every regex of the mentioned layers having a match — otherwise
    see `layer_regex_no_match_lemma`) -/
theorem layer_unknown_module_lemma (mt : Str → Str → Bool) (g : PGraph Str) (larch : LArch) (r : LRuleSpec)
    (hany : r.anything = true → r.verb = .shouldNot)
    (hs : larch.getD r.subject ≠ []) (ho : r.anything = true ∨ r.objects.flatMap larch.getD ≠ [])
    (hreg : AllMatch mt g.nodes (mentioned larch r))
    (hmiss : ∃ f ∈ mentioned larch r, f.isRegex = false ∧ g.hasNode f.id = false) :
    assertAppliesLayer mt (compileLayerRule larch r) g = .err .lookupError := by
  by_cases hda : r.anything = true ∧ droppedAbsentIn g (larch.getD r.subject) = true
  · exact assertAppliesLayer_dropped mt g larch r hda.1 (hany hda.1) hda.2
  have hda' : r.anything = true → droppedAbsentIn g (larch.getD r.subject) = false := by
    intro ha
    cases h : droppedAbsentIn g (larch.getD r.subject)
    · rfl
    · exact absurd ⟨ha, h⟩ hda
  rw [assertAppliesLayer_compile' mt g larch r (subjF_ne_nil larch r hs) ho hany hda']
  refine matchLayerRule_lookup mt g larch (behL r) r.importDir _ _ (behL_verb r) (subjF_ne_nil larch r hs)
    (objF_ne_nil larch r hs ho) ?_ ?_
  · intro f hf
    refine hreg f ?_
    rcases List.mem_append.1 hf with hf | hf
    · rw [mentioned_eq]; exact List.mem_append_left _ (subjF_subset larch r f hf)
    · exact objF_subset larch r f hf
  · obtain ⟨f, hf, hr, hm⟩ := hmiss
    refine ⟨f, ?_, hr, hm⟩
    cases ha : r.anything
    · -- subjF / objF are the layers themselves
      have e1 : subjF larch r = larch.getD r.subject := by simp [subjF, ha]
      have e2 : objF larch r = r.objects.flatMap larch.getD := by simp [objF, ha]
      rw [e1, e2]
      rw [mentioned_eq] at hf
      simpa [ha] using hf
    · have e1 : subjF larch r = dedupSubjects (larch.getD r.subject) := by simp [subjF, ha]
      rw [e1]
      rw [mentioned_eq] at hf
      simp only [ha, if_true, List.append_nil] at hf
      have := (droppedAbsentIn_false_iff g _).1 (hda' ha) f hf
      apply List.mem_append_left
      apply Classical.byContradiction
      intro hnot
      rw [this hnot hr] at hm; cases hm

/-- **regex layer without a match**: a complete layer rule some filter of which — after the alias conversion of an
    `any layer` rule — is a regex matching no node raises `ImpossibleMatch`; in an `any layer` rule the check on dropped
    absent modules comes first (`hda`) -/
theorem layer_regex_no_match_lemma (mt : Str → Str → Bool) (g : PGraph Str) (larch : LArch) (r : LRuleSpec)
    (hany : r.anything = true → r.verb = .shouldNot)
    (hs : larch.getD r.subject ≠ []) (ho : r.anything = true ∨ r.objects.flatMap larch.getD ≠ [])
    (hda : r.anything = true → droppedAbsentIn g (larch.getD r.subject) = false)
    (h : ∃ f ∈ subjF larch r ++ objF larch r, f.isRegex = true ∧ ∀ m ∈ g.nodes, mt f.id m = false) :
    assertAppliesLayer mt (compileLayerRule larch r) g = .err .impossibleMatch := by
  rw [assertAppliesLayer_compile' mt g larch r (subjF_ne_nil larch r hs) ho hany hda]
  exact matchLayerRule_no_match mt g larch _ _ _ _ h

/-- a regex filter is never dropped from a list in which it is alone -/
theorem dedupSubjects_singleton (f : Filter) : dedupSubjects [f] = [f] := by
  unfold dedupSubjects
  have : isStrictSub f.id f.id = false := by
    cases h : isStrictSub f.id f.id
    · rfl
    · exact absurd (isStrictSub_length _ _ h) (Nat.lt_irrefl _)
  simp [this]

/-- whether a complete layer rule raises `ImpossibleMatch` or the lookup error does not depend on the layers it does
    not mention: two layered architectures that agree on the mentioned layers raise these errors together -/
theorem layer_err_unmentioned_lemma (mt : Str → Str → Bool) (g : PGraph Str) (larch larch' : LArch) (r : LRuleSpec)
    (hany : r.anything = true → r.verb = .shouldNot)
    (hs : larch.getD r.subject ≠ []) (ho : r.anything = true ∨ r.objects.flatMap larch.getD ≠ [])
    (hagree : ∀ L ∈ mentionedLayers r, larch'.getD L = larch.getD L)
    (k : ErrKind) (hk : k = .lookupError ∨ k = .impossibleMatch) :
    assertAppliesLayer mt (compileLayerRule larch r) g = .err k ↔
      assertAppliesLayer mt (compileLayerRule larch' r) g = .err k := by
  have hsub : larch'.getD r.subject = larch.getD r.subject := hagree _ (by simp [mentionedLayers])
  have hobj : r.anything = false → r.objects.flatMap larch'.getD = r.objects.flatMap larch.getD := by
    intro ha
    have : ∀ L ∈ r.objects, larch'.getD L = larch.getD L := fun L hL => hagree L (by simp [mentionedLayers, ha, hL])
    generalize r.objects = objs at this
    induction objs with
    | nil => rfl
    | cons L Ls ih =>
      rw [List.flatMap_cons, List.flatMap_cons, this L (by simp), ih (fun L' hL' => this L' (List.mem_cons_of_mem _ hL'))]
  have hs' : larch'.getD r.subject ≠ [] := by rw [hsub]; exact hs
  have ho' : r.anything = true ∨ r.objects.flatMap larch'.getD ≠ [] := by
    rcases ho with h | h
    · exact .inl h
    · cases ha : r.anything
      · right; rw [hobj ha]; exact h
      · exact .inl rfl
  have hsF : subjF larch' r = subjF larch r := by unfold subjF; rw [hsub]
  have hoF : objF larch' r = objF larch r := by
    unfold objF
    cases ha : r.anything
    · simp only [Bool.false_eq_true, if_false]; exact hobj ha
    · simp only [if_true]; rw [hsub]
  by_cases hda : r.anything = true ∧ droppedAbsentIn g (larch.getD r.subject) = true
  · rw [assertAppliesLayer_dropped mt g larch r hda.1 (hany hda.1) hda.2,
      assertAppliesLayer_dropped mt g larch' r hda.1 (hany hda.1) (by rw [hsub]; exact hda.2)]
  have hda' : r.anything = true → droppedAbsentIn g (larch.getD r.subject) = false := by
    intro ha
    cases h : droppedAbsentIn g (larch.getD r.subject)
    · rfl
    · exact absurd ⟨ha, h⟩ hda
  rw [assertAppliesLayer_compile' mt g larch r (subjF_ne_nil larch r hs) ho hany hda',
    assertAppliesLayer_compile' mt g larch' r (subjF_ne_nil larch' r hs') ho' hany (by rw [hsub]; exact hda'),
    hsF, hoF]
  exact matchLayerRule_err_arch_indep mt g larch larch' _ _ _ _ k (by rcases hk with rfl | rfl <;> simp)

/-! ### no lookup error when everything the mentioned layers list exists -/

theorem convertFilters_ok_nodes (mt : Str → Str → Bool) (g : PGraph Str) (fs cs : List Filter)
    (h : convertFilters mt g.nodes fs = .ok cs)
    (hex : ∀ f ∈ fs, f.isRegex = false → g.hasNode f.id = true) : ∀ c ∈ cs, g.hasNode c.id = true := by
  unfold convertFilters at h
  simp only at h
  split at h
  · cases h
  · cases h
    intro c hc
    rcases List.mem_append.1 hc with hc | hc
    · rw [Hist.mem_dedup] at hc
      obtain ⟨m, hm, rfl⟩ := List.mem_map.1 hc
      have := (List.mem_filter.1 hm).1
      simpa [PGraph.hasNode, Filter.id] using this
    · obtain ⟨h1, h2⟩ := List.mem_filter.1 hc
      exact hex c h1 (by simpa using h2)

theorem matchLayerRule_no_lookup (mt : Str → Str → Bool) (g : PGraph Str) (a : LArch) (b : Behavior) (d : Bool)
    (ss os : List Filter) (hex : ∀ f ∈ ss ++ os, f.isRegex = false → g.hasNode f.id = true) :
    matchLayerRule mt g a b d ss os ≠ .err .lookupError := by
  intro h
  rcases (matchLayerRule_err_iff mt g a b d ss os .lookupError (by simp)).1 h with h | ⟨_, _, h⟩ | ⟨subs, objs, h1, h2, h3⟩
  · cases convertFilters_error_kind _ _ _ _ h
  · cases convertFilters_error_kind _ _ _ _ h
  · have hn : ∀ f ∈ subs ++ objs, g.hasNode f.id = true := by
      intro f hf
      rcases List.mem_append.1 hf with hf | hf
      · exact convertFilters_ok_nodes mt g ss subs h1 (fun f hf => hex f (List.mem_append_left _ hf)) f hf
      · exact convertFilters_ok_nodes mt g os objs h2 (fun f hf => hex f (List.mem_append_right _ hf)) f hf
    obtain ⟨r, hr⟩ := Err.runQueries_ok_of_nodes g b d subs objs hn
    rw [hr] at h3; cases h3

/-- where a lookup error of `LayerRule.assert_applies` can come from -/
theorem assertAppliesLayer_lookup_cases (mt : Str → Str → Bool) (g : PGraph Str) (a : LArch) (rule : RuleState)
    (h : assertAppliesLayer mt ⟨some a, some rule⟩ g = .err .lookupError) :
    droppedAbsent g (convertAliases rule.cfg) = true ∨
    ∃ d ss os, (convertAliases rule.cfg).subjects = some ss ∧ (convertAliases rule.cfg).objects = some os ∧
      matchLayerRule mt g a (convertAliases rule.cfg).behavior d ss os = .err .lookupError := by
  unfold assertAppliesLayer at h
  simp only at h
  split at h
  · cases h
  · split at h
    · cases h
    · split at h
      · rename_i hd; exact .inl hd
      · split at h
        · cases h
        · split at h
          · rename_i d ss os _ hs ho
            exact .inr ⟨d, ss, os, hs, ho, h⟩
          · cases h

theorem layer_no_lookup_error_lemma (mt : Str → Str → Bool) (g : PGraph Str) (larch : LArch) (r : LRuleSpec)
    (hex : ∀ f ∈ mentioned larch r, f.isRegex = false → g.hasNode f.id = true) :
    assertAppliesLayer mt (compileLayerRule larch r) g ≠ .err .lookupError := by
  intro h
  rw [mentioned_eq] at hex
  obtain ⟨verb, dir, exc, subject, objects, anything⟩ := r
  simp only at hex
  rcases assertAppliesLayer_lookup_cases mt g larch _ h with hd | ⟨d, ss, os, hs, ho, hm⟩
  · cases anything
    · simp [convertAliases, droppedAbsent] at hd
    · simp only [convertAliases, droppedAbsent, Bool.not_true, Bool.false_eq_true, if_false,
        List.any_eq_true, Bool.and_eq_true, Bool.not_eq_true'] at hd
      obtain ⟨f, hf, hr, hn⟩ := hd
      have hfS : f ∈ larch.getD subject := (List.mem_filter.1 hf).1
      rw [hex f (List.mem_append_left _ hfS) hr] at hn; cases hn
  · refine matchLayerRule_no_lookup mt g larch _ d ss os ?_ hm
    cases anything
    · simp only [convertAliases, Bool.not_false, if_true, Bool.false_eq_true, if_false,
        Option.some.injEq] at hs ho
      subst hs; subst ho
      simpa using hex
    · simp only [convertAliases, Bool.not_true, Bool.false_eq_true, if_false, Option.map_some,
        Option.some.injEq] at hs ho
      subst hs; subst ho
      intro f hf hr
      have : f ∈ larch.getD subject := by
        rcases List.mem_append.1 hf with hf | hf <;> exact dedupSubjects_subset _ f hf
      exact hex f (List.mem_append_left _ this) hr

/-! ### DIAGRAMS: a component that is not a module of the graph -/

open Pta.Dg

/-- a generated rule is a name-only rule: with at least one object it raises the lookup error exactly when one of its
    names is absent, and nothing else -/
theorem mkD_verdict (mt : Str → Str → Bool) (g : PGraph Str) (s : Str) (os : List Str) (v : RuleOp)
    (hv : v = .should ∨ v = .shouldOnly ∨ v = .shouldNot) (ho : os ≠ []) :
    ((∃ x ∈ s :: os, g.hasNode x = false) → ruleVerdict mt g (mkD s os v) = .err .lookupError) ∧
    (∀ k, ruleVerdict mt g (mkD s os v) = .err k → k = .lookupError) := by
  have ho1 : (os.map Filter.name).isEmpty = false := by cases os with | nil => exact absurd rfl ho | cons _ _ => rfl
  have hnr : ∀ f ∈ [Filter.name s] ++ os.map Filter.name, f.isRegex = false := by
    intro f hf
    rcases List.mem_append.1 hf with hf | hf
    · simp only [List.mem_singleton] at hf; subst hf; rfl
    · obtain ⟨x, _, rfl⟩ := List.mem_map.1 hf; rfl
  have hshape : ∃ b : Behavior, (b.should = true ∨ b.shouldOnly = true ∨ b.shouldNot = true) ∧
      ruleVerdict mt g (mkD s os v) = matchRule mt g b true [.name s] (os.map .name) := by
    rcases hv with rfl | rfl | rfl
    · exact ⟨⟨true, false, false, false⟩, .inl rfl, by
        simp [ruleVerdict, assertApplies, mkD, anythingMisused, convertAliases, configMissing, droppedAbsent,
          RuleConfig.behavior, Behavior.inconsistent, Behavior.explReq, Behavior.explForb, Behavior.otherReq,
          Behavior.otherForb, ho1]
        rfl⟩
    · exact ⟨⟨false, true, false, false⟩, .inr (.inl rfl), by
        simp [ruleVerdict, assertApplies, mkD, anythingMisused, convertAliases, configMissing, droppedAbsent,
          RuleConfig.behavior, Behavior.inconsistent, Behavior.explReq, Behavior.explForb, Behavior.otherReq,
          Behavior.otherForb, ho1]
        rfl⟩
    · exact ⟨⟨false, false, true, false⟩, .inr (.inr rfl), by
        simp [ruleVerdict, assertApplies, mkD, anythingMisused, convertAliases, configMissing, droppedAbsent,
          RuleConfig.behavior, Behavior.inconsistent, Behavior.explReq, Behavior.explForb, Behavior.otherReq,
          Behavior.otherForb, ho1]
        rfl⟩
  obtain ⟨b, hb, hshape⟩ := hshape
  rw [hshape]
  constructor
  · rintro ⟨x, hx, hxm⟩
    refine unknown_name_lemma mt g b true _ _ hb (by simp) (by simpa using ho) hnr ?_
    rcases List.mem_cons.1 hx with rfl | hx
    · exact ⟨.name x, by simp, hxm⟩
    · exact ⟨.name x, List.mem_append_right _ (List.mem_map_of_mem hx), hxm⟩
  · intro k hk
    rcases Hist.matchRule_err mt g b true _ _ k hk with rfl | rfl
    · exfalso
      unfold matchRule at hk
      rw [Hist.convertFilters_noregex mt g.nodes _ (fun f hf => hnr f (List.mem_append_left _ hf)),
        Hist.convertFilters_noregex mt g.nodes _ (fun f hf => hnr f (List.mem_append_right _ hf))] at hk
      simp only at hk
      split at hk
      · rename_i k3 h3
        cases hk
        have := Hist.runQueries_err _ _ _ _ _ _ h3
        cases this
      · split at hk <;> cases hk
    · rfl

/-- `MultipleRuleApplier`: when no rule can raise anything but `e` and some rule raises, the batch raises `e` -/
theorem applyAll_err_of_only (mt : Str → Str → Bool) (g : PGraph Str) (rs : List RuleState) (e : ErrKind)
    (honly : ∀ r ∈ rs, ∀ k, ruleVerdict mt g r = .err k → k = e)
    (hsome : ∃ r ∈ rs, ruleVerdict mt g r = .err e) :
    applyAll mt g rs = .err e := by
  have hfs : rs.findSome? (fun r => (ruleVerdict mt g r).errKind) = some e := by
    induction rs with
    | nil => obtain ⟨r, hr, _⟩ := hsome; cases hr
    | cons r rs ih =>
      rw [List.findSome?_cons]
      cases hv : ruleVerdict mt g r with
      | err k =>
        simp only [errKind_err]
        rw [honly r (by simp) k hv]
      | pass =>
        simp only [errKind_pass]
        apply ih (fun r' hr' => honly r' (List.mem_cons_of_mem _ hr'))
        obtain ⟨r', hr', hv'⟩ := hsome
        rcases List.mem_cons.1 hr' with rfl | hr'
        · rw [hv] at hv'; cases hv'
        · exact ⟨r', hr', hv'⟩
      | fail its =>
        simp only [errKind_fail]
        apply ih (fun r' hr' => honly r' (List.mem_cons_of_mem _ hr'))
        obtain ⟨r', hr', hv'⟩ := hsome
        rcases List.mem_cons.1 hr' with rfl | hr'
        · rw [hv] at hv'; cases hv'
        · exact ⟨r', hr', hv'⟩
  rw [applyAll_eq, hfs]

theorem shouldVerb_ok (so : Bool) : shouldVerb so = .should ∨ shouldVerb so = .shouldOnly ∨ shouldVerb so = .shouldNot := by
  cases so
  · exact .inl rfl
  · exact .inr (.inl rfl)

/-- every generated rule is `mkD s os v` with a proper verb and — when no dependor has an empty list of dependees, as in
    every parser output — at least one object -/
theorem diagramRules_shape (so : Bool) (p : Parsed') (hne : ∀ kv ∈ p.dependencies, kv.2 ≠ []) :
    ∀ r ∈ diagramRules so p, ∃ s os v, r = mkD s os v ∧ (v = .should ∨ v = .shouldOnly ∨ v = .shouldNot) ∧ os ≠ [] := by
  intro r hr
  rw [diagramRules_eq] at hr
  rcases List.mem_append.1 hr with hr | hr
  · obtain ⟨kv, hkv, rfl⟩ := List.mem_map.1 hr
    exact ⟨kv.1, kv.2, shouldVerb so, rfl, shouldVerb_ok so, hne kv hkv⟩
  · obtain ⟨m, _, hm⟩ := List.mem_filterMap.1 hr
    unfold shouldNotOf at hm
    split at hm
    · cases hm
    · rename_i hemp
      cases hm
      refine ⟨m, sortStr (notImportedOf p m), .shouldNot, rfl, .inr (.inr rfl), ?_⟩
      intro h
      apply hemp
      cases hn : notImportedOf p m with
      | nil => rfl
      | cons x xs =>
        have : x ∈ sortStr (notImportedOf p m) := (mem_sortStr x _).2 (by rw [hn]; simp)
        rw [h] at this; cases this

/-- a component that is drawn with another component, or that occurs in an arrow, is mentioned by a generated rule -/
theorem diagramRules_mentions (so : Bool) (p : Parsed') (m : Str)
    (hm : (m ∈ p.modules ∧ ∃ x ∈ p.modules, x ≠ m) ∨ ∃ kv ∈ p.dependencies, m = kv.1 ∨ m ∈ kv.2) :
    ∃ s os v, mkD s os v ∈ diagramRules so p ∧ m ∈ s :: os := by
  rw [diagramRules_eq]
  have hdep : (∃ kv ∈ p.dependencies, m = kv.1 ∨ m ∈ kv.2) →
      ∃ s os v, mkD s os v ∈ p.dependencies.map (fun kv => mkD kv.1 kv.2 (shouldVerb so)) ++
        (sortStr (dedup p.modules)).filterMap (shouldNotOf p) ∧ m ∈ s :: os := by
    rintro ⟨kv, hkv, h⟩
    refine ⟨kv.1, kv.2, shouldVerb so, List.mem_append_left _ (List.mem_map.2 ⟨kv, hkv, rfl⟩), ?_⟩
    rcases h with rfl | h
    · simp
    · exact List.mem_cons_of_mem _ h
  rcases hm with ⟨hmm, x, hx, hxm⟩ | hm
  · by_cases hemp : (notImportedOf p m).isEmpty = true
    · -- `m` imports every other component: it is a dependor
      apply hdep
      have hxi : x ∈ importedOf p m := by
        have hnot : x ∉ notImportedOf p m := by
          intro h
          cases hn : notImportedOf p m with
          | nil => rw [hn] at h; cases h
          | cons _ _ => rw [hn] at hemp; cases hemp
        unfold notImportedOf at hnot
        rw [List.mem_filter] at hnot
        have hxd : x ∈ dedup p.modules := (Hist.mem_dedup x _).2 hx
        cases hc : (importedOf p m).contains x
        · exact absurd ⟨hxd, by rw [hc]; simp [hxm]⟩ hnot
        · exact List.contains_iff_mem.1 hc
      unfold importedOf at hxi
      cases hf : p.dependencies.find? (·.1 == m) with
      | none => rw [hf] at hxi; cases hxi
      | some kv =>
        refine ⟨kv, List.mem_of_find?_eq_some hf, .inl ?_⟩
        have := List.find?_some hf
        exact (by simpa using this : kv.1 = m).symm
    · refine ⟨m, sortStr (notImportedOf p m), .shouldNot, List.mem_append_right _ ?_, by simp⟩
      refine List.mem_filterMap.2 ⟨m, (mem_sortStr m _).2 ((Hist.mem_dedup m _).2 hmm), ?_⟩
      unfold shouldNotOf
      rw [if_neg hemp]
  · exact hdep hm

/-- **absent component**: a diagram one of whose components — drawn together with another component, or occurring in an
    arrow — is not a node of the graph raises the lookup error: never a verdict -/
theorem diagram_unknown_component_lemma (mt : Str → Str → Bool) (g : PGraph Str) (so : Bool) (p : Parsed')
    (hne : ∀ kv ∈ p.dependencies, kv.2 ≠ []) (m : Str)
    (hm : (m ∈ p.modules ∧ ∃ x ∈ p.modules, x ≠ m) ∨ ∃ kv ∈ p.dependencies, m = kv.1 ∨ m ∈ kv.2)
    (habs : g.hasNode m = false) :
    applyAll mt g (diagramRules so p) = .err .lookupError := by
  apply applyAll_err_of_only
  · intro r hr k hk
    obtain ⟨s, os, v, rfl, hv, ho⟩ := diagramRules_shape so p hne r hr
    exact (mkD_verdict mt g s os v hv ho).2 k hk
  · obtain ⟨s, os, v, hmem, hin⟩ := diagramRules_mentions so p m hm
    obtain ⟨s', os', v', he, hv, ho⟩ := diagramRules_shape so p hne _ hmem
    refine ⟨_, hmem, ?_⟩
    rw [he]
    refine (mkD_verdict mt g s' os' v' hv ho).1 ⟨m, ?_, habs⟩
    have : s :: os = s' :: os' := by
      have h1 : (mkD s os v).cfg.subjects = (mkD s' os' v').cfg.subjects := by rw [he]
      have h2 : (mkD s os v).cfg.objects = (mkD s' os' v').cfg.objects := by rw [he]
      simp only [mkD, Option.some.injEq, List.cons.injEq, Filter.name.injEq, and_true] at h1 h2
      have h3 : os = os' := by
        have := congrArg (List.map Filter.id) h2
        simpa [List.map_map, Function.comp_def, Filter.id] using this
      rw [h1, h3]
    rw [← this]; exact hin

/-- a generated rule raising the lookup error names an absent module -/
theorem mkD_lookup_absent (mt : Str → Str → Bool) (g : PGraph Str) (s : Str) (os : List Str) (v : RuleOp)
    (hv : v = .should ∨ v = .shouldOnly ∨ v = .shouldNot) (ho : os ≠ [])
    (h : ruleVerdict mt g (mkD s os v) = .err .lookupError) : ∃ x ∈ s :: os, g.hasNode x = false := by
  apply Classical.byContradiction
  intro hno
  have hall : ∀ x ∈ s :: os, g.hasNode x = true := by
    intro x hx
    cases hn : g.hasNode x
    · exact absurd ⟨x, hx, hn⟩ hno
    · rfl
  have ho1 : (os.map Filter.name).isEmpty = false := by cases os with | nil => exact absurd rfl ho | cons _ _ => rfl
  have hnr : ∀ f ∈ [Filter.name s] ++ os.map Filter.name, f.isRegex = false := by
    intro f hf
    rcases List.mem_append.1 hf with hf | hf
    · simp only [List.mem_singleton] at hf; subst hf; rfl
    · obtain ⟨x, _, rfl⟩ := List.mem_map.1 hf; rfl
  have hnodes : ∀ f ∈ [Filter.name s] ++ os.map Filter.name, g.hasNode f.id = true := by
    intro f hf
    rcases List.mem_append.1 hf with hf | hf
    · simp only [List.mem_singleton] at hf; subst hf; exact hall s (by simp)
    · obtain ⟨x, hx, rfl⟩ := List.mem_map.1 hf; exact hall x (List.mem_cons_of_mem _ hx)
  have hshape : ∃ b : Behavior, ruleVerdict mt g (mkD s os v) = matchRule mt g b true [.name s] (os.map .name) := by
    rcases hv with rfl | rfl | rfl
    · exact ⟨⟨true, false, false, false⟩, by
        simp [ruleVerdict, assertApplies, mkD, anythingMisused, convertAliases, configMissing, droppedAbsent,
          RuleConfig.behavior, Behavior.inconsistent, Behavior.explReq, Behavior.explForb, Behavior.otherReq,
          Behavior.otherForb, ho1]
        rfl⟩
    · exact ⟨⟨false, true, false, false⟩, by
        simp [ruleVerdict, assertApplies, mkD, anythingMisused, convertAliases, configMissing, droppedAbsent,
          RuleConfig.behavior, Behavior.inconsistent, Behavior.explReq, Behavior.explForb, Behavior.otherReq,
          Behavior.otherForb, ho1]
        rfl⟩
    · exact ⟨⟨false, false, true, false⟩, by
        simp [ruleVerdict, assertApplies, mkD, anythingMisused, convertAliases, configMissing, droppedAbsent,
          RuleConfig.behavior, Behavior.inconsistent, Behavior.explReq, Behavior.explForb, Behavior.otherReq,
          Behavior.otherForb, ho1]
        rfl⟩
  obtain ⟨b, hb⟩ := hshape
  rw [hb] at h
  unfold matchRule at h
  rw [Hist.convertFilters_noregex mt g.nodes _ (fun f hf => hnr f (List.mem_append_left _ hf)),
    Hist.convertFilters_noregex mt g.nodes _ (fun f hf => hnr f (List.mem_append_right _ hf))] at h
  obtain ⟨q, hq⟩ := Err.runQueries_ok_of_nodes g b true _ _ hnodes
  simp only [hq] at h
  split at h <;> cases h

/-- the components a diagram check looks up: those drawn together with another component, and the ends of arrows -/
def Checked (p : Parsed') (m : Str) : Prop :=
  (m ∈ p.modules ∧ ∃ x ∈ p.modules, x ≠ m) ∨ ∃ kv ∈ p.dependencies, m = kv.1 ∨ m ∈ kv.2

/-- everything a generated rule names is a checked component -/
theorem diagramRules_names_checked (so : Bool) (p : Parsed') (s : Str) (os : List Str) (v : RuleOp)
    (h : mkD s os v ∈ diagramRules so p) : ∀ x ∈ s :: os, Checked p x := by
  have hinj : ∀ s' os' v', mkD s os v = mkD s' os' v' → s = s' ∧ os = os' := by
    intro s' os' v' he
    have h1 : (mkD s os v).cfg.subjects = (mkD s' os' v').cfg.subjects := by rw [he]
    have h2 : (mkD s os v).cfg.objects = (mkD s' os' v').cfg.objects := by rw [he]
    simp only [mkD, Option.some.injEq, List.cons.injEq, Filter.name.injEq, and_true] at h1 h2
    refine ⟨h1, ?_⟩
    have := congrArg (List.map Filter.id) h2
    simpa [List.map_map, Function.comp_def, Filter.id] using this
  rw [diagramRules_eq] at h
  rcases List.mem_append.1 h with h | h
  · obtain ⟨kv, hkv, he⟩ := List.mem_map.1 h
    obtain ⟨rfl, rfl⟩ := hinj _ _ _ he.symm
    intro x hx
    rcases List.mem_cons.1 hx with rfl | hx
    · exact .inr ⟨kv, hkv, .inl rfl⟩
    · exact .inr ⟨kv, hkv, .inr hx⟩
  · obtain ⟨m, hm, he⟩ := List.mem_filterMap.1 h
    unfold shouldNotOf at he
    split at he
    · cases he
    · rename_i hemp
      simp only [Option.some.injEq] at he
      obtain ⟨e1, e2⟩ := hinj _ _ _ he.symm
      rw [e1, e2]
      have hmm : m ∈ p.modules := (Hist.mem_dedup m _).1 ((mem_sortStr m _).1 hm)
      have hni : ∀ x ∈ notImportedOf p m, x ∈ p.modules ∧ x ≠ m := by
        intro x hx
        unfold notImportedOf at hx
        obtain ⟨h1, h2⟩ := List.mem_filter.1 hx
        simp only [Bool.and_eq_true, bne_iff_ne, ne_eq] at h2
        exact ⟨(Hist.mem_dedup x _).1 h1, h2.1⟩
      intro x hx
      rcases List.mem_cons.1 hx with rfl | hx
      · cases hn : notImportedOf p x with
        | nil => rw [hn] at hemp; exact absurd rfl hemp
        | cons y ys =>
          obtain ⟨hy1, hy2⟩ := hni y (by rw [hn]; simp)
          exact .inl ⟨hmm, y, hy1, hy2⟩
      · obtain ⟨h1, h2⟩ := hni x ((mem_sortStr x _).1 hx)
        exact .inl ⟨h1, m, hmm, fun e => h2 e.symm⟩

/-- **the exact statement**: a diagram check raises the lookup error exactly when some checked component is not a node
    of the graph, and it raises nothing else -/
theorem diagram_lookup_iff_lemma (mt : Str → Str → Bool) (g : PGraph Str) (so : Bool) (p : Parsed')
    (hne : ∀ kv ∈ p.dependencies, kv.2 ≠ []) :
    (applyAll mt g (diagramRules so p) = .err .lookupError ↔ ∃ m, Checked p m ∧ g.hasNode m = false) ∧
    (∀ k, applyAll mt g (diagramRules so p) = .err k → k = .lookupError) := by
  have honly : ∀ k, applyAll mt g (diagramRules so p) = .err k →
      ∃ r ∈ diagramRules so p, ruleVerdict mt g r = .err k := by
    intro k hk
    rw [applyAll_eq] at hk
    cases hf : (diagramRules so p).findSome? (fun r => (ruleVerdict mt g r).errKind) with
    | none =>
      rw [hf] at hk
      simp only at hk
      split at hk <;> cases hk
    | some k' =>
      rw [hf] at hk
      simp only [DVerdict.err.injEq] at hk
      subst hk
      obtain ⟨r, hr, hv⟩ := List.exists_of_findSome?_eq_some hf
      refine ⟨r, hr, ?_⟩
      cases hrv : ruleVerdict mt g r with
      | pass => rw [hrv] at hv; cases hv
      | fail _ => rw [hrv] at hv; cases hv
      | err k2 => rw [hrv] at hv; simp only [errKind_err, Option.some.injEq] at hv; rw [hv]
  have hkind : ∀ k, applyAll mt g (diagramRules so p) = .err k → k = .lookupError := by
    intro k hk
    obtain ⟨r, hr, hv⟩ := honly k hk
    obtain ⟨s, os, v, rfl, hv', ho⟩ := diagramRules_shape so p hne r hr
    exact (mkD_verdict mt g s os v hv' ho).2 k hv
  refine ⟨⟨?_, ?_⟩, hkind⟩
  · intro h
    obtain ⟨r, hr, hv⟩ := honly _ h
    obtain ⟨s, os, v, rfl, hv', ho⟩ := diagramRules_shape so p hne r hr
    obtain ⟨x, hx, hxn⟩ := mkD_lookup_absent mt g s os v hv' ho hv
    exact ⟨x, diagramRules_names_checked so p s os v hr x hx, hxn⟩
  · rintro ⟨m, hm, habs⟩
    exact diagram_unknown_component_lemma mt g so p hne m hm habs

/-- the name a component gets from `with_base_module` -/
def withBase (base : Option Str) (m : Str) : Str :=
  match base with
  | none => m
  | some q => prefixName q m

theorem withBase_inj (base : Option Str) (a b : Str) (h : withBase base a = withBase base b) : a = b := by
  cases base with
  | none => exact h
  | some q => exact prefixName_inj q a b h

theorem prefixParsed_modules (p : Parsed') (base : Option Str) :
    (prefixParsed p base).modules = p.modules.map (withBase base) := by
  cases base with
  | none => simp only [prefixParsed]; exact (List.map_id _).symm
  | some q => rfl

theorem prefixParsed_dependencies (p : Parsed') (base : Option Str) :
    (prefixParsed p base).dependencies = p.dependencies.map fun kv => (withBase base kv.1, kv.2.map (withBase base)) := by
  cases base with
  | none =>
    simp only [prefixParsed]
    have : (fun kv : Str × List Str => (withBase none kv.1, kv.2.map (withBase none))) = id := by
      funext kv
      show (kv.1, kv.2.map id) = kv
      rw [List.map_id]
    rw [this, List.map_id]
  | some q => rfl

/-- … with a base module: the PREFIXED component is looked up -/
theorem diagram_unknown_component_base_lemma (mt : Str → Str → Bool) (g : PGraph Str) (so : Bool) (p : Parsed')
    (base : Option Str)
    (hne : ∀ kv ∈ p.dependencies, kv.2 ≠ []) (m : Str)
    (hm : (m ∈ p.modules ∧ ∃ x ∈ p.modules, x ≠ m) ∨ ∃ kv ∈ p.dependencies, m = kv.1 ∨ m ∈ kv.2)
    (habs : g.hasNode (withBase base m) = false) :
    applyAll mt g (diagramRules so (prefixParsed p base)) = .err .lookupError := by
  refine diagram_unknown_component_lemma mt g so (prefixParsed p base) ?_ (withBase base m) ?_ habs
  · rw [prefixParsed_dependencies]
    intro kv hkv
    obtain ⟨kv0, hkv0, rfl⟩ := List.mem_map.1 hkv
    simp only [ne_eq, List.map_eq_nil_iff]
    exact hne kv0 hkv0
  · rw [prefixParsed_modules, prefixParsed_dependencies]
    rcases hm with ⟨hmm, x, hx, hxm⟩ | ⟨kv, hkv, h⟩
    · exact .inl ⟨List.mem_map_of_mem hmm, withBase base x, List.mem_map_of_mem hx,
        fun e => hxm (withBase_inj base _ _ e)⟩
    · refine .inr ⟨_, List.mem_map_of_mem hkv, ?_⟩
      rcases h with rfl | h
      · exact .inl rfl
      · exact .inr (List.mem_map_of_mem h)

theorem checked_prefix (p : Parsed') (base : Option Str) (m' : Str) :
    Checked (prefixParsed p base) m' ↔ ∃ m, m' = withBase base m ∧ Checked p m := by
  unfold Checked
  rw [prefixParsed_modules, prefixParsed_dependencies]
  constructor
  · rintro (⟨hm, x, hx, hxm⟩ | ⟨kv, hkv, h⟩)
    · obtain ⟨m, hm0, rfl⟩ := List.mem_map.1 hm
      obtain ⟨x0, hx0, rfl⟩ := List.mem_map.1 hx
      exact ⟨m, rfl, .inl ⟨hm0, x0, hx0, fun e => hxm (by rw [e])⟩⟩
    · obtain ⟨kv0, hkv0, rfl⟩ := List.mem_map.1 hkv
      rcases h with h | h
      · exact ⟨kv0.1, h, .inr ⟨kv0, hkv0, .inl rfl⟩⟩
      · obtain ⟨v, hv, rfl⟩ := List.mem_map.1 h
        exact ⟨v, rfl, .inr ⟨kv0, hkv0, .inr hv⟩⟩
  · rintro ⟨m, rfl, (⟨hm, x, hx, hxm⟩ | ⟨kv, hkv, h⟩)⟩
    · exact .inl ⟨List.mem_map_of_mem hm, withBase base x, List.mem_map_of_mem hx,
        fun e => hxm (withBase_inj base _ _ e)⟩
    · refine .inr ⟨_, List.mem_map_of_mem hkv, ?_⟩
      rcases h with rfl | h
      · exact .inl rfl
      · exact .inr (List.mem_map_of_mem h)

/-- the exact statement with a base module -/
theorem diagram_lookup_iff_base_lemma (mt : Str → Str → Bool) (g : PGraph Str) (so : Bool) (p : Parsed') (base : Option Str)
    (hne : ∀ kv ∈ p.dependencies, kv.2 ≠ []) :
    (applyAll mt g (diagramRules so (prefixParsed p base)) = .err .lookupError ↔
      ∃ m, Checked p m ∧ g.hasNode (withBase base m) = false) ∧
    (∀ k, applyAll mt g (diagramRules so (prefixParsed p base)) = .err k → k = .lookupError) := by
  have hne' : ∀ kv ∈ (prefixParsed p base).dependencies, kv.2 ≠ [] := by
    rw [prefixParsed_dependencies]
    intro kv hkv
    obtain ⟨kv0, hkv0, rfl⟩ := List.mem_map.1 hkv
    simp only [ne_eq, List.map_eq_nil_iff]
    exact hne kv0 hkv0
  obtain ⟨h1, h2⟩ := diagram_lookup_iff_lemma mt g so (prefixParsed p base) hne'
  refine ⟨h1.trans ?_, h2⟩
  constructor
  · rintro ⟨m', hc, hn⟩
    obtain ⟨m, rfl, hm⟩ := (checked_prefix p base m').1 hc
    exact ⟨m, hm, hn⟩
  · rintro ⟨m, hm, hn⟩
    exact ⟨_, (checked_prefix p base _).2 ⟨m, rfl, hm⟩, hn⟩

/-- what the parser returns: no dependor with an empty list of dependees, every component listed once, every end of an
    arrow is a component -/
theorem pumlParse_ok_props (c : Str) (p : Parsed') (h : pumlParse c = .ok p) :
    DictOK p.dependencies ∧ p.modules.Nodup ∧
    ∀ kv ∈ p.dependencies, kv.1 ∈ p.modules ∧ ∀ v ∈ kv.2, v ∈ p.modules := by
  rw [pumlParse_eq] at h
  split at h
  · cases h
  · rename_i body _
    split at h
    · cases h
      have hs := pumlAgg_spec ((splitLines body).flatMap lineModules) ((splitLines body).filterMap lineDependency)
      refine ⟨hs.1, hs.2.1, ?_⟩
      intro kv hkv
      have hmods : ∀ x, (x ∈ (pumlAgg ((splitLines body).flatMap lineModules)
            ((splitLines body).filterMap lineDependency)).dependencies.map (·.1) ∨
          x ∈ (pumlAgg ((splitLines body).flatMap lineModules)
            ((splitLines body).filterMap lineDependency)).dependencies.flatMap (·.2)) →
          x ∈ (pumlAgg ((splitLines body).flatMap lineModules)
            ((splitLines body).filterMap lineDependency)).modules := by
        intro x hx
        show x ∈ dedup _
        rw [puml_mem_dedup]
        rcases hx with hx | hx
        · exact List.mem_append_left _ (List.mem_append_right _ hx)
        · exact List.mem_append_right _ hx
      exact ⟨hmods _ (.inl (List.mem_map_of_mem hkv)),
        fun v hv => hmods _ (.inr (List.mem_flatMap.2 ⟨kv, hkv, hv⟩))⟩
    · cases h

/-- the check of the repair of F-C13c in terms of `withBase`: some component, base module prefixed, is not a node -/
theorem diagramMissing_prefix_iff (p : Parsed') (base : Option Str) (g : PGraph Str) :
    diagramMissing (prefixParsed p base) g = true ↔ ∃ m ∈ p.modules, g.hasNode (withBase base m) = false := by
  rw [Pta.Repair.diagramMissing_true_iff, prefixParsed_modules]
  constructor
  · rintro ⟨m', hm', hn⟩
    obtain ⟨m, hm, rfl⟩ := List.mem_map.1 hm'
    exact ⟨m, hm, hn⟩
  · rintro ⟨m, hm, hn⟩
    exact ⟨_, List.mem_map_of_mem hm, hn⟩

/-- **absent component, on a diagram file** (after the repair of F-C13c): the file parses and one of the components it
    draws (with the base module prefixed) is not a node of the graph — whatever else the file draws -/
theorem diagram_file_unknown_component_lemma (mt : Str → Str → Bool) (g : PGraph Str) (so : Bool) (c : Str)
    (base : Option Str) (p : Parsed') (hp : pumlParse c = .ok p) (m : Str) (hm : m ∈ p.modules)
    (habs : g.hasNode (withBase base m) = false) :
    diagramAssert mt (some c) base so g = .err .lookupError :=
  Pta.Repair.diagramAssert_of_missing mt g so c base p hp ((diagramMissing_prefix_iff p base g).2 ⟨m, hm, habs⟩)

/-- the exact statement on a diagram file that parses (after the repair of F-C13c): the lookup error iff some component
    (base module prefixed) is not a node of the graph; no other error -/
theorem diagram_file_lookup_iff_lemma (mt : Str → Str → Bool) (g : PGraph Str) (so : Bool) (c : Str)
    (base : Option Str) (p : Parsed') (hp : pumlParse c = .ok p) :
    (diagramAssert mt (some c) base so g = .err .lookupError ↔ ∃ m ∈ p.modules, g.hasNode (withBase base m) = false) ∧
    (∀ k, diagramAssert mt (some c) base so g = .err k → k = .lookupError) := by
  obtain ⟨hok, _, hin⟩ := pumlParse_ok_props c p hp
  obtain ⟨h1, h2⟩ := diagram_lookup_iff_base_lemma mt g so p base (fun kv hkv => (hok.2 kv hkv).2)
  cases hmiss : diagramMissing (prefixParsed p base) g with
  | true =>
    rw [Pta.Repair.diagramAssert_of_missing mt g so c base p hp hmiss]
    refine ⟨⟨fun _ => (diagramMissing_prefix_iff p base g).1 hmiss, fun _ => rfl⟩, ?_⟩
    intro k hk
    cases hk; rfl
  | false =>
    rw [Pta.Repair.diagramAssert_of_noMissing mt g so c base p hp hmiss]
    refine ⟨⟨fun h => ?_, fun h => ?_⟩, h2⟩
    · -- every checked component is a component
      obtain ⟨m, hc, hn⟩ := h1.1 h
      refine ⟨m, ?_, hn⟩
      rcases hc with ⟨hm, _⟩ | ⟨kv, hkv, rfl | hv⟩
      · exact hm
      · exact (hin kv hkv).1
      · exact (hin kv hkv).2 m hv
    · have := (diagramMissing_prefix_iff p base g).2 h
      rw [hmiss] at this
      cases this

/-- before the repair (`diagramAssertBeforeRepair`): only the components the generated rules name were looked up -/
theorem diagram_file_lookup_iff_before_repair_lemma (mt : Str → Str → Bool) (g : PGraph Str) (so : Bool) (c : Str)
    (base : Option Str) (p : Parsed') (hp : pumlParse c = .ok p) :
    (diagramAssertBeforeRepair mt (some c) base so g = .err .lookupError ↔
      ∃ m, Checked p m ∧ g.hasNode (withBase base m) = false) ∧
    (∀ k, diagramAssertBeforeRepair mt (some c) base so g = .err k → k = .lookupError) := by
  obtain ⟨hok, _, _⟩ := pumlParse_ok_props c p hp
  rw [Pta.Repair.diagramAssertBeforeRepair_ok mt g so c base p hp]
  exact diagram_lookup_iff_base_lemma mt g so p base (fun kv hkv => (hok.2 kv hkv).2)

/-- the boundary of the rule batch: a diagram that draws one component and no arrow generates no rule, the batch looks
    nothing up and passes whatever the graph is (the repaired `diagramAssert` checks the components before the batch) -/
theorem diagram_single_component_lemma (mt : Str → Str → Bool) (g : PGraph Str) (so : Bool) (m : Str) (base : Option Str) :
    diagramRules so (prefixParsed ⟨[m], []⟩ base) = [] ∧
    applyAll mt g (diagramRules so (prefixParsed ⟨[m], []⟩ base)) = .pass := by
  have h : diagramRules so (prefixParsed ⟨[m], []⟩ base) = [] := by
    cases base <;>
      simp [diagramRules_eq, prefixParsed, dedup, sortStr, sortBy, insertBy, shouldNotOf, notImportedOf, importedOf]
  rw [h]
  exact ⟨rfl, rfl⟩

/-! ### too-deep module names against level-limited architectures -/

/-- a well-formed name with more than `k+1` components is not a node of the graph built with `level_limit = k` -/
theorem too_deep_not_node (a : Arch) (hwf : a.wf = true) (k : Nat) (n : Name) (hn : nameWF n = true)
    (hdeep : k + 1 < n.length) : (archGraphLim a (some k)).hasNode (render n) = false := by
  cases h : (archGraphLim a (some k)).hasNode (render n)
  · rfl
  · exfalso
    obtain ⟨n', hn', he⟩ := ((buildGraph_quotient a hwf (some k)).nodes (render n)).1 h
    have hwf' : nameWF (trunc (some k) n') = true := nameWF_take (BuildNames.wf_nodes a hwf n' hn') k
    have := render_injective n (trunc (some k) n') hn hwf' he
    rw [this] at hdeep
    simp only [trunc, List.length_take] at hdeep
    omega

/-! ### `module_path` outside `root_path` -/

/-- `module_path.relative_to(root_path)` raises exactly when the roots differ or the components of the root path are
    not a prefix of those of the module path -/
theorem relativeTo_error_iff (m r : PPath) :
    m.relativeTo r = .error .lookupError ↔ (m.root == r.root && r.parts.isPrefixOf m.parts) = false := by
  unfold PPath.relativeTo
  cases h : (m.root == r.root && r.parts.isPrefixOf m.parts) <;> simp

theorem module_path_outside_root_lemma (mt : Str → Str → Bool) (fs : Str → List Entry) (rootPath modulePath : Str)
    (a : EntryArgs) (hopt : entryOptionsError (a.flags true) = none)
    (hout : (parsePath modulePath).relativeTo (parsePath rootPath) = .error .lookupError) :
    getEvaluableArchitecture mt fs rootPath modulePath a = .error (.kind .lookupError) := by
  unfold getEvaluableArchitecture
  have hp : entryPaths rootPath modulePath = .error .lookupError := by
    unfold entryPaths
    simp only [hout]
  simp only [hopt, hp]

/-- the option checks come first: a contradictory option set is reported as such whatever the two paths are -/
theorem options_before_paths_lemma (mt : Str → Str → Bool) (fs : Str → List Entry) (rootPath modulePath : Str)
    (a : EntryArgs) (k : ErrKind) (hopt : entryOptionsError (a.flags true) = some k) :
    k = .improperlyConfigured ∧
    getEvaluableArchitecture mt fs rootPath modulePath a = .error (.kind .improperlyConfigured) := by
  have hk : k = .improperlyConfigured := by
    unfold entryOptionsError EntryArgs.flags at hopt
    simp only at hopt
    split at hopt
    · cases hopt; rfl
    · split at hopt
      · cases hopt; rfl
      · split at hopt
        · cases hopt; rfl
        · simp at hopt
  subst hk
  refine ⟨rfl, ?_⟩
  unfold getEvaluableArchitecture
  simp only [hopt]

end Pta.C13M
