/-
  PtaProofs.Lemmas.SemanticsNamed — C01 / C03 beyond strict rules, all 12 shapes and the two `anything` aliases.

  The strict proof (SemHier / SemQueries / Semantics) uses `Compat f o` (same filter, or unrelated identifiers) in
  exactly one way: a member of `f` is never the PARENT IDENTIFIER of an `are_sub_modules_of` filter `o` of the rule
  (the three searches treat those identifiers specially: `parentIds`). That is all that is needed (`PFree`), so
  named filters may be related to each other in any way (equal, nested, listed several times).

  For the `anything` aliases `_convert_aliases` de-duplicates the subjects (`dedupSubjects`); the specification keeps
  them all. Every removed subject lies below a NAMED subject (since the repair of F-C12a this is how `dedupSubjects`
  chooses what to remove; before it, it was the hypothesis `dedupSafe`), so the rule on the retained subjects has the
  same verdict and the same violating imports (spec-level lemma `others_dedup`).
-/
import Bridge.Abs
import PtaProofs.Lemmas.Semantics
import PtaProofs.Lemmas.SemanticsPlain
import PtaProofs.Lemmas.AnythingDedup
import Bridge.RuleChain
namespace Pta
open PtaSpec

/-! ### the hypothesis the searches really need -/

/-- no member of `f` is the parent identifier of `o` (vacuous when `o` is an `are_named` filter) -/
def PFree (f o : SFilter) : Prop := o.isSub = true → f.mem o.id = false

theorem pfree_self (f : SFilter) : PFree f f := by
  intro h
  cases f with
  | named x => cases h
  | subOf x => simp [SFilter.mem, SFilter.id, sdesc]

theorem pfree_of_compat {f o : SFilter} (h : Compat f o) : PFree f o := by
  rcases h with rfl | h
  · exact pfree_self f
  · intro _
    cases hm : f.mem o.id
    · rfl
    · have := mem_desc f _ hm
      unfold related at h
      rw [this] at h; cases h

theorem pfree_named (f o : SFilter) (ho : o.isSub = false) : PFree f o := by
  intro h; rw [ho] at h; cases h

theorem not_parent_of_mem' {f o : SFilter} {n : Name} (h : f.mem n = true) (hc : PFree f o) (ho : o.isSub = true) :
    n ≠ o.id := by
  intro hn; subst hn
  rw [hc ho] at h; cases h

section searches
variable {a : Arch} {g : PGraph Str} (hw : ArchWF a) (hg : GraphOf a g)
include hw hg

/-- `get_dependency_between_modules` on compiled filters = the specification's `edges` (import direction) -/
theorem depBetween_rep' (f o : SFilter) (hf : f.id ∈ a.nodes) (ho : o.id ∈ a.nodes)
    (hfo : PFree f o) (hof : PFree o f) :
    ∃ l, depBetween g (compileFilter f) (compileFilter o) = .ok l ∧ Rep l (edges a true f o) := by
  obtain ⟨l, hl, hm⟩ := depBetween_ok g (compileFilter f) (compileFilter o)
    (by simpa using hasNode_render hg _ hf) (by simpa using hasNode_render hg _ ho)
  refine ⟨l, hl, ?_⟩
  intro u v
  rw [hm]
  have hpi : ∀ x, x ∈ parentIds [compileFilter f, compileFilter o] ↔
      ∃ f' ∈ [f, o], f'.isSub = true ∧ x = render f'.id := fun x => mem_parentIds_map [f, o] x
  simp only [compileFilter_id, hpi, edges, if_true, List.mem_filter, Bool.and_eq_true]
  constructor
  · rintro ⟨h1, h2, h3, h4, h5⟩
    obtain ⟨e, he, rfl, rfl⟩ := (hg.succs _ _).1 h2
    refine ⟨e, ⟨he, ?_, ?_⟩, rfl, rfl⟩
    · rw [mem_iff]
      refine ⟨(reach_render hw hg _ _ hf (hw.impL e he)).1 h1, ?_⟩
      intro hs hn
      exact h4 ⟨f, by simp, hs, by rw [hn]⟩
    · rw [mem_iff]
      refine ⟨(reach_render hw hg _ _ ho (hw.impR e he)).1 h3, ?_⟩
      intro hs hn
      exact h5 ⟨o, by simp, hs, by rw [hn]⟩
  · rintro ⟨e, ⟨he, h1, h2⟩, rfl, rfl⟩
    have hi1 := hw.nwf _ (hw.impL e he)
    have hi2 := hw.nwf _ (hw.impR e he)
    refine ⟨(reach_render hw hg _ _ hf (hw.impL e he)).2 (mem_desc _ _ h1), (hg.succs _ _).2 ⟨e, he, rfl, rfl⟩,
      (reach_render hw hg _ _ ho (hw.impR e he)).2 (mem_desc _ _ h2), ?_, ?_⟩
    · rintro ⟨f', hf', hs, hr⟩
      simp only [List.mem_cons, List.not_mem_nil, or_false] at hf'
      rcases hf' with rfl | rfl
      · exact not_parent_of_mem' h1 (pfree_self _) hs (render_injective _ _ hi1 (hw.nwf _ hf) hr)
      · exact not_parent_of_mem' h1 hfo hs (render_injective _ _ hi1 (hw.nwf _ ho) hr)
    · rintro ⟨f', hf', hs, hr⟩
      simp only [List.mem_cons, List.not_mem_nil, or_false] at hf'
      rcases hf' with rfl | rfl
      · exact not_parent_of_mem' h2 hof hs (render_injective _ _ hi2 (hw.nwf _ hf) hr)
      · exact not_parent_of_mem' h2 (pfree_self _) hs (render_injective _ _ hi2 (hw.nwf _ ho) hr)

/-- the exclusion set of the two "something else" searches, on a node `far` outside the subject's sub tree -/
theorem far_excl' (s : SFilter) (os : List SFilter) (L : List Filter)
    (hL : ∀ F, F ∈ L ↔ ∃ o ∈ os, F = compileFilter o)
    (hs : s.id ∈ a.nodes) (hos : ∀ o ∈ os, o.id ∈ a.nodes)
    (hoo : ∀ o ∈ os, ∀ p ∈ os, PFree o p)
    (far : Name) (hfar : far ∈ a.nodes) (hnd : desc s.id far = false) :
    (¬ ((∃ O ∈ L, O ≠ compileFilter s ∧ Reach g O.id (render far)) ∧ render far ∉ parentIds L)) ↔
      (os.all fun o => !o.mem far) = true := by
  simp only [List.all_eq_true, Bool.not_eq_true']
  rw [mem_parentIds_of_mem L os hL]
  constructor
  · intro h o ho
    cases hm : o.mem far
    · rfl
    · exfalso
      apply h
      refine ⟨⟨compileFilter o, (hL _).2 ⟨o, ho, rfl⟩, ?_, ?_⟩, ?_⟩
      · intro heq
        have := compileFilter_inj o s (hw.nwf _ (hos o ho)) (hw.nwf _ hs) heq
        subst this
        rw [mem_desc _ _ hm] at hnd; cases hnd
      · simpa using (reach_render hw hg _ _ (hos o ho) hfar).2 (mem_desc _ _ hm)
      · rintro ⟨p, hp, hps, hr⟩
        exact not_parent_of_mem' hm (hoo o ho p hp) hps
          (render_injective _ _ (hw.nwf _ hfar) (hw.nwf _ (hos p hp)) hr)
  · rintro h ⟨⟨O, hO, _, hr⟩, hnp⟩
    obtain ⟨o, ho, rfl⟩ := (hL O).1 hO
    have hd := (reach_render hw hg _ _ (hos o ho) hfar).1 (by simpa using hr)
    have hm := h o ho
    have : ¬ (o.isSub = true → far ≠ o.id) := by
      intro hh
      rw [(mem_iff o far).2 ⟨hd, hh⟩] at hm; cases hm
    apply hnp
    refine ⟨o, ho, ?_, ?_⟩
    · cases hsub : o.isSub
      · exact absurd (fun h' => by rw [hsub] at h'; cases h') this
      · rfl
    · congr 1
      by_cases hfo : far = o.id
      · exact hfo
      · exact absurd (fun _ => hfo) this

/-- `any_dependency_to_module_other_than` on compiled filters = `others` (import direction) -/
theorem otherFrom_rep' (s : SFilter) (os : List SFilter) (L : List Filter)
    (hL : ∀ F, F ∈ L ↔ ∃ o ∈ os, F = compileFilter o)
    (hs : s.id ∈ a.nodes) (hos : ∀ o ∈ os, o.id ∈ a.nodes)
    (hoo : ∀ o ∈ os, ∀ p ∈ os, PFree o p) :
    ∃ l, otherFrom g (compileFilter s) L = .ok l ∧ Rep l (others a true s os) := by
  obtain ⟨l, hl, hm⟩ := otherFrom_ok g (compileFilter s) L (by simpa using hasNode_render hg _ hs) (by
    intro F hF
    obtain ⟨o, ho, rfl⟩ := (hL F).1 hF
    simpa using hasNode_render hg _ (hos o ho))
  refine ⟨l, hl, ?_⟩
  intro u v
  rw [hm]
  simp only [compileFilter_id, compileFilter_isParent, others, if_true, List.mem_filter, Bool.and_eq_true,
    Bool.not_eq_true']
  constructor
  · rintro ⟨h1, h2, h3, h4, h5⟩
    obtain ⟨e, he, rfl, rfl⟩ := (hg.succs _ _).1 h3
    have hi1 := hw.nwf _ (hw.impL e he)
    have hnd : desc s.id e.2 = false := by
      cases hd : desc s.id e.2
      · rfl
      · exact absurd ((reach_render hw hg _ _ hs (hw.impR e he)).2 hd) h4
    refine ⟨e, ⟨he, ⟨?_, hnd⟩, ?_⟩, rfl, rfl⟩
    · rw [mem_iff]
      refine ⟨(reach_render hw hg _ _ hs (hw.impL e he)).1 h1, ?_⟩
      intro hsub hn
      exact h2 hsub (by rw [hn])
    · exact (far_excl' hw hg s os L hL hs hos hoo e.2 (hw.impR e he) hnd).1 (by simpa using h5)
  · rintro ⟨e, ⟨he, ⟨h1, h2⟩, h3⟩, rfl, rfl⟩
    have hi1 := hw.nwf _ (hw.impL e he)
    refine ⟨(reach_render hw hg _ _ hs (hw.impL e he)).2 (mem_desc _ _ h1), ?_,
      (hg.succs _ _).2 ⟨e, he, rfl, rfl⟩, ?_, ?_⟩
    · intro hsub hr
      exact ((mem_iff s e.1).1 h1).2 hsub (render_injective _ _ hi1 (hw.nwf _ hs) hr)
    · intro hr
      rw [(reach_render hw hg _ _ hs (hw.impR e he)).1 hr] at h2; cases h2
    · simpa using (far_excl' hw hg s os L hL hs hos hoo e.2 (hw.impR e he) h2).2 h3

/-- `any_other_dependency_to_module_than` on compiled filters = `others` (be-imported-by direction) -/
theorem otherTo_rep' (s : SFilter) (os : List SFilter) (L : List Filter)
    (hL : ∀ F, F ∈ L ↔ ∃ o ∈ os, F = compileFilter o)
    (hs : s.id ∈ a.nodes) (hos : ∀ o ∈ os, o.id ∈ a.nodes)
    (hoo : ∀ o ∈ os, ∀ p ∈ os, PFree o p) :
    ∃ l, otherTo g L (compileFilter s) = .ok l ∧ Rep l (others a false s os) := by
  obtain ⟨l, hl, hm⟩ := otherTo_ok g L (compileFilter s) (by simpa using hasNode_render hg _ hs) (by
    intro F hF
    obtain ⟨o, ho, rfl⟩ := (hL F).1 hF
    simpa using hasNode_render hg _ (hos o ho))
  refine ⟨l, hl, ?_⟩
  intro u v
  rw [hm]
  simp only [compileFilter_id, compileFilter_isParent, others, Bool.false_eq_true, if_false, List.mem_filter,
    Bool.and_eq_true, Bool.not_eq_true']
  constructor
  · rintro ⟨h1, h2, h3, h4, h5⟩
    obtain ⟨e, he, rfl, rfl⟩ := (hg.preds _ _).1 h3
    have hi1 := hw.nwf _ (hw.impL e he)
    have hi2 := hw.nwf _ (hw.impR e he)
    have hmem : s.mem e.2 = true := by
      rw [mem_iff]
      refine ⟨(reach_render hw hg _ _ hs (hw.impR e he)).1 h1, ?_⟩
      intro hsub hn
      exact h2 hsub (by rw [hn])
    have hnd : desc s.id e.1 = false := by
      cases hd : desc s.id e.1
      · rfl
      · exfalso
        apply h4
        refine ⟨(reach_render hw hg _ _ hs (hw.impL e he)).2 hd, ?_⟩
        intro hsub hr
        have h1e := render_injective _ _ hi1 (hw.nwf _ hs) hr
        have hna := hw.noAnc e he
        have hsd : sdesc e.1 e.2 = true := by
          rw [sdesc_iff, h1e]
          exact ⟨(desc_iff _ _).1 (mem_desc _ _ hmem), fun h => ((mem_iff s e.2).1 hmem).2 hsub h.symm⟩
        rw [hsd] at hna; cases hna
    refine ⟨e, ⟨he, ⟨hmem, hnd⟩, ?_⟩, rfl, rfl⟩
    exact (far_excl' hw hg s os L hL hs hos hoo e.1 (hw.impL e he) hnd).1 (by simpa using h5)
  · rintro ⟨e, ⟨he, ⟨h1, h2⟩, h3⟩, rfl, rfl⟩
    have hi2 := hw.nwf _ (hw.impR e he)
    refine ⟨(reach_render hw hg _ _ hs (hw.impR e he)).2 (mem_desc _ _ h1), ?_,
      (hg.preds _ _).2 ⟨e, he, rfl, rfl⟩, ?_, ?_⟩
    · intro hsub hr
      exact ((mem_iff s e.2).1 h1).2 hsub (render_injective _ _ hi2 (hw.nwf _ hs) hr)
    · rintro ⟨hr, _⟩
      rw [(reach_render hw hg _ _ hs (hw.impL e he)).1 hr] at h2; cases h2
    · simpa using (far_excl' hw hg s os L hL hs hos hoo e.1 (hw.impL e he) h2).2 h3

/-! ### the query families -/

theorem getDeps_spec' (A B : List SFilter) (hA : ∀ f ∈ A, f.id ∈ a.nodes) (hB : ∀ o ∈ B, o.id ∈ a.nodes)
    (hc : ∀ f ∈ A, ∀ o ∈ B, PFree f o ∧ PFree o f) :
    ∃ e, getDependencies g (A.map compileFilter) (B.map compileFilter) = .ok e ∧
      (∀ kd ∈ e, ∃ f ∈ A, ∃ o ∈ B, kd.1 = (sfilterMod f, sfilterMod o) ∧ Rep kd.2 (edges a true f o)) ∧
      (∀ f ∈ A, ∀ o ∈ B, ∃ kd ∈ e, kd.1 = (sfilterMod f, sfilterMod o) ∧ Rep kd.2 (edges a true f o)) := by
  unfold getDependencies
  have hpairs : ∀ fo, fo ∈ ((dedup (A.map compileFilter)).flatMap fun f =>
      (dedup (B.map compileFilter)).map fun o => (f, o)) ↔
      ∃ f ∈ A, ∃ o ∈ B, fo = (compileFilter f, compileFilter o) := by
    intro fo
    simp only [List.mem_flatMap, List.mem_map, mem_dedup]
    constructor
    · rintro ⟨_, ⟨f, hf, rfl⟩, _, ⟨o, ho, rfl⟩, rfl⟩; exact ⟨f, hf, o, ho, rfl⟩
    · rintro ⟨f, hf, o, ho, rfl⟩; exact ⟨_, ⟨f, hf, rfl⟩, _, ⟨o, ho, rfl⟩, rfl⟩
  obtain ⟨e, he, hm⟩ := mapM_ok_of_forall (fun fo : Filter × Filter => do
      let d ← depBetween g fo.1 fo.2
      pure ((fo.1.toMod, fo.2.toMod), d)) _ (by
    intro fo hfo
    obtain ⟨f, hf, o, ho, rfl⟩ := (hpairs fo).1 hfo
    obtain ⟨l, hl, _⟩ := depBetween_rep' hw hg f o (hA f hf) (hB o ho) (hc f hf o ho).1 (hc f hf o ho).2
    exact ⟨_, by simp only [hl, bind, Except.bind, pure, Except.pure]; rfl⟩)
  refine ⟨e, he, ?_, ?_⟩
  · intro kd hkd
    obtain ⟨fo, hfo, hfx⟩ := (hm kd).1 hkd
    obtain ⟨f, hf, o, ho, rfl⟩ := (hpairs fo).1 hfo
    obtain ⟨l, hl, hrep⟩ := depBetween_rep' hw hg f o (hA f hf) (hB o ho) (hc f hf o ho).1 (hc f hf o ho).2
    simp only [hl, bind, Except.bind, pure, Except.pure, Except.ok.injEq] at hfx
    subst hfx
    exact ⟨f, hf, o, ho, by simp, hrep⟩
  · intro f hf o ho
    obtain ⟨l, hl, hrep⟩ := depBetween_rep' hw hg f o (hA f hf) (hB o ho) (hc f hf o ho).1 (hc f hf o ho).2
    refine ⟨((sfilterMod f, sfilterMod o), l), (hm _).2 ⟨(compileFilter f, compileFilter o),
      (hpairs _).2 ⟨f, hf, o, ho, rfl⟩, ?_⟩, rfl, hrep⟩
    simp only [hl, bind, Except.bind, pure, Except.pure, compileFilter_toMod]

theorem getOtherFrom_spec' (S os : List SFilter) (hS : ∀ f ∈ S, f.id ∈ a.nodes) (hos : ∀ o ∈ os, o.id ∈ a.nodes)
    (hoo : ∀ o ∈ os, ∀ p ∈ os, PFree o p) :
    ∃ e, getOtherFrom g (S.map compileFilter) (os.map compileFilter) = .ok e ∧
      (∀ kd ∈ e, ∃ s ∈ S, kd.1 = sfilterMod s ∧ Rep kd.2 (others a true s os)) ∧
      (∀ s ∈ S, ∃ kd ∈ e, kd.1 = sfilterMod s ∧ Rep kd.2 (others a true s os)) := by
  unfold getOtherFrom
  have hL := mem_dedup_map os
  obtain ⟨e, he, hm⟩ := mapM_ok_of_forall (fun f : Filter => do
      let d ← otherFrom g f (dedup (os.map compileFilter))
      pure (f.toMod, d)) (dedup (S.map compileFilter)) (by
    intro F hF
    obtain ⟨s, hs, rfl⟩ := (mem_dedup_map S F).1 hF
    obtain ⟨l, hl, _⟩ := otherFrom_rep' hw hg s os _ hL (hS s hs) hos hoo
    exact ⟨_, by simp only [hl, bind, Except.bind, pure, Except.pure]; rfl⟩)
  refine ⟨e, he, ?_, ?_⟩
  · intro kd hkd
    obtain ⟨F, hF, hfx⟩ := (hm kd).1 hkd
    obtain ⟨s, hs, rfl⟩ := (mem_dedup_map S F).1 hF
    obtain ⟨l, hl, hrep⟩ := otherFrom_rep' hw hg s os _ hL (hS s hs) hos hoo
    simp only [hl, bind, Except.bind, pure, Except.pure, Except.ok.injEq] at hfx
    subst hfx
    exact ⟨s, hs, by simp, hrep⟩
  · intro s hs
    obtain ⟨l, hl, hrep⟩ := otherFrom_rep' hw hg s os _ hL (hS s hs) hos hoo
    refine ⟨(sfilterMod s, l), (hm _).2 ⟨compileFilter s, (mem_dedup_map S _).2 ⟨s, hs, rfl⟩, ?_⟩, rfl, hrep⟩
    simp only [hl, bind, Except.bind, pure, Except.pure, compileFilter_toMod]

theorem getOtherTo_spec' (S os : List SFilter) (hS : ∀ f ∈ S, f.id ∈ a.nodes) (hos : ∀ o ∈ os, o.id ∈ a.nodes)
    (hoo : ∀ o ∈ os, ∀ p ∈ os, PFree o p) :
    ∃ e, getOtherTo g (os.map compileFilter) (S.map compileFilter) = .ok e ∧
      (∀ kd ∈ e, ∃ s ∈ S, kd.1 = sfilterMod s ∧ Rep kd.2 (others a false s os)) ∧
      (∀ s ∈ S, ∃ kd ∈ e, kd.1 = sfilterMod s ∧ Rep kd.2 (others a false s os)) := by
  unfold getOtherTo
  have hL := mem_dedup_map os
  obtain ⟨e, he, hm⟩ := mapM_ok_of_forall (fun o : Filter => do
      let d ← otherTo g (dedup (os.map compileFilter)) o
      pure (o.toMod, d)) (dedup (S.map compileFilter)) (by
    intro F hF
    obtain ⟨s, hs, rfl⟩ := (mem_dedup_map S F).1 hF
    obtain ⟨l, hl, _⟩ := otherTo_rep' hw hg s os _ hL (hS s hs) hos hoo
    exact ⟨_, by simp only [hl, bind, Except.bind, pure, Except.pure]; rfl⟩)
  refine ⟨e, he, ?_, ?_⟩
  · intro kd hkd
    obtain ⟨F, hF, hfx⟩ := (hm kd).1 hkd
    obtain ⟨s, hs, rfl⟩ := (mem_dedup_map S F).1 hF
    obtain ⟨l, hl, hrep⟩ := otherTo_rep' hw hg s os _ hL (hS s hs) hos hoo
    simp only [hl, bind, Except.bind, pure, Except.pure, Except.ok.injEq] at hfx
    subst hfx
    exact ⟨s, hs, by simp, hrep⟩
  · intro s hs
    obtain ⟨l, hl, hrep⟩ := otherTo_rep' hw hg s os _ hL (hS s hs) hos hoo
    refine ⟨(sfilterMod s, l), (hm _).2 ⟨compileFilter s, (mem_dedup_map S _).2 ⟨s, hs, rfl⟩, ?_⟩, rfl, hrep⟩
    simp only [hl, bind, Except.bind, pure, Except.pure, compileFilter_toMod]

end searches

/-! ### what `runQueries` returns on a parent-free rule -/

structure RuleCtx' (a : Arch) (r : RuleSpec) : Prop where
  pfree : ∀ f ∈ r.subjects ++ r.effObjects, ∀ f' ∈ r.subjects ++ r.effObjects, PFree f f'
  names : ∀ f ∈ r.subjects ++ r.effObjects, f.id ∈ a.nodes

theorem runQueries_compile' {a : Arch} {g : PGraph Str} (hw : ArchWF a) (hg : GraphOf a g) (r : RuleSpec)
    (ctx : RuleCtx' a r) :
    ∃ e o, ESpec a r e ∧ OSpec a r o ∧
      runQueries g (beh r) r.importDir (r.subjects.map compileFilter) (r.effObjects.map compileFilter) =
        .ok (if ((beh r).explReq || (beh r).explForb) = true then some e else none,
             if ((beh r).otherReq || (beh r).otherForb) = true then some o else none) := by
  have hS : ∀ f ∈ r.subjects, f.id ∈ a.nodes := fun f hf => ctx.names f (List.mem_append_left _ hf)
  have hO : ∀ f ∈ r.effObjects, f.id ∈ a.nodes := fun f hf => ctx.names f (List.mem_append_right _ hf)
  have hSO : ∀ s ∈ r.subjects, ∀ o ∈ r.effObjects, PFree s o :=
    fun s hs o ho => ctx.pfree s (List.mem_append_left _ hs) o (List.mem_append_right _ ho)
  have hOS : ∀ s ∈ r.subjects, ∀ o ∈ r.effObjects, PFree o s :=
    fun s hs o ho => ctx.pfree o (List.mem_append_right _ ho) s (List.mem_append_left _ hs)
  have hOO : ∀ o ∈ r.effObjects, ∀ p ∈ r.effObjects, PFree o p :=
    fun s hs o ho => ctx.pfree s (List.mem_append_right _ hs) o (List.mem_append_right _ ho)
  cases hd : r.importDir
  · obtain ⟨e, he, he1, he2⟩ := getDeps_spec' hw hg r.effObjects r.subjects hO hS
      (fun o ho s hs => ⟨hOS s hs o ho, hSO s hs o ho⟩)
    obtain ⟨o, ho, ho1, ho2⟩ := getOtherTo_spec' hw hg r.subjects r.effObjects hS hO hOO
    refine ⟨e, o, ⟨?_, ?_⟩, ⟨?_, ?_⟩, ?_⟩
    · intro kd hkd
      obtain ⟨f, hf, s, hs, h1, h2⟩ := he1 kd hkd
      exact ⟨s, hs, f, hf, by simp [hd, userOrder, h1], by rw [hd, edges_false]; exact h2⟩
    · intro s hs f hf
      obtain ⟨kd, hkd, h1, h2⟩ := he2 f hf s hs
      exact ⟨kd, hkd, by simp [hd, userOrder, h1], by rw [hd, edges_false]; exact h2⟩
    · simpa [hd] using ho1
    · simpa [hd] using ho2
    · rw [runQueries_ok_iff]
      constructor
      · split
        · exact ⟨e, by simpa using he, rfl⟩
        · rfl
      · split
        · exact ⟨o, by simpa using ho, rfl⟩
        · rfl
  · obtain ⟨e, he, he1, he2⟩ := getDeps_spec' hw hg r.subjects r.effObjects hS hO
      (fun s hs o ho => ⟨hSO s hs o ho, hOS s hs o ho⟩)
    obtain ⟨o, ho, ho1, ho2⟩ := getOtherFrom_spec' hw hg r.subjects r.effObjects hS hO hOO
    refine ⟨e, o, ⟨?_, ?_⟩, ⟨?_, ?_⟩, ?_⟩
    · intro kd hkd
      obtain ⟨s, hs, f, hf, h1, h2⟩ := he1 kd hkd
      exact ⟨s, hs, f, hf, by simp [hd, userOrder, h1], by rw [hd]; exact h2⟩
    · intro s hs f hf
      obtain ⟨kd, hkd, h1, h2⟩ := he2 s hs f hf
      exact ⟨kd, hkd, by simp [hd, userOrder, h1], by rw [hd]; exact h2⟩
    · simpa [hd] using ho1
    · simpa [hd] using ho2
    · rw [runQueries_ok_iff]
      constructor
      · split
        · exact ⟨e, by simpa using he, rfl⟩
        · rfl
      · split
        · exact ⟨o, by simpa using ho, rfl⟩
        · rfl

/-! ### verdict and report, given that the alias conversion removes nothing -/

theorem verdict_core {a : Arch} {g : PGraph Str} (mt : Str → Str → Bool) (hw : ArchWF a) (hg : GraphOf a g)
    (r : RuleSpec) (ctx : RuleCtx' a r)
    (hs : r.subjects ≠ []) (ho : r.anything = true ∨ r.objects ≠ [])
    (hany : r.anything = true → r.verb = .shouldNot)
    (hdd : r.anything = true → dedupSubjects (r.subjects.map compileFilter) = r.subjects.map compileFilter) :
    verdictOf mt g (compile r) = VClass.ofBool (verdict a r) := by
  obtain ⟨e, o, hE, hO, hq⟩ := runQueries_compile' hw hg r ctx
  unfold verdictOf
  rw [assertApplies_compile mt g r hs ho hany hdd, hq]
  have hEn := (realised_isEmpty r.importDir e).trans (all_transfer_E hE _ _ (fun _ _ h => h.isEmpty))
  have hEa := (abstractWithout_isEmpty r.importDir e).trans
    (all_transfer_E hE (fun l => !l.isEmpty) (fun l => !l.isEmpty) (fun _ _ h => by simp only [h.isEmpty]))
  have hOn := (realised_isEmpty r.importDir o).trans (all_transfer_O hO _ _ (fun _ _ h => h.isEmpty))
  have hOa := (missingOther_isEmpty o ((r.effObjects.map compileFilter).map Filter.toMod)
      (by simpa using effObjects_ne_nil r hs ho)).trans
    (all_transfer_O hO (fun l => !l.isEmpty) (fun l => !l.isEmpty) (fun _ _ h => by simp only [h.isEmpty]))
  unfold verdict
  simp only []
  generalize (r.subjects.all fun s => r.effObjects.all fun o => (edges a r.importDir s o).isEmpty) = EN at *
  generalize (r.subjects.all fun s => r.effObjects.all fun o => !(edges a r.importDir s o).isEmpty) = EA at *
  generalize (r.subjects.all fun s => (others a r.importDir s r.effObjects).isEmpty) = ON at *
  generalize (r.subjects.all fun s => !(others a r.importDir s r.effObjects).isEmpty) = OA at *
  have hb : beh r = ⟨r.verb == .should, r.verb == .shouldOnly, r.verb == .shouldNot, r.effExc⟩ := rfl
  rw [hb]
  generalize r.verb = v
  generalize r.effExc = x
  rw [detect_any, hEn, hEa, hOn, hOa]
  cases v <;> cases x <;> simp only [] <;> cases EA <;> cases EN <;> cases OA <;> cases ON <;> rfl

theorem report_core {a : Arch} {g : PGraph Str} (mt : Str → Str → Bool) (hw : ArchWF a) (hg : GraphOf a g)
    (r : RuleSpec) (ctx : RuleCtx' a r)
    (hs : r.subjects ≠ []) (ho : r.anything = true ∨ r.objects ≠ [])
    (hany : r.anything = true → r.verb = .shouldNot)
    (hdd : r.anything = true → dedupSubjects (r.subjects.map compileFilter) = r.subjects.map compileFilter)
    (items : List Item) (h : (assertApplies mt (compile r) g).2 = .fail items) :
    ∀ x, x ∈ items.flatMap Item.atoms ↔ x ∈ (violating a r).flatMap SItem.atoms := by
  obtain ⟨e, o, hE, hO, hq⟩ := runQueries_compile' hw hg r ctx
  rw [assertApplies_compile mt g r hs ho hany hdd, hq] at h
  simp only [] at h
  have key : ∀ (V : Violations), (if V.any = true then Verdict.fail (reportItems r.importDir V) else .pass) = .fail items →
      items = reportItems r.importDir V := by
    intro V hV
    split at hV
    · cases hV; rfl
    · cases hV
  have hit := key _ h
  subst hit
  intro x
  have h1 := eforb_iff hE x
  have h2 := oforb_iff hO x
  have h3 := eneed_iff hE x
  have h4 := oneed_iff hO x
  have hb : beh r = ⟨r.verb == .should, r.verb == .shouldOnly, r.verb == .shouldNot, r.effExc⟩ := rfl
  rw [hb, report_detect, mem_violating]
  generalize r.verb = v at *
  generalize r.effExc = c at *
  cases v <;> cases c <;> simp only [h1, h2, h3, h4]

/-! ### the domains -/

theorem strict_compat_pairs (r : RuleSpec) (hstrict : r.strict = true) :
    ∀ f ∈ filtersOf r, ∀ f' ∈ filtersOf r, Compat f f' := by
  unfold RuleSpec.strict at hstrict
  unfold filtersOf RuleSpec.effObjects
  cases hany : r.anything
  · rw [hany] at hstrict
    simp only [Bool.false_eq_true, if_false, ← List.map_append] at hstrict ⊢
    exact pw_compat _ hstrict
  · rw [hany] at hstrict
    simp only [if_true, List.append_nil] at hstrict ⊢
    have := pw_compat _ hstrict
    intro f hf f' hf'
    exact this f (by simpa using hf) f' (by simpa using hf')

theorem compatible_iff (r : RuleSpec) :
    compatible r = true ↔
      ∀ p ∈ filtersOf r, p.isSub = true → ∀ f ∈ filtersOf r, f = p ∨ related p.id f.id = false := by
  simp only [compatible, List.all_eq_true, Bool.or_eq_true, Bool.not_eq_true', decide_eq_true_eq]
  constructor
  · intro h p hp hs f hf
    rcases h p hp with h1 | h1
    · rw [hs] at h1; cases h1
    · exact h1 f hf
  · intro h p hp
    cases hs : p.isSub
    · exact .inl rfl
    · exact .inr (h p hp hs)

theorem parentFree_iff (r : RuleSpec) :
    parentFree r = true ↔ ∀ f ∈ filtersOf r, ∀ p ∈ filtersOf r, PFree f p := by
  simp only [parentFree, List.all_eq_true, Bool.or_eq_true, Bool.not_eq_true', PFree]
  constructor
  · intro h f hf p hp hs
    rcases h p hp with h1 | h1
    · rw [hs] at h1; cases h1
    · exact h1 f hf
  · intro h p hp
    cases hs : p.isSub
    · exact .inl rfl
    · exact .inr fun f hf => h f hf p hp hs

theorem dedupSafe_iff (r : RuleSpec) :
    dedupSafe r = true ↔ (r.anything = true → ∀ m ∈ r.subjects, (∃ o ∈ r.subjects, sdesc o.id m.id = true) →
      ∃ o ∈ r.subjects, o.isSub = false ∧ sdesc o.id m.id = true) := by
  simp only [dedupSafe, List.all_eq_true, Bool.or_eq_true, Bool.not_eq_true', List.any_eq_true, Bool.and_eq_true,
    List.any_eq_false]
  constructor
  · intro h ha m hm ⟨o, ho, hsd⟩
    rcases h with h | h
    · rw [ha] at h; cases h
    · rcases h m hm with h1 | h1
      · have := h1 o ho
        rw [hsd] at this; exact absurd this (by simp)
      · exact h1
  · intro h
    cases ha : r.anything
    · exact .inl rfl
    · right
      intro m hm
      by_cases hex : ∃ o ∈ r.subjects, sdesc o.id m.id = true
      · exact .inr (h ha m hm hex)
      · left
        intro o ho
        cases hsd : sdesc o.id m.id
        · simp
        · exact absurd ⟨o, ho, hsd⟩ hex

theorem strict_compatible (r : RuleSpec) (h : r.strict = true) : compatible r = true := by
  rw [compatible_iff]
  intro p hp _ f hf
  rcases strict_compat_pairs r h p hp f hf with h1 | h1
  · exact .inl h1.symm
  · exact .inr h1

theorem allNamed_compatible (r : RuleSpec) (h : allNamedRule r = true) : compatible r = true := by
  rw [compatible_iff]
  intro p hp hs
  have := allNamed_mem (l := filtersOf r) h p hp
  rw [hs] at this; cases this

theorem compatible_parentFree (r : RuleSpec) (h : compatible r = true) : parentFree r = true := by
  rw [parentFree_iff]
  rw [compatible_iff] at h
  intro f hf p hp hs
  rcases h p hp hs f hf with rfl | hr
  · exact pfree_self f hs
  · cases hm : f.mem p.id
    · rfl
    · have := mem_desc f _ hm
      unfold related at hr
      rw [this] at hr; simp at hr

theorem compatible_dedupSafe (r : RuleSpec) (h : compatible r = true) : dedupSafe r = true := by
  rw [dedupSafe_iff]
  rw [compatible_iff] at h
  intro ha m hm ⟨o, ho, hsd⟩
  refine ⟨o, ho, ?_, hsd⟩
  cases hs : o.isSub
  · rfl
  · exfalso
    have hsd' := (sdesc_iff _ _).1 hsd
    rcases h o (List.mem_append_left _ ho) hs m (List.mem_append_left _ hm) with rfl | hr
    · exact hsd'.2 rfl
    · unfold related at hr
      rw [(desc_iff _ _).2 hsd'.1] at hr; simp at hr

theorem compatible_admissible (r : RuleSpec) (h : compatible r = true) : admissible r = true := by
  unfold admissible
  rw [compatible_parentFree r h, compatible_dedupSafe r h]; rfl

theorem strict_admissible (r : RuleSpec) (h : r.strict = true) : admissible r = true :=
  compatible_admissible r (strict_compatible r h)

theorem allNamed_admissible (r : RuleSpec) (h : allNamedRule r = true) : admissible r = true :=
  compatible_admissible r (allNamed_compatible r h)

theorem namesIn_iff (r : RuleSpec) (a : Arch) : r.namesIn a = true ↔ ∀ f ∈ filtersOf r, f.id ∈ a.nodes := by
  unfold RuleSpec.namesIn filtersOf
  simp only [List.all_eq_true, List.contains_iff_mem]

theorem ruleCtx'_of (a : Arch) (r : RuleSpec) (hpf : parentFree r = true) (hnames : r.namesIn a = true) :
    RuleCtx' a r :=
  ⟨(parentFree_iff r).1 hpf, (namesIn_iff r a).1 hnames⟩

/-! ### the subjects `_convert_aliases` retains -/

theorem mem_keptSubjects (S : List SFilter) (m : SFilter) :
    m ∈ keptSubjects S ↔ m ∈ S ∧ ∀ o ∈ S, (!o.isSub && sdesc o.id m.id) = false := by
  simp only [keptSubjects, keepSubject, List.mem_filter, Bool.not_eq_true', List.any_eq_false, Bool.not_eq_true]

theorem keptSubjects_subset (S : List SFilter) : ∀ m ∈ keptSubjects S, m ∈ S :=
  fun m hm => ((mem_keptSubjects S m).1 hm).1

theorem dedupSubjects_map (S : List SFilter) (hS : ∀ f ∈ S, nameWF f.id = true) :
    dedupSubjects (S.map compileFilter) = (keptSubjects S).map compileFilter := by
  unfold dedupSubjects keptSubjects
  rw [List.filter_map]
  congr 1
  apply List.filter_congr
  intro m hm
  simp only [Function.comp, keepSubject, List.any_map, compileFilter_id]
  congr 1
  apply any_congr_mem
  intro o ho
  simp only [Function.comp, compileFilter_id, compileFilter_isParent]
  rw [isStrictSub_render _ _ (hS o ho) (hS m hm)]

theorem sdesc_length {x n : Name} (h : sdesc x n = true) : x.length < n.length := by
  obtain ⟨hp, hne⟩ := (sdesc_iff _ _).1 h
  have := hp.length_le
  rcases Nat.lt_or_ge x.length n.length with h1 | h1
  · exact h1
  · exact absurd (hp.eq_of_length (by omega)) hne

theorem desc_trans {x y z : Name} (h1 : desc x y = true) (h2 : desc y z = true) : desc x z = true :=
  (desc_iff _ _).2 (((desc_iff _ _).1 h1).trans ((desc_iff _ _).1 h2))

/-- every subject is retained or lies below a retained NAMED subject (unconditionally since the repair of F-C12a:
    only a subject given by name makes `_convert_aliases` remove another subject) -/
theorem kept_cover (S : List SFilter) :
    ∀ m ∈ S, m ∈ keptSubjects S ∨ ∃ k ∈ keptSubjects S, k.isSub = false ∧ desc k.id m.id = true := by
  have key : ∀ n, ∀ m ∈ S, m.id.length ≤ n →
      m ∈ keptSubjects S ∨ ∃ k ∈ keptSubjects S, k.isSub = false ∧ desc k.id m.id = true := by
    intro n
    induction n with
    | zero =>
      intro m hm hl
      left
      refine (mem_keptSubjects S m).2 ⟨hm, fun o _ => ?_⟩
      cases h : sdesc o.id m.id
      · exact Bool.and_false _
      · have := sdesc_length h; omega
    | succ n ih =>
      intro m hm hl
      by_cases hk : m ∈ keptSubjects S
      · exact .inl hk
      · right
        have hex : ∃ o ∈ S, o.isSub = false ∧ sdesc o.id m.id = true := by
          apply Classical.byContradiction
          intro hno
          apply hk
          refine (mem_keptSubjects S m).2 ⟨hm, fun o ho => ?_⟩
          cases h : (!o.isSub && sdesc o.id m.id)
          · rfl
          · rw [Bool.and_eq_true, Bool.not_eq_true'] at h
            exact absurd ⟨o, ho, h.1, h.2⟩ hno
        obtain ⟨o, ho, hon, hsd⟩ := hex
        have hlt := sdesc_length hsd
        have hd : desc o.id m.id = true := (desc_iff _ _).2 ((sdesc_iff _ _).1 hsd).1
        rcases ih o ho (by omega) with h1 | ⟨k, hk', hkn, hkd⟩
        · exact ⟨o, h1, hon, hd⟩
        · exact ⟨k, hk', hkn, desc_trans hkd hd⟩
  intro m hm
  exact key _ m hm (Nat.le_refl _)

theorem mem_named {k : SFilter} (hk : k.isSub = false) (n : Name) : k.mem n = desc k.id n := by
  cases k with
  | named x => rfl
  | subOf x => cases hk

theorem mem_others (a : Arch) (dir : Bool) (s : SFilter) (os : List SFilter) (e : Name × Name) :
    e ∈ others a dir s os ↔ e ∈ a.imports ∧ s.mem (if dir then e.1 else e.2) = true ∧
      desc s.id (if dir then e.2 else e.1) = false ∧ ∀ o ∈ os, o.mem (if dir then e.2 else e.1) = false := by
  simp only [others, List.mem_filter, Bool.and_eq_true, Bool.not_eq_true', List.all_eq_true, and_assoc]

/-- the imports violating `S should_not … anything` are the imports violating the rule on the retained subjects -/
theorem others_dedup (a : Arch) (dir : Bool) (S : List SFilter) (e : Name × Name) :
    (∃ s ∈ keptSubjects S, e ∈ others a dir s (keptSubjects S)) ↔ (∃ s ∈ S, e ∈ others a dir s S) := by
  have hcov := kept_cover S
  have hall : ∀ far, (∀ o ∈ keptSubjects S, o.mem far = false) → ∀ o ∈ S, o.mem far = false := by
    intro far h o ho
    rcases hcov o ho with hk | ⟨k, hk, hkn, hkd⟩
    · exact h o hk
    · cases hm : o.mem far
      · rfl
      · have := h k hk
        rw [mem_named hkn, desc_trans hkd (mem_desc _ _ hm)] at this; cases this
  simp only [mem_others]
  constructor
  · rintro ⟨s, hs, he, h1, h2, h3⟩
    exact ⟨s, keptSubjects_subset S s hs, he, h1, h2, hall _ h3⟩
  · rintro ⟨s, hs, he, h1, h2, h3⟩
    have h3' : ∀ o ∈ keptSubjects S, o.mem (if dir = true then e.2 else e.1) = false :=
      fun o ho => h3 o (keptSubjects_subset S o ho)
    rcases hcov s hs with hk | ⟨k, hk, hkn, hkd⟩
    · exact ⟨s, hk, he, h1, h2, h3'⟩
    · refine ⟨k, hk, he, ?_, ?_, h3'⟩
      · rw [mem_named hkn]; exact desc_trans hkd (mem_desc _ _ h1)
      · rw [← mem_named hkn]; exact h3' k hk

theorem keptSubjects_ne_nil (S : List SFilter) (hne : S ≠ []) : keptSubjects S ≠ [] := by
  obtain ⟨m, hm⟩ := List.exists_mem_of_ne_nil S hne
  rcases kept_cover S m hm with hk | ⟨k, hk, _⟩
  · exact List.ne_nil_of_mem hk
  · exact List.ne_nil_of_mem hk

/-! ### the `anything` aliases: model side and specification side -/

/-- `assert_applies` on the alias = `assert_applies` on the `except` rule over the retained subjects -/
theorem assertApplies_deAlias {a : Arch} {g : PGraph Str} (mt : Str → Str → Bool) (hw : ArchWF a) (hg : GraphOf a g)
    (r : RuleSpec) (hS : ∀ f ∈ r.subjects, f.id ∈ a.nodes) (ha : r.anything = true) (hv : r.verb = .shouldNot) :
    (assertApplies mt (compile r) g).2 = (assertApplies mt (compile (deAlias r)) g).2 := by
  have h1 : compile r = anythingRule r.importDir (r.subjects.map compileFilter) := by
    obtain ⟨verb, dir, exc, subjects, objects, anything⟩ := r
    simp only at ha hv
    subst ha; subst hv
    rfl
  have h2 : compile (deAlias r) = mkRule false false true r.importDir true
      ((keptSubjects r.subjects).map compileFilter) ((keptSubjects r.subjects).map compileFilter) := rfl
  rw [h1, h2, ← dedupSubjects_map r.subjects (fun f hf => hw.nwf _ (hS f hf))]
  apply anything_alias_dedup_of_nodes
  intro F hF _
  obtain ⟨f, hf, rfl⟩ := List.mem_map.1 hF
  simpa using hasNode_render hg _ (hS f hf)

theorem isEmpty_iff_forall {α : Type} (l : List α) : l.isEmpty = true ↔ ∀ x, x ∉ l := by
  rw [List.isEmpty_iff, List.eq_nil_iff_forall_not_mem]

theorem verdict_anything (a : Arch) (r : RuleSpec) (ha : r.anything = true) (hv : r.verb = .shouldNot) :
    verdict a r = r.subjects.all fun s => (others a r.importDir s r.subjects).isEmpty := by
  unfold verdict RuleSpec.effObjects RuleSpec.effExc
  simp only [ha, hv, if_true, Bool.true_or]

theorem verdict_deAlias_eq (a : Arch) (r : RuleSpec) (ha : r.anything = true) (hv : r.verb = .shouldNot) :
    verdict a (deAlias r) = verdict a r := by
  have hd := others_dedup a r.importDir r.subjects
  rw [verdict_anything a r ha hv]
  have : verdict a (deAlias r) =
      (keptSubjects r.subjects).all fun s => (others a r.importDir s (keptSubjects r.subjects)).isEmpty := rfl
  rw [this, Bool.eq_iff_iff]
  simp only [List.all_eq_true, isEmpty_iff_forall]
  constructor
  · intro h s hs' e he
    obtain ⟨k, hk, hke⟩ := (hd e).2 ⟨s, hs', he⟩
    exact h k hk e hke
  · intro h k hk e he
    obtain ⟨s, hs', hse⟩ := (hd e).1 ⟨k, hk, he⟩
    exact h s hs' e hse

theorem violating_deAlias_iff (a : Arch) (r : RuleSpec) (ha : r.anything = true) (hv : r.verb = .shouldNot)
    (x : Atom) :
    x ∈ (violating a (deAlias r)).flatMap SItem.atoms ↔ x ∈ (violating a r).flatMap SItem.atoms := by
  have hd := others_dedup a r.importDir r.subjects
  rw [mem_violating, mem_violating]
  have e1 : (deAlias r).verb = .shouldNot := rfl
  have e2 : (deAlias r).effExc = true := rfl
  have e3 : r.effExc = true := by simp [RuleSpec.effExc, ha]
  rw [e1, e2, hv, e3]
  simp only []
  rw [mem_sOforb, mem_sOforb]
  have e4 : (deAlias r).effObjects = keptSubjects r.subjects := rfl
  have e5 : r.effObjects = r.subjects := by simp [RuleSpec.effObjects, ha]
  have e6 : (deAlias r).subjects = keptSubjects r.subjects := rfl
  have e7 : (deAlias r).importDir = r.importDir := rfl
  rw [e4, e5, e6, e7]
  constructor
  · rintro ⟨k, hk, e, he, rfl⟩
    obtain ⟨s, hs', hse⟩ := (hd e).1 ⟨k, hk, he⟩
    exact ⟨s, hs', e, hse, rfl⟩
  · rintro ⟨s, hs', e, he, rfl⟩
    obtain ⟨k, hk, hke⟩ := (hd e).2 ⟨s, hs', he⟩
    exact ⟨k, hk, e, hke, rfl⟩

theorem ruleCtx'_deAlias {a : Arch} {r : RuleSpec} (ctx : RuleCtx' a r) :
    RuleCtx' a (deAlias r) := by
  have hsub : ∀ f ∈ (deAlias r).subjects ++ (deAlias r).effObjects, f ∈ r.subjects ++ r.effObjects := by
    intro f hf
    have : f ∈ keptSubjects r.subjects := by
      have e : (deAlias r).subjects ++ (deAlias r).effObjects = keptSubjects r.subjects ++ keptSubjects r.subjects := rfl
      rw [e] at hf
      simpa using hf
    exact List.mem_append_left _ (keptSubjects_subset _ f this)
  exact ⟨fun f hf f' hf' => ctx.pfree f (hsub f hf) f' (hsub f' hf'), fun f hf => ctx.names f (hsub f hf)⟩

/-! ### the general oracle lemmas -/

/-- since the repair of F-C12a `parentFree` alone suffices (the `dedupSafe` half of `admissible` is not used) -/
theorem verdict_spec_pf_lemma (mt : Str → Str → Bool) (a : Arch) (g : PGraph Str) (hg : GraphOf a g)
    (hwf : a.wf = true) (r : RuleSpec) (hpf : parentFree r = true) (hnames : r.namesIn a = true)
    (hs : r.subjects ≠ []) (ho : r.anything = true ∨ r.objects ≠ [])
    (hany : r.anything = true → r.verb = .shouldNot) :
    verdictOf mt g (compile r) = VClass.ofBool (verdict a r) := by
  have hw := archWF_of_wf a hwf
  have ctx := ruleCtx'_of a r hpf hnames
  cases ha : r.anything
  · exact verdict_core mt hw hg r ctx hs ho hany (by rw [ha]; intro h; cases h)
  · have hv := hany ha
    have hS : ∀ f ∈ r.subjects, f.id ∈ a.nodes := fun f hf => ctx.names f (List.mem_append_left _ hf)
    unfold verdictOf
    rw [assertApplies_deAlias mt hw hg r hS ha hv, ← verdict_deAlias_eq a r ha hv]
    exact verdict_core mt hw hg (deAlias r) (ruleCtx'_deAlias ctx) (keptSubjects_ne_nil _ hs)
      (.inr (keptSubjects_ne_nil _ hs)) (fun h => by cases h) (fun h => by cases h)

theorem report_spec_pf_lemma (mt : Str → Str → Bool) (a : Arch) (g : PGraph Str) (hg : GraphOf a g)
    (hwf : a.wf = true) (r : RuleSpec) (hpf : parentFree r = true) (hnames : r.namesIn a = true)
    (hs : r.subjects ≠ []) (ho : r.anything = true ∨ r.objects ≠ [])
    (hany : r.anything = true → r.verb = .shouldNot) (items : List Item)
    (h : (assertApplies mt (compile r) g).2 = .fail items) :
    ∀ x, x ∈ items.flatMap Item.atoms ↔ x ∈ (violating a r).flatMap SItem.atoms := by
  have hw := archWF_of_wf a hwf
  have ctx := ruleCtx'_of a r hpf hnames
  cases ha : r.anything
  · exact report_core mt hw hg r ctx hs ho hany (by rw [ha]; intro h; cases h) items h
  · have hv := hany ha
    have hS : ∀ f ∈ r.subjects, f.id ∈ a.nodes := fun f hf => ctx.names f (List.mem_append_left _ hf)
    rw [assertApplies_deAlias mt hw hg r hS ha hv] at h
    intro x
    rw [← violating_deAlias_iff a r ha hv x]
    exact report_core mt hw hg (deAlias r) (ruleCtx'_deAlias ctx) (keptSubjects_ne_nil _ hs)
      (.inr (keptSubjects_ne_nil _ hs)) (fun h => by cases h) (fun h => by cases h) items h x

theorem admissible_parentFree (r : RuleSpec) (hadm : admissible r = true) : parentFree r = true := by
  unfold admissible at hadm
  rw [Bool.and_eq_true] at hadm
  exact hadm.1

theorem verdict_spec_adm_lemma (mt : Str → Str → Bool) (a : Arch) (g : PGraph Str) (hg : GraphOf a g)
    (hwf : a.wf = true) (r : RuleSpec) (hadm : admissible r = true) (hnames : r.namesIn a = true)
    (hs : r.subjects ≠ []) (ho : r.anything = true ∨ r.objects ≠ [])
    (hany : r.anything = true → r.verb = .shouldNot) :
    verdictOf mt g (compile r) = VClass.ofBool (verdict a r) :=
  verdict_spec_pf_lemma mt a g hg hwf r (admissible_parentFree r hadm) hnames hs ho hany

theorem report_spec_adm_lemma (mt : Str → Str → Bool) (a : Arch) (g : PGraph Str) (hg : GraphOf a g)
    (hwf : a.wf = true) (r : RuleSpec) (hadm : admissible r = true) (hnames : r.namesIn a = true)
    (hs : r.subjects ≠ []) (ho : r.anything = true ∨ r.objects ≠ [])
    (hany : r.anything = true → r.verb = .shouldNot) (items : List Item)
    (h : (assertApplies mt (compile r) g).2 = .fail items) :
    ∀ x, x ∈ items.flatMap Item.atoms ↔ x ∈ (violating a r).flatMap SItem.atoms :=
  report_spec_pf_lemma mt a g hg hwf r (admissible_parentFree r hadm) hnames hs ho hany items h

/-! ### the fluent chain reaches `compile r` -/

theorem namingOp_step (glob : Str → Str) (s : RuleState) (fs : List SFilter) (h : homogeneous fs = true) :
    s.step glob (namingOp fs) = s.setModules (fs.map compileFilter) := by
  have hN : (fs.all fun f => !f.isSub) = true → (fs.map fun f => render f.id).map Filter.name = fs.map compileFilter := by
    intro hn
    rw [List.map_map]
    apply List.map_congr_left
    intro f hf
    have := List.all_eq_true.1 hn f hf
    cases f with
    | named x => rfl
    | subOf x => simp [SFilter.isSub] at this
  have hP : (fs.all fun f => f.isSub) = true → (fs.map fun f => render f.id).map Filter.parent = fs.map compileFilter := by
    intro hn
    rw [List.map_map]
    apply List.map_congr_left
    intro f hf
    have := List.all_eq_true.1 hn f hf
    cases f with
    | named x => simp [SFilter.isSub] at this
    | subOf x => rfl
  unfold homogeneous at h
  rw [Bool.or_eq_true] at h
  cases fs with
  | nil => rfl
  | cons f t =>
    cases f with
    | named x =>
      have : ((SFilter.named x :: t).all fun f => !f.isSub) = true := by
        rcases h with h | h
        · exact h
        · simp [SFilter.isSub] at h
      simp only [namingOp, RuleState.step]
      rw [hN this]
    | subOf x =>
      have : ((SFilter.subOf x :: t).all fun f => f.isSub) = true := by
        rcases h with h | h
        · simp [SFilter.isSub] at h
        · exact h
      simp only [namingOp, RuleState.step]
      rw [hP this]

/-- the state of the fluent builder after the complete chain is `compile r` -/
theorem ruleOps_state_lemma (glob : Str → Str) (r : RuleSpec) (hf : fluent r = true) :
    (ruleOps r).foldlM (RuleState.step glob) ({} : RuleState) = .ok (compile r) := by
  obtain ⟨verb, dir, exc, subjects, objects, anything⟩ := r
  unfold fluent at hf
  simp only [Bool.and_eq_true, Bool.or_eq_true] at hf
  obtain ⟨hS, hO⟩ := hf
  unfold ruleOps
  cases anything
  · have hO' : homogeneous objects = true := by simpa using hO
    simp only [Bool.false_eq_true, if_false, List.cons_append, List.nil_append, List.foldlM_cons, List.foldlM_nil]
    simp only [namingOp_step, hS, hO']
    cases verb <;> cases dir <;> cases exc <;>
      simp [RuleState.step, RuleState.setModules, verbRuleOp, importRuleOp, compile,
        bind, Except.bind, pure, Except.pure]
  · simp only [if_true, List.append_nil, List.foldlM_cons, List.foldlM_nil]
    simp only [namingOp_step, hS]
    cases verb <;> cases dir <;>
      simp [RuleState.step, RuleState.setModules, verbRuleOp, importRuleOp, compile,
        bind, Except.bind, pure, Except.pure]

theorem runRuleOps_go_ok (glob : Str → Str) (mt : Str → Str → Bool) (g : PGraph Str) (ops : List RuleOp) :
    ∀ (s s' : RuleState) (i : Nat), ops.foldlM (RuleState.step glob) s = .ok s' →
      runRuleOps.go glob mt g s i ops = ((assertApplies mt s' g).2, i + ops.length) := by
  induction ops with
  | nil =>
    intro s s' i h
    simp only [List.foldlM_nil, pure, Except.pure, Except.ok.injEq] at h
    subst h
    rfl
  | cons op rest ih =>
    intro s s' i h
    rw [List.foldlM_cons] at h
    cases hst : s.step glob op with
    | error k => rw [hst] at h; simp [bind, Except.bind] at h
    | ok s1 =>
      rw [hst] at h
      simp only [bind, Except.bind] at h
      simp only [runRuleOps.go, hst]
      rw [ih s1 s' (i + 1) h, List.length_cons]
      congr 1
      omega

theorem runRuleOps_chain_lemma (glob : Str → Str) (mt : Str → Str → Bool) (g : PGraph Str) (r : RuleSpec)
    (hf : fluent r = true) :
    runRuleOps glob mt (ruleOps r) g = ((assertApplies mt (compile r) g).2, (ruleOps r).length) := by
  unfold runRuleOps
  rw [runRuleOps_go_ok glob mt g (ruleOps r) {} (compile r) 0 (ruleOps_state_lemma glob r hf), Nat.zero_add]

/-! ### the literal reading of "something else" -/

theorem others_literal_agree_lemma (a : Arch) (r : RuleSpec) (h : noImportToOwnParent a r = true) :
    ∀ s ∈ r.subjects, ∀ os, othersLit a r.importDir s os = others a r.importDir s os := by
  intro s hs os
  unfold othersLit others
  apply List.filter_congr
  intro e he
  simp only []
  generalize hnear : (if r.importDir = true then e.1 else e.2) = near
  generalize hfar : (if r.importDir = true then e.2 else e.1) = far
  cases hm : s.mem near
  · rfl
  · simp only [Bool.true_and]
    congr 1
    cases s with
    | named x => rfl
    | subOf x =>
      simp only [noImportToOwnParent, List.all_eq_true, Bool.or_eq_true, Bool.not_eq_true', Bool.and_eq_false_iff] at h
      have h1 := h _ hs
      simp only [SFilter.isSub, Bool.true_eq_false, false_or] at h1
      have h2 := h1 e he
      rw [hnear, hfar, hm] at h2
      simp only [Bool.true_eq_false, false_or, SFilter.id, beq_eq_false_iff_ne, ne_eq] at h2
      simp only [SFilter.mem, SFilter.id, sdesc, desc]
      have : (x != far) = true := bne_iff_ne.2 (fun h => h2 h.symm)
      rw [this, Bool.and_true]

theorem all_congr_mem {α : Type} (l : List α) (p q : α → Bool) (h : ∀ x ∈ l, p x = q x) : l.all p = l.all q := by
  induction l with
  | nil => rfl
  | cons a l ih =>
    simp only [List.all_cons, h a (List.mem_cons_self ..), ih fun x hx => h x (List.mem_cons_of_mem _ hx)]

theorem verdict_literal_agree_lemma (a : Arch) (r : RuleSpec) (h : noImportToOwnParent a r = true) :
    verdictLit a r = verdict a r := by
  have hl := others_literal_agree_lemma a r h
  unfold verdictLit verdict
  simp only []
  have e1 : (r.subjects.all fun s => !(othersLit a r.importDir s r.effObjects).isEmpty) =
      (r.subjects.all fun s => !(others a r.importDir s r.effObjects).isEmpty) := by
    apply all_congr_mem
    intro s hs; rw [hl s hs]
  have e2 : (r.subjects.all fun s => (othersLit a r.importDir s r.effObjects).isEmpty) =
      (r.subjects.all fun s => (others a r.importDir s r.effObjects).isEmpty) := by
    apply all_congr_mem
    intro s hs; rw [hl s hs]
  rw [e1, e2]
  generalize r.verb = v
  generalize r.effExc = x
  cases v <;> cases x <;> rfl

end Pta
