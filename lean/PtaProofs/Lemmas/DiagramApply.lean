/-
  PtaProofs.Lemmas.DiagramApply — `applyAll` (MultipleRuleApplier) in closed form, and the commutation of
  `diagramRules` with the common-prefix map of `with_base_module` (property C07, parts 3 and 4).
-/
import Bridge.Abs
import Bridge.Diagram
namespace Pta.Dg
open Pta PtaSpec

/-! ### `applyAll` in closed form -/

theorem errKind_pass : Verdict.errKind .pass = none := rfl
theorem errKind_fail (its : List Item) : Verdict.errKind (.fail its) = none := rfl
theorem errKind_err (k : ErrKind) : Verdict.errKind (.err k) = some k := rfl
theorem isFail_pass : Verdict.isFail .pass = false := rfl
theorem isFail_fail (its : List Item) : Verdict.isFail (.fail its) = true := rfl
theorem isFail_err (k : ErrKind) : Verdict.isFail (.err k) = false := rfl
theorem items_pass : Verdict.items .pass = [] := rfl
theorem items_fail (its : List Item) : Verdict.items (.fail its) = its := rfl
theorem items_err (k : ErrKind) : Verdict.items (.err k) = [] := rfl

theorem applyAll_go_eq (mt : Str → Str → Bool) (g : PGraph Str) (rs : List RuleState) (acc : List Item)
    (failed : Bool) :
    applyAll.go mt g acc failed rs =
      match rs.findSome? (fun r => (ruleVerdict mt g r).errKind) with
      | some k => .err k
      | none =>
        if (failed || rs.any fun r => (ruleVerdict mt g r).isFail) = true
        then .fail (acc ++ rs.flatMap fun r => (ruleVerdict mt g r).items) else .pass := by
  induction rs generalizing acc failed with
  | nil => simp [applyAll.go]
  | cons r rs ih =>
    rw [applyAll.go]
    have hrv : ruleVerdict mt g r = (assertApplies mt r g).2 := rfl
    cases h : (assertApplies mt r g).2 with
    | pass =>
      rw [h] at hrv
      simp only [ih, List.findSome?_cons, hrv, errKind_pass, List.any_cons, isFail_pass,
        Bool.false_or, List.flatMap_cons, items_pass, List.nil_append]
    | fail items =>
      rw [h] at hrv
      simp only [ih, List.findSome?_cons, hrv, errKind_fail, List.any_cons, isFail_fail,
        Bool.true_or, Bool.or_true, List.flatMap_cons, items_fail, List.append_assoc]
    | err k =>
      rw [h] at hrv
      simp only [List.findSome?_cons, hrv, errKind_err]

theorem applyAll_eq (mt : Str → Str → Bool) (g : PGraph Str) (rs : List RuleState) :
    applyAll mt g rs =
      match rs.findSome? (fun r => (ruleVerdict mt g r).errKind) with
      | some k => .err k
      | none =>
        if (rs.any fun r => (ruleVerdict mt g r).isFail) = true
        then .fail (rs.flatMap fun r => (ruleVerdict mt g r).items) else .pass := by
  unfold applyAll
  rw [applyAll_go_eq]
  simp

theorem findSome_none_of_noErr (mt : Str → Str → Bool) (g : PGraph Str) (rs : List RuleState)
    (hne : ∀ r ∈ rs, ∀ k, ruleVerdict mt g r ≠ .err k) :
    rs.findSome? (fun r => (ruleVerdict mt g r).errKind) = none := by
  rw [List.findSome?_eq_none_iff]
  intro r hr
  cases h : ruleVerdict mt g r with
  | err k => exact absurd h (hne r hr k)
  | pass => rfl
  | fail _ => rfl

theorem applyAll_pass_iff_lemma (mt : Str → Str → Bool) (g : PGraph Str) (rs : List RuleState)
    (hne : ∀ r ∈ rs, ∀ k, ruleVerdict mt g r ≠ .err k) :
    applyAll mt g rs = .pass ↔ ∀ r ∈ rs, ruleVerdict mt g r = .pass := by
  rw [applyAll_eq, findSome_none_of_noErr mt g rs hne]
  simp only []
  constructor
  · intro h r hr
    split at h
    · cases h
    · rename_i hany
      cases hv : ruleVerdict mt g r with
      | pass => rfl
      | err k => exact absurd hv (hne r hr k)
      | fail its =>
        exfalso; apply hany
        rw [List.any_eq_true]
        exact ⟨r, hr, by rw [hv]; rfl⟩
  · intro h
    rw [if_neg]
    rw [List.any_eq_true]
    rintro ⟨r, hr, hf⟩
    rw [h r hr] at hf
    cases hf

theorem applyAll_fail_iff_lemma (mt : Str → Str → Bool) (g : PGraph Str) (rs : List RuleState)
    (hne : ∀ r ∈ rs, ∀ k, ruleVerdict mt g r ≠ .err k) (items : List Item) :
    applyAll mt g rs = .fail items ↔
      (∃ r ∈ rs, ∃ its, ruleVerdict mt g r = .fail its) ∧
        items = rs.flatMap fun r => (ruleVerdict mt g r).items := by
  rw [applyAll_eq, findSome_none_of_noErr mt g rs hne]
  simp only []
  constructor
  · intro h
    split at h
    · rename_i hany
      rw [List.any_eq_true] at hany
      obtain ⟨r, hr, hf⟩ := hany
      refine ⟨⟨r, hr, ?_⟩, ?_⟩
      · cases hv : ruleVerdict mt g r with
        | fail its => exact ⟨its, rfl⟩
        | pass => rw [hv] at hf; cases hf
        | err k => rw [hv] at hf; cases hf
      · cases h; rfl
    · cases h
  · rintro ⟨⟨r, hr, its, hv⟩, rfl⟩
    rw [if_pos]
    rw [List.any_eq_true]
    exact ⟨r, hr, by rw [hv]; rfl⟩

theorem applyAll_err_lemma (mt : Str → Str → Bool) (g : PGraph Str) (pre post : List RuleState) (r : RuleState)
    (k : ErrKind) (hpre : ∀ r' ∈ pre, ∀ k', ruleVerdict mt g r' ≠ .err k') (hr : ruleVerdict mt g r = .err k) :
    applyAll mt g (pre ++ r :: post) = .err k := by
  rw [applyAll_eq, List.findSome?_append, findSome_none_of_noErr mt g pre hpre]
  simp [hr, errKind_err]

/-- the items of the passing rules are empty: the aggregate is the concatenation over the failing rules only -/
theorem flatMap_items_failing (mt : Str → Str → Bool) (g : PGraph Str) (rs : List RuleState) :
    (rs.flatMap fun r => (ruleVerdict mt g r).items) =
      (rs.filter fun r => (ruleVerdict mt g r).isFail).flatMap fun r => (ruleVerdict mt g r).items := by
  induction rs with
  | nil => rfl
  | cons r rs ih =>
    simp only [List.flatMap_cons, List.filter_cons, ih]
    cases h : ruleVerdict mt g r <;>
      simp [h, isFail_pass, isFail_fail, isFail_err, items_pass, items_fail, items_err]

/-- never an error ⇒ the outcome is pass or fail -/
theorem applyAll_noErr_lemma (mt : Str → Str → Bool) (g : PGraph Str) (rs : List RuleState)
    (hne : ∀ r ∈ rs, ∀ k, ruleVerdict mt g r ≠ .err k) (k : ErrKind) : applyAll mt g rs ≠ .err k := by
  rw [applyAll_eq, findSome_none_of_noErr mt g rs hne]
  simp only []
  split <;> intro h <;> cases h

/-- a parse result is a given one as soon as both fields agree (for evaluating examples without a
    `DecidableEq (Except _ Parsed')` instance) -/
theorem parse_eq_of_check (x : Except ErrKind Parsed') (p : Parsed')
    (h : (match x with
          | .ok p' => decide (p'.modules = p.modules) && decide (p'.dependencies = p.dependencies)
          | .error _ => false) = true) : x = .ok p := by
  cases x with
  | error k => cases h
  | ok p' =>
    simp only [Bool.and_eq_true, decide_eq_true_eq] at h
    cases p'; cases p
    simp only at h
    rw [h.1, h.2]

theorem fail_eq_of_check (x : DVerdict) (items : List Item)
    (h : (match x with | .fail its => decide (its = items) | _ => false) = true) : x = .fail items := by
  cases x with
  | pass => cases h
  | err k => cases h
  | fail its => simp only [decide_eq_true_eq] at h; rw [h]

/-! ### `diagramRules` in named pieces -/

/-- the rule `modules_that().are_named(subj).<verb>().import_modules_that().are_named(objs)` -/
def mkD (subj : Str) (objs : List Str) (verb : RuleOp) : RuleState :=
  { cfg := { subjects := some [.name subj], objects := some (objs.map .name),
             should := verb == .should, shouldOnly := verb == .shouldOnly, shouldNot := verb == .shouldNot,
             importDir := some true }, next := some false }

def importedOf (p : Parsed') (m : Str) : List Str :=
  match p.dependencies.find? (·.1 == m) with | some kv => kv.2 | none => []

def notImportedOf (p : Parsed') (m : Str) : List Str :=
  (dedup p.modules).filter fun x => x != m && !(importedOf p m).contains x

def shouldNotOf (p : Parsed') (m : Str) : Option RuleState :=
  if (notImportedOf p m).isEmpty then none else some (mkD m (sortStr (notImportedOf p m)) .shouldNot)

def shouldVerb (so : Bool) : RuleOp := if so then .shouldOnly else .should

theorem diagramRules_eq (so : Bool) (p : Parsed') :
    diagramRules so p =
      p.dependencies.map (fun kv => mkD kv.1 kv.2 (shouldVerb so)) ++
        (sortStr (dedup p.modules)).filterMap (shouldNotOf p) := rfl

/-! ### `with_base_module`: the common-prefix map commutes with everything `diagramRules` does -/

theorem strLt_append_left (q a b : Str) : strLt (q ++ a) (q ++ b) = strLt a b := by
  induction q with
  | nil => rfl
  | cons c q ih => simp [strLt, ih]

theorem strLe_prefixName (q a b : Str) : strLe (prefixName q a) (prefixName q b) = strLe a b := by
  unfold strLe prefixName
  have h : ∀ m : Str, q ++ '.' :: m = (q ++ ['.']) ++ m := fun m => by simp
  rw [h a, h b, strLt_append_left]

theorem prefixName_inj (q a b : Str) (h : prefixName q a = prefixName q b) : a = b := by
  unfold prefixName at h
  have := List.append_cancel_left h
  exact (List.cons.inj this).2

theorem insertBy_map {α β : Type} (le : β → β → Bool) (le' : α → α → Bool) (f : α → β)
    (h : ∀ a b, le (f a) (f b) = le' a b) (x : α) (l : List α) :
    insertBy le (f x) (l.map f) = (insertBy le' x l).map f := by
  induction l with
  | nil => rfl
  | cons y ys ih =>
    simp only [List.map_cons, insertBy, h]
    split
    · rfl
    · simp only [List.map_cons, ih]

theorem sortBy_map {α β : Type} (le : β → β → Bool) (le' : α → α → Bool) (f : α → β)
    (h : ∀ a b, le (f a) (f b) = le' a b) (l : List α) :
    sortBy le (l.map f) = (sortBy le' l).map f := by
  induction l with
  | nil => rfl
  | cons x xs ih => simp only [List.map_cons, sortBy, ih, insertBy_map le le' f h]

theorem sortStr_prefix (q : Str) (l : List Str) :
    sortStr (l.map (prefixName q)) = (sortStr l).map (prefixName q) :=
  sortBy_map strLe strLe (prefixName q) (strLe_prefixName q) l

theorem mem_map_inj {α β : Type} (f : α → β) (hf : ∀ a b, f a = f b → a = b) (x : α) (l : List α) :
    f x ∈ l.map f ↔ x ∈ l := by
  rw [List.mem_map]
  constructor
  · rintro ⟨y, hy, e⟩; rw [← hf _ _ e]; exact hy
  · intro h; exact ⟨x, h, rfl⟩

theorem dedup_map_inj {α β : Type} [DecidableEq α] [DecidableEq β] (f : α → β) (hf : ∀ a b, f a = f b → a = b)
    (l : List α) : dedup (l.map f) = (dedup l).map f := by
  induction l with
  | nil => rfl
  | cons x xs ih =>
    simp only [List.map_cons, dedup, ih, mem_map_inj f hf]
    split <;> simp

theorem contains_prefix (q x : Str) (l : List Str) :
    (l.map (prefixName q)).contains (prefixName q x) = l.contains x := by
  rw [Bool.eq_iff_iff, List.contains_iff_mem, List.contains_iff_mem, mem_map_inj _ (prefixName_inj q)]

theorem filterMap_congr' {α β : Type} (f g : α → Option β) (l : List α) (h : ∀ x ∈ l, f x = g x) :
    l.filterMap f = l.filterMap g := by
  induction l with
  | nil => rfl
  | cons x xs ih =>
    simp only [List.filterMap_cons, h x (by simp)]
    rw [ih (fun y hy => h y (by simp [hy]))]

theorem prefixRule_mkD (q s : Str) (os : List Str) (v : RuleOp) :
    prefixRule q (mkD s os v) = mkD (prefixName q s) (os.map (prefixName q)) v := by
  simp [prefixRule, mkD, prefixFilter, List.map_map, Function.comp_def]

theorem importedOf_prefix (p : Parsed') (q m : Str) :
    importedOf (prefixParsed p (some q)) (prefixName q m) = (importedOf p m).map (prefixName q) := by
  unfold importedOf prefixParsed
  simp only [List.find?_map]
  have : ((fun x : Str × List Str => x.1 == prefixName q m) ∘
      fun kv : Str × List Str => (q ++ '.' :: kv.1, List.map (fun m => q ++ '.' :: m) kv.2)) =
      fun kv => kv.1 == m := by
    funext kv
    simp only [Function.comp]
    rw [Bool.eq_iff_iff, beq_iff_eq, beq_iff_eq]
    exact ⟨prefixName_inj q _ _, fun h => by rw [h]; rfl⟩
  rw [this]
  cases p.dependencies.find? (fun kv => kv.1 == m) <;> rfl

theorem modules_prefix (p : Parsed') (q : Str) :
    (prefixParsed p (some q)).modules = p.modules.map (prefixName q) := rfl

theorem dependencies_prefix (p : Parsed') (q : Str) :
    (prefixParsed p (some q)).dependencies =
      p.dependencies.map fun kv => (prefixName q kv.1, kv.2.map (prefixName q)) := rfl

theorem notImportedOf_prefix (p : Parsed') (q m : Str) :
    notImportedOf (prefixParsed p (some q)) (prefixName q m) = (notImportedOf p m).map (prefixName q) := by
  unfold notImportedOf
  rw [importedOf_prefix, modules_prefix, dedup_map_inj _ (prefixName_inj q), List.filter_map]
  congr 1
  apply List.filter_congr
  intro x _
  simp only [Function.comp, contains_prefix]
  congr 1
  rw [Bool.eq_iff_iff, bne_iff_ne, bne_iff_ne]
  exact ⟨fun h e => h (by rw [e]), fun h e => h (prefixName_inj q _ _ e)⟩

theorem shouldNotOf_prefix (p : Parsed') (q m : Str) :
    shouldNotOf (prefixParsed p (some q)) (prefixName q m) = (shouldNotOf p m).map (prefixRule q) := by
  unfold shouldNotOf
  rw [notImportedOf_prefix, sortStr_prefix]
  by_cases h : (notImportedOf p m).isEmpty = true
  · simp [h]
  · simp [h, prefixRule_mkD]

theorem base_module_lemma (so : Bool) (p : Parsed') (q : Str) :
    diagramRules so (prefixParsed p (some q)) = (diagramRules so p).map (prefixRule q) := by
  rw [diagramRules_eq, diagramRules_eq, List.map_append, dependencies_prefix, modules_prefix,
    dedup_map_inj _ (prefixName_inj q), sortStr_prefix, List.filterMap_map, List.map_filterMap]
  congr 1
  · simp only [List.map_map]
    apply List.map_congr_left
    intro kv _
    simp only [Function.comp, prefixRule_mkD]
  · apply filterMap_congr'
    intro m _
    simp only [Function.comp, shouldNotOf_prefix]

/-! ### `with_base_module` on the diagram itself: the same as drawing every component as `q.name` -/

theorem addDep_prefix (q : Str) (G : List (Str × List Str)) (k v : Str) :
    addDep (G.map fun kv => (prefixName q kv.1, kv.2.map (prefixName q))) (prefixName q k) (prefixName q v) =
      (addDep G k v).map fun kv => (prefixName q kv.1, kv.2.map (prefixName q)) := by
  have hbeq : ∀ a b : Str, (prefixName q a == prefixName q b) = (a == b) := by
    intro a b
    rw [Bool.eq_iff_iff, beq_iff_eq, beq_iff_eq]
    exact ⟨prefixName_inj q a b, fun h => by rw [h]⟩
  unfold addDep
  simp only [List.any_map, Function.comp_def, hbeq, List.map_map]
  split
  · rw [List.map_map]
    apply List.map_congr_left
    intro e _
    simp only [contains_prefix, Function.comp]
    split
    · split <;> simp
    · rfl
  · simp

theorem foldl_addDep_prefix (q : Str) (pairs : List (Str × Str)) (G : List (Str × List Str)) :
    (pairs.map fun p => (prefixName q p.1, prefixName q p.2)).foldl (fun acc p => addDep acc p.1 p.2)
        (G.map fun kv => (prefixName q kv.1, kv.2.map (prefixName q))) =
      (pairs.foldl (fun acc p => addDep acc p.1 p.2) G).map fun kv =>
        (prefixName q kv.1, kv.2.map (prefixName q)) := by
  induction pairs generalizing G with
  | nil => rfl
  | cons p ps ih =>
    simp only [List.map_cons, List.foldl_cons, addDep_prefix, ih]

theorem render_prefix (q n : Name) (hq : q ≠ []) (hn : n ≠ []) : render (q ++ n) = prefixName (render q) (render n) := by
  unfold render prefixName
  induction q with
  | nil => exact absurd rfl hq
  | cons x r ih =>
    cases r with
    | nil =>
      cases n with
      | nil => exact absurd rfl hn
      | cons y n' => simp [joinDots]
    | cons z r' =>
      have := ih (by simp)
      simp only [List.cons_append] at this ⊢
      simp [joinDots, this]

theorem base_module_diagram_lemma (q : Name) (d : Diagram) (hq : q ≠ [])
    (hc : ∀ c ∈ d.components, c ≠ []) (ha : ∀ e ∈ d.arrows, e.1 ≠ [] ∧ e.2 ≠ []) :
    prefixParsed (parsedOf d) (some (render q)) = parsedOf (prefixDiagram q d) := by
  have h1 : (prefixParsed (parsedOf d) (some (render q))).modules = (parsedOf (prefixDiagram q d)).modules := by
    rw [modules_prefix]
    simp only [parsedOf, prefixDiagram, List.map_map]
    apply List.map_congr_left
    intro c hc'
    simp only [Function.comp, render_prefix q c hq (hc c hc')]
  have h2 : (prefixParsed (parsedOf d) (some (render q))).dependencies =
      (parsedOf (prefixDiagram q d)).dependencies := by
    rw [dependencies_prefix]
    simp only [parsedOf, prefixDiagram]
    have e1 : ∀ (l : List (Name × Name)) (G : List (Str × List Str)),
        l.foldl (fun acc e => addDep acc (render e.1) (render e.2)) G =
        (l.map fun e => (render e.1, render e.2)).foldl (fun acc p => addDep acc p.1 p.2) G := by
      intro l G; rw [List.foldl_map]
    rw [e1 d.arrows, e1 (d.arrows.map _), ← foldl_addDep_prefix (render q) _ []]
    simp only [List.map_map, List.map_nil]
    congr 1
    apply List.map_congr_left
    intro e he
    simp only [Function.comp, render_prefix q _ hq (ha e he).1, render_prefix q _ hq (ha e he).2]
  cases hp : prefixParsed (parsedOf d) (some (render q)) with
  | mk m1 d1 =>
    cases hp' : parsedOf (prefixDiagram q d) with
    | mk m2 d2 =>
      rw [hp, hp'] at h1 h2
      simp only at h1 h2
      rw [h1, h2]

end Pta.Dg
