/-
  PtaProofs.Lemmas.RenameScanExt — scan-level renaming (property C14) with EXTERNAL modules included
  (`exclude_external_libraries=False`, no external exclusion patterns, no level limit): the records
  `ImportConverter` produces for the renamed tree are, as a set, the renamed records; the module list is the renamed
  module list as a set; hence the graph of the renamed scan has the node / edge sets of the image of the original graph.
-/
import PtaProofs.Lemmas.RenameScan
import PtaProofs.Lemmas.ExtScan
import PtaProofs.Lemmas.OrderBuild
import PtaProofs.Lemmas.RenameLabel
namespace Pta.RS
open Pta PtaSpec ScanImports

/-- the options with external modules excluded (what `ScanHyps` is stated for) -/
def dflt (o : ScanOptions) : ScanOptions := { o with excludeExternal := true }

/-- the scan with external modules included, once the conversion is known to succeed -/
theorem gen_ext_ok {mt : Str → Str → Bool} {base root : Str} {mp : List Str} {L : List Entry} {o : ScanOptions}
    (H : ScanHyps mt base root mp L (dflt o))
    (hm : ∀ f ∈ (scanParsed mt base root mp L (dflt o)).files, ∀ st ∈ f.2, tg mt base root mp L (dflt o) f.1 st ≠ none)
    (hxx : o.excludeExternal = false) (hext : o.externalExclusions.isEmpty = true) (hlim : o.levelLimit = none) :
    generateGraph mt base root mp L o =
      .ok (buildGraph (moduleList mt base o (internalPrefix root mp) (scanParsed mt base root mp L (dflt o)).allModules
          ((rawOf mt base root mp L (dflt o)).map mkRec)) ((rawOf mt base root mp L (dflt o)).map mkRec) none) := by
  have hc := convertAll_ok H hm
  unfold internalOf at hc
  rw [ExtScan.generateGraph_eq, ExtScan.scanParsed_congr mt base root mp L o (dflt o) rfl, hc]
  have hr : ∀ I, retainImports mt o (internalPrefix root mp) I = I := by
    intro I
    unfold retainImports
    simp [hxx, hext]
  have hs : shiftedLimit o mp = none := by simp [shiftedLimit, hlim]
  simp only [hr, hs]

section ext
variable (mt mt' : Str → Str → Bool) (base base' root : Str) (mp : List Str) (entries : List Entry) (o : ScanOptions)
  (ps' : Patterns) {ρ : Comp → Comp} (hρ : GoodRen ρ)
  (hwf : treeWFFor (isExcluded mt o.exclusions) base mp entries = true) (hmp : mpOK entries mp = true)
  (hroot : compWF root = true)
  (hst : ∀ e ∈ entries, ∀ st ∈ e.stmts, stmtOK (toSStmt st) = true)
  (hx : ExclTransported ρ (isExcluded mt o.exclusions) (isExcluded mt' ps') base base' entries)
include hρ hwf hmp hroot hst hx

/-- a statement of a surviving file of the renamed tree names `b` iff `b` is the renamed target of the renamed importer -/
theorem acc_ren (a b : Name) :
    ScanImports.Acc mt' base' (ρ root) (mp.map (renFile ρ)) (rootEntry :: renEntries ρ entries) (dflt (o.withExclusions ps')) a b ↔
      ∃ e : Name × Name, ScanImports.Acc mt base root mp (rootEntry :: entries) (dflt o) e.1 e.2 ∧ a = renName ρ e.1 ∧ b = renName ρ e.2 := by
  have hses : sentriesOf mt' base' (rootEntry :: renEntries ρ entries) (dflt (o.withExclusions ps')) =
      (sentriesOf mt base (rootEntry :: entries) (dflt o)).map (renSEntry ρ) :=
    toSEntries_ren hρ _ _ base base' entries hx hst
  have hown := own_wf mt base root mp entries o hwf hroot
  have hrm := rootmp_wf mt base root mp entries o hwf hmp hroot
  have hins := insideOf_ren hρ root _ mp hown hrm
  have hap := apOf_ren (ρ := ρ) root mp hrm
  have hse : ∀ e0 ∈ entries, toSEntry (isExcluded mt' (dflt (o.withExclusions ps')).exclusions) base' (renEntry ρ e0) =
      renSEntry ρ (toSEntry (isExcluded mt (dflt o).exclusions) base e0) := fun e0 h0 =>
    toSEntry_ren hρ _ _ base base' e0 (hx e0.rel (Or.inr ⟨e0, h0, List.prefix_refl _⟩)) (hst e0 h0)
  have hmem : ∀ e0 ∈ entries, toSEntry (isExcluded mt (dflt o).exclusions) base e0 ∈
      toSEntries (isExcluded mt o.exclusions) base entries := fun e0 h0 =>
    List.mem_map.2 ⟨e0, List.mem_cons_of_mem _ h0, rfl⟩
  unfold ScanImports.Acc
  rw [hses]
  constructor
  · rintro ⟨e0', he0', hd, hs, rfl, st', hst', ts', hts', hb⟩
    rcases List.mem_cons.1 he0' with rfl | he0'
    · cases hd
    obtain ⟨e0, he0, rfl⟩ := List.mem_map.1 he0'
    rw [hse e0 he0] at hs hts' ⊢
    rw [survives_ren hρ] at hs
    have hn := entryName_ren (ρ := ρ) root _ (hown _ (hmem e0 he0) hs)
    obtain ⟨st, hst0, rfl⟩ := List.mem_map.1 hst'
    rw [hn, toSStmt_ren hρ st (hst e0 he0 st hst0)] at hts'
    have hts'' : targets ((insideOf root (toSEntries (isExcluded mt o.exclusions) base entries) mp).map (renName ρ))
        ((apOf root mp).map (renName ρ)) (renName ρ (entryName root (toSEntry (isExcluded mt (dflt o).exclusions) base e0)))
        (renSStmt ρ (toSStmt st)) = some ts' := by
      rw [← hins, ← hap]; exact hts'
    rw [targets_ren hρ] at hts''
    cases hts : targets (insideOf root (toSEntries (isExcluded mt o.exclusions) base entries) mp) (apOf root mp)
        (entryName root (toSEntry (isExcluded mt (dflt o).exclusions) base e0)) (toSStmt st) with
    | none => rw [hts] at hts''; cases hts''
    | some ts =>
      rw [hts] at hts''
      simp only [Option.map_some, Option.some.injEq] at hts''
      subst hts''
      obtain ⟨t, ht, rfl⟩ := List.mem_map.1 hb
      exact ⟨(_, t), ⟨e0, List.mem_cons_of_mem _ he0, hd, hs, rfl, st, hst0, ts, hts, ht⟩, hn, rfl⟩
  · rintro ⟨⟨imp, t⟩, ⟨e0, he0, hd, hs, himp, st, hst0, ts, hts, ht⟩, rfl, rfl⟩
    simp only at himp hts ht
    subst himp
    rcases List.mem_cons.1 he0 with rfl | he0
    · cases hd
    have hn := entryName_ren (ρ := ρ) root _ (hown _ (hmem e0 he0) hs)
    refine ⟨renEntry ρ e0, List.mem_cons_of_mem _ (List.mem_map.2 ⟨e0, he0, rfl⟩), hd, ?_, ?_, renStmt ρ st,
      List.mem_map.2 ⟨st, hst0, rfl⟩, ts.map (renName ρ), ?_, List.mem_map.2 ⟨t, ht, rfl⟩⟩
    · rw [hse e0 he0, survives_ren hρ]; exact hs
    · rw [hse e0 he0]; exact hn.symm
    · rw [toSStmt_ren hρ st (hst e0 he0 st hst0)]
      have := targets_ren hρ (insideOf root (toSEntries (isExcluded mt o.exclusions) base entries) mp) (apOf root mp)
        (entryName root (toSEntry (isExcluded mt (dflt o).exclusions) base e0)) (toSStmt st)
      have hts0 : targets (insideOf root (toSEntries (isExcluded mt o.exclusions) base entries) mp) (apOf root mp)
          (entryName root (toSEntry (isExcluded mt (dflt o).exclusions) base e0)) (toSStmt st) = some ts := hts
      rw [hts0, ← hins, ← hap] at this
      exact this

omit hρ hwf hmp hroot hst hx in
/-- the record of a renamed pair is the image of the record -/
theorem mkRec_ren (hρ : GoodRen ρ) (e : Name × Name) (h1 : nameWF e.1 = true) (h2 : nameWF e.2 = true) :
    mkRec (renName ρ e.1, renName ρ e.2) = RM.mapImp (renStr ρ) (mkRec e) := by
  simp only [mkRec, absImport, RM.mapImp, RM.renStr_render ρ _ h1, RM.renStr_render ρ _ h2]
  rw [← RM.renStr_render ρ _ h2, RM.renStr_parentModules ρ (hρ := hρ) _ h2]

variable (hlim : o.levelLimit = none) (hext : o.externalExclusions.isEmpty = true)
include hlim hext

/-- the hypotheses C02 takes from the walk, on both sides -/
theorem scanHyps_both :
    ScanHyps mt base root mp (rootEntry :: entries) (dflt o) ∧
    ScanHyps mt' base' (ρ root) (mp.map (renFile ρ)) (rootEntry :: renEntries ρ entries) (dflt (o.withExclusions ps')) := by
  have hwf' : treeWFFor (isExcluded mt' (dflt (o.withExclusions ps')).exclusions) base' (mp.map (renFile ρ))
      (renEntries ρ entries) = true := treeWFFor_ren hρ _ _ base base' mp entries hx hwf
  have hmp' : mpOK (renEntries ρ entries) (mp.map (renFile ρ)) = true := by rw [mpOK_ren hρ]; exact hmp
  exact ⟨ScanCompose.scanHyps_of_tree (o := dflt o) (root := root) hwf hmp hroot rfl hlim hext hst,
    ScanCompose.scanHyps_of_tree (o := dflt (o.withExclusions ps')) (root := ρ root) hwf' hmp' (hρ.wf root hroot) rfl hlim hext
      (stmts_ren_ok hρ entries hst)⟩

/-- the converted records of the renamed tree are, as a set, the images of the converted records -/
theorem records_ren (x : ImportRec) :
    x ∈ (rawOf mt' base' (ρ root) (mp.map (renFile ρ)) (rootEntry :: renEntries ρ entries) (dflt (o.withExclusions ps'))).map mkRec ↔
      x ∈ ((rawOf mt base root mp (rootEntry :: entries) (dflt o)).map mkRec).map (RM.mapImp (renStr ρ)) := by
  obtain ⟨H, H'⟩ := scanHyps_both mt mt' base base' root mp entries o ps' hρ hwf hmp hroot hst hx hlim hext
  simp only [List.mem_map]
  constructor
  · rintro ⟨e', he', rfl⟩
    obtain ⟨e, hacc, h1, h2⟩ := (acc_ren mt mt' base base' root mp entries o ps' hρ hwf hmp hroot hst hx e'.1 e'.2).1
      ((mem_rawOf H' e').1 he')
    obtain ⟨ho, hw⟩ := Acc_facts H e.1 e.2 hacc
    refine ⟨mkRec e, ⟨e, (mem_rawOf H e).2 hacc, rfl⟩, ?_⟩
    rw [← mkRec_ren hρ e (H.ownWF _ ho) hw, ← h1, ← h2]
  · rintro ⟨i, ⟨e, he, rfl⟩, rfl⟩
    have hacc := (mem_rawOf H e).1 he
    obtain ⟨ho, hw⟩ := Acc_facts H e.1 e.2 hacc
    refine ⟨(renName ρ e.1, renName ρ e.2), (mem_rawOf H' _).2 ?_, mkRec_ren hρ e (H.ownWF _ ho) hw⟩
    exact (acc_ren mt mt' base base' root mp entries o ps' hρ hwf hmp hroot hst hx _ _).2 ⟨e, hacc, rfl, rfl⟩

/-- the parsed modules of the renamed tree are, as a set, the images of the parsed modules -/
theorem parsed_ren (x : Str) :
    x ∈ (scanParsed mt' base' (ρ root) (mp.map (renFile ρ)) (rootEntry :: renEntries ρ entries)
        (dflt (o.withExclusions ps'))).allModules ↔
      x ∈ (scanParsed mt base root mp (rootEntry :: entries) (dflt o)).allModules.map (renStr ρ) := by
  obtain ⟨H, H'⟩ := scanHyps_both mt mt' base base' root mp entries o ps' hρ hwf hmp hroot hst hx hlim hext
  have hses : sentriesOf mt' base' (rootEntry :: renEntries ρ entries) (dflt (o.withExclusions ps')) =
      (sentriesOf mt base (rootEntry :: entries) (dflt o)).map (renSEntry ρ) :=
    toSEntries_ren hρ _ _ base base' entries hx hst
  have hown := ownNames_ren hρ root _ mp (own_wf mt base root mp entries o hwf hroot)
  rw [H'.mods, hses]
  simp only [List.mem_map, H.mods]
  have hown' : ownNames (ρ root) ((sentriesOf mt base (rootEntry :: entries) (dflt o)).map (renSEntry ρ)) (mp.map (renFile ρ)) =
      (ownNames root (sentriesOf mt base (rootEntry :: entries) (dflt o)) mp).map (renName ρ) := hown
  rw [hown']
  simp only [List.mem_map]
  constructor
  · rintro ⟨n', ⟨n, hn, rfl⟩, rfl⟩
    exact ⟨render n, ⟨n, hn, rfl⟩, RM.renStr_render ρ n (H.ownWF n hn)⟩
  · rintro ⟨s, ⟨n, hn, rfl⟩, rfl⟩
    exact ⟨renName ρ n, ⟨n, hn, rfl⟩, RM.renStr_render ρ n (H.ownWF n hn)⟩

variable (hxx : o.excludeExternal = false)
include hxx

omit hρ hwf hmp hroot hst hx hlim in
/-- membership in the module list when external modules are included without patterns -/
theorem mem_moduleList_ext (pre : Str) (P : List Str) (R : List ImportRec) (m : Str) :
    m ∈ moduleList mt base o pre P R ↔
      m ∈ P ∨ ∃ i ∈ R, isInternal i.importee pre = false ∧ m ∈ i.importee :: i.importeeParents := by
  rw [ExtScan.mem_moduleList]
  constructor
  · rintro (h | ⟨-, h, -⟩)
    · exact Or.inl h
    · exact Or.inr h
  · rintro (h | h)
    · exact Or.inl h
    · exact Or.inr ⟨hxx, h, Or.inl hext⟩

/-- with external modules included (no patterns, no level limit): same outcome class, and on success the graph of the
    renamed tree has the node and edge sets of the image of the original graph under `renStr ρ` -/
theorem scan_ren_ext_lemma :
    match generateGraph mt base root mp entries o with
    | .ok g => ∃ g', generateGraph mt' base' (ρ root) (mp.map (renFile ρ)) (renEntries ρ entries)
          (o.withExclusions ps') = .ok g' ∧ GraphEquiv g' (mapGraph (renStr ρ) g)
    | .error k => generateGraph mt' base' (ρ root) (mp.map (renFile ρ)) (renEntries ρ entries)
          (o.withExclusions ps') = .error k := by
  obtain ⟨H, H'⟩ := scanHyps_both mt mt' base base' root mp entries o ps' hρ hwf hmp hroot hst hx hlim hext
  have hd := scan_ren_lemma mt mt' base base' root mp entries (dflt o) ps' hρ hwf hmp hroot hst hx rfl hext
  have inv := fun k => (ExtScan.internal_invariant_lemma mt base root mp entries o (dflt o) rfl rfl).1 k
  have inv' := fun k => (ExtScan.internal_invariant_lemma mt' base' (ρ root) (mp.map (renFile ρ)) (renEntries ρ entries)
    (o.withExclusions ps') (dflt (o.withExclusions ps')) rfl rfl).1 k
  cases hg : generateGraph mt base root mp entries o with
  | error k =>
    rw [(inv k).1 hg] at hd
    exact (inv' k).2 hd
  | ok g =>
    cases hgd : generateGraph mt base root mp entries (dflt o) with
    | error k =>
      have := (inv k).2 hgd
      rw [hg] at this
      cases this
    | ok gd =>
      rw [hgd] at hd
      obtain ⟨gd', hgd', -⟩ := hd
      have hm : ∀ f ∈ (scanParsed mt base root mp (rootEntry :: entries) (dflt o)).files, ∀ st ∈ f.2,
          tg mt base root mp (rootEntry :: entries) (dflt o) f.1 st ≠ none := by
        intro f hf st hst' ht
        have := generateGraph_default H
        rw [convertAll_error H ⟨f, hf, st, hst', ht⟩, ScanWalk.generateGraph_root base mt root mp rootEntry rfl, hgd] at this
        cases this
      have hm' : ∀ f ∈ (scanParsed mt' base' (ρ root) (mp.map (renFile ρ)) (rootEntry :: renEntries ρ entries)
            (dflt (o.withExclusions ps'))).files, ∀ st ∈ f.2,
          tg mt' base' (ρ root) (mp.map (renFile ρ)) (rootEntry :: renEntries ρ entries) (dflt (o.withExclusions ps')) f.1 st ≠
            none := by
        intro f hf st hst' ht
        have := generateGraph_default H'
        rw [convertAll_error H' ⟨f, hf, st, hst', ht⟩, ScanWalk.generateGraph_root base' mt' (ρ root) _ rootEntry rfl] at this
        have h2 : generateGraph mt' base' (ρ root) (mp.map (renFile ρ)) (renEntries ρ entries) (dflt (o.withExclusions ps')) =
            .ok gd' := hgd'
        rw [h2] at this
        cases this
      have e1 := gen_ext_ok H hm hxx hext hlim
      rw [ScanWalk.generateGraph_root base mt root mp rootEntry rfl, hg] at e1
      have e1' := gen_ext_ok H' hm' hxx hext hlim
      rw [ScanWalk.generateGraph_root base' mt' (ρ root) _ rootEntry rfl] at e1'
      refine ⟨_, e1', ?_⟩
      simp only [Except.ok.injEq] at e1
      subst e1
      -- names in the two lists are rendered well-formed names
      have hIwf : ∀ i ∈ (rawOf mt base root mp (rootEntry :: entries) (dflt o)).map mkRec,
          ∃ e : Name × Name, nameWF e.1 = true ∧ nameWF e.2 = true ∧ i = mkRec e ∧
            e.1 ∈ ownNames root (sentriesOf mt base (rootEntry :: entries) (dflt o)) mp := by
        intro i hi
        obtain ⟨e, he, rfl⟩ := List.mem_map.1 hi
        obtain ⟨ho, hw⟩ := Acc_facts H e.1 e.2 ((mem_rawOf H e).1 he)
        exact ⟨e, H.ownWF _ ho, hw, rfl, ho⟩
      have hMwf : ∀ m ∈ moduleList mt base o (internalPrefix root mp)
          (scanParsed mt base root mp (rootEntry :: entries) (dflt o)).allModules
          ((rawOf mt base root mp (rootEntry :: entries) (dflt o)).map mkRec), ∃ n, nameWF n = true ∧ m = render n := by
        intro m hmm
        rcases (mem_moduleList_ext mt base o hext hxx _ _ _ m).1 hmm with h | ⟨i, hi, -, hmi⟩
        · obtain ⟨n, hn, rfl⟩ := (H.mods m).1 h
          exact ⟨n, H.ownWF n hn, rfl⟩
        · obtain ⟨e, -, w2, rfl, -⟩ := hIwf i hi
          rcases List.mem_cons.1 hmi with rfl | hp
          · exact ⟨e.2, w2, rfl⟩
          · simp only [mkRec, absImport] at hp
            rw [parentModules_render _ w2] at hp
            obtain ⟨p, hp', rfl⟩ := List.mem_map.1 hp
            exact ⟨p, RM.nameWF_properPrefix w2 hp', rfl⟩
      rw [← RM.buildGraph_map (renStr ρ) (RM.renStr_inj hρ) _ _
        (fun m hmm => by
          obtain ⟨n, hn, rfl⟩ := hMwf m hmm
          exact RM.renStr_parentModules ρ (hρ := hρ) n hn)
        (fun i hi => by
          obtain ⟨e, w1, -, rfl, -⟩ := hIwf i hi
          exact RM.renStr_parentModules ρ (hρ := hρ) e.1 w1)]
      have hrecs := records_ren mt mt' base base' root mp entries o ps' hρ hwf hmp hroot hst hx hlim hext
      have hpars := parsed_ren mt mt' base base' root mp entries o ps' hρ hwf hmp hroot hst hx hlim hext
      have hrm := rootmp_wf mt base root mp entries o hwf hmp hroot
      have hpre : internalPrefix (ρ root) (mp.map (renFile ρ)) = render (renName ρ (root :: mp)) := by
        rw [internalPrefix_eq, mp_map_renFile root mp hrm]; rfl
      have hint : ∀ e : Name × Name, nameWF e.2 = true →
          isInternal (RM.mapImp (renStr ρ) (mkRec e)).importee (internalPrefix (ρ root) (mp.map (renFile ρ))) =
            isInternal (mkRec e).importee (internalPrefix root mp) := by
        intro e w2
        simp only [RM.mapImp, mkRec, absImport]
        rw [hpre, RM.renStr_render ρ _ w2, internalPrefix_eq, RM.isInternal_ren_lemma ρ hρ _ _ w2 hrm]
      apply OrdB.buildGraph_equiv none
      · intro x
        rw [mem_moduleList_ext mt' base' (o.withExclusions ps') hext hxx, List.mem_map]
        constructor
        · rintro (h | ⟨i', hi', hni, hxi⟩)
          · obtain ⟨m, hmP, rfl⟩ := List.mem_map.1 ((hpars x).1 h)
            exact ⟨m, (mem_moduleList_ext mt base o hext hxx _ _ _ m).2 (Or.inl hmP), rfl⟩
          · obtain ⟨i, hi, rfl⟩ := List.mem_map.1 ((hrecs i').1 hi')
            obtain ⟨e, -, w2, rfl, -⟩ := hIwf i hi
            rw [hint e w2] at hni
            have : x ∈ ((mkRec e).importee :: (mkRec e).importeeParents).map (renStr ρ) := by
              simpa [RM.mapImp] using hxi
            obtain ⟨m, hmm, rfl⟩ := List.mem_map.1 this
            exact ⟨m, (mem_moduleList_ext mt base o hext hxx _ _ _ m).2 (Or.inr ⟨_, hi, hni, hmm⟩), rfl⟩
        · rintro ⟨m, hmm, rfl⟩
          rcases (mem_moduleList_ext mt base o hext hxx _ _ _ m).1 hmm with h | ⟨i, hi, hni, hmi⟩
          · exact Or.inl ((hpars _).2 (List.mem_map.2 ⟨m, h, rfl⟩))
          · obtain ⟨e, -, w2, rfl, -⟩ := hIwf i hi
            refine Or.inr ⟨RM.mapImp (renStr ρ) (mkRec e), (hrecs _).2 (List.mem_map.2 ⟨_, hi, rfl⟩), ?_, ?_⟩
            · rw [hint e w2]; exact hni
            · have : renStr ρ m ∈ ((mkRec e).importee :: (mkRec e).importeeParents).map (renStr ρ) :=
                List.mem_map.2 ⟨m, hmi, rfl⟩
              simpa [RM.mapImp] using this
      · exact hrecs
      · intro i' hi'
        obtain ⟨e', he', rfl⟩ := List.mem_map.1 hi'
        obtain ⟨ho, -⟩ := Acc_facts H' e'.1 e'.2 ((mem_rawOf H' e').1 he')
        rw [mem_moduleList_ext mt' base' (o.withExclusions ps') hext hxx]
        exact Or.inl ((H'.mods _).2 ⟨e'.1, ho, rfl⟩)
      · intro i' hi'
        obtain ⟨e', -, rfl⟩ := List.mem_map.1 hi'
        rfl

end ext

end Pta.RS
