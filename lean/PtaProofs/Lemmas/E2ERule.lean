/-
  PtaProofs.Lemmas.E2ERule — glue for the end-to-end theorem on scanned architectures (Props/E2E.lean):
  * the specification's rule semantics (`verdict`, `violating`) depend on `Arch.imports` only as a SET and on
    `Arch.nodes` not at all (`verdict_congr_imports`, `violating_congr_imports`);
  * `GraphOf` depends on nodes and imports only as sets (`graphOf_congr`);
  * the specification architecture of a scan, `⟨scanModules …, is⟩` with `scanImports … = some is`, is well-formed
    and the scan graph is a graph of it (`scan_spec_arch_lemma`): C04 gives an architecture on `scanModules` of
    which the scan graph is a graph, C02 identifies its import pairs with the rendered `is`, and `render` is
    injective on the (well-formed) names involved.
-/
import Bridge.Abs
import Bridge.ScanAbs
import Bridge.ScanTree
import PtaProofs.Lemmas.Render
import PtaProofs.Lemmas.BuildNames
import PtaProofs.Lemmas.Build
import PtaProofs.Lemmas.ScanGraph
import PtaProofs.Lemmas.ScanImports
import PtaProofs.Lemmas.ScanCompose
namespace Pta
namespace E2ERule
open PtaSpec

/-! ### the rule semantics see the imports as a set -/

theorem filter_isEmpty_congr {α : Type} (l l' : List α) (h : ∀ e, e ∈ l ↔ e ∈ l') (p : α → Bool) :
    (l.filter p).isEmpty = (l'.filter p).isEmpty := by
  rw [Bool.eq_iff_iff]
  simp only [List.isEmpty_iff, List.filter_eq_nil_iff]
  constructor
  · intro hl e he; exact hl e ((h e).2 he)
  · intro hl e he; exact hl e ((h e).1 he)

section
variable (a b : Arch) (h : ∀ e, e ∈ a.imports ↔ e ∈ b.imports)
include h

theorem mem_edges_congr (dir : Bool) (s o : SFilter) (e : Name × Name) :
    e ∈ edges a dir s o ↔ e ∈ edges b dir s o := by
  unfold edges
  simp only [List.mem_filter, h e]

theorem mem_others_congr (dir : Bool) (s : SFilter) (os : List SFilter) (e : Name × Name) :
    e ∈ others a dir s os ↔ e ∈ others b dir s os := by
  unfold others
  simp only [List.mem_filter, h e]

theorem edges_isEmpty_congr (dir : Bool) (s o : SFilter) :
    (edges a dir s o).isEmpty = (edges b dir s o).isEmpty :=
  filter_isEmpty_congr _ _ h _

theorem others_isEmpty_congr (dir : Bool) (s : SFilter) (os : List SFilter) :
    (others a dir s os).isEmpty = (others b dir s os).isEmpty :=
  filter_isEmpty_congr _ _ h _

/-- `verdict` depends on the architecture's imports only as a set, and not on its node list -/
theorem verdict_congr_imports (r : RuleSpec) : verdict a r = verdict b r := by
  unfold verdict
  simp only [edges_isEmpty_congr a b h, others_isEmpty_congr a b h]

/-- `violating` likewise: the same items (as a set) -/
theorem violating_congr_imports (r : RuleSpec) (y : SItem) : y ∈ violating a r ↔ y ∈ violating b r := by
  unfold violating
  simp only [edges_isEmpty_congr a b h, others_isEmpty_congr a b h, List.mem_append]
  have e1 : ∀ c : Bool,
      (y ∈ (if c = true then
          r.subjects.flatMap fun s => r.effObjects.flatMap fun o => (edges a r.importDir s o).map fun e => SItem.imp e.1 e.2
        else [])) ↔
      (y ∈ (if c = true then
          r.subjects.flatMap fun s => r.effObjects.flatMap fun o => (edges b r.importDir s o).map fun e => SItem.imp e.1 e.2
        else [])) := by
    intro c
    cases c
    · simp
    · simp only [if_true, List.mem_flatMap, List.mem_map, mem_edges_congr a b h]
  have e2 : ∀ c : Bool,
      (y ∈ (if c = true then
          r.subjects.flatMap fun s => (others a r.importDir s r.effObjects).map fun e => SItem.imp e.1 e.2
        else [])) ↔
      (y ∈ (if c = true then
          r.subjects.flatMap fun s => (others b r.importDir s r.effObjects).map fun e => SItem.imp e.1 e.2
        else [])) := by
    intro c
    cases c
    · simp
    · simp only [if_true, List.mem_flatMap, List.mem_map, mem_others_congr a b h]
  rw [e1, e2]

/-- … hence the same report atoms -/
theorem violating_atoms_congr (r : RuleSpec) (x : Atom) :
    x ∈ (violating a r).flatMap SItem.atoms ↔ x ∈ (violating b r).flatMap SItem.atoms := by
  simp only [List.mem_flatMap, violating_congr_imports a b h r]

end

/-! ### `GraphOf` sees nodes and imports as sets -/

theorem graphOf_congr (a b : Arch) (g : PGraph Str) (hg : GraphOf a g) (h1 : ∀ n, n ∈ b.nodes ↔ n ∈ a.nodes)
    (h2 : ∀ e, e ∈ b.imports ↔ e ∈ a.imports) : GraphOf b g := by
  refine ⟨?_, ?_, ?_, ?_⟩
  · intro s
    rw [hg.nodes]
    constructor
    · rintro ⟨n, hn, r⟩; exact ⟨n, (h1 n).2 hn, r⟩
    · rintro ⟨n, hn, r⟩; exact ⟨n, (h1 n).1 hn, r⟩
  · intro s x
    rw [hg.hier]
    constructor
    · rintro ⟨c, hc, r⟩; exact ⟨c, (h1 c).2 hc, r⟩
    · rintro ⟨c, hc, r⟩; exact ⟨c, (h1 c).1 hc, r⟩
  · intro s x
    rw [hg.succs]
    constructor
    · rintro ⟨e, he, r⟩; exact ⟨e, (h2 e).2 he, r⟩
    · rintro ⟨e, he, r⟩; exact ⟨e, (h2 e).1 he, r⟩
  · intro s x
    rw [hg.preds]
    constructor
    · rintro ⟨e, he, r⟩; exact ⟨e, (h2 e).2 he, r⟩
    · rintro ⟨e, he, r⟩; exact ⟨e, (h2 e).1 he, r⟩

/-! ### the specification architecture of a scan -/

/-- every edge of the specification joins well-formed names (for any listing satisfying `ScanHyps`) -/
theorem scanImports_wf {mt : Str → Str → Bool} {base root : Str} {mp : List Str} {entries : List Entry}
    {o : ScanOptions} (H : ScanHyps mt base root mp entries o) (is : List (Name × Name))
    (h : scanImports root (sentriesOf mt base entries o) mp = some is) (e : Name × Name) (he : e ∈ is) :
    nameWF e.1 = true ∧ nameWF e.2 = true := by
  obtain ⟨⟨f, hf, hef⟩, hin, -⟩ := ScanImports.scanImports_mem _ _ _ is h e he
  refine ⟨?_, ScanImports.insideOf_wf _ _ _ H.ownWF _ hin⟩
  rw [hef]
  apply H.ownWF
  unfold ScanImports.filesOf at hf
  obtain ⟨hm, hc⟩ := List.mem_filter.1 hf
  simp only [Bool.and_eq_true] at hc
  exact List.mem_map.2 ⟨f, List.mem_filter.2 ⟨hm, hc.2⟩, rfl⟩

section
variable (mt : Str → Str → Bool) (base root : Str) (mp : List Str) (entries : List Entry) (o : ScanOptions)
  (hwf : treeWFFor (isExcluded mt o.exclusions) base mp entries = true) (hmp : mpOK entries mp = true)
  (hroot : compWF root = true)
  (hxx : o.excludeExternal = true) (hlim : o.levelLimit = none) (hext : o.externalExclusions.isEmpty = true)
  (hst : ∀ e ∈ entries, ∀ st ∈ e.stmts, stmtOK (toSStmt st) = true)
  (is : List (Name × Name))
  (his : scanImports root (toSEntries (isExcluded mt o.exclusions) base entries) mp = some is)
include hwf hmp hroot hxx hlim hext hst his

/-- C04 ∘ C02: the scan succeeds, the specification architecture `⟨scanModules …, is⟩` is well-formed, and the scan
    graph is a graph of it -/
theorem scan_spec_arch_lemma :
    ∃ g, generateGraph mt base root mp entries o = .ok g ∧
      (Arch.mk (scanModules root (toSEntries (isExcluded mt o.exclusions) base entries) mp) is).wf = true ∧
      GraphOf (Arch.mk (scanModules root (toSEntries (isExcluded mt o.exclusions) base entries) mp) is) g := by
  have h2 := ScanCompose.scan_imports_tree_lemma (root := root) hwf hmp hroot hxx hlim hext hst
  rw [his] at h2
  obtain ⟨g, hgen, hpairs⟩ := h2
  obtain ⟨a, han, hawf, hg, -⟩ := ScanGraph.scan_graph_lemma mt base root mp entries o hwf hmp hroot hxx hlim g hgen
  have H := ScanCompose.scanHyps_of_tree (root := root) hwf hmp hroot hxx hlim hext hst
  have hiswf : ∀ e ∈ is, nameWF e.1 = true ∧ nameWF e.2 = true := by
    intro e he
    refine scanImports_wf H is ?_ e he
    rw [ScanCompose.sentriesOf_root]; exact his
  have himp : ∀ e, e ∈ is ↔ e ∈ a.imports := by
    intro e
    constructor
    · intro he
      have hp : (render e.1, render e.2) ∈ g.importPairs := (hpairs _ _).2 ⟨e, he, rfl, rfl⟩
      rw [ScanGraph.mem_importPairs, ← BuildMain.mem_importSuccs] at hp
      obtain ⟨e', he', h1, h2⟩ := (hg.succs _ _).1 hp
      obtain ⟨i1, i2, -, -⟩ := BuildNames.wf_import a hawf e' he'
      obtain ⟨w1, w2⟩ := hiswf e he
      have e1 := render_injective _ _ w1 (BuildNames.wf_nodes a hawf _ i1) h1
      have e2 := render_injective _ _ w2 (BuildNames.wf_nodes a hawf _ i2) h2
      have : e = e' := Prod.ext e1 e2
      rw [this]; exact he'
    · intro he
      have hp : (render e.1, render e.2) ∈ g.importPairs := by
        rw [ScanGraph.mem_importPairs, ← BuildMain.mem_importSuccs]
        exact (hg.succs _ _).2 ⟨e, he, rfl, rfl⟩
      obtain ⟨e', he', h1, h2⟩ := (hpairs _ _).1 hp
      obtain ⟨i1, i2, -, -⟩ := BuildNames.wf_import a hawf e he
      obtain ⟨w1, w2⟩ := hiswf e' he'
      have e1 := render_injective _ _ (BuildNames.wf_nodes a hawf _ i1) w1 h1
      have e2 := render_injective _ _ (BuildNames.wf_nodes a hawf _ i2) w2 h2
      have : e = e' := Prod.ext e1 e2
      rw [this]; exact he'
  have hnodes : ∀ n, n ∈ (Arch.mk (scanModules root (toSEntries (isExcluded mt o.exclusions) base entries) mp) is).nodes ↔
      n ∈ a.nodes := by
    intro n; rw [han]
  refine ⟨g, hgen, ?_, ?_⟩
  · exact ScanGraph.wf_congr a _ hawf (ScanGraph.scanModules_nodup _ _ _) hnodes (fun e he => (himp e).1 he)
  · exact graphOf_congr a _ g hg hnodes himp

end

end E2ERule
end Pta
