/-
  PtaProofs.Lemmas.RenameScan — lemmas behind Props/C14Scan.lean: the specification of a scan (`scanModules`,
  `scanImports`) commutes with an injective renaming of path components; the abstraction of a renamed directory
  listing is the renamed abstraction; the tree hypotheses of the end-to-end theorems are preserved.
-/
import Bridge.Abs
import Bridge.Rename
import Bridge.RenameScan
import PtaProofs.Lemmas.Render
import PtaProofs.Lemmas.RenameAux
import PtaProofs.Lemmas.RenameModel
import PtaProofs.Lemmas.RenameBuild
import PtaProofs.Lemmas.ScanNames
import PtaProofs.Lemmas.GlobMeaning
import PtaProofs.Lemmas.ScanImports
import PtaProofs.Lemmas.BuildNames
import PtaProofs.Lemmas.ScanSpec
import PtaProofs.Lemmas.ScanCompose
import PtaProofs.Lemmas.ScanLimit
import PtaProofs.Lemmas.E2ERule
import PtaProofs.Lemmas.E2EMore
import PtaProofs.Lemmas.Order
import PtaProofs.Lemmas.OrderReport
import PtaProofs.Lemmas.MessageText
import PtaProofs.Lemmas.RenameLabel
namespace Pta.RS
open Pta PtaSpec

/-! ### `dropSuffix`: stem and suffix of a path component -/

/-- a suffix as `Path.suffix` returns it: empty, or a dot followed by dot-free text -/
def SufOK (suf : Str) : Prop := suf = [] ∨ ∃ ext, suf = '.' :: ext ∧ '.' ∉ ext

theorem dropSuffix_dot (s ext : Str) (hs : s ≠ []) (hext : '.' ∉ ext) : dropSuffix (s ++ '.' :: ext) = s := by
  unfold dropSuffix
  have h1 : (s ++ '.' :: ext).reverse = ext.reverse ++ '.' :: s.reverse := by simp
  have h2 : (ext.reverse ++ '.' :: s.reverse).dropWhile (· != '.') = '.' :: s.reverse := by
    rw [List.dropWhile_append_of_pos]
    · simp
    · intro a ha
      simp only [bne_iff_ne, ne_eq]
      rintro rfl
      exact hext (List.mem_reverse.1 ha)
  rw [h1, h2]
  cases s with
  | nil => exact absurd rfl hs
  | cons a t => simp

theorem dropSuffix_leading_dot (ext : Str) (hext : '.' ∉ ext) : dropSuffix ('.' :: ext) = '.' :: ext := by
  unfold dropSuffix
  have h1 : ('.' :: ext).reverse = ext.reverse ++ ['.'] := by simp
  have h2 : (ext.reverse ++ ['.']).dropWhile (· != '.') = ['.'] := by
    rw [List.dropWhile_append_of_pos]
    · simp
    · intro a ha
      simp only [bne_iff_ne, ne_eq]
      rintro rfl
      exact hext (List.mem_reverse.1 ha)
  rw [h1, h2]
  simp

theorem exists_last_dot : ∀ (c : Str), '.' ∈ c → ∃ s ext, c = s ++ '.' :: ext ∧ '.' ∉ ext
  | [], h => by cases h
  | a :: t, h => by
    by_cases ht : '.' ∈ t
    · obtain ⟨s, ext, rfl, he⟩ := exists_last_dot t ht
      exact ⟨a :: s, ext, rfl, he⟩
    · rcases List.mem_cons.1 h with rfl | h'
      · exact ⟨[], t, rfl, ht⟩
      · exact absurd h' ht

/-- a component with a well-formed stem is that stem followed by a suffix -/
theorem stemWF_split (c : Str) (h : compWF (dropSuffix c) = true) :
    ∃ suf, SufOK suf ∧ c = dropSuffix c ++ suf := by
  by_cases hd : '.' ∈ c
  · obtain ⟨s, ext, rfl, he⟩ := exists_last_dot c hd
    by_cases hs : s = []
    · subst hs
      rw [List.nil_append, dropSuffix_leading_dot ext he] at h
      have := ((compWF_iff _).1 h).2
      exact absurd List.mem_cons_self this
    · rw [dropSuffix_dot s ext hs he]
      exact ⟨'.' :: ext, Or.inr ⟨ext, rfl, he⟩, rfl⟩
  · rw [ScanNames.dropSuffix_nodot c hd]
    exact ⟨[], Or.inl rfl, by simp⟩

theorem dropSuffix_stem_suf (t suf : Str) (ht : compWF t = true) (hs : SufOK suf) : dropSuffix (t ++ suf) = t := by
  rcases hs with rfl | ⟨ext, rfl, he⟩
  · rw [List.append_nil]; exact ScanNames.dropSuffix_compWF t ht
  · exact dropSuffix_dot t ext ((compWF_iff t).1 ht).1 he

theorem isPyFile_stem_suf (t suf : Str) (ht : compWF t = true) (hs : SufOK suf) :
    isPyFile (t ++ suf) = true ↔ suf = ".py".toList := by
  constructor
  · intro h
    have := ScanNames.isPyFile_split _ h
    rw [dropSuffix_stem_suf t suf ht hs] at this
    exact List.append_cancel_left this
  · rintro rfl
    rw [isPyFile_iff]
    exact ⟨t, rfl, ((compWF_iff t).1 ht).1⟩

/-! ### `renFile` -/

section renFile
variable {ρ : Comp → Comp}

theorem renFile_split (c : Str) (h : compWF (dropSuffix c) = true) :
    ∃ suf, SufOK suf ∧ c = dropSuffix c ++ suf ∧ renFile ρ c = ρ (dropSuffix c) ++ suf := by
  obtain ⟨suf, hs, hc⟩ := stemWF_split c h
  refine ⟨suf, hs, hc, ?_⟩
  unfold renFile
  rw [if_pos h]
  congr 1
  conv => lhs; arg 2; rw [hc]
  exact List.drop_left

theorem renFile_compWF (c : Str) (h : compWF c = true) : renFile ρ c = ρ c := by
  unfold renFile
  rw [ScanNames.dropSuffix_compWF c h, if_pos h, List.drop_length, List.append_nil]

theorem dropSuffix_renFile (hρ : GoodRen ρ) (c : Str) : dropSuffix (renFile ρ c) = renStem ρ (dropSuffix c) := by
  by_cases h : compWF (dropSuffix c) = true
  · obtain ⟨suf, hs, -, hr⟩ := renFile_split (ρ := ρ) c h
    rw [hr, dropSuffix_stem_suf _ suf (hρ.wf _ h) hs, renStem, if_pos h]
  · simp only [renFile, renStem, if_neg h]

theorem isPyFile_renFile (hρ : GoodRen ρ) (c : Str) : isPyFile (renFile ρ c) = isPyFile c := by
  by_cases h : compWF (dropSuffix c) = true
  · obtain ⟨suf, hs, hc, hr⟩ := renFile_split (ρ := ρ) c h
    rw [Bool.eq_iff_iff, hr]
    conv => rhs; rw [hc]
    rw [isPyFile_stem_suf _ suf (hρ.wf _ h) hs, isPyFile_stem_suf _ suf h hs]
  · simp only [renFile, if_neg h]

theorem renFile_inj (hρ : GoodRen ρ) : ∀ c d, renFile ρ c = renFile ρ d → c = d := by
  intro c d hcd
  have hs := congrArg dropSuffix hcd
  rw [dropSuffix_renFile hρ, dropSuffix_renFile hρ] at hs
  by_cases hc : compWF (dropSuffix c) = true
  · by_cases hd : compWF (dropSuffix d) = true
    · obtain ⟨suf, -, hc1, hc2⟩ := renFile_split (ρ := ρ) c hc
      obtain ⟨suf', -, hd1, hd2⟩ := renFile_split (ρ := ρ) d hd
      simp only [renStem, if_pos hc, if_pos hd] at hs
      have e := hρ.inj _ _ hs
      rw [hc2, hd2, e] at hcd
      rw [hc1, hd1, e, List.append_cancel_left hcd]
    · simp only [renStem, if_pos hc, if_neg hd] at hs
      rw [← hs] at hd
      exact absurd (hρ.wf _ hc) hd
  · by_cases hd : compWF (dropSuffix d) = true
    · simp only [renStem, if_neg hc, if_pos hd] at hs
      rw [hs] at hc
      exact absurd (hρ.wf _ hd) hc
    · simpa only [renFile, if_neg hc, if_neg hd] using hcd

theorem renFile_nil : renFile ρ [] = [] := rfl

theorem renFile_py_lemma (c : Str) (hp : isPyFile c = true) (h : compWF (dropSuffix c) = true) :
    renFile ρ c = ρ (dropSuffix c) ++ ".py".toList := by
  obtain ⟨suf, hs, hc, hr⟩ := renFile_split (ρ := ρ) c h
  rw [hr]
  congr 1
  rw [hc] at hp
  exact (isPyFile_stem_suf _ suf h hs).1 hp

theorem renStem_compWF (s : Comp) (h : compWF s = true) : renStem ρ s = ρ s := by
  simp only [renStem, if_pos h]

/-- on a well-formed name the component renaming on disk is the renaming of the name -/
theorem map_renFile_wf (n : Name) (h : ∀ c ∈ n, compWF c = true) : n.map (renFile ρ) = renName ρ n := by
  unfold renName
  apply List.map_congr_left
  intro c hc
  exact renFile_compWF c (h c hc)

end renFile

/-! ### lists -/

theorem eraseDups_map_inj {α β : Type} [BEq α] [LawfulBEq α] [BEq β] [LawfulBEq β] (f : α → β)
    (hf : ∀ x y, f x = f y → x = y) : ∀ (l : List α), (l.map f).eraseDups = l.eraseDups.map f
  | [] => by simp
  | a :: as => by
    rw [List.map_cons, List.eraseDups_cons, List.eraseDups_cons, List.map_cons, List.filter_map]
    simp only [Function.comp_def, RM.beq_inj f hf]
    rw [eraseDups_map_inj f hf (as.filter fun b => !b == a)]
termination_by l => l.length
decreasing_by
  simp only [List.length_cons]
  exact Nat.lt_succ_of_le (List.length_filter_le _ _)

theorem option_foldlM_map {α α' β β' : Type} (a : α → α') (b : β → β') (step : β → α → Option β)
    (step' : β' → α' → Option β') :
    ∀ (l : List α), (∀ x ∈ l, ∀ acc, step' (b acc) (a x) = (step acc x).map b) → ∀ acc,
      (l.map a).foldlM step' (b acc) = (l.foldlM step acc).map b
  | [], _, _ => rfl
  | x :: l, h, acc => by
    rw [List.map_cons, List.foldlM_cons, List.foldlM_cons, h x List.mem_cons_self acc]
    cases step acc x with
    | none => rfl
    | some r =>
      exact option_foldlM_map a b step step' l (fun y hy => h y (List.mem_cons_of_mem _ hy)) r

/-! ### the specification of a scan commutes with the renaming -/

section spec
variable {ρ : Comp → Comp} (hρ : GoodRen ρ)
include hρ

theorem map_renFile_inj (x y : List Str) (h : x.map (renFile ρ) = y.map (renFile ρ)) : x = y :=
  Ren.map_inj _ (renFile_inj hρ) x y h

theorem survives_ren (ses : List SEntry) (mp : List Comp) (e : SEntry) :
    survives (ses.map (renSEntry ρ)) (mp.map (renFile ρ)) (renSEntry ρ e) = survives ses mp e := by
  simp only [survives, renSEntry, List.all_map, Function.comp_def, Ren.isPrefixOf_map _ (renFile_inj hρ),
    RM.beq_inj (List.map (renFile ρ)) (map_renFile_inj hρ)]

omit hρ in
theorem entryName_ren (root : Comp) (e : SEntry) (h : nameWF (entryName root e) = true) :
    entryName (ρ root) (renSEntry ρ e) = renName ρ (entryName root e) := by
  unfold entryName at h ⊢
  simp only [renSEntry, List.isEmpty_map]
  by_cases he : e.rel.isEmpty = true
  · simp only [he, if_true, renName, List.map_cons, List.map_nil]
  · simp only [he, Bool.false_eq_true, if_false] at h ⊢
    rw [nameWF_cons_iff] at h
    have hall : ∀ c ∈ e.rel.dropLast ++ [e.stem], compWF c = true := by
      intro c hc
      have hr : nameWF (e.rel.dropLast ++ [e.stem]) = true := by
        rcases h.2 with h' | h'
        · simp at h'
        · exact h'
      exact (compWF_iff c).2 (((nameWF_iff _).1 hr).2 c hc)
    have h1 : (e.rel.map (renFile ρ)).dropLast = renName ρ e.rel.dropLast := by
      rw [← List.map_dropLast]
      exact map_renFile_wf _ (fun c hc => hall c (List.mem_append_left _ hc))
    have h2 : renStem ρ e.stem = ρ e.stem := renStem_compWF _ (hall _ (by simp))
    rw [h1, h2]
    simp only [renName, List.map_cons, List.map_append, List.map_nil]

theorem ownNames_ren (root : Comp) (ses : List SEntry) (mp : List Comp)
    (hown : ∀ e ∈ ses, survives ses mp e = true → nameWF (entryName root e) = true) :
    ownNames (ρ root) (ses.map (renSEntry ρ)) (mp.map (renFile ρ)) = (ownNames root ses mp).map (renName ρ) := by
  unfold ownNames
  rw [List.filter_map, List.map_map, List.map_map]
  simp only [Function.comp_def, survives_ren hρ]
  apply List.map_congr_left
  intro e he
  obtain ⟨h1, h2⟩ := List.mem_filter.1 he
  exact entryName_ren (ρ := ρ) root e (hown e h1 h2)

theorem scanModules_ren (root : Comp) (ses : List SEntry) (mp : List Comp)
    (hown : ∀ e ∈ ses, survives ses mp e = true → nameWF (entryName root e) = true) :
    scanModules (ρ root) (ses.map (renSEntry ρ)) (mp.map (renFile ρ)) = (scanModules root ses mp).map (renName ρ) := by
  have h := ownNames_ren hρ root ses mp hown
  unfold ownNames at h
  unfold scanModules
  have hpp : ∀ l : List Name, (l.map (renName ρ)).flatMap properPrefixes = (l.flatMap properPrefixes).map (renName ρ) := by
    intro l
    induction l with
    | nil => rfl
    | cons x xs ih => simp only [List.map_cons, List.flatMap_cons, ih, Ren.properPrefixes_ren, List.map_append]
  rw [h, ← eraseDups_map_inj _ (fun x y => Ren.renName_inj hρ), List.map_append]
  dsimp only
  rw [hpp]

theorem qualify_ren (mods : List Name) (ap : Option Name) (n : Name) :
    targets.qualify (mods.map (renName ρ)) (ap.map (renName ρ)) (renName ρ n) = renName ρ (targets.qualify mods ap n) := by
  cases ap with
  | none => rfl
  | some pre =>
    simp only [targets.qualify, Option.map_some]
    have : renName ρ pre ++ renName ρ n = renName ρ (pre ++ n) := by simp [renName]
    rw [this, Ren.contains_ren hρ]
    split <;> rfl

theorem targets_ren (mods : List Name) (ap : Option Name) (importer : Name) (st : SStmt) :
    targets (mods.map (renName ρ)) (ap.map (renName ρ)) (renName ρ importer) (renSStmt ρ st) =
      (targets mods ap importer st).map (List.map (renName ρ)) := by
  have happ : ∀ (p : Name) (n : Comp), renName ρ p ++ [ρ n] = renName ρ (p ++ [n]) := by
    intro p n; simp [renName]
  cases st with
  | imp names =>
    simp only [renSStmt, targets, Option.map_some, List.map_map, Function.comp_def, qualify_ren hρ]
  | impFrom m names level =>
    cases level with
    | zero =>
      cases m with
      | none => rfl
      | some p =>
        simp only [renSStmt, targets, Option.map_some, List.map_map, Function.comp_def, happ, qualify_ren hρ,
          Ren.contains_ren hρ]
        congr 1
        apply List.map_congr_left
        intro n _
        split <;> rfl
    | succ l =>
      cases m with
      | none =>
        simp only [renSStmt, targets, renName, List.length_map, Option.map_none]
        split
        · rfl
        · simp only [Option.map_some, List.map_map, Function.comp_def]
          congr 1
          apply List.map_congr_left
          intro n _
          simp [renName, List.map_take]
      | some p =>
        simp only [renSStmt, targets, renName, List.length_map, Option.map_some]
        split
        · rfl
        · simp only [Option.map_some, List.map_map, Function.comp_def]
          congr 1
          apply List.map_congr_left
          intro n _
          have e1 : List.map ρ (importer.take (importer.length - (l + 1))) ++ List.map ρ p ++ [ρ n] =
              renName ρ (importer.take (importer.length - (l + 1)) ++ p ++ [n]) := by simp [renName]
          have e2 : List.map ρ (importer.take (importer.length - (l + 1))) ++ List.map ρ p =
              renName ρ (importer.take (importer.length - (l + 1)) ++ p) := by simp [renName]
          rw [← List.map_take, e1, e2]
          rw [Ren.contains_ren hρ]
          split <;> rfl

omit hρ in
theorem mp_map_renFile (root : Comp) (mp : List Comp) (hmp : nameWF (root :: mp) = true) :
    mp.map (renFile ρ) = renName ρ mp := by
  apply map_renFile_wf
  intro c hc
  exact (compWF_iff c).2 (((nameWF_iff _).1 hmp).2 c (List.mem_cons_of_mem _ hc))

theorem insideOf_ren (root : Comp) (ses : List SEntry) (mp : List Comp)
    (hown : ∀ e ∈ ses, survives ses mp e = true → nameWF (entryName root e) = true)
    (hmp : nameWF (root :: mp) = true) :
    ScanImports.insideOf (ρ root) (ses.map (renSEntry ρ)) (mp.map (renFile ρ)) =
      (ScanImports.insideOf root ses mp).map (renName ρ) := by
  unfold ScanImports.insideOf
  rw [scanModules_ren hρ root ses mp hown, List.filter_map, mp_map_renFile root mp hmp]
  congr 2
  funext m
  exact Ren.isPrefixOf_map ρ hρ.inj (root :: mp) m

omit hρ in
theorem apOf_ren (root : Comp) (mp : List Comp) (hmp : nameWF (root :: mp) = true) :
    ScanImports.apOf (ρ root) (mp.map (renFile ρ)) = (ScanImports.apOf root mp).map (renName ρ) := by
  unfold ScanImports.apOf
  rw [mp_map_renFile root mp hmp]
  simp only [renName, List.isEmpty_map]
  split
  · rfl
  · simp only [Option.map_some, renName, List.map_cons, ← List.map_dropLast]

theorem filesOf_ren (ses : List SEntry) (mp : List Comp) :
    ScanImports.filesOf (ses.map (renSEntry ρ)) (mp.map (renFile ρ)) = (ScanImports.filesOf ses mp).map (renSEntry ρ) := by
  unfold ScanImports.filesOf
  rw [List.filter_map]
  simp only [Function.comp_def, survives_ren hρ]
  rfl

/-- the specification's import list of the renamed tree is the renamed import list (same order); a relative import
    above the root stays one -/
theorem scanImports_ren (root : Comp) (ses : List SEntry) (mp : List Comp)
    (hown : ∀ e ∈ ses, survives ses mp e = true → nameWF (entryName root e) = true)
    (hmp : nameWF (root :: mp) = true) :
    scanImports (ρ root) (ses.map (renSEntry ρ)) (mp.map (renFile ρ)) =
      (scanImports root ses mp).map (List.map (Ren.renPair ρ)) := by
  rw [ScanImports.scanImports_unfold, ScanImports.scanImports_unfold, insideOf_ren hρ root ses mp hown hmp,
    apOf_ren root mp hmp, filesOf_ren hρ]
  refine option_foldlM_map (renSEntry ρ) (List.map (Ren.renPair ρ)) _ _ _ ?_ []
  intro f hf acc
  have hfs : f ∈ ses ∧ survives ses mp f = true := by
    unfold ScanImports.filesOf at hf
    obtain ⟨h1, h2⟩ := List.mem_filter.1 hf
    simp only [Bool.and_eq_true] at h2
    exact ⟨h1, h2.2⟩
  have hname := entryName_ren (ρ := ρ) root f (hown f hfs.1 hfs.2)
  show List.foldlM _ _ (f.stmts.map (renSStmt ρ)) = _
  refine option_foldlM_map (renSStmt ρ) (List.map (Ren.renPair ρ)) _ _ _ ?_ acc
  intro st _ acc2
  simp only [hname, targets_ren hρ]
  cases targets (ScanImports.insideOf root ses mp) (ScanImports.apOf root mp) (entryName root f) st with
  | none => rfl
  | some ts =>
    simp only [Option.map_some, List.filter_map, Function.comp_def, Ren.contains_ren hρ, Ren.renName_bne hρ,
      List.map_append, List.map_map, Ren.renPair]

end spec

/-! ### the abstraction of the renamed listing is the renamed abstraction -/

section model
variable {ρ : Comp → Comp} (hρ : GoodRen ρ)
include hρ

omit hρ in
theorem renDotted_comp (c : Comp) (h : compWF c = true) : renDotted ρ c = ρ c := by
  simp only [renDotted, splitDots_nodot c ((compWF_iff c).1 h).2, renName, List.map_cons, List.map_nil, render_singleton]

theorem splitDots_renDotted (s : Str) (h : nameWF (splitDots s) = true) :
    splitDots (renDotted ρ s) = renName ρ (splitDots s) :=
  splitDots_render _ (Ren.nameWF_ren hρ h)

theorem toSStmt_ren (st : ImportStmt) (h : stmtOK (toSStmt st) = true) :
    toSStmt (renStmt ρ st) = renSStmt ρ (toSStmt st) := by
  cases st with
  | imp names =>
    simp only [toSStmt, stmtOK, List.all_eq_true, List.mem_map] at h
    simp only [renStmt, toSStmt, renSStmt, List.map_map, SStmt.imp.injEq]
    apply List.map_congr_left
    intro n hn
    exact splitDots_renDotted hρ n (h _ ⟨n, hn, rfl⟩)
  | impFrom m names lvl =>
    have hm : ∀ p, m = some p → nameWF (splitDots p) = true := by
      rintro p rfl
      cases lvl <;> simp only [toSStmt, stmtOK, Option.map_some, Bool.and_eq_true] at h
      · exact h.1
      · exact h.1.1
    have hn : ∀ n ∈ names, compWF n = true := by
      intro n hn
      cases lvl <;> simp only [toSStmt, stmtOK, Bool.and_eq_true, List.all_eq_true] at h
      · exact h.2 n hn
      · exact h.1.2 n hn
    simp only [renStmt, toSStmt, renSStmt, SStmt.impFrom.injEq, and_true]
    refine ⟨?_, ?_⟩
    · cases m with
      | none => rfl
      | some p => simp only [Option.map_some, splitDots_renDotted hρ p (hm p rfl)]
    · apply List.map_congr_left
      intro n h'
      exact renDotted_comp n (hn n h')

theorem stmtOK_ren (s : SStmt) (h : stmtOK s = true) : stmtOK (renSStmt ρ s) = true := by
  have hall : ∀ names : List Comp, names.all compWF = true → (names.map ρ).all compWF = true := by
    intro names hn
    simp only [List.all_eq_true, List.mem_map] at hn ⊢
    rintro c ⟨d, hd, rfl⟩
    exact hρ.wf d (hn d hd)
  have hopt : ∀ m : Option Name, (match m with | some p => nameWF p | none => true) = true →
      (match m.map (renName ρ) with | some p => nameWF p | none => true) = true := by
    intro m hm
    cases m with
    | none => rfl
    | some p => exact Ren.nameWF_ren hρ hm
  cases s with
  | imp names =>
    simp only [stmtOK, renSStmt, List.all_eq_true, List.mem_map] at h ⊢
    rintro n ⟨n0, h0, rfl⟩
    exact Ren.nameWF_ren hρ (h n0 h0)
  | impFrom m names lvl =>
    cases lvl with
    | zero =>
      simp only [stmtOK, renSStmt, Bool.and_eq_true] at h ⊢
      exact ⟨hopt m h.1, hall names h.2⟩
    | succ l =>
      simp only [stmtOK, renSStmt, Bool.and_eq_true, List.isEmpty_map] at h ⊢
      exact ⟨⟨hopt m h.1.1, hall names h.1.2⟩, h.2⟩

omit hρ in
theorem lastName_renEntry (e : Entry) : lastName (renEntry ρ e) = renFile ρ (lastName e) := by
  simp only [lastName, renEntry, List.getLast?_map]
  cases e.rel.getLast? with
  | none => rfl
  | some n => rfl

omit hρ in
theorem renEntry_root : renEntry ρ rootEntry = rootEntry := rfl

theorem toSEntry_ren (excl excl' : Str → Bool) (base base' : Str) (e : Entry)
    (hx : excl' (pathStr base' (e.rel.map (renFile ρ))) = excl (pathStr base e.rel))
    (hst : ∀ st ∈ e.stmts, stmtOK (toSStmt st) = true) :
    toSEntry excl' base' (renEntry ρ e) = renSEntry ρ (toSEntry excl base e) := by
  rw [toSEntry_lastName, toSEntry_lastName, lastName_renEntry]
  simp only [renSEntry, renEntry, isPyFile_renFile hρ, dropSuffix_renFile hρ, hx, List.map_map]
  congr 1
  apply List.map_congr_left
  intro st h
  exact toSStmt_ren hρ st (hst st h)

theorem toSEntries_ren (excl excl' : Str → Bool) (base base' : Str) (entries : List Entry)
    (hx : ExclTransported ρ excl excl' base base' entries)
    (hst : ∀ e ∈ entries, ∀ st ∈ e.stmts, stmtOK (toSStmt st) = true) :
    toSEntries excl' base' (renEntries ρ entries) = (toSEntries excl base entries).map (renSEntry ρ) := by
  unfold toSEntries renEntries
  rw [← renEntry_root (ρ := ρ), ← List.map_cons, List.map_map, List.map_map]
  apply List.map_congr_left
  intro e he
  rcases List.mem_cons.1 he with rfl | h
  · exact toSEntry_ren hρ excl excl' base base' rootEntry (hx [] (Or.inl rfl)) (fun st h => by cases h)
  · exact toSEntry_ren hρ excl excl' base base' e (hx e.rel (Or.inr ⟨e, h, List.prefix_refl _⟩)) (hst e h)

theorem stmts_ren_ok (entries : List Entry) (hst : ∀ e ∈ entries, ∀ st ∈ e.stmts, stmtOK (toSStmt st) = true) :
    ∀ e ∈ renEntries ρ entries, ∀ st ∈ e.stmts, stmtOK (toSStmt st) = true := by
  intro e' he' st' hst'
  obtain ⟨e, he, rfl⟩ := List.mem_map.1 he'
  obtain ⟨st, hs, rfl⟩ := List.mem_map.1 hst'
  rw [toSStmt_ren hρ st (hst e he st hs)]
  exact stmtOK_ren hρ _ (hst e he st hs)

/-! ### the tree hypotheses are preserved -/

theorem relsNodup_ren (entries : List Entry) : relsNodup (renEntries ρ entries) = relsNodup entries := by
  induction entries with
  | nil => rfl
  | cons e es ih =>
    unfold renEntries at ih ⊢
    simp only [List.map_cons, relsNodup, ih, List.any_map, Function.comp_def, renEntry,
      RM.beq_inj (List.map (renFile ρ)) (map_renFile_inj hρ)]

theorem treeShape_ren (entries : List Entry) : treeShape (renEntries ρ entries) = treeShape entries := by
  unfold treeShape
  rw [relsNodup_ren hρ]
  unfold renEntries
  simp only [List.all_map, List.any_map, Function.comp_def, renEntry, List.isEmpty_map, List.length_map,
    ← List.map_dropLast, RM.beq_inj (List.map (renFile ρ)) (map_renFile_inj hρ)]

theorem mpOK_ren (entries : List Entry) (mp : List Str) :
    mpOK (renEntries ρ entries) (mp.map (renFile ρ)) = mpOK entries mp := by
  unfold mpOK renEntries
  simp only [List.any_map, Function.comp_def, renEntry, List.isEmpty_map,
    RM.beq_inj (List.map (renFile ρ)) (map_renFile_inj hρ)]

theorem relevant_ren (excl excl' : Str → Bool) (base base' : Str) (mp : List Str) (entries : List Entry)
    (hx : ExclTransported ρ excl excl' base base' entries) (e : Entry) (he : e ∈ entries) :
    relevant excl' base' (mp.map (renFile ρ)) (renEntry ρ e) = relevant excl base mp e := by
  have hk : ∀ k, excl' (pathStr base' ((e.rel.take k).map (renFile ρ))) = excl (pathStr base (e.rel.take k)) :=
    fun k => hx _ (Or.inr ⟨e, he, List.take_prefix k e.rel⟩)
  simp only [relevant, renEntry, List.length_map, Ren.isPrefixOf_map _ (renFile_inj hρ), ← List.map_take, hk]

theorem treeNamesFor_ren (excl excl' : Str → Bool) (base base' : Str) (mp : List Str) (entries : List Entry)
    (hx : ExclTransported ρ excl excl' base base' entries)
    (h : treeNamesFor excl base mp entries = true) :
    treeNamesFor excl' base' (mp.map (renFile ρ)) (renEntries ρ entries) = true := by
  simp only [treeNamesFor, Bool.and_eq_true, List.all_eq_true] at h ⊢
  obtain ⟨h1, h2⟩ := h
  have hfile : ∀ e ∈ entries, relevant excl base mp e = true → e.isDir = false → isPyFile (lastName e) = true →
      compWF (dropSuffix (lastName e)) = true := by
    intro e he hr hd hp
    have := h1 e he
    simpa [hr, hd, hp] using this
  refine ⟨?_, ?_⟩
  · intro e' he'
    obtain ⟨e, he, rfl⟩ := List.mem_map.1 he'
    rw [relevant_ren hρ excl excl' base base' mp entries hx e he, lastName_renEntry]
    have h1e := h1 e he
    cases hr : relevant excl base mp e with
    | false => rfl
    | true =>
      rw [hr] at h1e
      simp only [Bool.not_true, Bool.false_or] at h1e ⊢
      show (if e.isDir = true then _ else _) = true
      cases hd : e.isDir with
      | true =>
        rw [hd] at h1e
        simp only [if_true] at h1e ⊢
        rw [renFile_compWF _ h1e]
        exact hρ.wf _ h1e
      | false =>
        simp only [Bool.false_eq_true, if_false]
        rw [isPyFile_renFile hρ, dropSuffix_renFile hρ]
        cases hp : isPyFile (lastName e) with
        | false => rfl
        | true =>
          have := hfile e he hr hd hp
          rw [renStem_compWF _ this]
          simp [hρ.wf _ this]
  · intro e' he'
    obtain ⟨e, he, rfl⟩ := List.mem_map.1 he'
    rw [relevant_ren hρ excl excl' base base' mp entries hx e he, lastName_renEntry]
    have h2e := h2 e he
    cases hr : relevant excl base mp e with
    | false => rfl
    | true =>
      show (!true || e.isDir || _ || _) = true
      cases hd : e.isDir with
      | true => simp
      | false =>
        rw [isPyFile_renFile hρ]
        cases hp : isPyFile (lastName e) with
        | false => simp
        | true =>
          have hs := hfile e he hr hd hp
          rw [hr, hd, hp] at h2e
          simp only [Bool.not_true, Bool.false_or, Bool.not_eq_true'] at h2e ⊢
          rw [← h2e]
          unfold renEntries
          rw [List.any_map]
          have e1 : (renEntry ρ e).rel.dropLast ++ [dropSuffix (renFile ρ (lastName e))] =
              (e.rel.dropLast ++ [dropSuffix (lastName e)]).map (renFile ρ) := by
            rw [dropSuffix_renFile hρ, renStem_compWF _ hs, List.map_append, List.map_dropLast, List.map_cons,
              List.map_nil, renFile_compWF _ hs]
            rfl
          rw [e1]
          simp only [Function.comp_def, renEntry, RM.beq_inj (List.map (renFile ρ)) (map_renFile_inj hρ)]

theorem treeWFFor_ren (excl excl' : Str → Bool) (base base' : Str) (mp : List Str) (entries : List Entry)
    (hx : ExclTransported ρ excl excl' base base' entries)
    (h : treeWFFor excl base mp entries = true) :
    treeWFFor excl' base' (mp.map (renFile ρ)) (renEntries ρ entries) = true := by
  simp only [treeWFFor, Bool.and_eq_true] at h ⊢
  exact ⟨by rw [treeShape_ren hρ]; exact h.1, treeNamesFor_ren hρ excl excl' base base' mp entries hx h.2⟩

omit hρ in
/-- the Bool-valued test implies the transport hypothesis -/
theorem exclTransported_of_check (excl excl' : Str → Bool) (base base' : Str) (entries : List Entry)
    (h : exclTransportedB ρ excl excl' base base' entries = true) : ExclTransported ρ excl excl' base base' entries := by
  simp only [exclTransportedB, Bool.and_eq_true, beq_iff_eq, List.all_eq_true, List.mem_range] at h
  rintro q (rfl | ⟨e, he, hq⟩)
  · exact h.1
  · have := h.2 e he q.length (Nat.lt_succ_of_le hq.length_le)
    rw [List.prefix_iff_eq_take.1 hq]
    exact this

end model

/-! ### graphs of the renamed architecture -/

section graph

theorem mem_hierChildren_map (φ : Str → Str) (g : PGraph Str) (s x : Str) :
    x ∈ (mapGraph φ g).hierChildren s ↔ ∃ u v, v ∈ g.hierChildren u ∧ s = φ u ∧ x = φ v := by
  simp only [PGraph.hierChildren, mapGraph, List.mem_map, List.mem_filter, Bool.and_eq_true, beq_iff_eq]
  constructor
  · rintro ⟨e', ⟨⟨e, he, rfl⟩, h1, h2⟩, rfl⟩
    exact ⟨e.src, e.dst, ⟨e, ⟨he, rfl, h2⟩, rfl⟩, h1.symm, rfl⟩
  · rintro ⟨u, v, ⟨e, ⟨he, h1, h2⟩, rfl⟩, rfl, rfl⟩
    exact ⟨_, ⟨⟨e, he, rfl⟩, by rw [← h1], h2⟩, rfl⟩

theorem mem_importSuccs_map (φ : Str → Str) (g : PGraph Str) (s x : Str) :
    x ∈ (mapGraph φ g).importSuccs s ↔ ∃ u v, v ∈ g.importSuccs u ∧ s = φ u ∧ x = φ v := by
  simp only [PGraph.importSuccs, mapGraph, List.mem_map, List.mem_filter, Bool.and_eq_true, beq_iff_eq]
  constructor
  · rintro ⟨e', ⟨⟨e, he, rfl⟩, h1, h2⟩, rfl⟩
    exact ⟨e.src, e.dst, ⟨e, ⟨he, rfl, h2⟩, rfl⟩, h1.symm, rfl⟩
  · rintro ⟨u, v, ⟨e, ⟨he, h1, h2⟩, rfl⟩, rfl, rfl⟩
    exact ⟨_, ⟨⟨e, he, rfl⟩, by rw [← h1], h2⟩, rfl⟩

theorem mem_importPreds_map (φ : Str → Str) (g : PGraph Str) (s x : Str) :
    x ∈ (mapGraph φ g).importPreds s ↔ ∃ u v, u ∈ g.importPreds v ∧ s = φ v ∧ x = φ u := by
  simp only [PGraph.importPreds, mapGraph, List.mem_map, List.mem_filter, Bool.and_eq_true, beq_iff_eq]
  constructor
  · rintro ⟨e', ⟨⟨e, he, rfl⟩, h1, h2⟩, rfl⟩
    exact ⟨e.src, e.dst, ⟨e, ⟨he, rfl, h2⟩, rfl⟩, h1.symm, rfl⟩
  · rintro ⟨u, v, ⟨e, ⟨he, h1, h2⟩, rfl⟩, rfl, rfl⟩
    exact ⟨_, ⟨⟨e, he, rfl⟩, by rw [← h1], h2⟩, rfl⟩

theorem trunc_ren (ρ : Comp → Comp) (lim : Option Nat) (n : Name) :
    trunc lim (renName ρ n) = renName ρ (trunc lim n) := by
  cases lim with
  | none => rfl
  | some k => simp only [trunc, renName, List.map_take]

theorem trunc_wf (lim : Option Nat) (n : Name) (h : nameWF n = true) : nameWF (trunc lim n) = true := by
  cases lim with
  | none => exact h
  | some k => exact nameWF_take h k

theorem dropLast_wf (n : Name) (h : nameWF n = true) (h2 : 2 ≤ n.length) : nameWF n.dropLast = true := by
  apply nameWF_of_prefix h _ (List.dropLast_prefix n)
  intro h0
  have := congrArg List.length h0
  simp only [List.length_dropLast, List.length_nil] at this
  omega

variable {ρ : Comp → Comp} (hρ : GoodRen ρ) (φ : Str → Str)
  (hφ : ∀ n, nameWF n = true → φ (render n) = render (renName ρ n))
include hρ hφ

/-- a graph of the renamed architecture (quotient under a level limit) is, up to the order of nodes and edges, the
    image of a graph of the original architecture under any map that renames rendered well-formed names -/
theorem quotient_image (a : Arch) (hwf : a.wf = true) (lim : Option Nat) (g g' : PGraph Str)
    (q : QuotientOf a lim g) (q' : QuotientOf (renArch ρ a) lim g') : GraphEquiv g' (mapGraph φ g) := by
  have hn : ∀ n ∈ a.nodes, nameWF (trunc lim n) = true :=
    fun n h => trunc_wf lim n (BuildNames.wf_nodes a hwf n h)
  have hr : ∀ n ∈ a.nodes, φ (render (trunc lim n)) = render (trunc lim (renName ρ n)) := by
    intro n h
    rw [hφ _ (hn n h), trunc_ren]
  have hne : ∀ e : Name × Name, trunc lim (renName ρ e.1) ≠ trunc lim (renName ρ e.2) ↔ trunc lim e.1 ≠ trunc lim e.2 := by
    intro e
    rw [trunc_ren, trunc_ren, ne_eq, ne_eq, Ren.renName_eq_iff hρ]
  refine ⟨?_, ?_, ?_, ?_⟩
  · intro s
    have h1 : s ∈ g'.nodes ↔ g'.hasNode s = true := by simp [PGraph.hasNode]
    rw [h1, q'.nodes]
    simp only [mapGraph, List.mem_map, renArch]
    constructor
    · rintro ⟨n', ⟨n, hn', rfl⟩, rfl⟩
      refine ⟨render (trunc lim n), ?_, hr n hn'⟩
      have := (q.nodes (render (trunc lim n))).2 ⟨n, hn', rfl⟩
      simpa [PGraph.hasNode] using this
    · rintro ⟨t, ht, rfl⟩
      have : g.hasNode t = true := by simpa [PGraph.hasNode] using ht
      obtain ⟨n, hn', rfl⟩ := (q.nodes t).1 this
      exact ⟨renName ρ n, ⟨n, hn', rfl⟩, hr n hn'⟩
  · intro s x
    rw [q'.hier, mem_hierChildren_map]
    simp only [renArch, List.mem_map]
    constructor
    · rintro ⟨c', ⟨c, hc, rfl⟩, h2, rfl, rfl⟩
      rw [trunc_ren, renName, List.length_map] at h2
      refine ⟨_, _, (q.hier _ _).2 ⟨c, hc, h2, rfl, rfl⟩, ?_, (hr c hc).symm⟩
      rw [hφ _ (dropLast_wf _ (hn c hc) h2), trunc_ren]
      simp only [renName, List.map_dropLast]
    · rintro ⟨u, v, huv, rfl, rfl⟩
      obtain ⟨c, hc, h2, rfl, rfl⟩ := (q.hier u v).1 huv
      refine ⟨renName ρ c, ⟨c, hc, rfl⟩, ?_, ?_, hr c hc⟩
      · rw [trunc_ren, renName, List.length_map]; exact h2
      · rw [hφ _ (dropLast_wf _ (hn c hc) h2), trunc_ren]
        simp only [renName, List.map_dropLast]
  · intro s x
    rw [q'.succs, mem_importSuccs_map]
    simp only [renArch, List.mem_map]
    constructor
    · rintro ⟨e', ⟨e, he, rfl⟩, h2, rfl, rfl⟩
      obtain ⟨i1, i2, -⟩ := BuildNames.wf_import a hwf e he
      exact ⟨_, _, (q.succs _ _).2 ⟨e, he, (hne e).1 h2, rfl, rfl⟩, (hr _ i1).symm, (hr _ i2).symm⟩
    · rintro ⟨u, v, huv, rfl, rfl⟩
      obtain ⟨e, he, h2, rfl, rfl⟩ := (q.succs u v).1 huv
      obtain ⟨i1, i2, -⟩ := BuildNames.wf_import a hwf e he
      exact ⟨_, ⟨e, he, rfl⟩, (hne e).2 h2, hr _ i1, hr _ i2⟩
  · intro s x
    rw [q'.preds, mem_importPreds_map]
    simp only [renArch, List.mem_map]
    constructor
    · rintro ⟨e', ⟨e, he, rfl⟩, h2, rfl, rfl⟩
      obtain ⟨i1, i2, -⟩ := BuildNames.wf_import a hwf e he
      exact ⟨_, _, (q.preds _ _).2 ⟨e, he, (hne e).1 h2, rfl, rfl⟩, (hr _ i2).symm, (hr _ i1).symm⟩
    · rintro ⟨u, v, huv, rfl, rfl⟩
      obtain ⟨e, he, h2, rfl, rfl⟩ := (q.preds v u).1 huv
      obtain ⟨i1, i2, -⟩ := BuildNames.wf_import a hwf e he
      exact ⟨_, ⟨e, he, rfl⟩, (hne e).2 h2, hr _ i1, hr _ i2⟩

omit hρ hφ in
theorem quotientOf_none (a : Arch) (hwf : a.wf = true) (g : PGraph Str) (h : GraphOf a g) : QuotientOf a none g := by
  refine ⟨h.nodes, h.hier, ?_, ?_⟩
  · intro s x
    rw [h.succs]
    constructor
    · rintro ⟨e, he, rfl, rfl⟩
      exact ⟨e, he, (BuildNames.wf_import a hwf e he).2.2.1, rfl, rfl⟩
    · rintro ⟨e, he, -, rfl, rfl⟩
      exact ⟨e, he, rfl, rfl⟩
  · intro s x
    rw [h.preds]
    constructor
    · rintro ⟨e, he, rfl, rfl⟩
      exact ⟨e, he, (BuildNames.wf_import a hwf e he).2.2.1, rfl, rfl⟩
    · rintro ⟨e, he, -, rfl, rfl⟩
      exact ⟨e, he, rfl, rfl⟩

theorem graph_image (a : Arch) (hwf : a.wf = true) (g g' : PGraph Str)
    (q : GraphOf a g) (q' : GraphOf (renArch ρ a) g') : GraphEquiv g' (mapGraph φ g) :=
  quotient_image hρ φ hφ a hwf none g g' (quotientOf_none a hwf g q)
    (quotientOf_none _ (Ren.wf_ren hρ a hwf) g' q')

end graph

theorem renDotted_render {ρ : Comp → Comp} (n : Name) (h : nameWF n = true) : renDotted ρ (render n) = render (renName ρ n) := by
  simp only [renDotted, splitDots_render n h]

/-! ### whole scans -/

section scan
variable (mt mt' : Str → Str → Bool) (base base' root : Str) (mp : List Str) (entries : List Entry) (o : ScanOptions)
  (ps' : Patterns) {ρ : Comp → Comp} (hρ : GoodRen ρ)
  (hwf : treeWFFor (isExcluded mt o.exclusions) base mp entries = true) (hmp : mpOK entries mp = true)
  (hroot : compWF root = true)
  (hst : ∀ e ∈ entries, ∀ st ∈ e.stmts, stmtOK (toSStmt st) = true)
  (hx : ExclTransported ρ (isExcluded mt o.exclusions) (isExcluded mt' ps') base base' entries)

include hwf hroot in
theorem own_wf : ∀ e ∈ toSEntries (isExcluded mt o.exclusions) base entries,
    survives (toSEntries (isExcluded mt o.exclusions) base entries) mp e = true → nameWF (entryName root e) = true := by
  intro se hse hs
  unfold toSEntries at hse
  obtain ⟨e, he, rfl⟩ := List.mem_map.1 hse
  exact ScanSpec.scan_modules_wf_lemma base mt root mp entries o hwf hroot e he hs

include hwf hmp hroot in
theorem rootmp_wf : nameWF (root :: mp) = true := by
  have hwf' := hwf
  simp only [treeWFFor, Bool.and_eq_true] at hwf'
  exact ScanCompose.mp_wf (ScanWalk.shape_of entries hwf'.1) (ScanNames.names_of _ base mp entries hwf'.2) hmp root hroot

include hρ hwf hmp hroot hst hx

/-- the specification's modules of the renamed tree are the renamed modules (same order) -/
theorem scanModules_tree_ren :
    scanModules (ρ root) (toSEntries (isExcluded mt' ps') base' (renEntries ρ entries)) (mp.map (renFile ρ)) =
      (scanModules root (toSEntries (isExcluded mt o.exclusions) base entries) mp).map (renName ρ) := by
  rw [toSEntries_ren hρ _ _ base base' entries hx hst]
  exact scanModules_ren hρ root _ mp (own_wf mt base root mp entries o hwf hroot)

/-- the specification's imports of the renamed tree are the renamed imports (same order); no answer stays no answer -/
theorem scanImports_tree_ren :
    scanImports (ρ root) (toSEntries (isExcluded mt' ps') base' (renEntries ρ entries)) (mp.map (renFile ρ)) =
      (scanImports root (toSEntries (isExcluded mt o.exclusions) base entries) mp).map (List.map (Ren.renPair ρ)) := by
  rw [toSEntries_ren hρ _ _ base base' entries hx hst]
  exact scanImports_ren hρ root _ mp (own_wf mt base root mp entries o hwf hroot)
    (rootmp_wf mt base root mp entries o hwf hmp hroot)

/-- the renamed scan: same outcome class; on success the graph is, up to the order of nodes and edges, the image of
    the original graph under every map that sends the rendering of a well-formed name to the rendering of the
    renamed name (`renDotted ρ`, `renStr ρ`) -/
theorem scan_ren_lemma (hxx : o.excludeExternal = true) (hext : o.externalExclusions.isEmpty = true) :
    match generateGraph mt base root mp entries o with
    | .ok g => ∃ g', generateGraph mt' base' (ρ root) (mp.map (renFile ρ)) (renEntries ρ entries)
          (o.withExclusions ps') = .ok g' ∧
        ∀ φ : Str → Str, (∀ n, nameWF n = true → φ (render n) = render (renName ρ n)) → GraphEquiv g' (mapGraph φ g)
    | .error k => generateGraph mt' base' (ρ root) (mp.map (renFile ρ)) (renEntries ρ entries)
          (o.withExclusions ps') = .error k := by
  have hwf' : treeWFFor (isExcluded mt' (o.withExclusions ps').exclusions) base' (mp.map (renFile ρ)) (renEntries ρ entries) = true :=
    treeWFFor_ren hρ _ _ base base' mp entries hx hwf
  have hmp' : mpOK (renEntries ρ entries) (mp.map (renFile ρ)) = true := by rw [mpOK_ren hρ]; exact hmp
  have hroot' : compWF (ρ root) = true := hρ.wf root hroot
  have hst' := stmts_ren_ok hρ entries hst
  have hmods := scanModules_tree_ren mt mt' base base' root mp entries o ps' hρ hwf hmp hroot hst hx
  have himps := scanImports_tree_ren mt mt' base base' root mp entries o ps' hρ hwf hmp hroot hst hx
  cases his : scanImports root (toSEntries (isExcluded mt o.exclusions) base entries) mp with
  | none =>
    have h1 : generateGraph mt base root mp entries o.noLimit = .error .lookupError := by
      have := ScanCompose.scan_imports_tree_lemma (o := o.noLimit) (root := root) hwf hmp hroot hxx rfl hext hst
      have his0 : scanImports root (toSEntries (isExcluded mt o.noLimit.exclusions) base entries) mp = none := his
      rw [his0] at this
      exact this
    have h1' := (ScanLimit.error_indep_lemma mt base root mp entries o _).2 h1
    rw [his] at himps
    have h2 : generateGraph mt' base' (ρ root) (mp.map (renFile ρ)) (renEntries ρ entries) (o.withExclusions ps').noLimit =
        .error .lookupError := by
      have := ScanCompose.scan_imports_tree_lemma (o := (o.withExclusions ps').noLimit) (root := ρ root) hwf' hmp' hroot'
        hxx rfl hext hst'
      have himps0 : scanImports (ρ root) (toSEntries (isExcluded mt' (o.withExclusions ps').noLimit.exclusions) base'
          (renEntries ρ entries)) (mp.map (renFile ρ)) = none := himps
      rw [himps0] at this
      exact this
    have h2' := (ScanLimit.error_indep_lemma mt' base' (ρ root) (mp.map (renFile ρ)) (renEntries ρ entries)
      (o.withExclusions ps') _).2 h2
    rw [h1']
    exact h2'
  | some is =>
    rw [his] at himps
    have himps' : scanImports (ρ root) (toSEntries (isExcluded mt' (o.withExclusions ps').exclusions) base'
        (renEntries ρ entries)) (mp.map (renFile ρ)) = some (is.map (Ren.renPair ρ)) := himps
    have harch : (Arch.mk (scanModules (ρ root) (toSEntries (isExcluded mt' (o.withExclusions ps').exclusions) base'
          (renEntries ρ entries)) (mp.map (renFile ρ))) (is.map (Ren.renPair ρ))) =
        renArch ρ (Arch.mk (scanModules root (toSEntries (isExcluded mt o.exclusions) base entries) mp) is) := by
      show Arch.mk (scanModules (ρ root) (toSEntries (isExcluded mt' ps') base' (renEntries ρ entries)) (mp.map (renFile ρ))) _ = _
      rw [hmods]
      rfl
    cases hl : o.levelLimit with
    | none =>
      obtain ⟨g, hgen, hawf, hG⟩ := E2ERule.scan_spec_arch_lemma mt base root mp entries o hwf hmp hroot hxx hl hext hst is his
      obtain ⟨g', hgen', -, hG'⟩ := E2ERule.scan_spec_arch_lemma mt' base' (ρ root) (mp.map (renFile ρ)) (renEntries ρ entries)
        (o.withExclusions ps') hwf' hmp' hroot' hxx hl hext hst' _ himps'
      rw [harch] at hG'
      rw [hgen]
      exact ⟨g', hgen', fun φ hφ => graph_image hρ φ hφ _ hawf g g' hG hG'⟩
    | some k =>
      obtain ⟨g, -, hgen, -, hawf, -, hQ⟩ := E2EMore.scan_limit_lemma mt base root mp entries o hwf hmp hroot hxx hext hst is his k hl
      obtain ⟨g', -, hgen', -, -, -, hQ'⟩ := E2EMore.scan_limit_lemma mt' base' (ρ root) (mp.map (renFile ρ)) (renEntries ρ entries)
        (o.withExclusions ps') hwf' hmp' hroot' hxx hext hst' _ himps' k hl
      rw [harch, List.length_map] at hQ'
      rw [hgen]
      exact ⟨g', hgen', fun φ hφ => quotient_image hρ φ hφ _ hawf _ g g' hQ hQ'⟩

end scan

/-! ### rules, messages and labels on two graphs related by the renaming -/

section rules
variable {ρ : Comp → Comp} (hρ : GoodRen ρ)
include hρ

/-- every rule with well-formed identifiers has the same verdict class on a graph and on (a graph with the node and
    edge sets of) its image -/
theorem verdict_of_image_lemma (mt : Str → Str → Bool) (g g' : PGraph Str) (hge : GraphEquiv g' (mapGraph (renStr ρ) g))
    (r : RuleSpec) (hr : ruleWF r = true) :
    verdictOf mt g' (compile (renRule ρ r)) = verdictOf mt g (compile r) := by
  rw [verdict_congr_lemma mt g' _ hge, RM.compile_ren ρ r hr]
  unfold verdictOf
  rw [RM.assertApplies_map (renStr ρ) (RM.renStr_inj hρ) mt g _ (RM.compile_noRegex r) (RM.compile_subOK hρ r hr),
    RM.cls_mapId]

/-- … and the message the user sees is the text of the original report with every module name renamed -/
theorem text_of_image_lemma (mt : Str → Str → Bool) (g g' : PGraph Str) (hge : GraphEquiv g' (mapGraph (renStr ρ) g))
    (r : RuleSpec) (hr : ruleWF r = true) :
    (assertAppliesText mt (compile (renRule ρ r)) g').2 =
      ((assertApplies mt (compile r) g).2.mapId (renStr ρ)).toText := by
  rw [report_congr_graph_lemma mt g' _ hge, assertAppliesText_eq_lemma, RM.compile_ren ρ r hr,
    RM.assertApplies_map (renStr ρ) (RM.renStr_inj hρ) mt g _ (RM.compile_noRegex r) (RM.compile_subOK hρ r hr)]

end rules

/-! ### the AST walk commutes with the renaming -/

section ast
variable (ρ : Comp → Comp)

theorem stmt?_ren (n : AstNode) : (renAstNode ρ n).stmt? = n.stmt?.map (renStmt ρ) := by
  unfold AstNode.stmt? renAstNode
  cases n.kind <;> rfl

theorem astChildren_ren (nodes : List AstNode) (p : List Nat) :
    astChildren (nodes.map (renAstNode ρ)) p = (astChildren nodes p).map (renAstNode ρ) := by
  unfold astChildren
  rw [List.filter_map]
  rfl

theorem walkLoop_ren (follow : AstNode → Bool) (hf : ∀ n, follow (renAstNode ρ n) = follow n) (nodes : List AstNode) :
    ∀ (fuel : Nat) (work : List AstNode) (acc : List ImportStmt),
      walkLoop follow (nodes.map (renAstNode ρ)) fuel (work.map (renAstNode ρ)) (acc.map (renStmt ρ)) =
        (walkLoop follow nodes fuel work acc).map (renStmt ρ)
  | 0, _, _ => rfl
  | _ + 1, [], _ => rfl
  | fuel + 1, n :: rest, acc => by
    simp only [List.map_cons, walkLoop, stmt?_ren]
    cases h : n.stmt? with
    | some st =>
      simp only [Option.map_some]
      have := walkLoop_ren follow hf nodes fuel rest (acc ++ [st])
      rw [List.map_append] at this
      exact this
    | none =>
      simp only [Option.map_none]
      have := walkLoop_ren follow hf nodes fuel (((astChildren nodes n.path).filter follow).reverse ++ rest) acc
      rw [← this, List.map_append, List.map_reverse]
      congr 3
      show List.filter follow (astChildren (nodes.map (renAstNode ρ)) n.path) = _
      rw [astChildren_ren, List.filter_map]
      congr 2
      funext m
      exact hf m

theorem collectImports_ren (nodes : List AstNode) :
    collectImports (nodes.map (renAstNode ρ)) = (collectImports nodes).map (renStmt ρ) := by
  unfold collectImports astRoots
  rw [List.length_map, List.filter_map]
  exact walkLoop_ren ρ _ (fun _ => rfl) nodes _ _ []

theorem withCollected_ren (e : Entry) : (renEntry ρ e).withCollected = renEntry ρ e.withCollected := by
  unfold Entry.withCollected renEntry
  simp only [collectImports_ren]

end ast

/-! ### corollaries for two scans -/

section scan2
variable (mt mt' : Str → Str → Bool) (base base' root : Str) (mp : List Str) (entries : List Entry) (o : ScanOptions)
  (ps' : Patterns) {ρ : Comp → Comp} (hρ : GoodRen ρ)
  (hwf : treeWFFor (isExcluded mt o.exclusions) base mp entries = true) (hmp : mpOK entries mp = true)
  (hroot : compWF root = true)
  (hst : ∀ e ∈ entries, ∀ st ∈ e.stmts, stmtOK (toSStmt st) = true)
  (hx : ExclTransported ρ (isExcluded mt o.exclusions) (isExcluded mt' ps') base base' entries)
  (hxx : o.excludeExternal = true) (hext : o.externalExclusions.isEmpty = true)
  (g g' : PGraph Str) (hg : generateGraph mt base root mp entries o = .ok g)
  (hg' : generateGraph mt' base' (ρ root) (mp.map (renFile ρ)) (renEntries ρ entries) (o.withExclusions ps') = .ok g')
include hρ hwf hmp hroot hst hx hxx hext hg hg'

theorem scan_image_lemma (φ : Str → Str) (hφ : ∀ n, nameWF n = true → φ (render n) = render (renName ρ n)) :
    GraphEquiv g' (mapGraph φ g) := by
  have h := scan_ren_lemma mt mt' base base' root mp entries o ps' hρ hwf hmp hroot hst hx hxx hext
  rw [hg] at h
  obtain ⟨g'', h1, h2⟩ := h
  rw [hg'] at h1
  cases h1
  exact h2 φ hφ

theorem scan_labels_ren_lemma (hlim : o.levelLimit = none) (al : Aliases) (hk : (al.map (·.1)).Nodup)
    (hex : ∀ a ∈ al, a.1 ∈ scanModules root (toSEntries (isExcluded mt o.exclusions) base entries) mp) :
    ∃ ls ls', plotLabels g.nodes (al.map fun a => (render a.1, a.2)) = .ok ls ∧
      plotLabels g'.nodes ((renAliases ρ al).map fun a => (render a.1, a.2)) = .ok ls' ∧
      ls.map (·.1) = g.nodes ∧ ls'.map (·.1) = g'.nodes ∧
      ls.Perm ((scanModules root (toSEntries (isExcluded mt o.exclusions) base entries) mp).map
        fun n => (render n, labelWith id al n)) ∧
      ls'.Perm ((scanModules root (toSEntries (isExcluded mt o.exclusions) base entries) mp).map
        fun n => (render (renName ρ n), labelWith (renName ρ) al n)) := by
  have hwf' : treeWFFor (isExcluded mt' (o.withExclusions ps').exclusions) base' (mp.map (renFile ρ)) (renEntries ρ entries) = true :=
    treeWFFor_ren hρ _ _ base base' mp entries hx hwf
  have hmp' : mpOK (renEntries ρ entries) (mp.map (renFile ρ)) = true := by rw [mpOK_ren hρ]; exact hmp
  have hmods := scanModules_tree_ren mt mt' base base' root mp entries o ps' hρ hwf hmp hroot hst hx
  obtain ⟨ls, h1, h2, h3⟩ := E2EMore.labels_perm_lemma mt base root mp entries o hwf hmp hroot hxx hlim g hg al hk hex
  have hk' : ((renAliases ρ al).map (·.1)).Nodup := by
    have : (renAliases ρ al).map (·.1) = (al.map (·.1)).map (renName ρ) := by
      simp only [renAliases, List.map_map, Function.comp_def]
    rw [this]
    exact nodup_map_on _ _ hk (fun a _ b _ h => Ren.renName_inj hρ h)
  have hex' : ∀ a ∈ renAliases ρ al, a.1 ∈ scanModules (ρ root)
      (toSEntries (isExcluded mt' (o.withExclusions ps').exclusions) base' (renEntries ρ entries)) (mp.map (renFile ρ)) := by
    intro a' ha'
    obtain ⟨a, ha, rfl⟩ := List.mem_map.1 ha'
    show renName ρ a.1 ∈ scanModules (ρ root) (toSEntries (isExcluded mt' ps') base' (renEntries ρ entries)) (mp.map (renFile ρ))
    rw [hmods]
    exact List.mem_map.2 ⟨a.1, hex a ha, rfl⟩
  obtain ⟨ls', h1', h2', h3'⟩ := E2EMore.labels_perm_lemma mt' base' (ρ root) (mp.map (renFile ρ)) (renEntries ρ entries)
    (o.withExclusions ps') hwf' hmp' (hρ.wf root hroot) hxx hlim g' hg' (renAliases ρ al) hk' hex'
  refine ⟨ls, ls', h1, h1', h2, h2', ?_, ?_⟩
  · simpa only [RM.labelWith_id] using h3
  · have h3'' : ls'.Perm ((scanModules (ρ root) (toSEntries (isExcluded mt' ps') base' (renEntries ρ entries))
        (mp.map (renFile ρ))).map fun n => (render n, PtaSpec.label (renAliases ρ al) n)) := h3'
    rw [hmods, List.map_map] at h3''
    simpa only [Function.comp_def, RM.label_ren hρ] using h3''

end scan2

end Pta.RS
