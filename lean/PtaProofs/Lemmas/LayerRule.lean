/-
  PtaProofs.Lemmas.LayerRule — from `assertAppliesLayer (compileLayerRule larch r)` to the core lemma of LayerSem:
  the shape of `assert_applies`, the domain hypotheses unpacked, and the instantiation for layered architectures
  whose layers list modules by name.
-/
import Bridge.LayerAbs
import PtaProofs.Lemmas.LayerSem
namespace Pta
open PtaSpec

/-! ### the shape of `assertAppliesLayer (compileLayerRule larch r)` -/

theorem assertAppliesLayer_compile (mt : Str → Str → Bool) (g : PGraph Str) (larch : LArch) (r : LRuleSpec)
    (hs : larch.getD r.subject ≠ []) (ho : r.anything = true ∨ r.objects.flatMap larch.getD ≠ [])
    (hany : r.anything = true → r.verb = .shouldNot)
    (hdd : r.anything = true → dedupSubjects (larch.getD r.subject) = larch.getD r.subject) :
    assertAppliesLayer mt (compileLayerRule larch r) g =
      matchLayerRule mt g larch (behL r) r.importDir (larch.getD r.subject)
        (if r.anything = true then larch.getD r.subject else r.objects.flatMap larch.getD) := by
  obtain ⟨verb, dir, exc, subject, objects, anything⟩ := r
  simp only at hs ho hany hdd
  have hs1 : (larch.getD subject).isEmpty = false := by
    cases h : larch.getD subject
    · exact absurd h hs
    · rfl
  cases anything
  · have ho' : objects.flatMap larch.getD ≠ [] := by simpa using ho
    have ho1 : (objects.flatMap larch.getD).isEmpty = false := by
      cases h : objects.flatMap larch.getD
      · exact absurd h ho'
      · rfl
    cases verb <;> cases exc <;>
      simp [assertAppliesLayer, compileLayerRule, anythingMisused, droppedAbsent, convertAliases, configMissing, RuleConfig.behavior,
        Behavior.inconsistent, Behavior.explReq, Behavior.explForb, Behavior.otherReq, Behavior.otherForb,
        hs1, ho1, behL]
  · have hv : verb = .shouldNot := hany rfl
    subst hv
    have hdd' := hdd rfl
    simp [assertAppliesLayer, compileLayerRule, anythingMisused, droppedAbsent,
        droppedSubjects_of_dedup_eq _ hdd', convertAliases, configMissing, RuleConfig.behavior,
        Behavior.inconsistent, Behavior.explReq, Behavior.explForb, Behavior.otherReq, Behavior.otherForb,
        hs1, hdd', behL]

/-! ### `Layers.get` -/

theorem nodupC_cons (x : List Char) (xs : List (List Char)) :
    nodupC (x :: xs) = true ↔ x ∉ xs ∧ nodupC xs = true := by
  simp [nodupC]

theorem layers_get_cons (l : List Char × List Name) (ls : Layers) (n : List Char) :
    Layers.get (l :: ls) n = if l.1 == n then l.2 else Layers.get ls n := by
  unfold Layers.get
  rw [List.find?_cons]
  cases h : l.1 == n <;> simp

/-- a defined layer is some entry -/
theorem get_of_any (ls : Layers) (n : List Char) (h : ls.any (·.1 == n) = true) :
    ∃ l ∈ ls, l.1 = n ∧ ls.get n = l.2 := by
  induction ls with
  | nil => simp at h
  | cons l ls ih =>
    rw [layers_get_cons]
    cases hl : l.1 == n
    · simp only [List.any_cons, hl, Bool.false_or] at h
      obtain ⟨l', hl', h1, h2⟩ := ih h
      exact ⟨l', List.mem_cons_of_mem _ hl', h1, by simpa using h2⟩
    · exact ⟨l, by simp, by simpa using hl, by simp⟩

theorem get_of_mem (ls : Layers) (hnd : nodupC (ls.map (·.1)) = true) (l : List Char × List Name) (hl : l ∈ ls) :
    ls.get l.1 = l.2 := by
  induction ls with
  | nil => cases hl
  | cons l0 ls ih =>
    rw [List.map_cons, nodupC_cons] at hnd
    rw [layers_get_cons]
    rcases List.mem_cons.1 hl with rfl | hl'
    · simp
    · have : (l0.1 == l.1) = false := by
        cases h : l0.1 == l.1
        · rfl
        · exfalso
          apply hnd.1
          rw [beq_iff_eq] at h
          rw [h]
          exact List.mem_map_of_mem hl'
      simp only [this, Bool.false_eq_true, if_false]
      exact ih hnd.2 hl'

theorem mem_of_mem_get (ls : Layers) (n : List Char) (x : Name) (h : x ∈ ls.get n) : ∃ l ∈ ls, l.1 = n ∧ x ∈ l.2 := by
  induction ls with
  | nil => simp [Layers.get] at h
  | cons l ls ih =>
    rw [layers_get_cons] at h
    cases hl : l.1 == n
    · simp only [hl, Bool.false_eq_true, if_false] at h
      obtain ⟨l', hl', h1, h2⟩ := ih h
      exact ⟨l', List.mem_cons_of_mem _ hl', h1, h2⟩
    · simp only [hl, if_true] at h
      exact ⟨l, by simp, by simpa using hl, h⟩

/-! ### the domain of the oracle, unpacked -/

structure LDom (a : Arch) (ls : Layers) (r : LRuleSpec) : Prop where
  ne : ∀ l ∈ ls, l.2 ≠ []
  nodes : ∀ l ∈ ls, ∀ x ∈ l.2, x ∈ a.nodes
  unrel : UnrelMap ls
  nodup : nodupC (ls.map (·.1)) = true
  subj : ls.any (·.1 == r.subject) = true
  objNe : r.anything = false → r.objects ≠ []
  obj : r.anything = false → ∀ on ∈ r.objects, ls.any (·.1 == on) = true ∧ on ≠ r.subject

theorem ldom_of_layerDomain (a : Arch) (ls : Layers) (r : LRuleSpec) (h : layerDomain a ls r = true) : LDom a ls r := by
  unfold layerDomain at h
  simp only [Bool.and_eq_true, List.all_eq_true, Bool.not_eq_true', List.contains_iff_mem, Bool.or_eq_true,
    bne_iff_ne, ne_eq] at h
  obtain ⟨⟨⟨⟨⟨h1, h2⟩, h3⟩, h4⟩, h5⟩, h6⟩ := h
  refine ⟨?_, ?_, unrelMap_of_pairwise ls h3, h4, h5, ?_, ?_⟩
  · intro l hl h0
    have := h1 l hl
    rw [h0] at this; cases this
  · intro l hl x hx
    exact h2 x (List.mem_flatMap.2 ⟨l, hl, hx⟩)
  · intro hany h0
    rcases h6 with h6 | h6
    · rw [hany] at h6; cases h6
    · rw [h0] at h6; simp at h6
  · intro hany on hon
    rcases h6 with h6 | h6
    · rw [hany] at h6; cases h6
    · exact h6.1.2 on hon

/-- the tag of a mapping `lsM` that keeps or empties the layers of `ls`, on a layer it keeps -/
theorem tag_iff (lsM ls : Layers) (hU : UnrelMap lsM)
    (hsub : ∀ l' ∈ lsM, ∃ l ∈ ls, l.1 = l'.1 ∧ (l'.2 = l.2 ∨ l'.2 = []))
    (hnd : nodupC (ls.map (·.1)) = true) (l : List Char × List Name) (hl : l ∈ ls) (hlM : l ∈ lsM) (n : Name) :
    layerTag lsM n = some l.1 ↔ inLayer (ls.get l.1) n = true := by
  constructor
  · intro h
    obtain ⟨l', hl', h1, hin⟩ := layerTag_some h
    obtain ⟨l'', hl'', h2, h3⟩ := hsub l' hl'
    rcases h3 with h3 | h3
    · have := get_of_mem ls hnd l'' hl''
      rw [h2, h1] at this
      rw [this, ← h3]; exact hin
    · rw [h3] at hin; simp [inLayer] at hin
  · intro h
    rw [get_of_mem ls hnd l hl] at h
    exact layerTag_of_mem hU hlM h

/-! ### layered architectures that list modules by name -/

theorem compileLArch_getD (ls : Layers) (n : List Char) :
    (compileLArch ls).getD n = ((ls.get n).map SFilter.named).map compileFilter := by
  unfold LArch.getD LArch.get compileLArch Layers.get
  rw [List.find?_map]
  cases h : ls.find? ((fun l : Str × List Filter => l.1 == n) ∘ fun l => (l.1, l.2.map fun m => Filter.name (render m))) with
  | none =>
    have : ls.find? (fun l => l.1 == n) = none := h
    simp [this]
  | some l =>
    have : ls.find? (fun l => l.1 == n) = some l := h
    simp [this, compileFilter]

theorem flatMap_singleton_map {α β : Type} (l : List α) (f : α → β) : l.flatMap (fun x => [f x]) = l.map f := by
  induction l with
  | nil => rfl
  | cons x xs ih => simp [ih]

theorem updateLayerMap_names (mt : Str → Str → Bool) (mods : List Str) (ls : Layers) (conv : List Str) :
    updateLayerMap mt mods (compileLArch ls) conv = ls.map fun l => (l.1, l.2.map render) := by
  unfold updateLayerMap compileLArch
  rw [List.map_map]
  apply List.map_congr_left
  intro l _
  simp only [Function.comp_def, List.flatMap_map, Filter.id]
  rw [flatMap_singleton_map]

theorem filter_isRegex_compile (fs : List SFilter) : (fs.map compileFilter).filter (·.isRegex) = [] := by
  rw [List.filter_eq_nil_iff]
  intro F hF
  obtain ⟨f, _, rfl⟩ := List.mem_map.1 hF
  simp

/-- the modules queried for the objects of a layer rule on name layers -/
def objMods (ls : Layers) (r : LRuleSpec) : List Name :=
  if r.anything = true then ls.get r.subject else r.objects.flatMap ls.get

theorem lctx_names {a : Arch} {ls : Layers} {r : LRuleSpec} (hw : ArchWF a) (hd : LDom a ls r) :
    LCtx a ls r (ls.map fun l => (l.1, l.2.map render)) (ls.get r.subject) (objMods ls r) (layerTag ls) := by
  have hnodesGet : ∀ n x, x ∈ ls.get n → x ∈ a.nodes := by
    intro n x hx
    obtain ⟨l, hl, _, hxl⟩ := mem_of_mem_get ls n x hx
    exact hd.nodes l hl x hxl
  have hlisted : ∀ n x, x ∈ ls.get n → ∃ l ∈ ls, x ∈ l.2 := by
    intro n x hx
    obtain ⟨l, hl, _, hxl⟩ := mem_of_mem_get ls n x hx
    exact ⟨l, hl, hxl⟩
  have hobjM : ∀ x ∈ objMods ls r, ∃ n, x ∈ ls.get n := by
    intro x hx
    unfold objMods at hx
    split at hx
    · exact ⟨_, hx⟩
    · obtain ⟨on, _, h⟩ := List.mem_flatMap.1 hx
      exact ⟨on, h⟩
  have hall : ∀ x ∈ ls.get r.subject ++ objMods ls r, ∃ n, x ∈ ls.get n := by
    intro x hx
    rcases List.mem_append.1 hx with h | h
    · exact ⟨_, h⟩
    · exact hobjM x h
  obtain ⟨lS, hlS, hlS1, hlS2⟩ := get_of_any ls r.subject hd.subj
  have hsne : ls.get r.subject ≠ [] := by rw [hlS2]; exact hd.ne lS hlS
  have hobjne : r.anything = false → ∀ on ∈ r.objects, ls.get on ≠ [] := by
    intro hany on hon
    obtain ⟨l, hl, _, h2⟩ := get_of_any ls on (hd.obj hany on hon).1
    rw [h2]; exact hd.ne l hl
  have hsubId : ∀ l' ∈ ls, ∃ l ∈ ls, l.1 = l'.1 ∧ (l'.2 = l.2 ∨ l'.2 = []) := fun l' hl' => ⟨l', hl', rfl, .inl rfl⟩
  refine ⟨?_, ?_, ?_, ?_, fun _ => Iff.rfl, ?_, ?_, ?_, hsne, ?_, hobjne, ?_,
    consistent_of_unrelMap ls hd.unrel (fun l hl x hx => hw.nwf x (hd.nodes l hl x hx))⟩
  · intro n hn
    exact layerOf_correct ls hd.unrel (fun l hl x hx => hw.nwf x (hd.nodes l hl x hx)) n (hw.nwf n hn)
  · intro n
    rw [← hlS1]
    exact tag_iff ls ls hd.unrel hsubId hd.nodup lS hlS hlS n
  · intro hany on hon n
    obtain ⟨l, hl, h1, _⟩ := get_of_any ls on (hd.obj hany on hon).1
    rw [← h1]
    exact tag_iff ls ls hd.unrel hsubId hd.nodup l hl hl n
  · intro hany on hon
    obtain ⟨l, hl, h1, _⟩ := get_of_any ls on (hd.obj hany on hon).1
    exact ⟨(l.1, l.2.map render), List.mem_map.2 ⟨l, hl, rfl⟩, h1⟩
  · intro x
    unfold objMods
    split
    · exact Iff.rfl
    · simp only [List.mem_flatMap]
  · intro x hx
    obtain ⟨n, hn⟩ := hall x hx
    exact hnodesGet n x hn
  · intro x hx y hy
    obtain ⟨n1, hn1⟩ := hall x hx
    obtain ⟨n2, hn2⟩ := hall y hy
    obtain ⟨l1, hl1, hx1⟩ := hlisted n1 x hn1
    obtain ⟨l2, hl2, hy2⟩ := hlisted n2 y hn2
    cases hr : related x y
    · exact .inr rfl
    · exact .inl (hd.unrel l1 hl1 l2 hl2 x hx1 y hy2 hr).1
  · unfold objMods
    split
    · exact hsne
    · rename_i hany
      have hany' : r.anything = false := by simpa using hany
      obtain ⟨on, hon⟩ := List.exists_mem_of_ne_nil _ (hd.objNe hany')
      obtain ⟨y, hy⟩ := List.exists_mem_of_ne_nil _ (hobjne hany' on hon)
      intro h0
      have : y ∈ r.objects.flatMap ls.get := List.mem_flatMap.2 ⟨on, hon, hy⟩
      rw [h0] at this; cases this
  · intro hany hmem
    exact (hd.obj hany _ hmem).2 rfl

/-- on name layers, `assert_applies` is the tail of `matchLayerRule` on the listed modules -/
theorem layer_reduce_names (mt : Str → Str → Bool) (a : Arch) (g : PGraph Str)
    (hwf : a.wf = true) (ls : Layers) (r : LRuleSpec) (hdom : layerDomain a ls r = true)
    (hany : r.anything = true → r.verb = .shouldNot) :
    assertAppliesLayer mt (compileLayerRule (compileLArch ls) r) g =
      matchTail g (ls.map fun l => (l.1, l.2.map render)) (behL r) r.importDir
        (((ls.get r.subject).map SFilter.named).map compileFilter) (((objMods ls r).map SFilter.named).map compileFilter) := by
  have hw := archWF_of_wf a hwf
  have hd := ldom_of_layerDomain a ls r hdom
  have c := lctx_names hw hd
  have hS : (compileLArch ls).getD r.subject = ((ls.get r.subject).map SFilter.named).map compileFilter :=
    compileLArch_getD ls r.subject
  have hOf : r.objects.flatMap (compileLArch ls).getD = ((r.objects.flatMap ls.get).map SFilter.named).map compileFilter := by
    simp only [List.map_flatMap]
    congr 1
    funext n
    exact compileLArch_getD ls n
  have hobjs : (if r.anything = true then (compileLArch ls).getD r.subject else r.objects.flatMap (compileLArch ls).getD) =
      ((objMods ls r).map SFilter.named).map compileFilter := by
    unfold objMods
    split
    · exact hS
    · exact hOf
  have hsne : (compileLArch ls).getD r.subject ≠ [] := by
    rw [hS]; simpa using c.sne
  rw [assertAppliesLayer_compile mt g _ r hsne ?_ hany ?_]
  · rw [hobjs, hS]
    rw [matchLayerRule_eq mt g _ _ _ _ _ _ _ (convertFilters_map mt g.nodes _) (convertFilters_map mt g.nodes _)
      (by rw [updateLayerMap_names]; exact c.cons)]
    rw [updateLayerMap_names]
  · cases h : r.anything
    · right
      have := c.one
      rw [hOf]
      unfold objMods at this
      simpa [h] using this
    · exact .inl rfl
  · intro _
    rw [hS]
    apply dedupSubjects_strict hw
    · intro f hf
      obtain ⟨x, hx, rfl⟩ := List.mem_map.1 hf
      exact c.nodes x (List.mem_append_left _ hx)
    · intro f hf f' hf'
      obtain ⟨x, hx, rfl⟩ := List.mem_map.1 hf
      obtain ⟨y, hy, rfl⟩ := List.mem_map.1 hf'
      rcases c.unrel x (List.mem_append_left _ hx) y (List.mem_append_left _ hy) with rfl | h
      · exact .inl rfl
      · exact .inr h

/-- C05 on name layers -/
theorem layer_verdict_names_lemma (mt : Str → Str → Bool) (a : Arch) (g : PGraph Str) (hg : GraphOf a g)
    (hwf : a.wf = true) (ls : Layers) (r : LRuleSpec) (hdom : layerDomain a ls r = true)
    (hany : r.anything = true → r.verb = .shouldNot) :
    (assertAppliesLayer mt (compileLayerRule (compileLArch ls) r) g).cls = VClass.ofBool (layerVerdict a ls r) := by
  have hw := archWF_of_wf a hwf
  rw [layer_reduce_names mt a g hwf ls r hdom hany]
  exact matchTail_verdict (lctx_names hw (ldom_of_layerDomain a ls r hdom)) hw hg hany

/-- soundness of the report on name layers: reported imports are imports between different layers -/
theorem layer_report_sound_names_lemma (mt : Str → Str → Bool) (a : Arch) (g : PGraph Str) (hg : GraphOf a g)
    (hwf : a.wf = true) (ls : Layers) (r : LRuleSpec) (hdom : layerDomain a ls r = true)
    (hany : r.anything = true → r.verb = .shouldNot) (items : List LItem)
    (h : assertAppliesLayer mt (compileLayerRule (compileLArch ls) r) g = .fail items) :
    ∀ u v b tu tv, LItem.imp u v b tu tv ∈ items →
      ∃ e ∈ a.imports, u = render e.1 ∧ v = render e.2 ∧ tu = layerTag ls e.1 ∧ tv = layerTag ls e.2 ∧ tu ≠ tv := by
  have hw := archWF_of_wf a hwf
  rw [layer_reduce_names mt a g hwf ls r hdom hany] at h
  exact matchTail_sound (lctx_names hw (ldom_of_layerDomain a ls r hdom)) hw hg items h

end Pta
