/-
  PtaProofs.Lemmas.LayerRule — from `assertAppliesLayer (compileLayerRule larch r)` to the core lemma of LayerSem:
  the shape of `assert_applies`, the domain hypotheses unpacked, and the instantiation for layered architectures
  whose layers list modules by name.
-/
import Bridge.LayerAbs
import Bridge.LayerKept
import PtaProofs.Lemmas.LayerSem
namespace Pta
open PtaSpec

/-! ### the shape of `assertAppliesLayer (compileLayerRule larch r)` -/

theorem assertAppliesLayer_compile (mt : Str → Str → Bool) (g : PGraph Str) (larch : LArch) (r : LRuleSpec)
    (hs : larch.getD r.subject ≠ []) (ho : r.anything = true ∨ r.objects.flatMap larch.getD ≠ [])
    (hany : r.anything = true → r.verb = .shouldNot)
    (hdd : r.anything = true → dedupSubjects (larch.getD r.subject) = larch.getD r.subject) :
    assertAppliesLayer mt (compileLayerRule larch r) g =
      matchLayerRule mt g larch (behL r) r.importDir (larch.getD r.subject)
        (if r.anything = true then larch.getD r.subject else r.objects.flatMap larch.getD) := by
  obtain ⟨verb, dir, exc, subject, objects, anything⟩ := r
  simp only at hs ho hany hdd
  have hs1 : (larch.getD subject).isEmpty = false := by
    cases h : larch.getD subject
    · exact absurd h hs
    · rfl
  cases anything
  · have ho' : objects.flatMap larch.getD ≠ [] := by simpa using ho
    have ho1 : (objects.flatMap larch.getD).isEmpty = false := by
      cases h : objects.flatMap larch.getD
      · exact absurd h ho'
      · rfl
    cases verb <;> cases exc <;>
      simp [assertAppliesLayer, compileLayerRule, anythingMisused, droppedAbsent, convertAliases, configMissing, RuleConfig.behavior,
        Behavior.inconsistent, Behavior.explReq, Behavior.explForb, Behavior.otherReq, Behavior.otherForb,
        hs1, ho1, behL]
  · have hv : verb = .shouldNot := hany rfl
    subst hv
    have hdd' := hdd rfl
    simp [assertAppliesLayer, compileLayerRule, anythingMisused, droppedAbsent,
        droppedSubjects_of_dedup_eq _ hdd', convertAliases, configMissing, RuleConfig.behavior,
        Behavior.inconsistent, Behavior.explReq, Behavior.explForb, Behavior.otherReq, Behavior.otherForb,
        hs1, hdd', behL]

/-- the subject filters the matcher gets: the `any layer` aliases drop listed modules that are sub modules of other
    listed modules (`_convert_aliases`) -/
def subjF (larch : LArch) (r : LRuleSpec) : List Filter :=
  if r.anything = true then dedupSubjects (larch.getD r.subject) else larch.getD r.subject

def objF (larch : LArch) (r : LRuleSpec) : List Filter :=
  if r.anything = true then dedupSubjects (larch.getD r.subject) else r.objects.flatMap larch.getD

/-- the shape of `assert_applies` without the assumption that the alias conversion drops nothing: the dropped subjects
    must exist (repair of F-C13b), the retained ones are queried -/
theorem assertAppliesLayer_compile' (mt : Str → Str → Bool) (g : PGraph Str) (larch : LArch) (r : LRuleSpec)
    (hs : subjF larch r ≠ []) (ho : r.anything = true ∨ r.objects.flatMap larch.getD ≠ [])
    (hany : r.anything = true → r.verb = .shouldNot)
    (hda : r.anything = true → droppedAbsentIn g (larch.getD r.subject) = false) :
    assertAppliesLayer mt (compileLayerRule larch r) g =
      matchLayerRule mt g larch (behL r) r.importDir (subjF larch r) (objF larch r) := by
  obtain ⟨verb, dir, exc, subject, objects, anything⟩ := r
  simp only [subjF, objF] at hs ho hany hda ⊢
  cases anything
  · simp only [Bool.false_eq_true, if_false] at hs ⊢
    have hs1 : (larch.getD subject).isEmpty = false := by
      cases h : larch.getD subject
      · exact absurd h hs
      · rfl
    have ho' : objects.flatMap larch.getD ≠ [] := by simpa using ho
    have ho1 : (objects.flatMap larch.getD).isEmpty = false := by
      cases h : objects.flatMap larch.getD
      · exact absurd h ho'
      · rfl
    cases verb <;> cases exc <;>
      simp [assertAppliesLayer, compileLayerRule, anythingMisused, droppedAbsent, convertAliases, configMissing, RuleConfig.behavior,
        Behavior.inconsistent, Behavior.explReq, Behavior.explForb, Behavior.otherReq, Behavior.otherForb,
        hs1, ho1, behL]
  · have hv : verb = .shouldNot := hany rfl
    subst hv
    simp only [if_true] at hs ⊢
    have hs1 : (dedupSubjects (larch.getD subject)).isEmpty = false := by
      cases h : dedupSubjects (larch.getD subject)
      · exact absurd h hs
      · rfl
    have hda' := hda rfl
    unfold droppedAbsentIn at hda'
    simp [assertAppliesLayer, compileLayerRule, anythingMisused, droppedAbsent, hda',
        convertAliases, configMissing, RuleConfig.behavior,
        Behavior.inconsistent, Behavior.explReq, Behavior.explForb, Behavior.otherReq, Behavior.otherForb,
        hs1, behL]

/-! ### `Layers.get` -/

theorem nodupC_cons (x : List Char) (xs : List (List Char)) :
    nodupC (x :: xs) = true ↔ x ∉ xs ∧ nodupC xs = true := by
  simp [nodupC]

theorem layers_get_cons (l : List Char × List Name) (ls : Layers) (n : List Char) :
    Layers.get (l :: ls) n = if l.1 == n then l.2 else Layers.get ls n := by
  unfold Layers.get
  rw [List.find?_cons]
  cases h : l.1 == n <;> simp

/-- a defined layer is some entry -/
theorem get_of_any (ls : Layers) (n : List Char) (h : ls.any (·.1 == n) = true) :
    ∃ l ∈ ls, l.1 = n ∧ ls.get n = l.2 := by
  induction ls with
  | nil => simp at h
  | cons l ls ih =>
    rw [layers_get_cons]
    cases hl : l.1 == n
    · simp only [List.any_cons, hl, Bool.false_or] at h
      obtain ⟨l', hl', h1, h2⟩ := ih h
      exact ⟨l', List.mem_cons_of_mem _ hl', h1, by simpa using h2⟩
    · exact ⟨l, by simp, by simpa using hl, by simp⟩

theorem get_of_mem (ls : Layers) (hnd : nodupC (ls.map (·.1)) = true) (l : List Char × List Name) (hl : l ∈ ls) :
    ls.get l.1 = l.2 := by
  induction ls with
  | nil => cases hl
  | cons l0 ls ih =>
    rw [List.map_cons, nodupC_cons] at hnd
    rw [layers_get_cons]
    rcases List.mem_cons.1 hl with rfl | hl'
    · simp
    · have : (l0.1 == l.1) = false := by
        cases h : l0.1 == l.1
        · rfl
        · exfalso
          apply hnd.1
          rw [beq_iff_eq] at h
          rw [h]
          exact List.mem_map_of_mem hl'
      simp only [this, Bool.false_eq_true, if_false]
      exact ih hnd.2 hl'

theorem mem_of_mem_get (ls : Layers) (n : List Char) (x : Name) (h : x ∈ ls.get n) : ∃ l ∈ ls, l.1 = n ∧ x ∈ l.2 := by
  induction ls with
  | nil => simp [Layers.get] at h
  | cons l ls ih =>
    rw [layers_get_cons] at h
    cases hl : l.1 == n
    · simp only [hl, Bool.false_eq_true, if_false] at h
      obtain ⟨l', hl', h1, h2⟩ := ih h
      exact ⟨l', List.mem_cons_of_mem _ hl', h1, h2⟩
    · simp only [hl, if_true] at h
      exact ⟨l, by simp, by simpa using hl, h⟩

/-- dropping layers with other names does not change a lookup -/
theorem get_filter_mentioned (ls : Layers) (p : List Char × List Name → Bool) (n : List Char)
    (hp : ∀ l : List Char × List Name, l.1 = n → p l = true) : Layers.get (ls.filter p) n = Layers.get ls n := by
  induction ls with
  | nil => rfl
  | cons l ls ih =>
    rw [layers_get_cons]
    cases hl : l.1 == n
    · simp only [Bool.false_eq_true, if_false]
      rw [List.filter_cons]
      split
      · rw [layers_get_cons, hl]; simpa using ih
      · exact ih
    · rw [List.filter_cons, hp l (by simpa using hl), if_pos rfl, layers_get_cons, hl]
      simp

/-! ### the domain of the oracle, unpacked -/

/-- what the core lemma needs of the layers the rule works with (`layerDomainK`, unpacked): only the layers the rule
    mentions need to list anything; inside one layer listed modules may be related -/
structure LDom (a : Arch) (ls : Layers) (r : LRuleSpec) : Prop where
  wf : ∀ l ∈ ls, ∀ x ∈ l.2, nameWF x = true
  nodesS : ∀ x ∈ ls.get r.subject, x ∈ a.nodes
  nodesO : r.anything = false → ∀ on ∈ r.objects, ∀ x ∈ ls.get on, x ∈ a.nodes
  unrel : UnrelMap ls
  nodup : nodupC (ls.map (·.1)) = true
  subj : ls.any (·.1 == r.subject) = true
  subjNe : ls.get r.subject ≠ []
  objNe : r.anything = false → r.objects ≠ []
  obj : r.anything = false → ∀ on ∈ r.objects, ls.any (·.1 == on) = true ∧ on ≠ r.subject ∧ ls.get on ≠ []

theorem ldom_of_layerDomainK (a : Arch) (ls : Layers) (r : LRuleSpec) (h : layerDomainK a ls r = true) : LDom a ls r := by
  unfold layerDomainK at h
  simp only [Bool.and_eq_true, List.all_eq_true, Bool.not_eq_true', List.contains_iff_mem, Bool.or_eq_true,
    bne_iff_ne, ne_eq] at h
  obtain ⟨⟨⟨⟨⟨⟨h2, h3⟩, h4⟩, h5⟩, h5'⟩, h5''⟩, h6⟩ := h
  have hobj : r.anything = false → ∀ on ∈ r.objects, ((ls.any (·.1 == on) = true ∧ on ≠ r.subject) ∧
      (Layers.get ls on).isEmpty = false) ∧ ∀ x ∈ Layers.get ls on, x ∈ a.nodes := by
    intro hany on hon
    rcases h6 with h6 | h6
    · rw [hany] at h6; cases h6
    · exact h6.2 on hon
  refine ⟨?_, h5'', ?_, unrelMap_of_cross ls h3, h4, h5, ?_, ?_, ?_⟩
  · intro l hl x hx
    exact h2 x (List.mem_flatMap.2 ⟨l, hl, hx⟩)
  · intro hany on hon
    exact (hobj hany on hon).2
  · intro h0
    rw [h0] at h5'; cases h5'
  · intro hany h0
    rcases h6 with h6 | h6
    · rw [hany] at h6; cases h6
    · rw [h0] at h6; simp at h6
  · intro hany on hon
    obtain ⟨⟨⟨h7, h8⟩, h9⟩, _⟩ := hobj hany on hon
    refine ⟨h7, h8, ?_⟩
    intro h0
    rw [h0] at h9; cases h9

/-- the relaxed domain, unpacked -/
structure LDom' (a : Arch) (ls : Layers) (r : LRuleSpec) : Prop where
  ne : ∀ l ∈ ls, l.2 ≠ []
  nodes : ∀ l ∈ ls, ∀ x ∈ l.2, x ∈ a.nodes
  cross : crossUnrelated ls = true
  nodup : nodupC (ls.map (·.1)) = true
  subj : ls.any (·.1 == r.subject) = true
  objNe : r.anything = false → r.objects ≠ []
  obj : r.anything = false → ∀ on ∈ r.objects, ls.any (·.1 == on) = true ∧ on ≠ r.subject

theorem ldom'_of_layerDomain' (a : Arch) (ls : Layers) (r : LRuleSpec) (h : layerDomain' a ls r = true) :
    LDom' a ls r := by
  unfold layerDomain' at h
  simp only [Bool.and_eq_true, List.all_eq_true, Bool.not_eq_true', List.contains_iff_mem, Bool.or_eq_true,
    bne_iff_ne, ne_eq] at h
  obtain ⟨⟨⟨⟨⟨h1, h2⟩, h3⟩, h4⟩, h5⟩, h6⟩ := h
  refine ⟨?_, ?_, h3, h4, h5, ?_, ?_⟩
  · intro l hl h0
    have := h1 l hl
    rw [h0] at this; cases this
  · intro l hl x hx
    exact h2 x (List.mem_flatMap.2 ⟨l, hl, hx⟩)
  · intro hany h0
    rcases h6 with h6 | h6
    · rw [hany] at h6; cases h6
    · rw [h0] at h6; simp at h6
  · intro hany on hon
    rcases h6 with h6 | h6
    · rw [hany] at h6; cases h6
    · exact h6.2 on hon

/-- the old domain is contained in the relaxed one -/
theorem layerDomain'_of_layerDomain (a : Arch) (ls : Layers) (r : LRuleSpec) (h : layerDomain a ls r = true) :
    layerDomain' a ls r = true := by
  unfold layerDomain at h
  unfold layerDomain'
  simp only [Bool.and_eq_true, Bool.or_eq_true] at h ⊢
  obtain ⟨⟨⟨⟨⟨h1, h2⟩, h3⟩, h4⟩, h5⟩, h6⟩ := h
  refine ⟨⟨⟨⟨⟨h1, h2⟩, cross_of_pairwiseUnrelated ls h3⟩, h4⟩, h5⟩, ?_⟩
  rcases h6 with h6 | h6
  · exact .inl h6
  · exact .inr h6.1

/-- the relaxed domain is contained in the domain of the core lemma -/
theorem ldom_of_ldom' {a : Arch} {ls : Layers} {r : LRuleSpec} (hw : ArchWF a) (h : LDom' a ls r) : LDom a ls r := by
  have hnodesGet : ∀ n x, x ∈ ls.get n → x ∈ a.nodes := by
    intro n x hx
    obtain ⟨l, hl, _, hxl⟩ := mem_of_mem_get ls n x hx
    exact h.nodes l hl x hxl
  refine ⟨fun l hl x hx => hw.nwf x (h.nodes l hl x hx), hnodesGet _, fun _ on _ => hnodesGet on,
    unrelMap_of_cross ls h.cross, h.nodup, h.subj, ?_, h.objNe, ?_⟩
  · obtain ⟨l, hl, _, h2⟩ := get_of_any ls r.subject h.subj
    rw [h2]; exact h.ne l hl
  · intro hany on hon
    obtain ⟨h1, h2⟩ := h.obj hany on hon
    obtain ⟨l, hl, _, h3⟩ := get_of_any ls on h1
    exact ⟨h1, h2, by rw [h3]; exact h.ne l hl⟩

theorem layerDomainK_of_layerDomain' (a : Arch) (hwf : a.wf = true) (ls : Layers) (r : LRuleSpec)
    (h : layerDomain' a ls r = true) : layerDomainK a ls r = true := by
  have hw := archWF_of_wf a hwf
  have hd' := ldom'_of_layerDomain' a ls r h
  have hd := ldom_of_ldom' hw hd'
  unfold layerDomain' at h
  unfold layerDomainK
  simp only [Bool.and_eq_true, Bool.or_eq_true] at h ⊢
  obtain ⟨⟨⟨⟨⟨_, h2⟩, h3⟩, h4⟩, h5⟩, h6⟩ := h
  have hne : ∀ n, Layers.get ls n ≠ [] → (!(Layers.get ls n).isEmpty) = true := by
    intro n hn
    cases hh : Layers.get ls n
    · exact absurd hh hn
    · rfl
  have hwfAll : (ls.flatMap (·.2)).all nameWF = true := by
    rw [List.all_eq_true]
    intro x hx
    obtain ⟨l, hl, hxl⟩ := List.mem_flatMap.1 hx
    exact hd.wf l hl x hxl
  have hex : ∀ n, (Layers.get ls n).all a.nodes.contains = true := by
    intro n
    rw [List.all_eq_true]
    intro x hx
    obtain ⟨l, hl, _, hxl⟩ := mem_of_mem_get ls n x hx
    exact List.contains_iff_mem.2 (hd'.nodes l hl x hxl)
  refine ⟨⟨⟨⟨⟨⟨hwfAll, h3⟩, h4⟩, h5⟩, hne _ hd.subjNe⟩, hex _⟩, ?_⟩
  rcases h6 with h6 | h6
  · exact .inl h6
  · right
    refine ⟨h6.1, ?_⟩
    rw [List.all_eq_true] at h6 ⊢
    intro on hon
    have h7 := h6.2 on hon
    rw [Bool.and_eq_true] at h7
    obtain ⟨l, hl, _, h8⟩ := get_of_any ls on h7.1
    simp only [Bool.and_eq_true]
    exact ⟨⟨h7, hne on (by rw [h8]; exact hd'.ne l hl)⟩, hex on⟩

/-- the tag of a mapping `lsM` that keeps or empties the layers of `ls`, on a layer it keeps -/
theorem tag_iff (lsM ls : Layers) (hU : UnrelMap lsM)
    (hsub : ∀ l' ∈ lsM, ∃ l ∈ ls, l.1 = l'.1 ∧ (l'.2 = l.2 ∨ l'.2 = []))
    (hnd : nodupC (ls.map (·.1)) = true) (l : List Char × List Name) (hl : l ∈ ls) (hlM : l ∈ lsM) (n : Name) :
    layerTag lsM n = some l.1 ↔ inLayer (ls.get l.1) n = true := by
  constructor
  · intro h
    obtain ⟨l', hl', h1, hin⟩ := layerTag_some h
    obtain ⟨l'', hl'', h2, h3⟩ := hsub l' hl'
    rcases h3 with h3 | h3
    · have := get_of_mem ls hnd l'' hl''
      rw [h2, h1] at this
      rw [this, ← h3]; exact hin
    · rw [h3] at hin; simp [inLayer] at hin
  · intro h
    rw [get_of_mem ls hnd l hl] at h
    exact layerTag_of_mem hU hlM h

/-! ### layered architectures that list modules by name -/

def nmF (x : Name) : Filter := .name (render x)

theorem nmF_eq (x : Name) : nmF x = compileFilter (.named x) := rfl

theorem compileLArch_getD (ls : Layers) (n : List Char) :
    (compileLArch ls).getD n = ((ls.get n).map SFilter.named).map compileFilter := by
  unfold LArch.getD LArch.get compileLArch Layers.get
  rw [List.find?_map]
  cases h : ls.find? ((fun l : Str × List Filter => l.1 == n) ∘ fun l => (l.1, l.2.map fun m => Filter.name (render m))) with
  | none =>
    have : ls.find? (fun l => l.1 == n) = none := h
    simp [this]
  | some l =>
    have : ls.find? (fun l => l.1 == n) = some l := h
    simp [this, compileFilter]

theorem flatMap_singleton_map {α β : Type} (l : List α) (f : α → β) : l.flatMap (fun x => [f x]) = l.map f := by
  induction l with
  | nil => rfl
  | cons x xs ih => simp [ih]

theorem updateLayerMap_names (mt : Str → Str → Bool) (mods : List Str) (ls : Layers) (conv : List Str) :
    updateLayerMap mt mods (compileLArch ls) conv = ls.map fun l => (l.1, l.2.map render) := by
  unfold updateLayerMap compileLArch
  rw [List.map_map]
  apply List.map_congr_left
  intro l _
  simp only [Function.comp_def, List.flatMap_map, Filter.id]
  rw [flatMap_singleton_map]

theorem filter_isRegex_compile (fs : List SFilter) : (fs.map compileFilter).filter (·.isRegex) = [] := by
  rw [List.filter_eq_nil_iff]
  intro F hF
  obtain ⟨f, _, rfl⟩ := List.mem_map.1 hF
  simp

/-! ### listed modules that are not sub modules of other listed modules -/

/-- `dedupSubjects` on component lists -/
def minimals (l : List Name) : List Name := l.filter fun m => !(l.any fun o => sdesc o m)

theorem minimals_sub {l : List Name} {x : Name} (h : x ∈ minimals l) : x ∈ l := (List.mem_filter.1 h).1

theorem minimals_cover (l : List Name) : ∀ k, ∀ x ∈ l, x.length ≤ k → ∃ m ∈ minimals l, m <+: x := by
  intro k
  induction k with
  | zero =>
    intro x hx hk
    refine ⟨x, List.mem_filter.2 ⟨hx, ?_⟩, List.prefix_refl _⟩
    simp only [Bool.not_eq_true', List.any_eq_false]
    intro o _ hsd
    have := (sdesc_iff o x).1 hsd
    have hl := this.1.length_le
    exact this.2 (this.1.eq_of_length (by omega))
  | succ k ih =>
    intro x hx hk
    by_cases hmin : (l.any fun o => sdesc o x) = true
    · obtain ⟨o, ho, hsd⟩ := List.any_eq_true.1 hmin
      have hp := (sdesc_iff o x).1 hsd
      have hlt : o.length ≤ k := by
        have h1 := hp.1.length_le
        rcases Nat.lt_or_ge o.length x.length with h | h
        · omega
        · exact absurd (hp.1.eq_of_length (by omega)) hp.2
      obtain ⟨m, hm, hmo⟩ := ih o ho hlt
      exact ⟨m, hm, hmo.trans hp.1⟩
    · exact ⟨x, List.mem_filter.2 ⟨hx, by simpa using hmin⟩, List.prefix_refl _⟩

theorem inLayer_minimals (l : List Name) (n : Name) : inLayer (minimals l) n = inLayer l n := by
  rw [Bool.eq_iff_iff, inLayer_iff, inLayer_iff]
  constructor
  · rintro ⟨x, hx, hp⟩; exact ⟨x, minimals_sub hx, hp⟩
  · rintro ⟨x, hx, hp⟩
    obtain ⟨m, hm, hmx⟩ := minimals_cover l x.length x hx (Nat.le_refl _)
    exact ⟨m, hm, hmx.trans hp⟩

theorem dedupSubjects_names (l : List Name) (hwf : ∀ x ∈ l, nameWF x = true) :
    dedupSubjects (l.map nmF) = (minimals l).map nmF := by
  unfold dedupSubjects minimals
  rw [List.filter_map]
  congr 1
  apply List.filter_congr
  intro m hm
  simp only [Function.comp_def, List.any_map, nmF, Filter.id]
  congr 1
  apply any_congr_mem
  intro o ho
  exact isStrictSub_render o m (hwf o ho) (hwf m hm)

/-! ### the context of the core lemma on layers that are listed as they are -/

/-- the modules queried for the objects of a layer rule on name layers -/
def objMods (ls : Layers) (r : LRuleSpec) : List Name :=
  if r.anything = true then ls.get r.subject else r.objects.flatMap ls.get

/-- the core context for a layer mapping that lists the layers `ls` as they are, for ANY lists `S`, `O` of queried
    modules that generate the subject layer / make up the object layers -/
theorem lctx_core {a : Arch} {ls : Layers} {r : LRuleSpec} (hw : ArchWF a) (hd : LDom a ls r) (S O : List Name)
    (hinS : ∀ n, inLayer S n = inLayer (ls.get r.subject) n) (hsubS : ∀ x ∈ S, x ∈ ls.get r.subject)
    (hmemO : ∀ x, x ∈ O ↔ if r.anything = true then x ∈ S else ∃ on ∈ r.objects, x ∈ ls.get on) :
    LCtx a ls r (ls.map fun l => (l.1, l.2.map render)) S O (layerTag ls) := by
  obtain ⟨lS, hlS, hlS1, hlS2⟩ := get_of_any ls r.subject hd.subj
  have hsubId : ∀ l' ∈ ls, ∃ l ∈ ls, l.1 = l'.1 ∧ (l'.2 = l.2 ∨ l'.2 = []) := fun l' hl' => ⟨l', hl', rfl, .inl rfl⟩
  have hsne : S ≠ [] := by
    obtain ⟨x, hx⟩ := List.exists_mem_of_ne_nil _ hd.subjNe
    have := hinS x
    rw [inLayer_self _ _ hx] at this
    intro h0
    rw [h0] at this
    simp [inLayer] at this
  refine ⟨?_, ?_, ?_, ?_, hinS, hmemO, ?_, hsne, ?_, fun hany on hon => (hd.obj hany on hon).2.2, ?_,
    consistent_of_unrelMap ls hd.unrel hd.wf⟩
  · intro n hn
    exact layerOf_correct ls hd.unrel hd.wf n (hw.nwf n hn)
  · intro n
    rw [← hlS1]
    exact tag_iff ls ls hd.unrel hsubId hd.nodup lS hlS hlS n
  · intro hany on hon n
    obtain ⟨l, hl, h1, _⟩ := get_of_any ls on (hd.obj hany on hon).1
    rw [← h1]
    exact tag_iff ls ls hd.unrel hsubId hd.nodup l hl hl n
  · intro hany on hon
    obtain ⟨l, hl, h1, _⟩ := get_of_any ls on (hd.obj hany on hon).1
    exact ⟨(l.1, l.2.map render), List.mem_map.2 ⟨l, hl, rfl⟩, h1⟩
  · intro x hx
    rcases List.mem_append.1 hx with h | h
    · exact hd.nodesS x (hsubS x h)
    · have := (hmemO x).1 h
      split at this
      · exact hd.nodesS x (hsubS x this)
      · rename_i hany
        obtain ⟨on, hon, hxo⟩ := this
        exact hd.nodesO (by simpa using hany) on hon x hxo
  · cases hany : r.anything
    · obtain ⟨on, hon⟩ := List.exists_mem_of_ne_nil _ (hd.objNe hany)
      obtain ⟨y, hy⟩ := List.exists_mem_of_ne_nil _ (hd.obj hany on hon).2.2
      intro h0
      have : y ∈ O := (hmemO y).2 (by simp only [hany, Bool.false_eq_true, if_false]; exact ⟨on, hon, hy⟩)
      rw [h0] at this; cases this
    · obtain ⟨x, hx⟩ := List.exists_mem_of_ne_nil _ hsne
      intro h0
      have : x ∈ O := (hmemO x).2 (by simp only [hany, if_true]; exact hx)
      rw [h0] at this; cases this
  · intro hany hmem
    exact (hd.obj hany _ hmem).2.1 rfl

end Pta
