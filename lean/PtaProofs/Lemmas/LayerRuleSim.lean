/-
  PtaProofs.Lemmas.LayerRuleSim — LayerRule call histories against the specification automaton `LRTrack`.
-/
import PtaProofs.Lemmas.RuleHist
set_option linter.unusedSimpArgs false
namespace Pta.Hist
open PtaSpec

/-! ### `architecture[layer]` -/

theorem get_of_hasLayer (a : LArch) (n : Str) (h : a.hasLayer n = true) : ∃ fs, a.get n = .ok fs := by
  unfold LArch.get
  cases hf : a.find? (·.1 == n) with
  | some l => exact ⟨l.2, rfl⟩
  | none =>
    rw [List.find?_eq_none] at hf
    simp only [LArch.hasLayer, List.any_eq_true] at h
    obtain ⟨l, hl, hn⟩ := h
    exact absurd hn (hf l hl)

theorem get_of_not_hasLayer (a : LArch) (n : Str) (h : a.hasLayer n = false) : a.get n = .error .lookupError := by
  unfold LArch.get
  cases hf : a.find? (·.1 == n) with
  | none => rfl
  | some l =>
    have h1 := List.find?_some hf
    have h2 := List.mem_of_find?_eq_some hf
    simp only [LArch.hasLayer, List.any_eq_false] at h
    exact absurd h1 (h l h2)

theorem get_err (a : LArch) (n : Str) (e : ErrKind) (h : a.get n = .error e) : e = .lookupError := by
  unfold LArch.get at h
  split at h <;> cases h
  rfl

/-- the filters of a layer, `[]` when undefined -/
def getD (a : LArch) (l : Str) : List Filter := match a.get l with | .ok fs => fs | .error _ => []

theorem mapM_get_ok (a : LArch) (ls : List Str) (h : ls.all a.hasLayer = true) :
    ls.mapM a.get = .ok (ls.map (getD a)) := by
  induction ls with
  | nil => rfl
  | cons l ls ih =>
    simp only [List.all_cons, Bool.and_eq_true] at h
    obtain ⟨fs, hfs⟩ := get_of_hasLayer a l h.1
    rw [List.mapM_cons, ih h.2, hfs]
    simp [bind, Except.bind, pure, Except.pure, getD, hfs]

theorem mapM_get_err (a : LArch) (ls : List Str) (h : ls.all a.hasLayer = false) :
    ls.mapM a.get = .error .lookupError := by
  apply mapM_error_of_mem
  · intro x _ e he; exact get_err a x e he
  · rw [List.all_eq_false] at h
    obtain ⟨x, hx, hn⟩ := h
    exact ⟨x, hx, get_of_not_hasLayer a x (by simpa using hn)⟩

/-! ### simulation -/

structure LRSim (a : LArch) (s : LayerRuleState) (t : LRTrack) : Prop where
  arch : t.arch = s.arch.isSome
  archEq : ∀ a', s.arch = some a' → a' = a
  started : t.started = s.rule.isSome
  ruleArch : s.rule.isSome = true → s.arch.isSome = true
  inner : ∀ r, s.rule = some r → RSim r t.inner ∧ r.next.isSome = true

theorem lrsim_init (a : LArch) : LRSim a {} {} :=
  ⟨rfl, (by intro a' h; cases h), rfl, (by intro h; cases h), (by intro r h; cases h)⟩

/-- what one step has to establish -/
def LRGoal (a : LArch) (X : LRStep) (Y : Except ErrKind LayerRuleState) : Prop :=
  match X with
  | .ok t' => ∃ s', Y = .ok s' ∧ LRSim a s' t'
  | .reject => Y = .error .improperlyConfigured
  | .lookup => Y = .error .lookupError

/-- the inner Rule call of the verb / access calls -/
theorem lrsim_inner0 (a : LArch) (s : LayerRuleState) (t : LRTrack) (rop : RuleOp) (h : LRSim a s t)
    (hsome : ∀ u : RTrack, ∃ u', u.step (toRCall rop) = some u' ∧ (u.target.isSome = true → u'.target.isSome = true)) :
    match (if !t.started then LRStep.reject
      else match t.inner.step (toRCall rop) with
        | some i => .ok { t with inner := i }
        | none => .reject) with
    | .ok t' => ∃ s', (match s.rule with
        | none => Except.error ErrKind.improperlyConfigured
        | some r => (r.step noGlob rop).map fun r' => { s with rule := some r' }) = .ok s' ∧ LRSim a s' t'
    | .reject => (match s.rule with
        | none => Except.error ErrKind.improperlyConfigured
        | some r => (r.step noGlob rop).map fun r' => { s with rule := some r' }) = .error .improperlyConfigured
    | .lookup => (match s.rule with
        | none => Except.error ErrKind.improperlyConfigured
        | some r => (r.step noGlob rop).map fun r' => { s with rule := some r' }) = .error .lookupError := by
  obtain ⟨h1, h2, h3, h4, h5⟩ := h
  cases hr : s.rule with
  | none => simp [h3, hr]
  | some r =>
    obtain ⟨hsim, hnext⟩ := h5 r hr
    obtain ⟨u', hu', htgt⟩ := hsome t.inner
    have hs := rsim_step noGlob r t.inner rop hsim
    rw [hu'] at hs
    obtain ⟨r', hr', hsim'⟩ := hs
    simp only [h3, hr, Option.isSome_some, Bool.not_true, Bool.false_eq_true, if_false, hu', hr', Except.map]
    refine ⟨_, rfl, ⟨h1, h2, rfl, fun _ => h4 (by simp [hr]), ?_⟩⟩
    intro r'' hr''
    simp only [Option.some.injEq] at hr''
    subst hr''
    refine ⟨hsim', ?_⟩
    rw [← hsim'.target]
    apply htgt
    rw [hsim.target]; exact hnext

theorem lrsim_inner (a : LArch) (s : LayerRuleState) (t : LRTrack) (rop : RuleOp) (h : LRSim a s t)
    (hsome : ∀ u : RTrack, ∃ u', u.step (toRCall rop) = some u' ∧ (u.target.isSome = true → u'.target.isSome = true))
    (X : LRStep) (Y : Except ErrKind LayerRuleState)
    (hX : X = (if !t.started then LRStep.reject
      else match t.inner.step (toRCall rop) with
        | some i => .ok { t with inner := i }
        | none => .reject))
    (hY : Y = (match s.rule with
        | none => Except.error ErrKind.improperlyConfigured
        | some r => (r.step noGlob rop).map fun r' => { s with rule := some r' })) :
    LRGoal a X Y := by
  subst hX
  subst hY
  exact lrsim_inner0 a s t rop h hsome

theorem toLRCall_areNamed (a : LArch) (ls : List Str) (isList : Bool) :
    toLRCall a (.areNamed ls isList) = .named ((ls.map (getD a)).flatten.length) isList (ls.all a.hasLayer) := by
  simp only [toLRCall, List.flatMap_def]
  rfl

theorem addModules_next (r : RuleState) (ms : List Filter) : (r.addModules ms).next = r.next := by
  unfold RuleState.addModules; split <;> rfl

theorem rsim_addModules_subject (r : RuleState) (u : RTrack) (ms : List Filter) (h : RSim r u) (hn : r.next = some true) :
    RSim (r.addModules ms) { u with subject := u.subject || decide (0 < ms.length) } := by
  obtain ⟨h1, h2, h3, h4, h5, h6, h7, h8⟩ := h
  unfold RuleState.addModules
  simp only [hn, beq_self_eq_true, if_true]
  refine ⟨by simpa [hn] using h1, ?_, h3, h4, h5, h6, h7, h8⟩
  simp only [h2, neOpt]
  cases r.cfg.subjects with
  | none => cases ms <;> simp
  | some l => cases l <;> cases ms <;> simp

theorem rsim_addModules_object (r : RuleState) (u : RTrack) (ms : List Filter) (x : Bool) (h : RSim r u) (hn : r.next = some false) :
    RSim (r.addModules ms) { u with object := u.object || decide (0 < ms.length), objectAfterAnything := x } := by
  obtain ⟨h1, h2, h3, h4, h5, h6, h7, h8⟩ := h
  unfold RuleState.addModules
  simp only [hn]
  refine ⟨by simpa [hn] using h1, h2, ?_, h4, h5, h6, h7, h8⟩
  simp only [h3, neOpt]
  cases r.cfg.objects with
  | none => cases ms <;> simp
  | some l => cases l <;> cases ms <;> simp

theorem step_areNamed (s : LayerRuleState) (r : RuleState) (a : LArch) (ls : List Str) (isList : Bool)
    (hr : s.rule = some r) (ha : s.arch = some a) :
    s.step (.areNamed ls isList) =
      if (!neOpt r.cfg.subjects && isList) = true then .error .improperlyConfigured
      else if (neOpt r.cfg.subjects && r.next == some true) = true then .error .improperlyConfigured
      else (ls.mapM a.get).map (fun ms => ({ arch := some a, rule := some (r.addModules ms.flatten) } : LayerRuleState)) := by
  simp only [LayerRuleState.step, hr, ha]
  have : ∀ x : Except ErrKind (List (List Filter)),
      (do let ms ← x; pure ({ arch := some a, rule := some (r.addModules ms.flatten) } : LayerRuleState) : Except ErrKind LayerRuleState) =
      x.map (fun ms => ({ arch := some a, rule := some (r.addModules ms.flatten) } : LayerRuleState)) := by
    intro x; cases x <;> rfl
  rw [this]
  cases r.cfg.subjects with
  | none => simp [neOpt]
  | some l => cases l <;> simp [neOpt]

theorem lrsim_step (a : LArch) (s : LayerRuleState) (t : LRTrack) (op : LayerRuleOp) (h : LRSim a s t)
    (hop : ∀ a', op = .basedOn a' → a' = a) :
    LRGoal a (t.step (toLRCall a op)) (s.step op) := by
  cases op with
  | should => exact lrsim_inner a s t .should h (by intro u; exact ⟨_, rfl, id⟩) _ _ rfl rfl
  | shouldOnly => exact lrsim_inner a s t .shouldOnly h (by intro u; exact ⟨_, rfl, id⟩) _ _ rfl rfl
  | shouldNot => exact lrsim_inner a s t .shouldNot h (by intro u; exact ⟨_, rfl, id⟩) _ _ rfl rfl
  | access => exact lrsim_inner a s t .importThat h (by intro u; exact ⟨_, rfl, fun _ => rfl⟩) _ _ rfl rfl
  | beAccessedBy => exact lrsim_inner a s t .beImportedByThat h (by intro u; exact ⟨_, rfl, fun _ => rfl⟩) _ _ rfl rfl
  | accessExcept => exact lrsim_inner a s t .importExcept h (by intro u; exact ⟨_, rfl, fun _ => rfl⟩) _ _ rfl rfl
  | beAccessedByExcept => exact lrsim_inner a s t .beImportedByExcept h (by intro u; exact ⟨_, rfl, fun _ => rfl⟩) _ _ rfl rfl
  | accessAny => exact lrsim_inner a s t .importAnything h (by intro u; exact ⟨_, rfl, fun _ => rfl⟩) _ _ rfl rfl
  | beAccessedByAny => exact lrsim_inner a s t .beImportedByAnything h (by intro u; exact ⟨_, rfl, fun _ => rfl⟩) _ _ rfl rfl
  | basedOn a' =>
    have ha : a' = a := hop a' rfl
    subst ha
    obtain ⟨h1, h2, h3, h4, h5⟩ := h
    simp only [toLRCall, LRTrack.step, LayerRuleState.step, h1]
    cases hsa : s.arch with
    | some b => simp [LRGoal]
    | none =>
      simp only [Option.isSome_none, Bool.false_eq_true, if_false, LRGoal]
      refine ⟨_, rfl, ⟨rfl, ?_, h3, fun _ => rfl, h5⟩⟩
      intro b hb; cases hb; rfl
  | layersThat =>
    obtain ⟨h1, h2, h3, h4, h5⟩ := h
    simp only [toLRCall, LRTrack.step, LayerRuleState.step, h1]
    cases hsa : s.arch with
    | none => simp [LRGoal]
    | some b =>
      simp only [Option.isSome_some, Bool.not_true, Bool.false_eq_true, if_false, LRGoal]
      refine ⟨_, rfl, ⟨by simp [h1, hsa], by simpa [hsa] using h2, rfl, fun _ => by simp [hsa], ?_⟩⟩
      intro r hr
      simp only [Option.some.injEq] at hr
      subst hr
      exact ⟨⟨rfl, rfl, rfl, rfl, rfl, rfl, rfl, rfl⟩, rfl⟩
  | areNamed ls isList =>
    obtain ⟨h1, h2, h3, h4, h5⟩ := h
    rw [toLRCall_areNamed]
    cases hr : s.rule with
    | none => simp [LRTrack.step, LayerRuleState.step, h3, hr, LRGoal]
    | some r =>
      have hsa : s.arch = some a := by
        have := h4 (by simp [hr])
        obtain ⟨b, hb⟩ := Option.isSome_iff_exists.mp this
        rw [hb, h2 b hb]
      obtain ⟨hsim, hnext⟩ := h5 r hr
      have hst : t.started = true := by rw [h3, hr]; rfl
      have htg := hsim.target
      obtain ⟨b, hb⟩ := Option.isSome_iff_exists.mp hnext
      rw [step_areNamed s r a ls isList hr hsa]
      have hS := hsim.subject
      have harch : t.arch = (some a : Option LArch).isSome := by rw [h1, hsa]
      have hinner : ∀ (u' : RTrack) (ms : List Filter), RSim (r.addModules ms) u' →
          LRSim a { arch := some a, rule := some (r.addModules ms) } { arch := t.arch, started := true, inner := u' } := by
        intro u' ms hu'
        refine ⟨harch, fun a' ha' => by cases ha'; rfl, rfl, fun _ => rfl, ?_⟩
        intro r'' hr''
        simp only [Option.some.injEq] at hr''
        subst hr''
        exact ⟨hu', by rw [addModules_next]; exact hnext⟩
      simp only [LRTrack.step, hst, htg, hb, ← hS, Bool.not_true, Bool.false_eq_true, if_false]
      cases hall : ls.all a.hasLayer
      · rw [mapM_get_err a ls hall]
        cases t.inner.subject <;> cases isList <;> cases b <;> simp [LRGoal, Except.map]
      · rw [mapM_get_ok a ls hall]
        cases b
        · -- object position
          have hobj := fun x => rsim_addModules_object r t.inner (ls.map (getD a)).flatten x hsim hb
          cases hS' : t.inner.subject <;> cases isList <;>
            simp only [LRGoal, Except.map, Bool.not_true, Bool.not_false, Bool.false_eq_true, if_false, if_true,
              Bool.and_true, Bool.and_false, Bool.or_true, Bool.or_false, Bool.true_and, Bool.false_and,
              reduceCtorEq, beq_iff_eq, Option.some.injEq]
          all_goals
            refine ⟨_, rfl, hinner _ _ ?_⟩
            have := hobj (t.inner.objectAfterAnything || t.inner.anything)
            simp only [hS', htg, hb] at this
            exact this
        · have hsub := rsim_addModules_subject r t.inner (ls.map (getD a)).flatten hsim hb
          cases hS' : t.inner.subject <;> cases isList <;>
            simp only [LRGoal, Except.map, Bool.not_true, Bool.not_false, Bool.false_eq_true, if_false, if_true,
              Bool.and_true, Bool.and_false, Bool.or_true, Bool.or_false, Bool.true_and, Bool.false_and,
              beq_self_eq_true]
          refine ⟨_, rfl, hinner _ _ ?_⟩
          simp only [hS', htg, hb] at hsub
          exact hsub

/-! ### the final `assert_applies` -/

theorem assertAppliesLayer_notStarted (mt : Str → Str → Bool) (s : LayerRuleState) (g : PGraph Str)
    (h : s.rule = none) : assertAppliesLayer mt s g = .err .improperlyConfigured := by
  unfold assertAppliesLayer
  rw [h]

theorem assertAppliesLayer_preFail (mt : Str → Str → Bool) (s : LayerRuleState) (g : PGraph Str) (r : RuleState)
    (a : LArch) (hr : s.rule = some r) (ha : s.arch = some a)
    (h : preFail r.cfg = true) : ∃ k, assertAppliesLayer mt s g = .err k := by
  unfold preFail at h
  unfold assertAppliesLayer
  rw [hr, ha]
  simp only
  by_cases h1 : anythingMisused r.cfg = true
  · simp only [h1, if_true]; exact ⟨_, rfl⟩
  · simp only [h1, Bool.false_eq_true, if_false]
    simp only [Bool.not_eq_true] at h1
    simp only [h1, Bool.false_or, Bool.or_eq_true] at h
    by_cases h2 : configMissing (convertAliases r.cfg) = true
    · simp only [h2, if_true]; exact ⟨_, rfl⟩
    · simp only [h2, Bool.false_eq_true, if_false]
      by_cases h0 : droppedAbsent g (convertAliases r.cfg) = true
      · simp only [h0, if_true]; exact ⟨_, rfl⟩
      simp only [h0, Bool.false_eq_true, if_false]
      have h3 := h.resolve_left h2
      simp only [h3, if_true]; exact ⟨_, rfl⟩

/-- what a run from a simulated state has to establish -/
def LRFinal (cls : LRClass) (res : LVerdict × Nat) : Prop :=
  match cls with
  | .rejectedAt i => res = (.err .improperlyConfigured, i)
  | .lookupAt i => res = (.err .lookupError, i)
  | .notStarted => res.1 = .err .improperlyConfigured
  | .final c => c.mustRaise = true → ∃ k, res.1 = .err k

theorem lr_go (mt : Str → Str → Bool) (g : PGraph Str) (a : LArch) (ops : List LayerRuleOp)
    (s : LayerRuleState) (t : LRTrack) (i : Nat) (h : LRSim a s t)
    (hbased : ∀ op ∈ ops, ∀ a', op = LayerRuleOp.basedOn a' → a' = a) :
    LRFinal (classifyLayerRuleFrom t i (ops.map (toLRCall a))) (runLayerRuleOps.go mt g s i ops) := by
  induction ops generalizing s t i with
  | nil =>
    simp only [List.map_nil, classifyLayerRuleFrom, runLayerRuleOps.go]
    cases hst : t.started
    · simp only [Bool.false_eq_true, if_false, LRFinal]
      apply assertAppliesLayer_notStarted
      have := h.started
      rw [hst] at this
      cases hr : s.rule with
      | none => rfl
      | some r => rw [hr] at this; cases this
    · simp only [if_true, LRFinal]
      intro hm
      have h3 := h.started
      rw [hst] at h3
      obtain ⟨r, hr⟩ := Option.isSome_iff_exists.mp h3.symm
      obtain ⟨b, hb⟩ := Option.isSome_iff_exists.mp (h.ruleArch h3.symm)
      exact assertAppliesLayer_preFail mt s g r b hr hb (rsim_mustRaise (h.inner r hr).1 hm)
  | cons op rest ih =>
    have hs := lrsim_step a s t op h (hbased op (by simp))
    simp only [List.map_cons, classifyLayerRuleFrom, runLayerRuleOps.go]
    cases ht : t.step (toLRCall a op) with
    | reject =>
      rw [ht] at hs
      simp only [LRGoal] at hs
      simp only [hs, LRFinal]
    | lookup =>
      rw [ht] at hs
      simp only [LRGoal] at hs
      simp only [hs, LRFinal]
    | ok t' =>
      rw [ht] at hs
      obtain ⟨s', hs', hsim⟩ := hs
      simp only [hs']
      exact ih s' t' (i + 1) hsim (fun op' hop' => hbased op' (List.mem_cons_of_mem _ hop'))

theorem layer_rule_aux (mt : Str → Str → Bool) (a : LArch) (ops : List LayerRuleOp) (g : PGraph Str)
    (hbased : ∀ op ∈ ops, ∀ a', op = LayerRuleOp.basedOn a' → a' = a) :
    LRFinal (classifyLayerRule (ops.map (toLRCall a))) (runLayerRuleOps mt ops g) :=
  lr_go mt g a ops {} {} 0 (lrsim_init a) hbased

end Pta.Hist