/-
  PtaProofs.Lemmas.RenameAux — helper lemmas for Rename.lean (invariance under injective component renamings).
-/
import Bridge.Abs
import PtaProofs.Lemmas.Render
namespace Pta.Ren
open Pta PtaSpec

/-! ### prefix relation and injective maps -/

theorem isPrefixOf_map (ρ : Comp → Comp) (hρ : ∀ c d, ρ c = ρ d → c = d) (x n : Name) :
    (x.map ρ).isPrefixOf (n.map ρ) = x.isPrefixOf n := by
  induction x generalizing n with
  | nil => simp
  | cons a x ih =>
    cases n with
    | nil => simp
    | cons b n =>
      simp only [List.map_cons, List.isPrefixOf, ih]
      congr 1
      rw [Bool.eq_iff_iff]
      simp only [beq_iff_eq]
      exact ⟨hρ a b, fun h => by rw [h]⟩

theorem map_inj (ρ : Comp → Comp) (hρ : ∀ c d, ρ c = ρ d → c = d) (x n : Name)
    (h : x.map ρ = n.map ρ) : x = n := by
  induction x generalizing n with
  | nil => cases n <;> simp_all
  | cons a x ih =>
    cases n with
    | nil => simp at h
    | cons b n =>
      simp only [List.map_cons, List.cons.injEq] at h
      rw [hρ a b h.1, ih n h.2]

theorem renName_inj {ρ : Comp → Comp} (hρ : GoodRen ρ) {x n : Name} (h : renName ρ x = renName ρ n) : x = n :=
  map_inj ρ hρ.inj x n h

theorem renName_eq_iff {ρ : Comp → Comp} (hρ : GoodRen ρ) (x n : Name) : renName ρ x = renName ρ n ↔ x = n :=
  ⟨renName_inj hρ, fun h => by rw [h]⟩

theorem renName_beq {ρ : Comp → Comp} (hρ : GoodRen ρ) (x n : Name) : (renName ρ x == renName ρ n) = (x == n) := by
  rw [Bool.eq_iff_iff]; simp only [beq_iff_eq]; exact renName_eq_iff hρ x n

theorem renName_bne {ρ : Comp → Comp} (hρ : GoodRen ρ) (x n : Name) : (renName ρ x != renName ρ n) = (x != n) := by
  simp only [bne, renName_beq hρ]

theorem desc_ren {ρ : Comp → Comp} (hρ : GoodRen ρ) (x n : Name) : desc (renName ρ x) (renName ρ n) = desc x n :=
  isPrefixOf_map ρ hρ.inj x n

theorem sdesc_ren {ρ : Comp → Comp} (hρ : GoodRen ρ) (x n : Name) : sdesc (renName ρ x) (renName ρ n) = sdesc x n := by
  have h := desc_ren hρ x n
  simp only [desc] at h
  simp only [sdesc, h, renName_bne hρ]

theorem related_ren {ρ : Comp → Comp} (hρ : GoodRen ρ) (x n : Name) : related (renName ρ x) (renName ρ n) = related x n := by
  simp only [related, desc_ren hρ]

theorem nameWF_ren {ρ : Comp → Comp} (hρ : GoodRen ρ) {n : Name} (h : nameWF n = true) : nameWF (renName ρ n) = true := by
  simp only [nameWF, Bool.and_eq_true, List.all_eq_true, renName] at h ⊢
  refine ⟨?_, ?_⟩
  · cases n <;> simp_all
  · intro c hc
    obtain ⟨d, hd, rfl⟩ := List.mem_map.1 hc
    exact hρ.wf d (h.2 d hd)

theorem contains_ren {ρ : Comp → Comp} (hρ : GoodRen ρ) (l : List Name) (x : Name) :
    (l.map (renName ρ)).contains (renName ρ x) = l.contains x := by
  rw [Bool.eq_iff_iff]
  simp only [List.contains_iff_mem, List.mem_map]
  constructor
  · rintro ⟨y, hy, h⟩
    rw [← renName_inj hρ h]; exact hy
  · intro h; exact ⟨x, h, rfl⟩

/-! ### filters -/

theorem renFilter_id (ρ : Comp → Comp) (f : SFilter) : (renFilter ρ f).id = renName ρ f.id := by
  cases f <;> rfl

theorem renFilter_mem {ρ : Comp → Comp} (hρ : GoodRen ρ) (f : SFilter) (n : Name) :
    (renFilter ρ f).mem (renName ρ n) = f.mem n := by
  cases f <;> simp [renFilter, SFilter.mem, desc_ren hρ, sdesc_ren hρ]

/-- renaming of an import pair -/
def renPair (ρ : Comp → Comp) (e : Name × Name) : Name × Name := (renName ρ e.1, renName ρ e.2)

theorem edges_ren {ρ : Comp → Comp} (hρ : GoodRen ρ) (a : Arch) (dir : Bool) (s o : SFilter) :
    edges (renArch ρ a) dir (renFilter ρ s) (renFilter ρ o) = (edges a dir s o).map (renPair ρ) := by
  simp only [edges, renArch]
  show List.filter _ (a.imports.map (renPair ρ)) = _
  rw [List.filter_map]
  congr 1
  apply List.filter_congr
  intro e _
  simp only [Function.comp, renPair, renFilter_mem hρ]

theorem all_renFilter {ρ : Comp → Comp} (hρ : GoodRen ρ) (os : List SFilter) (n : Name) :
    ((os.map (renFilter ρ)).all fun o => !o.mem (renName ρ n)) = os.all fun o => !o.mem n := by
  rw [List.all_map]
  apply List.all_congr rfl
  intro o
  simp only [Function.comp, renFilter_mem hρ]

theorem others_ren {ρ : Comp → Comp} (hρ : GoodRen ρ) (a : Arch) (dir : Bool) (s : SFilter) (os : List SFilter) :
    others (renArch ρ a) dir (renFilter ρ s) (os.map (renFilter ρ)) = (others a dir s os).map (renPair ρ) := by
  simp only [others, renArch]
  show List.filter _ (a.imports.map (renPair ρ)) = _
  rw [List.filter_map]
  congr 1
  apply List.filter_congr
  intro e _
  cases dir <;>
    simp only [Function.comp, renPair, renFilter_mem hρ, renFilter_id, desc_ren hρ, all_renFilter hρ, if_true,
      if_false, Bool.false_eq_true]

theorem effObjects_ren (ρ : Comp → Comp) (r : RuleSpec) :
    (renRule ρ r).effObjects = r.effObjects.map (renFilter ρ) := by
  simp only [RuleSpec.effObjects, renRule]
  by_cases h : r.anything = true <;> simp [h]

/-! ### rules -/

theorem renRule_subjects (ρ : Comp → Comp) (r : RuleSpec) : (renRule ρ r).subjects = r.subjects.map (renFilter ρ) := rfl
theorem renRule_importDir (ρ : Comp → Comp) (r : RuleSpec) : (renRule ρ r).importDir = r.importDir := rfl
theorem renRule_verb (ρ : Comp → Comp) (r : RuleSpec) : (renRule ρ r).verb = r.verb := rfl
theorem renRule_effExc (ρ : Comp → Comp) (r : RuleSpec) : (renRule ρ r).effExc = r.effExc := rfl

theorem map_if_nil {α β} (f : α → β) (c : Bool) (l : List α) : (if c = true then l else []).map f = if c = true then l.map f else [] := by
  cases c <;> rfl

theorem missing_ren {ρ : Comp → Comp} (hρ : GoodRen ρ) (a : Arch) (dir : Bool) (s : SFilter) (os : List SFilter) :
    (os.map (renFilter ρ)).filter (fun o => (edges (renArch ρ a) dir (renFilter ρ s) o).isEmpty) =
      (os.filter fun o => (edges a dir s o).isEmpty).map (renFilter ρ) := by
  rw [List.filter_map]
  simp only [Function.comp_def, edges_ren hρ, List.isEmpty_map]


/-! ### domain -/

theorem nodupB_ren {ρ : Comp → Comp} (hρ : GoodRen ρ) (l : List Name) : nodupB (l.map (renName ρ)) = nodupB l := by
  induction l with
  | nil => rfl
  | cons x xs ih => simp only [List.map_cons, nodupB, contains_ren hρ, ih]

theorem properPrefixes_ren (ρ : Comp → Comp) (n : Name) :
    properPrefixes (renName ρ n) = (properPrefixes n).map (renName ρ) := by
  simp only [properPrefixes, renName, List.length_map, List.map_filterMap]
  congr 1
  funext k
  split <;> simp [renName, List.map_take]

theorem pairwiseUnrelated_ren {ρ : Comp → Comp} (hρ : GoodRen ρ) (l : List Name) :
    pairwiseUnrelated (l.map (renName ρ)) = pairwiseUnrelated l := by
  induction l with
  | nil => rfl
  | cons x xs ih =>
    simp only [List.map_cons, pairwiseUnrelated, ih, List.all_map, Function.comp_def, related_ren hρ]

theorem wf_ren {ρ : Comp → Comp} (hρ : GoodRen ρ) (a : Arch) (h : a.wf = true) : (renArch ρ a).wf = true := by
  simp only [Arch.wf, Bool.and_eq_true] at h ⊢
  obtain ⟨⟨⟨h1, h2⟩, h3⟩, h4⟩ := h
  refine ⟨⟨⟨?_, ?_⟩, ?_⟩, ?_⟩
  · simpa only [renArch, nodupB_ren hρ] using h1
  · simp only [renArch, List.all_map, List.all_eq_true, Function.comp_def] at h2 ⊢
    intro n hn; exact nameWF_ren hρ (h2 n hn)
  · simp only [renArch, List.all_map, Function.comp_def, properPrefixes_ren, contains_ren hρ]
    exact h3
  · simp only [renArch, List.all_map, Function.comp_def, contains_ren hρ, renName_bne hρ, sdesc_ren hρ]
    exact h4

theorem strict_ren {ρ : Comp → Comp} (hρ : GoodRen ρ) (r : RuleSpec) : (renRule ρ r).strict = r.strict := by
  have h1 : ∀ l : List SFilter, (l.map (renFilter ρ)).map (·.id) = (l.map (·.id)).map (renName ρ) := by
    intro l; simp only [List.map_map, Function.comp_def, renFilter_id]
  simp only [RuleSpec.strict, renRule, h1]
  rw [← pairwiseUnrelated_ren hρ (r.subjects.map (·.id) ++ _)]
  congr 1
  by_cases h : r.anything = true <;> simp [h]

theorem namesIn_ren {ρ : Comp → Comp} (hρ : GoodRen ρ) (a : Arch) (r : RuleSpec) :
    (renRule ρ r).namesIn (renArch ρ a) = r.namesIn a := by
  simp only [RuleSpec.namesIn, effObjects_ren]
  show ((r.subjects.map (renFilter ρ) ++ r.effObjects.map (renFilter ρ)).all fun f => (a.nodes.map (renName ρ)).contains f.id) = _
  rw [← List.map_append, List.all_map]
  simp only [Function.comp_def, renFilter_id, contains_ren hρ]

/-! ### layer lookup through an injective encoding of names -/

/-- component-level layer lookup -/
def layerOfListedC (m : List (Str × List Name)) (n : Name) : Option Str :=
  ((m.filter fun l => l.2.contains n).getLast?).map (·.1)

def layerOfC (m : List (Str × List Name)) (n : Name) : Except ErrKind (Option Str) :=
  match layerOfListedC m n with
  | some l => .ok (some l)
  | none =>
    let cands := (m.flatMap (·.2)).filter fun c => sdesc c n
    let layers := dedup (cands.filterMap (layerOfListedC m))
    match layers with
    | [] => .ok none
    | [l] => .ok (some l)
    | _ => .error .layerMismatch

theorem contains_enc (e : Name → Str) (hinj : ∀ x y, nameWF x = true → nameWF y = true → e x = e y → x = y)
    (l : List Name) (hl : ∀ x ∈ l, nameWF x = true) (n : Name) (hn : nameWF n = true) :
    (l.map e).contains (e n) = l.contains n := by
  rw [Bool.eq_iff_iff]
  simp only [List.contains_iff_mem, List.mem_map]
  constructor
  · rintro ⟨y, hy, h⟩
    rw [← hinj y n (hl y hy) hn h]; exact hy
  · intro h; exact ⟨n, h, rfl⟩

theorem layerOfListed_enc (e : Name → Str) (hinj : ∀ x y, nameWF x = true → nameWF y = true → e x = e y → x = y)
    (m : List (Str × List Name)) (hm : ∀ l ∈ m, ∀ x ∈ l.2, nameWF x = true) (n : Name) (hn : nameWF n = true) :
    LayerMap.layerOfListed (m.map fun l => (l.1, l.2.map e)) (e n) = layerOfListedC m n := by
  simp only [LayerMap.layerOfListed, layerOfListedC, List.filter_map, Function.comp_def, List.getLast?_map,
    Option.map_map]
  congr 2
  apply List.filter_congr
  intro l hl
  exact contains_enc e hinj l.2 (hm l hl) n hn

theorem filterMap_congr' {α β} {f g : α → Option β} {l : List α} (h : ∀ x ∈ l, f x = g x) :
    l.filterMap f = l.filterMap g := by
  induction l with
  | nil => rfl
  | cons x xs ih =>
    simp only [List.filterMap_cons, h x (by simp)]
    rw [ih (fun y hy => h y (by simp [hy]))]

theorem layerOf_enc (e : Name → Str) (hinj : ∀ x y, nameWF x = true → nameWF y = true → e x = e y → x = y)
    (m : List (Str × List Name)) (hm : ∀ l ∈ m, ∀ x ∈ l.2, nameWF x = true) (n : Name) (hn : nameWF n = true)
    (hsub : ∀ c, nameWF c = true → isStrictSub (e c) (e n) = sdesc c n) :
    LayerMap.layerOf (m.map fun l => (l.1, l.2.map e)) (e n) = layerOfC m n := by
  have hlisted : LayerMap.listed (m.map fun l => (l.1, l.2.map e)) = (m.flatMap (·.2)).map e := by
    simp only [LayerMap.listed, List.flatMap_map, List.map_flatMap]
  have hwf : ∀ c ∈ m.flatMap (·.2), nameWF c = true := by
    intro c hc
    obtain ⟨l, hl, hcl⟩ := List.mem_flatMap.1 hc
    exact hm l hl c hcl
  have hcands : ((LayerMap.listed (m.map fun l => (l.1, l.2.map e))).filter fun c => isStrictSub c (e n)).filterMap
        (LayerMap.layerOfListed (m.map fun l => (l.1, l.2.map e))) =
      ((m.flatMap (·.2)).filter fun c => sdesc c n).filterMap (layerOfListedC m) := by
    rw [hlisted, List.filter_map, List.filterMap_map]
    have h1 : (m.flatMap (·.2)).filter ((fun c => isStrictSub c (e n)) ∘ e) =
        (m.flatMap (·.2)).filter fun c => sdesc c n := by
      apply List.filter_congr
      intro c hc
      exact hsub c (hwf c hc)
    rw [h1]
    apply filterMap_congr'
    intro c hc
    exact layerOfListed_enc e hinj m hm c (hwf c (List.mem_filter.1 hc).1)
  unfold LayerMap.layerOf layerOfC
  rw [layerOfListed_enc e hinj m hm n hn]
  simp only [hcands]
  rfl

end Pta.Ren
