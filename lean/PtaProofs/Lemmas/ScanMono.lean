/-
  PtaProofs.Lemmas.ScanMono — lemmas behind PtaProofs/Props/C12Scan.lean (monotonicity of rule verdicts under an added
  import STATEMENT).
  1. graphs: the single-edge monotonicity lemmas of Lemmas/RuleMono.lean / RuleAlgebra.lean iterated over a finite list
     of added import edges, and transported along `GraphEquiv` to any graph with the same modules, the same hierarchy
     and more imports (`GraphLe`);
  2. specification: `scanModules` does not look at statements, `scanImports` is monotone in the statement lists;
  3. scan: composition with the scan theorems (C04 ∘ C02, with or without a level limit).
-/
import Bridge.ScanMono
import PtaProofs.Lemmas.RuleAlgebra
import PtaProofs.Lemmas.RuleErrors
import PtaProofs.Lemmas.OrderCongr
import PtaProofs.Lemmas.AstScan
import PtaProofs.Lemmas.E2ERule
import PtaProofs.Lemmas.E2EMore
import PtaProofs.Lemmas.BuildCond
import PtaProofs.Lemmas.ScanLimit
namespace Pta.ScanMono
open Pta Pta.Alg PtaSpec

/-! ### 1. graphs -/

/-- `monotone_should_lemma` without its (unused) hypothesis that the edge is new -/
theorem should_add_one (mt : Str → Str → Bool) (g : PGraph Str) (u v : Str) (A B : List Filter) (dir exc : Bool) :
    verdictOf mt g (mkRule true false false dir exc A B) = .pass →
    verdictOf mt (addImportEdge g u v) (mkRule true false false dir exc A B) = .pass := by
  cases exc
  · rw [should_pass, should_pass]
    rintro ⟨hA, hB, A', B', e, h1, h2, h3, h4⟩
    obtain ⟨e', he', hR⟩ := qExpl_add g u v dir A' B' e h3
    exact ⟨hA, hB, A', B', e', h1, h2, he', krel_allNE hR h4⟩
  · rw [should_exc_pass, should_exc_pass]
    rintro ⟨hA, hB, A', B', o, h1, h2, h3, h4⟩
    obtain ⟨o', ho', hR⟩ := qOther_add g u v dir A' B' o h3
    exact ⟨hA, hB, A', B', o', h1, h2, ho', h4.imp id (krel_allNE hR)⟩

theorem should_not_add_one (mt : Str → Str → Bool) (g : PGraph Str) (u v : Str) (A B : List Filter) (dir exc : Bool) :
    verdictOf mt g (mkRule false false true dir exc A B) = .fail →
    verdictOf mt (addImportEdge g u v) (mkRule false false true dir exc A B) = .fail := by
  cases exc
  · rw [shouldnot_fail, shouldnot_fail]
    rintro ⟨hA, hB, A', B', e, h1, h2, h3, h4⟩
    obtain ⟨e', he', hR⟩ := qExpl_add g u v dir A' B' e h3
    exact ⟨hA, hB, A', B', e', h1, h2, he', krel_existsNE hR h4⟩
  · rw [shouldnot_exc_fail, shouldnot_exc_fail]
    rintro ⟨hA, hB, A', B', o, h1, h2, h3, h4⟩
    obtain ⟨o', ho', hR⟩ := qOther_add g u v dir A' B' o h3
    exact ⟨hA, hB, A', B', o', h1, h2, ho', krel_existsNE hR h4⟩

/-- induction over the added pairs -/
theorem should_add_edges (mt : Str → Str → Bool) (ps : List (Str × Str)) (A B : List Filter) (dir exc : Bool) :
    ∀ g : PGraph Str, verdictOf mt g (mkRule true false false dir exc A B) = .pass →
      verdictOf mt (addImportEdges g ps) (mkRule true false false dir exc A B) = .pass := by
  induction ps with
  | nil => intro g h; exact h
  | cons p ps ih => intro g h; exact ih _ (should_add_one mt g p.1 p.2 A B dir exc h)

theorem should_not_add_edges (mt : Str → Str → Bool) (ps : List (Str × Str)) (A B : List Filter) (dir exc : Bool) :
    ∀ g : PGraph Str, verdictOf mt g (mkRule false false true dir exc A B) = .fail →
      verdictOf mt (addImportEdges g ps) (mkRule false false true dir exc A B) = .fail := by
  induction ps with
  | nil => intro g h; exact h
  | cons p ps ih => intro g h; exact ih _ (should_not_add_one mt g p.1 p.2 A B dir exc h)

theorem err_add_edges (mt : Str → Str → Bool) (ps : List (Str × Str)) (A B : List Filter) (s o n d e : Bool)
    (hverb : (s || o || n) = true) (hc : (⟨s, o, n, e⟩ : Behavior).inconsistent = false) (k : ErrKind) :
    ∀ g : PGraph Str, verdictOf mt (addImportEdges g ps) (mkRule s o n d e A B) = .err k ↔
      verdictOf mt g (mkRule s o n d e A B) = .err k := by
  induction ps with
  | nil => intro g; exact Iff.rfl
  | cons p ps ih =>
    intro g
    exact (ih (addImportEdge g p.1 p.2)).trans (Pta.monotone_err_lemma mt g p.1 p.2 A B s o n d e hverb hc k)

/-- what `addImportEdges` builds -/
theorem addImportEdges_eq (ps : List (Str × Str)) : ∀ g : PGraph Str,
    addImportEdges g ps = { g with edges := g.edges ++ ps.map fun p => ⟨p.1, p.2, false⟩ } := by
  induction ps with
  | nil => intro g; simp [addImportEdges]
  | cons p ps ih =>
    intro g
    have := ih (addImportEdge g p.1 p.2)
    simp only [addImportEdges, List.foldl_cons] at this ⊢
    rw [this]
    simp [addImportEdge, List.append_assoc]

theorem addImportEdges_nodes (g : PGraph Str) (ps : List (Str × Str)) : (addImportEdges g ps).nodes = g.nodes := by
  rw [addImportEdges_eq]

theorem mem_edges_addImportEdges (g : PGraph Str) (ps : List (Str × Str)) (x : Edge Str) :
    x ∈ (addImportEdges g ps).edges ↔ x ∈ g.edges ∨ (x.inh = false ∧ (x.src, x.dst) ∈ ps) := by
  rw [addImportEdges_eq]
  simp only [List.mem_append, List.mem_map]
  constructor
  · rintro (h | ⟨p, hp, rfl⟩)
    · exact .inl h
    · exact .inr ⟨rfl, hp⟩
  · rintro (h | ⟨h1, h2⟩)
    · exact .inl h
    · refine .inr ⟨_, h2, ?_⟩
      cases x; simp_all

/-- a graph with the modules and hierarchy of `g` and more imports is, as far as the queries can tell, `g` with the
    import pairs of the larger graph added -/
theorem graphEquiv_of_le (g g' : PGraph Str) (h : GraphLe g g') : GraphEquiv (addImportEdges g g'.importPairs) g' := by
  constructor
  · intro s; rw [addImportEdges_nodes]; exact h.nodes s
  · intro s x
    rw [BuildMain.mem_hierChildren, mem_edges_addImportEdges, ← BuildMain.mem_hierChildren, h.hier]
    simp
  · intro s x
    rw [BuildMain.mem_importSuccs, mem_edges_addImportEdges, ← BuildMain.mem_importSuccs, ScanGraph.mem_importPairs,
      ← BuildMain.mem_importSuccs]
    constructor
    · rintro (h1 | ⟨-, h2⟩)
      · exact h.succs s x h1
      · exact h2
    · intro h2; exact .inr ⟨rfl, h2⟩
  · intro s x
    rw [BuildMain.mem_importPreds, mem_edges_addImportEdges, ← BuildMain.mem_importPreds, ScanGraph.mem_importPairs,
      ← BuildMain.mem_importPreds]
    constructor
    · rintro (h1 | ⟨-, h2⟩)
      · exact h.preds s x h1
      · exact h2
    · intro h2; exact .inr ⟨rfl, h2⟩

/-- monotonicity between ANY two graphs with the same modules and hierarchy, the second with more imports -/
theorem should_le (mt : Str → Str → Bool) (g g' : PGraph Str) (h : GraphLe g g') (A B : List Filter) (dir exc : Bool) :
    verdictOf mt g (mkRule true false false dir exc A B) = .pass →
    verdictOf mt g' (mkRule true false false dir exc A B) = .pass := by
  intro hp
  rw [← Ord.verdict_congr mt _ g' (graphEquiv_of_le g g' h)]
  exact should_add_edges mt _ A B dir exc g hp

theorem should_not_le (mt : Str → Str → Bool) (g g' : PGraph Str) (h : GraphLe g g') (A B : List Filter) (dir exc : Bool) :
    verdictOf mt g (mkRule false false true dir exc A B) = .fail →
    verdictOf mt g' (mkRule false false true dir exc A B) = .fail := by
  intro hp
  rw [← Ord.verdict_congr mt _ g' (graphEquiv_of_le g g' h)]
  exact should_not_add_edges mt _ A B dir exc g hp

theorem err_le (mt : Str → Str → Bool) (g g' : PGraph Str) (h : GraphLe g g') (A B : List Filter) (s o n d e : Bool)
    (hverb : (s || o || n) = true) (hc : (⟨s, o, n, e⟩ : Behavior).inconsistent = false) (k : ErrKind) :
    verdictOf mt g' (mkRule s o n d e A B) = .err k ↔ verdictOf mt g (mkRule s o n d e A B) = .err k := by
  rw [← Ord.verdict_congr mt _ g' (graphEquiv_of_le g g' h)]
  exact err_add_edges mt _ A B s o n d e hverb hc k g


/-! ### 2. specification: `scanModules` ignores statements, `scanImports` is monotone in them -/

section spec
open AstScan ScanImports
variable {ι : Type} (f1 f2 : ι → SEntry) (l : List ι) (root : Comp) (mp : List Comp)
  (h_rel : ∀ i, (f1 i).rel = (f2 i).rel) (h_dir : ∀ i, (f1 i).isDir = (f2 i).isDir)
  (h_py : ∀ i, (f1 i).isPy = (f2 i).isPy) (h_stem : ∀ i, (f1 i).stem = (f2 i).stem)
  (h_ex : ∀ i, (f1 i).excludedHere = (f2 i).excludedHere)

/-- `Bad` of the second listing, by index -/
theorem bad_two : Bad root (l.map f2) mp ↔
    ∃ i ∈ l, (f2 i).isDir = false ∧ survives (l.map f2) mp (f2 i) = true ∧ ∃ st ∈ (f2 i).stmts,
      targets (insideOf root (l.map f2) mp) (apOf root mp) (entryName root (f2 i)) st = none := by
  unfold Bad
  rw [filesOf_two f2 l mp]
  constructor
  · rintro ⟨f, hf, st, hst, ht⟩
    obtain ⟨i, hi, rfl⟩ := List.mem_map.mp hf
    obtain ⟨hil, hc⟩ := List.mem_filter.mp hi
    simp only [Bool.and_eq_true, Bool.not_eq_true'] at hc
    exact ⟨i, hil, hc.1, hc.2, st, hst, ht⟩
  · rintro ⟨i, hil, hd, hs, st, hst, ht⟩
    refine ⟨f2 i, List.mem_map_of_mem (List.mem_filter.mpr ⟨hil, ?_⟩), st, hst, ht⟩
    simp [hd, hs]

include h_rel h_dir h_py h_stem h_ex in
/-- `Bad` of the first listing, by index, with everything but the statements read off the second listing -/
theorem bad_one : Bad root (l.map f1) mp ↔
    ∃ i ∈ l, (f2 i).isDir = false ∧ survives (l.map f2) mp (f2 i) = true ∧ ∃ st ∈ (f1 i).stmts,
      targets (insideOf root (l.map f2) mp) (apOf root mp) (entryName root (f2 i)) st = none := by
  unfold Bad
  rw [filesOf_one f1 f2 l mp h_rel h_dir h_py h_ex, insideOf_congr f1 f2 l root mp h_rel h_dir h_py h_stem h_ex]
  constructor
  · rintro ⟨f, hf, st, hst, ht⟩
    obtain ⟨i, hi, rfl⟩ := List.mem_map.mp hf
    obtain ⟨hil, hc⟩ := List.mem_filter.mp hi
    simp only [Bool.and_eq_true, Bool.not_eq_true'] at hc
    rw [entryName_congr f1 f2 root h_rel h_stem i] at ht
    exact ⟨i, hil, hc.1, hc.2, st, hst, ht⟩
  · rintro ⟨i, hil, hd, hs, st, hst, ht⟩
    refine ⟨f1 i, List.mem_map_of_mem (List.mem_filter.mpr ⟨hil, ?_⟩), st, hst, ?_⟩
    · simp [hd, hs]
    · rw [entryName_congr f1 f2 root h_rel h_stem i]; exact ht

variable (h_st : ∀ i ∈ l, ∀ st, st ∈ (f1 i).stmts → st ∈ (f2 i).stmts)

include h_rel h_dir h_py h_stem h_ex h_st in
theorem bad_mono (h : Bad root (l.map f1) mp) : Bad root (l.map f2) mp := by
  rw [bad_one f1 f2 l root mp h_rel h_dir h_py h_stem h_ex] at h
  rw [bad_two f2 l root mp]
  obtain ⟨i, hil, hd, hs, st, hst, ht⟩ := h
  exact ⟨i, hil, hd, hs, st, h_st i hil st hst, ht⟩

include h_rel h_dir h_py h_stem h_ex h_st in
/-- if the listing with more statements has an answer, so has the one with fewer, and its edges are among the others -/
theorem scanImports_mono (is2 : List (Name × Name)) (h2 : scanImports root (l.map f2) mp = some is2) :
    ∃ is1, scanImports root (l.map f1) mp = some is1 ∧ ∀ e ∈ is1, e ∈ is2 := by
  have hb2 : ¬ Bad root (l.map f2) mp := by
    intro hb; rw [scanImports_bad hb] at h2; cases h2
  have hb1 : ¬ Bad root (l.map f1) mp := fun hb => hb2 (bad_mono f1 f2 l root mp h_rel h_dir h_py h_stem h_ex h_st hb)
  obtain ⟨is1, e1, m1⟩ := scanImports_good hb1
  obtain ⟨is2', e2, m2⟩ := scanImports_good hb2
  rw [h2] at e2
  cases e2
  refine ⟨is1, e1, fun e he => ?_⟩
  rw [m1, filesOf_one f1 f2 l mp h_rel h_dir h_py h_ex,
    insideOf_congr f1 f2 l root mp h_rel h_dir h_py h_stem h_ex] at he
  rw [m2, filesOf_two f2 l mp]
  obtain ⟨f, hf, st, hst, ht⟩ := he
  obtain ⟨i, hi, rfl⟩ := List.mem_map.mp hf
  have hil : i ∈ l := (List.mem_filter.mp hi).1
  refine ⟨f2 i, List.mem_map_of_mem hi, st, h_st i hil st hst, ?_⟩
  rw [← entryName_congr f1 f2 root h_rel h_stem i]; exact ht

end spec

/-! ### trees that differ by added statements -/

/-- the parts of an entry the directory walk and the tree predicates look at -/
def skel (e : Entry) : Entry := { rel := e.rel, isDir := e.isDir }

theorem moreStmts_skel {es es' : List Entry} (h : MoreStmts es es') : es.map skel = es'.map skel := by
  induction h with
  | nil => rfl
  | cons h1 _ ih => simp only [List.map_cons, ih, skel, h1.rel, h1.isDir]

theorem relsNodup_skel (es : List Entry) : relsNodup (es.map skel) = relsNodup es := by
  induction es with
  | nil => rfl
  | cons e es ih => simp only [List.map_cons, relsNodup, ih, List.any_map, Function.comp_def, skel]

theorem treeWFFor_skel (excl : Str → Bool) (base : Str) (mp : List Str) (es : List Entry) :
    treeWFFor excl base mp (es.map skel) = treeWFFor excl base mp es := by
  simp only [treeWFFor, treeShape, treeNamesFor, relsNodup_skel, List.all_map, List.any_map, Function.comp_def]
  rfl

theorem mpOK_skel (mp : List Str) (es : List Entry) : mpOK (es.map skel) mp = mpOK es mp := by
  simp only [mpOK, List.any_map, Function.comp_def]
  rfl

theorem treeWFFor_more {es es' : List Entry} (h : MoreStmts es es') (excl : Str → Bool) (base : Str) (mp : List Str) :
    treeWFFor excl base mp es' = treeWFFor excl base mp es := by
  rw [← treeWFFor_skel excl base mp es', ← treeWFFor_skel excl base mp es, moreStmts_skel h]

theorem mpOK_more {es es' : List Entry} (h : MoreStmts es es') (mp : List Str) : mpOK es' mp = mpOK es mp := by
  rw [← mpOK_skel mp es', ← mpOK_skel mp es, moreStmts_skel h]

theorem moreStmts_zip {es es' : List Entry} (h : MoreStmts es es') :
    (es.zip es').map Prod.fst = es ∧ (es.zip es').map Prod.snd = es' ∧ ∀ p ∈ es.zip es', p.1.MoreStmts p.2 := by
  induction h with
  | nil => exact ⟨rfl, rfl, fun p hp => by cases hp⟩
  | cons h1 _ ih =>
    obtain ⟨i1, i2, i3⟩ := ih
    refine ⟨by simp only [List.zip_cons_cons, List.map_cons, i1], by simp only [List.zip_cons_cons, List.map_cons, i2], ?_⟩
    intro p hp
    rcases List.mem_cons.1 hp with rfl | hp
    · exact h1
    · exact i3 p hp

theorem moreStmts_stmtOK {es es' : List Entry} (h : MoreStmts es es')
    (hst : ∀ e ∈ es', ∀ st ∈ e.stmts, stmtOK (toSStmt st) = true) :
    ∀ e ∈ es, ∀ st ∈ e.stmts, stmtOK (toSStmt st) = true := by
  induction h with
  | nil => intro e he; cases he
  | @cons e e' es es' h1 _ ih =>
    intro x hx st hs
    rcases List.mem_cons.1 hx with rfl | hx
    · exact hst e' List.mem_cons_self st (h1.stmts st hs)
    · exact ih (fun e he => hst e (List.mem_cons_of_mem _ he)) x hx st hs

theorem moreStmts_refl (es : List Entry) : MoreStmts es es := by
  induction es with
  | nil => exact .nil
  | cons e es ih => exact .cons ⟨rfl, rfl, fun _ h => h⟩ ih

theorem insertStmt_more (e : Entry) (k : Nat) (st : ImportStmt) : e.MoreStmts (e.insertStmt k st) := by
  refine ⟨rfl, rfl, fun x hx => ?_⟩
  show x ∈ e.stmts.take k ++ st :: e.stmts.drop k
  rw [← List.take_append_drop k e.stmts] at hx
  rcases List.mem_append.1 hx with h | h
  · exact List.mem_append_left _ h
  · exact List.mem_append_right _ (List.mem_cons_of_mem _ h)

/-- adding one statement is a case of `MoreStmts` -/
theorem addStmtAt_more (es : List Entry) (i k : Nat) (st : ImportStmt) : MoreStmts es (addStmtAt es i k st) := by
  induction es generalizing i with
  | nil => exact .nil
  | cons e es ih =>
    cases i with
    | zero => exact .cons (insertStmt_more e k st) (moreStmts_refl es)
    | succ i => exact .cons ⟨rfl, rfl, fun _ h => h⟩ (ih i)

/-- the two listings the specification sees, over the list of (old entry, new entry) pairs -/
def sOld (excl : Str → Bool) (base : Str) (p : Entry × Entry) : SEntry := toSEntry excl base p.1
def sNew (excl : Str → Bool) (base : Str) (p : Entry × Entry) : SEntry :=
  toSEntry excl base { p.1 with stmts := p.2.stmts }

theorem sNew_eq (excl : Str → Bool) (base : Str) (p : Entry × Entry) (h : p.1.MoreStmts p.2) :
    sNew excl base p = toSEntry excl base p.2 := by
  simp only [sNew, toSEntry, h.rel, h.isDir]

/-- the pair list of two trees, root entry included -/
def pairsOf (es es' : List Entry) : List (Entry × Entry) := (rootEntry, rootEntry) :: es.zip es'

theorem toSEntries_old {es es' : List Entry} (h : MoreStmts es es') (excl : Str → Bool) (base : Str) :
    toSEntries excl base es = (pairsOf es es').map (sOld excl base) := by
  obtain ⟨h1, -, -⟩ := moreStmts_zip h
  simp only [toSEntries, pairsOf, List.map_cons, sOld]
  congr 1
  conv => lhs; rw [← h1]
  rw [List.map_map]; rfl

theorem toSEntries_new {es es' : List Entry} (h : MoreStmts es es') (excl : Str → Bool) (base : Str) :
    toSEntries excl base es' = (pairsOf es es').map (sNew excl base) := by
  obtain ⟨-, h2, h3⟩ := moreStmts_zip h
  simp only [toSEntries, pairsOf, List.map_cons]
  congr 1
  conv => lhs; rw [← h2]
  rw [List.map_map]
  apply List.map_congr_left
  intro p hp
  exact (sNew_eq excl base p (h3 p hp)).symm

theorem pairs_stmts {es es' : List Entry} (h : MoreStmts es es') (excl : Str → Bool) (base : Str) :
    ∀ p ∈ pairsOf es es', ∀ st, st ∈ (sOld excl base p).stmts → st ∈ (sNew excl base p).stmts := by
  obtain ⟨-, -, h3⟩ := moreStmts_zip h
  intro p hp st hst
  rcases List.mem_cons.1 hp with rfl | hp
  · exact hst
  · simp only [sOld, sNew, toSEntry, List.mem_map] at hst ⊢
    obtain ⟨x, hx, rfl⟩ := hst
    exact ⟨x, (h3 p hp).stmts x hx, rfl⟩

/-- the modules of the tree do not depend on the statements -/
theorem scanModules_more {es es' : List Entry} (h : MoreStmts es es') (excl : Str → Bool) (base : Str) (root : Comp)
    (mp : List Comp) :
    scanModules root (toSEntries excl base es) mp = scanModules root (toSEntries excl base es') mp := by
  rw [toSEntries_old h, toSEntries_new h]
  exact AstScan.scanModules_congr (sOld excl base) (sNew excl base) _ root mp (fun _ => rfl) (fun _ => rfl) (fun _ => rfl) (fun _ => rfl) (fun _ => rfl)

/-- the specification's imports are monotone in the statements (and an answer for the larger tree implies one for the
    smaller) -/
theorem scanImports_more {es es' : List Entry} (h : MoreStmts es es') (excl : Str → Bool) (base : Str) (root : Comp)
    (mp : List Comp) (is' : List (Name × Name)) (h2 : scanImports root (toSEntries excl base es') mp = some is') :
    ∃ is, scanImports root (toSEntries excl base es) mp = some is ∧ ∀ e ∈ is, e ∈ is' := by
  rw [toSEntries_new h] at h2
  rw [toSEntries_old h]
  exact scanImports_mono (sOld excl base) (sNew excl base) _ root mp (fun _ => rfl) (fun _ => rfl) (fun _ => rfl) (fun _ => rfl) (fun _ => rfl)
    (pairs_stmts h excl base) is' h2

/-! ### 3. the scan, with or without a level limit -/

section scan
variable (mt : Str → Str → Bool) (base root : Str) (mp : List Str) (entries : List Entry) (o : ScanOptions)
  (hwf : treeWFFor (isExcluded mt o.exclusions) base mp entries = true) (hmp : mpOK entries mp = true)
  (hroot : compWF root = true)
  (hxx : o.excludeExternal = true) (hext : o.externalExclusions.isEmpty = true)
  (hst : ∀ e ∈ entries, ∀ st ∈ e.stmts, stmtOK (toSStmt st) = true)

/-- how a scan graph represents an architecture, for either value of the (shifted) level limit -/
def Repr (a : Arch) (lim : Option Nat) (mpLen : Nat) (g : PGraph Str) : Prop :=
  match lim with
  | none => GraphOf a g
  | some k => QuotientOf a (some (k + mpLen)) g

include hwf hmp hroot hxx hext hst in
/-- C04 ∘ C02 (∘ C09) as a dichotomy, for ANY level limit: the scan raises a lookup error exactly when the
    specification has no import list, and otherwise its graph represents the specification architecture -/
theorem scan_dichotomy :
    match scanImports root (toSEntries (isExcluded mt o.exclusions) base entries) mp with
    | none => generateGraph mt base root mp entries o = .error .lookupError
    | some is => ∃ g, generateGraph mt base root mp entries o = .ok g ∧
        (Arch.mk (scanModules root (toSEntries (isExcluded mt o.exclusions) base entries) mp) is).wf = true ∧
        Repr (Arch.mk (scanModules root (toSEntries (isExcluded mt o.exclusions) base entries) mp) is)
          o.levelLimit mp.length g := by
  cases his : scanImports root (toSEntries (isExcluded mt o.exclusions) base entries) mp with
  | none =>
    have h := ScanCompose.scan_imports_tree_lemma (mt := mt) (base := base) (root := root) (mp := mp)
      (entries := entries) (o := o.noLimit) hwf hmp hroot hxx rfl hext hst
    have his' : scanImports root (toSEntries (isExcluded mt o.noLimit.exclusions) base entries) mp = none := his
    rw [his'] at h
    exact (ScanLimit.error_indep_lemma mt base root mp entries o _).2 h
  | some is =>
    cases hl : o.levelLimit with
    | none =>
      obtain ⟨g, hg, hawf, hG⟩ := E2ERule.scan_spec_arch_lemma mt base root mp entries o hwf hmp hroot hxx hl hext hst is his
      exact ⟨g, hg, hawf, hG⟩
    | some k =>
      obtain ⟨g, g0, hg, -, hawf, -, hq⟩ := E2EMore.scan_limit_lemma mt base root mp entries o hwf hmp hroot hxx hext hst is his k hl
      exact ⟨g, hg, hawf, hq⟩

end scan

/-- two graphs representing (in the same way) architectures with the same modules, the second with more imports -/
theorem graphLe_of_repr (a a' : Arch) (lim : Option Nat) (n : Nat) (g g' : PGraph Str)
    (hn : a.nodes = a'.nodes) (hi : ∀ e ∈ a.imports, e ∈ a'.imports)
    (hg : Repr a lim n g) (hg' : Repr a' lim n g') : GraphLe g g' := by
  cases lim with
  | none =>
    have hg : GraphOf a g := hg
    have hg' : GraphOf a' g' := hg'
    refine ⟨fun s => ?_, fun s x => ?_, fun s x h => ?_, fun s x h => ?_⟩
    · rw [← BuildGen.hasNode_iff, ← BuildGen.hasNode_iff, hg.nodes, hg'.nodes, hn]
    · rw [hg.hier, hg'.hier, hn]
    · obtain ⟨e, he, h1, h2⟩ := (hg.succs s x).1 h
      exact (hg'.succs s x).2 ⟨e, hi e he, h1, h2⟩
    · obtain ⟨e, he, h1, h2⟩ := (hg.preds s x).1 h
      exact (hg'.preds s x).2 ⟨e, hi e he, h1, h2⟩
  | some k =>
    have hg : QuotientOf a (some (k + n)) g := hg
    have hg' : QuotientOf a' (some (k + n)) g' := hg'
    refine ⟨fun s => ?_, fun s x => ?_, fun s x h => ?_, fun s x h => ?_⟩
    · rw [← BuildGen.hasNode_iff, ← BuildGen.hasNode_iff, hg.nodes, hg'.nodes, hn]
    · rw [hg.hier, hg'.hier, hn]
    · obtain ⟨e, he, h0, h1, h2⟩ := (hg.succs s x).1 h
      exact (hg'.succs s x).2 ⟨e, hi e he, h0, h1, h2⟩
    · obtain ⟨e, he, h0, h1, h2⟩ := (hg.preds s x).1 h
      exact (hg'.preds s x).2 ⟨e, hi e he, h0, h1, h2⟩

section scan2
variable (mt : Str → Str → Bool) (base root : Str) (mp : List Str) (entries entries' : List Entry) (o : ScanOptions)
  (hms : MoreStmts entries entries')
  (hwf : treeWFFor (isExcluded mt o.exclusions) base mp entries = true) (hmp : mpOK entries mp = true)
  (hroot : compWF root = true)
  (hxx : o.excludeExternal = true) (hext : o.externalExclusions.isEmpty = true)
  (hst : ∀ e ∈ entries', ∀ st ∈ e.stmts, stmtOK (toSStmt st) = true)
include hms hwf hmp hroot hxx hext hst

/-- the main lemma: if the scan of the tree with more statements succeeds, so does the scan of the tree with fewer,
    and the two graphs have the same modules and hierarchy, the second at least the imports of the first -/
theorem scan_more_lemma (g' : PGraph Str) (hg' : generateGraph mt base root mp entries' o = .ok g') :
    ∃ g, generateGraph mt base root mp entries o = .ok g ∧ GraphLe g g' := by
  have hwf' : treeWFFor (isExcluded mt o.exclusions) base mp entries' = true := by rw [treeWFFor_more hms]; exact hwf
  have hmp' : mpOK entries' mp = true := by rw [mpOK_more hms]; exact hmp
  have hst0 := moreStmts_stmtOK hms hst
  have d' := scan_dichotomy mt base root mp entries' o hwf' hmp' hroot hxx hext hst
  cases his' : scanImports root (toSEntries (isExcluded mt o.exclusions) base entries') mp with
  | none => rw [his'] at d'; rw [hg'] at d'; cases d'
  | some is' =>
    rw [his'] at d'
    obtain ⟨g'', hg'', -, hR'⟩ := d'
    rw [hg'] at hg''
    cases hg''
    obtain ⟨is, his, hsub⟩ := scanImports_more hms _ base root mp is' his'
    have d := scan_dichotomy mt base root mp entries o hwf hmp hroot hxx hext hst0
    rw [his] at d
    obtain ⟨g, hg, -, hR⟩ := d
    refine ⟨g, hg, graphLe_of_repr _ _ _ _ g g' ?_ hsub hR hR'⟩
    exact scanModules_more hms _ base root mp

/-- the error side: if the scan of the tree with fewer statements raises, the scan of the tree with more raises the
    same error -/
theorem scan_more_error (k : ErrKind) (h : generateGraph mt base root mp entries o = .error k) :
    generateGraph mt base root mp entries' o = .error k := by
  cases hg' : generateGraph mt base root mp entries' o with
  | ok g' =>
    obtain ⟨g, hg, -⟩ := scan_more_lemma mt base root mp entries entries' o hms hwf hmp hroot hxx hext hst g' hg'
    rw [hg] at h; cases h
  | error k' =>
    have hst0 := moreStmts_stmtOK hms hst
    have d := scan_dichotomy mt base root mp entries o hwf hmp hroot hxx hext hst0
    have hwf' : treeWFFor (isExcluded mt o.exclusions) base mp entries' = true := by rw [treeWFFor_more hms]; exact hwf
    have hmp' : mpOK entries' mp = true := by rw [mpOK_more hms]; exact hmp
    have d' := scan_dichotomy mt base root mp entries' o hwf' hmp' hroot hxx hext hst
    cases his : scanImports root (toSEntries (isExcluded mt o.exclusions) base entries) mp with
    | some is => rw [his] at d; obtain ⟨g, hg, -⟩ := d; rw [hg] at h; cases h
    | none =>
      rw [his] at d
      rw [h] at d
      cases d
      cases his' : scanImports root (toSEntries (isExcluded mt o.exclusions) base entries') mp with
      | some is' => rw [his'] at d'; obtain ⟨g, hg, -⟩ := d'; rw [hg] at hg'; cases hg'
      | none => rw [his'] at d'; rw [hg'] at d'; exact d'

end scan2


/-! ### 4. when the added statement makes the scan raise -/

/-- the specification has no targets for a statement exactly when it reaches above the root (whatever the modules) -/
theorem targets_none_iff (mods : List Name) (ap : Option Name) (importer : Name) (st : SStmt) :
    targets mods ap importer st = none ↔ aboveRoot importer st = true := by
  cases st with
  | imp names => simp [targets, aboveRoot]
  | impFrom m names level =>
    cases level with
    | zero => cases m <;> simp [targets, aboveRoot]
    | succ l =>
      simp only [targets, aboveRoot, ge_iff_le, decide_eq_true_eq]
      split <;> simp_all

theorem zip_addStmtAt (es : List Entry) (i k : Nat) (st : ImportStmt) :
    ∀ p ∈ es.zip (addStmtAt es i k st), p.2 = p.1 ∨ (es[i]? = some p.1 ∧ p.2 = p.1.insertStmt k st) := by
  induction es generalizing i with
  | nil => intro p hp; cases hp
  | cons e es ih =>
    intro p hp
    cases i with
    | zero =>
      simp only [addStmtAt, List.zip_cons_cons, List.mem_cons] at hp
      rcases hp with rfl | hp
      · exact .inr ⟨rfl, rfl⟩
      · left
        clear ih
        induction es with
        | nil => cases hp
        | cons x xs ihx =>
          simp only [List.zip_cons_cons, List.mem_cons] at hp
          rcases hp with rfl | hp
          · rfl
          · exact ihx hp
    | succ i =>
      simp only [addStmtAt, List.zip_cons_cons, List.mem_cons] at hp
      rcases hp with rfl | hp
      · exact .inl rfl
      · rcases ih i p hp with h | ⟨h1, h2⟩
        · exact .inl h
        · exact .inr ⟨by simpa using h1, h2⟩

theorem mem_zip_addStmtAt (es : List Entry) (i k : Nat) (st : ImportStmt) (e : Entry) (hi : es[i]? = some e) :
    (e, e.insertStmt k st) ∈ es.zip (addStmtAt es i k st) := by
  induction es generalizing i with
  | nil => simp at hi
  | cons x xs ih =>
    cases i with
    | zero =>
      simp only [List.getElem?_cons_zero, Option.some.injEq] at hi
      subst hi
      simp [addStmtAt]
    | succ i =>
      simp only [List.getElem?_cons_succ] at hi
      simp only [addStmtAt, List.zip_cons_cons, List.mem_cons]
      exact .inr (ih i hi)

/-- the statements of the tree with one more statement are parser-producible if the old ones and the new one are -/
theorem addStmtAt_stmtOK (entries : List Entry) (i k : Nat) (st : ImportStmt)
    (hst : ∀ e ∈ entries, ∀ s ∈ e.stmts, stmtOK (toSStmt s) = true) (hnew : stmtOK (toSStmt st) = true) :
    ∀ x ∈ addStmtAt entries i k st, ∀ s ∈ x.stmts, stmtOK (toSStmt s) = true := by
  have hms := addStmtAt_more entries i k st
  intro x hx s hs
  obtain ⟨h1, h2, -⟩ := moreStmts_zip hms
  rw [← h2] at hx
  obtain ⟨p, hp, rfl⟩ := List.mem_map.1 hx
  have hp1 : p.1 ∈ entries := by rw [← h1]; exact List.mem_map_of_mem hp
  rcases zip_addStmtAt entries i k st p hp with h | ⟨-, h⟩
  · rw [h] at hs; exact hst _ hp1 s hs
  · rw [h] at hs
    rcases List.mem_append.1 hs with hs | hs
    · exact hst _ hp1 s (List.mem_of_mem_take hs)
    · rcases List.mem_cons.1 hs with rfl | hs
      · exact hnew
      · exact hst _ hp1 s (List.mem_of_mem_drop hs)

section err
open AstScan ScanImports
variable (mt : Str → Str → Bool) (base root : Str) (mp : List Str) (entries : List Entry) (o : ScanOptions)
  (hwf : treeWFFor (isExcluded mt o.exclusions) base mp entries = true) (hmp : mpOK entries mp = true)
  (hroot : compWF root = true)
  (hxx : o.excludeExternal = true) (hext : o.externalExclusions.isEmpty = true)
  (hst : ∀ e ∈ entries, ∀ st ∈ e.stmts, stmtOK (toSStmt st) = true)

include hwf hmp hroot hxx hext hst in
/-- the scan raises (a lookup error, nothing else) exactly when some statement of some surviving file has no target -/
theorem scan_error_iff_bad :
    (generateGraph mt base root mp entries o = .error .lookupError ↔
      Bad root (toSEntries (isExcluded mt o.exclusions) base entries) mp) ∧
    ∀ k, generateGraph mt base root mp entries o = .error k → k = .lookupError := by
  have d := scan_dichotomy mt base root mp entries o hwf hmp hroot hxx hext hst
  by_cases hb : Bad root (toSEntries (isExcluded mt o.exclusions) base entries) mp
  · rw [scanImports_bad hb] at d
    refine ⟨⟨fun _ => hb, fun _ => d⟩, fun k hk => ?_⟩
    rw [d] at hk; cases hk; rfl
  · obtain ⟨is, his, -⟩ := scanImports_good hb
    rw [his] at d
    obtain ⟨g, hg, -⟩ := d
    refine ⟨⟨fun h => ?_, fun h => absurd h hb⟩, fun k hk => ?_⟩
    · rw [hg] at h; cases h
    · rw [hg] at hk; cases hk

include hwf hmp hroot hxx hext hst in
/-- adding the statement `st` to the `i`-th entry `e` makes the scan raise exactly when it raised before, or `e` is a
    surviving file and `st` reaches above the root -/
theorem scan_add_error_lemma (i k : Nat) (st : ImportStmt) (e : Entry) (hi : entries[i]? = some e)
    (hnew : stmtOK (toSStmt st) = true) :
    generateGraph mt base root mp (addStmtAt entries i k st) o = .error .lookupError ↔
      generateGraph mt base root mp entries o = .error .lookupError ∨
      (e.isDir = false ∧
        survives (toSEntries (isExcluded mt o.exclusions) base entries) mp (toSEntry (isExcluded mt o.exclusions) base e) = true ∧
        aboveRoot (entryName root (toSEntry (isExcluded mt o.exclusions) base e)) (toSStmt st) = true) := by
  have hms := addStmtAt_more entries i k st
  have hwf' : treeWFFor (isExcluded mt o.exclusions) base mp (addStmtAt entries i k st) = true := by
    rw [treeWFFor_more hms]; exact hwf
  have hmp' : mpOK (addStmtAt entries i k st) mp = true := by rw [mpOK_more hms]; exact hmp
  have hst' := addStmtAt_stmtOK entries i k st hst hnew
  rw [(scan_error_iff_bad mt base root mp _ o hwf' hmp' hroot hxx hext hst').1,
    (scan_error_iff_bad mt base root mp entries o hwf hmp hroot hxx hext hst).1,
    toSEntries_new hms, toSEntries_old hms]
  rw [bad_two, bad_one (sOld (isExcluded mt o.exclusions) base) (sNew (isExcluded mt o.exclusions) base)
    (pairsOf entries (addStmtAt entries i k st)) root mp (fun _ => rfl) (fun _ => rfl) (fun _ => rfl) (fun _ => rfl)
    (fun _ => rfl)]
  have hpe : (e, e.insertStmt k st) ∈ pairsOf entries (addStmtAt entries i k st) :=
    List.mem_cons_of_mem _ (mem_zip_addStmtAt entries i k st e hi)
  have hsv : ∀ p : Entry × Entry,
      survives ((pairsOf entries (addStmtAt entries i k st)).map (sOld (isExcluded mt o.exclusions) base)) mp
        (sOld (isExcluded mt o.exclusions) base p) =
      survives ((pairsOf entries (addStmtAt entries i k st)).map (sNew (isExcluded mt o.exclusions) base)) mp
        (sNew (isExcluded mt o.exclusions) base p) :=
    fun p => survives_congr (sOld (isExcluded mt o.exclusions) base) (sNew (isExcluded mt o.exclusions) base) _ mp (fun _ => rfl) (fun _ => rfl) (fun _ => rfl) (fun _ => rfl) p
  constructor
  · rintro ⟨p, hp, hd, hs, st', hst', ht⟩
    have hcase : p.2 = p.1 ∨ (entries[i]? = some p.1 ∧ p.2 = p.1.insertStmt k st) := by
      rcases List.mem_cons.1 hp with rfl | hp
      · exact .inl rfl
      · exact zip_addStmtAt entries i k st p hp
    rcases hcase with h | ⟨h1, h2⟩
    · left
      refine ⟨p, hp, hd, hs, st', ?_, ht⟩
      simp only [sNew, sOld, toSEntry, h] at hst' ⊢
      exact hst'
    · rw [hi, Option.some.injEq] at h1
      simp only [sNew, toSEntry, h2, Entry.insertStmt, List.map_append, List.map_cons, List.mem_append,
        List.mem_cons, List.mem_map] at hst'
      rcases hst' with ⟨x, hx, rfl⟩ | rfl | ⟨x, hx, rfl⟩
      · left
        exact ⟨p, hp, hd, hs, _, List.mem_map.2 ⟨x, List.mem_of_mem_take hx, rfl⟩, ht⟩
      · right
        subst h1
        refine ⟨hd, ?_, (targets_none_iff _ _ _ _).1 ht⟩
        have := hsv p
        rw [hs] at this
        exact this
      · left
        exact ⟨p, hp, hd, hs, _, List.mem_map.2 ⟨x, List.mem_of_mem_drop hx, rfl⟩, ht⟩
  · rintro (⟨p, hp, hd, hs, st', hst', ht⟩ | ⟨hd, hs, ha⟩)
    · exact ⟨p, hp, hd, hs, st', pairs_stmts hms _ base p hp st' hst', ht⟩
    · refine ⟨(e, e.insertStmt k st), hpe, hd, ?_, toSStmt st, ?_, (targets_none_iff _ _ _ _).2 ha⟩
      · rw [← hsv]; exact hs
      · simp only [sNew, toSEntry, Entry.insertStmt, List.map_append, List.map_cons, List.mem_append, List.mem_cons]
        exact .inr (.inl trivial)

end err

end Pta.ScanMono
