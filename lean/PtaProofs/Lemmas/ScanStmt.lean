/-
  PtaProofs.Lemmas.ScanStmt — one import statement: `convertStmt` (ImportConverter._convert) names exactly the
  modules the specification's `targets` names (property C02, statement level).
-/
import Bridge.ScanAbs
import PtaProofs.Lemmas.Render
import PtaProofs.Lemmas.BuildNames
namespace Pta
namespace ScanStmt
open PtaSpec

/-! ### `split` / `join` round trip (no side conditions) -/

theorem joinDots_splitDots (s : Str) : joinDots (splitDots s) = s := by
  induction s with
  | nil => rfl
  | cons c cs ih =>
    cases h : splitDots cs with
    | nil => exact absurd h (splitDots_ne_nil cs)
    | cons a t =>
      rw [h] at ih
      simp only [splitDots, h]
      by_cases hc : c = '.'
      · simp only [hc, if_true]
        rw [joinDots_cons_cons, ih]; rfl
      · simp only [hc, if_false]
        cases t with
        | nil => simp only [joinDots] at ih ⊢; rw [ih]
        | cons b t' =>
          rw [joinDots_cons_cons] at ih ⊢
          rw [← ih]; rfl

theorem render_splitDots (s : Str) : render (splitDots s) = s := joinDots_splitDots s

theorem toStmt_toSStmt (st : ImportStmt) : toStmt (toSStmt st) = st := by
  cases st with
  | imp names =>
    simp only [toSStmt, toStmt, List.map_map]
    congr 1
    conv => rhs; rw [← List.map_id names]
    apply List.map_congr_left
    intro x _; exact render_splitDots x
  | impFrom m names lvl =>
    cases m with
    | none => rfl
    | some p => simp only [toSStmt, toStmt, Option.map_some, render_splitDots]

/-! ### well-formedness -/

theorem nameWF_append {a b : Name} (ha : nameWF a = true) (hb : nameWF b = true) : nameWF (a ++ b) = true := by
  rw [nameWF_iff] at ha hb ⊢
  refine ⟨by simp [ha.1], ?_⟩
  intro c hc
  rcases List.mem_append.1 hc with h | h
  · exact ha.2 c h
  · exact hb.2 c h

theorem nameWF_singleton {c : Comp} (h : compWF c = true) : nameWF [c] = true := by
  simp [nameWF, h]

theorem nameWF_append_singleton {a : Name} {c : Comp} (ha : nameWF a = true) (hc : compWF c = true) :
    nameWF (a ++ [c]) = true := nameWF_append ha (nameWF_singleton hc)

/-- a rendered well-formed name never starts with a dot -/
theorem render_ne_dot_cons (n : Name) (h : nameWF n = true) (t : Str) : render n ≠ '.' :: t := by
  obtain ⟨hne, hc⟩ := (nameWF_iff n).1 h
  cases n with
  | nil => exact absurd rfl hne
  | cons x r =>
    obtain ⟨hx, hd⟩ := hc x (by simp)
    cases x with
    | nil => exact absurd rfl hx
    | cons c x' =>
      have hcd : c ≠ '.' := by intro e; apply hd; simp [e]
      cases r with
      | nil =>
        intro e
        simp only [render, joinDots, List.cons.injEq] at e
        exact hcd e.1
      | cons y r' =>
        intro e
        simp only [render, joinDots, List.cons_append, List.cons.injEq] at e
        exact hcd e.1

/-! ### the list of internal module strings against the specification's module list -/

/-- `internal` is (as a set) the rendering of the well-formed names `mods` -/
structure Ctx (mods : List Name) (internal : List Str) : Prop where
  wf : ∀ m ∈ mods, nameWF m = true
  mem : ∀ s, s ∈ internal ↔ ∃ n ∈ mods, s = render n

theorem Ctx.of_map (mods : List Name) (wf : ∀ m ∈ mods, nameWF m = true) : Ctx mods (mods.map render) :=
  ⟨wf, fun s => by
    simp only [List.mem_map]
    constructor
    · rintro ⟨n, hn, rfl⟩; exact ⟨n, hn, rfl⟩
    · rintro ⟨n, hn, rfl⟩; exact ⟨n, hn, rfl⟩⟩

theorem Ctx.contains_render {mods : List Name} {internal : List Str} (h : Ctx mods internal) (y : Name)
    (hy : nameWF y = true) : internal.contains (render y) = mods.contains y := by
  rw [Bool.eq_iff_iff, List.contains_iff_mem, List.contains_iff_mem, h.mem]
  constructor
  · rintro ⟨n, hn, e⟩
    rw [render_injective y n hy (h.wf n hn) e]; exact hn
  · intro hm; exact ⟨y, hm, rfl⟩

theorem Ctx.not_dot {mods : List Name} {internal : List Str} (h : Ctx mods internal) (t : Str) :
    internal.contains ('.' :: t) = false := by
  rw [Bool.eq_false_iff]
  intro hc
  rw [List.contains_iff_mem, h.mem] at hc
  obtain ⟨n, hn, e⟩ := hc
  exact render_ne_dot_cons n (h.wf n hn) t e.symm

/-! ### `_adjust_with_root_prefix` -/

theorem qualify_wf (mods : List Name) (ap : Option Name) (hap : ∀ p, ap = some p → nameWF p = true) (n : Name)
    (hn : nameWF n = true) : nameWF (targets.qualify mods ap n) = true := by
  unfold targets.qualify
  cases ap with
  | none => exact hn
  | some p =>
    simp only
    split
    · exact nameWF_append (hap p rfl) hn
    · exact hn

theorem adjust_spec {mods : List Name} {internal : List Str} (h : Ctx mods internal) (ap : Option Name)
    (hap : ∀ p, ap = some p → nameWF p = true) (n : Name) (hn : nameWF n = true) :
    adjustWithRootPrefix (render n) (renderPrefix ap) internal = render (targets.qualify mods ap n) := by
  unfold adjustWithRootPrefix targets.qualify
  cases ap with
  | none =>
    simp only [renderPrefix, List.nil_append, h.not_dot, Bool.false_eq_true, if_false]
  | some p =>
    have hp := hap p rfl
    have e : render p ++ '.' :: render n = render (p ++ n) :=
      (render_append p n (nameWF_ne_nil hp) (nameWF_ne_nil hn)).symm
    simp only [renderPrefix, e, h.contains_render _ (nameWF_append hp hn)]
    split <;> rfl

/-! ### `RelativeImport._calculate_importee` -/

theorem properPrefixes_length (n : Name) : (properPrefixes n).length = n.length - 1 := by
  cases n with
  | nil => rfl
  | cons x l => simp [properPrefixes_cons]

theorem properPrefixes_getElem? (n : Name) (k : Nat) (hk : k + 1 < n.length) :
    (properPrefixes n)[k]? = some (n.take (k + 1)) := by
  cases n with
  | nil => simp at hk
  | cons x l =>
    simp only [List.length_cons] at hk
    rw [properPrefixes_cons, List.getElem?_map, List.getElem?_range (by omega)]
    rfl

/-- a relative target: the importer's ancestor `level` steps up, or IndexError when there is none -/
theorem relativeImportee_spec (imp : Name) (himp : nameWF imp = true) (name : Str) (l : Nat) :
    relativeImportee (render imp) name (l + 1) =
      if l + 1 ≥ imp.length then .error .lookupError
      else .ok (render (imp.take (imp.length - (l + 1))) ++ '.' :: name) := by
  unfold relativeImportee
  simp only [parentModules_render imp himp, List.length_map, properPrefixes_length]
  by_cases hl : l + 1 ≥ imp.length
  · have : (l + 1 == 0 || decide (l + 1 > imp.length - 1)) = true := by
      simp only [Bool.or_eq_true, decide_eq_true_eq]; right; omega
    simp only [this, if_true, hl]
  · have : (l + 1 == 0 || decide (l + 1 > imp.length - 1)) = false := by
      simp only [Bool.or_eq_false_iff, decide_eq_false_iff_not]
      exact ⟨by simp, by omega⟩
    simp only [this, Bool.false_eq_true, if_false, hl, List.getElem?_map]
    rw [properPrefixes_getElem? imp _ (by omega)]
    have : imp.length - 1 - (l + 1) + 1 = imp.length - (l + 1) := by omega
    simp only [Option.map_some, this]

/-! ### `mapM` in `Except` -/

theorem mapM_ok {α β ε : Type} (f : α → Except ε β) (g : α → β) :
    ∀ (l : List α), (∀ x ∈ l, f x = .ok (g x)) → l.mapM f = .ok (l.map g)
  | [], _ => rfl
  | a :: l, h => by
    rw [List.mapM_cons, h a List.mem_cons_self, mapM_ok f g l (fun x hx => h x (List.mem_cons_of_mem _ hx))]
    rfl

theorem mapM_error_head {α β ε : Type} (f : α → Except ε β) (a : α) (l : List α) (e : ε) (h : f a = .error e) :
    (a :: l).mapM f = .error e := by
  rw [List.mapM_cons, h]; rfl

/-! ### the statement -/

/-- the import records a list of targets stands for -/
def recsOf (imp : Name) (ts : List Name) : List ImportRec := ts.map fun t => absImport (render imp) (render t)

/-- every name `targets` produces is well-formed -/
theorem targets_wf (mods : List Name) (ap : Option Name) (hap : ∀ p, ap = some p → nameWF p = true)
    (imp : Name) (himp : nameWF imp = true) (ss : SStmt) (hss : stmtOK ss = true) (ts : List Name)
    (h : targets mods ap imp ss = some ts) : ∀ t ∈ ts, nameWF t = true := by
  cases ss with
  | imp names =>
    simp only [targets, Option.some.injEq] at h
    subst h
    simp only [stmtOK, List.all_eq_true] at hss
    intro t ht
    obtain ⟨n, hn, rfl⟩ := List.mem_map.1 ht
    exact qualify_wf mods ap hap n (hss n hn)
  | impFrom m names lvl =>
    cases lvl with
    | zero =>
      cases m with
      | none => simp [targets] at h
      | some p =>
        simp only [targets, Option.some.injEq] at h
        subst h
        simp only [stmtOK, Bool.and_eq_true, List.all_eq_true] at hss
        intro t ht
        obtain ⟨n, hn, rfl⟩ := List.mem_map.1 ht
        split
        · exact qualify_wf mods ap hap _ (nameWF_append_singleton hss.1 (hss.2 n hn))
        · exact qualify_wf mods ap hap _ hss.1
    | succ l =>
      simp only [targets] at h
      split at h
      · cases h
      · rename_i hl
        simp only [Option.some.injEq] at h
        subst h
        have hbase : nameWF (imp.take (imp.length - (l + 1))) = true :=
          BuildNames.nameWF_take imp himp _ (by omega)
        simp only [stmtOK, Bool.and_eq_true, List.all_eq_true] at hss
        intro t ht
        obtain ⟨n, hn, rfl⟩ := List.mem_map.1 ht
        cases m with
        | none => exact nameWF_append_singleton hbase (hss.1.2 n hn)
        | some p =>
          simp only
          split
          · exact nameWF_append_singleton (nameWF_append hbase hss.1.1) (hss.1.2 n hn)
          · exact nameWF_append hbase hss.1.1

/-- `ImportConverter._convert` on one statement = the specification's `targets`, record by record -/
theorem convertStmt_targets {mods : List Name} {internal : List Str} (hc : Ctx mods internal) (ap : Option Name)
    (hap : ∀ p, ap = some p → nameWF p = true) (imp : Name) (himp : nameWF imp = true) (ss : SStmt)
    (hss : stmtOK ss = true) :
    convertStmt (render imp) (renderPrefix ap) internal (toStmt ss) =
      match targets mods ap imp ss with
      | some ts => .ok (recsOf imp ts)
      | none => .error .lookupError := by
  cases ss with
  | imp names =>
    simp only [stmtOK, List.all_eq_true] at hss
    simp only [toStmt, convertStmt, targets, recsOf, List.map_map]
    congr 1
    apply List.map_congr_left
    intro n hn
    simp only [Function.comp]
    rw [adjust_spec hc ap hap n (hss n hn)]
  | impFrom m names lvl =>
    cases lvl with
    | zero =>
      cases m with
      | none => simp only [toStmt, Option.map_none, convertStmt, targets]
      | some p =>
        simp only [stmtOK, Bool.and_eq_true, List.all_eq_true] at hss
        simp only [toStmt, Option.map_some, convertStmt, targets, recsOf, List.map_map]
        congr 1
        apply List.map_congr_left
        intro n hn
        have hpn : nameWF (p ++ [n]) = true := nameWF_append_singleton hss.1 (hss.2 n hn)
        have e1 : render p ++ '.' :: n = render (p ++ [n]) := by
          rw [render_append p [n] (nameWF_ne_nil hss.1) (by simp)]; rfl
        simp only [Function.comp, e1]
        rw [adjust_spec hc ap hap _ hpn, adjust_spec hc ap hap _ hss.1,
          hc.contains_render _ (qualify_wf mods ap hap _ hpn)]
        split <;> rfl
    | succ l =>
      simp only [stmtOK, Bool.and_eq_true, List.all_eq_true, Bool.not_eq_true', List.isEmpty_eq_false_iff] at hss
      obtain ⟨⟨hm, hnames⟩, hne⟩ := hss
      simp only [toStmt, convertStmt, targets]
      by_cases hl : l + 1 ≥ imp.length
      · simp only [hl, if_true]
        obtain ⟨n, rest, rfl⟩ := List.exists_cons_of_ne_nil hne
        apply mapM_error_head
        simp only [relativeImportee_spec imp himp, hl, if_true]
        rfl
      · simp only [hl, if_false, recsOf, List.map_map]
        have hbase : nameWF (imp.take (imp.length - (l + 1))) = true :=
          BuildNames.nameWF_take imp himp _ (by omega)
        apply mapM_ok
        intro n hn
        have hcn := hnames n hn
        simp only [relativeImportee_spec imp himp, hl, if_false]
        cases m with
        | none =>
          simp only [Option.map_none, Function.comp]
          rw [render_append _ [n] (nameWF_ne_nil hbase) (by simp)]
          rfl
        | some p =>
          have hp : nameWF p = true := hm
          have e1 : render (imp.take (imp.length - (l + 1))) ++ '.' :: render p =
              render (imp.take (imp.length - (l + 1)) ++ p) :=
            (render_append _ p (nameWF_ne_nil hbase) (nameWF_ne_nil hp)).symm
          have e2 : render (imp.take (imp.length - (l + 1))) ++ '.' :: (render p ++ '.' :: n) =
              render (imp.take (imp.length - (l + 1)) ++ p ++ [n]) := by
            rw [render_append _ [n] (by simp [nameWF_ne_nil hbase]) (by simp), e1.symm]
            simp [render_singleton]
          simp only [Option.map_some, Function.comp, e1, e2]
          have hw : nameWF (imp.take (imp.length - (l + 1)) ++ p ++ [n]) = true :=
            nameWF_append_singleton (nameWF_append hbase hp) hcn
          simp only [bind, Except.bind, pure, Except.pure, hc.contains_render _ hw]
          split <;> rfl

/-! ### the property-level formulation (model statements) -/

theorem recsOf_facts (imp : Name) (ts : List Name) :
    (recsOf imp ts).map (·.importee) = ts.map render ∧
    ∀ r ∈ recsOf imp ts, r.importer = render imp ∧ r.importeeParents = parentModules r.importee := by
  constructor
  · simp only [recsOf, List.map_map]
    apply List.map_congr_left
    intro t _; rfl
  · intro r hr
    obtain ⟨t, -, rfl⟩ := List.mem_map.1 hr
    exact ⟨rfl, rfl⟩

theorem convertStmt_spec_lemma {mods : List Name} {internal : List Str}
    (hmods : ∀ m ∈ mods, nameWF m = true) (hint : ∀ s, s ∈ internal ↔ ∃ n ∈ mods, s = render n)
    (ap : Option Name) (hap : ∀ p, ap = some p → nameWF p = true) (imp : Name) (himp : nameWF imp = true)
    (st : ImportStmt) (hst : stmtOK (toSStmt st) = true) :
    match targets mods ap imp (toSStmt st) with
    | some ts => ∃ recs, convertStmt (render imp) (renderPrefix ap) internal st = .ok recs ∧
        recs.map (·.importee) = ts.map render ∧
        (∀ r ∈ recs, r.importer = render imp ∧ r.importeeParents = parentModules r.importee) ∧
        ∀ t ∈ ts, nameWF t = true
    | none => convertStmt (render imp) (renderPrefix ap) internal st = .error .lookupError := by
  have h := convertStmt_targets ⟨hmods, hint⟩ ap hap imp himp (toSStmt st) hst
  rw [toStmt_toSStmt] at h
  cases ht : targets mods ap imp (toSStmt st) with
  | none => rw [ht] at h; exact h
  | some ts =>
    rw [ht] at h
    exact ⟨_, h, (recsOf_facts imp ts).1, (recsOf_facts imp ts).2, targets_wf mods ap hap imp himp _ hst ts ht⟩

theorem convertStmt_error_iff_lemma {mods : List Name} {internal : List Str}
    (hmods : ∀ m ∈ mods, nameWF m = true) (hint : ∀ s, s ∈ internal ↔ ∃ n ∈ mods, s = render n)
    (ap : Option Name) (hap : ∀ p, ap = some p → nameWF p = true) (imp : Name) (himp : nameWF imp = true)
    (st : ImportStmt) (hst : stmtOK (toSStmt st) = true) :
    (∃ k, convertStmt (render imp) (renderPrefix ap) internal st = .error k) ↔
      targets mods ap imp (toSStmt st) = none := by
  have h := convertStmt_targets ⟨hmods, hint⟩ ap hap imp himp (toSStmt st) hst
  rw [toStmt_toSStmt] at h
  cases ht : targets mods ap imp (toSStmt st) with
  | none => rw [ht] at h; simp [h]
  | some ts => rw [ht] at h; simp [h]

/-- `stmtOK` is `stmtWF` (Bridge.Abs) plus "a relative `from` import lists a name" -/
theorem stmtOK_stmtWF (ss : SStmt) (h : stmtOK ss = true) : stmtWF ss = true := by
  cases ss with
  | imp names => exact h
  | impFrom m names lvl =>
    cases lvl with
    | zero => exact h
    | succ l =>
      simp only [stmtOK, Bool.and_eq_true] at h
      simp only [stmtWF, Bool.and_eq_true]
      exact h.1

end ScanStmt
end Pta
