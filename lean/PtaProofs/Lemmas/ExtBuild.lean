/-
  PtaProofs.Lemmas.ExtBuild — what `buildGraph mods imps lim` contains for ARBITRARY module strings and imports
  (no architecture, no well-formedness), provided every importer's flattened name is among the nodes created for
  `mods` and every import carries `importeeParents = parentModules importee` (true of all `absImport`s).

  Unlike `BuildGen` (legal calls only append) this handles overwriting: an import edge written onto an
  immediate-parent pair is overwritten by the hierarchy edge within the same `addImport`.  The edge state is read
  through `eflag g a b` (the flag of the first edge a→b), for which `createEdge` is a functional update.

  Since the repair of the level-limit defect (`_is_import_between_known_modules`) an import produces an import edge
  only if `skipImportEdge lim (knownModules mods) i = false`: always without a limit (`skipImportEdge_none`), with a
  limit iff importer and importee are known modules (`skipImportEdge_some`), i.e. nodes of the graph built without
  a limit (`mem_knownModules_iff_nodeOf`).
-/
import Bridge.Abs
import PtaProofs.Lemmas.BuildGen
import PtaProofs.Lemmas.ExtNames
namespace Pta
namespace ExtBuild
open ExtNames BuildGen

/-! ### `setEdge` (generic) -/

section
variable {α : Type} [DecidableEq α]

theorem find_map_set (l : List (Edge α)) (s e : α) (inh : Bool) (a b : α) :
    (l.map (fun x => if x.src == s && x.dst == e then (⟨s, e, inh⟩ : Edge α) else x)).find?
        (fun x => x.src == a && x.dst == b) =
      if a = s ∧ b = e then
        (if (l.find? (fun x => x.src == s && x.dst == e)).isSome then some ⟨s, e, inh⟩ else none)
      else l.find? (fun x => x.src == a && x.dst == b) := by
  induction l with
  | nil => simp
  | cons y l ih =>
    simp only [List.map_cons, List.find?_cons]
    by_cases hab : a = s ∧ b = e
    · obtain ⟨rfl, rfl⟩ := hab
      simp only [and_self, if_true] at ih ⊢
      by_cases hy : (y.src == a && y.dst == b) = true
      · simp [hy]
      · simp only [hy, Bool.false_eq_true, if_false]
        rw [ih]
    · simp only [hab, if_false] at ih ⊢
      by_cases hy : (y.src == s && y.dst == e) = true
      · have h1 : (s == a && e == b) = false := by
          rw [Bool.eq_false_iff]
          simp only [ne_eq, Bool.and_eq_true, beq_iff_eq]
          rintro ⟨rfl, rfl⟩; exact hab ⟨rfl, rfl⟩
        have h2 : (y.src == a && y.dst == b) = false := by
          simp only [Bool.and_eq_true, beq_iff_eq] at hy
          rw [hy.1, hy.2]; exact h1
        simp only [hy, if_true, h1, h2]
        exact ih
      · simp only [hy, Bool.false_eq_true, if_false]
        rw [ih]

theorem findEdge_some {g : PGraph α} {a b : α} {x : Edge α} (h : g.findEdge a b = some x) :
    x ∈ g.edges ∧ x.src = a ∧ x.dst = b := by
  unfold PGraph.findEdge at h
  have h1 := List.mem_of_find?_eq_some h
  have h2 := List.find?_some h
  simp only [Bool.and_eq_true, beq_iff_eq] at h2
  exact ⟨h1, h2⟩

theorem setEdge_find (g : PGraph α) (s e : α) (inh : Bool) (a b : α) :
    (g.setEdge s e inh).findEdge a b = if a = s ∧ b = e then some ⟨s, e, inh⟩ else g.findEdge a b := by
  unfold PGraph.setEdge PGraph.hasEdge
  by_cases hh : (g.findEdge s e).isSome = true
  · simp only [hh, if_true]
    unfold PGraph.findEdge at hh ⊢
    simp only
    rw [find_map_set]
    simp [hh]
  · simp only [hh, Bool.false_eq_true, if_false]
    have hn : g.findEdge s e = none := by simpa using hh
    unfold PGraph.findEdge at hn ⊢
    simp only [List.find?_append]
    by_cases hab : a = s ∧ b = e
    · obtain ⟨rfl, rfl⟩ := hab
      simp [hn]
    · simp only [hab, if_false]
      have h1 : (s == a && e == b) = false := by
        rw [Bool.eq_false_iff]
        simp only [ne_eq, Bool.and_eq_true, beq_iff_eq]
        rintro ⟨rfl, rfl⟩; exact hab ⟨rfl, rfl⟩
      simp [h1]

theorem setEdge_mem_sub (g : PGraph α) (s e : α) (inh : Bool) (y : Edge α)
    (hy : y ∈ (g.setEdge s e inh).edges) :
    y = ⟨s, e, inh⟩ ∨ (y ∈ g.edges ∧ ¬ (y.src = s ∧ y.dst = e)) := by
  unfold PGraph.setEdge PGraph.hasEdge at hy
  by_cases hh : (g.findEdge s e).isSome = true
  · simp only [hh, if_true, List.mem_map] at hy
    obtain ⟨x, hx, rfl⟩ := hy
    by_cases hm : (x.src == s && x.dst == e) = true
    · left; simp only [hm, if_true]
    · right
      simp only [hm, Bool.false_eq_true, if_false]
      exact ⟨hx, by simpa [Bool.and_eq_true, beq_iff_eq] using hm⟩
  · simp only [hh, Bool.false_eq_true, if_false, List.mem_append, List.mem_singleton] at hy
    rcases hy with hy | hy
    · right
      refine ⟨hy, ?_⟩
      have hn : g.findEdge s e = none := by simpa using hh
      unfold PGraph.findEdge at hn
      have := List.find?_eq_none.1 hn y hy
      simpa [Bool.and_eq_true, beq_iff_eq] using this
    · exact Or.inl hy

end

/-! ### the edge state as a partial map -/

/-- the flag of the (first) edge `a → b` -/
def eflag (g : PGraph Str) (a b : Str) : Option Bool := (g.findEdge a b).map (·.inh)

/-- every edge of the list is the first one with its end points (no second record for a pair) -/
def U (g : PGraph Str) : Prop := ∀ x ∈ g.edges, g.findEdge x.src x.dst = some x

theorem mem_iff_eflag {g : PGraph Str} (hU : U g) (a b : Str) (i : Bool) :
    (⟨a, b, i⟩ : Edge Str) ∈ g.edges ↔ eflag g a b = some i := by
  unfold eflag
  constructor
  · intro h
    rw [hU _ h]
    rfl
  · intro h
    cases hf : g.findEdge a b with
    | none => rw [hf] at h; cases h
    | some x =>
      rw [hf] at h
      obtain ⟨hm, h1, h2⟩ := findEdge_some hf
      obtain ⟨xs, xd, xi⟩ := x
      simp only [Option.map_some, Option.some.injEq] at h h1 h2
      subst h h1 h2
      exact hm

theorem eflag_congr {g g' : PGraph Str} (h : g'.edges = g.edges) (a b : Str) : eflag g' a b = eflag g a b := by
  unfold eflag PGraph.findEdge; rw [h]

theorem U_congr {g g' : PGraph Str} (h : g'.edges = g.edges) (hU : U g) : U g' := by
  unfold U PGraph.findEdge at *; rw [h]; exact hU

theorem setEdge_U (g : PGraph Str) (s e : Str) (inh : Bool) (hU : U g) : U (g.setEdge s e inh) := by
  intro y hy
  rw [setEdge_find]
  rcases setEdge_mem_sub g s e inh y hy with rfl | ⟨hm, hne⟩
  · simp
  · simp only [hne, if_false]
    exact hU y hm

theorem setEdge_nodes (g : PGraph Str) (s e : Str) (inh : Bool) : (g.setEdge s e inh).nodes = g.nodes := by
  unfold PGraph.setEdge; split <;> rfl

/-! ### `createEdge` as a functional update -/

/-- the condition under which `createEdge` writes -/
def writes (lim : Option Nat) (g : PGraph Str) (s e : Str) : Prop :=
  flattenNode lim s ≠ flattenNode lim e ∧ flattenNode lim s ∈ g.nodes ∧ flattenNode lim e ∈ g.nodes

theorem createEdge_cases (lim : Option Nat) (g : PGraph Str) (s e : Str) (inh : Bool) :
    (¬ writes lim g s e ∧ createEdge lim g s e inh = g) ∨
    (writes lim g s e ∧ g.findEdge (flattenNode lim s) (flattenNode lim e) = some ⟨flattenNode lim s, flattenNode lim e, inh⟩ ∧
      createEdge lim g s e inh = g) ∨
    (writes lim g s e ∧ createEdge lim g s e inh = g.setEdge (flattenNode lim s) (flattenNode lim e) inh) := by
  unfold createEdge writes
  simp only
  generalize flattenNode lim s = s'
  generalize flattenNode lim e = e'
  by_cases hse : s' = e'
  · left; simp [hse]
  · by_cases hn : (g.hasNode s' && g.hasNode e') = true
    · have hn' : s' ∈ g.nodes ∧ e' ∈ g.nodes := by simpa [Bool.and_eq_true, hasNode_iff] using hn
      right
      simp only [beq_iff_eq, hse, if_false, hn, if_true]
      cases hf : g.findEdge s' e' with
      | none => right; exact ⟨⟨hse, hn'⟩, rfl⟩
      | some x =>
        simp only
        by_cases hx : x.inh = inh
        · left
          simp only [hx, if_true]
          obtain ⟨-, h1, h2⟩ := findEdge_some hf
          obtain ⟨xs, xd, xi⟩ := x
          simp only at hx h1 h2
          subst hx h1 h2
          exact ⟨⟨hse, hn'⟩, rfl, trivial⟩
        · right
          simp only [hx, if_false]
          exact ⟨⟨hse, hn'⟩, trivial⟩
    · left
      have hn' : ¬ (s' ∈ g.nodes ∧ e' ∈ g.nodes) := by simpa [Bool.and_eq_true, hasNode_iff] using hn
      simp only [beq_iff_eq, hse, if_false, hn, Bool.false_eq_true]
      exact ⟨fun h => hn' h.2, trivial⟩

theorem createEdge_find (lim : Option Nat) (g : PGraph Str) (s e : Str) (inh : Bool) (a b : Str) :
    (writes lim g s e ∧ a = flattenNode lim s ∧ b = flattenNode lim e →
      (createEdge lim g s e inh).findEdge a b = some ⟨flattenNode lim s, flattenNode lim e, inh⟩) ∧
    (¬ (writes lim g s e ∧ a = flattenNode lim s ∧ b = flattenNode lim e) →
      (createEdge lim g s e inh).findEdge a b = g.findEdge a b) := by
  rcases createEdge_cases lim g s e inh with ⟨hw, h⟩ | ⟨hw, hf, h⟩ | ⟨hw, h⟩
  · rw [h]
    exact ⟨fun h' => absurd h'.1 hw, fun _ => rfl⟩
  · rw [h]
    refine ⟨?_, fun _ => rfl⟩
    rintro ⟨-, rfl, rfl⟩
    exact hf
  · rw [h, setEdge_find]
    constructor
    · rintro ⟨-, rfl, rfl⟩; simp
    · intro hn
      have : ¬ (a = flattenNode lim s ∧ b = flattenNode lim e) := fun h' => hn ⟨hw, h'⟩
      simp only [this, if_false]

theorem createEdge_U (lim : Option Nat) (g : PGraph Str) (s e : Str) (inh : Bool) (hU : U g) :
    U (createEdge lim g s e inh) := by
  rcases createEdge_cases lim g s e inh with ⟨-, h⟩ | ⟨-, -, h⟩ | ⟨-, h⟩
  · rw [h]; exact hU
  · rw [h]; exact hU
  · rw [h]; exact setEdge_U g _ _ inh hU

theorem createEdge_eflag (lim : Option Nat) (g : PGraph Str) (s e : Str) (inh : Bool) (a b : Str) :
    (writes lim g s e ∧ a = flattenNode lim s ∧ b = flattenNode lim e → eflag (createEdge lim g s e inh) a b = some inh) ∧
    (¬ (writes lim g s e ∧ a = flattenNode lim s ∧ b = flattenNode lim e) →
      eflag (createEdge lim g s e inh) a b = eflag g a b) := by
  unfold eflag
  obtain ⟨f1, f2⟩ := createEdge_find lim g s e inh a b
  constructor
  · intro h; rw [f1 h]; rfl
  · intro h; rw [f2 h]

/-- the write condition of a fold of `createEdge` calls with one flag -/
def foldWrites (lim : Option Nat) (g : PGraph Str) (l : List (Str × Str)) (a b : Str) : Prop :=
  ∃ pc ∈ l, flattenNode lim pc.1 = a ∧ flattenNode lim pc.2 = b ∧ a ≠ b ∧ a ∈ g.nodes ∧ b ∈ g.nodes

theorem edgeFold_eflag (lim : Option Nat) (inh : Bool) (l : List (Str × Str)) (g : PGraph Str) (a b : Str) :
    (foldWrites lim g l a b → eflag (l.foldl (fun g pc => createEdge lim g pc.1 pc.2 inh) g) a b = some inh) ∧
    (¬ foldWrites lim g l a b → eflag (l.foldl (fun g pc => createEdge lim g pc.1 pc.2 inh) g) a b = eflag g a b) := by
  induction l generalizing g with
  | nil =>
    constructor
    · rintro ⟨pc, h, -⟩; cases h
    · intro _; rfl
  | cons p ps ih =>
    simp only [List.foldl_cons]
    obtain ⟨i1, i2⟩ := ih (createEdge lim g p.1 p.2 inh)
    obtain ⟨c1, c2⟩ := createEdge_eflag lim g p.1 p.2 inh a b
    have hfw : foldWrites lim (createEdge lim g p.1 p.2 inh) ps a b ↔ foldWrites lim g ps a b := by
      unfold foldWrites; rw [createEdge_nodes]
    by_cases hps : foldWrites lim g ps a b
    · have r := i1 (hfw.2 hps)
      constructor
      · intro _; exact r
      · intro hn
        exfalso; apply hn
        obtain ⟨pc, hpc, h⟩ := hps
        exact ⟨pc, List.mem_cons_of_mem _ hpc, h⟩
    · have r := i2 (fun h => hps (hfw.1 h))
      rw [r]
      by_cases hw : writes lim g p.1 p.2 ∧ a = flattenNode lim p.1 ∧ b = flattenNode lim p.2
      · constructor
        · intro _; exact c1 hw
        · intro hn
          exfalso; apply hn
          obtain ⟨⟨h1, h2, h3⟩, rfl, rfl⟩ := hw
          exact ⟨p, List.mem_cons_self, rfl, rfl, h1, h2, h3⟩
      · constructor
        · rintro ⟨pc, hpc, h1, h2, h3, h4, h5⟩
          exfalso
          rcases List.mem_cons.1 hpc with rfl | hpc
          · apply hw
            subst h1 h2
            exact ⟨⟨h3, h4, h5⟩, rfl, rfl⟩
          · exact hps ⟨pc, hpc, h1, h2, h3, h4, h5⟩
        · intro _; exact c2 hw

theorem edgeFold_U (lim : Option Nat) (inh : Bool) (l : List (Str × Str)) (g : PGraph Str) (hU : U g) :
    U (l.foldl (fun g pc => createEdge lim g pc.1 pc.2 inh) g) := by
  induction l generalizing g with
  | nil => exact hU
  | cons p ps ih => exact ih _ (createEdge_U lim g p.1 p.2 inh hU)

/-! ### `createNode` when the node exists -/

theorem createNode_of_mem (lim : Option Nat) (g : PGraph Str) (n : Str) (h : flattenNode lim n ∈ g.nodes) :
    createNode lim g n = g := by
  unfold createNode
  simp only
  rw [(hasNode_iff g _).2 h]
  rfl

theorem nodeFold_of_mem (lim : Option Nat) (ps : List Str) (g : PGraph Str) (h : ∀ p ∈ ps, flattenNode lim p ∈ g.nodes) :
    ps.foldl (createNode lim) g = g := by
  induction ps with
  | nil => rfl
  | cons p ps ih =>
    simp only [List.foldl_cons]
    rw [createNode_of_mem lim g p (h p List.mem_cons_self)]
    exact ih (fun q hq => h q (List.mem_cons_of_mem _ hq))

/-! ### `addHierarchy` with `parents = parentModules child` -/

theorem addHierarchy_nodes (lim : Option Nat) (g : PGraph Str) (ps : List Str) (c s : Str) :
    s ∈ (addHierarchy lim g ps c).nodes ↔ s ∈ g.nodes ∨ ∃ p ∈ ps, s = flattenNode lim p := by
  unfold addHierarchy
  simp only
  rw [edgeFold_nodes, nodeFold_nodes]

theorem addHierarchy_U (lim : Option Nat) (g : PGraph Str) (ps : List Str) (c : Str) (hU : U g) :
    U (addHierarchy lim g ps c) := by
  unfold addHierarchy
  simp only
  exact edgeFold_U lim true _ _ (U_congr (nodeFold_edges lim ps g) hU)

/-- node set closed under taking chain members (dotted ancestors) -/
def closed (g : PGraph Str) : Prop := ∀ e ∈ g.nodes, ∀ s ∈ chain e, s ∈ g.nodes

theorem closed_hier {g : PGraph Str} (hc : closed g) {a b : Str} (h : hierPair a b) (hb : b ∈ g.nodes) : a ∈ g.nodes :=
  hc b hb a (parent_mem_chain (hierPair_parent h))

/-- the edge fold over the chain of `m` on a graph whose nodes are closed -/
theorem chainFold_eflag (lim : Option Nat) (g : PGraph Str) (m : Str) (hc : closed g) (a b : Str) :
    (hierPair a b ∧ b ∈ chain (flattenNode lim m) ∧ b ∈ g.nodes →
      eflag ((consecutive (chain m)).foldl (fun g pc => createEdge lim g pc.1 pc.2 true) g) a b = some true) ∧
    (¬ (hierPair a b ∧ b ∈ chain (flattenNode lim m) ∧ b ∈ g.nodes) →
      eflag ((consecutive (chain m)).foldl (fun g pc => createEdge lim g pc.1 pc.2 true) g) a b = eflag g a b) := by
  obtain ⟨f1, f2⟩ := edgeFold_eflag lim true (consecutive (chain m)) g a b
  have key : foldWrites lim g (consecutive (chain m)) a b ↔
      (hierPair a b ∧ b ∈ chain (flattenNode lim m) ∧ b ∈ g.nodes) := by
    constructor
    · rintro ⟨pc, hpc, h1, h2, h3, h4, h5⟩
      obtain ⟨hp, hb⟩ := (flatten_pairs_iff lim m a b).1 ⟨pc, hpc, h1, h2, h3⟩
      exact ⟨hp, hb, h5⟩
    · rintro ⟨hp, hb, hn⟩
      obtain ⟨pc, hpc, h1, h2, h3⟩ := (flatten_pairs_iff lim m a b).2 ⟨hp, hb⟩
      exact ⟨pc, hpc, h1, h2, h3, closed_hier hc hp hn, hn⟩
  exact ⟨fun h => f1 (key.2 h), fun h => f2 (fun h' => h (key.1 h'))⟩

/-! ### phase 1: `addAllModules` -/

/-- state after adding modules: closed nodes, exactly the immediate-parent pairs into nodes, all flagged `true` -/
def Inv1 (g : PGraph Str) : Prop :=
  U g ∧ closed g ∧
  ∀ a b, (hierPair a b ∧ b ∈ g.nodes → eflag g a b = some true) ∧ (¬ (hierPair a b ∧ b ∈ g.nodes) → eflag g a b = none)

theorem step_module (lim : Option Nat) (g : PGraph Str) (m : Str) (hg : Inv1 g) :
    Inv1 (addHierarchy lim (createNode lim g m) (parentModules m) m) ∧
    ∀ s, s ∈ (addHierarchy lim (createNode lim g m) (parentModules m) m).nodes ↔
      s ∈ g.nodes ∨ s ∈ chain (flattenNode lim m) := by
  obtain ⟨hU, hc, hfl⟩ := hg
  have hnodes : ∀ s, s ∈ (addHierarchy lim (createNode lim g m) (parentModules m) m).nodes ↔
      s ∈ g.nodes ∨ s ∈ chain (flattenNode lim m) := by
    intro s
    rw [addHierarchy_nodes, createNode_nodes, ← flatten_nodes_iff]
    exact or_assoc
  refine ⟨?_, hnodes⟩
  -- the graph after the node creations
  have hmid_nodes : ∀ s, s ∈ ((parentModules m).foldl (createNode lim) (createNode lim g m)).nodes ↔
      s ∈ g.nodes ∨ s ∈ chain (flattenNode lim m) := by
    intro s
    rw [nodeFold_nodes, createNode_nodes, ← flatten_nodes_iff]
    exact or_assoc
  have hmid_edges : ((parentModules m).foldl (createNode lim) (createNode lim g m)).edges = g.edges := by
    rw [nodeFold_edges, createNode_edges]
  have hmid_closed : closed ((parentModules m).foldl (createNode lim) (createNode lim g m)) := by
    intro e he s hs
    rw [hmid_nodes] at he ⊢
    rcases he with he | he
    · exact Or.inl (hc e he s hs)
    · exact Or.inr (chain_trans hs he)
  have hshape : addHierarchy lim (createNode lim g m) (parentModules m) m =
      (consecutive (chain m)).foldl (fun g pc => createEdge lim g pc.1 pc.2 true)
        ((parentModules m).foldl (createNode lim) (createNode lim g m)) := rfl
  refine ⟨addHierarchy_U lim _ _ _ (U_congr (createNode_edges lim g m) hU), ?_, ?_⟩
  · intro e he s hs
    rw [hnodes] at he ⊢
    rcases he with he | he
    · exact Or.inl (hc e he s hs)
    · exact Or.inr (chain_trans hs he)
  · intro a b
    obtain ⟨k1, k2⟩ := chainFold_eflag lim _ m hmid_closed a b
    rw [← hshape] at k1 k2
    simp only [hmid_nodes] at k1 k2
    rw [eflag_congr hmid_edges] at k2
    simp only [hnodes]
    obtain ⟨o1, o2⟩ := hfl a b
    constructor
    · rintro ⟨hp, hb⟩
      by_cases hbc : b ∈ chain (flattenNode lim m)
      · exact k1 ⟨hp, hbc, Or.inr hbc⟩
      · rw [k2 (fun h => hbc h.2.1)]
        rcases hb with hb | hb
        · exact o1 ⟨hp, hb⟩
        · exact absurd hb hbc
    · intro hn
      rw [k2 (fun h => hn ⟨h.1, h.2.2⟩)]
      exact o2 (fun h => hn ⟨h.1, Or.inl h.2⟩)

theorem modules_inv (lim : Option Nat) (mods : List Str) (g : PGraph Str) (hg : Inv1 g) :
    Inv1 (addAllModules lim g mods) ∧
    ∀ s, s ∈ (addAllModules lim g mods).nodes ↔ s ∈ g.nodes ∨ ∃ m ∈ mods, s ∈ chain (flattenNode lim m) := by
  unfold addAllModules
  induction mods generalizing g with
  | nil => exact ⟨hg, by simp⟩
  | cons m ms ih =>
    simp only [List.foldl_cons]
    obtain ⟨s1, s2⟩ := step_module lim g m hg
    obtain ⟨i1, i2⟩ := ih _ s1
    refine ⟨i1, ?_⟩
    intro s
    rw [i2, s2]
    simp only [List.mem_cons, exists_eq_or_imp]
    exact or_assoc

theorem Inv1_empty : Inv1 (PGraph.empty : PGraph Str) := by
  refine ⟨?_, ?_, ?_⟩
  · intro x hx; cases hx
  · intro e he; cases he
  · intro a b
    constructor
    · rintro ⟨-, h⟩; cases h
    · intro _; rfl

/-! ### phase 2: the imports -/

/-- an import edge `a → b` has been requested by one of `done` (with both flattened ends nodes); with a level limit
    only imports between known modules count (`skipImportEdge … = false`) -/
def Imp (lim : Option Nat) (known : List Str) (g : PGraph Str) (done : List ImportRec) (a b : Str) : Prop :=
  a ≠ b ∧ a ∈ g.nodes ∧ b ∈ g.nodes ∧
    ∃ i ∈ done, skipImportEdge lim known i = false ∧ flattenNode lim i.importer = a ∧ flattenNode lim i.importee = b

def Inv2 (lim : Option Nat) (known : List Str) (N : List Str) (done : List ImportRec) (g : PGraph Str) : Prop :=
  g.nodes = N ∧ U g ∧ closed g ∧
  (∀ a b, hierPair a b → (b ∈ g.nodes → eflag g a b = some true) ∧ (b ∉ g.nodes → eflag g a b = none)) ∧
  (∀ a b, ¬ hierPair a b → (Imp lim known g done a b → eflag g a b = some false) ∧
    (¬ Imp lim known g done a b → eflag g a b = none))

/-- the write condition of the (guarded) first stage of `addImport` -/
def writes1 (lim : Option Nat) (known : List Str) (g : PGraph Str) (i : ImportRec) : Prop :=
  skipImportEdge lim known i = false ∧ writes lim g i.importer i.importee

/-- the guarded first stage of `addImport` as a functional update -/
theorem first_eflag (lim : Option Nat) (known : List Str) (g : PGraph Str) (i : ImportRec) (a b : Str) :
    (writes1 lim known g i ∧ a = flattenNode lim i.importer ∧ b = flattenNode lim i.importee →
      eflag (if skipImportEdge lim known i then g else createEdge lim g i.importer i.importee false) a b = some false) ∧
    (¬ (writes1 lim known g i ∧ a = flattenNode lim i.importer ∧ b = flattenNode lim i.importee) →
      eflag (if skipImportEdge lim known i then g else createEdge lim g i.importer i.importee false) a b = eflag g a b) := by
  obtain ⟨w1, n1⟩ := createEdge_eflag lim g i.importer i.importee false a b
  unfold writes1
  cases hs : skipImportEdge lim known i with
  | true =>
    simp only [if_true]
    exact ⟨fun h => (by cases h.1.1), fun _ => trivial⟩
  | false =>
    simp only [Bool.false_eq_true, if_false, true_and]
    exact ⟨w1, n1⟩

theorem first_U (lim : Option Nat) (known : List Str) (g : PGraph Str) (i : ImportRec) (hU : U g) :
    U (if skipImportEdge lim known i then g else createEdge lim g i.importer i.importee false) := by
  split
  · exact hU
  · exact createEdge_U lim g _ _ false hU

theorem step_import (lim : Option Nat) (known : List Str) (N : List Str) (done : List ImportRec) (g : PGraph Str)
    (i : ImportRec)
    (hg : Inv2 lim known N done g) (hX : flattenNode lim i.importer ∈ N) (hpar : i.importeeParents = parentModules i.importee) :
    Inv2 lim known N (done ++ [i]) (addImport lim known g i) := by
  obtain ⟨hN, hU, hc, hh, hi⟩ := hg
  subst hN
  -- unfold the three stages
  let g1 := if skipImportEdge lim known i then g else createEdge lim g i.importer i.importee false
  have hg1n : g1.nodes = g.nodes := addImport_nodes_first lim known g i
  have hpX : ∀ p ∈ parentModules i.importer, flattenNode lim p ∈ g1.nodes := by
    intro p hp
    rw [hg1n]
    exact hc _ hX _ (flatten_chain_mono lim (parent_mem_chain hp))
  have hg2 : addHierarchy lim g1 (parentModules i.importer) i.importer =
      (consecutive (chain i.importer)).foldl (fun g pc => createEdge lim g pc.1 pc.2 true) g1 := by
    unfold addHierarchy
    simp only
    rw [nodeFold_of_mem lim _ g1 hpX]
    rfl
  let g2 := (consecutive (chain i.importer)).foldl (fun g pc => createEdge lim g pc.1 pc.2 true) g1
  have hg2n : g2.nodes = g.nodes := by rw [edgeFold_nodes]; exact hg1n
  have hshape : addImport lim known g i =
      (consecutive (chain i.importee)).foldl (fun g pc => createEdge lim g pc.1 pc.2 true) g2 := by
    unfold addImport
    simp only
    rw [hg2, hpar]
    rfl
  have hc1 : closed g1 := by intro e he s hs; rw [hg1n] at he ⊢; exact hc e he s hs
  have hc2 : closed g2 := by intro e he s hs; rw [hg2n] at he ⊢; exact hc e he s hs
  have hU1 : U g1 := first_U lim known g i hU
  have hU2 : U g2 := edgeFold_U lim true _ _ hU1
  have hn3 : (addImport lim known g i).nodes = g.nodes := by rw [hshape, edgeFold_nodes]; exact hg2n
  have hc3 : closed (addImport lim known g i) := by intro e he s hs; rw [hn3] at he ⊢; exact hc e he s hs
  refine ⟨hn3, by rw [hshape]; exact edgeFold_U lim true _ _ hU2, hc3, ?_, ?_⟩
  · intro a b hp
    obtain ⟨w3, n3⟩ := chainFold_eflag lim g2 i.importee hc2 a b
    obtain ⟨w2, n2⟩ := chainFold_eflag lim g1 i.importer hc1 a b
    obtain ⟨w1, n1⟩ := first_eflag lim known g i a b
    rw [← hshape] at w3 n3
    rw [hg2n] at w3 n3
    rw [hg1n] at w2 n2
    rw [hn3]
    obtain ⟨o1, o2⟩ := hh a b hp
    constructor
    · intro hb
      by_cases c3 : b ∈ chain (flattenNode lim i.importee)
      · exact w3 ⟨hp, c3, hb⟩
      · rw [n3 (fun h => c3 h.2.1)]
        by_cases c2 : b ∈ chain (flattenNode lim i.importer)
        · exact w2 ⟨hp, c2, hb⟩
        · show eflag g2 a b = some true
          rw [n2 (fun h => c2 h.2.1)]
          by_cases c1 : writes1 lim known g i ∧ a = flattenNode lim i.importer ∧ b = flattenNode lim i.importee
          · exfalso
            apply c3
            rw [c1.2.2]
            exact self_mem_chain _
          · show eflag g1 a b = some true
            rw [n1 c1]
            exact o1 hb
    · intro hb
      rw [n3 (fun h => hb h.2.2)]
      show eflag g2 a b = none
      rw [n2 (fun h => hb h.2.2)]
      show eflag g1 a b = none
      rw [n1 (fun h => hb (by rw [h.2.2]; exact h.1.2.2.2))]
      exact o2 hb
  · intro a b hp
    obtain ⟨-, n3⟩ := chainFold_eflag lim g2 i.importee hc2 a b
    obtain ⟨-, n2⟩ := chainFold_eflag lim g1 i.importer hc1 a b
    obtain ⟨w1, n1⟩ := first_eflag lim known g i a b
    rw [← hshape] at n3
    obtain ⟨o1, o2⟩ := hi a b hp
    have e3 : eflag (addImport lim known g i) a b = eflag g1 a b := by
      rw [n3 (fun h => hp h.1)]
      show eflag g2 a b = _
      rw [n2 (fun h => hp h.1)]
    rw [e3]
    have himp : Imp lim known (addImport lim known g i) (done ++ [i]) a b ↔
        Imp lim known g done a b ∨
          (writes1 lim known g i ∧ a = flattenNode lim i.importer ∧ b = flattenNode lim i.importee) := by
      unfold Imp writes1 writes
      rw [hn3]
      constructor
      · rintro ⟨h1, h2, h3, j, hj, h6, h4, h5⟩
        rcases List.mem_append.1 hj with hj | hj
        · exact Or.inl ⟨h1, h2, h3, j, hj, h6, h4, h5⟩
        · simp only [List.mem_singleton] at hj
          subst hj
          subst h4 h5
          exact Or.inr ⟨⟨h6, h1, h2, h3⟩, rfl, rfl⟩
      · rintro (⟨h1, h2, h3, j, hj, h6, h4, h5⟩ | ⟨⟨h6, h1, h2, h3⟩, rfl, rfl⟩)
        · exact ⟨h1, h2, h3, j, List.mem_append_left _ hj, h6, h4, h5⟩
        · exact ⟨h1, h2, h3, i, by simp, h6, rfl, rfl⟩
    constructor
    · intro h
      by_cases c1 : writes1 lim known g i ∧ a = flattenNode lim i.importer ∧ b = flattenNode lim i.importee
      · exact w1 c1
      · show eflag g1 a b = some false
        rw [n1 c1]
        rcases himp.1 h with h | h
        · exact o1 h
        · exact absurd h c1
    · intro h
      have c1 : ¬ (writes1 lim known g i ∧ a = flattenNode lim i.importer ∧ b = flattenNode lim i.importee) :=
        fun h' => h (himp.2 (Or.inr h'))
      show eflag g1 a b = none
      rw [n1 c1]
      exact o2 (fun h' => h (himp.2 (Or.inl h')))

theorem imports_inv (lim : Option Nat) (known : List Str) (N : List Str) (imps : List ImportRec)
    (himp : ∀ i ∈ imps, flattenNode lim i.importer ∈ N ∧ i.importeeParents = parentModules i.importee) :
    ∀ (done : List ImportRec) (g : PGraph Str), Inv2 lim known N done g →
      Inv2 lim known N (done ++ imps) (imps.foldl (addImport lim known) g) := by
  induction imps with
  | nil => intro done g hg; simpa using hg
  | cons i is ih =>
    intro done g hg
    simp only [List.foldl_cons]
    have h1 := step_import lim known N done g i hg (himp i List.mem_cons_self).1 (himp i List.mem_cons_self).2
    have := ih (fun j hj => himp j (List.mem_cons_of_mem _ hj)) (done ++ [i]) _ h1
    simpa using this

/-! ### the characterisation -/

/-- the nodes `buildGraph` creates for the module list -/
def NodeOf (lim : Option Nat) (mods : List Str) (s : Str) : Prop := ∃ m ∈ mods, s ∈ chain (flattenNode lim m)

/-- the known modules are exactly the nodes of the graph built WITHOUT a limit -/
theorem mem_knownModules_iff_nodeOf (mods : List Str) (s : Str) : s ∈ knownModules mods ↔ NodeOf none mods s := by
  rw [mem_knownModules]
  unfold NodeOf chain flattenNode
  simp only [List.mem_append, List.mem_singleton]
  constructor
  · rintro (h | ⟨m, hm, hp⟩)
    · exact ⟨s, h, Or.inr rfl⟩
    · exact ⟨m, hm, Or.inl hp⟩
  · rintro ⟨m, hm, hp | rfl⟩
    · exact Or.inr ⟨m, hm, hp⟩
    · exact Or.inl hm

theorem skip_false_of_nodeOf (lim : Option Nat) (mods : List Str) (i : ImportRec)
    (h1 : NodeOf none mods i.importer) (h2 : NodeOf none mods i.importee) :
    skipImportEdge lim (knownModules mods) i = false :=
  skipImportEdge_false_of_mem lim _ i ((mem_knownModules_iff_nodeOf mods _).2 h1)
    ((mem_knownModules_iff_nodeOf mods _).2 h2)

theorem nodeOf_of_skip_false (k : Nat) (mods : List Str) (i : ImportRec)
    (h : skipImportEdge (some k) (knownModules mods) i = false) :
    NodeOf none mods i.importer ∧ NodeOf none mods i.importee := by
  rw [skipImportEdge_some] at h
  exact ⟨(mem_knownModules_iff_nodeOf mods _).1 h.1, (mem_knownModules_iff_nodeOf mods _).1 h.2⟩

theorem buildGraph_char (mods : List Str) (imps : List ImportRec) (lim : Option Nat)
    (himp : ∀ i ∈ imps, NodeOf lim mods (flattenNode lim i.importer) ∧ i.importeeParents = parentModules i.importee) :
    (∀ s, s ∈ (buildGraph mods imps lim).nodes ↔ NodeOf lim mods s) ∧
    (∀ a b, (⟨a, b, true⟩ : Edge Str) ∈ (buildGraph mods imps lim).edges ↔ hierPair a b ∧ NodeOf lim mods b) ∧
    (∀ a b, (⟨a, b, false⟩ : Edge Str) ∈ (buildGraph mods imps lim).edges ↔
      ¬ hierPair a b ∧ a ≠ b ∧ NodeOf lim mods a ∧ NodeOf lim mods b ∧
      ∃ i ∈ imps, skipImportEdge lim (knownModules mods) i = false ∧
        flattenNode lim i.importer = a ∧ flattenNode lim i.importee = b) := by
  obtain ⟨p1, p1n⟩ := modules_inv lim mods PGraph.empty Inv1_empty
  have hn0 : ∀ s, s ∈ (addAllModules lim PGraph.empty mods).nodes ↔ NodeOf lim mods s := by
    intro s
    rw [p1n]
    simp [PGraph.empty, NodeOf]
  obtain ⟨hU1, hc1, hf1⟩ := p1
  have h2 : Inv2 lim (knownModules mods) (addAllModules lim PGraph.empty mods).nodes [] (addAllModules lim PGraph.empty mods) := by
    refine ⟨rfl, hU1, hc1, ?_, ?_⟩
    · intro a b hp
      exact ⟨fun hb => (hf1 a b).1 ⟨hp, hb⟩, fun hb => (hf1 a b).2 (fun h => hb h.2)⟩
    · intro a b hp
      constructor
      · rintro ⟨-, -, -, j, hj, -⟩; cases hj
      · intro _; exact (hf1 a b).2 (fun h => hp h.1)
  have h3 := imports_inv lim (knownModules mods) _ imps (fun i hi => ⟨(hn0 _).2 (himp i hi).1, (himp i hi).2⟩) [] _ h2
  simp only [List.nil_append] at h3
  obtain ⟨hN, hU, hc, hh, hi⟩ := h3
  have hnodes : ∀ s, s ∈ (buildGraph mods imps lim).nodes ↔ NodeOf lim mods s := by
    intro s
    unfold buildGraph
    rw [hN]
    exact hn0 s
  have hU' : U (buildGraph mods imps lim) := hU
  refine ⟨hnodes, ?_, ?_⟩
  · intro a b
    rw [mem_iff_eflag hU', ← hnodes]
    constructor
    · intro h
      by_cases hp : hierPair a b
      · refine ⟨hp, ?_⟩
        apply Classical.byContradiction
        intro hb
        have := (hh a b hp).2 hb
        unfold buildGraph at h
        rw [this] at h; cases h
      · exfalso
        unfold buildGraph at h
        by_cases hI : Imp lim (knownModules mods) (imps.foldl (addImport lim (knownModules mods)) (addAllModules lim PGraph.empty mods)) imps a b
        · rw [(hi a b hp).1 hI] at h; cases h
        · rw [(hi a b hp).2 hI] at h; cases h
    · rintro ⟨hp, hb⟩
      exact (hh a b hp).1 hb
  · intro a b
    rw [mem_iff_eflag hU']
    simp only [← hnodes]
    constructor
    · intro h
      unfold buildGraph at h
      by_cases hp : hierPair a b
      · exfalso
        by_cases hb : b ∈ (imps.foldl (addImport lim (knownModules mods)) (addAllModules lim PGraph.empty mods)).nodes
        · rw [(hh a b hp).1 hb] at h; cases h
        · rw [(hh a b hp).2 hb] at h; cases h
      · refine ⟨hp, ?_⟩
        apply Classical.byContradiction
        intro hI
        have : ¬ Imp lim (knownModules mods) (imps.foldl (addImport lim (knownModules mods)) (addAllModules lim PGraph.empty mods)) imps a b := hI
        rw [(hi a b hp).2 this] at h; cases h
    · rintro ⟨hp, h1, h2, h3, h4⟩
      exact (hi a b hp).1 ⟨h1, h2, h3, h4⟩

end ExtBuild
end Pta
