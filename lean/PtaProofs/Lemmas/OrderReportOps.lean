/-
  PtaProofs.Lemmas.OrderReportOps — order independence at the level of the fluent API (namespace `Pta.OrdR`, the
  `…_lemma`s in `Pta`): two call chains that differ only in the order in which module names / layer names are listed
  inside `are_named(...)`, `are_sub_modules_of(...)`, `have_name_containing(...)` (and, for layer rules, in the order in
  which the layers of the architecture were defined) give the same outcome — the same error raised by the same call, or
  the same verdict with the same message lines. Built on `Lemmas/OrderReport.lean`.
-/
import PtaProofs.Lemmas.OrderReport
import PtaProofs.Lemmas.Builders
namespace Pta.OrdR
open Pta PtaSpec Pta.Ord Pta.OrdS Pta.Itm

/-! ### module rules -/

/-- fluent calls that differ only in the order in which names are listed -/
inductive RuleOpPerm : RuleOp → RuleOp → Prop
  | refl (op : RuleOp) : RuleOpPerm op op
  | areNamed {ns ns' : List Str} (h : ns.Perm ns') : RuleOpPerm (.areNamed ns) (.areNamed ns')
  | areSubModulesOf {ns ns' : List Str} (h : ns.Perm ns') : RuleOpPerm (.areSubModulesOf ns) (.areSubModulesOf ns')
  | haveNameContaining {ps ps' : List Str} (h : ps.Perm ps') : RuleOpPerm (.haveNameContaining ps) (.haveNameContaining ps')

/-- rule objects in the same builder state, up to the order of their subject / object lists -/
def SRel (s s' : RuleState) : Prop := CfgRel s.cfg s'.cfg ∧ s.next = s'.next

theorem SRel.refl (s : RuleState) : SRel s s := ⟨CfgRel.refl _, rfl⟩

theorem setModules_rel {s s' : RuleState} (h : SRel s s') {ms ms' : List Filter} (hm : SM ms ms') :
    ERel SRel (s.setModules ms) (s'.setModules ms') := by
  obtain ⟨hc, hn⟩ := h
  unfold RuleState.setModules
  rw [← hn]
  cases s.next with
  | none => rfl
  | some b =>
    cases b
    · exact ⟨⟨hc.subjects, hm, hc.dropped, hc.should, hc.shouldOnly, hc.shouldNot, hc.exceptPresent, hc.importDir,
        hc.anything⟩, rfl⟩
    · exact ⟨⟨hm, hc.objects, hc.dropped, hc.should, hc.shouldOnly, hc.shouldNot, hc.exceptPresent, hc.importDir,
        hc.anything⟩, rfl⟩

theorem step_rel (glob : Str → Str) {s s' : RuleState} (h : SRel s s') {op op' : RuleOp} (ho : RuleOpPerm op op') :
    ERel SRel (s.step glob op) (s'.step glob op') := by
  cases ho with
  | areNamed hp => exact setModules_rel h (SM.of_perm (hp.map _))
  | areSubModulesOf hp => exact setModules_rel h (SM.of_perm (hp.map _))
  | haveNameContaining hp => exact setModules_rel h (SM.of_perm (hp.map _))
  | refl op =>
    obtain ⟨hc, hn⟩ := h
    cases op with
    | modulesThat => exact ⟨hc, rfl⟩
    | areNamed ns => exact setModules_rel ⟨hc, hn⟩ (SM.refl _)
    | areSubModulesOf ns => exact setModules_rel ⟨hc, hn⟩ (SM.refl _)
    | haveNameMatching p => exact setModules_rel ⟨hc, hn⟩ (SM.refl _)
    | haveNameContaining ps => exact setModules_rel ⟨hc, hn⟩ (SM.refl _)
    | should =>
      exact ⟨⟨hc.subjects, hc.objects, hc.dropped, rfl, hc.shouldOnly, hc.shouldNot, hc.exceptPresent, hc.importDir, hc.anything⟩, hn⟩
    | shouldOnly =>
      exact ⟨⟨hc.subjects, hc.objects, hc.dropped, hc.should, rfl, hc.shouldNot, hc.exceptPresent, hc.importDir, hc.anything⟩, hn⟩
    | shouldNot =>
      exact ⟨⟨hc.subjects, hc.objects, hc.dropped, hc.should, hc.shouldOnly, rfl, hc.exceptPresent, hc.importDir, hc.anything⟩, hn⟩
    | importThat =>
      exact ⟨⟨hc.subjects, hc.objects, hc.dropped, hc.should, hc.shouldOnly, hc.shouldNot, hc.exceptPresent, rfl, hc.anything⟩, rfl⟩
    | beImportedByThat =>
      exact ⟨⟨hc.subjects, hc.objects, hc.dropped, hc.should, hc.shouldOnly, hc.shouldNot, hc.exceptPresent, rfl, hc.anything⟩, rfl⟩
    | importExcept =>
      exact ⟨⟨hc.subjects, hc.objects, hc.dropped, hc.should, hc.shouldOnly, hc.shouldNot, rfl, rfl, hc.anything⟩, rfl⟩
    | beImportedByExcept =>
      exact ⟨⟨hc.subjects, hc.objects, hc.dropped, hc.should, hc.shouldOnly, hc.shouldNot, rfl, rfl, hc.anything⟩, rfl⟩
    | importAnything =>
      exact ⟨⟨hc.subjects, hc.objects, hc.dropped, hc.should, hc.shouldOnly, hc.shouldNot, hc.exceptPresent, rfl, rfl⟩, rfl⟩
    | beImportedByAnything =>
      exact ⟨⟨hc.subjects, hc.objects, hc.dropped, hc.should, hc.shouldOnly, hc.shouldNot, hc.exceptPresent, rfl, rfl⟩, rfl⟩

theorem runRuleOpsTextGo_rel (glob : Str → Str) (mt : Str → Str → Bool) {g g' : PGraph Str} (hg : GraphEquiv g g')
    {ops ops' : List RuleOp} (ho : ListRel RuleOpPerm ops ops') :
    ∀ (s s' : RuleState) (i : Nat), SRel s s' →
      runRuleOpsTextGo glob mt g s i ops = runRuleOpsTextGo glob mt g' s' i ops' := by
  induction ho with
  | nil =>
    intro s s' i h
    simp only [runRuleOpsTextGo]
    rw [Pta.report_congr_lemma mt g g' hg s s' h.1]
  | cons hop _ ih =>
    intro s s' i h
    simp only [runRuleOpsTextGo]
    have hs := step_rel glob h hop
    cases h1 : s.step glob _ with
    | error k => rw [h1] at hs; rw [hs.error_left]
    | ok t =>
      rw [h1] at hs
      obtain ⟨t', ht', hr⟩ := hs.ok_left
      rw [ht']
      exact ih t t' (i + 1) hr

/-! ### layer rules -/

/-- layered architectures that look the same to `LayerRule`: the same layers in another definition order, and every
    layer name denotes the same filters -/
def ArchRel (a a' : LArch) : Prop := a.Perm a' ∧ ∀ n, a.get n = a'.get n

theorem ArchRel.refl (a : LArch) : ArchRel a a := ⟨List.Perm.refl _, fun _ => rfl⟩

theorem inj_of_nodup_map {α β : Type} (f : α → β) {l : List α} (hn : (l.map f).Nodup) {x y : α} (hx : x ∈ l) (hy : y ∈ l)
    (hxy : f x = f y) : x = y := by
  induction l with
  | nil => exact absurd hx List.not_mem_nil
  | cons a l ih =>
    rw [List.map_cons, List.nodup_cons] at hn
    rcases List.mem_cons.1 hx with h1 | h1 <;> rcases List.mem_cons.1 hy with h2 | h2
    · rw [h1, h2]
    · exact absurd (by rw [← h1, hxy]; exact List.mem_map_of_mem h2) hn.1
    · exact absurd (by rw [← h2, ← hxy]; exact List.mem_map_of_mem h1) hn.1
    · exact ih hn.2 h1 h2

/-- for architectures with distinct layer names (all the builder produces) a permutation is enough -/
theorem archRel_of_perm {a a' : LArch} (hp : a.Perm a') (hn : (a.map (·.1)).Nodup) : ArchRel a a' := by
  refine ⟨hp, fun n => ?_⟩
  unfold LArch.get
  have hn' : (a'.map (·.1)).Nodup := (hp.map _).nodup_iff.1 hn
  cases h1 : a.find? (·.1 == n) with
  | none =>
    have : a'.find? (·.1 == n) = none := by
      rw [List.find?_eq_none] at h1 ⊢
      intro x hx
      exact h1 x (hp.mem_iff.2 hx)
    rw [this]
  | some l =>
    have hl := List.mem_of_find?_eq_some h1
    have hln := List.find?_some h1
    cases h2 : a'.find? (·.1 == n) with
    | none =>
      rw [List.find?_eq_none] at h2
      exact absurd hln (h2 l (hp.mem_iff.1 hl))
    | some l' =>
      have hl' := hp.mem_iff.2 (List.mem_of_find?_eq_some h2)
      have hln' := List.find?_some h2
      have : l = l' := by
        apply inj_of_nodup_map (·.1) hn hl hl'
        rw [beq_iff_eq] at hln hln'
        show l.1 = l'.1
        rw [hln, hln']
      rw [this]

inductive LayerRuleOpPerm : LayerRuleOp → LayerRuleOp → Prop
  | refl (op : LayerRuleOp) : LayerRuleOpPerm op op
  | areNamed {ls ls' : List Str} (isList : Bool) (h : ls.Perm ls') : LayerRuleOpPerm (.areNamed ls isList) (.areNamed ls' isList)
  | basedOn {a a' : LArch} (h : ArchRel a a') : LayerRuleOpPerm (.basedOn a) (.basedOn a')

def LSRel (s s' : LayerRuleState) : Prop := ORel ArchRel s.arch s'.arch ∧ ORel SRel s.rule s'.rule

theorem LSRel.refl (s : LayerRuleState) : LSRel s s := by
  rcases s with ⟨a, r⟩
  constructor
  · cases a <;> simp [ORel, ArchRel.refl]
  · cases r <;> simp [ORel, SRel.refl]

theorem addModules_rel {r r' : RuleState} (h : SRel r r') {ms ms' : List Filter} (hm : SM ms ms') :
    SRel (r.addModules ms) (r'.addModules ms') := by
  obtain ⟨hc, hn⟩ := h
  unfold RuleState.addModules
  rw [← hn]
  have h1 := hc.subjects
  have h2 := hc.objects
  split
  · refine ⟨⟨?_, hc.objects, hc.dropped, hc.should, hc.shouldOnly, hc.shouldNot, hc.exceptPresent, hc.importDir, hc.anything⟩, rfl⟩
    rcases r with ⟨⟨s, _, _, _, _, _, _, _, _⟩, _⟩
    rcases r' with ⟨⟨s', _, _, _, _, _, _, _, _⟩, _⟩
    cases s <;> cases s' <;> simp only [ORel] at h1 ⊢
    · exact SM.append (SM.refl _) hm
    · exact SM.append h1 hm
  · refine ⟨⟨hc.subjects, ?_, hc.dropped, hc.should, hc.shouldOnly, hc.shouldNot, hc.exceptPresent, hc.importDir, hc.anything⟩, rfl⟩
    rcases r with ⟨⟨_, o, _, _, _, _, _, _, _⟩, _⟩
    rcases r' with ⟨⟨_, o', _, _, _, _, _, _, _⟩, _⟩
    cases o <;> cases o' <;> simp only [ORel] at h2 ⊢
    · exact SM.append (SM.refl _) hm
    · exact SM.append h2 hm

/-- the `Rule` call a `LayerRule` call forwards to (none for the three calls `LayerRule` handles itself) -/
def ropOf : LayerRuleOp → Option RuleOp
  | .should => some .should | .shouldOnly => some .shouldOnly | .shouldNot => some .shouldNot
  | .access => some .importThat | .beAccessedBy => some .beImportedByThat
  | .accessExcept => some .importExcept | .beAccessedByExcept => some .beImportedByExcept
  | .accessAny => some .importAnything | .beAccessedByAny => some .beImportedByAnything
  | _ => none

theorem step_forward (s : LayerRuleState) (op : LayerRuleOp) (rop : RuleOp) (h : ropOf op = some rop) :
    s.step op = match s.rule with
      | none => .error .improperlyConfigured
      | some r => (r.step noGlob rop).map fun r' => { s with rule := some r' } := by
  cases op <;> simp only [ropOf, reduceCtorEq, Option.some.injEq] at h <;> subst h <;> rfl

theorem forward_rel {s s' : LayerRuleState} (h : LSRel s s') (rop : RuleOp) :
    ERel LSRel
      (match s.rule with
        | none => .error .improperlyConfigured
        | some r => (r.step noGlob rop).map fun r' => { s with rule := some r' })
      (match s'.rule with
        | none => .error .improperlyConfigured
        | some r => (r.step noGlob rop).map fun r' => { s' with rule := some r' }) := by
  obtain ⟨ha, hr⟩ := h
  rcases s with ⟨a, r⟩
  rcases s' with ⟨a', r'⟩
  cases r <;> cases r' <;> simp only [ORel] at hr
  · rfl
  · exact ERel.map_rel _ _ (step_rel noGlob hr (RuleOpPerm.refl rop)) (fun t t' ht => ⟨ha, ht⟩)

theorem areNamed_rel {s s' : LayerRuleState} (h : LSRel s s') {ls ls' : List Str} (isList : Bool) (hp : ls.Perm ls') :
    ERel LSRel (s.step (.areNamed ls isList)) (s'.step (.areNamed ls' isList)) := by
  obtain ⟨ha, hr⟩ := h
  rcases s with ⟨a, r⟩
  rcases s' with ⟨a', r'⟩
  cases r <;> cases r' <;> simp only [ORel] at hr
  · rfl
  · rename_i r r'
    cases a <;> cases a' <;> simp only [ORel] at ha
    · rfl
    · rename_i a a'
      have hget : a'.get = a.get := funext fun n => (ha.2 n).symm
      have tail : ERel LSRel
          (do let ms ← ls.mapM a.get
              pure ({ arch := some a, rule := some (r.addModules ms.flatten) } : LayerRuleState))
          (do let ms ← ls'.mapM a'.get
              pure ({ arch := some a', rule := some (r'.addModules ms.flatten) } : LayerRuleState)) := by
        rw [hget]
        refine OrdL.ERel.bind (OrdL.layers_get_perm a hp) fun ms ms' hms => ?_
        exact ⟨ha, addModules_rel hr (SM.of_perm hms)⟩
      have h1 := hr.1.subjects
      have hn := hr.2
      simp only [LayerRuleState.step]
      rw [← hn]
      generalize r.addModules = F at tail
      generalize r'.addModules = F' at tail
      rcases r with ⟨⟨sub, _, _, _, _, _, _, _, _⟩, nx⟩
      rcases r' with ⟨⟨sub', _, _, _, _, _, _, _, _⟩, nx'⟩
      simp only at h1 ⊢
      cases sub <;> cases sub' <;> simp only [ORel] at h1 <;> simp only []
      · split
        · rfl
        · split
          · rfl
          · exact tail
      · simp only [isEmpty_congr (SM.nil_iff h1)]
        split
        · rfl
        · split
          · rfl
          · exact tail

theorem basedOn_rel {s s' : LayerRuleState} (h : LSRel s s') {a a' : LArch} (hab : ArchRel a a') :
    ERel LSRel (s.step (.basedOn a)) (s'.step (.basedOn a')) := by
  obtain ⟨ha, hr⟩ := h
  rcases s with ⟨x, r⟩
  rcases s' with ⟨x', r'⟩
  simp only [LayerRuleState.step]
  cases x <;> cases x' <;> simp only [ORel] at ha
  · exact ⟨hab, hr⟩
  · rfl

theorem layersThat_rel {s s' : LayerRuleState} (h : LSRel s s') :
    ERel LSRel (s.step .layersThat) (s'.step .layersThat) := by
  obtain ⟨ha, hr⟩ := h
  rcases s with ⟨x, r⟩
  rcases s' with ⟨x', r'⟩
  simp only [LayerRuleState.step]
  cases x <;> cases x' <;> simp only [ORel] at ha
  · rfl
  · exact ⟨ha, SRel.refl _⟩

theorem layerStep_rel {s s' : LayerRuleState} (h : LSRel s s') {op op' : LayerRuleOp} (ho : LayerRuleOpPerm op op') :
    ERel LSRel (s.step op) (s'.step op') := by
  cases ho with
  | areNamed isList hp => exact areNamed_rel h isList hp
  | basedOn hab => exact basedOn_rel h hab
  | refl op =>
    cases hop : ropOf op with
    | some rop =>
      rw [step_forward s op rop hop, step_forward s' op rop hop]
      exact forward_rel h rop
    | none =>
      cases op <;> simp only [ropOf, reduceCtorEq] at hop
      · exact basedOn_rel h (ArchRel.refl _)
      · exact layersThat_rel h
      · exact areNamed_rel h _ (List.Perm.refl _)

/-- `LayerRule.assert_applies` on related builder states -/
theorem assertAppliesLayerText_rel (mt : Str → Str → Bool) {g g' : PGraph Str} (hg : GraphEquiv g g')
    {s s' : LayerRuleState} (h : LSRel s s') : assertAppliesLayerText mt s g = assertAppliesLayerText mt s' g' := by
  obtain ⟨ha, hr⟩ := h
  rcases s with ⟨a, r⟩
  rcases s' with ⟨a', r'⟩
  cases r <;> cases r' <;> simp only [ORel] at hr
  · rfl
  · cases a <;> cases a' <;> simp only [ORel] at ha
    · rfl
    · exact Pta.report_layer_congr_lemma mt g g' hg _ _ ha.1 _ _ hr.1

theorem runLayerRuleOpsTextGo_rel (mt : Str → Str → Bool) {g g' : PGraph Str} (hg : GraphEquiv g g')
    {ops ops' : List LayerRuleOp} (ho : ListRel LayerRuleOpPerm ops ops') :
    ∀ (s s' : LayerRuleState) (i : Nat), LSRel s s' →
      runLayerRuleOpsTextGo mt g s i ops = runLayerRuleOpsTextGo mt g' s' i ops' := by
  induction ho with
  | nil =>
    intro s s' i h
    simp only [runLayerRuleOpsTextGo]
    rw [assertAppliesLayerText_rel mt hg h]
  | cons hop _ ih =>
    intro s s' i h
    simp only [runLayerRuleOpsTextGo]
    have hs := layerStep_rel h hop
    cases h1 : s.step _ with
    | error k => rw [h1] at hs; rw [hs.error_left]
    | ok t =>
      rw [h1] at hs
      obtain ⟨t', ht', hr⟩ := hs.ok_left
      rw [ht']
      exact ih t t' (i + 1) hr

end Pta.OrdR

namespace Pta
open PtaSpec

/-- two `Rule` call chains that differ only in the order in which names are listed inside a call -/
def RuleOpsUpToOrder (ops ops' : List RuleOp) : Prop := OrdR.ListRel OrdR.RuleOpPerm ops ops'

/-- two `LayerRule` call chains that differ only in the order in which layer names are listed inside `are_named` and in
    the definition order of the architecture handed to `based_on` -/
def LayerRuleOpsUpToOrder (ops ops' : List LayerRuleOp) : Prop := OrdR.ListRel OrdR.LayerRuleOpPerm ops ops'

/-- architectures the `LayeredArchitecture` builder produces have distinct layer names, so for them a permutation of
    the layer definitions is all `ArchRel` asks for -/
theorem archRel_of_builder_lemma (h : List LArchOp) (a a' : LArch) (ha : runLArch h = .ok a) (hp : a.Perm a') :
    OrdR.ArchRel a a' :=
  OrdR.archRel_of_perm hp (larch_invariant_lemma h a ha).1

theorem run_report_perm_lemma (glob : Str → Str) (mt : Str → Str → Bool) (g g' : PGraph Str) (hg : GraphEquiv g g')
    (ops ops' : List RuleOp) (h : RuleOpsUpToOrder ops ops') :
    runRuleOpsText glob mt ops g = runRuleOpsText glob mt ops' g' :=
  OrdR.runRuleOpsTextGo_rel glob mt hg h {} {} 0 (OrdR.SRel.refl _)

theorem run_layer_report_perm_lemma (mt : Str → Str → Bool) (g g' : PGraph Str) (hg : GraphEquiv g g')
    (ops ops' : List LayerRuleOp) (h : LayerRuleOpsUpToOrder ops ops') :
    runLayerRuleOpsText mt ops g = runLayerRuleOpsText mt ops' g' :=
  OrdR.runLayerRuleOpsTextGo_rel mt hg h {} {} 0 (OrdR.LSRel.refl _)

end Pta
